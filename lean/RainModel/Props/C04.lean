import RainModel.Lemmas.LoopWeak
import RainModel.Lemmas.LoopStart
import RainModel.Lemmas.LoopVerify2
import RainModel.Lemmas.LoopWInvDec
import RainModel.Lemmas.LoopVerifyFlag
import RainModel.Lemmas.LoopMetaStop
/-!
C04 — lifecycle safety, loop level (M-LOOP).  Two inductive invariants of the event loop, proved for every
event with arbitrary parameters, every state satisfying them, and every admissible choice of the picker:

* `CompInv` — the completion flags are truthful (`completed_sound`, `seeding_truthful`);
* `Life` — a stopped or stopping torrent holds nothing, what is loaded has its files, nothing exists before
  the metadata (`stopped_clean`, `life_invariant`);

and reachability statements about single commands: `stop_reaches_stopped` (with `stop_reaches_stopped_or_hangs`
and `waitstop_reaches_stopped` for stub trackers that do not answer the `stopped` event; since the fix of finding
C04-F6 without any hypothesis about a pending verification: `stop_withdraws_verify`,
`stop_during_requested_verify_ends_stopped`, and the `stopHeld…` forms for the stop command given while the
storage gates stay as they are), `start_not_dropped`
(a start is never dropped, in particular not while the torrent is stopping: fix C04-F3), `verify_ends_stopped`
(since the fix of finding C04-F4 also when none of the torrent's files exists: `verify_without_files_ends_stopped`,
the case the property text asks about; `no_stale_verify_flag`: a pending verification request is never
forgotten while the torrent runs normally), and `no_panic_partial` (handler by handler; the inductive
statement is `no_panic_full_partial` — see notes/loop-proofs.md).  Tie to the code: suite `lifecycle` (and `loop-dl`, `loop-magnet`).
-/
namespace Rain.Props.C04
open Rain.Loop

/-- **completed_sound.** `completeC` is closed iff `completed`; `completed` implies every bit is set (or the
bitfield has been dropped for a re-verification, in which case the torrent is not seeding); a torrent past
allocation and verification has a bitfield.  Preserved by every event. -/
theorem completed_sound (s : St) (p : Parked) (kn : Nat → Bool) (op : Op) (h : CompInv s) :
    CompInv (step s p kn op).1.st := step_comp s p kn op h

/-- The same along whole histories, with the implementation's choices adopted. -/
theorem completed_sound_run (s0 : St) (h0 : InitLike s0) (evs : List Ev) : CompInv (drun (s0, none) evs).1 :=
  drun_comp evs (s0, none) h0.comp

/-- **seeding_truthful.** Status `Seeding` ⇒ there is a bitfield and every bit is set. -/
theorem seeding_truthful (s : St) (c : CompInv s) (l : Life s) (hs : s.status = .seeding) :
    ∃ b, s.bf = some b ∧ allTrue b = true :=
  c.seeding hs (l.files_of_running (Or.inr hs)).2.2

/-- **life_invariant.** The lifecycle invariant is preserved by every event (any parameters, any state). -/
theorem life_invariant (s : St) (p : Parked) (kn : Nat → Bool) (op : Op) (h : Life s) :
    Life (step s p kn op).1.st := step_life s p kn op h

/-- … and by the adoption of the implementation's choices, when `reconcile` accepted them. -/
theorem life_invariant_run (s0 : St) (h0 : InitLike s0) (evs : List Ev) (ha : drunAdmissible (s0, none) evs) :
    Life (drun (s0, none) evs).1 := drun_life evs (s0, none) h0.life ha

/-- **stopped_clean.** Status `Stopped` ⇒ no peers, no piece or metadata downloads, no open file handle, no
leaked handle, no allocator, verifier or acceptor. -/
theorem stopped_clean (s : St) (l : Life s) (hs : s.status = .stopped) :
    s.peers = [] ∧ s.dls = [] ∧ s.idls = [] ∧ s.openFiles = [] ∧ s.leaked = 0 ∧
    s.allocator = false ∧ s.verifier = false ∧ s.acceptor = false := l.stopped_clean hs

/-- Downloading or seeding ⇒ the pieces are loaded and every file of the torrent exists. -/
theorem running_has_files (s : St) (l : Life s) (hs : s.status = .downloading ∨ s.status = .seeding) :
    s.loaded = true ∧ FilesExist s ∧ s.info = true := l.files_of_running hs

/-- **stop_reaches_stopped.** From any state satisfying the invariant, in any status, **with or without a
requested verification pending** (`doVerify`; since the fix of finding C04-F6 the stop command withdraws the
request — until then the theorem needed `doVerify = false`): after the `stop` command (and the worker
completions it releases) the status is `Stopped` — when no tracker leaves the `stopped` event unanswered
(`stopHang = false`; see `stop_reaches_stopped_or_hangs` for the other case). -/
theorem stop_reaches_stopped (s : St) (p : Parked) (kn : Nat → Bool) (l : Life s)
    (hp : s.panicked = none) (hh : s.stopHang = false) :
    (step s p kn .stop).1.st.status = .stopped := Rain.Loop.stop_reaches_stopped s p kn l hp hh

/-- **stop_reaches_stopped_or_hangs.** The same without any assumption about the trackers: after the `stop`
command no verify is pending and the torrent is `Stopped`, or a tracker does not answer (`stopHang` was and
is set) and the torrent is `Stopping` with its stop announcer waiting.  No hypothesis about `doVerify`. -/
theorem stop_reaches_stopped_or_hangs (s : St) (p : Parked) (kn : Nat → Bool) (l : Life s)
    (hp : s.panicked = none) :
    (step s p kn .stop).1.st.doVerify = false ∧
    ((step s p kn .stop).1.st.status = .stopped ∨
      (s.stopHang = true ∧ (step s p kn .stop).1.st.status = .stopping ∧ (step s p kn .stop).1.st.stopHang = true)) :=
  Rain.Loop.stop_reaches_stopped_or_hangs s p kn l hp

/-- The same for `Op.stopHeld` (the stop command given while the harness leaves the storage gates as they
are: an allocator or verifier held by a gate is dropped by `stop`, the gate stays). -/
theorem stopHeld_reaches_stopped_or_hangs (s : St) (p : Parked) (kn : Nat → Bool) (l : Life s)
    (hp : s.panicked = none) :
    (step s p kn .stopHeld).1.st.doVerify = false ∧
    ((step s p kn .stopHeld).1.st.status = .stopped ∨
      (s.stopHang = true ∧ (step s p kn .stopHeld).1.st.status = .stopping ∧
        (step s p kn .stopHeld).1.st.stopHang = true)) :=
  Rain.Loop.stopHeld_reaches_stopped_or_hangs s p kn l hp

theorem stopHeld_reaches_stopped (s : St) (p : Parked) (kn : Nat → Bool) (l : Life s)
    (hp : s.panicked = none) (hh : s.stopHang = false) :
    (step s p kn .stopHeld).1.st.status = .stopped := Rain.Loop.stopHeld_reaches_stopped s p kn l hp hh

/-- **stop_withdraws_verify** (fix for finding C04-F6).  For **every** state — no invariant, panicked or
not, any gates, any parked message — the state the handler of the stop command leaves, and the state at the
end of the whole step (after the worker completions and the delivery of a parked message), has
`doVerify = false`; for `Op.stop` and for `Op.stopHeld`.  (Nothing but the verify command sets the flag:
`runWorkers_doVerify_false`.) -/
theorem stop_withdraws_verify (s : St) (p : Parked) (kn : Nat → Bool) :
    ((handle s p kn .stop).1.1.doVerify = false ∧ (step s p kn .stop).1.st.doVerify = false) ∧
    ((handle s p kn .stopHeld).1.1.doVerify = false ∧ (step s p kn .stopHeld).1.st.doVerify = false) :=
  ⟨stopOp_withdraws_verify s p kn .stop (Or.inl rfl), stopOp_withdraws_verify s p kn .stopHeld (Or.inr rfl)⟩

/-- **stop_during_requested_verify_ends_stopped** (the point of finding C04-F6).  A verification has been
requested (`doVerify = true`) and is on its way — the torrent is `Stopping` (the stop the verify command
triggered has not completed), `Allocating` or `Verifying` (the restart is running, possibly held by the open
or the read gate, which `Op.stopHeld` leaves alone).  Then the stop command — `Op.stopHeld`, or `Op.stop` —
ends with the status `Stopped`, or `Stopping` while a tracker does not answer the `stopped` event
(`stopHang` was and is set); never `Verifying` or `Allocating` again; no allocator and no verifier is left;
and `doVerify = false`, so no later `handleStopped` restarts the torrent.  Before the fix `handleStopped`
saw the flag and restarted the torrent to verify: the user's stop was overridden.

Hypotheses really needed: the lifecycle invariant and `panicked = none` — the same as for
`stop_reaches_stopped_or_hangs`; the two that describe the scenario (`_hdv`, `_hst`) are not used: the
statement holds in every status and whatever `doVerify` was, for any gates. -/
theorem stop_during_requested_verify_ends_stopped (s : St) (p : Parked) (kn : Nat → Bool) (op : Op)
    (hop : op = .stopHeld ∨ op = .stop) (l : Life s) (hp : s.panicked = none) (_hdv : s.doVerify = true)
    (_hst : s.status = .stopping ∨ s.status = .allocating ∨ s.status = .verifying) :
    ((step s p kn op).1.st.status = .stopped ∨
      (s.stopHang = true ∧ (step s p kn op).1.st.status = .stopping ∧ (step s p kn op).1.st.stopHang = true)) ∧
    (step s p kn op).1.st.status ≠ .verifying ∧ (step s p kn op).1.st.status ≠ .allocating ∧
    (step s p kn op).1.st.doVerify = false ∧
    (step s p kn op).1.st.allocator = false ∧ (step s p kn op).1.st.verifier = false :=
  stopOp_ends_stopped s p kn op hop.symm l hp

/-- **waitstop_reaches_stopped.** `Op.waitstop` (TrackerStopTimeout has passed) and the worker completions
after it: a stopping (or stopped) torrent without a pending verify is `Stopped`, whatever `stopHang` was. -/
theorem waitstop_reaches_stopped (s : St) (p : Parked) (kn : Nat → Bool) (l : Life s)
    (hp : s.panicked = none) (hv : s.doVerify = false) (hs : s.status = .stopping ∨ s.status = .stopped) :
    (step s p kn .waitstop).1.st.status = .stopped ∧ (step s p kn .waitstop).1.st.doVerify = false :=
  Rain.Loop.waitstop_reaches_stopped s p kn l hp hv hs

/-- `stop`, then the stop timeout: `Stopped` in every case, provided the first step did not panic. -/
theorem stop_waitstop_reaches_stopped (s : St) (p : Parked) (kn kn' : Nat → Bool) (l : Life s)
    (hp : s.panicked = none) (hp' : (step s p kn .stop).1.st.panicked = none) :
    (step (step s p kn .stop).1.st (step s p kn .stop).2 kn' .waitstop).1.st.status = .stopped :=
  Rain.Loop.stop_waitstop_reaches_stopped s p kn kn' l hp hp'

/-- … and for `Op.stopHeld`. -/
theorem stopHeld_waitstop_reaches_stopped (s : St) (p : Parked) (kn kn' : Nat → Bool) (l : Life s)
    (hp : s.panicked = none) (hp' : (step s p kn .stopHeld).1.st.panicked = none) :
    (step (step s p kn .stopHeld).1.st (step s p kn .stopHeld).2 kn' .waitstop).1.st.status = .stopped :=
  Rain.Loop.stopOp_waitstop_reaches_stopped s p kn kn' .stopHeld (Or.inr rfl) l hp hp'

/-- **start_not_dropped** (fix for finding C04-F3).  For *every* state — stopped, stopping with or without a
tracker that hangs, running, panicked or not — after `start()` the torrent is neither stopped nor stopping
(`errC` set, no stop announcer).  If it was already running, `start()` changed nothing; otherwise it did its
work: the last error is forgotten and the allocator, the verifier or the acceptor exists. -/
theorem start_not_dropped (m : M) :
    ((start m).1.errC = true ∧ (start m).1.stopAnn = false) ∧
    ((start m).1.status ≠ .stopped ∧ (start m).1.status ≠ .stopping) ∧
    ((m.1.errC = true ∧ m.1.stopAnn = false) → start m = m) ∧
    ((m.1.errC = false ∨ m.1.stopAnn = true) →
      (start m).1.lastErr = false ∧
      ((start m).1.allocator = true ∨ (start m).1.verifier = true ∨ (start m).1.acceptor = true)) := by
  have hr := start_running m
  refine ⟨hr, ⟨?_, ?_⟩, fun h => start_of_running m h.1 h.2, start_starts m⟩
  · rw [Ne, status_stopped_iff, hr.1]; simp
  · rw [Ne, status_stopping_iff, hr.2]; simp

/-- **start_while_stopping.** The case the finding was about, under the lifecycle invariant: a start while
the torrent is `Stopping` (`stopAnn`) closes the stop announcer — also one waiting for a hanging tracker —
finishes the stop, and starts again: status `Allocating` (metadata known) or `DownloadingMetadata`; nothing
panics; a pending verify only drops the bitfield. -/
theorem start_while_stopping (m : M) (l : Life m.1) (hs : m.1.stopAnn = true) :
    (start m).1.status = (if m.1.info then .allocating else .dlmeta) ∧
    (start m).1.stopHang = false ∧ (start m).1.panicked = m.1.panicked ∧ (start m).1.lastErr = false ∧
    (start m).1.doVerify = m.1.doVerify ∧ (start m).1.bf = (if m.1.doVerify then none else m.1.bf) :=
  Rain.Loop.start_while_stopping m l hs

/-- **verify_ends_stopped.** The verify command on a stopped torrent (metadata known, storage not failing,
trackers answering): within the op the files are opened and — if at least one of them existed — verified, and
the torrent is `Stopped` again with the verify flag cleared.  (Before the fix of finding C04-F4 this needed
the hypothesis that some file exists.) -/
theorem verify_ends_stopped (s : St) (p : Parked) (kn : Nat → Bool) (l : Life s) (he : s.errC = false)
    (hi : s.info = true) (hp : s.panicked = none) (hf : s.failOpen = false)
    (hh : s.stopHang = false) :
    (step s p kn .verify).1.st.status = .stopped ∧ (step s p kn .verify).1.st.doVerify = false :=
  Rain.Loop.verify_ends_stopped s p kn l he hi hp hf hh

/-- **verify_without_files_ends_stopped** (fix for finding C04-F4; the case the property text names).  The
verify command on a stopped torrent of which **no** data file exists (metadata known, storage not failing,
trackers answering, not panicked): the files are created, there is nothing to verify, and the op ends
`Stopped` with the verify flag cleared — the torrent does not start downloading. -/
theorem verify_without_files_ends_stopped (s : St) (p : Parked) (kn : Nat → Bool) (l : Life s) (he : s.errC = false)
    (hi : s.info = true) (hp : s.panicked = none) (hf : s.failOpen = false) (_hnf : ¬ SomeFileExists s)
    (hh : s.stopHang = false) :
    (step s p kn .verify).1.st.status = .stopped ∧ (step s p kn .verify).1.st.doVerify = false :=
  Rain.Loop.verify_ends_stopped s p kn l he hi hp hf hh

/-- The same without the assumption about the trackers: verified, flag cleared, `Stopped` — or `Stopping`
with the stop announcer waiting for a tracker that does not answer. -/
theorem verify_ends_stopped_or_hangs (s : St) (p : Parked) (kn : Nat → Bool) (l : Life s) (he : s.errC = false)
    (hi : s.info = true) (hp : s.panicked = none) (hf : s.failOpen = false) :
    (step s p kn .verify).1.st.doVerify = false ∧
    ((step s p kn .verify).1.st.status = .stopped ∨
      (s.stopHang = true ∧ (step s p kn .verify).1.st.status = .stopping ∧
        (step s p kn .verify).1.st.stopHang = true)) :=
  Rain.Loop.verify_ends_stopped_or_hangs s p kn l he hi hp hf

/-- **verify_from_running_ends_stopped.** The verify command on a torrent that is *not* stopped — any other
status: downloading, seeding, allocating or verifying behind a gate, fetching nothing but already stopping —
with the metadata known, the storage not failing and every tracker answering: the command stops the torrent,
the completed stop restarts it without its bitfield (`handleStopped` sees `doVerify`), the files are re-opened
and verified (if none existed the allocation result ends the verification: fix C04-F4, so the hypothesis
"some file exists" is gone), and the op ends `Stopped` with the verify flag cleared.
(`verify_running_magnet_not_stopped` below: false without the metadata.) -/
theorem verify_from_running_ends_stopped (s : St) (p : Parked) (kn : Nat → Bool) (l : Life s) (he : s.errC = true)
    (hi : s.info = true) (hp : s.panicked = none) (hf : s.failOpen = false)
    (hh : s.stopHang = false) :
    (step s p kn .verify).1.st.status = .stopped ∧ (step s p kn .verify).1.st.doVerify = false :=
  Rain.Loop.verify_from_running_ends_stopped s p kn l he hi hp hf hh

/-- The same without the assumption about the trackers: `Stopped` with the flag cleared — or a tracker does
not answer the `stopped` event and the torrent is `Stopping` with the verify still pending. -/
theorem verify_from_running_ends_stopped_or_hangs (s : St) (p : Parked) (kn : Nat → Bool) (l : Life s)
    (he : s.errC = true) (hi : s.info = true) (hp : s.panicked = none) (hf : s.failOpen = false) :
    ((step s p kn .verify).1.st.status = .stopped ∧ (step s p kn .verify).1.st.doVerify = false) ∨
    (s.stopHang = true ∧ (step s p kn .verify).1.st.status = .stopping ∧
      (step s p kn .verify).1.st.stopHang = true ∧ (step s p kn .verify).1.st.doVerify = true) :=
  Rain.Loop.verify_from_running_ends_stopped_or_hangs s p kn l he hi hp hf

/-- The two verify theorems for `Op.verifyHeld` (the verify command given while the harness leaves the storage
gates as they are): the op does not release the gates, so that they are released is a hypothesis.  With a gate
held the op ends `Allocating` / `Verifying` with the request pending — the situation in which finding C04-F6
arose (examples at the end of the file). -/
theorem verifyHeld_ends_stopped_or_hangs (s : St) (p : Parked) (kn : Nat → Bool) (l : Life s) (he : s.errC = false)
    (hi : s.info = true) (hp : s.panicked = none) (hf : s.failOpen = false)
    (hgo : s.gateOpen = false) (hgr : s.gateRead = false) :
    (step s p kn .verifyHeld).1.st.doVerify = false ∧
    ((step s p kn .verifyHeld).1.st.status = .stopped ∨
      (s.stopHang = true ∧ (step s p kn .verifyHeld).1.st.status = .stopping ∧
        (step s p kn .verifyHeld).1.st.stopHang = true)) :=
  Rain.Loop.verifyHeld_ends_stopped_or_hangs s p kn l he hi hp hf hgo hgr

theorem verifyHeld_from_running_ends_stopped_or_hangs (s : St) (p : Parked) (kn : Nat → Bool) (l : Life s)
    (he : s.errC = true) (hi : s.info = true) (hp : s.panicked = none) (hf : s.failOpen = false)
    (hgo : s.gateOpen = false) (hgr : s.gateRead = false) :
    ((step s p kn .verifyHeld).1.st.status = .stopped ∧ (step s p kn .verifyHeld).1.st.doVerify = false) ∨
    (s.stopHang = true ∧ (step s p kn .verifyHeld).1.st.status = .stopping ∧
      (step s p kn .verifyHeld).1.st.stopHang = true ∧ (step s p kn .verifyHeld).1.st.doVerify = true) :=
  Rain.Loop.verifyHeld_from_running_ends_stopped_or_hangs s p kn l he hi hp hf hgo hgr

/-- … and the pending verify of the second case runs to the end when the stop timeout passes
(`Op.waitstop`), the storage gates being released: `Stopped`, flag cleared. -/
theorem pending_verify_waitstop (s : St) (p : Parked) (kn : Nat → Bool) (l : Life s)
    (hs : s.stopAnn = true) (hdv : s.doVerify = true) (hi : s.info = true) (hp : s.panicked = none)
    (hf : s.failOpen = false) (hgo : s.gateOpen = false) (hgr : s.gateRead = false) :
    (step s p kn .waitstop).1.st.status = .stopped ∧ (step s p kn .waitstop).1.st.doVerify = false :=
  Rain.Loop.pending_verify_waitstop s p kn l hs hdv hi hp hf hgo hgr

/-- Counterexample to `verify_from_running_ends_stopped` without `info` (a magnet torrent that is still
fetching its metadata): the verify stops it, the pending verify restarts it, and it is fetching metadata
again with the flag still set.  The request is not lost: when the metadata arrives the allocation result
finds the flag (`no_stale_verify_flag` and the examples after it). -/
theorem verify_running_magnet_not_stopped :
    let c : Cfg := { pl := 16384, plens := [16384], blocks := [[(0, 16384)]], flens := [16384], fpads := [false], fnames := ["t"] }
    let s : St := { cfg := c, info := false, infoAtAdd := false, errC := true, acceptor := true,
                    fileExists := [true], known := [true] }
    (step s none (fun _ => false) .verify).1.st.status = .dlmeta ∧
    (step s none (fun _ => false) .verify).1.st.doVerify = true := by decide

/-- **no_stale_verify_flag_step.**  The invariant behind `no_stale_verify_flag`, for one event from any state
(any op, any parameters, any parked message): `DV s` — while `doVerify` is set the torrent is stopping, or it
has no bitfield and its allocator or its verifier is running, or it is still fetching its metadata. -/
theorem no_stale_verify_flag_step (s : St) (p : Parked) (kn : Nat → Bool) (op : Op) (h : DV s) :
    DV (step s p kn op).1.st := step_dv s p kn op h

/-- **no_stale_verify_flag** (after the fix of finding C04-F4).  Along every history from a freshly added
torrent without a pending verification — any events with any parameters, any gates, mutations of the files,
verify commands at any time, magnet links included; the implementation's piece choices accepted by
`reconcile` (`drunAdmissible`, as in `life_invariant_run`) — a set `doVerify` means that the verification is
on its way: the status is `Stopping`, `Allocating`, `Verifying` or `DownloadingMetadata`, in particular never
`Downloading` and never `Seeding`: a verification request is never forgotten while the torrent runs normally.
(Before the fix: false, `verify` on a stopped torrent without files ended `Downloading` with the flag set.) -/
theorem no_stale_verify_flag (s0 : St) (h0 : InitLike s0) (hv : s0.doVerify = false) (evs : List Ev)
    (ha : drunAdmissible (s0, none) evs) (hd : (drun (s0, none) evs).1.doVerify = true) :
    ((drun (s0, none) evs).1.status ≠ .downloading ∧ (drun (s0, none) evs).1.status ≠ .seeding) ∧
    ((drun (s0, none) evs).1.status = .stopping ∨ (drun (s0, none) evs).1.status = .allocating ∨
      (drun (s0, none) evs).1.status = .verifying ∨ (drun (s0, none) evs).1.status = .dlmeta) := by
  have h := (drun_dv evs (s0, none) (DV.of_false hv)).status (drun_life evs (s0, none) h0.life ha) hd
  refine ⟨?_, h⟩
  rcases h with h | h | h | h <;> rw [h] <;> exact ⟨by decide, by decide⟩

/-- The `Downloading` half needs no hypothesis on the implementation's choices at all (`Seeding` needs the
lifecycle invariant: no metadata ⇒ not completed). -/
theorem no_stale_verify_flag_downloading (s0 : St) (hv : s0.doVerify = false) (evs : List Ev)
    (hd : (drun (s0, none) evs).1.doVerify = true) : (drun (s0, none) evs).1.status ≠ .downloading :=
  (drun_dv evs (s0, none) (DV.of_false hv)).not_downloading hd

/-- **no_panic_partial.** Handler by handler: under the stated clause of the loop invariant the handler
reaches none of Go's panic sites.  (`start` — also while stopping —, `handleStopped`: no worker left over; `checkCompletion`: a
bitfield, `completeC` closed only if completed; piece messages: the piece is not being written; write done:
the job's piece is not yet held; metadata: no allocator; replay of queued messages: queues hold only
messages that need the metadata.)  Handlers not listed have no panic site (`…_panicked` frame lemmas). -/
theorem no_panic_partial :
    (∀ m : M, ((m.1.errC = false ∨ m.1.stopAnn = true) → m.1.allocator = false ∧ m.1.verifier = false) →
        (start m).1.panicked = m.1.panicked) ∧
    (∀ m : M, (m.1.allocator = false ∧ m.1.verifier = false) → (handleStopped m).1.panicked = m.1.panicked) ∧
    (∀ m : M, (m.1.errC = false → m.1.allocator = false ∧ m.1.verifier = false) →
        (handleVerifyCommand m).1.panicked = m.1.panicked) ∧
    (∀ (s : St) (e : Bool), (s.stop e).panicked = s.panicked) ∧
    (∀ s : St, (s.completed = true ∨ s.bf.isSome = true) → (s.completeCClosed = true → s.completed = true) →
        s.checkCompletion.1.panicked = s.panicked) ∧
    (∀ (m : M) (k : Nat) (msg : Msg), (∀ i b l g, msg = .piece i b l g → m.1.wflag.getD i false = false) →
        (handlePeerMessage m k msg).1.panicked = m.1.panicked) ∧
    (∀ m : M, QueueOK m.1 → (processQueued m).1.panicked = m.1.panicked ∧ QueueOK (processQueued m).1) ∧
    (∀ (m : M) (w : WriteJob),
        (w.good = true → w.gen = m.1.gen → m.1.loaded = true → ∃ b, m.1.bf = some b ∧ b.getD w.piece false = false) →
        (m.1.completeCClosed = true → m.1.completed = true) → (writerRun m w).1.panicked = m.1.panicked) ∧
    (∀ m : M, m.1.completeCClosed = m.1.completed → QueueOK m.1 → (allocatorRun m).1.panicked = m.1.panicked) ∧
    (∀ m : M, m.1.completeCClosed = m.1.completed → QueueOK m.1 → m.1.panicked = none →
        (handleVerificationDone m).1.panicked = none) ∧
    (∀ (m : M) (k i len : Nat) (g : Bool), m.1.allocator = false →
        (handleMetadataData m k i len g).1.panicked = m.1.panicked) :=
  ⟨start_no_panic, handleStopped_no_panic, handleVerifyCommand_no_panic, stop_panicked, checkCompletion_no_panic,
    handlePeerMessage_no_panic, processQueued_no_panic, writerRun_no_panic, allocatorRun_no_panic,
    handleVerificationDone_no_panic, handleMetadataData_no_panic⟩

/-- The full statement as it was first written down: no history from a freshly added torrent ever sets
`panicked`.  It is **false** as stated (`no_panic_full_false`): two hypotheses are missing, each with a
concrete panicking history below (section `Witnesses`).  The true statement is `no_panic_full_partial`.
(Before rain's fix of finding C04-F9 — stale write results are ignored — two more were needed: no write in flight
at all in the initial state, and `Cfg.blocksHaveData`; their witnesses W2, W3 no longer panic.) -/
def no_panic_full : Prop :=
  ∀ (s0 : St), InitLike s0 → s0.panicked = none → ∀ evs : List Ev, drunAdmissible (s0, none) evs →
    (drun (s0, none) evs).1.panicked = none

/-- **no_panic** (the inductive theorem; `no_panic_full` under two explicit, decidable extra hypotheses).
From a freshly added torrent (`InitLike`) that is not panicked, with

* no piece write *from a future generation of pieces* in flight in the initial state (`InitLike` does not say
  so; every state the driver starts from has no write in flight at all),
* every choice of the implementation accepted by the model — piece downloads (`drunAdmissible`, `reconcile`
  reports no error, as before) **and metadata downloads** (`drunAdmissibleI`, `reconcileIdl` reports no
  error: exactly the runs on which the driver reports neither C09 nor C13),

no history — any events, any parameters, any gates, any interleaving of worker completions — reaches one of
Go's panic sites (`crash(…)`, close of the closed `completeC`, nil bitfield).  Proof: the invariant
`Full = Life ∧ CompInv ∧ WInv` (`Lemmas/LoopWInv*.lean`) is inductive and implies each handler's local
precondition of `no_panic_partial`. -/
theorem no_panic_full_partial (s0 : St) (h0 : InitLike s0) (hp : s0.panicked = none)
    (hw : ∀ w, s0.writing = some w → w.gen ≤ s0.gen)
    (evs : List Ev) (ha : drunAdmissible (s0, none) evs) (hi : drunAdmissibleI (s0, none) evs) :
    (drun (s0, none) evs).1.panicked = none :=
  (drun_full evs (s0, none) (h0.full hw) ha hi).2 hp

/-- The same for one event from any state satisfying the invariant (any parked message, any parameters). -/
theorem no_panic_step (s : St) (p : Parked) (kn : Nat → Bool) (op : Op) (h : Full s) (hp : s.panicked = none) :
    (step s p kn op).1.st.panicked = none ∧ Full (step s p kn op).1.st :=
  ⟨(step_full s p kn op h).2 hp, (step_full s p kn op h).1⟩

/-- The write/download invariant along whole histories (what the proof of `no_panic_full_partial` carries). -/
theorem write_invariant_run (s0 : St) (h0 : InitLike s0) (hw : ∀ w, s0.writing = some w → w.gen ≤ s0.gen)
    (evs : List Ev) (ha : drunAdmissible (s0, none) evs)
    (hi : drunAdmissibleI (s0, none) evs) : WInv (drun (s0, none) evs).1 :=
  (drun_full evs (s0, none) (h0.full hw) ha hi).1.w

/-- **stale_write_result_ignored** (fix for finding C04-F9).  The result of a write that was started in an earlier
run of the torrent — the job's generation is not the current one, or no pieces are loaded (stopped, maybe started
again, while the piece was being written or its result was held) —, good hash, with or without a write error:
`handlePieceWriteDone` does nothing but forget the job and (same generation) clear its `Writing` flag.  Nothing
else of the state changes — no bit, no `done`, no stop, no message, no panic: in particular not the nil-bitfield
panic of the crash seed "piece written, result delivered after stop + restart". -/
theorem stale_write_result_ignored (m : M) (w : WriteJob) (e : Bool) (hg : w.good = true)
    (hst : w.gen ≠ m.1.gen ∨ m.1.loaded = false) :
    handlePieceWriteDone m w e =
      ({ m.1 with writing := none,
                  wflag := if w.gen = m.1.gen then setAt m.1.wflag w.piece false else m.1.wflag }, m.2) := by
  rw [handlePieceWriteDone_eq]
  dsimp only
  rw [if_neg (by simp [hg])]
  rw [if_pos]
  · rfl
  · rcases hst with h | h
    · simp [pwdReset, h]
    · simp [pwdReset, h]

/-- … in particular it keeps `panicked`, `bf`, `done`, `persisted`, the lifecycle and the outputs, whatever the state. -/
theorem stale_write_result_ignored_fields (m : M) (w : WriteJob) (e : Bool) (hg : w.good = true)
    (hst : w.gen ≠ m.1.gen ∨ m.1.loaded = false) :
    (handlePieceWriteDone m w e).1.panicked = m.1.panicked ∧ (handlePieceWriteDone m w e).1.bf = m.1.bf ∧
    (handlePieceWriteDone m w e).1.done = m.1.done ∧ (handlePieceWriteDone m w e).1.persisted = m.1.persisted ∧
    (handlePieceWriteDone m w e).1.status = m.1.status ∧ (handlePieceWriteDone m w e).1.writing = none ∧
    (handlePieceWriteDone m w e).2 = m.2 := by
  rw [stale_write_result_ignored m w e hg hst]
  exact ⟨rfl, rfl, rfl, rfl, rfl, rfl, rfl⟩

/-- `stop`, then the stop timeout: `Stopped` in every case along a history — the extra hypothesis of
`stop_waitstop_reaches_stopped` (the first step does not panic) is discharged by the invariant. -/
theorem stop_waitstop_reaches_stopped_full (s : St) (p : Parked) (kn kn' : Nat → Bool) (h : Full s)
    (hp : s.panicked = none) :
    (step (step s p kn .stop).1.st (step s p kn .stop).2 kn' .waitstop).1.st.status = .stopped :=
  Rain.Loop.stop_waitstop_reaches_stopped s p kn kn' h.life hp ((step_full s p kn .stop h).2 hp)

/-! ### `StopAfterMetadata` and the piece-count limit: what the completion of the metadata download starts -/

/-- **stop_after_metadata_stops, handler form.**  `AddTorrentOptions.StopAfterMetadata`: the message that
completes a metadata download with the right hash (`HmdComplete`) on a running torrent whose info dictionary
is acceptable adopts the metadata and stops the torrent (`stopAndSetStoppedOnMetadata`) instead of starting
the allocator: `Stopping`, no error, no allocator, no verifier, nothing loaded, every peer closed (however
many were connected), no download, no permission to start one, no new panic.  No invariant is assumed. -/
theorem stop_after_metadata_stops_handler (m : M) (d : IDl) (k i len : Nat) (good : Bool)
    (he : m.1.errC = true) (hs : m.1.stopAnn = false) (hc : HmdComplete m d k i len good)
    (hsam : m.1.cfg.stopAfterMeta = true) (hn : m.1.cfg.n ≤ m.1.cfg.maxPieces) (hp : m.1.cfg.isPrivate = false) :
    (handleMetadataData m k i len good).1.info = true ∧
    (handleMetadataData m k i len good).1.status = .stopping ∧
    (handleMetadataData m k i len good).1.lastErr = false ∧
    (handleMetadataData m k i len good).1.allocator = false ∧
    (handleMetadataData m k i len good).1.verifier = false ∧
    (handleMetadataData m k i len good).1.loaded = false ∧
    (handleMetadataData m k i len good).1.peers = [] ∧
    (handleMetadataData m k i len good).1.dls = [] ∧
    (handleMetadataData m k i len good).1.mayStart = [] ∧
    (handleMetadataData m k i len good).1.panicked = m.1.panicked := by
  rw [handleMetadataData_complete m d k i len good hc]
  obtain ⟨f1, _, f3, f4, f5, f6, f7, f8, f9, _, f11, f12⟩ :=
    hmdAdopt_stopAfter_fields (hmdStored m d k i good) hn hp hsam ⟨he, hs⟩
  exact ⟨f1, f3, f4, f5, f6, f7, f8, f9, f11, f12⟩

/-- **stop_after_metadata_stops.**  The whole step (handler, workers, parked message), from any state of the
invariant `Full` with any number of peers connected: with `StopAfterMetadata` the event that completes the
metadata download ends with the metadata adopted and the status `Stopped` — or `Stopping` if a tracker does
not answer the `stopped` event — never `Allocating`, `Verifying` or `Downloading`; no allocator, no verifier,
nothing loaded, no peers, no downloads, no panic.  Hypotheses: no verify command is pending (`doVerify`; a
pending verify turns this stop — the loop's own, not the stop command, which withdraws the request — into a
restart: witness below) and the loop has not panicked. -/
theorem stop_after_metadata_stops (s : St) (p : Parked) (kn : Nat → Bool) (d : IDl) (k i len : Nat) (good : Bool)
    (h : Full s) (hpan : s.panicked = none) (hdv : s.doVerify = false)
    (hk : (s.findPeer k).isSome = true) (hc : HmdComplete (s, []) d k i len good)
    (hsam : s.cfg.stopAfterMeta = true) (hn : s.cfg.n ≤ s.cfg.maxPieces) (hp : s.cfg.isPrivate = false) :
    (step s p kn (.metadata k i len good)).1.st.info = true ∧
    ((step s p kn (.metadata k i len good)).1.st.status = .stopped ∨
      (s.stopHang = true ∧ (step s p kn (.metadata k i len good)).1.st.status = .stopping)) ∧
    (step s p kn (.metadata k i len good)).1.st.allocator = false ∧
    (step s p kn (.metadata k i len good)).1.st.verifier = false ∧
    (step s p kn (.metadata k i len good)).1.st.loaded = false ∧
    (step s p kn (.metadata k i len good)).1.st.peers = [] ∧
    (step s p kn (.metadata k i len good)).1.st.dls = [] ∧
    (step s p kn (.metadata k i len good)).1.st.doVerify = false ∧
    (step s p kn (.metadata k i len good)).1.st.panicked = none := by
  obtain ⟨l1, l2, l3, l4⟩ := step_metadata_stops s p kn d k i len good h.life hpan hdv hk hc (Or.inr ⟨hn, hp, hsam⟩)
  have hneg : ¬ (s.cfg.n > s.cfg.maxPieces ∨ s.cfg.isPrivate = true) := by
    rintro (h1 | h1)
    · omega
    · rw [hp] at h1; cases h1
  rw [if_neg hneg] at l3
  have hnr : (step s p kn (.metadata k i len good)).1.st.errC = false ∨
      (step s p kn (.metadata k i len good)).1.st.stopAnn = true := by
    rcases l4 with l4 | ⟨_, l4, _⟩
    · exact Or.inl ((status_stopped_iff _).1 l4)
    · exact Or.inr ((status_stopping_iff _).1 l4).2
  obtain ⟨i1, i2, i3, _, _, i6, i7, _⟩ := l1.idle hnr
  refine ⟨l3, ?_, i1, i2, i3, i6, i7, l2, (step_full s p kn _ h).2 hpan⟩
  rcases l4 with l4 | ⟨l4, l5, _⟩
  · exact Or.inl l4
  · exact Or.inr ⟨l4, l5⟩

/-- **metadata_adopted_starts_allocator.**  The complement: the allocator is started by the completion of
the metadata download exactly when the info dictionary is acceptable (`n ≤ maxPieces`, not private) and
`StopAfterMetadata` is off.  Handler form; `Allocating` is then the status (the torrent was running), and
there is no panic unless an allocator existed already (excluded by `Life.ni` between events). -/
theorem metadata_adopted_starts_allocator (m : M) (d : IDl) (k i len : Nat) (good : Bool)
    (he : m.1.errC = true) (hs : m.1.stopAnn = false) (ha : m.1.allocator = false)
    (hc : HmdComplete m d k i len good) :
    ((handleMetadataData m k i len good).1.allocator = true ↔
      (m.1.cfg.n ≤ m.1.cfg.maxPieces ∧ m.1.cfg.isPrivate = false ∧ m.1.cfg.stopAfterMeta = false)) ∧
    ((m.1.cfg.n ≤ m.1.cfg.maxPieces ∧ m.1.cfg.isPrivate = false ∧ m.1.cfg.stopAfterMeta = false) →
      (handleMetadataData m k i len good).1.info = true ∧
      (handleMetadataData m k i len good).1.status = .allocating ∧
      (handleMetadataData m k i len good).1.panicked = m.1.panicked) := by
  rw [handleMetadataData_complete m d k i len good hc]
  have hr : Running (hmdStored m d k i good).1 := ⟨he, hs⟩
  have ha' : (hmdStored m d k i good).1.allocator = false := ha
  have hfwd : (m.1.cfg.n ≤ m.1.cfg.maxPieces ∧ m.1.cfg.isPrivate = false ∧ m.1.cfg.stopAfterMeta = false) →
      (hmdAdopt (hmdStored m d k i good)).1.info = true ∧ (hmdAdopt (hmdStored m d k i good)).1.allocator = true ∧
      (hmdAdopt (hmdStored m d k i good)).1.status = .allocating ∧
      (hmdAdopt (hmdStored m d k i good)).1.panicked = m.1.panicked := by
    rintro ⟨hn, hp, hsam⟩
    obtain ⟨g1, _, g3, g4, g5, _, g7⟩ := hmdAdopt_started_fields (hmdStored m d k i good) hn hp hsam
    refine ⟨g1, g3, ?_, g7 ha'⟩
    have g4' : (hmdAdopt (hmdStored m d k i good)).1.errC = true := by rw [g4]; exact he
    have g5' : (hmdAdopt (hmdStored m d k i good)).1.stopAnn = false := by rw [g5]; exact hs
    rw [St.status, g4', g5', g3]; rfl
  refine ⟨⟨fun h => hmdAdopt_allocator_only_if _ hr ha' h, fun h => (hfwd h).2.1⟩, fun h => ?_⟩
  exact ⟨(hfwd h).1, (hfwd h).2.2.1, (hfwd h).2.2.2⟩

/-- **startDls_noop_unloaded** (the crash scenario of finding C08-F5: `closePeer` → `startPieceDownloaders`
without a piece picker).  In every state the loop is in between two events (`Life`), while no pieces are
loaded `startPieceDownloaders` does nothing at all, and closing a peer neither creates a download nor grants
a permission to start one.  In no state whatever does `startDls` or `closePeer` create a download: in the model
downloads are only adopted by `reconcile`, and only if pieces are loaded (`no_download_unloaded`). -/
theorem startDls_noop_unloaded (s : St) (l : Life s) (hl : s.loaded = false) :
    s.startDls = s ∧ ∀ k, (∀ x ∈ (s.closePeer k).dls, x ∈ s.dls) ∧ (∀ x ∈ (s.closePeer k).mayStart, x ∈ s.mayStart) :=
  ⟨Rain.Loop.startDls_noop_unloaded s l hl, fun k => ⟨closePeer_dls_subset s k, closePeer_mayStart_unloaded s k l hl⟩⟩

theorem startDls_never_starts_download (s : St) :
    s.startDls.dls = s.dls ∧ ∀ k, ∀ x ∈ (s.closePeer k).dls, x ∈ s.dls :=
  ⟨by simp, fun k => closePeer_dls_subset s k⟩

/-- While no pieces are loaded an error-free `reconcile` adopts no new download, whatever `mayStart` says. -/
theorem no_download_unloaded (s : St) (impl : List ImplDl) (hl : s.loaded = false) (he : (reconcile s impl).2 = []) :
    ∀ x ∈ (reconcile s impl).1.dls, x ∈ s.dls := by
  intro x hx
  rcases reconcile_dls s impl he x hx with h | ⟨_, h, _⟩
  · exact h
  · rw [hl] at h; cases h

/-! Non-vacuity of `stopped_clean` / `seeding_truthful`: a download that completes, then stops. -/
section Example
private def c1 : Cfg :=
  { pl := 16384, plens := [16384], blocks := [[(0, 16384)]], flens := [16384], fpads := [false], fnames := ["t"] }
private def s1 : St := { cfg := c1, fileExists := [false], known := [false], bad := c1.dataSects }
private def kn (l : List Nat) : Nat → Bool := fun k => l.contains k
private def evs1 : List Ev := [
  ⟨.start, kn [], [], []⟩,
  ⟨.peer 1 "10.0.0.2" true true false, kn [], [], []⟩,
  ⟨.msg 1 .haveAll, kn [1], [], []⟩,
  ⟨.msg 1 .unchoke, kn [1], [⟨1, 0, false, false, false⟩], []⟩,
  ⟨.msg 1 (.piece 0 0 16384 true), kn [1], [], []⟩]

example : (drun (s1, none) evs1).1.status = .seeding ∧ (drun (s1, none) evs1).1.bf = some [true] := by decide
example : (drun (s1, none) (evs1 ++ [⟨.stop, kn [1], [], []⟩])).1.status = .stopped ∧
    (drun (s1, none) (evs1 ++ [⟨.stop, kn [1], [], []⟩])).1.peers = [] := by decide

/-! The case the property text names, on the concrete torrent (one file, nothing on disk): the verify command
ends `Stopped`, flag cleared, the file created, a fresh empty bitfield which is also the resume record.
Before the fix of finding C04-F4 this run ended `Downloading ∧ doVerify = true` (the theorem
`verify_without_files_starts_download`, now false and replaced by `verify_without_files_ends_stopped`). -/
example : (step s1 none (fun _ => false) .verify).1.st.status = .stopped ∧
    (step s1 none (fun _ => false) .verify).1.st.doVerify = false ∧
    (step s1 none (fun _ => false) .verify).1.st.bf = some [false] ∧
    (step s1 none (fun _ => false) .verify).1.st.persisted = some [false] ∧
    (step s1 none (fun _ => false) .verify).1.st.fileExists = [true] ∧ ¬ SomeFileExists s1 := by
  refine ⟨by decide, by decide, by decide, by decide, by decide, ?_⟩
  unfold SomeFileExists; decide

/-! Non-vacuity of `verify_from_running_ends_stopped`: verify on the seeding torrent — stopped, re-verified
(the bitfield is the verifier's), flag cleared; with a hanging tracker: `Stopping`, verify pending, and the
stop timeout completes it. -/
example : (drun (s1, none) (evs1 ++ [⟨.verify, kn [1], [], []⟩])).1.status = .stopped ∧
    (drun (s1, none) (evs1 ++ [⟨.verify, kn [1], [], []⟩])).1.doVerify = false ∧
    (drun (s1, none) (evs1 ++ [⟨.verify, kn [1], [], []⟩])).1.bf = some [true] ∧
    (drun (s1, none) evs1).1.errC = true := by decide
/-- … and on a torrent that is `Downloading` with nothing written yet (its file exists, the allocator created
it; the verifier finds no good piece): `Stopped`, flag cleared. -/
example : (drun (s1, none) (evs1.take 3 ++ [⟨.verify, kn [1], [], []⟩])).1.status = .stopped ∧
    (drun (s1, none) (evs1.take 3 ++ [⟨.verify, kn [1], [], []⟩])).1.doVerify = false ∧
    (drun (s1, none) (evs1.take 3)).1.status = .downloading := by decide
example : (drun ({ s1 with stopHang := true }, none) (evs1 ++ [⟨.verify, kn [1], [], []⟩])).1.status = .stopping ∧
    (drun ({ s1 with stopHang := true }, none) (evs1 ++ [⟨.verify, kn [1], [], []⟩])).1.doVerify = true := by decide
example : (drun ({ s1 with stopHang := true }, none)
      (evs1 ++ [⟨.verify, kn [1], [], []⟩, ⟨.waitstop, kn [1], [], []⟩])).1.status = .stopped ∧
    (drun ({ s1 with stopHang := true }, none)
      (evs1 ++ [⟨.verify, kn [1], [], []⟩, ⟨.waitstop, kn [1], [], []⟩])).1.doVerify = false := by decide

/-! Non-vacuity of the hanging-tracker statements (`stopHang` is set by the driver from the tracker stubs'
state; here it is set in the initial state): stop leaves the torrent `Stopping`; the stop timeout ends it;
a start while stopping restarts it (the download is already complete, so it seeds again). -/
private def s1h : St := { s1 with stopHang := true }
example : (drun (s1h, none) (evs1 ++ [⟨.stop, kn [1], [], []⟩])).1.status = .stopping ∧
    (drun (s1h, none) (evs1 ++ [⟨.stop, kn [1], [], []⟩])).1.peers = [] := by decide
example : (drun (s1h, none) (evs1 ++ [⟨.stop, kn [1], [], []⟩, ⟨.waitstop, kn [1], [], []⟩])).1.status = .stopped := by
  decide
example : (drun (s1h, none) (evs1 ++ [⟨.stop, kn [1], [], []⟩, ⟨.start, kn [1], [], []⟩])).1.status = .seeding ∧
    (drun (s1h, none) (evs1 ++ [⟨.stop, kn [1], [], []⟩, ⟨.start, kn [1], [], []⟩])).1.stopHang = false := by decide
/-- with the allocation gate held, the restarted torrent is seen `Allocating` (`start_while_stopping`) -/
example : (drun (s1h, none) (evs1 ++ [⟨.stop, kn [1], [], []⟩, ⟨.gate .open true, kn [1], [], []⟩,
    ⟨.start, kn [1], [], []⟩])).1.status = .allocating := by decide
end Example

/-! ### Witnesses: why `no_panic_full` needs the three extra hypotheses

Each history W1, W3 below starts from an `InitLike`, unpanicked state, every `reconcile` is error-free
(`drunAdmissible`), and the model panics.  None of them is a run of rain: W1 is flagged by the driver as C13
`metadata-download-inadmissible` (rain's `startInfoDownloaders` returns at once when `t.info != nil`), W3 needs a
torrent object created with a piece write of a future generation already in flight.  (W2 and the old W3 are kept
as histories that panicked before the fix of finding C04-F9 and do not any more.) -/
section Witnesses
private theorem initLike_of (s : St) (h1 : s.cfg.wfCheck = true) (h2 : s.bad = s.cfg.dataSects) (h3 : s.bf = none)
    (h4 : s.persisted = none) (h5 : s.errC = false) (h6 : s.stopAnn = false) (h7 : s.allocator = false)
    (h8 : s.verifier = false) (h9 : s.loaded = false) (h10 : s.acceptor = false) (h11 : s.openFiles = [])
    (h12 : s.peers = []) (h13 : s.dls = []) (h14 : s.idls = []) (h15 : s.leaked = 0) (h16 : s.completed = false)
    (h17 : s.completeCClosed = false) : InitLike s :=
  ⟨cfgWF_of_check _ h1, badWF_dataSects s h2, h3, h4, h5, h6, h7, h8, h9, h10, h11, h12, h13, h14, h15, h16, h17⟩

/-- W1 — a magnet link; after the metadata has arrived (allocation held by the gate) the "implementation"
starts another metadata download, which `reconcileIdl` rejects but `drunAdmissible` does not look at; its
completion finds the allocator running: `allocator exists`. -/
private def sW1 : St := { s1 with info := false, infoAtAdd := false, isize := 100 }
private def evsW1 : List Ev := [
  ⟨.gate .open true, kn [], [], []⟩,
  ⟨.start, kn [], [], []⟩,
  ⟨.peer 1 "10.0.0.2" true true false, kn [], [], []⟩,
  ⟨.exths 1 true 100 false, kn [1], [], [1]⟩,
  ⟨.metadata 1 0 100 true, kn [1], [], [1]⟩,
  ⟨.metadata 1 0 100 true, kn [1], [], []⟩]
example : (drun (sW1, none) evsW1).1.panicked = some "allocator exists" ∧ drunAdmissible (sW1, none) evsW1 ∧
    sW1.writing = none ∧ sW1.cfg.blocksHaveData = true ∧ ¬ drunAdmissibleI (sW1, none) evsW1 := by decide
example : InitLike sW1 := by apply initLike_of <;> decide

/-- (W2, historical) — piece 1 consists of a padding file only but has a block (a configuration
`Cfg.blocksHaveData` rejects).  Its write is held by the gate, a verify runs meanwhile (the verifier finds the
padding piece fine: bit set), then the stale write completes without touching the storage.  Before the fix of
finding C04-F9 it took the success path: `already have the piece`.  Now the stale result is ignored: no panic,
and `no_panic_full_partial` does not need `blocksHaveData` any more. -/
private def cW2 : Cfg :=
  { pl := 16384, plens := [16384, 16384], blocks := [[(0, 16384)], [(0, 16384)]], flens := [16384, 16384],
    fpads := [false, true], fnames := ["t", "pad"] }
private def sW2 : St := { cfg := cW2, fileExists := [false, false], known := [false, false], bad := cW2.dataSects }
private def evsW2 : List Ev := [
  ⟨.start, kn [], [], []⟩,
  ⟨.peer 1 "10.0.0.2" true true false, kn [], [], []⟩,
  ⟨.msg 1 .haveAll, kn [1], [], []⟩,
  ⟨.msg 1 .unchoke, kn [1], [⟨1, 1, false, false, false⟩], []⟩,
  ⟨.gate .write true, kn [1], [⟨1, 1, false, false, false⟩], []⟩,
  ⟨.msg 1 (.piece 1 0 16384 true), kn [1], [], []⟩,
  ⟨.verify, kn [1], [], []⟩,
  ⟨.gate .write false, kn [1], [], []⟩]
example : (drun (sW2, none) evsW2).1.panicked = none ∧ (drun (sW2, none) evsW2).1.writing = none ∧
    (drun (sW2, none) (evsW2.take 7)).1.writing.isSome = true ∧ (drun (sW2, none) (evsW2.take 7)).1.bf = some [false, true] ∧
    drunAdmissible (sW2, none) evsW2 ∧ drunAdmissibleI (sW2, none) evsW2 ∧ sW2.writing = none ∧
    sW2.cfg.blocksHaveData = false := by decide
example : InitLike sW2 := by apply initLike_of <;> decide

/-- (W3, historical) — an initial state with a write in flight for a piece without sections: before the fix of
finding C04-F9 its completion at the first event found no bitfield (`handlePieceWriteDone: nil bitfield`); now it
is stale (nothing is loaded) and ignored. -/
private def sW3o : St := { s1 with writing := some { piece := 5, src := 0, good := true, gen := 0 } }
example : (drun (sW3o, none) [⟨.nop, kn [], [], []⟩]).1.panicked = none ∧
    (drun (sW3o, none) [⟨.nop, kn [], [], []⟩]).1.writing = none := by decide

/-- W3 — `InitLike` does not exclude an initial state with a write in flight that claims to belong to the *next*
generation of pieces.  The file is on disk and good; the job is held by the write gate; `start`: allocation,
verification — the bit is set, the torrent seeds — and the pieces loaded are of the job's generation; the gate is
released, the job is "current", its piece is written again and the success path finds the bit set:
`already have the piece`.  (No torrent object is created with a write in flight.) -/
private def sW3 : St :=
  { s1 with fileExists := [true], known := [true], bad := [], gateWrite := true,
            writing := some { piece := 0, src := 0, good := true, gen := 1 } }
private def evsW3 : List Ev := [⟨.start, kn [], [], []⟩, ⟨.gate .write false, kn [], [], []⟩]
private theorem w3 : (drun (sW3, none) evsW3).1.panicked = some "already have the piece" ∧
    drunAdmissible (sW3, none) evsW3 ∧ drunAdmissibleI (sW3, none) evsW3 ∧
    sW3.panicked = none ∧ (drun (sW3, none) (evsW3.take 1)).1.status = .seeding := by decide
private theorem initLike_sW3 : InitLike sW3 :=
  ⟨cfgWF_of_check _ (by decide), fun x hx => (by cases hx), rfl, rfl, rfl, rfl, rfl, rfl, rfl, rfl, rfl, rfl, rfl, rfl,
    rfl, rfl, rfl⟩

/-- **`no_panic_full` is false as stated** (witness W3; W1 refutes it as well). -/
theorem no_panic_full_false : ¬ no_panic_full := by
  intro h
  have := h sW3 initLike_sW3 w3.2.2.2.1 evsW3 w3.2.1
  rw [w3.1] at this
  cases this

/-! Non-vacuity of `no_panic_full_partial`: the download of `evs1` (start, peer, have-all, unchoke, block →
verified write → seeding) and the stop after it satisfy every hypothesis. -/
example : InitLike s1 ∧ s1.panicked = none ∧ s1.writing = none ∧
    drunAdmissible (s1, none) (evs1 ++ [⟨.stop, kn [1], [], []⟩]) ∧
    drunAdmissibleI (s1, none) (evs1 ++ [⟨.stop, kn [1], [], []⟩]) :=
  ⟨by apply initLike_of <;> decide, by decide, by decide, by decide, by decide⟩
example : (drun (s1, none) (evs1 ++ [⟨.stop, kn [1], [], []⟩])).1.panicked = none :=
  no_panic_full_partial s1 (by apply initLike_of <;> decide) (by decide) (noFuture_of_none (by decide)) _ (by decide) (by decide)
/-- a magnet link whose metadata arrives (W1 without the inadmissible choice) -/
example : drunAdmissible (sW1, none) (evsW1.take 5 ++ [⟨.gate .open false, kn [1], [], []⟩]) ∧
    (drun (sW1, none) (evsW1.take 5 ++ [⟨.gate .open false, kn [1], [], []⟩])).1.status = .downloading := by decide

/-! Non-vacuity of `no_stale_verify_flag`, the magnet case: `verify` on a torrent that is fetching its
metadata leaves the flag set (`DownloadingMetadata`); a peer delivers the metadata; the allocation finds no
file: fresh bitfield, flag cleared, `Stopped` (before the fix of C04-F4: `Downloading` with the flag set).
With a file on disk the verifier runs (held by the read gate: `Verifying`, flag still set) and ends the
same way. -/
private def evsM : List Ev := [
  ⟨.start, kn [], [], []⟩,
  ⟨.verify, kn [], [], []⟩,
  ⟨.peer 1 "10.0.0.2" true true false, kn [], [], []⟩,
  ⟨.exths 1 true 100 false, kn [1], [], [1]⟩,
  ⟨.metadata 1 0 100 true, kn [1], [], []⟩]
example : InitLike sW1 ∧ sW1.doVerify = false ∧ drunAdmissible (sW1, none) evsM ∧
    (drun (sW1, none) (evsM.take 4)).1.doVerify = true ∧ (drun (sW1, none) (evsM.take 4)).1.status = .dlmeta ∧
    (drun (sW1, none) evsM).1.status = .stopped ∧ (drun (sW1, none) evsM).1.doVerify = false ∧
    (drun (sW1, none) evsM).1.bf = some [false] ∧ (drun (sW1, none) evsM).1.info = true :=
  ⟨by apply initLike_of <;> decide, by decide, by decide, by decide, by decide, by decide, by decide, by decide,
    by decide⟩
private def sW1e : St := { sW1 with fileExists := [true], known := [true] }
private def evsMg : List Ev := evsM.take 4 ++ [⟨.gate .read true, kn [1], [], [1]⟩, ⟨.metadata 1 0 100 true, kn [1], [], []⟩]
example : (drun (sW1e, none) evsMg).1.status = .verifying ∧ (drun (sW1e, none) evsMg).1.doVerify = true ∧
    (drun (sW1e, none) (evsMg ++ [⟨.gate .read false, kn [1], [], []⟩])).1.status = .stopped ∧
    (drun (sW1e, none) (evsMg ++ [⟨.gate .read false, kn [1], [], []⟩])).1.doVerify = false ∧
    (drun (sW1e, none) (evsMg ++ [⟨.gate .read false, kn [1], [], []⟩])).1.bf = some [false] := by decide

/-! Non-vacuity of `stop_after_metadata_stops` (the scenario of finding C08-F5): a magnet link added with
`StopAfterMetadata`, two peers connected, peer 1 delivers the info dictionary.  The state before the event is
reached by an admissible history from an `InitLike` state, so it satisfies `Full`; every other hypothesis is
checked by `decide`; the event ends `Stopped` with the metadata, both peers closed, no allocator, no panic.
Without the option the same history ends `Allocating` (held by the gate) with both peers still connected
(`metadata_adopted_starts_allocator`). -/
private def cS (sam : Bool) : Cfg :=
  { pl := 16384, plens := [16384], blocks := [[(0, 16384)]], flens := [16384], fpads := [false], fnames := ["t"],
    stopAfterMeta := sam }
private def sS (sam : Bool) : St :=
  { cfg := cS sam, info := false, infoAtAdd := false, isize := 100, fileExists := [false], known := [false],
    bad := (cS sam).dataSects }
private def evsS : List Ev := [
  ⟨.gate .open true, kn [], [], []⟩,
  ⟨.start, kn [], [], []⟩,
  ⟨.peer 1 "10.0.0.2" true true false, kn [], [], []⟩,
  ⟨.peer 2 "10.0.0.3" true true false, kn [1], [], []⟩,
  ⟨.exths 1 true 100 false, kn [1, 2], [], [1]⟩]
private def evS : Ev := ⟨.metadata 1 0 100 true, kn [1, 2], [], []⟩

example : Full (drun (sS true, none) evsS).1 :=
  (drun_full evsS (sS true, none) (InitLike.full (by apply initLike_of <;> decide) (noFuture_of_none (by decide)))
    (by decide) (by decide)).1
example : (drun (sS true, none) evsS).1.panicked = none ∧ (drun (sS true, none) evsS).1.doVerify = false ∧
    ((drun (sS true, none) evsS).1.findPeer 1).isSome = true ∧ (drun (sS true, none) evsS).1.peers.length = 2 ∧
    (drun (sS true, none) evsS).1.cfg.stopAfterMeta = true ∧
    (drun (sS true, none) evsS).1.cfg.n ≤ (drun (sS true, none) evsS).1.cfg.maxPieces ∧
    (drun (sS true, none) evsS).1.cfg.isPrivate = false ∧
    ∃ d, HmdComplete ((drun (sS true, none) evsS).1, []) d 1 0 100 true :=
  ⟨by decide, by decide, by decide, by decide, by decide, by decide, by decide,
    ⟨{ k := 1, size := 100, nb := 1, pending := 1, blocks := [none] }, by rfl, by decide, by decide, by decide,
      by decide, by decide⟩⟩
example : (drun (sS true, none) (evsS ++ [evS])).1.status = .stopped ∧ (drun (sS true, none) (evsS ++ [evS])).1.info = true ∧
    (drun (sS true, none) (evsS ++ [evS])).1.lastErr = false ∧ (drun (sS true, none) (evsS ++ [evS])).1.peers = [] ∧
    (drun (sS true, none) (evsS ++ [evS])).1.allocator = false ∧ (drun (sS true, none) (evsS ++ [evS])).1.loaded = false ∧
    (drun (sS true, none) (evsS ++ [evS])).1.bf = none ∧ (drun (sS true, none) (evsS ++ [evS])).1.panicked = none := by
  decide
example : (drun (sS false, none) (evsS ++ [evS])).1.status = .allocating ∧
    (drun (sS false, none) (evsS ++ [evS])).1.info = true ∧ (drun (sS false, none) (evsS ++ [evS])).1.peers.length = 2 := by
  decide
/-- a later `start` of the torrent stopped after its metadata allocates and downloads as usual -/
example : (drun (sS true, none) (evsS ++ [evS, ⟨.gate .open false, kn [], [], []⟩, ⟨.start, kn [], [], []⟩])).1.status
    = .downloading := by decide

/-- Why `stop_after_metadata_stops` assumes `doVerify = false`: with a verify command pending (issued while the
metadata was being fetched) the stop is turned into the restart that runs the verification — `Allocating`
while the gate holds the allocator, the peers of the metadata phase closed — and the torrent is stopped once that
is over (`no_stale_verify_flag`). -/
private def evsV : List Ev := [
  ⟨.start, kn [], [], []⟩,
  ⟨.verify, kn [], [], []⟩,
  ⟨.gate .open true, kn [], [], []⟩,
  ⟨.peer 1 "10.0.0.2" true true false, kn [], [], []⟩,
  ⟨.peer 2 "10.0.0.3" true true false, kn [1], [], []⟩,
  ⟨.exths 1 true 100 false, kn [1, 2], [], [1]⟩]
example : (drun (sS true, none) evsV).1.doVerify = true ∧ (drun (sS true, none) evsV).1.status = .dlmeta ∧
    (drun (sS true, none) evsV).1.peers.length = 2 ∧
    (drun (sS true, none) (evsV ++ [evS])).1.status = .allocating ∧
    (drun (sS true, none) (evsV ++ [evS])).1.peers = [] ∧
    (drun (sS true, none) (evsV ++ [evS, ⟨.gate .open false, kn [], [], []⟩])).1.status = .stopped ∧
    (drun (sS true, none) (evsV ++ [evS, ⟨.gate .open false, kn [], [], []⟩])).1.doVerify = false := by decide

/-- the window of finding C08-F5 in the model: inside the `stop` of `StopAfterMetadata` the metadata is known,
no allocator runs and nothing is loaded — the status function says `Downloading` (so `Life` does not hold
*inside* the handler).  `St.startDls` carries rain's guard `if t.piecePicker == nil { return }` as `s.loaded`
(`startDls_noop_of_unloaded`, any state): `closePeer` there grants no permission and starts nothing. -/
example : ({ (drun (sS true, none) evsS).1 with idls := [], info := true, metaDone := true } : St).status = .downloading ∧
    ({ (drun (sS true, none) evsS).1 with idls := [], info := true, metaDone := true } : St).loaded = false ∧
    (({ (drun (sS true, none) evsS).1 with idls := [], info := true, metaDone := true } : St).closePeer 1).mayStart = [] ∧
    (({ (drun (sS true, none) evsS).1 with idls := [], info := true, metaDone := true } : St).closePeer 1).dls = [] := by
  decide

/-! ### Finding C04-F6: a stop during a requested verification (non-vacuity of `stop_withdraws_verify`,
`stop_during_requested_verify_ends_stopped`, `stopHeld_reaches_stopped_or_hangs`)

The one-file torrent with its file on disk.  The verify command given with the gates left alone
(`Op.verifyHeld`) while the read gate is held leaves the torrent `Verifying` with the request pending; with the
open gate held, `Allocating`; on the seeding torrent whose tracker does not answer, `Stopping`.  All three are
states of the invariant reached by `drun` from an `InitLike` state, so the hypotheses of the theorem are
satisfiable in each of its three statuses.  `Op.stopHeld` then ends `Stopped` (`Stopping` behind the hanging
tracker), flag withdrawn, the held worker dropped; a gate event afterwards / the stop timeout restarts
nothing.  (On the model before the fix the same `stopHeld` left `doVerify` set and `handleStopped` restarted
the torrent: `Verifying` / `Allocating` again — the harness saw it as `stop-did-not-stop`.) -/
private def s1e : St := { s1 with fileExists := [true], known := [true] }
private def evsRV : List Ev := [⟨.gate .read true, kn [], [], []⟩, ⟨.verifyHeld, kn [], [], []⟩]
private def evsRA : List Ev := [⟨.gate .open true, kn [], [], []⟩, ⟨.verifyHeld, kn [], [], []⟩]
private def evsRS : List Ev := evs1 ++ [⟨.verifyHeld, kn [1], [], []⟩]
private def evStopHeld : Ev := ⟨.stopHeld, kn [1], [], []⟩

example : Life (drun (s1e, none) evsRV).1 ∧ Life (drun (s1e, none) evsRA).1 ∧ Life (drun (s1h, none) evsRS).1 :=
  ⟨drun_life _ _ (InitLike.life (by apply initLike_of <;> decide)) (by decide),
   drun_life _ _ (InitLike.life (by apply initLike_of <;> decide)) (by decide),
   drun_life _ _ (InitLike.life (by apply initLike_of <;> decide)) (by decide)⟩
/-- the hypotheses, in the three statuses -/
example : (drun (s1e, none) evsRV).1.status = .verifying ∧ (drun (s1e, none) evsRV).1.doVerify = true ∧
    (drun (s1e, none) evsRV).1.gateRead = true ∧ (drun (s1e, none) evsRV).1.panicked = none ∧
    (drun (s1e, none) evsRA).1.status = .allocating ∧ (drun (s1e, none) evsRA).1.doVerify = true ∧
    (drun (s1e, none) evsRA).1.gateOpen = true ∧ (drun (s1e, none) evsRA).1.panicked = none ∧
    (drun (s1h, none) evsRS).1.status = .stopping ∧ (drun (s1h, none) evsRS).1.doVerify = true ∧
    (drun (s1h, none) evsRS).1.stopHang = true ∧ (drun (s1h, none) evsRS).1.panicked = none := by decide
/-- `Verifying` behind the read gate: `stopHeld` ⇒ `Stopped`, request withdrawn, no verifier (`St.stop` drops
the held worker and with it its gate); a later gate event restarts nothing -/
example : (drun (s1e, none) (evsRV ++ [evStopHeld])).1.status = .stopped ∧
    (drun (s1e, none) (evsRV ++ [evStopHeld])).1.doVerify = false ∧
    (drun (s1e, none) (evsRV ++ [evStopHeld])).1.verifier = false ∧
    (drun (s1e, none) (evsRV ++ [evStopHeld])).1.gateRead = false ∧
    (drun (s1e, none) (evsRV ++ [evStopHeld, ⟨.gate .read false, kn [], [], []⟩])).1.status = .stopped := by decide
/-- `Allocating` behind the open gate -/
example : (drun (s1e, none) (evsRA ++ [evStopHeld])).1.status = .stopped ∧
    (drun (s1e, none) (evsRA ++ [evStopHeld])).1.doVerify = false ∧
    (drun (s1e, none) (evsRA ++ [evStopHeld])).1.allocator = false ∧
    (drun (s1e, none) (evsRA ++ [evStopHeld])).1.gateOpen = false ∧
    (drun (s1e, none) (evsRA ++ [evStopHeld, ⟨.gate .open false, kn [], [], []⟩])).1.status = .stopped := by decide
/-- `Stopping` behind a hanging tracker: `stopHeld` ⇒ still `Stopping`, request withdrawn; the stop timeout ends
`Stopped` — without the `stopHeld` it runs the verification first (same end, bitfield re-verified) -/
example : (drun (s1h, none) (evsRS ++ [evStopHeld])).1.status = .stopping ∧
    (drun (s1h, none) (evsRS ++ [evStopHeld])).1.doVerify = false ∧
    (drun (s1h, none) (evsRS ++ [evStopHeld, ⟨.gate .read true, kn [1], [], []⟩, ⟨.waitstop, kn [1], [], []⟩])).1.status
      = .stopped ∧
    (drun (s1h, none) (evsRS ++ [⟨.gate .read true, kn [1], [], []⟩, ⟨.waitstop, kn [1], [], []⟩])).1.status
      = .verifying := by decide
/-- `verifyHeld_ends_stopped_or_hangs` / `verifyHeld_from_running_ends_stopped_or_hangs`: with the gates
released `Op.verifyHeld` runs the verification to the end, like `Op.verify` -/
example : (step s1e none (fun _ => false) .verifyHeld).1.st.status = .stopped ∧
    (step s1e none (fun _ => false) .verifyHeld).1.st.doVerify = false ∧
    (step s1e none (fun _ => false) .verifyHeld).1.st.bf = some [false] ∧
    (drun (s1, none) (evs1 ++ [⟨.verifyHeld, kn [1], [], []⟩])).1.status = .stopped ∧
    (drun (s1, none) (evs1 ++ [⟨.verifyHeld, kn [1], [], []⟩])).1.bf = some [true] ∧
    (drun (s1, none) evs1).1.gateOpen = false ∧ (drun (s1, none) evs1).1.gateRead = false := by decide
/-- the same with `Op.stop` (gates released by the harness) -/
example : (drun (s1e, none) (evsRV ++ [⟨.stop, kn [], [], []⟩])).1.status = .stopped ∧
    (drun (s1e, none) (evsRV ++ [⟨.stop, kn [], [], []⟩])).1.doVerify = false ∧
    (drun (s1e, none) (evsRV ++ [⟨.stop, kn [], [], []⟩])).1.gateRead = false := by decide
/-- `stop_withdraws_verify` needs no invariant: a panicked state with the flag set -/
example : (step { s1e with doVerify := true, panicked := some "x", errC := true } none (fun _ => false) .stopHeld).1.st.doVerify
    = false := by decide
end Witnesses

end Rain.Props.C04
