import RainModel.Lemmas.LoopWeak
import RainModel.Lemmas.LoopNoPanic
/-!
C04 — lifecycle safety, loop level (M-LOOP).  Two inductive invariants of the event loop, proved for every
event with arbitrary parameters, every state satisfying them, and every admissible choice of the picker:

* `CompInv` — the completion flags are truthful (`completed_sound`, `seeding_truthful`);
* `Life` — a stopped or stopping torrent holds nothing, what is loaded has its files, nothing exists before
  the metadata (`stopped_clean`, `life_invariant`);

and three reachability statements about single commands: `stop_reaches_stopped`, `verify_ends_stopped`
(with the proved counterexample `verify_without_files_starts_download` for the case the property text asks
about), and `no_panic_partial` (handler by handler; the full inductive statement is `no_panic_full`, not
proved — see notes/loop-proofs.md).  Tie to the code: suite `lifecycle` (and `loop-dl`, `loop-magnet`).
-/
namespace Rain.Props.C04
open Rain.Loop

/-- **completed_sound.** `completeC` is closed iff `completed`; `completed` implies every bit is set (or the
bitfield has been dropped for a re-verification, in which case the torrent is not seeding); a torrent past
allocation and verification has a bitfield.  Preserved by every event. -/
theorem completed_sound (s : St) (p : Parked) (kn : Nat → Bool) (op : Op) (h : CompInv s) :
    CompInv (step s p kn op).1.st := step_comp s p kn op h

/-- The same along whole histories, with the implementation's choices adopted. -/
theorem completed_sound_run (s0 : St) (h0 : InitLike s0) (evs : List Ev) : CompInv (drun (s0, none) evs).1 :=
  drun_comp evs (s0, none) h0.comp

/-- **seeding_truthful.** Status `Seeding` ⇒ there is a bitfield and every bit is set. -/
theorem seeding_truthful (s : St) (c : CompInv s) (l : Life s) (hs : s.status = .seeding) :
    ∃ b, s.bf = some b ∧ allTrue b = true :=
  c.seeding hs (l.files_of_running (Or.inr hs)).2.2

/-- **life_invariant.** The lifecycle invariant is preserved by every event (any parameters, any state). -/
theorem life_invariant (s : St) (p : Parked) (kn : Nat → Bool) (op : Op) (h : Life s) :
    Life (step s p kn op).1.st := step_life s p kn op h

/-- … and by the adoption of the implementation's choices, when `reconcile` accepted them. -/
theorem life_invariant_run (s0 : St) (h0 : InitLike s0) (evs : List Ev) (ha : drunAdmissible (s0, none) evs) :
    Life (drun (s0, none) evs).1 := drun_life evs (s0, none) h0.life ha

/-- **stopped_clean.** Status `Stopped` ⇒ no peers, no piece or metadata downloads, no open file handle, no
leaked handle, no allocator, verifier or acceptor. -/
theorem stopped_clean (s : St) (l : Life s) (hs : s.status = .stopped) :
    s.peers = [] ∧ s.dls = [] ∧ s.idls = [] ∧ s.openFiles = [] ∧ s.leaked = 0 ∧
    s.allocator = false ∧ s.verifier = false ∧ s.acceptor = false := l.stopped_clean hs

/-- Downloading or seeding ⇒ the pieces are loaded and every file of the torrent exists. -/
theorem running_has_files (s : St) (l : Life s) (hs : s.status = .downloading ∨ s.status = .seeding) :
    s.loaded = true ∧ FilesExist s ∧ s.info = true := l.files_of_running hs

/-- **stop_reaches_stopped.** From any state satisfying the invariant, in any status: after the `stop`
command (and the worker completions it releases) the status is `Stopped`. -/
theorem stop_reaches_stopped (s : St) (p : Parked) (kn : Nat → Bool) (l : Life s)
    (hp : s.panicked = none) (hv : s.doVerify = false) :
    (step s p kn .stop).1.st.status = .stopped := Rain.Loop.stop_reaches_stopped s p kn l hp hv

/-- **verify_ends_stopped.** The verify command on a stopped torrent (metadata known, at least one of its
files on disk, storage not failing): within the op the files are verified and the torrent is `Stopped`
again with the verify flag cleared. -/
theorem verify_ends_stopped (s : St) (p : Parked) (kn : Nat → Bool) (l : Life s) (he : s.errC = false)
    (hi : s.info = true) (hp : s.panicked = none) (hf : s.failOpen = false) (hex : SomeFileExists s) :
    (step s p kn .verify).1.st.status = .stopped ∧ (step s p kn .verify).1.st.doVerify = false :=
  Rain.Loop.verify_ends_stopped s p kn l he hi hp hf hex

/-- **verify_without_files_starts_download** (counterexample to `verify_ends_stopped` without the
hypothesis that some file exists; the property text names it): verify on a stopped torrent with no data
starts downloading, and the verify flag stays set — the next `stop` is turned into a re-verification. -/
theorem verify_without_files_starts_download :
    let c : Cfg := { pl := 16384, plens := [16384], blocks := [[(0, 16384)]], flens := [16384], fpads := [false], fnames := ["t"] }
    let s : St := { cfg := c, fileExists := [false], known := [false], bad := c.dataSects }
    (step s none (fun _ => false) .verify).1.st.status = .downloading ∧
    (step s none (fun _ => false) .verify).1.st.doVerify = true := by decide

/-- **no_panic_partial.** Handler by handler: under the stated clause of the loop invariant the handler
reaches none of Go's panic sites.  (`start`, `handleStopped`: no worker left over; `checkCompletion`: a
bitfield, `completeC` closed only if completed; piece messages: the piece is not being written; write done:
the job's piece is not yet held; metadata: no allocator; replay of queued messages: queues hold only
messages that need the metadata.)  Handlers not listed have no panic site (`…_panicked` frame lemmas). -/
theorem no_panic_partial :
    (∀ m : M, (m.1.errC = false → m.1.allocator = false ∧ m.1.verifier = false) →
        (start m).1.panicked = m.1.panicked) ∧
    (∀ m : M, (m.1.allocator = false ∧ m.1.verifier = false) → (handleStopped m).1.panicked = m.1.panicked) ∧
    (∀ m : M, (m.1.errC = false → m.1.allocator = false ∧ m.1.verifier = false) →
        (handleVerifyCommand m).1.panicked = m.1.panicked) ∧
    (∀ (s : St) (e : Bool), (s.stop e).panicked = s.panicked) ∧
    (∀ s : St, (s.completed = true ∨ s.bf.isSome = true) → (s.completeCClosed = true → s.completed = true) →
        s.checkCompletion.1.panicked = s.panicked) ∧
    (∀ (m : M) (k : Nat) (msg : Msg), (∀ i b l g, msg = .piece i b l g → m.1.wflag.getD i false = false) →
        (handlePeerMessage m k msg).1.panicked = m.1.panicked) ∧
    (∀ m : M, QueueOK m.1 → (processQueued m).1.panicked = m.1.panicked ∧ QueueOK (processQueued m).1) ∧
    (∀ (m : M) (w : WriteJob),
        (w.good = true → ∃ b, m.1.bf = some b ∧ b.getD w.piece false = false) →
        (m.1.completeCClosed = true → m.1.completed = true) → (writerRun m w).1.panicked = m.1.panicked) ∧
    (∀ m : M, m.1.completeCClosed = m.1.completed → QueueOK m.1 → (allocatorRun m).1.panicked = m.1.panicked) ∧
    (∀ m : M, m.1.completeCClosed = m.1.completed → QueueOK m.1 → m.1.panicked = none →
        (handleVerificationDone m).1.panicked = none) ∧
    (∀ (m : M) (k i len : Nat) (g : Bool), m.1.allocator = false →
        (handleMetadataData m k i len g).1.panicked = m.1.panicked) :=
  ⟨start_no_panic, handleStopped_no_panic, handleVerifyCommand_no_panic, stop_panicked, checkCompletion_no_panic,
    handlePeerMessage_no_panic, processQueued_no_panic, writerRun_no_panic, allocatorRun_no_panic,
    handleVerificationDone_no_panic, handleMetadataData_no_panic⟩

/-- The full statement (not proved): no history from a freshly added torrent ever sets `panicked`. -/
def no_panic_full : Prop :=
  ∀ (s0 : St), InitLike s0 → s0.panicked = none → ∀ evs : List Ev, drunAdmissible (s0, none) evs →
    (drun (s0, none) evs).1.panicked = none

/-! Non-vacuity of `stopped_clean` / `seeding_truthful`: a download that completes, then stops. -/
section Example
private def c1 : Cfg :=
  { pl := 16384, plens := [16384], blocks := [[(0, 16384)]], flens := [16384], fpads := [false], fnames := ["t"] }
private def s1 : St := { cfg := c1, fileExists := [false], known := [false], bad := c1.dataSects }
private def kn (l : List Nat) : Nat → Bool := fun k => l.contains k
private def evs1 : List Ev := [
  ⟨.start, kn [], [], []⟩,
  ⟨.peer 1 "10.0.0.2" true true false, kn [], [], []⟩,
  ⟨.msg 1 .haveAll, kn [1], [], []⟩,
  ⟨.msg 1 .unchoke, kn [1], [⟨1, 0, false, false, false⟩], []⟩,
  ⟨.msg 1 (.piece 0 0 16384 true), kn [1], [], []⟩]

example : (drun (s1, none) evs1).1.status = .seeding ∧ (drun (s1, none) evs1).1.bf = some [true] := by decide
example : (drun (s1, none) (evs1 ++ [⟨.stop, kn [1], [], []⟩])).1.status = .stopped ∧
    (drun (s1, none) (evs1 ++ [⟨.stop, kn [1], [], []⟩])).1.peers = [] := by decide
end Example

end Rain.Props.C04
