import RainModel.Model.ResourceManager
import RainModel.Lemmas.ResourceManager
import RainModel.Lemmas.RequestProto
/-!
C08 (resource-manager half) — the caller of `ResourceManager.Request` always returns.
Property theorems only; the protocol model is `Rain.RM.Proto` in `Model/ResourceManager.lean`.
-/
namespace Rain.Props.C08RM
open Rain.RM Rain.RM.Proto

/-- **request_returns.** Fixed protocol (the manager closes `doneC` when it takes the cancel branch
of `handleRequest`).  From every well-formed protocol state — in particular from the start of
`Request` for every manager state, every request with `n ≥ 0`, and `cancelC` / `closeC` each
already closed or still open — and for every schedule `acts` of caller, manager and environment
steps:
* the execution has at most `pmeasure s ≤ 10` steps (every schedule is finite), and
* in whatever state it stands, if the caller has not returned then some step of the caller or the
  manager is enabled (the caller is never blocked on a channel nobody will serve).
Hence every maximal (weakly fair) execution ends with the caller returned. -/
theorem request_returns (s : PState) (hw : wf true s = true) (acts : List Act) (s' : PState)
    (h : prun true s acts = some s') :
    acts.length ≤ 10 ∧ (isReturned s'.rpc = false → stuck true s' = false) := by
  obtain ⟨hw', hl⟩ := prun_wf true acts s s' hw h
  have := pmeasure_le s
  exact ⟨by omega, fun hr => progress_fixed s' hw' hr⟩

/-- The same, stated from the entry of `Request`: for every manager state `ms`, every request
`r` with `n ≥ 0` (a negative `n` returns before anything is sent), `cancelC` already closed or
not, manager already closed or not. -/
theorem request_returns_from_start (ms : State) (r : Req) (hn : 0 ≤ r.n) (cancelClosed closeClosed : Bool)
    (acts : List Act) (s' : PState) (h : prun true (start ms r cancelClosed closeClosed) acts = some s') :
    acts.length ≤ 10 ∧ (isReturned s'.rpc = false → stuck true s' = false) :=
  request_returns _ (wf_start true ms r cancelClosed closeClosed hn) acts s' h

/-- A maximal execution (nothing of caller or manager enabled any more) has the caller returned. -/
theorem request_returns_maximal (ms : State) (r : Req) (hn : 0 ≤ r.n) (cancelClosed closeClosed : Bool)
    (acts : List Act) (s' : PState) (h : prun true (start ms r cancelClosed closeClosed) acts = some s')
    (hmax : stuck true s' = true) : isReturned s'.rpc = true := by
  have := (request_returns_from_start ms r hn cancelClosed closeClosed acts s' h).2
  cases hr : isReturned s'.rpc with
  | true => rfl
  | false => rw [this hr] at hmax; cases hmax

/-- Non-vacuity: the schedule that used to block — `cancelC` closed before the call, the manager
takes the cancel branch before the caller parks — now ends with the caller returned `false`. -/
example : (prun true (start (init 3) ⟨1, 0, 4⟩ true false) [.send, .mgrCancel, .park, .reqSeesDoneClosed]).map (·.rpc)
    = some (.returned false) := by decide

/-- The defect of the original protocol (DESIGN 10 #8, fixed in the rain checkout): with `cancelC`
already closed the schedule send → manager takes the cancel branch → caller parks on `doneC`
reaches a state in which the caller has not returned and neither caller nor manager can move
— and stays blocked for every continuation that does not close the manager. -/
theorem request_blocks_unfixed :
    ∃ s', prun false (start (init 3) ⟨1, 0, 4⟩ true false) [.send, .mgrCancel, .park] = some s' ∧
      isReturned s'.rpc = false ∧ stuck false s' = true ∧ s'.closeClosed = false := by
  refine ⟨_, rfl, ?_, ?_, ?_⟩ <;> decide

/-- **request_accounting.** Whatever the schedule, the caller's result and the manager's books
agree: `Request` returns `true` only if the manager subtracted exactly this amount (the grant of
`handleRequest`), and if it returns `false` the manager either did nothing for it or queued it —
a reservation is never made without the caller learning about it. -/
theorem request_accounting (fixed : Bool) (ms0 : State) (r : Req) (cc cl : Bool) (acts : List Act) (s' : PState)
    (h : prun fixed (start ms0 r cc cl) acts = some s') : Booked ms0 s' ∧ s'.r = r := by
  have key : ∀ (acts : List Act) (s s' : PState), Booked ms0 s → prun fixed s acts = some s' → Booked ms0 s' ∧ s'.r = s.r := by
    intro acts
    induction acts with
    | nil => intro s s' ha hr; simp [prun] at hr; subst hr; exact ⟨ha, rfl⟩
    | cons a as ih =>
      intro s s' ha hr
      simp only [prun] at hr
      cases hs : pstep fixed s a with
      | none => rw [hs] at hr; cases hr
      | some s1 =>
        rw [hs] at hr
        obtain ⟨ha1, hr1⟩ := acc_step fixed ms0 s s1 a ha hs
        obtain ⟨ha2, hr2⟩ := ih s1 s' ha1 hr
        exact ⟨ha2, hr2.trans hr1⟩
  exact key acts _ s' (by simp [Booked, start]) h

end Rain.Props.C08RM
