import RainModel.Model.ResourceManager
import RainModel.Lemmas.ResourceManager
/-!
C08 (resource-manager half) — the caller of `ResourceManager.Request` always returns.
Property theorems only; the protocol model is `Rain.RM.Proto` in `Model/ResourceManager.lean`.
-/
namespace Rain.Props.C08RM
open Rain.RM Rain.RM.Proto

/-- `handleRequest` with an answer never reaches its `panic`: the amount is subtracted only when
it fits. -/
theorem handleRequest_no_panic (ms : State) (r : Req) (b : Bool) :
    ∃ ms', handleRequest ms r b = .ok ms' := by
  unfold handleRequest
  cases b with
  | false => exact ⟨ms, rfl⟩
  | true =>
    by_cases ha : acquiredNow ms r = true
    · have : ms.available ≥ r.n := by simpa [acquiredNow] using ha
      have hnp : ¬ (ms.available - r.n < 0) := by omega
      simp [ha, hnp]
    · simp [ha]

theorem wf_start (fixed : Bool) (ms : State) (r : Req) (cc cl : Bool) (hn : 0 ≤ r.n) :
    wf fixed (start ms r cc cl) = true := by
  simp [wf, start, isReturned, hn]

/-- `wf` is an inductive invariant of the protocol (fixed or not). -/
theorem wf_step (fixed : Bool) (s s' : PState) (a : Act) (hw : wf fixed s = true)
    (h : pstep fixed s a = some s') : wf fixed s' = true := by
  obtain ⟨rpc, mpc, r, ms, cc, cl, dc, dr⟩ := s
  cases a <;> simp only [pstep] at h
  case answer =>
    split at h
    · rename_i hc
      obtain ⟨ms', hms⟩ := handleRequest_no_panic ms r true
      simp only [hms] at h
      cases h
      obtain ⟨h1, h2⟩ := hc
      subst h1 h2
      cases fixed <;> cases cc <;> cases cl <;> cases dc <;> cases dr <;> simp_all [wf, isReturned]
    · cases h
  all_goals
    split at h <;>
      first
      | (cases h; done)
      | (cases h; cases rpc <;> cases mpc <;> cases fixed <;> cases cc <;> cases cl <;> cases dc <;> cases dr <;> simp_all [wf, isReturned])

/-- Every step (of the caller, the manager or the environment) strictly decreases `pmeasure`. -/
theorem pmeasure_step (fixed : Bool) (s s' : PState) (a : Act) (h : pstep fixed s a = some s') :
    pmeasure s' < pmeasure s := by
  obtain ⟨rpc, mpc, r, ms, cc, cl, dc, dr⟩ := s
  cases a <;> simp only [pstep] at h
  case answer =>
    split at h
    · rename_i hc
      obtain ⟨ms', hms⟩ := handleRequest_no_panic ms r true
      simp only [hms] at h
      cases h
      obtain ⟨h1, h2⟩ := hc
      subst h1 h2
      simp only [pmeasure]
      cases cc <;> cases cl <;> simp
    · cases h
  all_goals
    split at h <;>
      first
      | (cases h; done)
      | (cases h; cases rpc <;> cases mpc <;> cases cc <;> cases cl <;> simp_all [pmeasure])

/-- Progress for the fixed protocol: while the caller has not returned, a step of the caller or of
the manager is enabled (no state in which the caller waits for something nobody will do). -/
theorem progress_fixed (s : PState) (hw : wf true s = true) (hr : isReturned s.rpc = false) :
    stuck true s = false := by
  obtain ⟨rpc, mpc, r, ms, cc, cl, dc, dr⟩ := s
  obtain ⟨ms', hms⟩ := handleRequest_no_panic ms r true
  cases rpc <;> cases mpc <;> cases cl <;> cases dc <;> cases dr <;> cases cc <;>
    simp_all [stuck, sysActs, pstep, wf, isReturned]

theorem pmeasure_le (s : PState) : pmeasure s ≤ 10 := by
  obtain ⟨rpc, mpc, r, ms, cc, cl, dc, dr⟩ := s
  cases rpc <;> cases mpc <;> cases cc <;> cases cl <;> simp [pmeasure]

theorem prun_wf (fixed : Bool) : ∀ (acts : List Act) (s s' : PState), wf fixed s = true →
    prun fixed s acts = some s' → wf fixed s' = true ∧ acts.length + pmeasure s' ≤ pmeasure s := by
  intro acts
  induction acts with
  | nil => intro s s' hw h; simp [prun] at h; subst h; exact ⟨hw, by simp⟩
  | cons a as ih =>
    intro s s' hw h
    simp only [prun] at h
    cases hs : pstep fixed s a with
    | none => simp [hs] at h
    | some s1 =>
      simp only [hs] at h
      have hw1 := wf_step fixed s s1 a hw hs
      have hm := pmeasure_step fixed s s1 a hs
      obtain ⟨hw', hl⟩ := ih s1 s' hw1 h
      refine ⟨hw', ?_⟩
      simp only [List.length_cons]; omega

/-- **request_returns.** Fixed protocol (the manager closes `doneC` when it takes the cancel branch
of `handleRequest`).  From every well-formed protocol state — in particular from the start of
`Request` for every manager state, every request with `n ≥ 0`, and `cancelC` / `closeC` each
already closed or still open — and for every schedule `acts` of caller, manager and environment
steps:
* the execution has at most `pmeasure s ≤ 10` steps (every schedule is finite), and
* in whatever state it stands, if the caller has not returned then some step of the caller or the
  manager is enabled (the caller is never blocked on a channel nobody will serve).
Hence every maximal (weakly fair) execution ends with the caller returned. -/
theorem request_returns (s : PState) (hw : wf true s = true) (acts : List Act) (s' : PState)
    (h : prun true s acts = some s') :
    acts.length ≤ 10 ∧ (isReturned s'.rpc = false → stuck true s' = false) := by
  obtain ⟨hw', hl⟩ := prun_wf true acts s s' hw h
  have := pmeasure_le s
  exact ⟨by omega, fun hr => progress_fixed s' hw' hr⟩

/-- The same, stated from the entry of `Request`: for every manager state `ms`, every request
`r` with `n ≥ 0` (a negative `n` returns before anything is sent), `cancelC` already closed or
not, manager already closed or not. -/
theorem request_returns_from_start (ms : State) (r : Req) (hn : 0 ≤ r.n) (cancelClosed closeClosed : Bool)
    (acts : List Act) (s' : PState) (h : prun true (start ms r cancelClosed closeClosed) acts = some s') :
    acts.length ≤ 10 ∧ (isReturned s'.rpc = false → stuck true s' = false) :=
  request_returns _ (wf_start true ms r cancelClosed closeClosed hn) acts s' h

/-- A maximal execution (nothing of caller or manager enabled any more) has the caller returned. -/
theorem request_returns_maximal (ms : State) (r : Req) (hn : 0 ≤ r.n) (cancelClosed closeClosed : Bool)
    (acts : List Act) (s' : PState) (h : prun true (start ms r cancelClosed closeClosed) acts = some s')
    (hmax : stuck true s' = true) : isReturned s'.rpc = true := by
  have := (request_returns_from_start ms r hn cancelClosed closeClosed acts s' h).2
  cases hr : isReturned s'.rpc with
  | true => rfl
  | false => rw [this hr] at hmax; cases hmax

/-- Non-vacuity: the schedule that used to block — `cancelC` closed before the call, the manager
takes the cancel branch before the caller parks — now ends with the caller returned `false`. -/
example : (prun true (start (init 3) ⟨1, 0, 4⟩ true false) [.send, .mgrCancel, .park, .reqSeesDoneClosed]).map (·.rpc)
    = some (.returned false) := by decide

/-- The defect of the original protocol (DESIGN 10 #8, fixed in the rain checkout): with `cancelC`
already closed the schedule send → manager takes the cancel branch → caller parks on `doneC`
reaches a state in which the caller has not returned and neither caller nor manager can move
— and stays blocked for every continuation that does not close the manager. -/
theorem request_blocks_unfixed :
    ∃ s', prun false (start (init 3) ⟨1, 0, 4⟩ true false) [.send, .mgrCancel, .park] = some s' ∧
      isReturned s'.rpc = false ∧ stuck false s' = true ∧ s'.closeClosed = false := by
  refine ⟨_, rfl, ?_, ?_, ?_⟩ <;> decide

/-- What the manager's books say about this request, relative to the state `ms0` at entry. -/
def Acc (ms0 : State) (s : PState) : Prop :=
  match s.rpc with
  | .returned true => acquiredNow ms0 s.r = true ∧ handleRequest ms0 s.r true = .ok s.ms
  | .returned false => s.ms = ms0 ∨ (acquiredNow ms0 s.r = false ∧ handleRequest ms0 s.r true = .ok s.ms)
  | _ => s.ms = ms0

theorem acc_step (fixed : Bool) (ms0 : State) (s s' : PState) (a : Act) (h : Acc ms0 s)
    (hs : pstep fixed s a = some s') : Acc ms0 s' ∧ s'.r = s.r := by
  obtain ⟨rpc, mpc, r, ms, cc, cl, dc, dr⟩ := s
  cases a <;> simp only [pstep] at hs
  case answer =>
    split at hs
    · rename_i hc
      obtain ⟨ms', hms⟩ := handleRequest_no_panic ms r true
      simp only [hms] at hs
      cases hs
      obtain ⟨h1, h2⟩ := hc
      subst h1 h2
      simp only [Acc] at h
      subst h
      refine ⟨?_, rfl⟩
      cases hb : acquiredNow ms r <;> simp [Acc, hb, hms]
    · cases hs
  all_goals
    split at hs <;>
      first
      | (cases hs; done)
      | (cases hs; refine ⟨?_, rfl⟩; cases rpc <;> simp_all [Acc])

/-- **request_accounting.** Whatever the schedule, the caller's result and the manager's books
agree: `Request` returns `true` only if the manager subtracted exactly this amount (the grant of
`handleRequest`), and if it returns `false` the manager either did nothing for it or queued it —
a reservation is never made without the caller learning about it. -/
theorem request_accounting (fixed : Bool) (ms0 : State) (r : Req) (cc cl : Bool) (acts : List Act) (s' : PState)
    (h : prun fixed (start ms0 r cc cl) acts = some s') : Acc ms0 s' ∧ s'.r = r := by
  have key : ∀ (acts : List Act) (s s' : PState), Acc ms0 s → prun fixed s acts = some s' → Acc ms0 s' ∧ s'.r = s.r := by
    intro acts
    induction acts with
    | nil => intro s s' ha hr; simp [prun] at hr; subst hr; exact ⟨ha, rfl⟩
    | cons a as ih =>
      intro s s' ha hr
      simp only [prun] at hr
      cases hs : pstep fixed s a with
      | none => rw [hs] at hr; cases hr
      | some s1 =>
        rw [hs] at hr
        obtain ⟨ha1, hr1⟩ := acc_step fixed ms0 s s1 a ha hs
        obtain ⟨ha2, hr2⟩ := ih s1 s' ha1 hr
        exact ⟨ha2, hr2.trans hr1⟩
  exact key acts _ s' (by simp [Acc, start]) h

end Rain.Props.C08RM
