import RainModel.Lemmas.LoopPick
/-!
C10 — completion with an honest full source, the model-level half of "no idle eligible peer": after every
event that frees a piece or a peer, the picker is re-run (`startPieceDownloaderFor`, recorded in
`mayStart`) for every connected peer that has no download.  That the picker, once run, finds an eligible
piece is the subject of C09 (`M-PICK`); the driver's oracle `idleEligible` checks the conjunction on the
implementation's observations.
-/
namespace Rain.Props.C10
open Rain.Loop

/-- **freeing_events_repick.** After a peer is closed, after a choke of a downloading peer, after a snub,
and after a failed hash (source closed and banned): while the status is `downloading`, every connected
peer without a download is in `mayStart`. -/
theorem freeing_events_repick :
    (∀ (s : St) (k : Nat), (s.findPeer k).isSome → Repicked (s.closePeer k)) ∧
    (∀ (m : M) (k : Nat) (d : Dl), m.1.findDl k = some d → d.af = false →
        Repicked (handlePeerMessage m k .choke).1) ∧
    (∀ (m : M) (k : Nat) (d : Dl) (p : Peer), m.1.findDl k = some d → m.1.findPeer k = some p →
        p.peerChoking = false → Repicked (handlePeerSnubbed m k).1) ∧
    (∀ (m : M) (w : WriteJob), w.good = false → Repicked (writerRun m w).1) :=
  ⟨closePeer_repicks, choke_repicks, snub_repicks, failed_hash_repicks⟩

/-- **write_done_repicks.** A completed write closes the other (end-game) downloads of the same piece and
re-runs the picker for exactly those peers. -/
theorem write_done_repicks (m : M) (w : WriteJob) (hl : m.1.loaded = true) (hc : m.1.completed = false)
    (hs : m.1.status = .downloading) :
    ∀ d ∈ m.1.dls, d.piece = w.piece → (m.1.findPeer d.k).isSome →
      d.k ∈ (pwdOthers m w).1.mayStart ∧ (pwdOthers m w).1.findDl d.k = none :=
  write_done_repicks_closed m w hl hc hs

/-- `startPieceDownloaders` itself: the picker is run for every idle peer, and nobody is dropped. -/
theorem startDls_repicks (s : St) : Repicked s.startDls ∧ ∀ k ∈ s.mayStart, k ∈ s.startDls.mayStart :=
  ⟨(startDls_spec s).2, (startDls_spec s).1⟩

/-! Non-vacuity: two peers, one download; closing the downloading peer re-picks for the other. -/
example :
    let c : Cfg := { pl := 16384, plens := [16384], blocks := [[(0, 16384)]], flens := [16384], fpads := [false], fnames := ["t"] }
    let s : St := { cfg := c, errC := true, loaded := true, bf := some [false],
                    peers := [{ k := 1, ip := "a", fast := true, ext := true }, { k := 2, ip := "b", fast := true, ext := true }],
                    dls := [{ k := 1, piece := 0 }] }
    (s.closePeer 1).mayStart = [2] ∧ (s.closePeer 1).status = .downloading := by decide

end Rain.Props.C10
