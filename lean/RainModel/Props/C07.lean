import RainModel.Model.Validate
import RainModel.Lemmas.Path
import RainModel.Lemmas.Utf8
import RainModel.Lemmas.Validate
/-!
C07 — path confinement.  Property theorems only; helper lemmas live in `Lemmas/Path.lean` and
`Lemmas/Validate.lean`.
-/
namespace Rain.Props.C07
open Rain.Path Rain.Validate

/-- **clean_no_sep.** The output of `cleanName` never contains a path separator. -/
theorem clean_no_sep (s : Bytes) (max : Nat) : SLASH ∉ cleanNameN s max := by
  unfold cleanNameN replaceSeparator
  simp only [List.mem_map, not_exists, not_and]
  intro b _ h
  split at h
  · simp [SLASH, UNDERSCORE] at h
  · rename_i hb; exact hb h

/-- The statement `clean_dotdot_iff` quantifies over: no cleaning step manufactures an empty name,
a `.` or a `..`. -/
def clean_dotdot_iff_full : Prop :=
  ∀ s : Bytes, (cleanName s = [] → s = []) ∧ (cleanName s = dot → s = dot) ∧
    (cleanName s = dotdot → s = dotdot)

/-- **clean_dotdot_iff.** For *every* byte string `s` (invalid UTF-8, over-long, anything):
`cleanName s = ".." ↔ s = ".."`, and likewise for `"."` and the empty string.  The UTF-8 repair
(`ToValidUTF8` with U+FFFD), the 255-byte cut that keeps the extension, the second repair that
drops a rune broken by the cut, and the separator replacement never manufacture one of the three
special names.  (Proof: the repaired string is a fixed point of the second repair; an all-ASCII
repaired string equals its input; a cut string keeps at least three bytes.) -/
theorem clean_dotdot_iff (s : Bytes) :
    (cleanName s = dotdot ↔ s = dotdot) ∧ (cleanName s = dot ↔ s = dot) ∧ (cleanName s = [] ↔ s = []) := by
  obtain ⟨h1, h2, h3⟩ := cleanName_special s
  exact ⟨⟨h3, fun e => by rw [e]; decide⟩, ⟨h2, fun e => by rw [e]; decide⟩, ⟨h1, fun e => by rw [e]; decide⟩⟩

theorem clean_dotdot_iff_holds : clean_dotdot_iff_full := cleanName_special

theorem clean_special_conv : cleanName [] = [] ∧ cleanName dot = dot ∧ cleanName dotdot = dotdot := by
  decide

/-! ASCII names: `cleanName` is just the separator replacement. -/

theorem toValidAux_ascii (repl : Bytes) (f : Nat) (inv : Bool) (s : Bytes)
    (h : ∀ b ∈ s, b < 0x80) (hf : s.length ≤ f) : toValidAux repl f inv s = s := by
  induction f generalizing s inv with
  | zero =>
    cases s with
    | nil => rfl
    | cons c r => simp at hf
  | succ f ih =>
    cases s with
    | nil => rfl
    | cons c r =>
      have hc : c < 0x80 := h c (by simp)
      simp only [toValidAux, hc, if_true]
      rw [ih false r (fun b hb => h b (by simp [hb])) (by simpa using hf)]

/-- For names that are ASCII and at most 255 bytes long `cleanName` only replaces separators. -/
theorem clean_special_ascii (s : Bytes) (h : ∀ b ∈ s, b < 0x80) (hl : s.length ≤ 255) :
    cleanName s = replaceSeparator s ∧
    (cleanName s = [] → s = []) ∧ (cleanName s = dot → s = dot) ∧ (cleanName s = dotdot → s = dotdot) := by
  have h1 : cleanName s = replaceSeparator s := by
    unfold cleanName cleanNameN toValidUTF8
    simp only
    rw [toValidAux_ascii _ _ _ s h (Nat.le_refl _)]
    have : trimName s 255 = s := by unfold trimName; simp [hl]
    rw [this, toValidAux_ascii _ _ _ s h (Nat.le_refl _)]
  refine ⟨h1, ?_, ?_, ?_⟩ <;> rw [h1] <;> unfold replaceSeparator
  · intro e; simpa using e
  · intro e
    cases s with
    | nil => simp [dot] at e
    | cons b r =>
      cases r with
      | cons _ _ => simp [dot] at e
      | nil =>
        simp only [List.map_cons, List.map_nil, dot, List.cons.injEq, and_true] at e
        split at e
        · simp [UNDERSCORE] at e
        · rw [e]; rfl
  · intro e
    cases s with
    | nil => simp [dotdot] at e
    | cons a r =>
      cases r with
      | nil => simp [dotdot] at e
      | cons b r' =>
        cases r' with
        | cons _ _ => simp [dotdot] at e
        | nil =>
          simp only [List.map_cons, List.map_nil, dotdot, List.cons.injEq, and_true] at e
          obtain ⟨e1, e2⟩ := e
          split at e1
          · simp [UNDERSCORE] at e1
          · split at e2
            · simp [UNDERSCORE] at e2
            · rw [e1, e2]; rfl

/-- What "accepted" gives about the first path element (the cleaned name) and the others. -/
theorem accepted_parts (hc : clean_dotdot_iff_full) (p : Params) (ib : InfoIn) (o : InfoOut)
    (hh : p.hashHex ≠ [] ∧ p.hashHex ≠ dot ∧ p.hashHex ≠ dotdot)
    (h : newInfo p ib = .ok o) :
    GoodComp (cleanName (if effName p.utf8 ib ≠ [] then effName p.utf8 ib else p.hashHex)) ∧
    ∀ f ∈ effFiles p.utf8 ib, ∀ c ∈ f.2.1.map cleanName, SLASH ∉ c ∧ c ≠ dotdot := by
  obtain ⟨_, _, _, hname, hfiles, _⟩ := newInfo_ok_elim p ib o h
  constructor
  · have hn : (if effName p.utf8 ib ≠ [] then effName p.utf8 ib else p.hashHex) ≠ [] ∧
        (if effName p.utf8 ib ≠ [] then effName p.utf8 ib else p.hashHex) ≠ dot ∧
        (if effName p.utf8 ib ≠ [] then effName p.utf8 ib else p.hashHex) ≠ dotdot := by
      split
      · rename_i hne
        refine ⟨hne, ?_, ?_⟩
        · intro e; rw [e] at hname; revert hname; decide
        · intro e; rw [e] at hname; revert hname; decide
      · exact hh
    obtain ⟨c1, c2, c3⟩ := hc (if effName p.utf8 ib ≠ [] then effName p.utf8 ib else p.hashHex)
    exact ⟨fun e => hn.1 (c1 e), fun e => hn.2.1 (c2 e), fun e => hn.2.2 (c3 e), clean_no_sep _ 255⟩
  · intro f hf c hcm
    obtain ⟨c0, hc0, rfl⟩ := List.mem_map.mp hcm
    refine ⟨clean_no_sep _ 255, ?_⟩
    intro e
    have := (hc c0).2.2 e
    rw [this] at hc0
    have hany : (effFiles p.utf8 ib).any (fun f => f.2.1.any isDotDotName) = true := by
      apply List.any_eq_true.mpr
      exact ⟨f, hf, List.any_eq_true.mpr ⟨dotdot, hc0, by decide⟩⟩
    rw [hany] at hfiles
    cases hfiles

/-- **join_confined (as a function of `clean_dotdot_iff_full`).** For every input accepted by
`NewInfo`, every file path is *confined*: relative, every component a real name (not empty, not
`.`, not `..`).  Hence, for a clean absolute data directory `root` (what `filepath.Abs` gives),
the path `filestorage.Open` hands to the OS is exactly `root/path`, component-wise below `root` —
and the same holds with the torrent-id level (`root = Join(DataDir, id)`, `id` a plain name).
`hashHex` is the hex SHA-1 used when the name is empty (40 hex digits; only "not `.`/`..`/empty" is
used). -/
theorem join_confined_partial (hc : clean_dotdot_iff_full) (p : Params) (ib : InfoIn) (o : InfoOut)
    (hh : p.hashHex ≠ [] ∧ p.hashHex ≠ dot ∧ p.hashHex ≠ dotdot)
    (h : newInfo p ib = .ok o) :
    (∀ f ∈ o.files, Confined f.path = true) ∧
    (∀ dataDir id incl, CleanAbs dataDir → GoodComp id →
      ∀ f ∈ o.files,
        storagePath (dataDirOf dataDir id incl) f.path = dataDirOf dataDir id incl ++ SLASH :: f.path ∧
        Under (dataDirOf dataDir id incl) (storagePath (dataDirOf dataDir id incl) f.path) = true) := by
  obtain ⟨hgood, hparts⟩ := accepted_parts hc p ib o hh h
  obtain ⟨_, _, _, _, _, length, padding, fs, _, _, hfs, ho⟩ := newInfo_ok_elim p ib o h
  have hconf : ∀ f ∈ o.files, Confined f.path = true := by
    subst ho
    simp only
    split at hfs
    · cases hfs
      intro f hf
      simp at hf
      subst hf
      simp only
      have := confined_joinSlash [_] (by simp) (by intro c hcm; simp at hcm; rw [hcm]; exact hgood)
      simpa [joinSlash] using this
    · obtain ⟨hfs1, _, _⟩ := buildFiles_spec _ _ _ _ _ _ hfs
      simp only [List.reverse_nil, List.nil_append] at hfs1
      intro f hf
      rw [hfs1] at hf
      obtain ⟨g, hg, rfl⟩ := List.mem_map.mp hf
      exact (fpJoin_parts _ _ hgood (hparts g hg)).2
  refine ⟨hconf, ?_⟩
  intro dataDir id incl hd hid f hf
  exact storagePath_under _ _ (dataDirOf_cleanAbs dataDir id incl hd hid) (hconf f hf)

/-- **join_confined.** `join_confined_partial` with its hypothesis discharged by
`clean_dotdot_iff`: unconditional for every accepted input. -/
theorem join_confined (p : Params) (ib : InfoIn) (o : InfoOut)
    (hh : p.hashHex ≠ [] ∧ p.hashHex ≠ dot ∧ p.hashHex ≠ dotdot)
    (h : newInfo p ib = .ok o) :
    (∀ f ∈ o.files, Confined f.path = true) ∧
    (∀ dataDir id incl, CleanAbs dataDir → GoodComp id →
      ∀ f ∈ o.files,
        storagePath (dataDirOf dataDir id incl) f.path = dataDirOf dataDir id incl ++ SLASH :: f.path ∧
        Under (dataDirOf dataDir id incl) (storagePath (dataDirOf dataDir id incl) f.path) = true) :=
  join_confined_partial clean_dotdot_iff_holds p ib o hh h

/-- **remove_confined.** The directory (or file) `Session.RemoveTorrent` deletes when the
torrent-id level is off, `Join(DataDir, cleanName(Name))`, is the single real component
`cleanName(Name)` directly below the data directory — the same first element every file of the
torrent was created under (`join_confined`). -/
theorem remove_confined (p : Params) (ib : InfoIn) (o : InfoOut)
    (hh : p.hashHex ≠ [] ∧ p.hashHex ≠ dot ∧ p.hashHex ≠ dotdot)
    (h : newInfo p ib = .ok o) (dataDir : Bytes) (hd : CleanAbs dataDir) :
    fpJoin [dataDir, cleanName o.name] = dataDir ++ SLASH :: cleanName o.name ∧
    Under dataDir (fpJoin [dataDir, cleanName o.name]) = true := by
  obtain ⟨hgood, _⟩ := accepted_parts clean_dotdot_iff_holds p ib o hh h
  obtain ⟨_, _, _, _, _, length, padding, fs, _, _, _, ho⟩ := newInfo_ok_elim p ib o h
  have hname : o.name = (if effName p.utf8 ib ≠ [] then effName p.utf8 ib else p.hashHex) := by
    rw [ho]
  rw [hname]
  generalize cleanName (if effName p.utf8 ib ≠ [] then effName p.utf8 ib else p.hashHex) = c at hgood
  have h1 := (fpJoin_under dataDir [c] hd (by simp) (by intro x hx; simp at hx; rw [hx]; exact hgood)).1
  simp only [joinSlash] at h1
  refine ⟨h1, ?_⟩
  rw [h1]
  unfold Under
  have e : dataDir ++ SLASH :: c = (dataDir ++ [SLASH]) ++ c := by simp
  rw [e, isPrefixOfB_append]
  have hdrop : ((dataDir ++ [SLASH]) ++ c).drop (dataDir.length + 1) = c := by
    have : (dataDir ++ [SLASH]).length = dataDir.length + 1 := by simp
    rw [← this, List.drop_left]
  rw [hdrop]
  have := confined_joinSlash [c] (by simp) (by intro x hx; simp at hx; rw [hx]; exact hgood)
  simp only [joinSlash] at this
  rw [this]
  rfl

/-- **paths_unique.** In an accepted description, the non-padding files have pairwise different
paths (no two files of one torrent resolve to the same file on disk). -/
theorem paths_unique (p : Params) (ib : InfoIn) (o : InfoOut) (h : newInfo p ib = .ok o) :
    ((o.files.filter (fun f => !f.padding)).map (·.path)).Pairwise (· ≠ ·) := by
  obtain ⟨_, _, _, _, _, length, padding, fs, _, _, hfs, ho⟩ := newInfo_ok_elim p ib o h
  subst ho
  simp only
  split at hfs
  · cases hfs
    simp
  · obtain ⟨hfs1, hpw, _⟩ := buildFiles_spec _ _ _ _ _ _ hfs
    simp only [List.reverse_nil, List.nil_append] at hfs1
    rw [hfs1]
    exact hpw

/-- **tar_confined.** `readData` extracts an entry only to a path that is component-wise strictly
below the (cleaned) destination directory, for every absolute destination and every entry name:
on cleaned absolute paths the string-prefix test `HasPrefix(name, dir + "/")` is a
component-prefix test. -/
theorem tar_confined (dir name target : Bytes) (habs : ∃ r, dir = SLASH :: r)
    (h : tarTarget dir name = some target) : Under (fpClean dir) target = true :=
  tarTarget_under dir name target habs h

/-- Non-vacuity of `tar_confined`: an entry that is accepted, one that is refused, and one whose
name has the destination as a *string* prefix only (`/x/yy` vs `/x/y`). -/
example : tarTarget [0x2F, 0x78, 0x2F, 0x79] [0x61, 0x2F, 0x2E, 0x2E, 0x2F, 0x62] =
    some [0x2F, 0x78, 0x2F, 0x79, 0x2F, 0x62] := by decide
example : tarTarget [0x2F, 0x78, 0x2F, 0x79] [0x2E, 0x2E, 0x2F, 0x62] = none := by decide
example : tarTarget [0x2F, 0x78, 0x2F, 0x79] [0x2E, 0x2E, 0x2F, 0x79, 0x79, 0x2F, 0x7A] = none := by decide

/-- The absolute-destination hypothesis is needed: for the *relative* destination `..` the prefix
test accepts `../x`, which resolves to `../../x`, outside `..`.  (The destination comes from the
configuration, not from the archive; `filestorage` makes it absolute, `readData` does not.) -/
theorem tar_relative_dotdot_counterexample :
    ∃ t, tarTarget dotdot [0x2E, 0x2E, 0x2F, 0x78] = some t ∧ Under (fpClean dotdot) t = false := by
  exact ⟨[0x2E, 0x2E, 0x2F, 0x2E, 0x2E, 0x2F, 0x78], by decide, by decide⟩

/-- Non-vacuity of `join_confined` / `paths_unique`: an accepted multi-file torrent with nasty
components (`a/b` becomes `a_b`, `.` and the empty element vanish). -/
example : (newInfo ⟨true, true, []⟩
      { pieceLength := 16, piecesLen := 20, name := [0x74], nameUtf8 := [], priv := [], length := 0,
        files := [⟨5, [[0x61, 0x2F, 0x62]], [], []⟩, ⟨5, [[0x2E], [], [0x63]], [], []⟩] }).toOption.map
      (fun o => o.files.map (·.path)) =
    some [[0x74, 0x2F, 0x61, 0x5F, 0x62], [0x74, 0x2F, 0x63]] := by decide

/-- The historical defect (fixed in the rain checkout): the name `..` was not checked and put every
file above the data directory. -/
theorem newInfoPre_dotdot_name_counterexample :
    (newInfoPre ⟨true, true, []⟩
      { pieceLength := 16, piecesLen := 20, name := dotdot, nameUtf8 := [], priv := [], length := 0,
        files := [⟨5, [[0x61]], [], []⟩] }).toOption.map (fun o => o.files.map (fun f => Confined f.path)) =
    some [false] := by decide

end Rain.Props.C07
