import RainModel.Lemmas.PickerPick
/-!
C09 — piece selection safety invariants hold for every event history.
Property theorems only; the model is `Model/Picker.lean`, the invariant and the per-pick
predicates (also the driver's oracle) are in `Model/PickerInv.lean`, helper lemmas in `Lemmas/Picker*.lean`.

`step false` is the protocol step of the code as it is now (after the `fix:` commits 8da1edd and
166d17e); `step true` / `findPiece true` is the ladder before them, kept for the counterexamples.
-/
namespace Rain.Props.C09
open Rain.Picker

/-- `piecepicker.New` establishes the invariant, for any `Done` flags, file-edge flags, end-game
limit, number of web-seed sources and either mode. -/
theorem init_inv (flags : List (Bool × Bool × Bool)) (maxDup ns : Nat) (seq : Bool) :
    PickInv (init flags maxDup ns seq) := by
  have hp : ∀ i, ((init flags maxDup ns seq).pieces i).having = [] ∧ ((init flags maxDup ns seq).pieces i).requested = [] ∧
      ((init flags maxDup ns seq).pieces i).snubbed = [] ∧ ((init flags maxDup ns seq).pieces i).choked = [] ∧
      ((init flags maxDup ns seq).pieces i).webseed = none := by
    intro i; simp only [init]; split <;> simp
  constructor
  · intro i _; simp [hp i]
  · intro i _ p hm; simp [hp i] at hm
  · intro i _; simp [hp i]
  · intro i _; simp [hp i]
  · intro i _ _; exact (hp i).2.1
  · intro i _ p hm; simp [hp i] at hm
  · intro i _ p hm; simp [hp i] at hm
  · intro i _ p hm; simp [hp i] at hm
  · intro i _ k hk; simp [hp i] at hk
  · intro p hp'; simp [init] at hp'
  · intro p hp'; simp [init] at hp'
  · intro p hp'; simp [init] at hp'
  · intro k _ d hd; simp [init] at hd
  · unfold AvailOk countAvail
    rw [List.countP_eq_zero.mpr]
    · rfl
    · intro i _; simp [hp i]
  · unfold MaxWebOk; simp only [init]; split <;> omega

/-- **PickInv is inductive.** Every outcome of every operation the caller protocol allows —
whichever admissible choice the picker makes among equals — is a proper state (no assertion of
`piecepicker`, no index or nil panic) that satisfies `PickInv` again. Any number of peers, pieces
and sources, both modes, every end-game limit. -/
theorem step_preserves (s : State) (op : Op) (h : PickInv s) :
    ∀ r ∈ step false s op, ∃ s' o, r = .ok (s', o) ∧ PickInv s' := by
  cases op with
  | connect => exact step_connect_inv false s h
  | «have» p i => exact step_have_inv false s p i h
  | afast p i => exact step_afast_inv false s p i h
  | unchoke p => exact step_unchoke_inv false s p h
  | choke p => exact step_choke_inv false s p h
  | snub p => exact step_snub_inv false s p h
  | cancel p => exact step_cancel_inv false s p h
  | disc p => exact step_disc_inv false s p h
  | pick p => exact step_pick_inv false s p h
  | pdone p => exact step_pdone_inv false s p h
  | wwrite i => exact step_wwrite_inv false s i h
  | wok i web => exact step_wok_inv false s i web h
  | wfail i => exact step_wfail_inv false s i h
  | pickweb k => exact step_pickweb_inv false s k h
  | wadv k => exact step_wadv_inv false s k h
  | closeweb k => exact step_closeweb_inv false s k h

/-- The same holds for the ladder before the two fixes: they changed which piece is asked for in
sequential mode, the safety invariant was never at stake. -/
theorem step_preserves_legacy (s : State) (op : Op) (h : PickInv s) :
    ∀ r ∈ step true s op, ∃ s' o, r = .ok (s', o) ∧ PickInv s' := by
  cases op with
  | connect => exact step_connect_inv true s h
  | «have» p i => exact step_have_inv true s p i h
  | afast p i => exact step_afast_inv true s p i h
  | unchoke p => exact step_unchoke_inv true s p h
  | choke p => exact step_choke_inv true s p h
  | snub p => exact step_snub_inv true s p h
  | cancel p => exact step_cancel_inv true s p h
  | disc p => exact step_disc_inv true s p h
  | pick p => exact step_pick_inv true s p h
  | pdone p => exact step_pdone_inv true s p h
  | wwrite i => exact step_wwrite_inv true s i h
  | wok i web => exact step_wok_inv true s i web h
  | wfail i => exact step_wfail_inv true s i h
  | pickweb k => exact step_pickweb_inv true s k h
  | wadv k => exact step_wadv_inv true s k h
  | closeweb k => exact step_closeweb_inv true s k h

/-- A finite event history: the operations and, for each, one of its admissible outcomes. -/
inductive Run : State → List Op → State → Prop
  | nil (s : State) : Run s [] s
  | cons {s s1 s' : State} {op : Op} {o : Obs} {ops : List Op} :
      .ok (s1, o) ∈ step false s op → Run s1 ops s' → Run s (op :: ops) s'

/-- **All histories.** After any finite sequence of protocol operations on a fresh picker the
invariant holds. -/
theorem pickInv_all_histories (flags : List (Bool × Bool × Bool)) (maxDup ns : Nat) (seq : Bool)
    (ops : List Op) (s : State) (hrun : Run (init flags maxDup ns seq) ops s) : PickInv s := by
  have key : ∀ (s0 : State) (ops : List Op) (s : State), Run s0 ops s → PickInv s0 → PickInv s := by
    intro s0 ops s hr
    induction hr with
    | nil s => exact id
    | cons hstep _ ih =>
      intro h0
      obtain ⟨s', o', he, hI⟩ := step_preserves _ _ h0 _ hstep
      cases he
      exact ih hI
  exact key _ _ _ hrun (init_inv flags maxDup ns seq)

/-- **No assertion or panic is reachable**: in a reachable state no operation has an error outcome
(`invalid source in piece`, `peer snubbed while choked`, `already downloading from webseed url`,
index out of range, nil downloader). -/
theorem no_panic_reachable (flags : List (Bool × Bool × Bool)) (maxDup ns : Nat) (seq : Bool)
    (ops : List Op) (s : State) (hrun : Run (init flags maxDup ns seq) ops s) (op : Op) (m : String) :
    .error m ∉ step false s op := by
  intro hm
  obtain ⟨s', o, he, _⟩ := step_preserves s op (pickInv_all_histories flags maxDup ns seq ops s hrun) _ hm
  cases he

/-- **Progress.** Every operation has at least one admissible outcome in every state, so the
statements above ("every outcome …") are not vacuous for any operation and the model never blocks. -/
theorem step_has_outcome (s : State) (op : Op) : step false s op ≠ [] := step_ne_nil false s op

/-! ### what `PickInv` says, clause by clause (the property's sentences) -/

theorem requested_sub_having {s : State} (h : PickInv s) {i p : Nat} (hi : i < s.n)
    (hp : p ∈ (s.pieces i).requested) : p ∈ (s.pieces i).having := h.reqSubHaving i hi p hp

theorem stalled_sub_requested_disjoint {s : State} (h : PickInv s) {i : Nat} (hi : i < s.n) :
    (∀ p, p ∈ (s.pieces i).snubbed ∨ p ∈ (s.pieces i).choked → p ∈ (s.pieces i).requested) ∧
    (∀ p, ¬ (p ∈ (s.pieces i).snubbed ∧ p ∈ (s.pieces i).choked)) := by
  have := h.stalled i hi
  refine ⟨?_, ?_⟩
  · intro p hp; rcases hp with hp | hp
    · exact (this.1 p hp).1
    · exact this.2 p hp
  · intro p hp; exact (this.1 p hp.1).2 hp.2

/-- At most one piece download per peer. -/
theorem one_download_per_peer {s : State} (h : PickInv s) {i j p : Nat} (hi : i < s.n) (hj : j < s.n)
    (hpi : p ∈ (s.pieces i).requested) (hpj : p ∈ (s.pieces j).requested) : i = j := by
  have h1 := h.reqDl i hi p hpi
  have h2 := h.reqDl j hj p hpj
  rw [h1] at h2; exact Option.some.inj h2

/-- Simultaneous downloads of one piece stay within the end-game limit. -/
theorem duplicate_limit {s : State} (h : PickInv s) {i : Nat} (hi : i < s.n) :
    (s.pieces i).requested.length ≤ max 1 s.maxDup := h.dupLimit i hi

/-- Ranges of two different downloading web seeds do not overlap. -/
theorem webseed_ranges_disjoint {s : State} (h : PickInv s) {k k' : Nat} {d d' : Dl} (hk : k < s.ns) (hk' : k' < s.ns)
    (hd : s.srcs k = some d) (hd' : s.srcs k' = some d') (hne : k ≠ k') : d.e ≤ d'.b ∨ d'.e ≤ d.b := by
  have h1 := h.srcOk k hk d (by simp [hd])
  have h2 := h.srcOk k' hk' d' (by simp [hd'])
  by_cases hc : d.e ≤ d'.b ∨ d'.e ≤ d.b
  · exact hc
  · exfalso
    have hlt : max d.b d'.b < d.e ∧ max d.b d'.b < d'.e := by omega
    have e1 := h1.2.2.2 (max d.b d'.b) hlt.1 (by omega)
    have e2 := h2.2.2.2 (max d.b d'.b) hlt.2 (by omega)
    rw [e1] at e2; exact hne (Option.some.inj e2)

/-- `RequestedWebseed i = src` exactly for the pieces of `src`'s `[Begin, End)`. -/
theorem webseed_owner_iff_range {s : State} (h : PickInv s) {i k : Nat} (hi : i < s.n) (hk : k < s.ns) :
    (s.pieces i).webseed = some k ↔ ∃ d, s.srcs k = some d ∧ d.b ≤ i ∧ i < d.e := by
  constructor
  · intro hw
    obtain ⟨_, d, hd, hb⟩ := h.webOwner i hi k (by simp [hw])
    exact ⟨d, by simpa using hd, hb⟩
  · rintro ⟨d, hd, hb, he⟩
    exact (h.srcOk k hk d (by simp [hd])).2.2.2 i he hb

/-- The reported count of available pieces is the number of pieces held by a connected peer. -/
theorem available_eq {s : State} (h : PickInv s) :
    s.available = ((List.range s.n).filter fun i => !(s.pieces i).having.isEmpty).length ∧
    ∀ i, i < s.n → ∀ p ∈ (s.pieces i).having, p < s.np ∧ (s.peers p).closed = false := by
  refine ⟨?_, h.havingOpen⟩
  rw [h.avail]; unfold countAvail; exact List.countP_eq_length_filter

/-- **A returned piece is safe**: not `Done`, not `Writing`, held by the peer, the peer is unchoking
or the piece is allowed-fast, and the peer had no download — for every admissible pick. -/
theorem pick_safe (s : State) (h : PickInv s) (p i : Nat) (af : Bool) (s' : State)
    (hr : .ok (s', .pick (some (i, af))) ∈ step false s (.pick p)) : PickSafe s p i :=
  step_pick_safe false s p h s' i af hr

/-- **sequential_lowest.** Sequential mode, the peer is unchoking and idle, no web seed is
downloading, no file-edge piece is left for the peer: whenever some piece is pickable, the pick is
the lowest-indexed pickable piece (no hypothesis about the end-game flag or the limit). -/
theorem sequential_lowest (s : State) (p : Nat) (s' : State) (r : Option (Nat × Bool))
    (hr : .ok (s', .pick r) ∈ step false s (.pick p)) : SeqLowest s p (r.map (·.1)) := by
  simp only [step] at hr
  split at hr
  · simp only [List.mem_map] at hr
    obtain ⟨r0, hr0, he⟩ := hr
    unfold pickFor at hr0
    simp only [List.mem_map] at hr0
    obtain ⟨r1, hr1, rfl⟩ := hr0
    cases r1 with
    | error m => simp [Except.map] at he
    | ok x =>
      obtain ⟨s1, res⟩ := x
      have := findPiece_seqLowest s p _ hr1 s1 res rfl
      cases res with
      | none =>
        simp [Except.map] at he
        rw [← he.2]; exact this
      | some y =>
        simp [Except.map] at he
        rw [← he.2]; exact this
  · simp at hr

/-- `sliceset.SliceSet.Remove` (swap the last element into the hole) and the model's `List.erase`
leave the same elements; only their order differs, which no picker function reads. -/
theorem sliceset_remove_perm (l : List Nat) (x : Nat) : (removeSwap l x).Perm (l.erase x) :=
  removeSwap_perm_erase l x

/-! ### the ladder before the fixes: counterexamples -/

/-- Pick results of a list of outcomes (`none` = a panic outcome). -/
def pickResults (l : List (R (State × Option (Nat × Bool)))) : List (Option (Option (Nat × Bool))) :=
  l.map fun r => match r with
    | .ok (_, x) => some x
    | .error _ => none

/-- DESIGN 10 #17b: ten pieces of one file all held by the unchoking peer 0, both file-edge pieces
done, allowed-fast set {7}. -/
def cexAllowedFast : State :=
  { n := 10
    pieces := fun i => { having := [0], done := i == 0 || i == 9, head := i == 0, tail := i == 9 }
    np := 1
    peers := fun _ => { choking := false, af := [7] }
    ns := 0
    srcs := fun _ => none
    maxDup := 2, maxWeb := 1, available := 10, endgame := false, sequential := true }

/-- **Counterexample (before 8da1edd).** The state satisfies `PickInv` and the hypotheses of
`sequential_lowest`, the lowest pickable piece is 1, and the old ladder returns the allowed-fast
piece 7; the ladder as it is now returns piece 1. -/
theorem legacy_allowedFast_counterexample :
    PickInv cexAllowedFast ∧ SeqHyp cexAllowedFast 0 ∧ lowestPickable cexAllowedFast 0 = some 1 ∧
    pickResults (findPiece true cexAllowedFast 0) = [some (some (7, true))] ∧
    ¬ SeqLowest cexAllowedFast 0 (some 7) ∧
    pickResults (findPiece false cexAllowedFast 0) = [some (some (1, false))] := by
  decide

/-- Six pieces, edges done, end game entered earlier; pieces 1 and 3 are being downloaded by peers
0 and 2, pieces 2 and 4 became free again; peer 1 is idle and unchoking. -/
def cexEndgame : State :=
  { n := 6
    pieces := fun i =>
      { having := [0, 1, 2], done := i == 0 || i == 5, head := i == 0, tail := i == 5
        requested := if i == 1 then [0] else if i == 3 then [2] else [] }
    np := 3
    peers := fun p => { choking := false, dl := if p == 0 then some (1, false) else if p == 2 then some (3, false) else none }
    ns := 0
    srcs := fun _ => none
    maxDup := 2, maxWeb := 1, available := 6, endgame := true, sequential := true }

/-- **Counterexample (before 166d17e).** With the end-game flag set, the old ladder went straight
to `pickEndgame`, whose order is that of the last sort by running downloads: piece 4 is an
admissible answer although piece 2 is the lowest pickable one. The ladder as it is now returns 2. -/
theorem legacy_endgame_counterexample :
    PickInv cexEndgame ∧ SeqHyp cexEndgame 1 ∧ lowestPickable cexEndgame 1 = some 2 ∧
    some (some (4, false)) ∈ pickResults (findPiece true cexEndgame 1) ∧
    ¬ SeqLowest cexEndgame 1 (some 4) ∧
    pickResults (findPiece false cexEndgame 1) = [some (some (2, false))] := by
  decide


/-! ### non-vacuity -/

/-- Follow the first admissible outcome of every operation. -/
def runFirst (s : State) : List Op → Option State
  | [] => some s
  | op :: ops =>
    match step false s op with
    | .ok (s1, _) :: _ => runFirst s1 ops
    | _ => none

theorem runFirst_run : ∀ (ops : List Op) (s s' : State), runFirst s ops = some s' → Run s ops s'
  | [], s, s', h => by simp [runFirst] at h; subst h; exact Run.nil s
  | op :: ops, s, s', h => by
    simp only [runFirst] at h
    split at h
    · rename_i s1 o rest heq
      exact Run.cons (by rw [heq]; exact List.Mem.head _) (runFirst_run ops s1 s' h)
    · cases h

/-- A history that exercises the indexes: two peers, end game on piece 1 (limit 2), one peer choked in
the middle of the download and one snubbed, a web-seed range picked and then truncated by the write. -/
def sampleOps : List Op :=
  [.connect, .connect, .have 0 1, .have 1 1, .have 0 2, .have 1 3, .unchoke 0, .unchoke 1,
   .pick 0, .pick 1, .pickweb 0, .pdone 0, .pick 0, .wok 1 false, .pick 1, .choke 1, .snub 0, .afast 1 2]

/-- Non-vacuity of `pickInv_all_histories`: the sample history is a `Run` from a fresh sequential
picker, and it ends in a state with non-empty `Requested`, `Snubbed`, `Choked`, a finished piece
and a downloading web seed. -/
example : ∃ s, Run (init [(false, true, false), (false, false, false), (false, false, false), (false, false, true)] 2 1 true) sampleOps s ∧
    (s.pieces 2).requested = [0] ∧ (s.pieces 2).snubbed = [0] ∧ (s.pieces 3).choked = [1] ∧
    (s.pieces 1).done = true ∧ (s.srcs 0).isSome = true ∧ s.available = 3 := by
  have h : ∃ s, runFirst (init [(false, true, false), (false, false, false), (false, false, false), (false, false, true)] 2 1 true) sampleOps = some s ∧
      ((s.pieces 2).requested = [0] ∧ (s.pieces 2).snubbed = [0] ∧ (s.pieces 3).choked = [1] ∧
       (s.pieces 1).done = true ∧ (s.srcs 0).isSome = true ∧ s.available = 3) := by
    cases hr : runFirst (init [(false, true, false), (false, false, false), (false, false, false), (false, false, true)] 2 1 true) sampleOps with
    | none => exact absurd hr (by decide)
    | some s => exact ⟨s, rfl, by
        have : (runFirst (init [(false, true, false), (false, false, false), (false, false, false), (false, false, true)] 2 1 true) sampleOps).all
          (fun s => decide ((s.pieces 2).requested = [0] ∧ (s.pieces 2).snubbed = [0] ∧ (s.pieces 3).choked = [1] ∧
            (s.pieces 1).done = true ∧ (s.srcs 0).isSome = true ∧ s.available = 3)) = true := by decide
        rw [hr] at this; simpa using this⟩
  obtain ⟨s, hs, hp⟩ := h
  exact ⟨s, runFirst_run _ _ _ hs, hp⟩

/-- Non-vacuity of `sequential_lowest` and `pick_safe`: in `cexAllowedFast` the hypotheses hold, a
piece is pickable, and the protocol step returns it. -/
example : SeqHyp cexAllowedFast 0 ∧ lowestPickable cexAllowedFast 0 = some 1 ∧
    ((step false cexAllowedFast (.pick 0)).map fun r => r.toOption.map (·.2)) = [some (.pick (some (1, false)))] ∧
    PickSafe cexAllowedFast 0 1 := by decide

end Rain.Props.C09

