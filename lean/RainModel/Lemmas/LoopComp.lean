import RainModel.Lemmas.LoopPeers
/-!
C04: the completion flags are truthful (`completed → all bits`, `completeC` closed iff completed) and a
running torrent has a bitfield.  Preservation by every handler, `step`, `reconcile`.
-/
namespace Rain.Loop

/-- Completion is truthful; a torrent past allocation/verification has a bitfield. -/
structure CompInv (s : St) : Prop where
  cc : s.completeCClosed = s.completed
  all : s.completed = true → s.bf = none ∨ ∃ b, s.bf = some b ∧ allTrue b = true
  run : s.errC = true → s.stopAnn = false → s.allocator = false → s.verifier = false → s.info = true →
        s.bf.isSome = true

theorem CompInv.of_frame {s s' : St} (h : CompInv s)
    (h1 : s'.completeCClosed = s.completeCClosed) (h2 : s'.completed = s.completed) (h3 : s'.bf = s.bf)
    (h4 : s'.errC = s.errC) (h5 : s'.stopAnn = s.stopAnn) (h6 : s'.allocator = s.allocator)
    (h7 : s'.verifier = s.verifier) (h8 : s'.info = s.info) : CompInv s' :=
  ⟨by rw [h1, h2]; exact h.cc, by rw [h2, h3]; exact h.all, by rw [h3, h4, h5, h6, h7, h8]; exact h.run⟩

/-- The first two clauses only depend on `completed`, `completeCClosed`, `bf`; the third is re-established. -/
theorem CompInv.of_frame3 {s s' : St} (h : CompInv s)
    (h1 : s'.completeCClosed = s.completeCClosed) (h2 : s'.completed = s.completed) (h3 : s'.bf = s.bf)
    (hr : s'.errC = true → s'.stopAnn = false → s'.allocator = false → s'.verifier = false → s'.info = true →
        s'.bf.isSome = true) : CompInv s' :=
  ⟨by rw [h1, h2]; exact h.cc, by rw [h2, h3]; exact h.all, hr⟩

macro "comp_frame" h:term : tactic =>
  `(tactic| exact CompInv.of_frame $h (by simp) (by simp) (by simp) (by simp) (by simp) (by simp) (by simp) (by simp))

/-! ### bit lists -/

theorem allTrue_iff (l : List Bool) : allTrue l = true ↔ ∀ x ∈ l, x = true := by
  simp [allTrue]

theorem allTrue_setAt (l : List Bool) (i : Nat) (h : allTrue l = true) : allTrue (setAt l i true) = true := by
  rw [allTrue_iff] at *
  intro x hx
  unfold setAt at hx
  rcases List.mem_or_eq_of_mem_set hx with hx | rfl
  · exact h x hx
  · rfl

theorem allTrue_foldl_setAt (idx : List Nat) (l : List Bool) (h : allTrue l = true) :
    allTrue (idx.foldl (fun d i => setAt d i true) l) = true := by
  induction idx generalizing l with
  | nil => exact h
  | cons a idx ih => exact ih _ (allTrue_setAt l a h)

/-! ### stop -/

/-- After `stop` the torrent is stopped or waits for its stop announcer. -/
theorem stop_idle (s : St) (e : Bool) : (s.stop e).errC = false ∨ (s.stop e).stopAnn = true := by
  rw [stop_eq]
  split
  · next h =>
    rcases h with h | h
    · exact Or.inr ((status_stopping_iff s).1 h).2
    · exact Or.inl ((status_stopped_iff s).1 h)
  · right; simp [stopRun, stopFin]

/-- `stop` re-establishes the `run` clause by itself. -/
theorem stop_comp' (s : St) (e : Bool) (hcc : s.completeCClosed = s.completed)
    (hall : s.completed = true → s.bf = none ∨ ∃ b, s.bf = some b ∧ allTrue b = true) : CompInv (s.stop e) := by
  refine ⟨by simpa using hcc, ?_, ?_⟩
  · intro hc
    rcases stop_bf s e with h | h
    · rw [h]; exact hall (by simpa using hc)
    · exact Or.inl h
  · intro h1 h2
    rcases stop_idle s e with h' | h' <;> simp_all

theorem stop_comp (s : St) (e : Bool) (h : CompInv s) : CompInv (s.stop e) := stop_comp' s e h.cc h.all

/-! ### frame handlers -/

theorem closePeer_comp (s : St) (k : Nat) (h : CompInv s) : CompInv (s.closePeer k) := by comp_frame h
theorem handlePieceMessage_comp (m : M) (k i b l : Nat) (g : Bool) (h : CompInv m.1) :
    CompInv (handlePieceMessage m k i b l g).1 := by comp_frame h
theorem handlePeerMessage_comp (m : M) (k : Nat) (msg : Msg) (h : CompInv m.1) :
    CompInv (handlePeerMessage m k msg).1 := by comp_frame h
theorem processQueued_comp (m : M) (h : CompInv m.1) : CompInv (processQueued m).1 := by comp_frame h
theorem handleExtHandshake_comp (m : M) (k : Nat) (hm : Bool) (sz : Nat) (hp : Bool) (h : CompInv m.1) :
    CompInv (handleExtHandshake m k hm sz hp).1 := by comp_frame h
theorem handlePex_comp (m : M) (a d : Bool) (h : CompInv m.1) : CompInv (handlePex m a d).1 := by comp_frame h
theorem handleDhtPeers_comp (m : M) (ne : Bool) (h : CompInv m.1) : CompInv (handleDhtPeers m ne).1 := by comp_frame h
theorem handlePeerSnubbed_comp (m : M) (k : Nat) (h : CompInv m.1) : CompInv (handlePeerSnubbed m k).1 := by comp_frame h
theorem handleMetadataReject_comp (m : M) (k : Nat) (h : CompInv m.1) : CompInv (handleMetadataReject m k).1 := by
  comp_frame h
theorem acceptPeer_comp (m : M) (k : Nat) (ip : String) (fast ext bad dup : Bool) (h : CompInv m.1) :
    CompInv (acceptPeer m k ip fast ext bad dup).1.1 := by comp_frame h
theorem reconcile_comp (s : St) (impl : List ImplDl) (h : CompInv s) : CompInv (reconcile s impl).1 := by comp_frame h
theorem reconcileIdl_comp (s : St) (impl : List Nat) (h : CompInv s) : CompInv (reconcileIdl s impl).1 := by
  comp_frame h
theorem writeBitfield_comp (s : St) (h : CompInv s) : CompInv s.writeBitfield := by comp_frame h
theorem hadReady_comp (m : M) (h : CompInv m.1) : CompInv (hadReady m).1 := by comp_frame h
theorem pwdBan_comp (m : M) (w : WriteJob) (h : CompInv m.1) : CompInv (pwdBan m w).1 := by comp_frame h
theorem pwdOthers_comp (m : M) (w : WriteJob) (h : CompInv m.1) : CompInv (pwdOthers m w).1 := by comp_frame h
theorem pwdHaves_comp (m : M) (w : WriteJob) (h : CompInv m.1) : CompInv (pwdHaves m w).1 := by comp_frame h
theorem hvdHaves_comp (m : M) (h : CompInv m.1) : CompInv (hvdHaves m).1 := by comp_frame h

/-! ### commands -/

/-- `startCore` re-establishes the `run` clause by itself (it installs the allocator, the verifier, or
finds the bitfield). -/
theorem startCore_comp' (m : M) (hcc : m.1.completeCClosed = m.1.completed)
    (hall : m.1.completed = true → m.1.bf = none ∨ ∃ b, m.1.bf = some b ∧ allTrue b = true) :
    CompInv (startCore m).1 := by
  unfold startCore
  dsimp only
  repeat' split
  all_goals (constructor <;> simp_all)

theorem startCore_comp (m : M) (h : CompInv m.1) : CompInv (startCore m).1 := startCore_comp' m h.cc h.all

theorem handleStopped_comp (m : M) (h : CompInv m.1) : CompInv (handleStopped m).1 := by
  unfold handleStopped
  dsimp only
  split
  · apply startCore_comp
    obtain ⟨hcc, hall, hrun⟩ := h
    constructor <;> simp_all
  · obtain ⟨hcc, hall, hrun⟩ := h
    constructor <;> simp_all

theorem startPre_comp (m : M) (h : CompInv m.1) : CompInv (startPre m).1 := by
  unfold startPre
  split
  · exact handleStopped_comp _ (h.of_frame rfl rfl rfl rfl rfl rfl rfl rfl)
  · exact h

theorem startGo_comp (m : M) (h : CompInv m.1) : CompInv (startGo m).1 := by
  unfold startGo
  split
  · exact h
  · exact startCore_comp _ h

theorem start_comp (m : M) (h : CompInv m.1) : CompInv (start m).1 := by
  rw [start_eq]
  exact startGo_comp _ (startPre_comp m h)

theorem handleVerifyCommand_comp (m : M) (h : CompInv m.1) : CompInv (handleVerifyCommand m).1 := by
  unfold handleVerifyCommand
  dsimp only
  split
  · apply startCore_comp'
    · simpa using h.cc
    · intro _; left; simp
  · simp only [onSt_fst]
    apply stop_comp
    exact h.of_frame rfl rfl rfl rfl rfl rfl rfl rfl

theorem hmdStart_comp' (m : M) (hcc : m.1.completeCClosed = m.1.completed)
    (hall : m.1.completed = true → m.1.bf = none ∨ ∃ b, m.1.bf = some b ∧ allTrue b = true) :
    CompInv (hmdStart m).1 := by
  unfold hmdStart
  split
  · simp only [onSt_fst]; exact stop_comp' _ _ hcc hall
  · simp only [onSt_fst]
    split
    · next ha => exact ⟨by simpa using hcc, by simpa using hall, by simp [ha]⟩
    · exact ⟨hcc, hall, by simp⟩

theorem hmdAdopt_comp (m : M) (h : CompInv m.1) : CompInv (hmdAdopt m).1 := by
  unfold hmdAdopt
  dsimp only
  repeat' split
  all_goals first
    | (simp only [onSt_fst]; exact stop_comp _ _ (h.of_frame rfl rfl rfl rfl rfl rfl rfl rfl))
    | exact hmdStart_comp' _ h.cc h.all

theorem handleMetadataData_comp (m : M) (k i len : Nat) (g : Bool) (h : CompInv m.1) :
    CompInv (handleMetadataData m k i len g).1 := by
  rw [handleMetadataData_eq]
  split
  · exact h
  unfold hmdBlock
  dsimp only
  repeat' split
  all_goals first
    | (simp only [onSt_fst, closePeerM_fst]; exact (closePeer_comp _ _ h).of_frame rfl rfl rfl rfl rfl rfl rfl rfl)
    | (simp only [onSt_fst]; exact (h.of_frame rfl rfl rfl rfl rfl rfl rfl rfl))
    | (simp only [onSt_fst, closePeerM_fst]
       refine (closePeer_comp _ k ?_).of_frame rfl rfl rfl rfl rfl rfl rfl rfl
       exact h.of_frame rfl rfl rfl rfl rfl rfl rfl rfl)
    | exact hmdAdopt_comp _ (h.of_frame rfl rfl rfl rfl rfl rfl rfl rfl)

/-! ### completion -/

theorem checkCompletion_comp (s : St) (h : CompInv s) : CompInv s.checkCompletion.1 := by
  obtain ⟨hcc, hall, hrun⟩ := h
  unfold St.checkCompletion
  split
  · constructor <;> simp_all
  · split
    · constructor <;> simp_all
    · next b hb =>
      split
      · constructor <;> simp_all
      · next hat =>
        dsimp only
        constructor <;> simp_all

theorem resetCompletion_comp (s : St) (h : CompInv s) : CompInv s.resetCompletion := by
  obtain ⟨hcc, hall, hrun⟩ := h
  unfold St.resetCompletion
  split
  · constructor <;> simp_all
  · constructor <;> simp_all

theorem markPaddingPieces_comp (s : St) (h : CompInv s) : CompInv s.markPaddingPieces := by
  obtain ⟨hcc, hall, hrun⟩ := h
  unfold St.markPaddingPieces
  split
  · constructor <;> simp_all
  · next b hb =>
    refine ⟨hcc, fun hc => Or.inr ⟨_, rfl, ?_⟩, fun _ _ _ _ _ => rfl⟩
    rcases hall hc with h | ⟨b', hb', hat⟩
    · simp [hb] at h
    · rw [hb] at hb'
      cases hb'
      exact allTrue_foldl_setAt _ _ hat

theorem pwdSet_comp (m : M) (w : WriteJob) (b : List Bool) (hb : m.1.bf = some b) (h : CompInv m.1) :
    CompInv (pwdSet m w b).1 := by
  obtain ⟨hcc, hall, hrun⟩ := h
  have hbf : (pwdSet m w b).1.bf = some (setAt b w.piece true) := by
    unfold pwdSet; dsimp only; split <;> simp
  refine ⟨by simpa using hcc, fun hc => Or.inr ⟨_, hbf, ?_⟩, fun _ _ _ _ _ => by simp [hbf]⟩
  rcases hall (by simpa using hc) with h | ⟨b', hb', hat⟩
  · simp [hb] at h
  · rw [hb] at hb'
    cases hb'
    exact allTrue_setAt _ _ hat

theorem pwdFinish_comp (m : M) (h : CompInv m.1) : CompInv (pwdFinish m).1 := by
  unfold pwdFinish
  dsimp only
  have h1 := checkCompletion_comp m.1 h
  repeat' split
  all_goals first
    | exact h1
    | (simp only [onSt_fst]; exact writeBitfield_comp _ h1)
    | (simp only [onSt_fst]; exact stop_comp _ _ (writeBitfield_comp _ h1))

theorem handlePieceWriteDone_comp (m : M) (w : WriteJob) (e : Bool) (h : CompInv m.1) :
    CompInv (handlePieceWriteDone m w e).1 := by
  rw [handlePieceWriteDone_eq]
  have h0 : CompInv (pwdReset m w).1 := by comp_frame h
  dsimp only
  split
  · exact pwdBan_comp _ _ h0
  split
  · exact h0
  · split
    · simp only [onSt_fst]; exact stop_comp _ _ h0
    · have h1 : CompInv (pwdDone (pwdReset m w) w).1 := by comp_frame h0
      split
      · simp only [onSt_fst]; comp_frame h1
      · next b hb =>
        unfold pwdOk
        exact pwdFinish_comp _ (pwdHaves_comp _ _ (pwdOthers_comp _ _ (pwdSet_comp _ _ _ hb h1)))

theorem writerRun_comp (m : M) (w : WriteJob) (h : CompInv m.1) : CompInv (writerRun m w).1 := by
  unfold writerRun
  dsimp only
  repeat' split
  all_goals first
    | exact handlePieceWriteDone_comp _ _ _ h
    | exact handlePieceWriteDone_comp _ _ _ (h.of_frame rfl rfl rfl rfl rfl rfl rfl rfl)
    | exact h.of_frame rfl rfl rfl rfl rfl rfl rfl rfl

/-! ### allocation, verification -/

theorem hadCheck_comp (m : M) (h : CompInv m.1) : CompInv (hadCheck m).1 := by
  unfold hadCheck
  dsimp only
  have h1 := checkCompletion_comp m.1 h
  split
  · simp only [onSt_fst]; exact stop_comp _ _ h1
  · exact hadReady_comp (m.1.checkCompletion.1, m.2) h1

/-- The state has a bitfield and truthful completion flags (what the allocation result handlers need;
the `run` clause is re-established from the bitfield). -/
theorem CompInv.of_bf {s : St} (hcc : s.completeCClosed = s.completed)
    (hall : s.completed = true → s.bf = none ∨ ∃ b, s.bf = some b ∧ allTrue b = true)
    (hbf : s.bf.isSome = true) : CompInv s := ⟨hcc, hall, fun _ _ _ _ _ => hbf⟩

/-- fresh: the new bitfield replaces everything; only the `cc` clause of the source is needed -/
theorem hadFreshInstall_comp (m : M) (hcc : m.1.completeCClosed = m.1.completed) :
    CompInv (hadFreshInstall m).1 := by
  unfold hadFreshInstall
  simp only [onSt_fst]
  apply markPaddingPieces_comp
  unfold St.resetCompletion
  split
  · exact CompInv.of_bf rfl (fun h => by cases h) rfl
  · next hc => exact CompInv.of_bf hcc (fun h => absurd h hc) rfl

theorem hadFresh_comp' (m : M) (hcc : m.1.completeCClosed = m.1.completed) : CompInv (hadFresh m).1 := by
  unfold hadFresh
  dsimp only
  have h0 := hadFreshInstall_comp m hcc
  split
  · simp only [onSt_fst]
    exact stop_comp _ _ (h0.of_frame rfl rfl rfl rfl rfl rfl rfl rfl)
  · exact hadCheck_comp _ h0

theorem hadFresh_comp (m : M) (h : CompInv m.1) : CompInv (hadFresh m).1 := hadFresh_comp' m h.cc

theorem hadTrust_comp (m : M) (b : List Bool) (hb : m.1.bf = some b) (h : CompInv m.1) :
    CompInv (hadTrust m b).1 := by
  unfold hadTrust
  apply hadCheck_comp
  simp only [onSt_fst]
  apply markPaddingPieces_comp
  exact CompInv.of_bf h.cc h.all (by simp [hb])

theorem handleAllocationDone_comp (m : M) (ex mi : Bool) (h : CompInv m.1) :
    CompInv (handleAllocationDone m ex mi).1 := by
  rw [handleAllocationDone_eq]
  -- the intermediate state may lack the `run` clause: carry the first two
  have hcc : (hadForget (hadInstall m) mi).1.completeCClosed = (hadForget (hadInstall m) mi).1.completed := by
    simpa using h.cc
  have hall : (hadForget (hadInstall m) mi).1.completed = true →
      (hadForget (hadInstall m) mi).1.bf = none ∨ ∃ b, (hadForget (hadInstall m) mi).1.bf = some b ∧ allTrue b = true := by
    intro hc
    have := h.all (by simpa using hc)
    unfold hadForget
    simp only [onSt_fst]
    split
    · exact Or.inl rfl
    · simpa using this
  dsimp only
  split
  · next b hb =>
    have h0 : CompInv (hadForget (hadInstall m) mi).1 := CompInv.of_bf hcc hall (by rw [hb]; rfl)
    repeat' split
    · exact hadTrust_comp _ _ hb h0
    · exact hadFresh_comp _ h0
    · simp only [onSt_fst]
      exact ⟨hcc, hall, fun _ _ _ hv => by simp at hv⟩
  · next hb =>
    split
    · -- fresh: the new bitfield replaces everything
      exact hadFresh_comp' _ hcc
    · simp only [onSt_fst]
      exact ⟨hcc, hall, fun _ _ _ hv => by simp at hv⟩

theorem allocatorRun_comp (m : M) (h : CompInv m.1) : CompInv (allocatorRun m).1 := by
  rw [allocatorRun_eq]
  split
  · unfold allocFail
    simp only [onSt_fst]
    refine stop_comp' _ _ (by simpa using h.cc) ?_
    intro hc
    unfold hadForget
    simp only [onSt_fst]
    split
    · exact Or.inl rfl
    · have := h.all (by simpa using hc)
      simpa using this
  · exact handleAllocationDone_comp _ _ _ (h.of_frame (by simp) (by simp) (by simp) (by simp) (by simp) (by simp) (by simp) (by simp))

theorem hvdPre_bf (m : M) : (hvdPre m).1.bf = some m.1.diskOK := by
  simp [hvdPre]

theorem hvdInstall_comp (m : M) (h : CompInv m.1) : CompInv (hvdInstall m).1 := by
  rw [hvdInstall_eq]
  simp only [onSt_fst]
  have hbf := hvdPre_bf m
  have hcc : (hvdPre m).1.completeCClosed = (hvdPre m).1.completed := by simpa using h.cc
  split
  · unfold St.resetCompletion
    split
    · exact CompInv.of_bf rfl (fun h => by cases h) (by simp [hbf])
    · next hc => exact CompInv.of_bf hcc (fun h => absurd h hc) (by simp [hbf])
  · next hall =>
    refine CompInv.of_bf hcc (fun _ => Or.inr ⟨_, hbf, ?_⟩) (by simp [hbf])
    simpa using hall

theorem handleVerificationDone_comp (m : M) (h : CompInv m.1) : CompInv (handleVerificationDone m).1 := by
  rw [handleVerificationDone_eq]
  have h0 := hvdInstall_comp m h
  dsimp only
  split
  · simp only [onSt_fst]
    exact stop_comp _ _ (h0.of_frame rfl rfl rfl rfl rfl rfl rfl rfl)
  · exact hadCheck_comp _ (hvdHaves_comp _ h0)

/-! ### workers, handle, step -/

theorem runWorkers_comp (fuel : Nat) (m : M) (h : CompInv m.1) : CompInv (runWorkers fuel m).1 := by
  induction fuel generalizing m with
  | zero => exact h
  | succ n ih =>
    unfold runWorkers
    dsimp only
    repeat' split
    all_goals first
      | exact h
      | (apply ih
         first
           | exact handleStopped_comp m h
           | exact allocatorRun_comp m h
           | exact handleVerificationDone_comp m h
           | exact handlePieceWriteDone_comp m _ _ h
           | exact writerRun_comp m _ h)

theorem mutate_comp (s : St) (f : Option Nat) (how : Mut) (h : CompInv s) : CompInv (mutate s f how) := by
  comp_frame h

/-- The stop command (fix C04-F6): the pending verification request is withdrawn, then `stop`. -/
theorem stopCmd_comp (s : St) (h : CompInv s) : CompInv (({ s with doVerify := false }).stop false) :=
  stop_comp _ false (h.of_frame rfl rfl rfl rfl rfl rfl rfl rfl)

theorem handle_comp (s : St) (p : Parked) (kn : Nat → Bool) (op : Op) (h : CompInv s) :
    CompInv (handle s p kn op).1.1 := by
  unfold handle
  repeat' split
  all_goals first
    | exact h
    | exact start_comp (s, []) h
    | exact handlePieceMessage_comp (s, []) _ _ _ _ _ h
    | exact handlePeerMessage_comp (s, []) _ _ h
    | exact handleExtHandshake_comp (s, []) _ _ _ _ h
    | exact handleMetadataData_comp (s, []) _ _ _ _ h
    | exact handleMetadataReject_comp (s, []) _ h
    | exact handlePex_comp (s, []) _ _ h
    | exact handleDhtPeers_comp (s, []) _ h
    | exact closePeer_comp s _ h
    | exact handlePeerSnubbed_comp (s, []) _ h
    | exact mutate_comp s _ _ h
    | exact h.of_frame rfl rfl rfl rfl rfl rfl rfl rfl
    | (next heq => have hm := congrArg Prod.fst heq; simp only at hm; rw [← hm]; exact acceptPeer_comp (s, []) _ _ _ _ _ _ h)
    | (simp only [onSt_fst]; exact (stopCmd_comp s h).of_frame rfl rfl rfl rfl rfl rfl rfl rfl)
    | (simp only [onSt_fst]; exact stopCmd_comp s h)
    | exact handleVerifyCommand_comp ({ s with persisted := none }, []) (h.of_frame rfl rfl rfl rfl rfl rfl rfl rfl)
    | (simp only [onSt_fst]
       exact (handleVerifyCommand_comp ({ s with persisted := none }, [])
         (h.of_frame rfl rfl rfl rfl rfl rfl rfl rfl)).of_frame rfl rfl rfl rfl rfl rfl rfl rfl)

theorem deliverParked_comp (m : M) (p : Parked) (h : CompInv m.1) : CompInv (deliverParked m p).1.1 := by
  unfold deliverParked
  repeat' split
  all_goals first
    | exact h
    | exact runWorkers_comp _ _ (handlePieceMessage_comp _ _ _ _ _ _ h)

/-- **The completion flags stay truthful through every event.** -/
theorem step_comp (s : St) (p : Parked) (kn : Nat → Bool) (op : Op) (h : CompInv s) :
    CompInv (step s p kn op).1.st := by
  unfold step
  have h0 : CompInv { s with sto := [], mayStart := [], closedDl := [], mayStartI := false } :=
    h.of_frame rfl rfl rfl rfl rfl rfl rfl rfl
  have h1 := runWorkers_comp 12 _ (handle_comp _ p kn op h0)
  dsimp only
  split
  · exact deliverParked_comp _ _ h1
  · exact h1

theorem dstep_comp (sp : St × Parked) (e : Ev) (h : CompInv sp.1) : CompInv (dstep sp e).1 := by
  unfold dstep
  exact reconcileIdl_comp _ _ (reconcile_comp _ _ (step_comp sp.1 sp.2 e.known e.op h))

theorem drun_comp (evs : List Ev) (sp : St × Parked) (h : CompInv sp.1) : CompInv (drun sp evs).1 := by
  induction evs generalizing sp with
  | nil => exact h
  | cons e evs ih => exact ih _ (dstep_comp sp e h)

/-- Seeding means every piece is held (`info`: the metadata is known — the status test itself does not
look at it). -/
theorem CompInv.seeding {s : St} (h : CompInv s) (hs : s.status = .seeding) (hi : s.info = true) :
    ∃ b, s.bf = some b ∧ allTrue b = true := by
  unfold St.status at hs
  repeat' split at hs
  all_goals try (cases hs; done)
  rename_i h1 h2 h3 h4 h5
  have hbf : s.bf.isSome = true :=
    h.run (by simpa using h1) (by simpa using h2) (by simpa using h3) (by simpa using h4) hi
  rcases h.all h5 with hn | hb
  · simp [hn] at hbf
  · exact hb

end Rain.Loop
