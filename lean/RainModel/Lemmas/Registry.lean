import RainModel.Model.Registry
/-!
Helper lemmas for C14: the inductive invariant `Inv` of the registry machine and its preservation
by every step (including every failing step of an add and arbitrary interleavings of add steps).
-/
namespace Rain.Registry
open List

/-! ### Small list facts -/

theorem filter_ne_of_notMem {α β : Type} [DecidableEq β] (f : α → β) (l : List α) (b : β)
    (h : b ∉ l.map f) : l.filter (fun x => f x != b) = l := by
  apply List.filter_eq_self.2
  intro a ha
  have : f a ≠ b := fun e => h (e ▸ List.mem_map_of_mem (f := f) ha)
  simpa using this

/-- A key that occurs once: the list is the element followed by everything with another key. -/
theorem perm_cons_filter_ne {α β : Type} [DecidableEq β] (f : α → β) :
    ∀ (l : List α) (t : α), (l.map f).Nodup → t ∈ l → l.Perm (t :: l.filter (fun x => f x != f t))
  | [], _, _, h => by cases h
  | a :: l, t, hn, h => by
    rw [List.map_cons, List.nodup_cons] at hn
    by_cases hat : a = t
    · subst hat
      have : (a :: l).filter (fun x => f x != f a) = l := by
        rw [List.filter_cons]
        simp only [bne_self_eq_false, Bool.false_eq_true, if_false]
        exact filter_ne_of_notMem f l (f a) hn.1
      rw [this]
    · have htl : t ∈ l := by
        cases h with
        | head => exact absurd rfl hat
        | tail _ h => exact h
      have hne : f a ≠ f t := fun e => hn.1 (e ▸ List.mem_map_of_mem (f := f) htl)
      have : (a :: l).filter (fun x => f x != f t) = a :: l.filter (fun x => f x != f t) := by
        rw [List.filter_cons]; simp [hne]
      rw [this]
      exact ((perm_cons_filter_ne f l t hn.2 htl).cons a).trans (List.Perm.swap t a _)

theorem map_filter_key {α β : Type} [DecidableEq β] (f : α → β) (l : List α) (b : β) :
    (l.filter (fun x => f x != b)).map f = (l.map f).filter (· != b) := by
  induction l with
  | nil => rfl
  | cons a l ih =>
    simp only [List.filter_cons, List.map_cons]
    by_cases h : f a = b <;> simp [h, ih]

/-! ### Registry / database access -/

theorem regPut_of_notMem (reg : List Torrent) (t : Torrent) (h : t.id ∉ reg.map (·.id)) :
    regPut reg t = t :: reg := by
  unfold regPut
  rw [filter_ne_of_notMem (·.id) reg t.id h]

theorem dbPut_of_notMem (db : List (String × Fields)) (id : String) (r : Fields) (h : id ∉ db.map (·.1)) :
    dbPut db id r = (id, r) :: db := by
  unfold dbPut
  rw [filter_ne_of_notMem (·.1) db id h]

theorem regGet_some {reg : List Torrent} {id : String} {t : Torrent} (h : regGet reg id = some t) :
    t ∈ reg ∧ t.id = id := by
  unfold regGet at h
  exact ⟨List.mem_of_find?_eq_some h, by simpa using List.find?_some h⟩

theorem regGet_none {reg : List Torrent} {id : String} (h : regGet reg id = none) : id ∉ reg.map (·.id) := by
  unfold regGet at h
  rw [List.find?_eq_none] at h
  intro hm
  obtain ⟨t, ht, rfl⟩ := List.mem_map.1 hm
  exact h t ht (by simp)

theorem regGet_of_mem : ∀ {reg : List Torrent} {t : Torrent}, (reg.map (·.id)).Nodup → t ∈ reg →
    regGet reg t.id = some t
  | a :: l, t, hn, h => by
    rw [List.map_cons, List.nodup_cons] at hn
    unfold regGet
    rw [List.find?_cons]
    by_cases hat : a = t
    · subst hat; simp
    · have htl : t ∈ l := by
        cases h with
        | head => exact absurd rfl hat
        | tail _ h => exact h
      have hne : a.id ≠ t.id := fun e => hn.1 (e ▸ List.mem_map_of_mem (f := (·.id)) htl)
      have hb : (a.id == t.id) = false := by simpa using hne
      have := regGet_of_mem hn.2 htl
      unfold regGet at this
      simp only [hb]
      exact this

theorem dbGet_of_mem : ∀ {db : List (String × Fields)} {k : String} {r : Fields}, (db.map (·.1)).Nodup →
    (k, r) ∈ db → dbGet db k = some r
  | a :: l, k, r, hn, h => by
    rw [List.map_cons, List.nodup_cons] at hn
    unfold dbGet
    rw [List.find?_cons]
    by_cases hat : a = (k, r)
    · subst hat; simp
    · have htl : (k, r) ∈ l := by
        cases h with
        | head => exact absurd rfl hat
        | tail _ h => exact h
      have hne : a.1 ≠ k := fun e => hn.1 (e ▸ List.mem_map_of_mem (f := (·.1)) htl)
      have hb : (a.1 == k) = false := by simpa using hne
      have := dbGet_of_mem hn.2 htl
      unfold dbGet at this
      simp only [hb]
      exact this

theorem dbGet_some_mem {db : List (String × Fields)} {k : String} {r : Fields} (h : dbGet db k = some r) :
    (k, r) ∈ db := by
  unfold dbGet at h
  cases hf : db.find? (fun e => e.1 == k) with
  | none => simp [hf] at h
  | some e =>
    simp [hf] at h
    have hk : e.1 = k := by simpa using List.find?_some hf
    have := List.mem_of_find?_eq_some hf
    cases e; simp_all

theorem dbModify_keys (db : List (String × Fields)) (id : String) (g : Fields → Fields) :
    (dbModify db id g).map (·.1) = db.map (·.1) := by
  unfold dbModify
  rw [List.map_map]
  apply List.map_congr_left
  intro e _
  by_cases h : e.1 = id <;> simp [h]

theorem mem_dbModify {db : List (String × Fields)} {id : String} {g : Fields → Fields} {k : String} {r : Fields}
    (h : (k, r) ∈ db) : (k, if k = id then g r else r) ∈ dbModify db id g := by
  unfold dbModify
  refine List.mem_map.2 ⟨(k, r), h, ?_⟩
  by_cases hk : k = id <;> simp [hk]

theorem mem_regModify {reg : List Torrent} {id : String} {g : Fields → Fields} {t : Torrent}
    (h : t ∈ regModify reg id g) : ∃ t0 ∈ reg, t = if t0.id = id then { t0 with f := g t0.f } else t0 := by
  unfold regModify at h
  obtain ⟨t0, h0, rfl⟩ := List.mem_map.1 h
  exact ⟨t0, h0, rfl⟩

theorem regModify_map {β : Type} (reg : List Torrent) (id : String) (g : Fields → Fields) (pr : Torrent → β)
    (h : ∀ t : Torrent, pr { t with f := g t.f } = pr t) : (regModify reg id g).map pr = reg.map pr := by
  unfold regModify
  rw [List.map_map]
  apply List.map_congr_left
  intro t _
  by_cases ht : t.id = id
  · simp only [Function.comp_apply, ht, if_true]; exact ht ▸ h t
  · simp [ht]

/-! ### The invariant -/

/-- Pendings whose record is already in the database. -/
def written (p : List Pending) : List Pending := p.filter (fun q => q.stage == .written)

/-- The inductive invariant of the registry machine. -/
structure Inv (s : State) : Prop where
  /-- every port of the range is free, owned by one registered torrent, or held by one add in flight -/
  ports : (s.free ++ s.reg.map (·.f.port) ++ s.pending.map (·.port)).Perm s.range
  /-- ids of registered torrents and of adds in flight are pairwise different -/
  ids : (s.regIds ++ s.pendIds).Nodup
  /-- the database holds exactly the registered torrents and the adds that have written, with their ports -/
  dbsig : (s.db.map fun e => (e.1, e.2.port)).Perm
            (s.reg.map (fun t => (t.id, t.f.port)) ++ (written s.pending).map (fun q => (q.id, q.port)))
  /-- the info-hash index lists exactly the registered torrents -/
  idx : s.idx.Perm (s.reg.map fun t => (t.f.infoHash, t.id))
  /-- every registered torrent has a record that describes it -/
  synced : ∀ t ∈ s.reg, ∃ r, (t.id, r) ∈ s.db ∧ describes r t.f = true
  /-- the record of an add that has written is the one it will be inserted with -/
  pendrec : ∀ q ∈ s.pending, q.stage = .written → (q.id, freshFields q.m q.o q.port) ∈ s.db

/-- The part of the invariant about records that did not load (histories that are `tame`). -/
structure DInv (s : State) : Prop where
  deadNodup : s.deadIds.Nodup
  invNodup : s.invalid.Nodup
  /-- a record that did not load is listed as invalid -/
  deadInv : ∀ id ∈ s.deadIds, id ∈ s.invalid
  /-- an invalid id still has its dead record, or an add in flight has just written a new record under it
  (and will take it off the list when it inserts the torrent) -/
  invSrc : ∀ id ∈ s.invalid, id ∈ s.deadIds ∨ ∃ q ∈ s.pending, q.id = id ∧ q.stage = .written
  /-- no registered torrent has an invalid id -/
  fresh : ∀ id ∈ s.invalid, id ∉ s.regIds
  /-- an add that has written has replaced the dead record of its id -/
  wdead : ∀ q ∈ s.pending, q.stage = .written → q.id ∉ s.deadIds

theorem Inv.dbIds_perm {s : State} (h : Inv s) :
    s.dbIds.Perm (s.regIds ++ (written s.pending).map (·.id)) := by
  have := h.dbsig.map Prod.fst
  simpa [State.dbIds, State.regIds, List.map_map, Function.comp_def] using this

theorem Inv.regIds_nodup {s : State} (h : Inv s) : s.regIds.Nodup := (List.nodup_append.1 h.ids).1
theorem Inv.pendIds_nodup {s : State} (h : Inv s) : s.pendIds.Nodup := (List.nodup_append.1 h.ids).2.1
theorem Inv.disjoint {s : State} (h : Inv s) {a : String} (h1 : a ∈ s.regIds) (h2 : a ∈ s.pendIds) : False :=
  (List.nodup_append.1 h.ids).2.2 a h1 a h2 rfl

theorem written_sublist (p : List Pending) : (written p).Sublist p := List.filter_sublist

theorem Inv.dbIds_nodup {s : State} (h : Inv s) : s.dbIds.Nodup := by
  rw [h.dbIds_perm.nodup_iff]
  have hsub : (s.regIds ++ (written s.pending).map (·.id)).Sublist (s.regIds ++ s.pendIds) :=
    List.Sublist.append (List.Sublist.refl _) ((written_sublist _).map _)
  exact hsub.nodup h.ids

theorem init_inv (lo hi : Nat) : Inv (init lo hi) := by
  refine ⟨?_, ?_, ?_, ?_, ?_, ?_⟩ <;> simp [init, State.range, State.regIds, State.pendIds, written]

theorem init_dinv (lo hi : Nat) : DInv (init lo hi) := by
  refine ⟨?_, ?_, ?_, ?_, ?_, ?_⟩ <;> simp [init, State.deadIds]

/-- An id of the database is the id of a registered torrent or of an add that has written. -/
theorem Inv.dbId_src {s : State} (h : Inv s) {id : String} (hid : id ∈ s.dbIds) :
    id ∈ s.regIds ∨ ∃ q ∈ s.pending, q.id = id ∧ q.stage = .written := by
  rcases List.mem_append.1 ((h.dbIds_perm.mem_iff).1 hid) with h1 | h1
  · exact Or.inl h1
  · obtain ⟨q, hq, rfl⟩ := List.mem_map.1 h1
    have := List.mem_filter.1 hq
    exact Or.inr ⟨q, this.1, rfl, by simpa using this.2⟩

theorem DInv.dead_not_db {s : State} (h : Inv s) (hd : DInv s) {id : String} (hid : id ∈ s.deadIds) : id ∉ s.dbIds := by
  intro hc
  rcases h.dbId_src hc with h1 | ⟨q, hq, rfl, hw⟩
  · exact hd.fresh id (hd.deadInv id hid) h1
  · exact hd.wdead q hq hw hid

/-- With no add in flight the invalid ids are exactly the ids of the records that did not load. -/
theorem DInv.invalid_perm {s : State} (hd : DInv s) (hp : s.pending = []) : s.invalid.Perm s.deadIds := by
  rw [List.perm_ext_iff_of_nodup hd.invNodup hd.deadNodup]
  intro a
  constructor
  · intro ha
    rcases hd.invSrc a ha with h1 | ⟨q, hq, _, _⟩
    · exact h1
    · rw [hp] at hq; cases hq
  · exact hd.deadInv a

/-- The torrents bucket has one sub-bucket per id. -/
theorem bucket_nodup {s : State} (h : Inv s) (hd : DInv s) : ((s.db ++ s.dead).map (·.1)).Nodup := by
  rw [List.map_append]
  refine List.nodup_append.2 ⟨h.dbIds_nodup, hd.deadNodup, ?_⟩
  intro a ha b hb hab
  subst hab
  exact hd.dead_not_db h hb ha

end Rain.Registry
