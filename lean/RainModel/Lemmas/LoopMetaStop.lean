import RainModel.Lemmas.LoopStopped
import RainModel.Lemmas.LoopWInv
import RainModel.Lemmas.LoopHmd
/-!
What the completion of a metadata download leaves behind (C04, C06, C13): a refused info dictionary
(`Config.MaxPieces`, private) and `StopAfterMetadata` end in `stop`; otherwise the allocator is started.
Also: `startPieceDownloaders` (`St.startDls`) and `closePeer` never create a download, and do nothing at all
while no pieces are loaded (the scenario of finding C08-F5).
-/
namespace Rain.Loop

/-- `stop` on a running torrent (neither stopped nor stopping): everything is released, the error is recorded. -/
theorem stop_running_fields (s : St) (e : Bool) (hr : Running s) :
    (s.stop e).lastErr = e ∧ (s.stop e).errC = true ∧ (s.stop e).stopAnn = true ∧
    (s.stop e).allocator = false ∧ (s.stop e).verifier = false ∧ (s.stop e).loaded = false ∧
    (s.stop e).acceptor = false ∧ (s.stop e).openFiles = [] ∧ (s.stop e).peers = [] ∧ (s.stop e).dls = [] ∧
    (s.stop e).idls = [] ∧ (s.stop e).mayStart = [] := by
  have hst : ¬(s.status = .stopping ∨ s.status = .stopped) := by
    rintro (h | h)
    · have := ((status_stopping_iff s).1 h).2; rw [hr.2] at this; cases this
    · have := (status_stopped_iff s).1 h; rw [hr.1] at this; cases this
  have he : (s.stop e).errC = true := by simpa using hr.1
  rw [stop_eq, if_neg hst] at he ⊢
  obtain ⟨f1, f2, f3, f4, f5, f6, f7, f8, f9⟩ := stopRun_fields s e
  refine ⟨?_, he, f1, f2, f3, f4, f5, f6, f7, f8, f9, ?_⟩
  · simp [stopRun, stopA]
  · simp [stopRun, stopClear]

theorem stop_running_status (s : St) (e : Bool) (hr : Running s) : (s.stop e).status = .stopping := by
  obtain ⟨_, h1, h2, _⟩ := stop_running_fields s e hr
  exact (status_stopping_iff _).2 ⟨h1, h2⟩

/-! ### the three outcomes of a completed metadata download -/

/-- **Refused** (more pieces than `Config.MaxPieces`, or private): `info` keeps its value, the torrent is
stopping with the error recorded, everything released. -/
theorem hmdAdopt_refused_fields (m : M) (h : m.1.cfg.n > m.1.cfg.maxPieces ∨ m.1.cfg.isPrivate = true)
    (hr : Running m.1) :
    (hmdAdopt m).1.info = m.1.info ∧ (hmdAdopt m).1.metaDone = m.1.metaDone ∧
    (hmdAdopt m).1.status = .stopping ∧ (hmdAdopt m).1.lastErr = true ∧
    (hmdAdopt m).1.allocator = false ∧ (hmdAdopt m).1.verifier = false ∧ (hmdAdopt m).1.loaded = false ∧
    (hmdAdopt m).1.peers = [] ∧ (hmdAdopt m).1.dls = [] ∧ (hmdAdopt m).1.idls = [] ∧
    (hmdAdopt m).1.panicked = m.1.panicked := by
  have hr' : Running ({ m.1 with idls := [] } : St) := hr
  obtain ⟨f0, _, _, f2, f3, f4, _, _, f7, f8, f9, _⟩ := stop_running_fields _ true hr'
  rw [hmdAdopt_refused m h]
  refine ⟨by simp, by simp, stop_running_status _ _ hr', f0, f2, f3, f4, f7, f8, f9, ?_⟩
  rw [stop_panicked]

/-- **Accepted with `StopAfterMetadata`**: the metadata is adopted and the torrent is stopping without error;
no allocator, nothing loaded, no peers, no downloads. -/
theorem hmdAdopt_stopAfter_fields (m : M) (hn : m.1.cfg.n ≤ m.1.cfg.maxPieces) (hp : m.1.cfg.isPrivate = false)
    (hs : m.1.cfg.stopAfterMeta = true) (hr : Running m.1) :
    (hmdAdopt m).1.info = true ∧ (hmdAdopt m).1.metaDone = true ∧
    (hmdAdopt m).1.status = .stopping ∧ (hmdAdopt m).1.lastErr = false ∧
    (hmdAdopt m).1.allocator = false ∧ (hmdAdopt m).1.verifier = false ∧ (hmdAdopt m).1.loaded = false ∧
    (hmdAdopt m).1.peers = [] ∧ (hmdAdopt m).1.dls = [] ∧ (hmdAdopt m).1.idls = [] ∧
    (hmdAdopt m).1.mayStart = [] ∧ (hmdAdopt m).1.panicked = m.1.panicked := by
  have hr' : Running ({ m.1 with idls := [], info := true, metaDone := true } : St) := hr
  obtain ⟨f0, _, _, f2, f3, f4, _, _, f7, f8, f9, f10⟩ := stop_running_fields _ false hr'
  have heq : (hmdAdopt m).1 = ({ m.1 with idls := [], info := true, metaDone := true } : St).stop false := by
    rw [hmdAdopt_accepted m hn hp]
    unfold hmdStart
    have : (onSt m fun s => { s with idls := [], info := true, metaDone := true }).1.cfg.stopAfterMeta = true := hs
    rw [if_pos this]; rfl
  rw [heq]
  refine ⟨by simp, by simp, stop_running_status _ _ hr', f0, f2, f3, f4, f7, f8, f9, f10, ?_⟩
  rw [stop_panicked]

/-- **Accepted without `StopAfterMetadata`**: the metadata is adopted and the allocator is started (this is
the only outcome in which it is); `crash "allocator exists"` only if one was already running. -/
theorem hmdAdopt_started_fields (m : M) (hn : m.1.cfg.n ≤ m.1.cfg.maxPieces) (hp : m.1.cfg.isPrivate = false)
    (hs : m.1.cfg.stopAfterMeta = false) :
    (hmdAdopt m).1.info = true ∧ (hmdAdopt m).1.metaDone = true ∧ (hmdAdopt m).1.allocator = true ∧
    (hmdAdopt m).1.errC = m.1.errC ∧ (hmdAdopt m).1.stopAnn = m.1.stopAnn ∧ (hmdAdopt m).1.idls = [] ∧
    (m.1.allocator = false → (hmdAdopt m).1.panicked = m.1.panicked) := by
  rw [hmdAdopt_accepted m hn hp]
  unfold hmdStart
  have : ¬ (onSt m fun s => { s with idls := [], info := true, metaDone := true }).1.cfg.stopAfterMeta = true := by
    show ¬ m.1.cfg.stopAfterMeta = true
    rw [hs]; exact Bool.false_ne_true
  rw [if_neg this]
  simp only [onSt_fst]
  cases ha : m.1.allocator <;> simp [ha]

/-- The allocator is running after `hmdAdopt` only in the third outcome. -/
theorem hmdAdopt_allocator_only_if (m : M) (hr : Running m.1) (ha : m.1.allocator = false)
    (h : (hmdAdopt m).1.allocator = true) :
    m.1.cfg.n ≤ m.1.cfg.maxPieces ∧ m.1.cfg.isPrivate = false ∧ m.1.cfg.stopAfterMeta = false := by
  by_cases hn : m.1.cfg.n ≤ m.1.cfg.maxPieces
  · cases hp : m.1.cfg.isPrivate
    · cases hs : m.1.cfg.stopAfterMeta
      · exact ⟨hn, rfl, rfl⟩
      · have := (hmdAdopt_stopAfter_fields m hn hp hs hr).2.2.2.2.1
        rw [this] at h; cases h
    · have := (hmdAdopt_refused_fields m (Or.inr hp) hr).2.2.2.2.1
      rw [this] at h; cases h
  · have := (hmdAdopt_refused_fields m (Or.inl (by omega)) hr).2.2.2.2.1
    rw [this] at h; cases h

/-! ### the rest of the step after a handler that stopped the torrent -/

/-- A step whose handler left the torrent stopped or stopping with no verify pending and no panic: the workers
finish the stop (unless a tracker hangs), nothing is restarted, `info` is what the handler left. -/
theorem step_settles (s : St) (p : Parked) (kn : Nat → Bool) (op : Op) (h : Life s)
    (hpan : (handle { s with sto := [], mayStart := [], closedDl := [], mayStartI := false } p kn op).1.1.panicked = none)
    (hdv : (handle { s with sto := [], mayStart := [], closedDl := [], mayStartI := false } p kn op).1.1.doVerify = false)
    (hnr : (handle { s with sto := [], mayStart := [], closedDl := [], mayStartI := false } p kn op).1.1.errC = false ∨
      (handle { s with sto := [], mayStart := [], closedDl := [], mayStartI := false } p kn op).1.1.stopAnn = true) :
    Life (step s p kn op).1.st ∧ (step s p kn op).1.st.doVerify = false ∧
    (step s p kn op).1.st.info =
      (handle { s with sto := [], mayStart := [], closedDl := [], mayStartI := false } p kn op).1.1.info ∧
    ((step s p kn op).1.st.status = .stopped ∨
      ((handle { s with sto := [], mayStart := [], closedDl := [], mayStartI := false } p kn op).1.1.stopHang = true ∧
        (step s p kn op).1.st.status = .stopping ∧ (step s p kn op).1.st.stopHang = true)) := by
  have h0 : Life { s with sto := [], mayStart := [], closedDl := [], mayStartI := false } := h.congr (by lframe)
  have hl := handle_life _ p kn op h0
  rw [status_stopped_iff, status_stopping_iff, step_st]
  generalize (handle { s with sto := [], mayStart := [], closedDl := [], mayStartI := false } p kn op) = r
    at hpan hdv hnr hl ⊢
  obtain ⟨h1, h2⟩ := settle_not_running 11 r.1 hl hpan hdv hnr
  rw [settle_step _ r.2.2 p.isSome (runWorkers_life 12 r.1 hl) (settle_nr h2)]
  refine ⟨runWorkers_life 12 r.1 hl, h1, by simp, ?_⟩
  rcases h2 with h2 | ⟨h2, h3⟩
  · exact Or.inl h2
  · exact Or.inr ⟨h2, ⟨h3.1, h3.2.1⟩, h3.2.2⟩

theorem handle_metadata_eq (s : St) (p : Parked) (kn : Nat → Bool) (k i len : Nat) (good : Bool)
    (hk : (s.findPeer k).isSome = true) :
    (handle s p kn (.metadata k i len good)).1 = handleMetadataData (s, []) k i len good := by
  unfold handle
  have : ¬ (s.findPeer k).isNone = true := by
    cases hf : s.findPeer k <;> simp [hf] at hk ⊢
  simp only [this, if_false]
  rfl

/-- The step in which a metadata download completes with the right hash and the handler stops the torrent
(info dictionary refused, or `StopAfterMetadata`): afterwards the torrent is stopped (or stopping behind a
hanging tracker), `info` is what the handler left, no verify is pending. -/
theorem step_metadata_stops (s : St) (p : Parked) (kn : Nat → Bool) (d : IDl) (k i len : Nat) (good : Bool)
    (h : Life s) (hpan : s.panicked = none) (hdv : s.doVerify = false)
    (hk : (s.findPeer k).isSome = true) (hc : HmdComplete (s, []) d k i len good)
    (hcase : (s.cfg.n > s.cfg.maxPieces ∨ s.cfg.isPrivate = true) ∨
      (s.cfg.n ≤ s.cfg.maxPieces ∧ s.cfg.isPrivate = false ∧ s.cfg.stopAfterMeta = true)) :
    Life (step s p kn (.metadata k i len good)).1.st ∧
    (step s p kn (.metadata k i len good)).1.st.doVerify = false ∧
    (step s p kn (.metadata k i len good)).1.st.info =
      (if s.cfg.n > s.cfg.maxPieces ∨ s.cfg.isPrivate = true then s.info else true) ∧
    ((step s p kn (.metadata k i len good)).1.st.status = .stopped ∨
      (s.stopHang = true ∧ (step s p kn (.metadata k i len good)).1.st.status = .stopping ∧
        (step s p kn (.metadata k i len good)).1.st.stopHang = true)) := by
  have hr : Running s := h.running_of_peer hk
  have heq := handle_metadata_eq { s with sto := [], mayStart := [], closedDl := [], mayStartI := false } p kn k i len
    good hk
  have hc' : HmdComplete (({ s with sto := [], mayStart := [], closedDl := [], mayStartI := false } : St), [])
      d k i len good := hc
  rw [handleMetadataData_complete _ d k i len good hc'] at heq
  have hr' : Running (hmdStored (({ s with sto := [], mayStart := [], closedDl := [], mayStartI := false } : St), [])
      d k i good).1 := hr
  have key : (handle { s with sto := [], mayStart := [], closedDl := [], mayStartI := false } p kn
        (.metadata k i len good)).1.1.panicked = none ∧
      (handle { s with sto := [], mayStart := [], closedDl := [], mayStartI := false } p kn
        (.metadata k i len good)).1.1.doVerify = false ∧
      (handle { s with sto := [], mayStart := [], closedDl := [], mayStartI := false } p kn
        (.metadata k i len good)).1.1.stopAnn = true ∧
      (handle { s with sto := [], mayStart := [], closedDl := [], mayStartI := false } p kn
        (.metadata k i len good)).1.1.stopHang = s.stopHang ∧
      (handle { s with sto := [], mayStart := [], closedDl := [], mayStartI := false } p kn
        (.metadata k i len good)).1.1.info =
        (if s.cfg.n > s.cfg.maxPieces ∨ s.cfg.isPrivate = true then s.info else true) := by
    rw [heq]
    refine ⟨?_, hmdAdopt_doVerify_false _ (by simpa [hmdStored] using hdv), ?_, by simp [hmdStored], ?_⟩
    · rcases hcase with hc1 | ⟨hn, hp, hs⟩
      · rw [(hmdAdopt_refused_fields _ hc1 hr').2.2.2.2.2.2.2.2.2.2]; exact hpan
      · rw [(hmdAdopt_stopAfter_fields _ hn hp hs hr').2.2.2.2.2.2.2.2.2.2.2]; exact hpan
    · rcases hcase with hc1 | ⟨hn, hp, hs⟩
      · exact ((status_stopping_iff _).1 (hmdAdopt_refused_fields _ hc1 hr').2.2.1).2
      · exact ((status_stopping_iff _).1 (hmdAdopt_stopAfter_fields _ hn hp hs hr').2.2.1).2
    · rcases hcase with hc1 | ⟨hn, hp, hs⟩
      · rw [(hmdAdopt_refused_fields _ hc1 hr').1, if_pos hc1]; rfl
      · have hneg : ¬ (s.cfg.n > s.cfg.maxPieces ∨ s.cfg.isPrivate = true) := by
          rintro (h1 | h1)
          · omega
          · rw [hp] at h1; cases h1
        rw [(hmdAdopt_stopAfter_fields _ hn hp hs hr').1, if_neg hneg]
  obtain ⟨k1, k2, k3, k4, k5⟩ := key
  obtain ⟨l1, l2, l3, l4⟩ := step_settles s p kn (.metadata k i len good) h k1 k2 (Or.inr k3)
  rw [k4] at l4
  rw [k5] at l3
  exact ⟨l1, l2, l3, l4⟩

/-! ### `startPieceDownloaders` without pieces (finding C08-F5) -/

/-- Between events a torrent whose pieces are not loaded is never `Downloading`. -/
theorem Life.not_downloading_unloaded {s : St} (h : Life s) (hl : s.loaded = false) : s.status ≠ .downloading := by
  intro hs
  unfold St.status at hs
  cases he : s.errC <;> cases hsa : s.stopAnn <;> cases ha : s.allocator <;> cases hv : s.verifier <;>
    cases hc : s.completed <;> cases hi : s.info <;> simp [he, hsa, ha, hv, hc, hi] at hs
  have := h.run he hsa ha hi
  rw [hl] at this; cases this

/-- `startPieceDownloaders` does nothing unless the status is `Downloading`… -/
theorem startDls_noop_of_status (s : St) (h : s.status ≠ .downloading) : s.startDls = s := by
  unfold St.startDls
  simp [h]

/-- … nor while nothing is loaded, in ANY state (the guard `piecePicker == nil`, fix for finding C08-F5). -/
theorem startDls_noop_of_unloaded (s : St) (h : s.loaded = false) : s.startDls = s := by
  unfold St.startDls
  simp [h]

/-- **startDls_noop_unloaded.**  … in particular it does nothing while no pieces are loaded (no piece picker),
in every state the event loop is in between two events. -/
theorem startDls_noop_unloaded (s : St) (h : Life s) (hl : s.loaded = false) : s.startDls = s :=
  startDls_noop_of_status s (h.not_downloading_unloaded hl)

/-- Closing a peer (which ends with `startPieceDownloaders`, fix C10-F1) while the status is not `Downloading`
grants no permission to start a piece download.  (`closePeer_dls_subset`, `Lemmas/LoopWInv.lean`: it never
creates a download in any state — in the model downloads only come from `reconcile`, and `admissibleStart`
demands loaded pieces.) -/
theorem closePeer_mayStart_of_status (s : St) (k : Nat) (h : s.status ≠ .downloading) :
    ∀ x ∈ (s.closePeer k).mayStart, x ∈ s.mayStart := by
  unfold St.closePeer
  split
  · exact fun x hx => hx
  · dsimp only
    intro x hx
    rw [startDls_noop_of_status] at hx
    · have h1 : x ∈ (s.closeDl k).mayStart.filter (fun y => decide (y ≠ k)) := by
        split at hx <;> simpa using hx
      have h2 := (List.mem_filter.1 h1).1
      simpa using h2
    · intro hs; apply h; simpa [St.status] using hs

/-- … in particular while nothing is loaded. -/
theorem closePeer_mayStart_unloaded (s : St) (k : Nat) (h : Life s) (hl : s.loaded = false) :
    ∀ x ∈ (s.closePeer k).mayStart, x ∈ s.mayStart :=
  closePeer_mayStart_of_status s k (h.not_downloading_unloaded hl)

end Rain.Loop
