import RainModel.Model.Path
/-!
Helper lemmas for M-PATH (C07): `splitSlash`/`joinSlash`, `cleanComps`, `fpClean`, `fpJoin`.
-/
namespace Rain.Path

/-- A component that survives `Clean` unchanged: non-empty, not `.`, not `..`, no separator. -/
def GoodComp (c : Bytes) : Prop := c ≠ [] ∧ c ≠ dot ∧ c ≠ dotdot ∧ SLASH ∉ c

theorem splitSlash_cons_slash (r : Bytes) : splitSlash (SLASH :: r) = [] :: splitSlash r := by
  rw [splitSlash]; simp

theorem splitSlash_ne_nil (s : Bytes) : splitSlash s ≠ [] := by
  induction s with
  | nil => simp [splitSlash]
  | cons c r ih =>
    rw [splitSlash]
    split
    · simp
    · split <;> simp

/-- For a non-separator head: it is prepended to the first component of the rest. -/
theorem splitSlash_cons_ne (c : Nat) (r : Bytes) (hc : c ≠ SLASH) :
    ∃ h t, splitSlash r = h :: t ∧ splitSlash (c :: r) = (c :: h) :: t := by
  cases hs : splitSlash r with
  | nil => exact absurd hs (splitSlash_ne_nil r)
  | cons h t =>
    refine ⟨h, t, rfl, ?_⟩
    rw [splitSlash]
    simp [hc, hs]

theorem splitSlash_noslash (s : Bytes) (h : SLASH ∉ s) : splitSlash s = [s] := by
  induction s with
  | nil => rfl
  | cons c r ih =>
    have hc : c ≠ SLASH := fun e => h (by simp [e])
    have hr : SLASH ∉ r := fun e => h (by simp [e])
    obtain ⟨h', t, h1, h2⟩ := splitSlash_cons_ne c r hc
    rw [h2]
    rw [ih hr] at h1
    cases h1
    rfl

theorem splitSlash_append_slash (a b : Bytes) (ha : SLASH ∉ a) :
    splitSlash (a ++ SLASH :: b) = a :: splitSlash b := by
  induction a with
  | nil => exact splitSlash_cons_slash b
  | cons c r ih =>
    have hc : c ≠ SLASH := fun e => ha (by simp [e])
    have hr : SLASH ∉ r := fun e => ha (by simp [e])
    obtain ⟨h', t, h1, h2⟩ := splitSlash_cons_ne c (r ++ SLASH :: b) hc
    show splitSlash (c :: (r ++ SLASH :: b)) = _
    rw [h2]
    rw [ih hr] at h1
    cases h1
    rfl

/-- `Split` of a join of separator-free components gives the components back. -/
theorem splitSlash_joinSlash (l : List Bytes) (hne : l ≠ []) (h : ∀ c ∈ l, SLASH ∉ c) :
    splitSlash (joinSlash l) = l := by
  induction l with
  | nil => exact absurd rfl hne
  | cons a r ih =>
    cases r with
    | nil => simp [joinSlash, splitSlash_noslash a (h a (by simp))]
    | cons b r' =>
      have : joinSlash (a :: b :: r') = a ++ SLASH :: joinSlash (b :: r') := rfl
      rw [this, splitSlash_append_slash _ _ (h a (by simp))]
      rw [ih (by simp) (fun c hc => h c (by simp [hc]))]

/-- General decomposition: splitting at an explicit separator. -/
theorem splitSlash_append (a b : Bytes) :
    splitSlash (a ++ SLASH :: b) = splitSlash a ++ splitSlash b := by
  induction a with
  | nil => rw [List.nil_append, splitSlash_cons_slash]; rfl
  | cons c r ih =>
    show splitSlash (c :: (r ++ SLASH :: b)) = splitSlash (c :: r) ++ _
    by_cases hc : c = SLASH
    · subst hc
      rw [splitSlash_cons_slash, splitSlash_cons_slash, ih]
      rfl
    · obtain ⟨h1, t1, e1, e2⟩ := splitSlash_cons_ne c (r ++ SLASH :: b) hc
      obtain ⟨h2, t2, f1, f2⟩ := splitSlash_cons_ne c r hc
      rw [e2, f2]
      rw [ih, f1] at e1
      cases e1
      rfl

/-! ### `cleanComps` -/

/-- Components that are empty or `.` are dropped; without any `..` nothing else happens. -/
theorem foldl_cleanStep_nodotdot (rooted : Bool) (l : List Bytes) (st : List Bytes)
    (h : ∀ c ∈ l, c ≠ dotdot) :
    l.foldl (cleanStep rooted) st = (l.filter (fun c => !(c = [] || c = dot))).reverse ++ st := by
  induction l generalizing st with
  | nil => simp
  | cons c r ih =>
    have hc : c ≠ dotdot := h c (by simp)
    have hr : ∀ c ∈ r, c ≠ dotdot := fun c hc => h c (by simp [hc])
    simp only [List.foldl_cons]
    rw [ih _ hr]
    by_cases h1 : (c = [] || c = dot) = true
    · have h1b : c = [] ∨ c = dot := by simpa using h1
      have hf : List.filter (fun c => !(decide (c = []) || decide (c = dot))) (c :: r)
          = List.filter (fun c => !(decide (c = []) || decide (c = dot))) r := by
        rw [List.filter_cons]; simp [h1]
      rw [hf]
      simp [cleanStep, h1]
    · have h1' : (c = [] || c = dot) = false := by simpa using h1
      simp only [cleanStep, h1', hc, List.filter_cons]
      simp

theorem cleanComps_nodotdot (rooted : Bool) (l : List Bytes) (h : ∀ c ∈ l, c ≠ dotdot) :
    cleanComps rooted l = l.filter (fun c => !(c = [] || c = dot)) := by
  unfold cleanComps
  rw [foldl_cleanStep_nodotdot rooted l [] h]
  simp

theorem filter_good (l : List Bytes) (h : ∀ c ∈ l, GoodComp c) :
    l.filter (fun c => !(c = [] || c = dot)) = l := by
  apply List.filter_eq_self.mpr
  intro c hc
  have := h c hc
  simp [this.1, this.2.1]


/-! ### `joinSlash` -/

theorem joinSlash_cons_cons (a b : Bytes) (r : List Bytes) :
    joinSlash (a :: b :: r) = a ++ SLASH :: joinSlash (b :: r) := rfl

theorem joinSlash_append (a b : List Bytes) (ha : a ≠ []) (hb : b ≠ []) :
    joinSlash (a ++ b) = joinSlash a ++ SLASH :: joinSlash b := by
  induction a with
  | nil => exact absurd rfl ha
  | cons x r ih =>
    cases r with
    | nil =>
      cases b with
      | nil => exact absurd rfl hb
      | cons y b' => simp [joinSlash]
    | cons x' r' =>
      have := ih (by simp)
      simp only [List.cons_append] at this ⊢
      rw [joinSlash_cons_cons, this, joinSlash_cons_cons]
      simp

theorem joinSlash_splitSlash (s : Bytes) : joinSlash (splitSlash s) = s := by
  induction s with
  | nil => rfl
  | cons c r ih =>
    by_cases hc : c = SLASH
    · subst hc
      rw [splitSlash_cons_slash]
      cases hs : splitSlash r with
      | nil => exact absurd hs (splitSlash_ne_nil r)
      | cons h t =>
        rw [joinSlash_cons_cons, ← hs, ih]
        rfl
    · obtain ⟨h, t, e1, e2⟩ := splitSlash_cons_ne c r hc
      rw [e2]
      rw [e1] at ih
      cases t with
      | nil => simp [joinSlash] at ih ⊢; exact ih
      | cons t1 t2 =>
        rw [joinSlash_cons_cons] at ih ⊢
        simp [← ih]

theorem splitSlash_mem_noslash (s : Bytes) : ∀ c ∈ splitSlash s, SLASH ∉ c := by
  induction s with
  | nil => intro c hc; simp [splitSlash] at hc; simp [hc]
  | cons x r ih =>
    by_cases hx : x = SLASH
    · subst hx
      rw [splitSlash_cons_slash]
      intro c hc
      rcases List.mem_cons.mp hc with h | h
      · simp [h]
      · exact ih c h
    · obtain ⟨h, t, e1, e2⟩ := splitSlash_cons_ne x r hx
      rw [e2]
      intro c hc
      rw [e1] at ih
      rcases List.mem_cons.mp hc with h' | h'
      · subst h'
        have := ih h (by simp)
        intro hm
        rcases List.mem_cons.mp hm with e | e
        · exact hx e.symm
        · exact this e
      · exact ih c (by simp [h'])

/-! ### prefix test -/

theorem isPrefixOfB_append (a b : Bytes) : isPrefixOfB a (a ++ b) = true := by
  induction a with
  | nil => rfl
  | cons x r ih => simp [isPrefixOfB, ih]

theorem isPrefixOfB_elim (a s : Bytes) (h : isPrefixOfB a s = true) : ∃ r, s = a ++ r := by
  induction a generalizing s with
  | nil => exact ⟨s, rfl⟩
  | cons x r ih =>
    cases s with
    | nil => simp [isPrefixOfB] at h
    | cons y s' =>
      simp [isPrefixOfB] at h
      obtain ⟨r', hr⟩ := ih s' h.2
      exact ⟨r', by simp [h.1, hr]⟩


/-! ### `fpJoin` of cleaned parts (the paths `NewInfo` builds) -/

theorem joinSlash_head (c : Bytes) (l : List Bytes) (x : Nat) (r : Bytes) (hc : c = x :: r) :
    ∃ r', joinSlash (c :: l) = x :: r' := by
  cases l with
  | nil => exact ⟨r, by simp [joinSlash, hc]⟩
  | cons b l' => exact ⟨r ++ SLASH :: joinSlash (b :: l'), by rw [joinSlash_cons_cons, hc]; rfl⟩

/-- All components real ⇒ `Confined`. -/
theorem confined_joinSlash (l : List Bytes) (hne : l ≠ []) (h : ∀ c ∈ l, GoodComp c) :
    Confined (joinSlash l) = true := by
  unfold Confined
  rw [splitSlash_joinSlash l hne (fun c hc => (h c hc).2.2.2)]
  simp only [List.all_eq_true]
  intro c hc
  have := h c hc
  simp [this.1, this.2.1, this.2.2.1]

/-- `filepath.Join(cname, parts…)` when `cname` is a real name and no part contains a separator
or is `..`: the result is the join of the parts that are not empty or `.`, and it is `Confined`. -/
theorem fpJoin_parts (cname : Bytes) (rest : List Bytes) (hc : GoodComp cname)
    (hr : ∀ c ∈ rest, SLASH ∉ c ∧ c ≠ dotdot) :
    fpJoin (cname :: rest) = joinSlash (cname :: rest.filter (fun c => !(c = [] || c = dot))) ∧
    Confined (fpJoin (cname :: rest)) = true := by
  obtain ⟨hne, hnd, hndd, hns⟩ := hc
  have hall : ∀ c ∈ cname :: rest, SLASH ∉ c := by
    intro c hcm
    rcases List.mem_cons.mp hcm with e | e
    · rw [e]; exact hns
    · exact (hr c e).1
  have hdd : ∀ c ∈ cname :: rest, c ≠ dotdot := by
    intro c hcm
    rcases List.mem_cons.mp hcm with e | e
    · rw [e]; exact hndd
    · exact (hr c e).2
  cases hcn : cname with
  | nil => exact absurd hcn hne
  | cons x r =>
    have hx : x ≠ SLASH := by
      intro e; apply hns; rw [hcn, e]; simp
    obtain ⟨r', hj⟩ := joinSlash_head cname rest x r hcn
    have hsplit := splitSlash_joinSlash (cname :: rest) (by simp) hall
    have hkeep : (cname = [] || cname = dot) = false := by simp [hne, hnd]
    have hfilter : (cname :: rest).filter (fun c => !(c = [] || c = dot)) =
        cname :: rest.filter (fun c => !(c = [] || c = dot)) := by
      rw [List.filter_cons]; simp [hne, hnd]
    have hbody : joinSlash (cname :: rest.filter (fun c => !(c = [] || c = dot))) ≠ [] := by
      obtain ⟨r'', hj'⟩ := joinSlash_head cname (rest.filter (fun c => !(c = [] || c = dot))) x r hcn
      rw [hj']; simp
    have hval : fpJoin (cname :: rest) =
        joinSlash (cname :: rest.filter (fun c => !(c = [] || c = dot))) := by
      unfold fpJoin
      have : (cname :: rest).dropWhile (· = []) = cname :: rest := by
        rw [List.dropWhile_cons]; simp [hne]
      rw [this]
      show fpClean (joinSlash (cname :: rest)) = _
      unfold fpClean
      rw [hj]
      simp only [hx, decide_false]
      rw [← hj, hsplit, cleanComps_nodotdot false _ hdd, hfilter]
      simp only [if_false]
      exact if_neg hbody
    rw [← hcn]
    refine ⟨hval, ?_⟩
    rw [hval]
    apply confined_joinSlash _ (by simp)
    intro c hcm
    rcases List.mem_cons.mp hcm with e | e
    · rw [e]; exact ⟨hne, hnd, hndd, hns⟩
    · have hm := List.mem_filter.mp e
      have h1 := hr c hm.1
      have h2 : ¬ (c = [] ∨ c = dot) := by simpa using hm.2
      exact ⟨fun e => h2 (Or.inl e), fun e => h2 (Or.inr e), h1.2, h1.1⟩


/-! ### rooted `Clean`: the output has only real components -/

def RealComp (c : Bytes) : Prop := c ≠ [] ∧ c ≠ dot ∧ c ≠ dotdot

theorem cleanStep_rooted_real (st : List Bytes) (c : Bytes) (h : ∀ x ∈ st, RealComp x) :
    ∀ x ∈ cleanStep true st c, RealComp x := by
  unfold cleanStep
  by_cases h1 : (c = [] || c = dot) = true
  · simp only [h1, if_true]; exact h
  · have h1' : ¬ (c = [] ∨ c = dot) := by simpa using h1
    simp only [h1, if_false]
    by_cases h2 : c = dotdot
    · simp only [h2, if_true]
      cases st with
      | nil => simp
      | cons top below =>
        have ht := h top (by simp)
        simp only [ht.2.2, if_false]
        intro x hx
        have hx' : x ∈ below := by simpa using hx
        exact h x (by simp [hx'])
    · simp only [h2, if_false]
      intro x hx
      rcases List.mem_cons.mp hx with e | e
      · rw [e]; exact ⟨fun e => h1' (Or.inl e), fun e => h1' (Or.inr e), h2⟩
      · exact h x e

theorem foldl_cleanStep_rooted_real (l st : List Bytes) (h : ∀ x ∈ st, RealComp x) :
    ∀ x ∈ l.foldl (cleanStep true) st, RealComp x := by
  induction l generalizing st with
  | nil => exact h
  | cons c r ih => exact ih _ (cleanStep_rooted_real st c h)

theorem cleanStep_subset (rooted : Bool) (st : List Bytes) (c : Bytes) :
    ∀ x ∈ cleanStep rooted st c, x ∈ st ∨ x = c := by
  unfold cleanStep
  intro x
  split
  · intro hx; exact Or.inl hx
  · split
    · cases st with
      | nil => cases rooted <;> simp
      | cons top below =>
        simp only
        split
        · intro hx; rcases List.mem_cons.mp hx with e | e
          · exact Or.inr e
          · exact Or.inl e
        · intro hx; exact Or.inl (by simp [hx])
    · intro hx; rcases List.mem_cons.mp hx with e | e
      · exact Or.inr e
      · exact Or.inl e

theorem foldl_cleanStep_subset (rooted : Bool) (l st : List Bytes) :
    ∀ x ∈ l.foldl (cleanStep rooted) st, x ∈ st ∨ x ∈ l := by
  induction l generalizing st with
  | nil => intro x hx; exact Or.inl hx
  | cons c r ih =>
    intro x hx
    rcases ih _ x hx with h | h
    · rcases cleanStep_subset rooted st c x h with h' | h'
      · exact Or.inl h'
      · exact Or.inr (by simp [h'])
    · exact Or.inr (by simp [h])

/-- `Clean` of an absolute path: `/` followed by real, separator-free components. -/
theorem fpClean_rooted (p : Bytes) :
    ∃ cs, fpClean (SLASH :: p) = SLASH :: joinSlash cs ∧ ∀ c ∈ cs, GoodComp c := by
  refine ⟨cleanComps true (splitSlash (SLASH :: p)), ?_, ?_⟩
  · simp [fpClean]
  · intro c hc
    unfold cleanComps at hc
    have hc' := List.mem_reverse.mp hc
    have hreal := foldl_cleanStep_rooted_real (splitSlash (SLASH :: p)) [] (by simp) c hc'
    have hsub := foldl_cleanStep_subset true (splitSlash (SLASH :: p)) [] c hc'
    have hmem : c ∈ splitSlash (SLASH :: p) := by
      rcases hsub with h | h
      · simp at h
      · exact h
    exact ⟨hreal.1, hreal.2.1, hreal.2.2, splitSlash_mem_noslash _ c hmem⟩


/-! ### storage join -/

/-- A clean absolute directory other than `/` itself (what `filepath.Abs` returns). -/
def CleanAbs (root : Bytes) : Prop :=
  ∃ cs, cs ≠ [] ∧ (∀ c ∈ cs, GoodComp c) ∧ root = SLASH :: joinSlash cs

theorem filter_nil_cons_good (l : List Bytes) (h : ∀ c ∈ l, GoodComp c) :
    (([] : Bytes) :: l).filter (fun c => !(c = [] || c = dot)) = l := by
  rw [List.filter_cons]
  simp only [decide_true, Bool.true_or, Bool.not_true]
  exact filter_good l h

theorem fpJoin_under (root : Bytes) (pc : List Bytes) (hroot : CleanAbs root) (hpc : pc ≠ [])
    (hg : ∀ c ∈ pc, GoodComp c) :
    fpJoin [root, joinSlash pc] = root ++ SLASH :: joinSlash pc ∧
    CleanAbs (root ++ SLASH :: joinSlash pc) := by
  obtain ⟨cs, hcs, hgc, hr⟩ := hroot
  have hall : ∀ c ∈ cs ++ pc, GoodComp c := by
    intro c hc
    rcases List.mem_append.mp hc with h | h
    · exact hgc c h
    · exact hg c h
  have hcat : root ++ SLASH :: joinSlash pc = SLASH :: joinSlash (cs ++ pc) := by
    rw [hr, joinSlash_append cs pc hcs hpc]; rfl
  refine ⟨?_, ⟨cs ++ pc, by simp [hcs], hall, hcat⟩⟩
  unfold fpJoin
  have hd : [root, joinSlash pc].dropWhile (· = []) = [root, joinSlash pc] := by
    rw [List.dropWhile_cons]; simp [hr]
  rw [hd]
  show fpClean (root ++ SLASH :: joinSlash pc) = _
  rw [hcat]
  unfold fpClean
  simp only [decide_true, if_true]
  rw [splitSlash_cons_slash, splitSlash_joinSlash _ (by simp [hcs]) (fun c hc => (hall c hc).2.2.2)]
  rw [cleanComps_nodotdot true _ (by
    intro c hc
    rcases List.mem_cons.mp hc with e | e
    · rw [e]; decide
    · exact (hall c e).2.2.1)]
  rw [filter_nil_cons_good _ hall]

theorem confined_elim (p : Bytes) (h : Confined p = true) :
    splitSlash p ≠ [] ∧ (∀ c ∈ splitSlash p, GoodComp c) ∧ joinSlash (splitSlash p) = p :=
  ⟨splitSlash_ne_nil p, by
    intro c hc
    unfold Confined at h
    have := (List.all_eq_true.mp h) c hc
    simp at this
    exact ⟨this.1.1, this.1.2, this.2, splitSlash_mem_noslash p c hc⟩, joinSlash_splitSlash p⟩

/-- `Clean` leaves a confined relative path alone. -/
theorem fpClean_confined (p : Bytes) (h : Confined p = true) : fpClean p = p := by
  obtain ⟨hne, hg, hj⟩ := confined_elim p h
  cases hs : splitSlash p with
  | nil => exact absurd hs hne
  | cons c0 rest =>
    have hg0 : GoodComp c0 := hg c0 (by simp [hs])
    have hrest : ∀ c ∈ rest, SLASH ∉ c ∧ c ≠ dotdot := by
      intro c hc
      have := hg c (by simp [hs, hc])
      exact ⟨this.2.2.2, this.2.2.1⟩
    have h1 := (fpJoin_parts c0 rest hg0 hrest).1
    have hfil : rest.filter (fun c => !(c = [] || c = dot)) = rest :=
      filter_good rest (fun c hc => hg c (by simp [hs, hc]))
    rw [hfil] at h1
    -- fpJoin (c0 :: rest) = fpClean (joinSlash (c0 :: rest)) as c0 ≠ []
    unfold fpJoin at h1
    have hd : (c0 :: rest).dropWhile (· = []) = c0 :: rest := by
      rw [List.dropWhile_cons]; simp [hg0.1]
    rw [hd] at h1
    have h2 : fpClean (joinSlash (c0 :: rest)) = joinSlash (c0 :: rest) := h1
    rw [← hs, hj] at h2
    exact h2

/-- The path handed to the OS by `filestorage.Open` for a confined name lies under the root. -/
theorem storagePath_under (root p : Bytes) (hroot : CleanAbs root) (h : Confined p = true) :
    storagePath root p = root ++ SLASH :: p ∧ Under root (storagePath root p) = true := by
  obtain ⟨hne, hg, hj⟩ := confined_elim p h
  have h1 := (fpJoin_under root (splitSlash p) hroot hne hg).1
  rw [hj] at h1
  have hs : storagePath root p = root ++ SLASH :: p := by
    unfold storagePath
    rw [fpClean_confined p h, h1]
  refine ⟨hs, ?_⟩
  rw [hs]
  unfold Under
  have : root ++ SLASH :: p = (root ++ [SLASH]) ++ p := by simp
  rw [this, isPrefixOfB_append]
  have hd : ((root ++ [SLASH]) ++ p).drop (root.length + 1) = p := by
    have : (root ++ [SLASH]).length = root.length + 1 := by simp
    rw [← this, List.drop_left]
  rw [hd, h]
  rfl

/-- With the torrent-id level: `Join(DataDir, id)` is again a clean absolute directory. -/
theorem dataDirOf_cleanAbs (dataDir id : Bytes) (incl : Bool) (hd : CleanAbs dataDir)
    (hid : GoodComp id) : CleanAbs (dataDirOf dataDir id incl) := by
  unfold dataDirOf
  cases incl with
  | false => exact hd
  | true =>
    have := fpJoin_under dataDir [id] hd (by simp) (by intro c hc; simp at hc; rw [hc]; exact hid)
    simp only [joinSlash] at this
    simp only [if_true]
    rw [this.1]
    exact this.2


/-! ### tar prefix test -/

/-- For an absolute destination, an accepted tar entry resolves strictly below it: the string
prefix test on cleaned absolute paths is a component-wise prefix test. -/
theorem tarTarget_under (dir n t : Bytes) (habs : ∃ r, dir = SLASH :: r)
    (h : tarTarget dir n = some t) : Under (fpClean dir) t = true := by
  obtain ⟨r, hdir⟩ := habs
  unfold tarTarget at h
  simp only at h
  split at h
  case isFalse => simp at h
  case isTrue hp =>
    cases h
    obtain ⟨ds, hd, _⟩ := fpClean_rooted r
    rw [← hdir] at hd
    -- the joined name is the Clean of something rooted
    have hj : ∃ x, fpJoin [fpClean dir, n] = fpClean (SLASH :: x) := by
      unfold fpJoin
      have : [fpClean dir, n].dropWhile (· = []) = [fpClean dir, n] := by
        rw [List.dropWhile_cons]; simp [hd]
      rw [this]
      refine ⟨joinSlash ds ++ SLASH :: n, ?_⟩
      show fpClean (joinSlash [fpClean dir, n]) = _
      rw [hd]
      rfl
    obtain ⟨x, hx⟩ := hj
    obtain ⟨cs, hcs, hgood⟩ := fpClean_rooted x
    rw [hx] at hp ⊢
    rw [hcs] at hp ⊢
    obtain ⟨rest, hrest⟩ := isPrefixOfB_elim _ _ hp
    unfold Under
    rw [hp]
    have hdrop : (SLASH :: joinSlash cs).drop ((fpClean dir).length + 1) = rest := by
      rw [hrest]
      have : (fpClean dir ++ [SLASH]).length = (fpClean dir).length + 1 := by simp
      rw [← this, List.drop_left]
    rw [hdrop]
    -- components of `rest` are among `cs`
    have hsplit : splitSlash (SLASH :: joinSlash cs) = splitSlash (fpClean dir) ++ splitSlash rest := by
      rw [hrest]
      have : fpClean dir ++ [SLASH] ++ rest = fpClean dir ++ SLASH :: rest := by simp
      rw [this, splitSlash_append]
    have hcsne : cs ≠ [] := by
      intro e
      rw [e] at hrest
      simp [joinSlash] at hrest
      have hl := congrArg List.length hrest
      simp [hd] at hl
    rw [splitSlash_cons_slash, splitSlash_joinSlash cs hcsne (fun c hc => (hgood c hc).2.2.2)] at hsplit
    have hmem : ∀ c ∈ splitSlash rest, c ∈ cs := by
      intro c hc
      have hne := splitSlash_ne_nil (fpClean dir)
      cases hsd : splitSlash (fpClean dir) with
      | nil => exact absurd hsd hne
      | cons a b =>
        rw [hsd] at hsplit
        simp only [List.cons_append] at hsplit
        have h2 := (List.cons.inj hsplit).2
        rw [h2]
        exact List.mem_append.mpr (Or.inr hc)
    simp only [Bool.true_and]
    unfold Confined
    simp only [List.all_eq_true]
    intro c hc
    have := hgood c (hmem c hc)
    simp [this.1, this.2.1, this.2.2.1]

end Rain.Path
