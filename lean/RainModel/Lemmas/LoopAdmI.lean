import RainModel.Lemmas.LoopInv
/-!
Admissibility of the implementation's choice of metadata downloads along a run (shared by the C04 `no_panic`
invariant and the C13 size-bound invariant).
-/
namespace Rain.Loop

/-- `reconcileIdl` reported no error. -/
def Ev.admissibleI (sp : St × Parked) (e : Ev) : Prop :=
  (reconcileIdl (reconcile (step sp.1 sp.2 e.known e.op).1.st e.impl).1 e.implI).2 = []

/-- Every choice of metadata downloads along the run was admissible (otherwise the driver reports C13
`metadata-download-inadmissible`). -/
def drunAdmissibleI : St × Parked → List Ev → Prop
  | _, [] => True
  | sp, e :: evs => e.admissibleI sp ∧ drunAdmissibleI (dstep sp e) evs

end Rain.Loop
