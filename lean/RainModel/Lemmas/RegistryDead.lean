import RainModel.Lemmas.RegistryRestart
/-!
Records that are read but do not load: preservation of `DInv` (and with it of `Inv`) along every
`tame` history — every step of an add incl. its failures, interleavings, removes, restarts in which
records fail to load, `CleanDatabase`, compaction.
-/
namespace Rain.Registry
open List

/-- A step that leaves the failed records and the invalid list alone, registers no torrent, and
neither adds nor drops an add that has written. -/
theorem dinv_same {s s' : State} (h : DInv s) (hd : s'.dead = s.dead) (hi : s'.invalid = s.invalid)
    (hr : ∀ id ∈ s'.regIds, id ∈ s.regIds)
    (hp1 : ∀ q ∈ s.pending, q.stage = .written → q ∈ s'.pending)
    (hp2 : ∀ q ∈ s'.pending, q.stage = .written → q ∈ s.pending) : DInv s' := by
  have hdi : s'.deadIds = s.deadIds := by simp [State.deadIds, hd]
  refine ⟨?_, ?_, ?_, ?_, ?_, ?_⟩
  · rw [hdi]; exact h.deadNodup
  · rw [hi]; exact h.invNodup
  · rw [hdi, hi]; exact h.deadInv
  · rw [hdi, hi]
    intro id hid
    rcases h.invSrc id hid with h1 | ⟨q, hq, he, hw⟩
    · exact Or.inl h1
    · exact Or.inr ⟨q, hp1 q hq hw, he, hw⟩
  · rw [hi]; exact fun id hid hc => h.fresh id hid (hr id hc)
  · rw [hdi]; exact fun q hq hw => h.wdead q (hp2 q hq hw) hw

theorem regModify_ids (reg : List Torrent) (id : String) (g : Fields → Fields) :
    (regModify reg id g).map (·.id) = reg.map (·.id) := regModify_map _ _ _ _ (fun _ => rfl)

theorem dinv_start {s : State} (h : DInv s) (id : String) : DInv (start s id) := by
  unfold start
  split
  · exact dinv_same h rfl rfl (fun i hi => by simpa [State.regIds, regModify_ids] using hi) (fun _ hq _ => hq) (fun _ hq _ => hq)
  · exact h

theorem dinv_stop {s : State} (h : DInv s) (id : String) : DInv (stop s id) := by
  unfold stop
  split
  · exact dinv_same h rfl rfl (fun i hi => by simpa [State.regIds, regModify_ids] using hi) (fun _ hq _ => hq) (fun _ hq _ => hq)
  · exact h

theorem dinv_addTracker {s : State} (h : DInv s) (id uri : String) : DInv (addTracker s id uri) := by
  unfold addTracker
  split
  · exact dinv_same h rfl rfl (fun i hi => by simpa [State.regIds, regModify_ids] using hi) (fun _ hq _ => hq) (fun _ hq _ => hq)
  · exact h

theorem dinv_bump {s : State} (h : DInv s) (id : String) (d : Counters) : DInv (bump s id d) :=
  dinv_same h rfl rfl (fun i hi => by simpa [bump, State.regIds, regModify_ids] using hi) (fun _ hq _ => hq) (fun _ hq _ => hq)

theorem dinv_updateStats {s : State} (h : DInv s) : DInv (updateStats s) :=
  dinv_same h rfl rfl (fun _ hi => hi) (fun _ hq _ => hq) (fun _ hq _ => hq)

theorem dinv_remove {s : State} (h : DInv s) (id : String) : DInv (remove s id) := by
  unfold remove
  split
  · exact h
  · refine dinv_same h rfl rfl (fun i hi => ?_) (fun _ hq _ => hq) (fun _ hq _ => hq)
    exact ((List.filter_sublist).map _).subset hi

theorem dinv_tamper {s : State} (h : DInv s) (id ih : String) : DInv (tamper s id ih) := by
  have hk : (tamper s id ih).deadIds = s.deadIds := by
    unfold tamper State.deadIds
    dsimp only
    exact dbModify_keys _ _ _
  refine ⟨?_, h.invNodup, ?_, ?_, h.fresh, ?_⟩
  · rw [hk]; exact h.deadNodup
  · rw [hk]; exact h.deadInv
  · rw [hk]; exact h.invSrc
  · rw [hk]; exact h.wdead

theorem dinv_release {s : State} (h : DInv s) (f : List Nat) : DInv { s with free := f } :=
  dinv_same h rfl rfl (fun _ hi => hi) (fun _ hq _ => hq) (fun _ hq _ => hq)

/-- A new add in flight (whatever its id: an explicit id may be one that is listed as invalid). -/
theorem dinv_reserve {s : State} (h : DInv s) (f : List Nat) (q : Pending) (hq : q.stage ≠ .written) :
    DInv { s with free := f, pending := q :: s.pending } := by
  refine dinv_same h rfl rfl (fun _ hi => hi) (fun _ hq2 _ => List.mem_cons_of_mem _ hq2) (fun q2 hq2 hw => ?_)
  rcases List.mem_cons.1 hq2 with rfl | h2
  · exact absurd hw hq
  · exact h2

theorem dinv_addBegin {s : State} (h : DInv s) (m : Meta) (o : Opts) (p : Nat) (gen : String) (sf : Bool) :
    DInv (addBegin s m o p gen sf).1 := by
  unfold addBegin addBeginWith
  by_cases h0 : s.free = []
  · rw [if_pos h0]; exact h
  rw [if_neg h0]
  by_cases hp : p ∉ s.free
  · rw [if_pos hp]; exact h
  rw [if_neg hp]
  dsimp only
  cases o.id with
  | some gid =>
    dsimp only
    split
    · exact dinv_release h _
    split
    · exact dinv_release h _
    · exact dinv_reserve h _ _ (by simp)
  | none =>
    dsimp only
    split
    · exact h
    split
    · exact dinv_release h _
    · exact dinv_reserve h _ _ (by simp)

theorem mem_erase_written {l : List Pending} {q q2 : Pending} (h2 : q2 ∈ l) (hw : q2.stage = .written)
    (hq : q.stage ≠ .written) : q2 ∈ l.erase q :=
  (List.mem_erase_of_ne (fun e => hq (by rw [← e]; exact hw))).2 h2

/-- An add that has not written moves to another not-yet-written stage, or gives up. -/
theorem dinv_restage {s : State} (h : DInv s) (q : Pending) (hq : q.stage ≠ .written) (l : List Pending)
    (hl : ∀ x ∈ l, x.stage ≠ .written) (f : List Nat) :
    DInv { s with pending := l ++ s.pending.erase q, free := f } := by
  refine dinv_same h rfl rfl (fun _ hi => hi) (fun q2 h2 hw => ?_) (fun q2 h2 hw => ?_)
  · exact List.mem_append_right _ (mem_erase_written h2 hw hq)
  · rcases List.mem_append.1 h2 with h3 | h3
    · exact absurd hw (hl q2 h3)
    · exact List.mem_of_mem_erase h3

theorem dinv_addBuild {s : State} (h : DInv s) (q : Pending) (ok : Bool) : DInv (addBuild s q ok).1 := by
  unfold addBuild
  by_cases hc : q ∉ s.pending ∨ q.stage ≠ .reserved
  · rw [if_pos hc]; exact h
  rw [if_neg hc]
  simp only [not_or, Classical.not_not] at hc
  have hnw : q.stage ≠ .written := by rw [hc.2]; simp
  cases ok with
  | true => simpa using dinv_restage h q hnw [{ q with stage := .built }] (by simp) s.free
  | false => simpa using dinv_restage h q hnw [] (by simp) (q.port :: s.free)

theorem dinv_addWrite {s : State} (h : DInv s) (q : Pending) (ok : Bool) : DInv (addWrite s q ok).1 := by
  unfold addWrite
  by_cases hc : q ∉ s.pending ∨ q.stage ≠ .built
  · rw [if_pos hc]; exact h
  rw [if_neg hc]
  simp only [not_or, Classical.not_not] at hc
  have hnw : q.stage ≠ .written := by rw [hc.2]; simp
  cases ok with
  | false => simpa using dinv_restage h q hnw [] (by simp) (q.port :: s.free)
  | true =>
    simp only [if_true]
    have hsub : (s.dead.filter (fun e => e.1 != q.id)).Sublist s.dead := List.filter_sublist
    have hmem : ∀ id, id ∈ (s.dead.filter (fun e => e.1 != q.id)).map (·.1) ↔ id ∈ s.deadIds ∧ id ≠ q.id := by
      intro id
      rw [map_filter_key (·.1) s.dead q.id, List.mem_filter]
      simp [State.deadIds]
    refine ⟨(hsub.map _).nodup h.deadNodup, h.invNodup, ?_, ?_, h.fresh, ?_⟩
    · intro id hid
      exact h.deadInv id ((hmem id).1 hid).1
    · intro id hid
      by_cases he : id = q.id
      · exact Or.inr ⟨{ q with stage := .written }, List.mem_cons_self, he.symm, rfl⟩
      · rcases h.invSrc id hid with h1 | ⟨q2, hq2, he2, hw2⟩
        · exact Or.inl ((hmem id).2 ⟨h1, he⟩)
        · exact Or.inr ⟨q2, List.mem_cons_of_mem _ (mem_erase_written hq2 hw2 hnw), he2, hw2⟩
    · intro q2 hq2 hw2 hc2
      have hc2 := (hmem q2.id).1 hc2
      rcases List.mem_cons.1 hq2 with rfl | h3
      · exact hc2.2 rfl
      · exact h.wdead q2 (List.mem_of_mem_erase h3) hw2 hc2.1

theorem dinv_addInsert {s : State} (h : DInv s) (q : Pending) : DInv (addInsert s q).1 := by
  unfold addInsert
  by_cases hc : q ∉ s.pending ∨ q.stage ≠ .written
  · rw [if_pos hc]; exact h
  rw [if_neg hc]
  simp only [not_or, Classical.not_not] at hc
  have hqd : q.id ∉ s.deadIds := h.wdead q hc.1 hc.2
  have hmem : ∀ id, id ∈ s.invalid.erase q.id ↔ id ∈ s.invalid ∧ id ≠ q.id := by
    intro id
    rw [h.invNodup.mem_erase_iff]
    exact And.comm
  refine ⟨h.deadNodup, h.invNodup.sublist List.erase_sublist, ?_, ?_, ?_, ?_⟩
  · intro id hid
    exact (hmem id).2 ⟨h.deadInv id hid, fun e => hqd (e ▸ hid)⟩
  · intro id hid
    obtain ⟨hid, hne⟩ := (hmem id).1 hid
    rcases h.invSrc id hid with h1 | ⟨q2, hq2, he2, hw2⟩
    · exact Or.inl h1
    · refine Or.inr ⟨q2, (List.mem_erase_of_ne ?_).2 hq2, he2, hw2⟩
      intro e; subst e; exact hne he2.symm
  · intro id hid hc2
    obtain ⟨hid, hne⟩ := (hmem id).1 hid
    have hc2 : id ∈ (regPut s.reg ⟨q.id, freshFields q.m q.o q.port⟩).map (·.id) := hc2
    unfold regPut at hc2
    rcases List.mem_cons.1 (by simpa using hc2 : id ∈ q.id :: (s.reg.filter (fun x => x.id != q.id)).map (·.id)) with rfl | h3
    · exact hne rfl
    · exact h.fresh id hid (((List.filter_sublist).map _).subset h3)
  · intro q2 hq2 hw2
    exact h.wdead q2 (List.mem_of_mem_erase hq2) hw2

theorem dinv_addSeq {s : State} (h : DInv s) (m : Meta) (o : Opts) (p : Nat) (gen : String) (e : Env) :
    DInv (addSeq s m o p gen e).1 := by
  unfold addSeq
  have h1 := dinv_addBegin h m o p gen e.stoFail
  generalize addBegin s m o p gen e.stoFail = r1 at h1
  obtain ⟨s1, res1⟩ := r1
  cases res1 with
  | error _ => exact h1
  | ok q1 =>
    dsimp only at h1 ⊢
    have h2 := dinv_addBuild h1 q1 (!e.buildFail)
    generalize addBuild s1 q1 (!e.buildFail) = r2 at h2
    obtain ⟨s2, res2⟩ := r2
    cases res2 with
    | error _ => exact h2
    | ok q2 =>
      dsimp only at h2 ⊢
      have h3 := dinv_addWrite h2 q2 (!e.writeFail)
      generalize addWrite s2 q2 (!e.writeFail) = r3 at h3
      obtain ⟨s3, res3⟩ := r3
      cases res3 with
      | error _ => exact h3
      | ok q3 =>
        dsimp only at h3 ⊢
        have h4 := dinv_addInsert h3 q3
        generalize addInsert s3 q3 = r4 at h4
        obtain ⟨s4, res4⟩ := r4
        cases res4 with
        | error _ => exact h4
        | ok q4 =>
          dsimp only at h4 ⊢
          split
          · exact h4
          · exact dinv_start h4 _

/-- A state without failed records, invalid ids and adds in flight. -/
theorem dinv_of_nil {s : State} (h1 : s.dead = []) (h2 : s.invalid = []) (h3 : s.pending = []) : DInv s := by
  refine ⟨?_, ?_, ?_, ?_, ?_, ?_⟩
  · rw [State.deadIds, h1]; exact List.nodup_nil
  · rw [h2]; exact List.nodup_nil
  · intro id hid; rw [State.deadIds, h1] at hid; cases hid
  · intro id hid; rw [h2] at hid; cases hid
  · intro id hid; rw [h2] at hid; cases hid
  · intro q hq; rw [h3] at hq; cases hq

theorem dinv_openOn (lo hi : Nat) (resume : Bool) (db : List (String × Fields)) : DInv (openOn lo hi resume db) := by
  obtain ⟨h1, h2, h3⟩ := openOn_dead lo hi resume db
  exact dinv_of_nil h1 h2 h3

theorem dinv_compactSwap {s : State} (h : DInv s) (resume : Bool) : DInv (compactSwap s resume) := by
  unfold compactSwap
  split
  · exact h
  · split
    · exact dinv_openOn _ _ _ _
    · exact h

theorem updateStats_dbIds (s : State) : (updateStats s).dbIds = s.dbIds := by
  unfold updateStats State.dbIds
  rw [List.map_map]
  apply List.map_congr_left
  intro e _
  dsimp only [Function.comp]
  split <;> rfl

/-- A restart in which the records `bad` fail to load (and every record that failed before fails again). -/
theorem dinv_reopen {s : State} (h : Inv s) (hd : DInv s) (resume : Bool) (bad : List String)
    (hb : ∀ e ∈ s.dead, e.1 ∈ bad) : DInv (reopen s resume bad) := by
  by_cases hp : s.pending ≠ []
  · unfold reopen; rw [if_pos hp]; exact hd
  have hp : s.pending = [] := Classical.not_not.1 hp
  have hre := reopen_eq hp resume bad hb
  have h2 := inv_updateStats h
  have hd2 := dinv_updateStats hd
  have hsub : ((updateStats s).db.filter (fun e => !bad.contains e.1)).Sublist (updateStats s).db := List.filter_sublist
  have hgn : (((updateStats s).db.filter (fun e => !bad.contains e.1)).map (·.1)).Nodup := (hsub.map _).nodup h2.dbIds_nodup
  obtain ⟨hreg, _, _, _⟩ := openOn_state s.lo s.hi resume _ hgn
  obtain ⟨_, _, hpend⟩ := openOn_dead s.lo s.hi resume ((updateStats s).db.filter (fun e => !bad.contains e.1))
  have hfn : ((((updateStats s).db ++ s.dead).filter (fun e => bad.contains e.1)).map (·.1)).Nodup :=
    ((List.filter_sublist).map _).nodup (bucket_nodup h2 hd2)
  rw [hre]
  refine ⟨hfn, hfn, fun _ hid => hid, fun _ hid => Or.inl hid, ?_, ?_⟩
  · intro id hid hc
    have hid : id ∈ (((updateStats s).db ++ s.dead).filter (fun e => bad.contains e.1)).map (·.1) := hid
    obtain ⟨e, he, rfl⟩ := List.mem_map.1 hid
    have hbe : bad.contains e.1 = true := (List.mem_filter.1 he).2
    have hc : e.1 ∈ (openOn s.lo s.hi resume ((updateStats s).db.filter (fun e => !bad.contains e.1))).reg.map (·.id) := hc
    rw [hreg] at hc
    obtain ⟨t', ht', he'⟩ := List.mem_map.1 hc
    obtain ⟨e2, he2, rfl⟩ := List.mem_map.1 (List.mem_reverse.1 ht')
    have := (List.mem_filter.1 he2).2
    simp only [loaded] at he'
    rw [he', hbe] at this
    cases this
  · intro q hq
    have hq : q ∈ (openOn s.lo s.hi resume ((updateStats s).db.filter (fun e => !bad.contains e.1))).pending := hq
    rw [hpend] at hq
    cases hq

/-- `CleanDatabase` while no add whose id is listed invalid is in flight. -/
theorem invalid_not_db {s : State} (h : Inv s) (hd : DInv s) (ht : ∀ q ∈ s.pending, q.id ∉ s.invalid) :
    ∀ id ∈ s.invalid, id ∉ s.dbIds := by
  intro id hid hc
  rcases h.dbId_src hc with h1 | ⟨q, hq, rfl, _⟩
  · exact hd.fresh id hid h1
  · exact ht q hq hid

theorem invalid_dead {s : State} (hd : DInv s) (ht : ∀ q ∈ s.pending, q.id ∉ s.invalid) :
    ∀ id ∈ s.invalid, id ∈ s.deadIds := by
  intro id hid
  rcases hd.invSrc id hid with h1 | ⟨q, hq, rfl, _⟩
  · exact h1
  · exact absurd hid (ht q hq)

theorem dead_filter_invalid {s : State} (hd : DInv s) : s.dead.filter (fun e => !s.invalid.contains e.1) = [] := by
  apply filter_eq_nil_of_all
  intro e he
  have : e.1 ∈ s.invalid := hd.deadInv e.1 (List.mem_map_of_mem (f := (·.1)) he)
  simpa using this

theorem dinv_clean {s : State} (hd : DInv s) : DInv (clean s).1 := by
  unfold clean
  split
  · dsimp only
    rw [dead_filter_invalid hd]
    refine ⟨List.nodup_nil, List.nodup_nil, ?_, ?_, ?_, ?_⟩
    · intro id hid; cases hid
    · intro id hid; cases hid
    · intro id hid; cases hid
    · intro q _ _ hc; cases hc
  · exact hd

/-- `CleanDatabase` in a state of a tame history, with no add under an invalid id in flight, succeeds,
deletes exactly the records that did not load and empties the invalid list; nothing else changes. -/
theorem clean_spec {s : State} (h : Inv s) (hd : DInv s) (ht : ∀ q ∈ s.pending, q.id ∉ s.invalid) :
    (clean s).2 = true ∧ (clean s).1.dead = [] ∧ (clean s).1.invalid = [] ∧ (clean s).1.db = s.db ∧
    (clean s).1.free = s.free ∧ (clean s).1.reg = s.reg ∧ (clean s).1.idx = s.idx ∧ (clean s).1.pending = s.pending := by
  have hall : s.invalid.all (fun id => s.dbIds.contains id || s.deadIds.contains id) = true := by
    rw [List.all_eq_true]
    intro id hid
    have : id ∈ s.deadIds := invalid_dead hd ht id hid
    simp [this]
  have hdb : s.db.filter (fun e => !s.invalid.contains e.1) = s.db := by
    apply List.filter_eq_self.2
    intro e he
    have : e.1 ∉ s.invalid := fun hc => invalid_not_db h hd ht e.1 hc (List.mem_map_of_mem (f := (·.1)) he)
    simpa using this
  unfold clean
  rw [if_pos hall]
  exact ⟨rfl, dead_filter_invalid hd, rfl, hdb, rfl, rfl, rfl, rfl⟩

theorem tame_clean {s : State} (ht : tame s .clean = true) : ∀ q ∈ s.pending, q.id ∉ s.invalid := by
  intro q hq
  have := List.all_eq_true.1 ht q hq
  simpa using this

/-! ### The invariant along tame histories -/

/-- `Inv` and `DInv` together. -/
def Good (s : State) : Prop := Inv s ∧ DInv s

theorem init_good (lo hi : Nat) : Good (init lo hi) := ⟨init_inv lo hi, init_dinv lo hi⟩

theorem good_step {s : State} (h : Good s) {op : Op} (ht : tame s op = true) : Good (step s op) := by
  obtain ⟨h, hd⟩ := h
  cases op with
  | add m o p gen e => exact ⟨inv_addSeq h m o p gen e, dinv_addSeq hd m o p gen e⟩
  | abegin m o p gen sf => exact ⟨inv_addBegin h m o p gen sf, dinv_addBegin hd m o p gen sf⟩
  | abuild q ok => exact ⟨inv_addBuild h q ok, dinv_addBuild hd q ok⟩
  | awrite q ok => exact ⟨inv_addWrite h q ok, dinv_addWrite hd q ok⟩
  | ainsert q => exact ⟨inv_addInsert h q, dinv_addInsert hd q⟩
  | remove id => exact ⟨inv_remove h id, dinv_remove hd id⟩
  | start id => exact ⟨inv_start h id, dinv_start hd id⟩
  | stop id => exact ⟨inv_stop h id, dinv_stop hd id⟩
  | addTracker id uri => exact ⟨inv_addTracker h id uri, dinv_addTracker hd id uri⟩
  | bump id d => exact ⟨inv_bump h id d, dinv_bump hd id d⟩
  | updateStats => exact ⟨inv_updateStats h, dinv_updateStats hd⟩
  | reopen r bad =>
    have hb : ∀ e ∈ s.dead, e.1 ∈ bad := by
      intro e he
      have := List.all_eq_true.1 ht e he
      simpa using this
    exact ⟨inv_reopen h r bad hb, dinv_reopen h hd r bad hb⟩
  | compactSwap r => exact ⟨inv_compactSwap h r, dinv_compactSwap hd r⟩
  | clean => exact ⟨inv_clean h (invalid_not_db h hd (tame_clean ht)), dinv_clean hd⟩
  | tamper id ih => exact ⟨inv_tamper h id ih, dinv_tamper hd id ih⟩

theorem good_run : ∀ (ops : List Op) {s : State}, Good s → tameRun s ops = true → Good (run s ops)
  | [], _, h, _ => h
  | op :: ops, s, h, ht => by
    unfold run
    rw [List.foldl_cons]
    simp only [tameRun, Bool.and_eq_true] at ht
    exact good_run ops (good_step h ht.1) ht.2

theorem tameRun_append : ∀ {a b : List Op} {s : State}, tameRun s (a ++ b) = true →
    tameRun s a = true ∧ tameRun (run s a) b = true
  | [], _, _, h => ⟨rfl, h⟩
  | op :: a, b, s, h => by
    simp only [List.cons_append, tameRun, Bool.and_eq_true] at h
    obtain ⟨h1, h2⟩ := tameRun_append (a := a) h.2
    refine ⟨by simp [tameRun, h.1, h1], ?_⟩
    unfold run
    rw [List.foldl_cons]
    exact h2

/-- When port conservation holds no port of the range is neither free nor owned. -/
theorem lostPorts_nil_of_conservation {o : Obs} (h : portConservation o = true) : lostPorts o = [] := by
  unfold portConservation at h
  rw [List.isPerm_iff] at h
  unfold lostPorts
  apply filter_eq_nil_of_all
  intro p hp
  have := (h.mem_iff).2 hp
  rcases List.mem_append.1 this with h1 | h1
  · simp [h1]
  · have h2 : (o.live.map (·.f.port)).contains p = true := List.contains_iff_mem.2 h1
    show (!o.free.contains p && !(o.live.map (·.f.port)).contains p) = false
    rw [h2]; simp

/-- Histories without restarts-with-failures and explicit ids are tame whatever else they do; in
particular every history of the machine before records could fail to load. -/
theorem tame_of_no_dead {s : State} {op : Op} (hd : s.dead = []) (hi : s.invalid = []) : tame s op = true := by
  cases op <;> simp [tame, hd, hi]

end Rain.Registry
