import RainModel.Lemmas.RegistryRestart
/-!
Records that are read but do not load: preservation of `DInv` (and with it of `Inv`) along every
`tame` history — every step of an add incl. its failures, interleavings, removes, restarts in which
records fail to load, `CleanDatabase`, compaction.
-/
namespace Rain.Registry
open List

/-- A step that leaves the failed records alone and introduces no id. -/
theorem dinv_same {s s' : State} (h : DInv s) (hd : s'.dead = s.dead) (hi : s'.invalid = s.invalid)
    (hr : ∀ id ∈ s'.regIds, id ∈ s.regIds ∨ id ∈ s.pendIds)
    (hp : ∀ id ∈ s'.pendIds, id ∈ s.regIds ∨ id ∈ s.pendIds) : DInv s' := by
  refine ⟨?_, ?_, ?_⟩
  · rw [hi, h.inv]; simp [State.deadIds, hd]
  · intro id hid
    rw [hi] at hid
    obtain ⟨h1, h2⟩ := h.fresh id hid
    exact ⟨fun hc => (hr id hc).elim h1 h2, fun hc => (hp id hc).elim h1 h2⟩
  · simpa [State.deadIds, hd] using h.nodup

theorem regModify_ids (reg : List Torrent) (id : String) (g : Fields → Fields) :
    (regModify reg id g).map (·.id) = reg.map (·.id) := regModify_map _ _ _ _ (fun _ => rfl)

theorem dinv_start {s : State} (h : DInv s) (id : String) : DInv (start s id) := by
  unfold start
  split
  · exact dinv_same h rfl rfl (fun i hi => Or.inl (by simpa [State.regIds, regModify_ids] using hi)) (fun i hi => Or.inr hi)
  · exact h

theorem dinv_stop {s : State} (h : DInv s) (id : String) : DInv (stop s id) := by
  unfold stop
  split
  · exact dinv_same h rfl rfl (fun i hi => Or.inl (by simpa [State.regIds, regModify_ids] using hi)) (fun i hi => Or.inr hi)
  · exact h

theorem dinv_addTracker {s : State} (h : DInv s) (id uri : String) : DInv (addTracker s id uri) := by
  unfold addTracker
  split
  · exact dinv_same h rfl rfl (fun i hi => Or.inl (by simpa [State.regIds, regModify_ids] using hi)) (fun i hi => Or.inr hi)
  · exact h

theorem dinv_bump {s : State} (h : DInv s) (id : String) (d : Counters) : DInv (bump s id d) :=
  dinv_same h rfl rfl (fun i hi => Or.inl (by simpa [bump, State.regIds, regModify_ids] using hi)) (fun i hi => Or.inr hi)

theorem dinv_updateStats {s : State} (h : DInv s) : DInv (updateStats s) :=
  dinv_same h rfl rfl (fun _ hi => Or.inl hi) (fun _ hi => Or.inr hi)

theorem dinv_remove {s : State} (h : DInv s) (id : String) : DInv (remove s id) := by
  unfold remove
  split
  · exact h
  · refine dinv_same h rfl rfl (fun i hi => Or.inl ?_) (fun i hi => Or.inr hi)
    exact ((List.filter_sublist).map _).subset hi

theorem dinv_tamper {s : State} (h : DInv s) (id ih : String) : DInv (tamper s id ih) := by
  have hk : (tamper s id ih).deadIds = s.deadIds := by
    unfold tamper State.deadIds
    dsimp only
    exact dbModify_keys _ _ _
  refine ⟨?_, h.fresh, ?_⟩
  · rw [hk]; exact h.inv
  · rw [hk]; exact h.nodup

theorem dinv_release {s : State} (h : DInv s) (f : List Nat) : DInv { s with free := f } :=
  dinv_same h rfl rfl (fun _ hi => Or.inl hi) (fun _ hi => Or.inr hi)

/-- A new add in flight whose id is not an invalid one. -/
theorem dinv_reserve {s : State} (h : DInv s) (f : List Nat) (q : Pending) (hq : q.id ∉ s.invalid) :
    DInv { s with free := f, pending := q :: s.pending } := by
  refine ⟨h.inv, ?_, h.nodup⟩
  intro id hid
  obtain ⟨h1, h2⟩ := h.fresh id hid
  refine ⟨h1, ?_⟩
  intro hc
  rcases List.mem_cons.1 (show id ∈ q.id :: s.pendIds from hc) with rfl | hc
  · exact hq hid
  · exact h2 hc

theorem dinv_addBegin {s : State} (h : DInv s) (m : Meta) (o : Opts) (p : Nat) (gen : String) (sf : Bool)
    (ho : ∀ id, o.id = some id → id ∉ s.invalid) : DInv (addBegin s m o p gen sf).1 := by
  unfold addBegin addBeginWith
  by_cases h0 : s.free = []
  · rw [if_pos h0]; exact h
  rw [if_neg h0]
  by_cases hp : p ∉ s.free
  · rw [if_pos hp]; exact h
  rw [if_neg hp]
  dsimp only
  cases hid : o.id with
  | some gid =>
    dsimp only
    split
    · exact dinv_release h _
    split
    · exact dinv_release h _
    · exact dinv_reserve h _ _ (ho gid hid)
  | none =>
    dsimp only
    by_cases hfresh : gen ∈ State.regIds { s with free := s.free.erase p } ∨
        gen ∈ State.pendIds { s with free := s.free.erase p } ∨ gen ∈ State.dbIds { s with free := s.free.erase p } ∨
        gen ∈ State.deadIds { s with free := s.free.erase p }
    · rw [if_pos hfresh]; exact h
    rw [if_neg hfresh]
    split
    · exact dinv_release h _
    · refine dinv_reserve h _ _ ?_
      simp only [not_or] at hfresh
      rw [h.inv]
      exact hfresh.2.2.2

theorem pendIds_erase_sub {s : State} (q : Pending) : ∀ id ∈ (s.pending.erase q).map (·.id), id ∈ s.pendIds :=
  fun _ hi => ((List.erase_sublist).map _).subset hi

theorem dinv_addBuild {s : State} (h : DInv s) (q : Pending) (ok : Bool) : DInv (addBuild s q ok).1 := by
  unfold addBuild
  by_cases hc : q ∉ s.pending ∨ q.stage ≠ .reserved
  · rw [if_pos hc]; exact h
  rw [if_neg hc]
  simp only [not_or, Classical.not_not] at hc
  cases ok with
  | true =>
    refine dinv_same h rfl rfl (fun _ hi => Or.inl hi) (fun i hi => Or.inr ?_)
    rcases List.mem_cons.1 (show i ∈ q.id :: (s.pending.erase q).map (·.id) from hi) with rfl | hi
    · exact mem_pendIds hc.1
    · exact pendIds_erase_sub q i hi
  | false =>
    exact dinv_same h rfl rfl (fun _ hi => Or.inl hi) (fun i hi => Or.inr (pendIds_erase_sub q i hi))

theorem dinv_addWrite {s : State} (h : DInv s) (q : Pending) (ok : Bool) : DInv (addWrite s q ok).1 := by
  unfold addWrite
  by_cases hc : q ∉ s.pending ∨ q.stage ≠ .built
  · rw [if_pos hc]; exact h
  rw [if_neg hc]
  simp only [not_or, Classical.not_not] at hc
  cases ok with
  | true =>
    have hnd : q.id ∉ s.dead.map (·.1) := by
      intro hcc
      have : q.id ∈ s.invalid := by rw [h.inv]; exact hcc
      exact (h.fresh _ this).2 (mem_pendIds hc.1)
    have hf : s.dead.filter (fun e => e.1 != q.id) = s.dead := filter_ne_of_notMem (·.1) s.dead q.id hnd
    simp only [if_true]
    rw [hf]
    refine dinv_same h rfl rfl (fun _ hi => Or.inl hi) (fun i hi => Or.inr ?_)
    rcases List.mem_cons.1 (show i ∈ q.id :: (s.pending.erase q).map (·.id) from hi) with rfl | hi
    · exact mem_pendIds hc.1
    · exact pendIds_erase_sub q i hi
  | false =>
    exact dinv_same h rfl rfl (fun _ hi => Or.inl hi) (fun i hi => Or.inr (pendIds_erase_sub q i hi))

theorem dinv_addInsert {s : State} (h : DInv s) (q : Pending) : DInv (addInsert s q).1 := by
  unfold addInsert
  by_cases hc : q ∉ s.pending ∨ q.stage ≠ .written
  · rw [if_pos hc]; exact h
  rw [if_neg hc]
  simp only [not_or, Classical.not_not] at hc
  refine dinv_same h rfl rfl (fun i hi => ?_) (fun i hi => Or.inr (pendIds_erase_sub q i hi))
  have hi : i ∈ (regPut s.reg ⟨q.id, freshFields q.m q.o q.port⟩).map (·.id) := hi
  unfold regPut at hi
  rcases List.mem_cons.1 (by simpa using hi : i ∈ q.id :: (s.reg.filter (fun x => x.id != q.id)).map (·.id)) with rfl | hi
  · exact Or.inr (mem_pendIds hc.1)
  · exact Or.inl (((List.filter_sublist).map _).subset hi)

theorem dinv_addSeq {s : State} (h : DInv s) (m : Meta) (o : Opts) (p : Nat) (gen : String) (e : Env)
    (ho : ∀ id, o.id = some id → id ∉ s.invalid) : DInv (addSeq s m o p gen e).1 := by
  unfold addSeq
  have h1 := dinv_addBegin h m o p gen e.stoFail ho
  generalize addBegin s m o p gen e.stoFail = r1 at h1
  obtain ⟨s1, res1⟩ := r1
  cases res1 with
  | error _ => exact h1
  | ok q1 =>
    dsimp only at h1 ⊢
    have h2 := dinv_addBuild h1 q1 (!e.buildFail)
    generalize addBuild s1 q1 (!e.buildFail) = r2 at h2
    obtain ⟨s2, res2⟩ := r2
    cases res2 with
    | error _ => exact h2
    | ok q2 =>
      dsimp only at h2 ⊢
      have h3 := dinv_addWrite h2 q2 (!e.writeFail)
      generalize addWrite s2 q2 (!e.writeFail) = r3 at h3
      obtain ⟨s3, res3⟩ := r3
      cases res3 with
      | error _ => exact h3
      | ok q3 =>
        dsimp only at h3 ⊢
        have h4 := dinv_addInsert h3 q3
        generalize addInsert s3 q3 = r4 at h4
        obtain ⟨s4, res4⟩ := r4
        cases res4 with
        | error _ => exact h4
        | ok q4 =>
          dsimp only at h4 ⊢
          split
          · exact h4
          · exact dinv_start h4 _

theorem dinv_openOn (lo hi : Nat) (resume : Bool) (db : List (String × Fields)) : DInv (openOn lo hi resume db) := by
  obtain ⟨h1, h2, _⟩ := openOn_dead lo hi resume db
  refine ⟨?_, ?_, ?_⟩
  · rw [h2, State.deadIds, h1]; rfl
  · intro id hid; rw [h2] at hid; cases hid
  · rw [State.deadIds, h1]; exact List.nodup_nil

theorem dinv_compactSwap {s : State} (h : DInv s) (resume : Bool) : DInv (compactSwap s resume) := by
  unfold compactSwap
  split
  · exact h
  · split
    · exact dinv_openOn _ _ _ _
    · exact h

theorem updateStats_dbIds (s : State) : (updateStats s).dbIds = s.dbIds := by
  unfold updateStats State.dbIds
  rw [List.map_map]
  apply List.map_congr_left
  intro e _
  dsimp only [Function.comp]
  split <;> rfl

/-- A restart in which the records `bad` fail to load (and every record that failed before fails again). -/
theorem dinv_reopen {s : State} (h : Inv s) (hd : DInv s) (resume : Bool) (bad : List String)
    (hb : ∀ e ∈ s.dead, e.1 ∈ bad) : DInv (reopen s resume bad) := by
  by_cases hp : s.pending ≠ []
  · unfold reopen; rw [if_pos hp]; exact hd
  have hp : s.pending = [] := Classical.not_not.1 hp
  have hre := reopen_eq hp resume bad hb
  have h2 := inv_updateStats h
  have hd2 := dinv_updateStats hd
  have hsub : ((updateStats s).db.filter (fun e => !bad.contains e.1)).Sublist (updateStats s).db := List.filter_sublist
  have hgn : (((updateStats s).db.filter (fun e => !bad.contains e.1)).map (·.1)).Nodup := (hsub.map _).nodup h2.dbIds_nodup
  obtain ⟨hreg, _, _, _⟩ := openOn_state s.lo s.hi resume _ hgn
  obtain ⟨_, _, hpend⟩ := openOn_dead s.lo s.hi resume ((updateStats s).db.filter (fun e => !bad.contains e.1))
  rw [hre]
  refine ⟨rfl, ?_, ?_⟩
  · intro id hid
    have hid : id ∈ (((updateStats s).db ++ s.dead).filter (fun e => bad.contains e.1)).map (·.1) := hid
    obtain ⟨e, he, rfl⟩ := List.mem_map.1 hid
    have hbe : bad.contains e.1 = true := (List.mem_filter.1 he).2
    refine ⟨?_, ?_⟩
    · intro hc
      have hc : e.1 ∈ (openOn s.lo s.hi resume ((updateStats s).db.filter (fun e => !bad.contains e.1))).reg.map (·.id) := hc
      rw [hreg] at hc
      obtain ⟨t', ht', he'⟩ := List.mem_map.1 hc
      obtain ⟨e2, he2, rfl⟩ := List.mem_map.1 (List.mem_reverse.1 ht')
      have := (List.mem_filter.1 he2).2
      simp only [loaded] at he'
      rw [he', hbe] at this
      cases this
    · intro hc
      have hc : e.1 ∈ (openOn s.lo s.hi resume ((updateStats s).db.filter (fun e => !bad.contains e.1))).pending.map (·.id) := hc
      rw [hpend] at hc
      cases hc
  · show ((((updateStats s).db ++ s.dead).filter (fun e => bad.contains e.1)).map (·.1)).Nodup
    exact ((List.filter_sublist).map _).nodup (bucket_nodup h2 hd2)

theorem dinv_clean {s : State} (hd : DInv s) : DInv (clean s).1 := by
  unfold clean
  split
  · have : s.dead.filter (fun e => !s.invalid.contains e.1) = [] := by
      apply filter_eq_nil_of_all
      intro e he
      have : e.1 ∈ s.invalid := by rw [hd.inv]; exact List.mem_map_of_mem (f := (·.1)) he
      simpa using this
    dsimp only
    rw [this]
    refine ⟨rfl, ?_, List.nodup_nil⟩
    intro id hid; cases hid
  · exact hd

/-- `CleanDatabase` in a state of a tame history succeeds, deletes exactly the records that did not
load and empties the invalid list; nothing else changes. -/
theorem clean_spec {s : State} (h : Inv s) (hd : DInv s) :
    (clean s).2 = true ∧ (clean s).1.dead = [] ∧ (clean s).1.invalid = [] ∧ (clean s).1.db = s.db ∧
    (clean s).1.free = s.free ∧ (clean s).1.reg = s.reg ∧ (clean s).1.idx = s.idx ∧ (clean s).1.pending = s.pending := by
  have hall : s.invalid.all (fun id => s.dbIds.contains id || s.deadIds.contains id) = true := by
    rw [List.all_eq_true]
    intro id hid
    have : id ∈ s.deadIds := by rw [← hd.inv]; exact hid
    simp [this]
  have hdead : s.dead.filter (fun e => !s.invalid.contains e.1) = [] := by
    apply filter_eq_nil_of_all
    intro e he
    have : e.1 ∈ s.invalid := by rw [hd.inv]; exact List.mem_map_of_mem (f := (·.1)) he
    simpa using this
  have hdb : s.db.filter (fun e => !s.invalid.contains e.1) = s.db := by
    apply List.filter_eq_self.2
    intro e he
    have : e.1 ∉ s.invalid := fun hc => hd.not_db h hc (List.mem_map_of_mem (f := (·.1)) he)
    simpa using this
  unfold clean
  rw [if_pos hall]
  exact ⟨rfl, hdead, rfl, hdb, rfl, rfl, rfl, rfl⟩

/-! ### The invariant along tame histories -/

/-- `Inv` and `DInv` together. -/
def Good (s : State) : Prop := Inv s ∧ DInv s

theorem init_good (lo hi : Nat) : Good (init lo hi) := ⟨init_inv lo hi, init_dinv lo hi⟩

theorem tame_add {s : State} {o : Opts} (h : (match o.id with
    | some id => !s.invalid.contains id
    | none => true) = true) : ∀ id, o.id = some id → id ∉ s.invalid := by
  intro id hid
  rw [hid] at h
  simpa using h

theorem good_step {s : State} (h : Good s) {op : Op} (ht : tame s op = true) : Good (step s op) := by
  obtain ⟨h, hd⟩ := h
  cases op with
  | add m o p gen e => exact ⟨inv_addSeq h m o p gen e, dinv_addSeq hd m o p gen e (tame_add ht)⟩
  | abegin m o p gen sf => exact ⟨inv_addBegin h m o p gen sf, dinv_addBegin hd m o p gen sf (tame_add ht)⟩
  | abuild q ok => exact ⟨inv_addBuild h q ok, dinv_addBuild hd q ok⟩
  | awrite q ok => exact ⟨inv_addWrite h q ok, dinv_addWrite hd q ok⟩
  | ainsert q => exact ⟨inv_addInsert h q, dinv_addInsert hd q⟩
  | remove id => exact ⟨inv_remove h id, dinv_remove hd id⟩
  | start id => exact ⟨inv_start h id, dinv_start hd id⟩
  | stop id => exact ⟨inv_stop h id, dinv_stop hd id⟩
  | addTracker id uri => exact ⟨inv_addTracker h id uri, dinv_addTracker hd id uri⟩
  | bump id d => exact ⟨inv_bump h id d, dinv_bump hd id d⟩
  | updateStats => exact ⟨inv_updateStats h, dinv_updateStats hd⟩
  | reopen r bad =>
    have hb : ∀ e ∈ s.dead, e.1 ∈ bad := by
      intro e he
      have := List.all_eq_true.1 ht e he
      simpa using this
    exact ⟨inv_reopen h r bad hb, dinv_reopen h hd r bad hb⟩
  | compactSwap r => exact ⟨inv_compactSwap h r, dinv_compactSwap hd r⟩
  | clean => exact ⟨inv_clean h (fun id hid => hd.not_db h hid), dinv_clean hd⟩
  | tamper id ih => exact ⟨inv_tamper h id ih, dinv_tamper hd id ih⟩

theorem good_run : ∀ (ops : List Op) {s : State}, Good s → tameRun s ops = true → Good (run s ops)
  | [], _, h, _ => h
  | op :: ops, s, h, ht => by
    unfold run
    rw [List.foldl_cons]
    simp only [tameRun, Bool.and_eq_true] at ht
    exact good_run ops (good_step h ht.1) ht.2

theorem tameRun_append : ∀ {a b : List Op} {s : State}, tameRun s (a ++ b) = true →
    tameRun s a = true ∧ tameRun (run s a) b = true
  | [], _, _, h => ⟨rfl, h⟩
  | op :: a, b, s, h => by
    simp only [List.cons_append, tameRun, Bool.and_eq_true] at h
    obtain ⟨h1, h2⟩ := tameRun_append (a := a) h.2
    refine ⟨by simp [tameRun, h.1, h1], ?_⟩
    unfold run
    rw [List.foldl_cons]
    exact h2

/-- When port conservation holds no port of the range is neither free nor owned. -/
theorem lostPorts_nil_of_conservation {o : Obs} (h : portConservation o = true) : lostPorts o = [] := by
  unfold portConservation at h
  rw [List.isPerm_iff] at h
  unfold lostPorts
  apply filter_eq_nil_of_all
  intro p hp
  have := (h.mem_iff).2 hp
  rcases List.mem_append.1 this with h1 | h1
  · simp [h1]
  · have h2 : (o.live.map (·.f.port)).contains p = true := List.contains_iff_mem.2 h1
    show (!o.free.contains p && !(o.live.map (·.f.port)).contains p) = false
    rw [h2]; simp

/-- Histories without restarts-with-failures and explicit ids are tame whatever else they do; in
particular every history of the machine before records could fail to load. -/
theorem tame_of_no_dead {s : State} {op : Op} (hd : s.dead = []) (hi : s.invalid = []) : tame s op = true := by
  cases op <;> simp [tame, hd, hi] <;> (split <;> rfl)

end Rain.Registry
