import RainModel.Model.CachedPiece
import RainModel.Lemmas.Cache
/-!
Helper lemmas for M-CP: key injectivity, slice algebra, one `readBlock`, the `ReadAt` loop.
-/
namespace Rain.CachedPiece
open Rain.Cache

theorem be32_inj (a b : Nat) (ha : a < 4294967296) (hb : b < 4294967296) (h : be32 a = be32 b) : a = b := by
  simp only [be32, List.cons.injEq, and_true] at h
  omega

theorem be32_length (a : Nat) : (be32 a).length = 4 := rfl

/-- The cache key determines torrent, piece and cache block. -/
theorem mkKey_inj (p p' : Bytes) (i i' b b' : Nat) (hp : p.length = 20) (hp' : p'.length = 20)
    (hi : i < 4294967296) (hi' : i' < 4294967296) (hb : b < 4294967296) (hb' : b' < 4294967296)
    (h : mkKey p i b = mkKey p' i' b') : p = p' ∧ i = i' ∧ b = b' := by
  unfold mkKey at h
  have h1 := List.append_inj h (by simp [be32_length, hp, hp'])
  have h2 := List.append_inj h1.1 (by rw [hp, hp'])
  exact ⟨h2.1, be32_inj _ _ hi hi' h2.2, be32_inj _ _ hb hb' h1.2⟩

theorem slice_length (d : Bytes) (off n : Nat) : (slice d off n).length = min n (d.length - off) := by
  simp [slice]

theorem slice_sub (d : Bytes) (b len x w : Nat) :
    ((slice d b len).drop x).take w = slice d (b + x) (min w (len - x)) := by
  simp only [slice, List.drop_take, List.drop_drop, List.take_take]

theorem slice_append (d : Bytes) (off m n : Nat) :
    slice d off m ++ slice d (off + m) n = slice d off (m + n) := by
  simp only [slice]
  rw [List.take_add, List.drop_drop]

/-- Block arithmetic: `off` lies in `[blkBegin, blkEnd)`. -/
theorem blk_bounds (L rs off : Nat) (hrs : 0 < rs) (hoff : off < L) :
    off / rs * rs ≤ off ∧ off < blkEndOf L rs (off / rs * rs) ∧ blkEndOf L rs (off / rs * rs) ≤ L ∧
    blkEndOf L rs (off / rs * rs) ≤ off / rs * rs + rs := by
  have h1 : off / rs * rs ≤ off := Nat.div_mul_le_self off rs
  have h2 : off < off / rs * rs + rs := by
    have := Nat.lt_div_mul_add (a := off) hrs
    omega
  unfold blkEndOf
  split <;> omega

/-- What one `readBlock` does from an invariant, coherent cache. -/
structure BlockSpec (w : World) (rs : Nat) (rd : Reader) (data : Bytes) (c : Cache Bytes) (want off : Nat)
    (c' : Cache Bytes) (r : BlkRes) : Prop where
  inv : Inv c'
  coh : Coherent w rs c'
  maxSize : c'.maxSize = c.maxSize
  res : (∃ m, 0 < m ∧ m ≤ want ∧ off + m ≤ data.length ∧ r = .ok (slice data off m)) ∨
        (r = .err ∧ ∃ o l, o + l ≤ data.length ∧ rd o l = .err)

theorem readBlock_spec (w : World) (rs : Nat) (hrs : 0 < rs) (pid : Bytes) (hpid : pid.length = 20)
    (idx : Nat) (hidx : idx < 4294967296) (hL : (w pid idx).length < 4294967296)
    (rd : Reader) (hrd : ExactReader (w pid idx) rd)
    (c : Cache Bytes) (hinv : Inv c) (hcoh : Coherent w rs c)
    (want off : Nat) (hwant : 0 < want) (hoff : off < (w pid idx).length) :
    let cp : CP := { peerID := pid, index := idx, length := (w pid idx).length, readSize := rs }
    BlockSpec w rs rd (w pid idx) c want off (readBlock cp rd c want off).1 (readBlock cp rd c want off).2 := by
  intro cp
  obtain ⟨hb1, hb2, hb3, hb4⟩ := blk_bounds (w pid idx).length rs off hrs hoff
  have hblk : off / rs < 4294967296 := by
    have : off / rs ≤ off := Nat.div_le_self off rs
    omega
  unfold readBlock
  have hrs0 : ¬ cp.readSize = 0 := by simp [cp]; omega
  have hoff0 : ¬ off ≥ cp.length := by simp [cp]; omega
  simp only [hrs0, hoff0, if_false]
  simp only [cp]
  have hs := get_spec c hinv (mkKey pid idx (off / rs))
    (rd (off / rs * rs) (blkEndOf (w pid idx).length rs (off / rs * rs) - off / rs * rs))
  -- coherence after the get
  have hcoh' : Coherent w rs (get c (mkKey pid idx (off / rs))
      (rd (off / rs * rs) (blkEndOf (w pid idx).length rs (off / rs * rs) - off / rs * rs))).1 := by
    intro j hj p' i' b' hp' hi' hb' hkey
    rcases hs.items j hj with ⟨j0, hj0, e1, e2⟩ | ⟨e1, e2, _⟩
    · rw [← e2]; exact hcoh j0 hj0 p' i' b' hp' hi' hb' (e1.trans hkey)
    · have := hrd _ _ _ e2
      obtain ⟨q1, q2, q3⟩ := mkKey_inj _ _ _ _ _ _ hpid hp' hidx hi' hblk hb' (e1.symm.trans hkey)
      subst q1 q2 q3
      rw [this]; rfl
  -- the buffer handed back is the block's bytes
  have hbuf : ∀ v hit, (get c (mkKey pid idx (off / rs))
      (rd (off / rs * rs) (blkEndOf (w pid idx).length rs (off / rs * rs) - off / rs * rs))).2 = .value v hit →
      v = slice (w pid idx) (off / rs * rs) (blkEndOf (w pid idx).length rs (off / rs * rs) - off / rs * rs) := by
    intro v hit hv
    cases hit with
    | true =>
      obtain ⟨_, j, hj, e1, e2⟩ := hs.hit v hv
      rw [← e2]
      exact hcoh j hj pid idx (off / rs) hpid hidx hblk e1
    | false =>
      exact hrd _ _ _ (hs.miss v hv).2
  generalize hg : get c (mkKey pid idx (off / rs))
      (rd (off / rs * rs) (blkEndOf (w pid idx).length rs (off / rs * rs) - off / rs * rs)) = g at hs hcoh' hbuf
  obtain ⟨c', gr⟩ := g
  cases gr with
  | panic => exact absurd rfl hs.no_panic
  | error =>
    refine ⟨hs.inv, hcoh', hs.maxSize, Or.inr ⟨rfl, _, _, ?_, (hs.error rfl).2⟩⟩
    omega
  | value v hit =>
    have hv := hbuf v hit rfl
    have hlen : v.length = blkEndOf (w pid idx).length rs (off / rs * rs) - off / rs * rs := by
      rw [hv, slice_length]; omega
    have hnot : ¬ off - off / rs * rs ≥ v.length := by omega
    simp only [hnot, if_false]
    refine ⟨hs.inv, hcoh', hs.maxSize, Or.inl ⟨min want (blkEndOf (w pid idx).length rs (off / rs * rs) - off), ?_, ?_, ?_, ?_⟩⟩
    · omega
    · omega
    · omega
    · rw [hv, slice_sub]
      congr 2
      · omega
      · omega

/-- The `ReadAt` loop from an invariant, coherent cache: all `want` bytes, or a disk error. -/
theorem readAtLoop_spec (w : World) (rs : Nat) (hrs : 0 < rs) (pid : Bytes) (hpid : pid.length = 20)
    (idx : Nat) (hidx : idx < 4294967296) (hL : (w pid idx).length < 4294967296)
    (rd : Reader) (hrd : ExactReader (w pid idx) rd) :
    let cp : CP := { peerID := pid, index := idx, length := (w pid idx).length, readSize := rs }
    ∀ (fuel : Nat) (c : Cache Bytes) (want off : Nat) (acc : Bytes), Inv c → Coherent w rs c →
      off + want ≤ (w pid idx).length → want < fuel →
      Inv (readAtLoop cp rd fuel c want off acc).1 ∧ Coherent w rs (readAtLoop cp rd fuel c want off acc).1 ∧
      (readAtLoop cp rd fuel c want off acc).1.maxSize = c.maxSize ∧
      ((readAtLoop cp rd fuel c want off acc).2 = .ok (acc ++ slice (w pid idx) off want) ∨
       (∃ bs, (readAtLoop cp rd fuel c want off acc).2 = .err bs ∧
          ∃ o l, o + l ≤ (w pid idx).length ∧ rd o l = .err)) := by
  intro cp fuel
  induction fuel with
  | zero => intro c want off acc _ _ _ hf; omega
  | succ f ih =>
    intro c want off acc hinv hcoh hrange hf
    unfold readAtLoop
    by_cases hw : want = 0
    · subst hw
      simp only [if_true]
      exact ⟨hinv, hcoh, trivial, Or.inl (by simp [slice])⟩
    · simp only [hw, if_false]
      have hb := readBlock_spec w rs hrs pid hpid idx hidx hL rd hrd c hinv hcoh want off (by omega) (by omega)
      simp only at hb
      generalize hg : readBlock cp rd c want off = g at hb
      obtain ⟨c', br⟩ := g
      rcases hb.res with ⟨m, hm0, hmw, hml, hr⟩ | ⟨hr, herr⟩
      · simp only at hr
        subst hr
        simp only
        have hlen : (slice (w pid idx) off m).length = m := by rw [slice_length]; omega
        rw [hlen]
        obtain ⟨i1, i2, i3, i4⟩ := ih c' (want - m) (off + m) (acc ++ slice (w pid idx) off m) hb.inv hb.coh
          (by omega) (by omega)
        refine ⟨i1, i2, i3.trans hb.maxSize, ?_⟩
        rcases i4 with h | h
        · left
          rw [h, List.append_assoc, slice_append]
          congr 3; omega
        · right; exact h
      · simp only at hr
        subst hr
        exact ⟨hb.inv, hb.coh, hb.maxSize, Or.inr ⟨acc, rfl, herr⟩⟩

theorem dataReader_exact (data : Bytes) : ExactReader data (dataReader data) := by
  intro off len v h
  unfold dataReader at h
  split at h
  · cases h; rfl
  · cases h

theorem dataReader_total (data : Bytes) (o l : Nat) (h : o + l ≤ data.length) : dataReader data o l ≠ .err := by
  simp [dataReader, h]

theorem coherent_of_sub {w : World} {rs : Nat} {c c' : Cache Bytes} (hs : Sub c c') (h : Coherent w rs c) :
    Coherent w rs c' := by
  intro j hj p i b hp hi hb hk
  obtain ⟨j0, hj0, e1, e2⟩ := hs j hj
  rw [← e2]; exact h j0 hj0 p i b hp hi hb (e1.trans hk)

theorem coherent_new (w : World) (rs : Nat) (maxSize : Int) (ttl : Nat) : Coherent w rs (new maxSize ttl) := by
  intro j hj; cases hj

/-- One event of a session history keeps the cache invariant and coherent, and a valid read
returns exactly the requested bytes. -/
theorem wstep_spec (w : World) (rs : Nat) (hrs : 0 < rs) (c : Cache Bytes) (hinv : Inv c) (hcoh : Coherent w rs c)
    (o : WOp) (hv : o.Valid w) :
    Inv (wstep w rs c o).1 ∧ Coherent w rs (wstep w rs c o).1 ∧ (wstep w rs c o).1.maxSize = c.maxSize ∧
    (match o with
     | .read pid idx off n => (wstep w rs c o).2 = some (.ok (slice (w pid idx) off n))
     | _ => (wstep w rs c o).2 = none) := by
  cases o with
  | read pid idx off n =>
    obtain ⟨h1, h2, h3, h4⟩ := hv
    have := readAtLoop_spec w rs hrs pid h1 idx h2 h3 (dataReader (w pid idx)) (dataReader_exact _)
      (n + 1) c n off [] hinv hcoh h4 (by omega)
    obtain ⟨i1, i2, i3, i4⟩ := this
    simp only [wstep, readAt]
    refine ⟨i1, i2, i3, ?_⟩
    rcases i4 with h | ⟨bs, _, o, l, hol, herr⟩
    · simpa using h
    · exact absurd herr (dataReader_total _ o l hol)
  | fire k =>
    obtain ⟨h1, h2, _, h4⟩ := fire_spec c hinv k
    exact ⟨h1, coherent_of_sub h4 hcoh, h2, rfl⟩
  | advance d =>
    obtain ⟨h1, h2, _, h4⟩ := advance_spec c hinv d
    exact ⟨h1, coherent_of_sub h4 hcoh, h2, rfl⟩
  | clear =>
    exact ⟨clear_inv c, fun j hj => by simp [wstep, clear] at hj, rfl, rfl⟩

theorem wrun_spec (w : World) (rs : Nat) (hrs : 0 < rs) (ops : List WOp) :
    ∀ (c : Cache Bytes), Inv c → Coherent w rs c → (∀ o ∈ ops, o.Valid w) → wrun w rs c ops = wexpected w ops := by
  induction ops with
  | nil => intro c _ _ _; rfl
  | cons o r ih =>
    intro c hinv hcoh hv
    obtain ⟨h1, h2, _, h4⟩ := wstep_spec w rs hrs c hinv hcoh o (hv o List.mem_cons_self)
    have hr := ih (wstep w rs c o).1 h1 h2 (fun o' ho' => hv o' (List.mem_cons_of_mem _ ho'))
    unfold wrun
    cases o with
    | read pid idx off n =>
      simp only at h4
      generalize hg : wstep w rs c (.read pid idx off n) = g at h4 hr
      obtain ⟨c', x⟩ := g
      simp only at h4 hr
      subst h4
      simp only [wexpected, hr]
    | fire k =>
      simp only at h4
      generalize hg : wstep w rs c (.fire k) = g at h4 hr
      obtain ⟨c', x⟩ := g
      simp only at h4 hr
      subst h4
      simp only [wexpected, hr]
    | advance d =>
      simp only at h4
      generalize hg : wstep w rs c (.advance d) = g at h4 hr
      obtain ⟨c', x⟩ := g
      simp only at h4 hr
      subst h4
      simp only [wexpected, hr]
    | clear =>
      simp only at h4
      generalize hg : wstep w rs c .clear = g at h4 hr
      obtain ⟨c', x⟩ := g
      simp only at h4 hr
      subst h4
      simp only [wexpected, hr]

end Rain.CachedPiece
