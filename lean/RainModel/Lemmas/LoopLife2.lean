import RainModel.Lemmas.LoopLife
/-!
`Life` (continued): verification, piece writes, workers, `handle`, `step`, reconciliation.
-/
namespace Rain.Loop

/-! ### verification -/

theorem handleVerificationDone_life (m : M) (h : Life m.1) (hv : m.1.verifier = true) :
    Life (handleVerificationDone m).1 := by
  have hl := h.ver hv
  have hr := h.running_of_ver hv
  have hinfo : m.1.info = true := by
    cases hi : m.1.info
    · have := (h.ni hi).2.1; rw [hv] at this; cases this
    · rfl
  have h0 : LoadedRun (hvdInstall m).1 := by
    refine ⟨hr.congr (by simp) (by simp), by simpa using hinfo, by simpa using hl,
      (h.fe hl).congr (by simp) (by simp), by simpa using h.leaked⟩
  rw [handleVerificationDone_eq]
  dsimp only
  split
  · simp only [onSt_fst]
    exact LoadedRun.stop (by lrun_frame h0) _
  · apply hadCheck_life
    lrun_frame h0

/-! ### piece writes -/

/-- With the metadata known, `bf` and `completed` may change freely (running torrent). -/
theorem Life.congrRI {s s' : St} (h : Life s) (hr : Running s) (hinfo : s.info = true)
    (h1 : s'.errC = s.errC) (h2 : s'.stopAnn = s.stopAnn) (h3 : s'.allocator = s.allocator)
    (h4 : s'.verifier = s.verifier) (h5 : s'.loaded = s.loaded) (h6 : s'.leaked = s.leaked)
    (h7 : s'.info = s.info) (h10 : s'.fileExists = s.fileExists) (h11 : s'.cfg = s.cfg) : Life s' := by
  obtain ⟨he, hs⟩ := hr
  refine ⟨?_, ?_, ?_, ?_, ?_, ?_, ?_⟩
  · rw [h1, h2]; exact h.sa
  · rw [h1, h2, he, hs]; intro hh; simp at hh
  · rw [h6]; exact h.leaked
  · rw [h5]; intro hl; exact (h.fe hl).congr h10 h11
  · rw [h1, h2, h3, h5, h7]; exact h.run
  · rw [h7, hinfo]; intro hh; cases hh
  · rw [h4, h5]; exact h.ver

macro "life_frameRI" h:term "," hr:term "," hi:term : tactic =>
  `(tactic| (apply Life.congrRI $h $hr $hi <;> first | rfl | (simp; done)))

theorem checkCompletion_life (s : St) (h : Life s) (hr : Running s) (hi : s.info = true) :
    Life s.checkCompletion.1 := by life_frameRI h, hr, hi

theorem pwdFinish_life (m : M) (h : Life m.1) (hr : Running m.1) (hi : m.1.info = true) :
    Life (pwdFinish m).1 := by
  have h1 := checkCompletion_life m.1 h hr hi
  have hr1 : Running m.1.checkCompletion.1 := hr.congr (by simp) (by simp)
  have hni : m.1.checkCompletion.1.info = false → m.1.checkCompletion.1.completed = false ∧ m.1.checkCompletion.1.bf = none := by
    intro hh; simp [hi] at hh
  unfold pwdFinish
  dsimp only
  repeat' split
  · simp only [onSt_fst]
    exact stop_life' _ _ (hr1.congr (by simp) (by simp)) (by simpa using h.leaked) (by simpa using hni)
  · simp only [onSt_fst]
    exact h1.congrR hr1 (by lframe)
  · exact h1

/-- `handlePieceWriteDone` on a running torrent. -/
theorem handlePieceWriteDone_life_running (m : M) (w : WriteJob) (e : Bool) (h : Life m.1) (hr : Running m.1) :
    Life (handlePieceWriteDone m w e).1 := by
  rw [handlePieceWriteDone_eq]
  have h0 : Life (pwdReset m w).1 := h.congrR hr (by lframe)
  have hr0 : Running (pwdReset m w).1 := hr.congr (by simp) (by simp)
  dsimp only
  split
  · exact h0.congrR hr0 (by lframe)
  split
  · exact h0
  · split
    · simp only [onSt_fst]
      exact stop_life' _ _ hr0 (by simpa using h.leaked)
        (fun hi => ⟨by simpa using (h.ni (by simpa using hi)).2.2.2.1, by simpa using (h.ni (by simpa using hi)).2.2.2.2⟩)
    · have h1 : Life (pwdDone (pwdReset m w) w).1 := h0.congrR hr0 (by lframe)
      have hr1 : Running (pwdDone (pwdReset m w) w).1 := hr0.congr (by simp) (by simp)
      split
      · simp only [onSt_fst]; exact h1.congrR hr1 (by lframe)
      · next b hb =>
        have hinfo : (pwdDone (pwdReset m w) w).1.info = true := by
          cases hi : (pwdDone (pwdReset m w) w).1.info
          · have := (h1.ni hi).2.2.2.2; rw [hb] at this; cases this
          · rfl
        unfold pwdOk
        apply pwdFinish_life
        · life_frameRI h1, hr1, hinfo
        · exact hr1.congr (by simp) (by simp)
        · simpa using hinfo

/-! #### a write that completes after the torrent was stopped -/

theorem closePeer_of_nil (s : St) (k : Nat) (h : s.peers = []) : s.closePeer k = s := by
  unfold St.closePeer
  simp [St.findPeer, h]

theorem closeDl_of_nil (s : St) (k : Nat) (h : s.dls = []) : s.closeDl k = s := by
  unfold St.closeDl
  simp [St.findDl, h]

theorem stop_of_not_running (s : St) (e : Bool) (h : s.stopAnn = true → s.errC = true)
    (hq : s.errC = false ∨ s.stopAnn = true) : s.stop e = s := by
  rw [stop_eq]
  have : s.status = .stopping ∨ s.status = .stopped := by
    rcases hq with hq | hq
    · exact Or.inr ((status_stopped_iff s).2 hq)
    · exact Or.inl ((status_stopping_iff s).2 ⟨h hq, hq⟩)
  rw [if_pos this]

/-- With the metadata known, `bf` and `completed` may change freely (any torrent). -/
theorem Life.congrI {s s' : St} (h : Life s) (hinfo : s.info = true)
    (h1 : s'.errC = s.errC) (h2 : s'.stopAnn = s.stopAnn) (h3 : s'.allocator = s.allocator)
    (h4 : s'.verifier = s.verifier) (h5 : s'.loaded = s.loaded) (h6 : s'.leaked = s.leaked)
    (h7 : s'.info = s.info) (h10 : s'.fileExists = s.fileExists) (h11 : s'.cfg = s.cfg)
    (h12 : s'.acceptor = s.acceptor) (h13 : s'.openFiles = s.openFiles) (h14 : s'.peers = s.peers)
    (h15 : s'.dls = s.dls) (h16 : s'.idls = s.idls) : Life s' := by
  refine ⟨?_, ?_, ?_, ?_, ?_, ?_, ?_⟩
  · rw [h1, h2]; exact h.sa
  · rw [h1, h2, h3, h4, h5, h12, h13, h14, h15, h16]; exact h.idle
  · rw [h6]; exact h.leaked
  · rw [h5]; intro hl; exact (h.fe hl).congr h10 h11
  · rw [h1, h2, h3, h5, h7]; exact h.run
  · rw [h7, hinfo]; intro hh; cases hh
  · rw [h4, h5]; exact h.ver

/-- Not running and nobody connected. -/
structure Quiet (s : St) : Prop where
  nr : s.errC = false ∨ s.stopAnn = true
  peers : s.peers = []
  dls : s.dls = []

theorem Life.quiet {s : St} (h : Life s) (hq : s.errC = false ∨ s.stopAnn = true) : Quiet s :=
  ⟨hq, (h.idle hq).2.2.2.2.2.1, (h.idle hq).2.2.2.2.2.2.1⟩

theorem checkCompletion_quiet (s : St) (hp : s.peers = []) (hd : s.dls = []) :
    s.checkCompletion.1.peers = [] ∧ s.checkCompletion.1.dls = [] ∧ s.checkCompletion.1.idls = s.idls ∧
    s.checkCompletion.1.stopAnn = s.stopAnn ∧ s.checkCompletion.1.errC = s.errC := by
  refine ⟨?_, ?_, ?_, by simp, by simp⟩
  all_goals
    unfold St.checkCompletion
    repeat' split
    all_goals simp [hp, hd, St.crash]
    all_goals (split <;> simp [hp, hd])

theorem pwdOthers_of_nil (m : M) (w : WriteJob) (hd : m.1.dls = []) : pwdOthers m w = m := by
  unfold pwdOthers
  simp [hd]

theorem pwdHaves_of_nil (m : M) (w : WriteJob) (hp : m.1.peers = []) : pwdHaves m w = m := by
  unfold pwdHaves
  simp [hp]

theorem pwdFinish_life_quiet (m : M) (h : Life m.1) (hi : m.1.info = true) (hq : Quiet m.1) :
    Life (pwdFinish m).1 := by
  obtain ⟨c1, c2, c3, c4, c5⟩ := checkCompletion_quiet m.1 hq.peers hq.dls
  have h1 : Life m.1.checkCompletion.1 := by
    apply h.congrI hi <;> first | (simp; done) | simp [c1, c2, c3, hq.peers, hq.dls]
  have hsa : ∀ s : St, s.stopAnn = m.1.stopAnn → s.errC = m.1.errC → (s.stopAnn = true → s.errC = true) := by
    intro s a b; rw [a, b]; exact h.sa
  unfold pwdFinish
  dsimp only
  repeat' split
  · simp only [onSt_fst]
    rw [stop_of_not_running _ _ (hsa _ (by simp) (by simp)) (by simpa using hq.nr)]
    exact h1.congr (by lframe)
  · simp only [onSt_fst]
    exact h1.congr (by lframe)
  · exact h1

/-- `handlePieceWriteDone` on a stopped or stopping torrent (a write that was in flight): nothing is loaded, the
result is stale and ignored (fix C04-F9). -/
theorem handlePieceWriteDone_life_quiet (m : M) (w : WriteJob) (e : Bool) (h : Life m.1)
    (hnr : m.1.errC = false ∨ m.1.stopAnn = true) : Life (handlePieceWriteDone m w e).1 := by
  have hq := h.quiet hnr
  rw [handlePieceWriteDone_eq]
  have h0 : Life (pwdReset m w).1 := h.congr (by lframe)
  have hq0 : Quiet (pwdReset m w).1 := ⟨by simpa using hnr, by simpa using hq.peers, by simpa using hq.dls⟩
  have hl0 : (pwdReset m w).1.loaded = false := by simpa using (h.idle hnr).2.2.1
  dsimp only
  split
  · unfold pwdBan
    dsimp only
    simp only [onSt_fst, closePeerM_fst]
    rw [closePeer_of_nil _ _ hq0.peers]
    exact h0.congr (by lframe)
  · split
    · exact h0
    · next hst => rw [hl0] at hst; simp at hst

theorem handlePieceWriteDone_life (m : M) (w : WriteJob) (e : Bool) (h : Life m.1) :
    Life (handlePieceWriteDone m w e).1 := by
  by_cases hr : Running m.1
  · exact handlePieceWriteDone_life_running m w e h hr
  · apply handlePieceWriteDone_life_quiet m w e h
    unfold Running at hr
    cases he : m.1.errC <;> cases hs : m.1.stopAnn <;> simp_all

theorem writerRun_life (m : M) (w : WriteJob) (h : Life m.1) : Life (writerRun m w).1 := by
  unfold writerRun
  dsimp only
  repeat' split
  all_goals first
    | exact handlePieceWriteDone_life _ _ _ h
    | exact handlePieceWriteDone_life _ _ _ (h.congr (by lframe))
    | exact h.congr (by lframe)

/-! ### workers, handle, step -/

theorem Life.running_of_peer' {s : St} (h : Life s) {k : Nat} (hk : ¬(s.findPeer k).isNone = true) : Running s :=
  h.running_of_peer (k := k) (by cases hf : s.findPeer k <;> simp_all)

theorem runWorkers_life (fuel : Nat) (m : M) (h : Life m.1) : Life (runWorkers fuel m).1 := by
  induction fuel generalizing m with
  | zero => exact h
  | succ n ih =>
    unfold runWorkers
    dsimp only
    split
    · exact h
    · split
      · next hs =>
        simp only [Bool.and_eq_true] at hs
        exact ih _ (handleStopped_life m h hs.1)
      · split
        · next ha =>
          simp only [Bool.and_eq_true] at ha
          exact ih _ (allocatorRun_life m h ha.1)
        · split
          · next hv =>
            simp only [Bool.and_eq_true] at hv
            exact ih _ (handleVerificationDone_life m h hv.1)
          · repeat' split
            all_goals first
              | exact h
              | exact ih _ (handlePieceWriteDone_life m _ _ h)
              | exact ih _ (writerRun_life m _ h)

theorem mutate_life (s : St) (f : Option Nat) (how : Mut) (h : Life s) (he : s.errC = false) :
    Life (mutate s f how) := by
  obtain ⟨i1, i2, i3, i4, i5, i6, i7, i8⟩ := h.idle (Or.inl he)
  refine ⟨?_, ?_, ?_, ?_, ?_, ?_, ?_⟩
  · simpa using h.sa
  · simpa using h.idle
  · simpa using h.leaked
  · intro hl; simp [i3] at hl
  · simpa using h.run
  · simpa using h.ni
  · simpa using h.ver

/-- The stop command (fix C04-F6): the pending verification request is withdrawn, then `stop`. -/
theorem stopCmd_life (s : St) (h : Life s) : Life (({ s with doVerify := false }).stop false) :=
  stop_life _ false (h.congr (by lframe))

theorem handle_life (s : St) (p : Parked) (kn : Nat → Bool) (op : Op) (h : Life s) :
    Life (handle s p kn op).1.1 := by
  unfold handle
  split
  · exact start_life (s, []) h
  · simp only [onSt_fst]; exact (stopCmd_life s h).congr (by lframe)
  · simp only [onSt_fst]; exact stopCmd_life s h
  · simp only [onSt_fst]
    exact (handleVerifyCommand_life ({ s with persisted := none }, []) (h.congr (by lframe))).congr (by lframe)
  · exact handleVerifyCommand_life ({ s with persisted := none }, []) (h.congr (by lframe))
  · exact h
  · exact h
  · exact h.congr (by lframe)
  · exact h.congr (by lframe)
  · split <;> exact h.congr (by lframe)
  · split
    · exact h
    · next hg =>
      simp only [Bool.or_eq_true, not_or, Bool.not_eq_true] at hg
      exact mutate_life s _ _ h hg.2
  · split
    · exact h
    · split
      · exact h
      · next ha =>
        have hr := h.running_of_acceptor (by simpa using ha)
        split
        next heq =>
        have hm := congrArg Prod.fst heq
        simp only at hm
        rw [← hm]
        exact acceptPeer_life (s, []) _ _ _ _ _ _ h hr
  · split
    · exact h
    · next hk =>
      have hr := h.running_of_peer' hk
      repeat' split
      all_goals first
        | exact h
        | exact handlePieceMessage_life (s, []) _ _ _ _ _ h hr
  · split
    · exact h
    · next hk => exact handlePeerMessage_life (s, []) _ _ h (h.running_of_peer' hk)
  · split
    · exact h
    · next hk => exact handleExtHandshake_life (s, []) _ _ _ _ h (h.running_of_peer' hk)
  · split
    · exact h
    · next hk => exact handleMetadataData_life (s, []) _ _ _ _ h (h.running_of_peer' hk)
  · split
    · exact h
    · next hk => exact handleMetadataReject_life (s, []) _ h (h.running_of_peer' hk)
  · repeat' split
    all_goals exact h
  · split
    · exact h
    · exact handlePex_life (s, []) _ _ h
  · exact handleDhtPeers_life (s, []) _ h
  · split
    · exact h
    · next hk => exact closePeer_life s _ h (h.running_of_peer' hk)
  · split
    · exact h
    · next hk => exact handlePeerSnubbed_life (s, []) _ h (h.running_of_peer' hk)

theorem deliverParked_life (m : M) (p : Parked) (h : Life m.1) : Life (deliverParked m p).1.1 := by
  unfold deliverParked
  split
  · split
    · split
      · next hk => exact runWorkers_life _ _ (handlePieceMessage_life _ _ _ _ _ _ h (h.running_of_peer hk))
      · exact h
    · exact h
  · exact h

/-- **The lifecycle invariant is preserved by every event.** -/
theorem step_life (s : St) (p : Parked) (kn : Nat → Bool) (op : Op) (h : Life s) :
    Life (step s p kn op).1.st := by
  unfold step
  have h0 : Life { s with sto := [], mayStart := [], closedDl := [], mayStartI := false } := h.congr (by lframe)
  have h1 := runWorkers_life 12 _ (handle_life _ p kn op h0)
  dsimp only
  split
  · exact deliverParked_life _ _ h1
  · exact h1

/-! ### the implementation's choices -/

theorem foldl_snd_ne_nil {α β γ} (f : β × List γ → α → β × List γ)
    (hf : ∀ acc a, acc.2 ≠ [] → (f acc a).2 ≠ []) (l : List α) (acc : β × List γ) (h : acc.2 ≠ []) :
    (l.foldl f acc).2 ≠ [] := by
  induction l generalizing acc with
  | nil => exact h
  | cons a l ih => exact ih _ (hf acc a h)

/-- Outside the downloading status an error-free reconciliation means the implementation runs no download. -/
theorem reconcile_not_downloading (s : St) (impl : List ImplDl) (hs : s.status ≠ .downloading) (hd : s.dls = [])
    (he : (reconcile s impl).2 = []) : impl = [] := by
  cases impl with
  | nil => rfl
  | cons a l =>
    exfalso
    unfold reconcile at he
    rw [List.append_eq_nil_iff] at he
    have h2 := he.2
    simp only [List.foldl_cons, hd, List.find?_nil] at h2
    revert h2
    apply foldl_snd_ne_nil
    · intro acc x h
      repeat' split
      all_goals simp_all
    · simp [admissibleStart, hs]

theorem reconcile_life (s : St) (impl : List ImplDl) (h : Life s) (he : (reconcile s impl).2 = []) :
    Life (reconcile s impl).1 := by
  by_cases hr : Running s
  · exact h.congrR hr (by lframe)
  · have hnr : s.errC = false ∨ s.stopAnn = true := by
      unfold Running at hr
      cases he : s.errC <;> cases hs : s.stopAnn <;> simp_all
    obtain ⟨i1, i2, i3, i4, i5, i6, i7, i8⟩ := h.idle hnr
    have hst : s.status ≠ .downloading := by
      unfold St.status
      rcases hnr with h' | h'
      · simp [h']
      · cases s.errC <;> simp [h']
    have := reconcile_not_downloading s impl hst i7 he
    subst this
    apply h.congr
    constructor <;> first | rfl | (simp; done) | simp [reconcile, i6, i7]

theorem reconcileIdl_life (s : St) (impl : List Nat) (h : Life s) : Life (reconcileIdl s impl).1 := by
  by_cases hr : Running s
  · exact h.congrR hr (by lframe)
  · have hnr : s.errC = false ∨ s.stopAnn = true := by
      unfold Running at hr
      cases he : s.errC <;> cases hs : s.stopAnn <;> simp_all
    obtain ⟨i1, i2, i3, i4, i5, i6, i7, i8⟩ := h.idle hnr
    have hidls : (reconcileIdl s impl).1.idls = [] := by
      unfold reconcileIdl
      dsimp only
      apply foldl_inv (fun acc : List IDl × List String => acc.1 = [])
      · intro acc k hacc
        simp [i8, St.findPeer, i6, hacc]
      · rfl
    apply h.congr
    constructor <;> first | rfl | (simp; done) | exact hidls.trans i8.symm

/-- The implementation's choice of piece downloads after event `e` was accepted by `reconcile`
(otherwise the driver reports a C09 violation and the run is not a run of the model). -/
def Ev.admissible (sp : St × Parked) (e : Ev) : Prop :=
  (reconcile (step sp.1 sp.2 e.known e.op).1.st e.impl).2 = []

/-- Every choice along the run was admissible. -/
def drunAdmissible : St × Parked → List Ev → Prop
  | _, [] => True
  | sp, e :: evs => e.admissible sp ∧ drunAdmissible (dstep sp e) evs

theorem dstep_life (sp : St × Parked) (e : Ev) (h : Life sp.1) (ha : e.admissible sp) : Life (dstep sp e).1 := by
  unfold dstep
  exact reconcileIdl_life _ _ (reconcile_life _ _ (step_life sp.1 sp.2 e.known e.op h) ha)

theorem drun_life (evs : List Ev) (sp : St × Parked) (h : Life sp.1) (ha : drunAdmissible sp evs) :
    Life (drun sp evs).1 := by
  induction evs generalizing sp with
  | nil => exact h
  | cons e evs ih => exact ih _ (dstep_life sp e h ha.1) ha.2

/-- Stopped means clean: nothing connected, nothing running, no handle open. -/
theorem Life.stopped_clean {s : St} (h : Life s) (hs : s.status = .stopped) :
    s.peers = [] ∧ s.dls = [] ∧ s.idls = [] ∧ s.openFiles = [] ∧ s.leaked = 0 ∧
    s.allocator = false ∧ s.verifier = false ∧ s.acceptor = false := by
  obtain ⟨i1, i2, i3, i4, i5, i6, i7, i8⟩ := h.idle (Or.inl ((status_stopped_iff s).1 hs))
  exact ⟨i6, i7, i8, i5, h.leaked, i1, i2, i4⟩

/-- Downloading or seeding means the pieces are loaded and every file is there. -/
theorem Life.files_of_running {s : St} (h : Life s)
    (hs : s.status = .downloading ∨ s.status = .seeding) : s.loaded = true ∧ FilesExist s ∧ s.info = true := by
  have key : s.errC = true ∧ s.stopAnn = false ∧ s.allocator = false ∧ (s.info = true ∨ s.completed = true) := by
    unfold St.status at hs
    rcases hs with hs | hs
    all_goals
      repeat' split at hs
      all_goals first | (cases hs; done) | simp_all
  obtain ⟨he, hsa, hal, hic⟩ := key
  have hinfo : s.info = true := by
    rcases hic with hi | hc
    · exact hi
    · cases hi : s.info
      · have := (h.ni hi).2.2.2.1; rw [hc] at this; cases this
      · rfl
  have hl := h.run he hsa hal hinfo
  exact ⟨hl, h.fe hl, hinfo⟩

end Rain.Loop
