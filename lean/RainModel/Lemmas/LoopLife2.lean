import RainModel.Lemmas.LoopLife
/-!
`Life` (continued): verification, piece writes, workers, `handle`, `step`, reconciliation.
-/
namespace Rain.Loop

/-! ### verification -/

theorem handleVerificationDone_life (m : M) (h : Life m.1) (hv : m.1.verifier = true) :
    Life (handleVerificationDone m).1 := by
  have hl := h.ver hv
  have hr := h.running_of_ver hv
  have hinfo : m.1.info = true := by
    cases hi : m.1.info
    · have := (h.ni hi).2.1; rw [hv] at this; cases this
    · rfl
  have h0 : LoadedRun (hvdInstall m).1 := by
    refine ⟨hr.congr (by simp) (by simp), by simpa using hinfo, by simpa using hl,
      (h.fe hl).congr (by simp) (by simp), by simpa using h.leaked⟩
  rw [handleVerificationDone_eq]
  dsimp only
  split
  · simp only [onSt_fst]
    exact LoadedRun.stop (by lrun_frame h0) _
  · apply hadCheck_life
    lrun_frame h0

/-! ### piece writes -/

/-- With the metadata known, `bf` and `completed` may change freely (running torrent). -/
theorem Life.congrRI {s s' : St} (h : Life s) (hr : Running s) (hinfo : s.info = true)
    (h1 : s'.errC = s.errC) (h2 : s'.stopAnn = s.stopAnn) (h3 : s'.allocator = s.allocator)
    (h4 : s'.verifier = s.verifier) (h5 : s'.loaded = s.loaded) (h6 : s'.leaked = s.leaked)
    (h7 : s'.info = s.info) (h10 : s'.fileExists = s.fileExists) (h11 : s'.cfg = s.cfg) : Life s' := by
  obtain ⟨he, hs⟩ := hr
  refine ⟨?_, ?_, ?_, ?_, ?_, ?_, ?_⟩
  · rw [h1, h2]; exact h.sa
  · rw [h1, h2, he, hs]; intro hh; simp at hh
  · rw [h6]; exact h.leaked
  · rw [h5]; intro hl; exact (h.fe hl).congr h10 h11
  · rw [h1, h2, h3, h5, h7]; exact h.run
  · rw [h7, hinfo]; intro hh; cases hh
  · rw [h4, h5]; exact h.ver

macro "life_frameRI" h:term "," hr:term "," hi:term : tactic =>
  `(tactic| (apply Life.congrRI $h $hr $hi <;> first | rfl | (simp; done)))

theorem checkCompletion_life (s : St) (h : Life s) (hr : Running s) (hi : s.info = true) :
    Life s.checkCompletion.1 := by life_frameRI h, hr, hi

theorem pwdFinish_life (m : M) (h : Life m.1) (hr : Running m.1) (hi : m.1.info = true) :
    Life (pwdFinish m).1 := by
  have h1 := checkCompletion_life m.1 h hr hi
  have hr1 : Running m.1.checkCompletion.1 := hr.congr (by simp) (by simp)
  have hni : m.1.checkCompletion.1.info = false → m.1.checkCompletion.1.completed = false ∧ m.1.checkCompletion.1.bf = none := by
    intro hh; simp [hi] at hh
  unfold pwdFinish
  dsimp only
  repeat' split
  · simp only [onSt_fst]
    exact stop_life' _ _ (hr1.congr (by simp) (by simp)) (by simpa using h.leaked) (by simpa using hni)
  · simp only [onSt_fst]
    exact h1.congrR hr1 (by lframe)
  · exact h1

/-- `handlePieceWriteDone` on a running torrent. -/
theorem handlePieceWriteDone_life_running (m : M) (w : WriteJob) (e : Bool) (h : Life m.1) (hr : Running m.1) :
    Life (handlePieceWriteDone m w e).1 := by
  rw [handlePieceWriteDone_eq]
  have h0 : Life (pwdReset m w).1 := h.congrR hr (by lframe)
  have hr0 : Running (pwdReset m w).1 := hr.congr (by simp) (by simp)
  dsimp only
  split
  · exact h0.congrR hr0 (by lframe)
  · split
    · simp only [onSt_fst]
      exact stop_life' _ _ hr0 (by simpa using h.leaked)
        (fun hi => ⟨by simpa using (h.ni (by simpa using hi)).2.2.2.1, by simpa using (h.ni (by simpa using hi)).2.2.2.2⟩)
    · have h1 : Life (pwdDone (pwdReset m w) w).1 := h0.congrR hr0 (by lframe)
      have hr1 : Running (pwdDone (pwdReset m w) w).1 := hr0.congr (by simp) (by simp)
      split
      · simp only [onSt_fst]; exact h1.congrR hr1 (by lframe)
      · next b hb =>
        have hinfo : (pwdDone (pwdReset m w) w).1.info = true := by
          cases hi : (pwdDone (pwdReset m w) w).1.info
          · have := (h1.ni hi).2.2.2.2; rw [hb] at this; cases this
          · rfl
        unfold pwdOk
        apply pwdFinish_life
        · life_frameRI h1, hr1, hinfo
        · exact hr1.congr (by simp) (by simp)
        · simpa using hinfo

/-! #### a write that completes after the torrent was stopped -/

theorem closePeer_of_nil (s : St) (k : Nat) (h : s.peers = []) : s.closePeer k = s := by
  unfold St.closePeer
  simp [St.findPeer, h]

theorem closeDl_of_nil (s : St) (k : Nat) (h : s.dls = []) : s.closeDl k = s := by
  unfold St.closeDl
  simp [St.findDl, h]

theorem stop_of_not_running (s : St) (e : Bool) (h : s.stopAnn = true → s.errC = true)
    (hq : s.errC = false ∨ s.stopAnn = true) : s.stop e = s := by
  rw [stop_eq]
  have : s.status = .stopping ∨ s.status = .stopped := by
    rcases hq with hq | hq
    · exact Or.inr ((status_stopped_iff s).2 hq)
    · exact Or.inl ((status_stopping_iff s).2 ⟨h hq, hq⟩)
  rw [if_pos this]

/-- With the metadata known, `bf` and `completed` may change freely (any torrent). -/
theorem Life.congrI {s s' : St} (h : Life s) (hinfo : s.info = true)
    (h1 : s'.errC = s.errC) (h2 : s'.stopAnn = s.stopAnn) (h3 : s'.allocator = s.allocator)
    (h4 : s'.verifier = s.verifier) (h5 : s'.loaded = s.loaded) (h6 : s'.leaked = s.leaked)
    (h7 : s'.info = s.info) (h10 : s'.fileExists = s.fileExists) (h11 : s'.cfg = s.cfg)
    (h12 : s'.acceptor = s.acceptor) (h13 : s'.openFiles = s.openFiles) (h14 : s'.peers = s.peers)
    (h15 : s'.dls = s.dls) (h16 : s'.idls = s.idls) : Life s' := by
  refine ⟨?_, ?_, ?_, ?_, ?_, ?_, ?_⟩
  · rw [h1, h2]; exact h.sa
  · rw [h1, h2, h3, h4, h5, h12, h13, h14, h15, h16]; exact h.idle
  · rw [h6]; exact h.leaked
  · rw [h5]; intro hl; exact (h.fe hl).congr h10 h11
  · rw [h1, h2, h3, h5, h7]; exact h.run
  · rw [h7, hinfo]; intro hh; cases hh
  · rw [h4, h5]; exact h.ver

/-- Not running and nobody connected. -/
structure Quiet (s : St) : Prop where
  nr : s.errC = false ∨ s.stopAnn = true
  peers : s.peers = []
  dls : s.dls = []

theorem Life.quiet {s : St} (h : Life s) (hq : s.errC = false ∨ s.stopAnn = true) : Quiet s :=
  ⟨hq, (h.idle hq).2.2.2.2.2.1, (h.idle hq).2.2.2.2.2.2.1⟩

theorem checkCompletion_quiet (s : St) (hp : s.peers = []) (hd : s.dls = []) :
    s.checkCompletion.1.peers = [] ∧ s.checkCompletion.1.dls = [] ∧ s.checkCompletion.1.idls = s.idls ∧
    s.checkCompletion.1.stopAnn = s.stopAnn ∧ s.checkCompletion.1.errC = s.errC := by
  refine ⟨?_, ?_, ?_, by simp, by simp⟩
  all_goals
    unfold St.checkCompletion
    repeat' split
    all_goals simp [hp, hd, St.crash]
    all_goals (split <;> simp [hp, hd])

theorem pwdOthers_of_nil (m : M) (w : WriteJob) (hd : m.1.dls = []) : pwdOthers m w = m := by
  unfold pwdOthers
  simp [hd]

theorem pwdHaves_of_nil (m : M) (w : WriteJob) (hp : m.1.peers = []) : pwdHaves m w = m := by
  unfold pwdHaves
  simp [hp]

theorem pwdFinish_life_quiet (m : M) (h : Life m.1) (hi : m.1.info = true) (hq : Quiet m.1) :
    Life (pwdFinish m).1 := by
  obtain ⟨c1, c2, c3, c4, c5⟩ := checkCompletion_quiet m.1 hq.peers hq.dls
  have h1 : Life m.1.checkCompletion.1 := by
    apply h.congrI hi <;> first | (simp; done) | simp [c1, c2, c3, hq.peers, hq.dls]
  have hsa : ∀ s : St, s.stopAnn = m.1.stopAnn → s.errC = m.1.errC → (s.stopAnn = true → s.errC = true) := by
    intro s a b; rw [a, b]; exact h.sa
  unfold pwdFinish
  dsimp only
  repeat' split
  · simp only [onSt_fst]
    rw [stop_of_not_running _ _ (hsa _ (by simp) (by simp)) (by simpa using hq.nr)]
    exact h1.congr (by lframe)
  · simp only [onSt_fst]
    exact h1.congr (by lframe)
  · exact h1

/-- `handlePieceWriteDone` on a stopped or stopping torrent (a write that was in flight). -/
theorem handlePieceWriteDone_life_quiet (m : M) (w : WriteJob) (e : Bool) (h : Life m.1)
    (hnr : m.1.errC = false ∨ m.1.stopAnn = true) : Life (handlePieceWriteDone m w e).1 := by
  have hq := h.quiet hnr
  rw [handlePieceWriteDone_eq]
  have h0 : Life (pwdReset m w).1 := h.congr (by lframe)
  have hq0 : Quiet (pwdReset m w).1 := ⟨by simpa using hnr, by simpa using hq.peers, by simpa using hq.dls⟩
  dsimp only
  split
  · unfold pwdBan
    dsimp only
    simp only [onSt_fst, closePeerM_fst]
    rw [closePeer_of_nil _ _ hq0.peers]
    exact h0.congr (by lframe)
  · split
    · simp only [onSt_fst]
      rw [stop_of_not_running _ _ h0.sa hq0.nr]
      exact h0
    · have h1 : Life (pwdDone (pwdReset m w) w).1 := h0.congr (by lframe)
      have hq1 : Quiet (pwdDone (pwdReset m w) w).1 :=
        ⟨by simpa using hnr, by simpa using hq.peers, by simpa using hq.dls⟩
      split
      · simp only [onSt_fst]; exact h1.congr (by lframe)
      · next b hb =>
        have hinfo : (pwdDone (pwdReset m w) w).1.info = true := by
          cases hi : (pwdDone (pwdReset m w) w).1.info
          · have := (h1.ni hi).2.2.2.2; rw [hb] at this; cases this
          · rfl
        unfold pwdOk
        have h2 : Life (pwdSet (pwdDone (pwdReset m w) w) w b).1 := by
          apply h1.congrI hinfo <;> first | rfl | (simp; done)
        have hq2 : Quiet (pwdSet (pwdDone (pwdReset m w) w) w b).1 :=
          ⟨by simpa using hnr, by simpa using hq.peers, by simpa using hq.dls⟩
        rw [pwdOthers_of_nil _ _ hq2.dls, pwdHaves_of_nil _ _ hq2.peers]
        exact pwdFinish_life_quiet _ h2 (by simpa using hinfo) hq2

theorem handlePieceWriteDone_life (m : M) (w : WriteJob) (e : Bool) (h : Life m.1) :
    Life (handlePieceWriteDone m w e).1 := by
  by_cases hr : Running m.1
  · exact handlePieceWriteDone_life_running m w e h hr
  · apply handlePieceWriteDone_life_quiet m w e h
    unfold Running at hr
    cases he : m.1.errC <;> cases hs : m.1.stopAnn <;> simp_all

theorem writerRun_life (m : M) (w : WriteJob) (h : Life m.1) : Life (writerRun m w).1 := by
  unfold writerRun
  dsimp only
  repeat' split
  all_goals first
    | exact handlePieceWriteDone_life _ _ _ h
    | exact handlePieceWriteDone_life _ _ _ (h.congr (by lframe))

end Rain.Loop
