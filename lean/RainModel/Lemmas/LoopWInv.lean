import RainModel.Lemmas.LoopNoPanic
import RainModel.Lemmas.LoopWeak
/-!
C04 `no_panic`, the inductive part: invariant `WInv` tying `writing`, `wflag`, `dls`, `done`, `bf`, `gen`,
`idls` and the message queues together, the frame relation `WFrame` (what the handlers that do not touch
the write machinery are allowed to change), and the primitive state functions.
-/
namespace Rain.Loop

/-- A piece that has blocks has a non-padding section (what `calcBlocks` guarantees: blocks cover exactly the
non-padding bytes).  Converse of `CfgWF`.  It was the configuration hypothesis of `no_panic` until stale write
results were ignored (fix C04-F9); no theorem needs it any more, it is kept because it is proved for the driver's
configurations (`parseNew_blocksHaveData`). -/
def Cfg.blocksHaveData (c : Cfg) : Bool :=
  (List.range c.n).all fun i =>
    (c.blocks.getD i []).isEmpty || (c.sections i).any fun sc => !(c.fpads.getD sc.file false)

theorem Cfg.blocksHaveData_spec (c : Cfg) (h : c.blocksHaveData = true) (i : Nat) (hi : i < c.n)
    (hb : (c.blocks.getD i []).isEmpty = false) :
    (c.sections i).filter (fun sc => !(c.fpads.getD sc.file false)) ≠ [] := by
  unfold Cfg.blocksHaveData at h
  rw [List.all_eq_true] at h
  have := h i (List.mem_range.2 hi)
  rw [hb, Bool.false_or, List.any_eq_true] at this
  obtain ⟨sc, hsc, hp⟩ := this
  intro hnil
  have : sc ∈ (c.sections i).filter (fun sc => !(c.fpads.getD sc.file false)) := List.mem_filter.2 ⟨hsc, hp⟩
  rw [hnil] at this
  cases this

/-- The write/download invariant of the event loop. -/
structure WInv (s : St) : Prop where
  /-- only messages that need the metadata are queued -/
  q : QueueOK s
  /-- a set `Writing` flag belongs to the write in flight, which is of the current generation -/
  wf : s.loaded = true → ∀ i, s.wflag.getD i false = true → ∃ w, s.writing = some w ∧ w.piece = i ∧ w.gen = s.gen
  /-- a job never comes from the future -/
  wg : ∀ w, s.writing = some w → w.gen ≤ s.gen
  /-- a current job on loaded pieces: no verifier, and its piece is not yet held -/
  wc : ∀ w, s.writing = some w → w.gen = s.gen → s.loaded = true →
    s.verifier = false ∧ bitOf s.bf w.piece = false
  /-- the `Writing` flags of loaded pieces: one per piece -/
  wl : s.loaded = true → s.wflag.length = s.n
  /-- a current job on loaded pieces — in particular one whose storage calls have returned and whose result is
  held (`written`) — has its piece's `Writing` flag set, and the piece is not done -/
  wd : ∀ w, s.writing = some w → w.gen = s.gen → s.loaded = true →
    s.wflag.getD w.piece false = true ∧ s.done.getD w.piece false = false
  /-- bits ⊆ `done` while loaded and not verifying -/
  bd : s.loaded = true → s.verifier = false → ∀ b, s.bf = some b →
    b.length ≤ s.done.length ∧ ∀ i, b.getD i false = true → s.done.getD i false = true
  /-- nobody downloads a piece that is done -/
  dd : ∀ d ∈ s.dls, s.done.getD d.piece false = false
  /-- piece downloads exist only while downloading -/
  dl : s.dls ≠ [] → s.loaded = true ∧ s.allocator = false ∧ s.verifier = false ∧ s.completed = false
  /-- the allocator runs before the pieces are loaded -/
  al : s.allocator = true → s.loaded = false
  /-- metadata downloads exist only while the metadata is unknown -/
  id : s.info = true → s.idls = []

/-- What a handler that stays away from the write machinery may change: downloads may be closed or
modified in place, metadata downloads may not appear from nothing, queues only grow by messages that
need the metadata, `completed` only becomes true with all downloads closed. -/
structure WFrame (s s' : St) : Prop where
  cfg : s'.cfg = s.cfg
  wflag : s'.wflag = s.wflag
  writing : s'.writing = s.writing
  gen : s'.gen = s.gen
  loaded : s'.loaded = s.loaded
  verifier : s'.verifier = s.verifier
  allocator : s'.allocator = s.allocator
  bf : s'.bf = s.bf
  done : s'.done = s.done
  info : s'.info = s.info
  completed : s'.completed = true → s.completed = true ∨ s'.dls = []
  dls : ∀ d' ∈ s'.dls, ∃ d ∈ s.dls, d.piece = d'.piece
  idls : s.idls = [] → s'.idls = []
  q : ∀ p' ∈ s'.peers, ∀ msg ∈ p'.queued, needsInfo msg = true ∨ ∃ p ∈ s.peers, msg ∈ p.queued

theorem WFrame.refl (s : St) : WFrame s s :=
  ⟨rfl, rfl, rfl, rfl, rfl, rfl, rfl, rfl, rfl, rfl, fun h => Or.inl h, fun d hd => ⟨d, hd, rfl⟩, fun h => h,
    fun p hp _ hm => Or.inr ⟨p, hp, hm⟩⟩

theorem WFrame.dls_nil {s s' : St} (f : WFrame s s') (h : s.dls = []) : s'.dls = [] := by
  cases hd : s'.dls with
  | nil => rfl
  | cons d l =>
    obtain ⟨d0, hd0, _⟩ := f.dls d (by rw [hd]; exact List.mem_cons_self ..)
    rw [h] at hd0; cases hd0

theorem WFrame.trans {a b c : St} (h1 : WFrame a b) (h2 : WFrame b c) : WFrame a c := by
  refine ⟨h2.cfg.trans h1.cfg, h2.wflag.trans h1.wflag, h2.writing.trans h1.writing, h2.gen.trans h1.gen,
    h2.loaded.trans h1.loaded, h2.verifier.trans h1.verifier, h2.allocator.trans h1.allocator, h2.bf.trans h1.bf,
    h2.done.trans h1.done, h2.info.trans h1.info, ?_, ?_, fun h => h2.idls (h1.idls h), ?_⟩
  · intro hc
    rcases h2.completed hc with hb | hd
    · rcases h1.completed hb with ha | hd
      · exact Or.inl ha
      · exact Or.inr (h2.dls_nil hd)
    · exact Or.inr hd
  · intro d'' hd''
    obtain ⟨d', hd', e'⟩ := h2.dls d'' hd''
    obtain ⟨d, hd, e⟩ := h1.dls d' hd'
    exact ⟨d, hd, e.trans e'⟩
  · intro p'' hp'' msg hm
    rcases h2.q p'' hp'' msg hm with h | ⟨p', hp', hm'⟩
    · exact Or.inl h
    · exact h1.q p' hp' msg hm'

/-- Everything `WInv` reads is the same. -/
theorem WFrame.of_eq {s s' : St} (h1 : s'.cfg = s.cfg) (h2 : s'.wflag = s.wflag) (h3 : s'.writing = s.writing)
    (h4 : s'.gen = s.gen) (h5 : s'.loaded = s.loaded) (h6 : s'.verifier = s.verifier)
    (h7 : s'.allocator = s.allocator) (h8 : s'.bf = s.bf) (h9 : s'.done = s.done) (h10 : s'.info = s.info)
    (h11 : s'.completed = s.completed) (h12 : s'.dls = s.dls) (h13 : s'.idls = s.idls) (h14 : s'.peers = s.peers) :
    WFrame s s' :=
  ⟨h1, h2, h3, h4, h5, h6, h7, h8, h9, h10, fun h => Or.inl (h11 ▸ h), fun d hd => ⟨d, h12 ▸ hd, rfl⟩,
    fun h => h13.trans h, fun p hp _ hm => Or.inr ⟨p, h14 ▸ hp, hm⟩⟩

/-- Closes `WFrame s s'` when `s'` differs from `s` only in fields `WInv` does not read. -/
macro "wframe_eq" : tactic => `(tactic| (apply WFrame.of_eq <;> first | rfl | (simp; done)))

/-- The scalar fields are the same; downloads, metadata downloads and peers are given separately. -/
theorem WFrame.of_lists {s s' : St} (h1 : s'.cfg = s.cfg) (h2 : s'.wflag = s.wflag) (h3 : s'.writing = s.writing)
    (h4 : s'.gen = s.gen) (h5 : s'.loaded = s.loaded) (h6 : s'.verifier = s.verifier)
    (h7 : s'.allocator = s.allocator) (h8 : s'.bf = s.bf) (h9 : s'.done = s.done) (h10 : s'.info = s.info)
    (h11 : s'.completed = s.completed)
    (h12 : ∀ d' ∈ s'.dls, ∃ d ∈ s.dls, d.piece = d'.piece) (h13 : s.idls = [] → s'.idls = [])
    (h14 : ∀ p' ∈ s'.peers, ∀ msg ∈ p'.queued, needsInfo msg = true ∨ ∃ p ∈ s.peers, msg ∈ p.queued) :
    WFrame s s' :=
  ⟨h1, h2, h3, h4, h5, h6, h7, h8, h9, h10, fun h => Or.inl (h11 ▸ h), h12, h13, h14⟩

theorem WInv.frame {s s' : St} (h : WInv s) (f : WFrame s s') : WInv s' := by
  refine ⟨?_, ?_, ?_, ?_, ?_, ?_, ?_, ?_, ?_, ?_, ?_⟩
  · intro p' hp' msg hm
    rcases f.q p' hp' msg hm with hn | ⟨p, hp, hm'⟩
    · exact hn
    · exact h.q p hp msg hm'
  · rw [f.loaded, f.wflag, f.writing, f.gen]; exact h.wf
  · rw [f.writing, f.gen]; exact h.wg
  · rw [f.writing, f.gen, f.loaded, f.verifier, f.bf]; exact h.wc
  · rw [f.loaded, f.wflag]; unfold St.n; rw [f.cfg]; exact h.wl
  · rw [f.writing, f.gen, f.loaded, f.wflag, f.done]; exact h.wd
  · rw [f.loaded, f.verifier, f.bf, f.done]; exact h.bd
  · intro d' hd'
    obtain ⟨d, hd, e⟩ := f.dls d' hd'
    rw [f.done, ← e]; exact h.dd d hd
  · intro hne
    have hne0 : s.dls ≠ [] := fun h0 => hne (f.dls_nil h0)
    obtain ⟨a, b, c, d⟩ := h.dl hne0
    refine ⟨f.loaded ▸ a, f.allocator ▸ b, f.verifier ▸ c, ?_⟩
    cases hc : s'.completed
    · rfl
    · rcases f.completed hc with h1 | h1
      · rw [d] at h1; cases h1
      · exact absurd h1 hne
  · rw [f.allocator, f.loaded]; exact h.al
  · rw [f.info]; intro hi; exact f.idls (h.id hi)

/-! ### primitive state functions -/

theorem closeDl_dls (s : St) (k : Nat) : (s.closeDl k).dls = s.dls.filter (fun d => !decide (d.k = k)) := by
  unfold St.closeDl
  split
  · simp
  · next h =>
    have : s.dls.find? (fun d => decide (d.k = k)) = none := by
      simpa [St.findDl] using h
    exact (find?_none_filter _ _ this).symm

theorem closeDl_wframe (s : St) (k : Nat) : WFrame s (s.closeDl k) := by
  refine WFrame.of_lists (by simp) (by simp) (by simp) (by simp) (by simp) (by simp) (by simp) (by simp) (by simp)
    (by simp) (by simp) ?_ (by simp) ?_
  · intro d' hd'
    rw [closeDl_dls] at hd'
    exact ⟨d', (List.mem_filter.1 hd').1, rfl⟩
  · intro p hp msg hm
    exact Or.inr ⟨p, by simpa using hp, hm⟩

theorem startDlFor_wframe (s : St) (k : Nat) : WFrame s (s.startDlFor k) := by wframe_eq
theorem startDls_wframe (s : St) : WFrame s s.startDls := by wframe_eq

theorem updPeer_wframe (s : St) (k : Nat) (f : Peer → Peer)
    (hf : ∀ p, ∀ msg ∈ (f p).queued, needsInfo msg = true ∨ msg ∈ p.queued) : WFrame s (s.updPeer k f) := by
  refine WFrame.of_lists rfl rfl rfl rfl rfl rfl rfl rfl rfl rfl rfl (fun d hd => ⟨d, hd, rfl⟩) (fun h => h) ?_
  · intro p' hp' msg hm
    simp only [St.updPeer, List.mem_map] at hp'
    obtain ⟨p, hp, rfl⟩ := hp'
    split at hm
    · rcases hf p msg hm with h | h
      · exact Or.inl h
      · exact Or.inr ⟨p, hp, h⟩
    · exact Or.inr ⟨p, hp, hm⟩

theorem closePeer_dls_subset (s : St) (k : Nat) : ∀ d ∈ (s.closePeer k).dls, d ∈ s.dls := by
  unfold St.closePeer
  split
  · exact fun d hd => hd
  · dsimp only
    intro d hd
    have hd' : d ∈ (s.closeDl k).dls := by
      split at hd <;> simpa using hd
    rw [closeDl_dls] at hd'
    exact (List.mem_filter.1 hd').1

theorem closePeer_idls_nil (s : St) (k : Nat) (h : s.idls = []) : (s.closePeer k).idls = [] := by
  unfold St.closePeer
  split
  · exact h
  · dsimp only
    split <;> simp [h]

theorem closePeer_wframe (s : St) (k : Nat) : WFrame s (s.closePeer k) := by
  refine WFrame.of_lists (by simp) (by simp) (by simp) (by simp) (by simp) (by simp) (by simp) (by simp) (by simp)
    (by simp) (by simp) ?_ (closePeer_idls_nil s k) ?_
  · intro d hd; exact ⟨d, closePeer_dls_subset s k d hd, rfl⟩
  · intro p hp msg hm
    exact Or.inr ⟨p, closePeer_peers_subset s k p hp, hm⟩

theorem updateInterested_wframe (m : M) (k : Nat) : WFrame m.1 (updateInterested m k).1 := by
  unfold updateInterested
  dsimp only
  repeat' split
  all_goals first
    | exact WFrame.refl _
    | (simp only [send_fst, onSt_fst]; exact updPeer_wframe _ _ _ (fun p msg hm => Or.inr hm))

theorem haveOne_wframe (m : M) (k i : Nat) : WFrame m.1 (haveOne m k i).1 := by
  unfold haveOne
  split
  · simp only [onSt_fst]; exact updPeer_wframe _ _ _ (fun p msg hm => Or.inr hm)
  · exact WFrame.refl _

/-- Downloads modified in place (same piece). -/
theorem mapDl_wframe (s : St) (g : Dl → Dl) (hg : ∀ d, (g d).piece = d.piece) :
    WFrame s { s with dls := s.dls.map g } := by
  refine WFrame.of_lists rfl rfl rfl rfl rfl rfl rfl rfl rfl rfl rfl ?_ (fun h => h)
    (fun p hp msg hm => Or.inr ⟨p, hp, hm⟩)
  intro d' hd'
  simp only [List.mem_map] at hd'
  obtain ⟨d, hd, rfl⟩ := hd'
  exact ⟨d, hd, (hg d).symm⟩

/-! ### the initial state -/

theorem InitLike.winv {s : St} (h : InitLike s) (hw : ∀ w, s.writing = some w → w.gen ≤ s.gen) :
    WInv s := by
  refine ⟨?_, ?_, ?_, ?_, ?_, ?_, ?_, ?_, ?_, ?_, ?_⟩
  · intro p hp; rw [h.peers] at hp; cases hp
  · intro hl; rw [h.loaded] at hl; cases hl
  · exact hw
  · intro w _ _ hl; rw [h.loaded] at hl; cases hl
  · intro hl; rw [h.loaded] at hl; cases hl
  · intro w _ _ hl; rw [h.loaded] at hl; cases hl
  · intro hl; rw [h.loaded] at hl; cases hl
  · intro d hd; rw [h.dls] at hd; cases hd
  · intro hne; exact absurd h.dls hne
  · intro ha; rw [h.allocator] at ha; cases ha
  · intro _; exact h.idls

end Rain.Loop
