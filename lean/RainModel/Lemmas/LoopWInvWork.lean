import RainModel.Lemmas.LoopWInvCmd
/-!
`WInv` (continued): the worker completions — piece write, allocation, verification.
-/
namespace Rain.Loop

/-! ### piece write -/

/-- The write has completed: no job in flight, no `Writing` flag left. -/
theorem pwdReset_winv (m : M) (w w0 : WriteJob) (h : WInv m.1) (hw : m.1.writing = some w0)
    (hwp : w.piece = w0.piece) (hwg : w.gen = w0.gen) :
    WInv (pwdReset m w).1 ∧ (pwdReset m w).1.writing = none := by
  refine ⟨⟨h.q, ?_, ?_, ?_, ?_, ?_, h.bd, h.dd, h.dl, h.al, h.id⟩, rfl⟩
  · intro hl i hi
    exfalso
    have hl0 : m.1.loaded = true := hl
    simp only [pwdReset, onSt_fst] at hi
    split at hi
    · next hg =>
      rw [getD_setAt] at hi
      split at hi
      · cases hi
      · next hne =>
        obtain ⟨w', hw', hp', _⟩ := h.wf hl0 i hi
        rw [hw] at hw'; cases hw'
        -- the flag of the job's own piece has just been cleared
        apply hne
        refine ⟨hp'.symm.trans hwp.symm, ?_⟩
        have : m.1.wflag.getD i false = true := hi
        cases hlt : decide (i < m.1.wflag.length)
        · have hge : m.1.wflag.length ≤ i := by simpa using hlt
          simp [List.getD, List.getElem?_eq_none hge] at this
        · simpa using hlt
    · next hg =>
      obtain ⟨w', hw', _, hg'⟩ := h.wf hl0 i hi
      rw [hw] at hw'; cases hw'
      exact hg (hwg.trans hg')
  · intro w' hw'; cases hw'
  · intro w' hw'; cases hw'
  · intro hl
    have := h.wl hl
    simp only [pwdReset, onSt_fst]
    split
    · simpa [setAt, St.n] using this
    · exact this
  · intro w' hw'; cases hw'

theorem pwdBan_wframe (m : M) (w : WriteJob) : WFrame m.1 (pwdBan m w).1 := by
  unfold pwdBan
  simp only [onSt_fst, closePeerM_fst]
  exact (closePeer_wframe _ _).trans (WFrame.trans (by wframe_eq) (startDls_wframe _))

theorem foldl_closeStart_dls (ks : List Nat) (x : M) :
    ∀ d ∈ (ks.foldl (fun m k => onSt m fun s => (s.closeDl k).startDlFor k) x).1.dls,
      d ∈ x.1.dls ∧ ∀ k ∈ ks, d.k ≠ k := by
  induction ks generalizing x with
  | nil => intro d hd; exact ⟨hd, fun k hk => by cases hk⟩
  | cons a ks ih =>
    intro d hd
    obtain ⟨h1, h2⟩ := ih _ d hd
    simp only [onSt_fst, startDlFor_dls, closeDl_dls, List.mem_filter] at h1
    refine ⟨h1.1, fun k hk => ?_⟩
    rcases List.mem_cons.1 hk with rfl | hk
    · simpa using h1.2
    · exact h2 k hk

theorem pwdOthers_dls (m : M) (w : WriteJob) :
    (∀ d ∈ (pwdOthers m w).1.dls, d ∈ m.1.dls) ∧
    (m.1.loaded = true → m.1.completed = false → ∀ d ∈ (pwdOthers m w).1.dls, d.piece ≠ w.piece) := by
  unfold pwdOthers
  dsimp only
  constructor
  · intro d hd
    exact (foldl_closeStart_dls _ _ d hd).1
  · intro hl hc d hd hp
    obtain ⟨h1, h2⟩ := foldl_closeStart_dls _ _ d hd
    apply h2 d.k _ rfl
    simp only [hl, hc, Bool.not_false, Bool.and_self, if_true, List.mem_map, List.mem_filter]
    exact ⟨d, ⟨h1, by simpa using hp⟩, rfl⟩

/-- The successful write of a current job: bit and `done` set together, the other downloads of the piece
closed. -/
theorem pwdOthers_winv (m : M) (w : WriteJob) (b : List Bool) (h : WInv m.1) (hw : m.1.writing = none)
    (hg : w.gen = m.1.gen) (hl : m.1.loaded = true) (hv : m.1.verifier = false) (hb : m.1.bf = some b) :
    WInv (pwdOthers (pwdSet (pwdDone m w) w b) w).1 := by
  have hdone : (pwdDone m w).1.done = setAt m.1.done w.piece true := by
    unfold pwdDone
    simp
  have hbf : (pwdSet (pwdDone m w) w b).1.bf = some (setAt b w.piece true) := by
    unfold pwdSet; dsimp only; split <;> simp
  obtain ⟨hlen, hbits⟩ := h.bd hl hv b hb
  obtain ⟨hsub, hnp⟩ := pwdOthers_dls (pwdSet (pwdDone m w) w b) w
  have hdls0 : ∀ d ∈ (pwdOthers (pwdSet (pwdDone m w) w b) w).1.dls, d ∈ m.1.dls := by
    intro d hd; simpa using hsub d hd
  refine ⟨h.q.of_peers (by simp), ?_, ?_, ?_, ?_, ?_, ?_, ?_, ?_, ?_, ?_⟩
  · intro hl' i hi
    obtain ⟨w', hw', _⟩ := h.wf hl i (by simpa using hi)
    rw [hw] at hw'; cases hw'
  · intro w' hw'; simp [hw] at hw'
  · intro w' hw'; simp [hw] at hw'
  · intro _; simpa [St.n] using h.wl hl
  · intro w' hw'; simp [hw] at hw'
  · intro _ _ b' hb'
    simp only [pwdOthers_bf, hbf, Option.some.injEq] at hb'
    subst hb'
    simp only [pwdOthers_done, pwdSet_done, hdone]
    refine ⟨by simpa [setAt] using hlen, fun i hi => ?_⟩
    rw [getD_setAt] at hi ⊢
    split at hi
    · next hc => rw [if_pos ⟨hc.1, Nat.lt_of_lt_of_le hc.2 hlen⟩]
    · have := hbits i hi
      split
      · rfl
      · exact this
  · intro d hd
    have hd0 := hdls0 d hd
    simp only [pwdOthers_done, pwdSet_done, hdone]
    rw [getD_setAt]
    have hc : m.1.completed = false := (h.dl (List.ne_nil_of_mem hd0)).2.2.2
    have hne := hnp (by simpa using hl) (by simpa using hc) d hd
    rw [if_neg (fun hh => hne hh.1)]
    exact h.dd d hd0
  · intro hne
    have hne0 : m.1.dls ≠ [] := by
      intro h0
      apply hne
      rw [List.eq_nil_iff_forall_not_mem]
      intro d hd
      have := hdls0 d hd
      rw [h0] at this; cases this
    simpa using h.dl hne0
  · simpa using h.al
  · simpa using h.id

theorem pwdHaves_wframe (m : M) (w : WriteJob) : WFrame m.1 (pwdHaves m w).1 := by
  unfold pwdHaves
  apply foldl_inv (fun x : M => WFrame m.1 x.1) _ _ _ _ (WFrame.refl _)
  intro x p hx
  dsimp only
  split
  · exact hx.trans (updateInterested_wframe _ _)
  · simp only [send_fst]; exact hx.trans (updateInterested_wframe _ _)

/-- `handlePieceWriteDone` for the job in flight (a stale result is ignored by the handler itself: fix C04-F9). -/
theorem handlePieceWriteDone_winv' (m : M) (w w0 : WriteJob) (e : Bool) (h : WInv m.1) (l : Life m.1) (c : CompInv m.1)
    (hw : m.1.writing = some w0) (hwp : w.piece = w0.piece) (hwg : w.gen = w0.gen) :
    WInv (handlePieceWriteDone m w e).1 := by
  rw [handlePieceWriteDone_eq]
  obtain ⟨h0, hw0⟩ := pwdReset_winv m w w0 h hw hwp hwg
  dsimp only
  split
  · exact h0.frame (pwdBan_wframe _ _)
  split
  · exact h0
  · next hst =>
    simp only [Bool.or_eq_true, ne_eq, decide_eq_true_eq, Bool.not_eq_true', not_or, Decidable.not_not,
      Bool.not_eq_false] at hst
    have hg : w.gen = m.1.gen := by simpa using hst.1
    have hl : m.1.loaded = true := by simpa using hst.2
    split
    · simp only [onSt_fst]; exact stop_winv _ _ h0
    · obtain ⟨hv, hbit⟩ := h.wc w0 hw (hwg.symm.trans hg) hl
      rw [← hwp] at hbit
      have hr : m.1.errC = true ∧ m.1.stopAnn = false := by
        cases he' : m.1.errC <;> cases hs : m.1.stopAnn <;> simp
        all_goals
          have := (l.idle (by simp [he', hs])).2.2.1
          rw [hl] at this; cases this
      have hal : m.1.allocator = false := by
        cases ha : m.1.allocator
        · rfl
        · have := h.al ha; rw [hl] at this; cases this
      have hinfo : m.1.info = true := by
        cases hi : m.1.info
        · have := (l.ni hi).2.2.1; rw [hl] at this; cases this
        · rfl
      have hbf := c.run hr.1 hr.2 hal hv hinfo
      split
      · next hn =>
        have : m.1.bf = none := by simpa using hn
        rw [this] at hbf; cases hbf
      · next b hb =>
        have hb' : m.1.bf = some b := by simpa using hb
        unfold pwdOk
        apply pwdFinish_winv
        refine WInv.frame ?_ (pwdHaves_wframe _ _)
        exact pwdOthers_winv (pwdReset m w) w b h0 hw0 (by simpa using hg) (by simpa using hl) (by simpa using hv)
          (by simpa using hb')

theorem handlePieceWriteDone_winv (m : M) (w : WriteJob) (e : Bool) (h : WInv m.1) (l : Life m.1) (c : CompInv m.1)
    (hw : m.1.writing = some w) : WInv (handlePieceWriteDone m w e).1 :=
  handlePieceWriteDone_winv' m w w e h l c hw rfl rfl

/-- The job's storage calls have returned; its result is held (`gate writeDone`). -/
theorem WInv.mark_written {s s' : St} (h : WInv s) (w : WriteJob) (hw : s.writing = some w)
    (hw' : s'.writing = some { w with written := true }) (f : WFrame s { s' with writing := s.writing }) : WInv s' := by
  have h1 := h.frame f
  refine ⟨h1.q, ?_, ?_, ?_, h1.wl, ?_, h1.bd, h1.dd, h1.dl, h1.al, h1.id⟩
  · intro hl i hi
    obtain ⟨w0, a, b, c⟩ := h1.wf hl i hi
    have a' : s.writing = some w0 := a
    rw [hw] at a'; cases a'
    exact ⟨_, hw', b, c⟩
  · intro w0 a
    rw [hw'] at a; cases a
    exact h1.wg w hw
  · intro w0 a
    rw [hw'] at a; cases a
    exact h1.wc w hw
  · intro w0 a
    rw [hw'] at a; cases a
    exact h1.wd w hw

theorem writerRun_winv (m : M) (w : WriteJob) (h : WInv m.1) (l : Life m.1) (c : CompInv m.1)
    (hw : m.1.writing = some w) : WInv (writerRun m w).1 := by
  unfold writerRun
  dsimp only
  split
  · exact handlePieceWriteDone_winv m w false h l c hw
  · split
    · exact handlePieceWriteDone_winv' m _ w false h l c hw rfl rfl
    · next sc rest hsecs =>
      have hfr : ∀ x : List String, WInv (onSt m fun s => { s with sto := s.sto ++ x }).1 ∧
          Life (onSt m fun s => { s with sto := s.sto ++ x }).1 ∧ CompInv (onSt m fun s => { s with sto := s.sto ++ x }).1 ∧
          (onSt m fun s => { s with sto := s.sto ++ x }).1.writing = some w := fun x =>
        ⟨h.frame (by wframe_eq), l.congr (by lframe), c.of_frame rfl rfl rfl rfl rfl rfl rfl rfl, by simpa using hw⟩
      split
      · obtain ⟨a1, a2, a3, a4⟩ := hfr [s!"writeclosed:{fileName m.1.cfg sc.file}:{sc.off}:{sc.len}"]
        exact handlePieceWriteDone_winv _ w true a1 a2 a3 a4
      · split
        · obtain ⟨a1, a2, a3, a4⟩ := hfr [s!"writefail:{fileName m.1.cfg sc.file}:{sc.off}:{sc.len}"]
          exact handlePieceWriteDone_winv _ w true a1 a2 a3 a4
        · split
          · simp only [onSt_fst]
            exact h.mark_written w hw rfl (by wframe_eq)
          · apply handlePieceWriteDone_winv _ w false
            · simp only [onSt_fst]; exact h.frame (by wframe_eq)
            · simp only [onSt_fst]; exact l.congr (by lframe)
            · simp only [onSt_fst]; exact c.of_frame rfl rfl rfl rfl rfl rfl rfl rfl
            · simpa using hw

/-! ### allocation, verification -/

/-- A state in which any write in flight is stale, no `Writing` flag is set and nothing is downloaded. -/
theorem WInv.of_stale {s s' : St} (h : WInv s) (h1 : s'.cfg = s.cfg) (h3 : s'.writing = s.writing)
    (hg : ∀ w, s'.writing = some w → w.gen < s'.gen)
    (hwf : s'.loaded = true → ∀ i, s'.wflag.getD i false = false) (hwl : s'.loaded = true → s'.wflag.length = s'.n)
    (hd : s'.dls = []) (hq : QueueOK s')
    (hbd : s'.loaded = true → s'.verifier = false → ∀ b, s'.bf = some b →
      b.length ≤ s'.done.length ∧ ∀ i, b.getD i false = true → s'.done.getD i false = true)
    (hal : s'.allocator = true → s'.loaded = false) (hid : s'.info = true → s'.idls = []) : WInv s' := by
  refine ⟨hq, ?_, ?_, ?_, hwl, ?_, hbd, ?_, ?_, hal, hid⟩
  · intro hl i hi; rw [hwf hl i] at hi; cases hi
  · intro w hw; exact Nat.le_of_lt (hg w hw)
  · intro w hw hgen; have := hg w hw; rw [hgen] at this; exact absurd this (Nat.lt_irrefl _)
  · intro w hw hgen; have := hg w hw; rw [hgen] at this; exact absurd this (Nat.lt_irrefl _)
  · rw [hd]; intro d hd'; cases hd'
  · rw [hd]; intro hh; exact absurd rfl hh

theorem markPaddingPieces_same (s : St) (b : List Bool) (hb : s.bf = some b) (hd : s.done = b) :
    ∃ L, s.markPaddingPieces.bf = some L ∧ s.markPaddingPieces.done = L := by
  unfold St.markPaddingPieces
  rw [hb]
  exact ⟨_, rfl, by simp [hd]⟩

theorem bd_of_same {s : St} (L : List Bool) (h1 : s.bf = some L) (h2 : s.done = L) :
    s.loaded = true → s.verifier = false → ∀ b, s.bf = some b →
      b.length ≤ s.done.length ∧ ∀ i, b.getD i false = true → s.done.getD i false = true := by
  intro _ _ b hb
  rw [h1] at hb; cases hb
  rw [h2]
  exact ⟨Nat.le_refl _, fun i hi => hi⟩

theorem handleAllocationDone_winv (m : M) (ex mi : Bool) (h : WInv m.1) (l : Life m.1) (ha : m.1.allocator = true) :
    WInv (handleAllocationDone m ex mi).1 := by
  have hdl : m.1.dls = [] := by
    cases hdl : m.1.dls with
    | nil => rfl
    | cons a t =>
      have := (h.dl (by rw [hdl]; exact List.cons_ne_nil _ _)).2.1
      rw [ha] at this; cases this
  have hver : m.1.verifier = false := by
    cases hv : m.1.verifier
    · rfl
    · have h1 := l.ver hv; have h2 := h.al ha; rw [h1] at h2; cases h2
  -- the state after the pieces have been loaded (and the bitfield forgotten if files were missing)
  generalize hX : hadForget (hadInstall m) mi = X
  have x1 : X.1.cfg = m.1.cfg := by subst hX; simp
  have x3 : X.1.writing = m.1.writing := by subst hX; simp
  have x4 : X.1.gen = m.1.gen + 1 := by subst hX; simp [hadInstall]
  have x5 : ∀ i, X.1.wflag.getD i false = false := by subst hX; simp [hadInstall]
  have x6 : X.1.dls = [] := by subst hX; simpa using hdl
  have x7 : QueueOK X.1 := by
    subst hX
    intro p hp msg hmsg
    have hp' : p ∈ (hadInstall m).1.peers := by simpa using hp
    simp only [hadInstall, onSt_fst, List.mem_map] at hp'
    obtain ⟨q, hq', rfl⟩ := hp'
    exact h.q q hq' msg hmsg
  have x8 : X.1.allocator = false := by subst hX; simp [hadInstall]
  have x9 : X.1.info = true → X.1.idls = [] := by subst hX; simpa using h.id
  have x10 : X.1.verifier = false := by subst hX; simpa using hver
  have x11 : X.1.wflag.length = X.1.n := by subst hX; simp [hadInstall, St.n]
  have hg : ∀ w, X.1.writing = some w → w.gen < X.1.gen := by
    intro w hw
    rw [x3] at hw
    rw [x4]
    exact Nat.lt_succ_of_le (h.wg w hw)
  rw [handleAllocationDone_eq, hX]
  have fresh : WInv (hadFresh X).1 := by
    have hi : WInv (hadFreshInstall X).1 := by
      unfold hadFreshInstall
      simp only [onSt_fst]
      obtain ⟨L, hL1, hL2⟩ := markPaddingPieces_same
        ({ X.1 with bf := some (List.replicate X.1.n false) }).resetCompletion (List.replicate X.1.n false)
        (by simp) (by subst hX; simp [hadInstall, St.n])
      exact h.of_stale (by simpa using x1) (by simpa using x3) (by simpa using hg) (fun _ => by simpa using x5)
        (fun _ => by simpa [St.n] using x11)
        (by simpa using x6) (x7.of_peers (by simp)) (bd_of_same L hL1 hL2) (by simp [x8]) (by simpa using x9)
    unfold hadFresh
    dsimp only
    split
    · simp only [onSt_fst]
      exact stop_winv _ _ (hi.frame (by wframe_eq))
    · exact hadCheck_winv _ hi
  have ver : WInv (onSt X fun s => { s with verifier := true }).1 := by
    simp only [onSt_fst]
    exact h.of_stale x1 x3 hg (fun _ => x5) (fun _ => x11) x6 x7 (fun _ hv => by cases hv) (by simp [x8]) x9
  dsimp only
  split
  · next b hb =>
    split
    · unfold hadTrust
      apply hadCheck_winv
      simp only [onSt_fst]
      obtain ⟨L, hL1, hL2⟩ := markPaddingPieces_same { X.1 with done := b } b hb rfl
      exact h.of_stale (by simpa using x1) (by simpa using x3) (by simpa using hg) (fun _ => by simpa using x5)
        (fun _ => by simpa [St.n] using x11)
        (by simpa using x6) (x7.of_peers (by simp)) (bd_of_same L hL1 hL2) (by simp [x8]) (by simpa using x9)
    · split
      · exact fresh
      · exact ver
  · split
    · exact fresh
    · exact ver

theorem allocatorRun_winv (m : M) (h : WInv m.1) (l : Life m.1) (ha : m.1.allocator = true) :
    WInv (allocatorRun m).1 := by
  rw [allocatorRun_eq]
  split
  · unfold allocFail
    simp only [onSt_fst]
    have hdl : m.1.dls = [] := by
      cases hdl : m.1.dls with
      | nil => rfl
      | cons a t =>
        have := (h.dl (by rw [hdl]; exact List.cons_ne_nil _ _)).2.1
        rw [ha] at this; cases this
    exact stop_winv _ _ (h.unloaded (by simp) (by simp) (by simp) (by simpa using h.al ha) (by simpa using hdl)
      (by simpa using h.id) (h.q.of_peers (by simp)))
  · apply handleAllocationDone_winv
    · exact h.frame (by wframe_eq)
    · simp only [allocOkOpen, allocData, onSt_fst]
      refine l.set_files rfl rfl rfl rfl rfl rfl rfl rfl rfl rfl rfl rfl rfl rfl rfl ?_
      intro f hf hp
      simp only [List.getD_eq_getElem?_getD] at hp
      simp [hf, hp]
    · simpa using ha

theorem hvdHaves_wframe (m : M) : WFrame m.1 (hvdHaves m).1 := by
  unfold hvdHaves
  dsimp only
  apply foldl_inv (fun x : M => WFrame m.1 x.1) _ _ _ _ (WFrame.refl _)
  intro x p hx
  refine hx.trans (WFrame.trans ?_ (updateInterested_wframe _ _))
  apply foldl_inv (fun y : M => WFrame x.1 y.1) _ _ _ _ (WFrame.refl _)
  intro y i hy
  simpa using hy

theorem handleVerificationDone_winv (m : M) (h : WInv m.1) (l : Life m.1) (hv : m.1.verifier = true) :
    WInv (handleVerificationDone m).1 := by
  have hl := l.ver hv
  have hdl : m.1.dls = [] := by
    cases hdl : m.1.dls with
    | nil => rfl
    | cons a t =>
      have := (h.dl (by rw [hdl]; exact List.cons_ne_nil _ _)).2.2.1
      rw [hv] at this; cases this
  have hstale : ∀ w, m.1.writing = some w → w.gen < m.1.gen := by
    intro w hw
    refine Nat.lt_of_le_of_ne (h.wg w hw) (fun hg => ?_)
    have := (h.wc w hw hg hl).1
    rw [hv] at this; cases this
  have hwf : ∀ i, m.1.wflag.getD i false = false := by
    intro i
    cases hi : m.1.wflag.getD i false
    · rfl
    · obtain ⟨w, hw, _, hg⟩ := h.wf hl i hi
      have := hstale w hw
      rw [hg] at this
      exact absurd this (Nat.lt_irrefl _)
  have h0 : WInv (hvdInstall m).1 := by
    refine h.of_stale (by simp) (by simp) (by simpa using hstale) (fun _ => by simpa using hwf)
      (fun _ => by simpa [St.n] using h.wl hl) (by simpa using hdl)
      (h.q.of_peers (by simp)) ?_ (by simpa using h.al) (by simpa using h.id)
    intro _ _ b hb
    have hbf : (hvdInstall m).1.bf = some m.1.diskOK := by
      rw [hvdInstall_eq]; simp only [onSt_fst]; split <;> simp [hvdPre]
    have hdn' : (hvdPre m).1.done =
        (List.range m.1.n).map fun i => m.1.done.getD i false || m.1.diskOK.getD i false := rfl
    have hdn : (hvdInstall m).1.done =
        (List.range m.1.n).map fun i => m.1.done.getD i false || m.1.diskOK.getD i false := by
      rw [← hdn', hvdInstall_eq]; simp
    rw [hbf] at hb; cases hb
    rw [hdn]
    refine ⟨by simp [St.diskOK], fun i hi => ?_⟩
    have hin := ((diskOK_getD m.1 i).1 hi).1
    simp only [List.getD_eq_getElem?_getD] at hi ⊢
    simp [hin, hi]
  rw [handleVerificationDone_eq]
  dsimp only
  split
  · simp only [onSt_fst]
    exact stop_winv _ _ (h0.frame (by wframe_eq))
  · exact hadCheck_winv _ (h0.frame (hvdHaves_wframe _))

end Rain.Loop
