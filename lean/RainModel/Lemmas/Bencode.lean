import RainModel.Model.Bencode
/-! Helper lemmas for the bencode layer of the extension messages (C11, C08 reader half). -/
namespace Rain.Bencode

theorem splitAtByte_len {c : Nat} {bs a r : Bytes} (h : splitAtByte c bs = some (a, r)) :
    a.length + r.length + 1 = bs.length := by
  induction bs generalizing a r with
  | nil => simp [splitAtByte] at h
  | cons x xs ih =>
    unfold splitAtByte at h
    split at h
    · cases h; simp
    · split at h
      · cases h
      · rename_i a' b' h'
        cases h
        have := ih h'
        simp; omega

theorem take?_len' {n : Nat} {bs a r : Bytes} (h : take? n bs = some (a, r)) :
    a.length = n ∧ r.length + n = bs.length := by
  unfold take? at h
  split at h
  · cases h
    simp [List.length_take, List.length_drop]; omega
  · cases h

theorem scanStr_len {bs s r : Bytes} (h : scanStr bs = some (s, r)) :
    s.length + r.length < bs.length := by
  unfold scanStr at h
  split at h
  · cases h
  · rename_i ds r0 h0
    split at h
    · cases h
    · have := splitAtByte_len h0
      have := take?_len' h
      omega

def strsLe (L : Nat) (ts : List Tok) : Prop := ∀ n ∈ strLens ts, n ≤ L

theorem strLens_append (a b : List Tok) : strLens (a ++ b) = strLens a ++ strLens b := by
  induction a with
  | nil => rfl
  | cons t r ih => cases t <;> simp [strLens, ih]

theorem strLens_reverse_mem (a : List Tok) (n : Nat) : n ∈ strLens a.reverse ↔ n ∈ strLens a := by
  induction a with
  | nil => simp
  | cons t r ih =>
    simp only [List.reverse_cons, strLens_append, List.mem_append, ih]
    cases t <;> simp [strLens, or_comm]

theorem tokenizeAux_bound (L : Nat) : ∀ (f : Nat) (bs : Bytes) (d : Nat) (acc toks : List Tok) (rest : Bytes),
    bs.length ≤ L → strsLe L acc → tokenizeAux f bs d acc = some (toks, rest) →
    strsLe L toks ∧ rest.length ≤ bs.length := by
  intro f
  induction f with
  | zero => intro bs d acc toks rest _ _ h; simp [tokenizeAux] at h
  | succ f ih =>
    intro bs d acc toks rest hL hacc h
    cases bs with
    | nil => simp [tokenizeAux] at h
    | cons c r =>
      have hr : r.length ≤ L := by simp at hL; omega
      have hnon : ∀ t, (∀ s, t ≠ Tok.str s) → strsLe L (t :: acc) := by
        intro t ht n hn
        cases t <;> simp [strLens] at hn <;> first | exact hacc n hn | exact absurd rfl (ht _)
      have hrev : ∀ a, strsLe L a → strsLe L a.reverse := fun a ha n hn => ha n ((strLens_reverse_mem a n).1 hn)
      unfold tokenizeAux at h
      split at h
      · split at h
        · cases h
        · split at h
          · cases h
            exact ⟨hrev _ (hnon _ (by intro s; simp)), by simp⟩
          · have := ih r _ _ toks rest hr (hnon Tok.fin (by intro s; simp)) h
            exact ⟨this.1, by simp; omega⟩
      · split at h
        · split at h
          · cases h
          · have := ih r _ _ toks rest hr (hnon Tok.lst (by intro s; simp)) h
            exact ⟨this.1, by simp; omega⟩
        · split at h
          · split at h
            · cases h
            · have := ih r _ _ toks rest hr (hnon Tok.dct (by intro s; simp)) h
              exact ⟨this.1, by simp; omega⟩
          · split at h
            · split at h
              · cases h
              · rename_i ds r' hs
                have hl := splitAtByte_len hs
                split at h
                · cases h
                  exact ⟨hrev _ (hnon _ (by intro s; simp)), by simp; omega⟩
                · have := ih r' _ _ toks rest (by omega) (hnon (Tok.int ds) (by intro s; simp)) h
                  exact ⟨this.1, by simp; omega⟩
            · split at h
              · split at h
                · cases h
                · rename_i s r' hs
                  have hl := scanStr_len hs
                  have hstr : strsLe L (Tok.str s :: acc) := by
                    intro n hn
                    simp [strLens] at hn
                    rcases hn with rfl | hn
                    · simp at hl; simp at hL; omega
                    · exact hacc n hn
                  split at h
                  · cases h
                    exact ⟨hrev _ hstr, by simp at hl ⊢; omega⟩
                  · have := ih r' _ _ toks rest (by simp at hl; omega) hstr h
                    exact ⟨this.1, by simp at hl ⊢; omega⟩
              · cases h

theorem tokenize_bound {bs : Bytes} {toks : List Tok} {rest : Bytes} (h : tokenize bs = some (toks, rest)) :
    (∀ n ∈ strLens toks, n ≤ bs.length) ∧ rest.length ≤ bs.length := by
  unfold tokenize at h
  exact tokenizeAux_bound bs.length _ bs 0 [] toks rest (Nat.le_refl _) (by intro n hn; simp [strLens] at hn) h

theorem parseExt_strLens (eid : Nat) (payload : Bytes) : ∀ n ∈ (parseExt eid payload).2, n ≤ payload.length := by
  unfold parseExt
  split
  · simp
  · split
    · simp
    · rename_i toks rest h
      exact (tokenize_bound h).1
end Rain.Bencode
