import RainModel.Model.Bencode
/-! Helper lemmas for the bencode layer of the extension messages (C11, C08 reader half). -/
namespace Rain.Bencode

theorem splitAtByte_len {c : Nat} {bs a r : Bytes} (h : splitAtByte c bs = some (a, r)) :
    a.length + r.length + 1 = bs.length := by
  induction bs generalizing a r with
  | nil => simp [splitAtByte] at h
  | cons x xs ih =>
    unfold splitAtByte at h
    split at h
    · cases h; simp
    · split at h
      · cases h
      · rename_i a' b' h'
        cases h
        have := ih h'
        simp; omega

theorem take?_len' {n : Nat} {bs a r : Bytes} (h : take? n bs = some (a, r)) :
    a.length = n ∧ r.length + n = bs.length := by
  unfold take? at h
  split at h
  · cases h
    simp [List.length_take, List.length_drop]; omega
  · cases h

theorem scanStr_len {bs s r : Bytes} (h : scanStr bs = some (s, r)) :
    s.length + r.length < bs.length := by
  unfold scanStr at h
  split at h
  · cases h
  · rename_i ds r0 h0
    split at h
    · cases h
    · have := splitAtByte_len h0
      have := take?_len' h
      omega

def strsLe (L : Nat) (ts : List Tok) : Prop := ∀ n ∈ strLens ts, n ≤ L

theorem strLens_append (a b : List Tok) : strLens (a ++ b) = strLens a ++ strLens b := by
  induction a with
  | nil => rfl
  | cons t r ih => cases t <;> simp [strLens, ih]

theorem strLens_reverse_mem (a : List Tok) (n : Nat) : n ∈ strLens a.reverse ↔ n ∈ strLens a := by
  induction a with
  | nil => simp
  | cons t r ih =>
    simp only [List.reverse_cons, strLens_append, List.mem_append, ih]
    cases t <;> simp [strLens, or_comm]

theorem tokenizeAux_bound (L : Nat) : ∀ (f : Nat) (bs : Bytes) (d : Nat) (acc toks : List Tok) (rest : Bytes),
    bs.length ≤ L → strsLe L acc → tokenizeAux f bs d acc = some (toks, rest) →
    strsLe L toks ∧ rest.length ≤ bs.length := by
  intro f
  induction f with
  | zero => intro bs d acc toks rest _ _ h; simp [tokenizeAux] at h
  | succ f ih =>
    intro bs d acc toks rest hL hacc h
    cases bs with
    | nil => simp [tokenizeAux] at h
    | cons c r =>
      have hr : r.length ≤ L := by simp at hL; omega
      have hnon : ∀ t, (∀ s, t ≠ Tok.str s) → strsLe L (t :: acc) := by
        intro t ht n hn
        cases t <;> simp [strLens] at hn <;> first | exact hacc n hn | exact absurd rfl (ht _)
      have hrev : ∀ a, strsLe L a → strsLe L a.reverse := fun a ha n hn => ha n ((strLens_reverse_mem a n).1 hn)
      unfold tokenizeAux at h
      split at h
      · split at h
        · cases h
        · split at h
          · cases h
            exact ⟨hrev _ (hnon _ (by intro s; simp)), by simp⟩
          · have := ih r _ _ toks rest hr (hnon Tok.fin (by intro s; simp)) h
            exact ⟨this.1, by simp; omega⟩
      · split at h
        · split at h
          · cases h
          · have := ih r _ _ toks rest hr (hnon Tok.lst (by intro s; simp)) h
            exact ⟨this.1, by simp; omega⟩
        · split at h
          · split at h
            · cases h
            · have := ih r _ _ toks rest hr (hnon Tok.dct (by intro s; simp)) h
              exact ⟨this.1, by simp; omega⟩
          · split at h
            · split at h
              · cases h
              · rename_i ds r' hs
                have hl := splitAtByte_len hs
                split at h
                · cases h
                  exact ⟨hrev _ (hnon _ (by intro s; simp)), by simp; omega⟩
                · have := ih r' _ _ toks rest (by omega) (hnon (Tok.int ds) (by intro s; simp)) h
                  exact ⟨this.1, by simp; omega⟩
            · split at h
              · split at h
                · cases h
                · rename_i s r' hs
                  have hl := scanStr_len hs
                  have hstr : strsLe L (Tok.str s :: acc) := by
                    intro n hn
                    simp [strLens] at hn
                    rcases hn with rfl | hn
                    · simp at hl; simp at hL; omega
                    · exact hacc n hn
                  split at h
                  · cases h
                    exact ⟨hrev _ hstr, by simp at hl ⊢; omega⟩
                  · have := ih r' _ _ toks rest (by simp at hl; omega) hstr h
                    exact ⟨this.1, by simp at hl ⊢; omega⟩
              · cases h

theorem tokenize_bound {bs : Bytes} {toks : List Tok} {rest : Bytes} (h : tokenize bs = some (toks, rest)) :
    (∀ n ∈ strLens toks, n ≤ bs.length) ∧ rest.length ≤ bs.length := by
  unfold tokenize at h
  exact tokenizeAux_bound bs.length _ bs 0 [] toks rest (Nat.le_refl _) (by intro n hn; simp [strLens] at hn) h

theorem parseExt_strLens (eid : Nat) (payload : Bytes) : ∀ n ∈ (parseExt eid payload).2, n ≤ payload.length := by
  unfold parseExt
  split
  · simp
  · split
    · simp
    · rename_i toks rest h
      exact (tokenize_bound h).1

/-! ### nesting bound of accepted payloads -/

/-- Deepest nesting level entered when walking `ts` starting inside `d` open containers. -/
def nestMax : List Tok → Nat → Nat
  | [], _ => 0
  | .lst :: r, d => Nat.max (d + 1) (nestMax r (d + 1))
  | .dct :: r, d => Nat.max (d + 1) (nestMax r (d + 1))
  | .fin :: r, d => nestMax r (d - 1)
  | .int _ :: r, d => nestMax r d
  | .str _ :: r, d => nestMax r d

theorem tokenizeAux_depth : ∀ (f : Nat) (bs : Bytes) (d : Nat) (acc toks : List Tok) (rest : Bytes),
    tokenizeAux f bs d acc = some (toks, rest) →
    ∃ ts, toks = acc.reverse ++ ts ∧ nestMax ts d ≤ maxDepth := by
  intro f
  induction f with
  | zero => intro bs d acc toks rest h; simp [tokenizeAux] at h
  | succ f ih =>
    intro bs d acc toks rest h
    cases bs with
    | nil => simp [tokenizeAux] at h
    | cons c r =>
      unfold tokenizeAux at h
      split at h
      · split at h
        · cases h
        · split at h
          · cases h
            exact ⟨[Tok.fin], by simp, by simp [nestMax]⟩
          · obtain ⟨ts, h1, h2⟩ := ih r _ _ toks rest h
            exact ⟨Tok.fin :: ts, by simp [h1], by simpa [nestMax] using h2⟩
      · split at h
        · split at h
          · cases h
          · rename_i hd
            obtain ⟨ts, h1, h2⟩ := ih r _ _ toks rest h
            refine ⟨Tok.lst :: ts, by simp [h1], ?_⟩
            simp only [nestMax]
            exact Nat.max_le.2 ⟨by omega, h2⟩
        · split at h
          · split at h
            · cases h
            · rename_i hd
              obtain ⟨ts, h1, h2⟩ := ih r _ _ toks rest h
              refine ⟨Tok.dct :: ts, by simp [h1], ?_⟩
              simp only [nestMax]
              exact Nat.max_le.2 ⟨by omega, h2⟩
          · split at h
            · split at h
              · cases h
              · rename_i ds r' hs
                split at h
                · cases h
                  exact ⟨[Tok.int ds], by simp, by simp [nestMax]⟩
                · obtain ⟨ts, h1, h2⟩ := ih r' _ _ toks rest h
                  exact ⟨Tok.int ds :: ts, by simp [h1], by simpa [nestMax] using h2⟩
            · split at h
              · split at h
                · cases h
                · rename_i s r' hs
                  split at h
                  · cases h
                    exact ⟨[Tok.str s], by simp, by simp [nestMax]⟩
                  · obtain ⟨ts, h1, h2⟩ := ih r' _ _ toks rest h
                    exact ⟨Tok.str s :: ts, by simp [h1], by simpa [nestMax] using h2⟩
              · cases h

/-- A payload accepted by the guard never nests deeper than `maxDepth` = 32. -/
theorem tokenize_depth {bs : Bytes} {toks : List Tok} {rest : Bytes} (h : tokenize bs = some (toks, rest)) :
    nestMax toks 0 ≤ maxDepth := by
  obtain ⟨ts, h1, h2⟩ := tokenizeAux_depth _ bs 0 [] toks rest h
  simp at h1; subst h1; exact h2

/-! ### decimal text round trip -/

theorem digitsVal_append (xs ys : Bytes) (a : Nat) :
    digitsVal (xs ++ ys) a = (digitsVal xs a).bind (fun v => digitsVal ys v) := by
  induction xs generalizing a with
  | nil => simp [digitsVal]
  | cons x r ih =>
    simp only [List.cons_append, digitsVal]
    split
    · exact ih _
    · simp

def allDigits (bs : Bytes) : Prop := ∀ b ∈ bs, 48 ≤ b ∧ b ≤ 57

theorem decRev_spec : ∀ (f n : Nat), n < f →
    digitsVal (decRev f n).reverse 0 = some n ∧ allDigits (decRev f n) ∧ decRev f n ≠ [] := by
  intro f
  induction f with
  | zero => intro n h; omega
  | succ f ih =>
    intro n h
    unfold decRev
    split
    · rename_i h10
      refine ⟨?_, ?_, by simp⟩
      · have : isDigit (48 + n) = true := by simp [isDigit]; omega
        simp [digitsVal, this]
      · intro b hb; simp at hb; subst hb; omega
    · rename_i h10
      have hlt : n / 10 < f := by omega
      obtain ⟨h1, h2, h3⟩ := ih (n / 10) hlt
      refine ⟨?_, ?_, by simp⟩
      · simp only [List.reverse_cons, digitsVal_append, h1]
        have : isDigit (48 + n % 10) = true := by simp [isDigit]; omega
        simp [digitsVal, this]
        omega
      · intro b hb
        simp at hb
        rcases hb with rfl | hb
        · omega
        · exact h2 b hb

theorem natDec_digits (n : Nat) : allDigits (natDec n) := by
  intro b hb
  unfold natDec at hb
  exact (decRev_spec (n + 1) n (by omega)).2.1 b (by simpa using hb)

theorem natDec_ne_nil (n : Nat) : natDec n ≠ [] := by
  unfold natDec
  have := (decRev_spec (n + 1) n (by omega)).2.2
  simpa using this

theorem parseNatDec_natDec (n : Nat) : parseNatDec (natDec n) = some n := by
  have h := (decRev_spec (n + 1) n (by omega)).1
  have hne := natDec_ne_nil n
  unfold parseNatDec
  split
  · rename_i heq; exact absurd heq hne
  · exact h

theorem splitAtByte_append (c : Nat) (a r : Bytes) (h : c ∉ a) :
    splitAtByte c (a ++ c :: r) = some (a, r) := by
  induction a with
  | nil => simp [splitAtByte]
  | cons x xs ih =>
    have hx : x ≠ c := by intro e; apply h; simp [e]
    have hxs : c ∉ xs := by intro e; apply h; simp [e]
    simp [splitAtByte, hx, ih hxs]

theorem take?_append' (a r : Bytes) : take? a.length (a ++ r) = some (a, r) := by
  simp [take?]

theorem scanStr_encStr (s rest : Bytes) : scanStr (encStr s ++ rest) = some (s, rest) := by
  unfold scanStr encStr
  have h58 : 58 ∉ natDec s.length := by
    intro h; have := natDec_digits _ _ h; omega
  rw [List.append_assoc, List.cons_append, splitAtByte_append 58 _ _ h58]
  simp [parseNatDec_natDec, take?_append']

theorem strconvUint64_natDec (n : Nat) (h : n < 18446744073709551616) : strconvUint64 (natDec n) = some n := by
  simp [strconvUint64, parseNatDec_natDec, h]

theorem strconvInt64_intDec (z : Int) (h1 : -9223372036854775808 ≤ z) (h2 : z < 9223372036854775808) :
    strconvInt64 (intDec z) = some z := by
  unfold intDec
  split
  · rename_i hneg
    simp only [strconvInt64, parseNatDec_natDec]
    have : z.natAbs ≤ 9223372036854775808 := by omega
    simp [this]
    omega
  · rename_i hpos
    have hd := natDec_digits z.toNat
    have hne := natDec_ne_nil z.toNat
    cases hnd : natDec z.toNat with
    | nil => exact absurd hnd hne
    | cons d ds =>
      have hdd := hd d (by simp [hnd])
      have h45 : d ≠ 45 := by omega
      have h43 : d ≠ 43 := by omega
      unfold strconvInt64
      split
      · rename_i heq; cases heq; exact absurd rfl h45
      · rename_i heq; cases heq; exact absurd rfl h43
      · rw [← hnd, parseNatDec_natDec]
        have : z.toNat < 9223372036854775808 := by omega
        simp [this]
        omega

theorem intDec_no_e (z : Int) : 101 ∉ intDec z := by
  unfold intDec
  split
  · intro h; simp at h; have := natDec_digits _ _ h; omega
  · intro h; have := natDec_digits _ _ h; omega

theorem natDec_digits' (n : Nat) : ∀ b ∈ natDec n, 48 ≤ b ∧ b ≤ 57 := natDec_digits n

/-! ### the guard inverts rendering -/

/-- Bytes of one token. -/
def renderTok : Tok → Bytes
  | .int ds => 105 :: (ds ++ [101])
  | .str s => encStr s
  | .lst => [108]
  | .dct => [100]
  | .fin => [101]

def render (ts : List Tok) : Bytes := ts.flatMap renderTok

/-- Token lists the tokenizer walks through from depth `d` and stops exactly at their end. -/
def wn : Nat → List Tok → Bool
  | _, [] => false
  | d, .fin :: r => if d = 0 then false else if d = 1 then r.isEmpty else wn (d - 1) r
  | d, .lst :: r => d + 1 ≤ maxDepth && wn (d + 1) r
  | d, .dct :: r => d + 1 ≤ maxDepth && wn (d + 1) r
  | d, .int ds :: r => !ds.contains 101 && (if d = 0 then r.isEmpty else wn d r)
  | d, .str _ :: r => if d = 0 then r.isEmpty else wn d r

theorem encStr_head (s : Bytes) : ∃ c r, encStr s = c :: r ∧ isDigit c = true := by
  unfold encStr
  cases h : natDec s.length with
  | nil => exact absurd h (natDec_ne_nil _)
  | cons c r =>
    refine ⟨c, r ++ 58 :: s, by simp, ?_⟩
    have := natDec_digits' s.length c (by simp [h])
    simp [isDigit]; omega

theorem tokenizeAux_render : ∀ (ts : List Tok) (d k : Nat) (acc : List Tok) (rest : Bytes),
    wn d ts = true →
    tokenizeAux (ts.length + k) (render ts ++ rest) d acc = some (acc.reverse ++ ts, rest) := by
  intro ts
  induction ts with
  | nil => intro d k acc rest h; simp [wn] at h
  | cons t r ih =>
    intro d k acc rest h
    have hf : (t :: r).length + k = (r.length + k) + 1 := by simp; omega
    rw [hf]
    cases t with
    | fin =>
      simp only [wn] at h
      simp only [render, List.flatMap_cons, renderTok, List.cons_append, List.nil_append, tokenizeAux]
      split at h
      · cases h
      · rename_i hd0
        split at h
        · rename_i hd1
          simp at h; subst h
          simp [hd0, hd1, render]
        · rename_i hd1
          have := ih (d - 1) k (Tok.fin :: acc) rest h
          simp only [render] at this
          simp [hd0, hd1, this]
    | lst =>
      simp only [wn, Bool.and_eq_true, decide_eq_true_eq] at h
      simp only [render, List.flatMap_cons, renderTok, List.cons_append, List.nil_append, tokenizeAux]
      have := ih (d + 1) k (Tok.lst :: acc) rest h.2
      simp only [render] at this
      have hd : ¬ (d + 1 > maxDepth) := by omega
      simp [hd, this]
    | dct =>
      simp only [wn, Bool.and_eq_true, decide_eq_true_eq] at h
      simp only [render, List.flatMap_cons, renderTok, List.cons_append, List.nil_append, tokenizeAux]
      have := ih (d + 1) k (Tok.dct :: acc) rest h.2
      simp only [render] at this
      have hd : ¬ (d + 1 > maxDepth) := by omega
      simp [hd, this]
    | int ds =>
      simp only [wn, Bool.and_eq_true, Bool.not_eq_true', List.contains_eq_mem, decide_eq_false_iff_not] at h
      have hsp : splitAtByte 101 (ds ++ 101 :: (render r ++ rest)) = some (ds, render r ++ rest) :=
        splitAtByte_append 101 ds _ (by simpa using h.1)
      simp only [render, List.flatMap_cons, renderTok, List.cons_append, List.append_assoc, List.nil_append, tokenizeAux]
      simp only [render] at hsp
      simp only [show (105 : Nat) ≠ 101 by decide, show (105 : Nat) ≠ 108 by decide, show (105 : Nat) ≠ 100 by decide, if_false, if_true, hsp]
      by_cases hd0 : d = 0
      · simp [hd0] at h
        simp [hd0, h.2, render]
      · simp [hd0] at h
        have := ih d k (Tok.int ds :: acc) rest h.2
        simp only [render] at this
        simp [hd0, this]
    | str s =>
      simp only [wn] at h
      obtain ⟨c, cr, hc, hdig⟩ := encStr_head s
      have hsc := scanStr_encStr s (render r ++ rest)
      simp only [render, List.flatMap_cons, renderTok, List.append_assoc]
      simp only [render] at hsc
      rw [hc] at hsc ⊢
      simp only [List.cons_append] at hsc ⊢
      have hc1 : c ≠ 101 := by simp [isDigit] at hdig; omega
      have hc2 : c ≠ 108 := by simp [isDigit] at hdig; omega
      have hc3 : c ≠ 100 := by simp [isDigit] at hdig; omega
      have hc4 : c ≠ 105 := by simp [isDigit] at hdig; omega
      simp only [tokenizeAux, hc1, hc2, hc3, hc4, if_false, hdig, if_true, hsc]
      by_cases hd0 : d = 0
      · simp [hd0] at h
        simp [hd0, h, render]
      · simp [hd0] at h
        have := ih d k (Tok.str s :: acc) rest h
        simp only [render] at this
        simp [hd0, this]

theorem renderTok_len (t : Tok) : 1 ≤ (renderTok t).length := by
  cases t <;> simp [renderTok, encStr] <;> omega

theorem render_len (ts : List Tok) : ts.length ≤ (render ts).length := by
  induction ts with
  | nil => simp [render]
  | cons t r ih =>
    have := renderTok_len t
    simp only [render, List.flatMap_cons, List.length_append, List.length_cons] at *
    omega

/-- The guard walks over any well-nested rendering and returns exactly its tokens. -/
theorem tokenize_render (ts : List Tok) (rest : Bytes) (h : wn 0 ts = true) :
    tokenize (render ts ++ rest) = some (ts, rest) := by
  unfold tokenize
  have hl := render_len ts
  have : (render ts ++ rest).length + 1 = ts.length + ((render ts ++ rest).length + 1 - ts.length) := by
    simp; omega
  rw [this, tokenizeAux_render ts 0 _ [] rest h]
  simp

/-! ### typed decoding of the three payload records -/

def mapToks (m : List (Bytes × Nat)) : List Tok := m.flatMap fun kv => [Tok.str kv.1, Tok.int (natDec kv.2)]

theorem mapSet_new (acc : List (Bytes × Nat)) (k : Bytes) (v : Nat) (h : ∀ p ∈ acc, p.1 ≠ k) :
    mapSet acc k v = acc ++ [(k, v)] := by
  induction acc with
  | nil => rfl
  | cons p r ih =>
    obtain ⟨k', v'⟩ := p
    have h1 : k' ≠ k := h (k', v') (by simp)
    have h2 : ∀ p ∈ r, p.1 ≠ k := fun p hp => h p (by simp [hp])
    simp [mapSet, h1, ih h2]

theorem parseMapU8_mapToks : ∀ (m acc : List (Bytes × Nat)) (f : Nat) (r : List Tok),
    (m.map (·.1)).Nodup → (∀ p ∈ acc, ∀ q ∈ m, p.1 ≠ q.1) → (∀ q ∈ m, q.2 < 256) → m.length < f →
    parseMapU8 f (mapToks m ++ Tok.fin :: r) acc = some (acc ++ m, r) := by
  intro m
  induction m with
  | nil =>
    intro acc f r _ _ _ hf
    obtain ⟨f1, rfl⟩ : ∃ f1, f = f1 + 1 := ⟨f - 1, by simp at hf; omega⟩
    simp [mapToks, parseMapU8]
  | cons q m ih =>
    intro acc f r hnd hdis hv hf
    obtain ⟨k, v⟩ := q
    obtain ⟨f1, rfl⟩ : ∃ f1, f = f1 + 1 := ⟨f - 1, by simp at hf; omega⟩
    have hv1 : v < 256 := hv (k, v) (by simp)
    have hnew : ∀ p ∈ acc, p.1 ≠ k := fun p hp => hdis p hp (k, v) (by simp)
    simp only [mapToks, List.flatMap_cons, List.cons_append, List.nil_append, parseMapU8]
    rw [strconvUint64_natDec v (by omega)]
    simp only
    have hmod : v % 256 = v := by omega
    rw [hmod, mapSet_new acc k v hnew]
    simp only [List.map_cons, List.nodup_cons] at hnd
    have := ih (acc ++ [(k, v)]) f1 r hnd.2
      (by
        intro p hp q hq
        simp at hp
        rcases hp with hp | rfl
        · exact hdis p hp q (by simp [hq])
        · intro e
          apply hnd.1
          simp only [List.mem_map]
          exact ⟨q, hq, e.symm⟩)
      (fun q hq => hv q (by simp [hq])) (by simp at hf; omega)
    simp only [mapToks] at this
    rw [this]
    simp

theorem render_append (a b : List Tok) : render (a ++ b) = render a ++ render b := by
  simp [render]

theorem render_mapToks (m : List (Bytes × Nat)) : render (mapToks m) = encMap m := by
  induction m with
  | nil => rfl
  | cons q m ih =>
    simp only [mapToks, encMap, render, List.flatMap_cons] at *
    simp [ih, renderTok, encNat]

/-- Scalars (strings, integers without an `e`) inside a container do not change the nesting. -/
def scalar : Tok → Bool
  | .str _ => true
  | .int ds => !ds.contains 101
  | _ => false

theorem wn_scalars (xs r : List Tok) (d : Nat) (hd : d ≠ 0) (h : ∀ t ∈ xs, scalar t = true) :
    wn d (xs ++ r) = wn d r := by
  induction xs with
  | nil => rfl
  | cons t xs ih =>
    have ht := h t (by simp)
    have := ih (fun t' ht' => h t' (by simp [ht']))
    cases t <;> simp [scalar] at ht <;> simp [wn, hd, this, ht]

theorem mapToks_scalar (m : List (Bytes × Nat)) : ∀ t ∈ mapToks m, scalar t = true := by
  intro t ht
  simp only [mapToks, List.mem_flatMap] at ht
  obtain ⟨q, _, hq⟩ := ht
  simp at hq
  rcases hq with rfl | rfl
  · rfl
  · simp only [scalar, Bool.not_eq_true', List.contains_eq_mem, decide_eq_false_iff_not]
    intro h; have := natDec_digits' _ _ h; omega

/-- Tokens of the handshake dictionary, in the encoder's key order. -/
def hsTail (h : Handshake) : List Tok :=
  (if h.metadataSize = 0 then [] else [Tok.str kMetadataSize, Tok.int (intDec h.metadataSize)])
  ++ [Tok.str kReqq, Tok.int (intDec h.reqq), Tok.str kV, Tok.str h.v]
  ++ (if h.yourip = [] then [] else [Tok.str kYourip, Tok.str h.yourip])

def hsToks (h : Handshake) : List Tok :=
  Tok.dct :: Tok.str kM :: Tok.dct :: (mapToks h.m ++ Tok.fin :: (hsTail h ++ [Tok.fin]))

theorem encHandshake_render (h : Handshake) : encHandshake h = render (hsToks h) := by
  unfold encHandshake hsToks hsTail
  simp only [render, List.flatMap_cons, List.flatMap_append, renderTok]
  have := render_mapToks h.m
  simp only [render] at this
  rw [this]
  by_cases h1 : h.metadataSize = 0 <;> by_cases h2 : h.yourip = [] <;>
    simp [h1, h2, renderTok, encInt, List.flatMap_cons, List.flatMap_nil]

theorem hsTail_scalar (h : Handshake) : ∀ t ∈ hsTail h, scalar t = true := by
  intro t ht
  have hi : ∀ z : Int, scalar (Tok.int (intDec z)) = true := by
    intro z
    simp only [scalar, Bool.not_eq_true', List.contains_eq_mem, decide_eq_false_iff_not]
    exact intDec_no_e z
  unfold hsTail at ht
  by_cases h1 : h.metadataSize = 0 <;> by_cases h2 : h.yourip = [] <;> simp [h1, h2] at ht <;>
    (rcases ht with rfl | rfl | rfl | rfl | rfl | rfl | rfl | rfl | rfl <;> first | rfl | exact hi _)

theorem hsToks_wn (h : Handshake) : wn 0 (hsToks h) = true := by
  unfold hsToks
  simp only [wn, maxDepth]
  rw [wn_scalars _ _ 2 (by decide) (mapToks_scalar h.m)]
  simp only [wn]
  rw [wn_scalars _ _ 1 (by decide) (hsTail_scalar h)]
  simp [wn]

/-- Well-formed handshake record: distinct map keys, `uint8` values, non-negative sizes in `int`. -/
def WFHandshake (h : Handshake) : Prop :=
  (h.m.map (·.1)).Nodup ∧ (∀ q ∈ h.m, q.2 < 256) ∧
  0 ≤ h.metadataSize ∧ h.metadataSize < 9223372036854775808 ∧ 0 ≤ h.reqq ∧ h.reqq < 9223372036854775808

theorem parseHs_hsToks (h : Handshake) (hw : WFHandshake h) (f : Nat) (hf : h.m.length + 8 ≤ f) :
    parseHsFields f (Tok.str kM :: Tok.dct :: (mapToks h.m ++ Tok.fin :: (hsTail h ++ [Tok.fin]))) {} =
      some ({ m := h.m, v := h.v, yourip := h.yourip, metadataSize := h.metadataSize, reqq := h.reqq }, []) := by
  obtain ⟨hnd, hv, hms0, hms1, hrq0, hrq1⟩ := hw
  obtain ⟨f1, rfl⟩ : ∃ f1, f = f1 + 1 := ⟨f - 1, by omega⟩
  have hmap := parseMapU8_mapToks h.m [] f1 (hsTail h ++ [Tok.fin]) hnd (by simp) hv (by omega)
  simp only [parseHsFields, if_true]
  simp only [show ({} : HsAcc).m = [] from rfl, hmap, List.nil_append]
  have hI1 := strconvInt64_intDec h.metadataSize (by omega) hms1
  have hI2 := strconvInt64_intDec h.reqq (by omega) hrq1
  obtain ⟨f2, rfl⟩ : ∃ f2, f1 = f2 + 5 := ⟨f1 - 5, by omega⟩
  unfold hsTail
  by_cases h1 : h.metadataSize = 0 <;> by_cases h2 : h.yourip = [] <;>
    simp [h1, h2, parseHsFields, kM, kV, kYourip, kMetadataSize, kReqq, hI1, hI2] <;>
    simp_all
theorem mapToks_length (m : List (Bytes × Nat)) : (mapToks m).length = 2 * m.length := by
  induction m with
  | nil => rfl
  | cons q m ih =>
    have : mapToks (q :: m) = [Tok.str q.1, Tok.int (natDec q.2)] ++ mapToks m := rfl
    rw [this, List.length_append, ih]; simp; omega

theorem hsTail_length (h : Handshake) : 4 ≤ (hsTail h).length := by
  unfold hsTail; simp; omega

theorem parseExt_handshake (h : Handshake) (hw : WFHandshake h) :
    (parseExt 0 (encHandshake h)).1 = some (.handshake h) := by
  have htok : tokenize (encHandshake h) = some (hsToks h, []) := by
    have := tokenize_render (hsToks h) [] (hsToks_wn h)
    rwa [List.append_nil, ← encHandshake_render] at this
  unfold parseExt
  simp only [show ¬ (0 > 2) by decide, if_false, htok]
  unfold hsToks
  have hl := mapToks_length h.m
  have ht := hsTail_length h
  dsimp only
  rw [parseHs_hsToks h hw _ (by simp [hl]; omega)]
  obtain ⟨_, _, hms0, _, hrq0, _⟩ := hw
  have h1 : ¬ h.metadataSize < 0 := by omega
  have h2 : ¬ h.reqq < 0 := by omega
  simp [h1, h2]

/-! metadata -/

def mdToks (m : Metadata) : List Tok :=
  Tok.dct :: Tok.str kMsgType :: Tok.int (intDec m.msgType) :: Tok.str kPiece :: Tok.int (natDec m.piece) ::
    ((if m.totalSize = 0 then [] else [Tok.str kTotalSize, Tok.int (intDec m.totalSize)]) ++ [Tok.fin])

def WFMetadata (m : Metadata) : Prop :=
  -9223372036854775808 ≤ m.msgType ∧ m.msgType < 9223372036854775808 ∧ m.piece < 4294967296 ∧
  -9223372036854775808 ≤ m.totalSize ∧ m.totalSize < 9223372036854775808

theorem encMetadata_render (m : Metadata) : encMetadata m = render (mdToks m) ++ m.data := by
  unfold encMetadata mdToks
  by_cases h1 : m.totalSize = 0 <;>
    simp [h1, render, renderTok, encInt, encNat, List.flatMap_cons, List.flatMap_nil]

theorem natDec_no_e (n : Nat) : 101 ∉ natDec n := by
  intro h; have := natDec_digits' _ _ h; omega

theorem mdToks_wn (m : Metadata) : wn 0 (mdToks m) = true := by
  unfold mdToks
  have h1 := intDec_no_e m.msgType
  have h2 := natDec_no_e m.piece
  have h3 := intDec_no_e m.totalSize
  by_cases h0 : m.totalSize = 0 <;> simp [h0, wn, maxDepth, h1, h2, h3]

theorem parseExt_metadata (m : Metadata) (hw : WFMetadata m) :
    (parseExt 1 (encMetadata m)).1 = some (.metadata m) := by
  obtain ⟨ht0, ht1, hp, hs0, hs1⟩ := hw
  have htok : tokenize (encMetadata m) = some (mdToks m, m.data) := by
    rw [encMetadata_render]; exact tokenize_render (mdToks m) m.data (mdToks_wn m)
  have hI1 := strconvInt64_intDec m.msgType ht0 ht1
  have hI2 := strconvInt64_intDec m.totalSize hs0 hs1
  have hU := strconvUint64_natDec m.piece (by omega)
  have hmod : m.piece % 4294967296 = m.piece := by omega
  unfold parseExt
  simp only [show ¬ (1 > 2) by decide, if_false, htok]
  unfold mdToks
  by_cases h0 : m.totalSize = 0 <;>
    simp [h0, parseMdFields, kMsgType, kPiece, kTotalSize, hI1, hI2, hU, hmod] <;> simp_all
  all_goals (cases m; simp_all)

/-! pex -/

def pexToks (p : Pex) : List Tok :=
  [Tok.dct, Tok.str kAdded, Tok.str p.added, Tok.str kDropped, Tok.str p.dropped, Tok.fin]

theorem parseExt_pex (p : Pex) : (parseExt 2 (encPex p)).1 = some (.pex p) := by
  have henc : encPex p = render (pexToks p) ++ [] := by
    simp [encPex, pexToks, render, renderTok]
  have htok : tokenize (encPex p) = some (pexToks p, []) := by
    rw [henc]; exact tokenize_render (pexToks p) [] (by simp [pexToks, wn, maxDepth])
  unfold parseExt
  simp only [show ¬ (2 > 2) by decide, if_false, htok]
  simp [pexToks, parsePexFields, kAdded, kDropped]


/-- Well-formed extension payload (what the writer can be asked to send and the reader returns
unchanged): see `WFHandshake`, `WFMetadata`; every PEX payload is well-formed. -/
def WFPayload : ExtPayload → Prop
  | .handshake h => WFHandshake h
  | .metadata m => WFMetadata m
  | .pex _ => True

theorem parseExt_encPayload (p : ExtPayload) (hw : WFPayload p) :
    (parseExt (kindId p) (encPayload p)).1 = some p := by
  cases p with
  | handshake h => exact parseExt_handshake h hw
  | metadata m => exact parseExt_metadata m hw
  | pex q => exact parseExt_pex q

end Rain.Bencode
