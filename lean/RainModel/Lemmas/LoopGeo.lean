import RainModel.Lemmas.LoopInv
/-!
A little geometry of `Cfg.sections`: a non-empty section lies in a file that exists in the file list.
-/
namespace Rain.Loop

theorem npPiece_len (flens : List Nat) (length : Nat) :
    ∀ (fuel left : Nat) (c : NPCur) (acc : List Sect),
      (∀ sc ∈ acc, sc.len ≤ flens.getD sc.file 0) →
      ∀ sc ∈ (npPiece flens length fuel left c acc).1, sc.len ≤ flens.getD sc.file 0 := by
  intro fuel
  induction fuel with
  | zero =>
    intro left c acc h sc hsc
    simp only [npPiece, List.mem_reverse] at hsc
    exact h sc hsc
  | succ n ih =>
    intro left c acc h sc hsc
    unfold npPiece at hsc
    split at hsc
    · simp only [List.mem_reverse] at hsc
      exact h sc hsc
    · have hacc : ∀ sc ∈ ((⟨c.fileIndex, c.fileOffset, min left (flens.getD c.fileIndex 0 - c.fileOffset)⟩ : Sect) :: acc),
          sc.len ≤ flens.getD sc.file 0 := by
        intro sc hsc
        simp only [List.mem_cons] at hsc
        rcases hsc with rfl | hsc
        · simp only; omega
        · exact h sc hsc
      dsimp only at hsc
      split at hsc
      · simp only [List.mem_reverse] at hsc
        exact hacc sc hsc
      · exact ih _ _ _ hacc sc hsc

theorem npAll_len (flens : List Nat) (pl length : Nat) :
    ∀ (k : Nat) (c : NPCur), ∀ secs ∈ npAll flens pl length k c, ∀ sc ∈ secs, sc.len ≤ flens.getD sc.file 0 := by
  intro k
  induction k with
  | zero => intro c secs h; simp [npAll] at h
  | succ k ih =>
    intro c secs h sc hsc
    unfold npAll at h
    simp only [List.mem_cons] at h
    rcases h with rfl | h
    · exact npPiece_len flens length _ _ _ [] (fun _ h => by cases h) sc hsc
    · exact ih _ secs h sc hsc

/-- A non-empty section of any piece lies in a file of the file list. -/
theorem sections_file_lt (c : Cfg) (i : Nat) (sc : Sect) (h : sc ∈ c.sections i) (hl : sc.len > 0) :
    sc.file < c.flens.length := by
  unfold Cfg.sections at h
  have hmem : (npAll c.flens c.pl c.flens.sum c.n {}).getD i [] ∈ npAll c.flens c.pl c.flens.sum c.n {} ∨
      (npAll c.flens c.pl c.flens.sum c.n {}).getD i [] = [] := by
    rw [List.getD_eq_getElem?_getD]
    cases hg : (npAll c.flens c.pl c.flens.sum c.n {})[i]? with
    | none => right; rfl
    | some v => left; exact List.mem_of_getElem? hg
  rcases hmem with hm | hm
  · have := npAll_len c.flens c.pl c.flens.sum c.n {} _ hm sc h
    by_cases hlt : sc.file < c.flens.length
    · exact hlt
    · rw [List.getD_eq_getElem?_getD, List.getElem?_eq_none (by omega)] at this
      simp at this
      omega
  · rw [hm] at h; cases h

end Rain.Loop
