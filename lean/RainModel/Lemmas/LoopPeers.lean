import RainModel.Lemmas.LoopSound
/-!
Peers, bans and piece writes (C01 (v), C18 glue): exact effect of `closePeer` on the peer list, the
failed-hash branch of `handlePieceWriteDone`, `writerRun`.
-/
namespace Rain.Loop

/-- After `closePeer k` no connected peer has key `k`. -/
theorem closePeer_no_peer (s : St) (k : Nat) : ∀ q ∈ (s.closePeer k).peers, q.k ≠ k := by
  unfold St.closePeer
  split
  · next h =>
    unfold St.findPeer at h
    rw [List.find?_eq_none] at h
    intro q hq
    simpa using h q hq
  · dsimp only
    intro q hq
    split at hq <;> simp at hq <;> exact hq.2

/-! ### `writerRun` on a job whose hash failed -/

theorem pwdBan_spec (m : M) (w : WriteJob) :
    (∀ q ∈ (pwdBan m w).1.peers, q.k ≠ w.src) ∧
    (∀ p, m.1.findPeer w.src = some p → p.ip ∈ (pwdBan m w).1.banned) ∧
    (∀ ip ∈ m.1.banned, ip ∈ (pwdBan m w).1.banned) := by
  unfold pwdBan
  dsimp only
  simp only [onSt_fst, closePeerM_fst, startDls_peers, startDls_banned, closePeer_banned]
  refine ⟨closePeer_no_peer _ _, ?_, ?_⟩
  · intro p hp
    simp only [hp, Option.map_some, Option.getD_some]
    split
    · next h => simpa using h
    · simp
  · intro ip hip
    split
    · exact hip
    · simp [hip]

/-- **A job whose hash failed writes nothing; its source is disconnected and banned.** -/
theorem writerRun_bad_job (m : M) (w : WriteJob) (hg : w.good = false) :
    (writerRun m w).1.sto = m.1.sto ∧ (writerRun m w).1.bad = m.1.bad ∧
    (writerRun m w).1.bf = m.1.bf ∧
    (∀ q ∈ (writerRun m w).1.peers, q.k ≠ w.src) ∧
    (∀ p, m.1.findPeer w.src = some p → p.ip ∈ (writerRun m w).1.banned) := by
  unfold writerRun
  simp only [hg, Bool.not_false, ↓reduceIte]
  rw [handlePieceWriteDone_eq]
  simp only [hg, Bool.not_false, ↓reduceIte]
  have h := pwdBan_spec (pwdReset m w) w
  refine ⟨by simp, by simp, by simp, h.1, ?_⟩
  intro p hp
  exact h.2.1 p (by simpa using hp)

/-- **`acceptPeer` never accepts a banned address.** -/
theorem banned_not_accepted (m : M) (k : Nat) (ip : String) (fast ext badHash dupId : Bool)
    (hb : ip ∈ m.1.banned) : acceptPeer m k ip fast ext badHash dupId = (m, "refused-closed") := by
  unfold acceptPeer
  dsimp only
  split
  · rfl
  · split
    · rfl
    · simp [hb]

/-- The disk image changes only for the piece of a verified job, and that piece is then good. -/
theorem writerRun_disk (m : M) (w : WriteJob) :
    (writerRun m w).1.bad = m.1.bad ∨
    (w.good = true ∧ w.gen = m.1.gen ∧ m.1.loaded = true ∧ m.1.failWrite = false ∧
      (writerRun m w).1.bad = m.1.bad.filter (fun b => b.1 ≠ w.piece) ∧
      (writerRun m w).1.diskOKi w.piece = true) := by
  unfold writerRun
  split
  · left; simp
  · next hg =>
    dsimp only
    split
    · left; simp
    · split
      · left; simp
      · next hst =>
        split
        · left; simp
        · next hf =>
          right
          simp only [Bool.or_eq_true, ne_eq, decide_eq_true_eq, Bool.not_eq_true', not_or,
            Decidable.not_not, Bool.not_eq_false] at hst
          refine ⟨by simpa using hg, hst.1, hst.2, by simpa using hf, by simp, ?_⟩
          have hpad : m.1.cfg.padOK w.piece = true := padOK_of_stored (by rw [‹List.filter _ _ = _ :: _›]; simp)
          simp [St.diskOKi, hpad]

end Rain.Loop
