import RainModel.Model.ResumeCodec
/-!
Round-trip lemmas for the resume record codec (C14).
-/
namespace Rain.ResumeCodec
open List

/-! ### Decimal numbers -/

theorem digitsRev_foldr : ∀ (fuel n : Nat), n < fuel →
    (digitsRev fuel n).foldr (fun d a => a * 10 + d) 0 = n
  | 0, _, h => by omega
  | fuel + 1, n, h => by
    unfold digitsRev
    by_cases h10 : n < 10
    · simp [h10]
    · simp only [h10, if_false, List.foldr_cons]
      rw [digitsRev_foldr fuel (n / 10) (by omega)]
      omega

theorem digitsRev_lt : ∀ (fuel n : Nat), ∀ d ∈ digitsRev fuel n, d < 10
  | 0, _, d, hd => by simp [digitsRev] at hd
  | fuel + 1, n, d, hd => by
    unfold digitsRev at hd
    by_cases h10 : n < 10
    · simp [h10] at hd; omega
    · simp only [h10, if_false, List.mem_cons] at hd
      rcases hd with rfl | hd
      · omega
      · exact digitsRev_lt fuel (n / 10) d hd

theorem digitsRev_ne_nil (fuel n : Nat) : digitsRev (fuel + 1) n ≠ [] := by
  unfold digitsRev
  by_cases h10 : n < 10 <;> simp [h10]

theorem foldl_digits (ds : List Nat) (h : ∀ d ∈ ds, d < 10) (acc : Nat) :
    (ds.map (· + 48)).foldl decStep (some acc) = some (ds.foldl (fun a d => a * 10 + d) acc) := by
  induction ds generalizing acc with
  | nil => rfl
  | cons d ds ih =>
    have hd : d < 10 := h d List.mem_cons_self
    simp only [List.map_cons, List.foldl_cons]
    have : (48 ≤ d + 48 ∧ d + 48 ≤ 57) := by omega
    simp only [decStep, this, and_self, if_true]
    rw [Nat.add_sub_cancel]
    exact ih (fun d' hd' => h d' (List.mem_cons_of_mem _ hd')) _

theorem takeWhile_all {p : Nat → Bool} : ∀ (l : List Nat), ∀ b ∈ l.takeWhile p, p b = true
  | [], b, hb => by simp at hb
  | a :: l, b, hb => by
    rw [List.takeWhile_cons] at hb
    by_cases hpa : p a = true
    · simp only [hpa, if_true, List.mem_cons] at hb
      rcases hb with rfl | hb
      · exact hpa
      · exact takeWhile_all l b hb
    · simp [hpa] at hb

theorem decToNat_natToDec (n : Nat) : decToNat (natToDec n) = some n := by
  unfold decToNat natToDec
  have hne : ((digitsRev (n + 1) n).reverse.map (· + 48)) ≠ [] := by
    simp [digitsRev_ne_nil]
  rw [if_neg hne]
  rw [foldl_digits _ (fun d hd => digitsRev_lt (n + 1) n d (List.mem_reverse.1 hd))]
  rw [List.foldl_reverse]
  exact congrArg some (digitsRev_foldr (n + 1) n (by omega))

/-- The first byte of a decimal rendering is a digit. -/
theorem natToDec_head (n : Nat) : ∃ c r, natToDec n = c :: r ∧ 48 ≤ c ∧ c ≤ 57 := by
  unfold natToDec
  have hne := digitsRev_ne_nil n n
  cases hrev : (digitsRev (n + 1) n).reverse with
  | nil => simp at hrev; exact absurd hrev hne
  | cons d ds =>
    refine ⟨d + 48, ds.map (· + 48), by simp, ?_⟩
    have : d ∈ (digitsRev (n + 1) n).reverse := by rw [hrev]; exact List.mem_cons_self
    have := digitsRev_lt (n + 1) n d (List.mem_reverse.1 this)
    omega

theorem atoi_itoa (i : Int) (h : inInt64 i) : atoi (itoa i) = some i := by
  unfold itoa
  by_cases hneg : i < 0
  · rw [if_pos hneg]
    unfold atoi
    simp only [if_true, decToNat_natToDec, Option.bind_some]
    have : -((i.natAbs : Nat) : Int) = i := by omega
    rw [this, if_pos h]
  · rw [if_neg hneg]
    obtain ⟨c, r, hcr, h1, h2⟩ := natToDec_head i.natAbs
    unfold atoi
    rw [hcr]
    have h45 : c ≠ 45 := by omega
    have h43 : c ≠ 43 := by omega
    simp only [h45, h43, if_false]
    rw [← hcr, decToNat_natToDec]
    simp only [Option.bind_some]
    have : ((i.natAbs : Nat) : Int) = i := by omega
    rw [this, if_pos h]

/-! ### Booleans -/

theorem parseBool_fmtBool (b : Bool) : parseBool (fmtBool b) = some b := by
  cases b <;> decide

/-! ### Time -/

theorem strip_pad (l : List Nat) :
    stripTrailingZeros l ++ List.replicate (l.length - (stripTrailingZeros l).length) 0 = l := by
  unfold stripTrailingZeros
  have hsplit := List.takeWhile_append_dropWhile (p := fun x : Nat => decide (x = 0)) (l := l.reverse)
  have htw : (l.reverse.takeWhile (fun x => decide (x = 0))).reverse =
      List.replicate (l.reverse.takeWhile (fun x => decide (x = 0))).length 0 := by
    rw [List.eq_replicate_iff]
    refine ⟨by simp, ?_⟩
    intro b hb
    have := takeWhile_all _ b (List.mem_reverse.1 hb)
    simpa using this
  have hl : l = (l.reverse.dropWhile (fun x => decide (x = 0))).reverse ++
      (l.reverse.takeWhile (fun x => decide (x = 0))).reverse := by
    rw [← List.reverse_append, hsplit, List.reverse_reverse]
  have hlen : l.length = (l.reverse.dropWhile (fun x => decide (x = 0))).length +
      (l.reverse.takeWhile (fun x => decide (x = 0))).length := by
    have := congrArg List.length hsplit
    simp only [List.length_append, List.length_reverse] at this
    omega
  conv => rhs; rw [hl]
  congr 1
  rw [List.length_reverse, htw]
  congr 1
  omega

theorem strip_length_le (l : List Nat) : (stripTrailingZeros l).length ≤ l.length := by
  unfold stripTrailingZeros
  rw [List.length_reverse]
  have := (List.dropWhile_sublist (fun x : Nat => decide (x = 0)) (l := l.reverse)).length_le
  simpa using this

theorem strip_subset (l : List Nat) : ∀ d ∈ stripTrailingZeros l, d ∈ l := by
  intro d hd
  unfold stripTrailingZeros at hd
  have := (List.dropWhile_sublist (fun x : Nat => decide (x = 0)) (l := l.reverse)).subset (List.mem_reverse.1 hd)
  exact List.mem_reverse.1 this

theorem ofDigits_nineDigits (n : Nat) (h : n < 1000000000) : ofDigits (nineDigits n) = n := by
  unfold ofDigits nineDigits
  simp only [List.foldl_cons, List.foldl_nil]
  omega

theorem nineDigits_lt (n : Nat) : ∀ d ∈ nineDigits n, d < 10 := by
  intro d hd
  unfold nineDigits at hd
  simp only [List.mem_cons, List.not_mem_nil, or_false] at hd
  omega

theorem decTime_encTime (t : Time) (h : t.nsec < 1000000000) : decTime (encTime t) = some t := by
  unfold encTime decTime
  have hlen : (stripTrailingZeros (nineDigits t.nsec)).length ≤ 9 := by
    have := strip_length_le (nineDigits t.nsec)
    simpa [nineDigits] using this
  have hall : (stripTrailingZeros (nineDigits t.nsec)).all (· < 10) = true := by
    rw [List.all_eq_true]
    intro d hd
    simpa using nineDigits_lt t.nsec d (strip_subset _ d hd)
  simp only [hlen, hall, and_self, if_true]
  have hpad := strip_pad (nineDigits t.nsec)
  have h9 : (nineDigits t.nsec).length = 9 := rfl
  rw [h9] at hpad
  rw [hpad, ofDigits_nineDigits _ h]

theorem decDuration_encDuration (d : Int) (h : inInt64 d) : decDuration (encDuration d) = some d := by
  simp [encDuration, decDuration, h]

/-! ### The record -/

/-- The numeric fields are within the Go types' ranges (`int`, `int64`, `time.Duration`; nanoseconds
of a `time.Time` are below one second). -/
structure InRange (s : Spec) : Prop where
  port : inInt64 s.port
  dl : inInt64 s.bytesDownloaded
  ul : inInt64 s.bytesUploaded
  wa : inInt64 s.bytesWasted
  se : inInt64 s.seededFor
  ver : inInt64 s.version
  nsec : s.addedAt.nsec < 1000000000

/-- The three JSON-encoded lists decode to themselves. -/
def JsonOk (s : Spec) : Prop :=
  decTiers (encTiers s.trackers) = some s.trackers ∧
  decStrList (encStrList s.urlList) = some s.urlList ∧
  decStrList (encStrList s.fixedPeers) = some s.fixedPeers

instance (s : Spec) : Decidable (JsonOk s) := by unfold JsonOk; infer_instance

theorem read_write (s : Spec) (hr : InRange s) (hj : JsonOk s) : read (write s) = some (stored s) := by
  have hv : inInt64 (if s.version = 0 then latestVersion else s.version) := by
    by_cases h0 : s.version = 0
    · rw [if_pos h0]; decide
    · rw [if_neg h0]; exact hr.ver
  simp only [read, write, writeWith, get, getRaw, List.find?, stored]
  simp [atoi_itoa _ hr.port, atoi_itoa _ hr.dl, atoi_itoa _ hr.ul, atoi_itoa _ hr.wa, atoi_itoa _ hv,
    decTime_encTime _ hr.nsec, decDuration_encDuration _ hr.se, parseBool_fmtBool, hj.1, hj.2.1, hj.2.2]

end Rain.ResumeCodec
