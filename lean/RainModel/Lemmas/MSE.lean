import RainModel.Model.MSE
/-!
Helper lemmas for `Model/MSE` (core Lean only).
-/
namespace Rain.MSE

/-! ### the bounded scan -/

/-- `key` occurs in `s` at offset `j`. -/
def MatchAt (key s : Bytes) (j : Nat) : Prop := (s.drop j).take key.length = key

instance (key s : Bytes) (j : Nat) : Decidable (MatchAt key s j) := by unfold MatchAt; infer_instance

theorem matchAt_drop_one (key s : Bytes) (j : Nat) : MatchAt key (s.drop 1) j ↔ MatchAt key s (j + 1) := by
  unfold MatchAt
  rw [List.drop_drop]
  have : 1 + j = j + 1 := by omega
  rw [this]

/-- sliding the window by one byte. -/
theorem window_slide (s : Bytes) (L : Nat) (b : Nat) (rest : Bytes) (hL : 0 < L)
    (h : s.drop L = b :: rest) :
    (s.take L).drop 1 ++ [b] = (s.drop 1).take L ∧ rest = (s.drop 1).drop L := by
  cases s with
  | nil => simp at h
  | cons a t =>
    obtain ⟨n, rfl⟩ : ∃ n, L = n + 1 := ⟨L - 1, by omega⟩
    simp only [List.drop_succ_cons, List.take_succ_cons, List.drop_zero] at h ⊢
    constructor
    · rw [List.take_add_one]
      have : t[n]? = some b := by
        have := congrArg List.head? h
        simpa [List.head?_drop] using this
      simp [this]
    · have := congrArg List.tail h
      simpa [List.drop_drop, Nat.add_comm] using this.symm

theorem syncLoop_found (key : Bytes) : ∀ (k : Nat) (s : Bytes) (m : Int),
    MatchAt key s k → (∀ j, j < k → ¬ MatchAt key s j) → (k : Int) ≤ m → k + key.length ≤ s.length →
    syncLoop key (s.take key.length) m (s.drop key.length) = .found (s.drop (k + key.length)) := by
  intro k
  induction k with
  | zero =>
    intro s m h0 _ _ _
    have : s.take key.length = key := by simpa [MatchAt] using h0
    rw [Nat.zero_add]
    cases s.drop key.length <;> simp [syncLoop, this]
  | succ k ih =>
    intro s m hk hno hm hlen
    have h0 : s.take key.length ≠ key := by
      have := hno 0 (by omega)
      simpa [MatchAt] using this
    have hL : 0 < key.length := by
      rcases Nat.eq_zero_or_pos key.length with h | h
      · exfalso; apply h0
        have : key = [] := List.eq_nil_of_length_eq_zero h
        simp [this]
      · exact h
    cases hd : s.drop key.length with
    | nil =>
      have := congrArg List.length hd
      simp at this; omega
    | cons b rest =>
      obtain ⟨hw, hr⟩ := window_slide s key.length b rest hL hd
      have hm' : ¬ m ≤ 0 := by omega
      simp only [syncLoop, h0, hm', if_false]
      rw [hw, hr]
      have := ih (s.drop 1) (m - 1) ((matchAt_drop_one key s k).2 hk)
        (fun j hj => by rw [matchAt_drop_one]; exact hno (j + 1) (by omega))
        (by omega) (by simp only [List.length_drop]; omega)
      rw [this, List.drop_drop]
      have e : 1 + (k + key.length) = k + 1 + key.length := by omega
      rw [e]

theorem syncLoop_notFound (key : Bytes) : ∀ (n : Nat) (s : Bytes) (m : Int),
    (∀ j, j ≤ n → ¬ MatchAt key s j) → m = (n : Int) → n + key.length ≤ s.length →
    syncLoop key (s.take key.length) m (s.drop key.length) = .notFound (s.drop (n + key.length)) := by
  intro n
  induction n with
  | zero =>
    intro s m hno hm _
    have h0 : s.take key.length ≠ key := by
      have := hno 0 (by omega)
      simpa [MatchAt] using this
    subst hm
    rw [Nat.zero_add]
    cases s.drop key.length <;> simp [syncLoop, h0]
  | succ n ih =>
    intro s m hno hm hlen
    have h0 : s.take key.length ≠ key := by
      have := hno 0 (by omega)
      simpa [MatchAt] using this
    have hL : 0 < key.length := by
      rcases Nat.eq_zero_or_pos key.length with h | h
      · exfalso; apply h0
        have : key = [] := List.eq_nil_of_length_eq_zero h
        simp [this]
      · exact h
    cases hd : s.drop key.length with
    | nil =>
      have := congrArg List.length hd
      simp at this; omega
    | cons b rest =>
      obtain ⟨hw, hr⟩ := window_slide s key.length b rest hL hd
      have hm' : ¬ m ≤ 0 := by omega
      simp only [syncLoop, h0, hm', if_false]
      rw [hw, hr]
      have := ih (s.drop 1) (m - 1)
        (fun j hj => by rw [matchAt_drop_one]; exact hno (j + 1) (by omega))
        (by omega) (by simp only [List.length_drop]; omega)
      rw [this, List.drop_drop]
      have e : 1 + (n + key.length) = n + 1 + key.length := by omega
      rw [e]


theorem syncLoop_sound (key : Bytes) : ∀ (n : Nat) (s : Bytes) (m : Int) (r : Bytes),
    m = (n : Int) → key.length ≤ s.length →
    syncLoop key (s.take key.length) m (s.drop key.length) = .found r →
    ∃ k, k ≤ n ∧ MatchAt key s k ∧ (∀ j, j < k → ¬ MatchAt key s j) ∧ k + key.length ≤ s.length ∧
      r = s.drop (k + key.length) := by
  intro n
  induction n with
  | zero =>
    intro s m r hm hlen h
    subst hm
    by_cases h0 : s.take key.length = key
    · refine ⟨0, Nat.le_refl _, by simpa [MatchAt] using h0, by intro j hj; omega, by omega, ?_⟩
      rw [Nat.zero_add]
      revert h
      cases s.drop key.length <;> simp [syncLoop, h0] <;> intro h <;> exact h.symm
    · revert h
      cases s.drop key.length <;> simp [syncLoop, h0]
  | succ n ih =>
    intro s m r hm hlen h
    by_cases h0 : s.take key.length = key
    · refine ⟨0, by omega, by simpa [MatchAt] using h0, by intro j hj; omega, by omega, ?_⟩
      rw [Nat.zero_add]
      revert h
      cases s.drop key.length <;> simp [syncLoop, h0] <;> intro h <;> exact h.symm
    · have hL : 0 < key.length := by
        rcases Nat.eq_zero_or_pos key.length with h | h
        · exfalso; apply h0
          have : key = [] := List.eq_nil_of_length_eq_zero h
          simp [this]
        · exact h
      have hm' : ¬ m ≤ 0 := by omega
      cases hd : s.drop key.length with
      | nil => rw [hd] at h; simp [syncLoop, h0, hm'] at h
      | cons b rest =>
        obtain ⟨hw, hr⟩ := window_slide s key.length b rest hL hd
        rw [hd] at h
        simp only [syncLoop, h0, hm', if_false] at h
        rw [hw, hr] at h
        have hlen' : key.length ≤ (s.drop 1).length := by
          have := congrArg List.length hd
          simp only [List.length_drop, List.length_cons] at this ⊢
          omega
        obtain ⟨k, hk, hmk, hno, hkl, hrr⟩ := ih (s.drop 1) (m - 1) r (by omega) hlen' h
        refine ⟨k + 1, by omega, (matchAt_drop_one key s k).1 hmk, ?_, ?_, ?_⟩
        · intro j hj
          cases j with
          | zero => simpa [MatchAt] using h0
          | succ j => rw [← matchAt_drop_one]; exact hno j (by omega)
        · simp only [List.length_drop] at hkl; omega
        · rw [hrr, List.drop_drop]
          have e : 1 + (k + key.length) = k + 1 + key.length := by omega
          rw [e]

/-- Whether `key` occurs at offset `j` of `a ++ b` is decided by `a` when the window fits in `a`. -/
theorem matchAt_append_left (key a b : Bytes) (j : Nat) (h : j + key.length ≤ a.length) :
    MatchAt key (a ++ b) j ↔ MatchAt key a j := by
  unfold MatchAt
  rw [List.drop_append_of_le_length (by omega), List.take_append_of_le_length (by simp; omega)]

theorem matchAt_drop (key s : Bytes) (d j : Nat) : MatchAt key (s.drop d) j ↔ MatchAt key s (d + j) := by
  unfold MatchAt
  rw [List.drop_drop]

/-- **The scan finds the first occurrence.** If `key` first occurs in `s` at offset `k` and the
budget covers it, `readSync` returns with exactly the bytes after the marker left. -/
theorem readSync_found (key s : Bytes) (max : Int) (k : Nat)
    (hk : MatchAt key s k) (hno : ∀ j, j < k → ¬ MatchAt key s j)
    (hb : ((k + key.length : Nat) : Int) ≤ max) (hlen : k + key.length ≤ s.length) :
    readSync key max s = .found (s.drop (k + key.length)) := by
  unfold readSync
  have : ¬ s.length < key.length := by omega
  simp only [this, if_false]
  exact syncLoop_found key k s _ hk hno (by omega) hlen

/-- **The scan gives up within its budget.** No occurrence whose end lies within the first `max`
bytes: "sync point is not found" after exactly `max` bytes. -/
theorem readSync_notFound (key s : Bytes) (max : Nat) (hmax : key.length ≤ max) (hlen : max ≤ s.length)
    (hno : ∀ j, j + key.length ≤ max → ¬ MatchAt key s j) :
    readSync key (max : Int) s = .notFound (s.drop max) := by
  unfold readSync
  have : ¬ s.length < key.length := by omega
  simp only [this, if_false]
  have := syncLoop_notFound key (max - key.length) s ((max : Int) - key.length)
    (fun j hj => hno j (by omega)) (by omega) (by omega)
  rw [this]
  congr 2; omega

/-- Whatever the input: a successful scan stopped at the first occurrence, inside the budget. -/
theorem readSync_sound (key s : Bytes) (max : Nat) (hmax : key.length ≤ max) (r : Bytes)
    (h : readSync key (max : Int) s = .found r) :
    ∃ k, MatchAt key s k ∧ (∀ j, j < k → ¬ MatchAt key s j) ∧ k + key.length ≤ max ∧
      k + key.length ≤ s.length ∧ r = s.drop (k + key.length) := by
  unfold readSync at h
  by_cases hl : s.length < key.length
  · simp [hl] at h
  · simp only [hl, if_false] at h
    obtain ⟨k, hk, hm, hno, hkl, hr⟩ :=
      syncLoop_sound key (max - key.length) s _ r (by omega) (by omega) h
    exact ⟨k, hm, hno, by omega, hkl, hr⟩

/-! ### bytes, XOR, key-streams -/

@[simp] theorem zeros_length (n : Nat) : (zeros n).length = n := by simp [zeros]
@[simp] theorem vc_length : vc.length = 8 := by simp [vc]
@[simp] theorem be16_length (n : Nat) : (be16 n).length = 2 := rfl
@[simp] theorem be32_length (n : Nat) : (be32 n).length = 4 := rfl

theorem fromBE_be16 (n : Nat) (h : n < 65536) : fromBE (be16 n) = n := by
  simp only [fromBE, be16, List.foldl]
  omega

theorem fromBE_be32 (n : Nat) (h : n < 4294967296) : fromBE (be32 n) = n := by
  simp only [fromBE, be32, List.foldl]
  omega

theorem xor_cancel_right (a k : Nat) : (a ^^^ k) ^^^ k = a := by
  rw [Nat.xor_assoc, Nat.xor_self, Nat.xor_zero]

@[simp] theorem xorBytes_length (a b : Bytes) : (xorBytes a b).length = min a.length b.length := by
  simp [xorBytes]

theorem xorBytes_cancel : ∀ (a b : Bytes), a.length ≤ b.length → xorBytes (xorBytes a b) b = a
  | [], _, _ => by simp [xorBytes]
  | _ :: _, [], h => by simp at h
  | x :: a, y :: b, h => by
    have := xorBytes_cancel a b (by simpa using h)
    simp only [xorBytes, List.zipWith_cons_cons] at this ⊢
    rw [this, xor_cancel_right]

theorem xorBytes_comm : ∀ (a b : Bytes), xorBytes a b = xorBytes b a
  | [], b => by cases b <;> simp [xorBytes]
  | _ :: _, [] => by simp [xorBytes]
  | x :: a, y :: b => by
    have := xorBytes_comm a b
    simp only [xorBytes, List.zipWith_cons_cons] at this ⊢
    rw [this, Nat.xor_comm]

@[simp] theorem xorAt_length (ks : Nat → Nat) : ∀ (p : Nat) (a : Bytes), (xorAt ks p a).length = a.length
  | _, [] => rfl
  | p, _ :: a => by simp [xorAt, xorAt_length ks (p + 1) a]

theorem xorAt_append (ks : Nat → Nat) : ∀ (p : Nat) (a b : Bytes),
    xorAt ks p (a ++ b) = xorAt ks p a ++ xorAt ks (p + a.length) b
  | _, [], _ => by simp [xorAt]
  | p, x :: a, b => by
    simp only [List.cons_append, xorAt, List.length_cons]
    rw [xorAt_append ks (p + 1) a b]
    have : p + 1 + a.length = p + (a.length + 1) := by omega
    rw [this]

theorem xorAt_xorAt (ks : Nat → Nat) : ∀ (p : Nat) (a : Bytes), xorAt ks p (xorAt ks p a) = a
  | _, [] => rfl
  | p, x :: a => by simp [xorAt, xorAt_xorAt ks (p + 1) a, xor_cancel_right]

/-! ### cipher states -/

@[simp] theorem apply_length (c : Ciph) (a : Bytes) : (c.apply a).1.length = a.length := by
  unfold Ciph.apply; split <;> simp

@[simp] theorem apply_ks (c : Ciph) (a : Bytes) : (c.apply a).2.ks = c.ks := by
  unfold Ciph.apply; split <;> simp
@[simp] theorem apply_plain (c : Ciph) (a : Bytes) : (c.apply a).2.plain = c.plain := by
  unfold Ciph.apply; split <;> simp [*]

@[simp] theorem apply_nil (c : Ciph) : c.apply [] = ([], c) := by
  unfold Ciph.apply; split <;> simp [xorAt]

theorem apply_append (c : Ciph) (a b : Bytes) :
    c.apply (a ++ b) = ((c.apply a).1 ++ ((c.apply a).2.apply b).1, ((c.apply a).2.apply b).2) := by
  unfold Ciph.apply
  by_cases h : c.plain
  · simp [h]
  · simp [h, xorAt_append, Nat.add_assoc]

/-- Decrypting with an equal state what was encrypted gives the plaintext back and leaves both
states equal. -/
theorem apply_apply (c : Ciph) (a : Bytes) : c.apply (c.apply a).1 = (a, (c.apply a).2) := by
  unfold Ciph.apply
  by_cases h : c.plain
  · simp [h]
  · simp [h, xorAt_xorAt]

theorem apply_rc4 (ks : Nat → Nat) (p : Nat) (a : Bytes) :
    (Ciph.apply ⟨ks, p, false⟩ a) = (xorAt ks p a, ⟨ks, p + a.length, false⟩) := by
  simp [Ciph.apply]

theorem readN_append (a b : Bytes) (n : Nat) (h : n = a.length) : readN n (a ++ b) = .ok (a, b) := by
  subst h; simp [readN]

theorem readN_ok {n : Nat} {inp a b : Bytes} (h : readN n inp = .ok (a, b)) :
    inp = a ++ b ∧ a.length = n := by
  unfold readN at h
  split at h
  · simp at h
    obtain ⟨rfl, rfl⟩ := h
    exact ⟨(List.take_append_drop n inp).symm, by simp; omega⟩
  · simp at h

/-- Reading back, with the writer's state, the first field of what the writer encrypted. -/
theorem read_apply (r : Ciph) (a b rest : Bytes) (n : Nat) (hn : n = a.length) :
    r.read n ((r.apply (a ++ b)).1 ++ rest)
      = .ok (a, (r.apply a).2, ((r.apply a).2.apply b).1 ++ rest) := by
  rw [apply_append]
  simp only [Ciph.read, List.append_assoc]
  rw [readN_append _ _ n (by simp [hn])]
  simp [apply_apply]

theorem read_apply_last (r : Ciph) (a rest : Bytes) (n : Nat) (hn : n = a.length) :
    r.read n ((r.apply a).1 ++ rest) = .ok (a, (r.apply a).2, rest) := by
  have := read_apply r a [] rest n hn
  simpa using this

/-- A length-prefixed block, read back with the writer's state. -/
theorem readBlock16_apply (r : Ciph) (n : Nat) (blk b rest : Bytes) (hn : n = blk.length) (h : n < 65536) :
    readBlock16 r ((r.apply (be16 n ++ (blk ++ b))).1 ++ rest)
      = .ok (blk, (r.apply (be16 n ++ blk)).2,
             ((r.apply (be16 n ++ blk)).2.apply b).1 ++ rest) := by
  unfold readBlock16
  rw [read_apply r (be16 n) (blk ++ b) rest 2 (by simp)]
  simp only [fromBE_be16 _ h]
  rw [read_apply _ blk b rest _ hn]
  simp [apply_append]

/-! ### the scan inside the handshake -/

/-- After a first read of `fr` bytes (`96 ≤ fr ≤ 96 + |pad|`) of `pub ‖ pad ‖ key ‖ tail`, the scan
with budget `bound - fr` stops exactly behind `key`, provided the budget reaches it and `key` does
not occur earlier (`hno`). -/
theorem sync_generic (key pub pad tail : Bytes) (fr bound : Nat)
    (hpub : pub.length = 96) (_hfr : 96 ≤ fr) (hfr2 : fr ≤ 96 + pad.length)
    (hbound : 96 + pad.length + key.length ≤ bound)
    (hno : ∀ j, fr ≤ j → j < 96 + pad.length → ¬ MatchAt key (pub ++ pad ++ key) j) :
    readSync key ((bound : Int) - fr) ((pub ++ pad ++ key ++ tail).drop fr) = .found tail := by
  have hlen : (pub ++ pad ++ key ++ tail).length = 96 + pad.length + key.length + tail.length := by
    simp [hpub]; omega
  have hk := readSync_found key ((pub ++ pad ++ key ++ tail).drop fr) ((bound : Int) - fr)
    (96 + pad.length - fr) ?_ ?_ ?_ ?_
  · rw [hk, List.drop_drop]
    have e : fr + (96 + pad.length - fr + key.length) = (pub ++ pad ++ key).length := by
      simp [hpub]; omega
    rw [e, List.drop_left]
  · rw [matchAt_drop]
    have e : fr + (96 + pad.length - fr) = (pub ++ pad).length := by simp [hpub]; omega
    unfold MatchAt
    rw [e, List.append_assoc (pub ++ pad), List.drop_left, List.take_left]
  · intro j hj
    rw [matchAt_drop]
    rw [matchAt_append_left key (pub ++ pad ++ key) tail (fr + j) (by simp [hpub]; omega)]
    exact hno (fr + j) (by omega) (by omega)
  · omega
  · simp only [List.length_drop, hlen]; omega

/-- The complementary case: no occurrence ending within the first `bound` bytes of the stream —
the scan reports failure having consumed exactly `bound` bytes of the stream. -/
theorem sync_generic_fail (key s : Bytes) (fr bound : Nat)
    (hfrb : fr + key.length ≤ bound) (hlen : bound ≤ s.length)
    (hno : ∀ j, fr ≤ j → j + key.length ≤ bound → ¬ MatchAt key s j) :
    readSync key ((bound : Int) - fr) (s.drop fr) = .notFound (s.drop bound) := by
  have := readSync_notFound key (s.drop fr) (bound - fr) (by omega) (by simp; omega)
    (fun j hj => by rw [matchAt_drop]; exact hno (fr + j) (by omega) (by omega))
  have e : ((bound - fr : Nat) : Int) = (bound : Int) - fr := by omega
  rw [e] at this
  rw [this, List.drop_drop]
  congr 2; omega


/-! ### two honest endpoints -/

/-- The secret the receiver derives. -/
def secret (c : Crypto) (o : OutCfg) (i : InCfg) : Bytes := c.dh (c.pub o.x) i.x

/-- The receiver's encrypted VC: the first 8 bytes of its send key-stream after the discard. -/
def vcEnc (c : Crypto) (o : OutCfg) (i : InCfg) : Bytes :=
  xorAt (c.ks false (secret c o i) o.sKey) 1024 vc

/-- Plaintext of the encrypted part of step 3. -/
def body3 (o : OutCfg) : Bytes :=
  vc ++ (be32 o.provide ++ (be16 o.padCLen ++ (zeros o.padCLen ++ (be16 o.ia.length ++ o.ia))))

/-- Plaintext of step 4. -/
def body4 (sel padD : Nat) : Bytes := vc ++ (be32 sel ++ (be16 padD ++ zeros padD))

theorem body3_length (o : OutCfg) : (body3 o).length = 8 + 4 + 2 + o.padCLen + 2 + o.ia.length := by
  simp [body3]; omega

theorem body4_length (sel padD : Nat) : (body4 sel padD).length = 8 + 4 + 2 + padD := by
  simp [body4]; omega

/-- Side conditions of an honest run: sizes of the cryptographic values, Diffie-Hellman agreement,
the protocol's pad limits, admissible first reads, and the two *named hypotheses* that the
synchronisation markers do not occur in the random pads before their true position. -/
structure Honest (c : Crypto) (o : OutCfg) (i : InCfg) (frA frB : Nat) : Prop where
  pubA : (c.pub o.x).length = 96
  pubB : (c.pub i.x).length = 96
  dhAgree : c.dh (c.pub i.x) o.x = c.dh (c.pub o.x) i.x
  req1Len : (c.req1 (secret c o i)).length = 20
  req3Len : (c.req3 (secret c o i)).length = 20
  hskLen : (c.hashSKey o.sKey).length = 20
  padA : o.padA.length ≤ 512
  padB : i.padB.length ≤ 512
  padC : o.padCLen < 65536
  padD : i.padDLen < 65536
  provide : o.provide < 4294967296
  frAok : 96 ≤ frA ∧ frA ≤ 96 + i.padB.length
  frBok : 96 ≤ frB ∧ frB ≤ 96 + o.padA.length
  noEarlyReq1 : ∀ j, frB ≤ j → j < 96 + o.padA.length →
    ¬ MatchAt (c.req1 (secret c o i)) (c.pub o.x ++ o.padA ++ c.req1 (secret c o i)) j
  noEarlyVC : ∀ j, frA ≤ j → j < 96 + i.padB.length →
    ¬ MatchAt (vcEnc c o i) (c.pub i.x ++ i.padB ++ vcEnc c o i) j

/-- Step 3 in normal form. -/
theorem outMsg3_eq (c : Crypto) (o : OutCfg) (yb : Bytes) :
    (outMsg3 c o yb).1 = c.req1 (c.dh yb o.x) ++ (xorBytes (c.req3 (c.dh yb o.x)) (c.hashSKey o.sKey) ++
      ((Ciph.init (c.ks true (c.dh yb o.x) o.sKey)).apply (body3 o)).1) := by
  simp [outMsg3, body3, List.append_assoc]

theorem firstRead_ok (fr : Nat) (pub pad tail : Bytes) (hpub : pub.length = 96)
    (h1 : 96 ≤ fr) (h2 : fr ≤ 96 + pad.length) (h3 : pad.length ≤ 512) :
    firstRead fr (pub ++ pad ++ tail) = .ok (pub, (pub ++ pad ++ tail).drop fr) := by
  unfold firstRead
  have a : ¬ (pub ++ pad ++ tail).length < 96 := by
    simp only [List.length_append, hpub]; omega
  have b : 96 ≤ fr ∧ fr ≤ 608 ∧ fr ≤ (pub ++ pad ++ tail).length := by
    refine ⟨h1, by omega, ?_⟩
    simp only [List.length_append, hpub]; omega
  simp only [a, b, if_false, if_true, and_self]
  rw [List.append_assoc, List.take_left' hpub]


theorem readBlock16_apply_last (r : Ciph) (n : Nat) (blk rest : Bytes) (hn : n = blk.length) (h : n < 65536) :
    readBlock16 r ((r.apply (be16 n ++ blk)).1 ++ rest)
      = .ok (blk, (r.apply (be16 n ++ blk)).2, rest) := by
  have := readBlock16_apply r n blk [] rest hn h
  simpa using this

/-- What the receiver ends with. -/
def doneB (c : Crypto) (o : OutCfg) (i : InCfg) (S : Bytes) (tail : Bytes) : Done :=
  let sel := i.select o.provide
  { selected := sel, provided := o.provide,
    r := updateCipher sel ((Ciph.init (c.ks true S o.sKey)).apply (body3 o)).2,
    w := updateCipher sel ((Ciph.init (c.ks false S o.sKey)).apply (body4 sel i.padDLen)).2,
    buffered := o.ia, rest := tail }

theorem inFinish_honest (c : Crypto) (o : OutCfg) (i : InCfg) (S : Bytes) (fr : Nat) (tail : Bytes)
    (hpub : (c.pub o.x).length = 96) (h1 : (c.req1 S).length = 20) (h3 : (c.req3 S).length = 20)
    (h2 : (c.hashSKey o.sKey).length = 20) (hpadA : o.padA.length ≤ 512) (hpadC : o.padCLen < 65536)
    (hprov : o.provide < 4294967296) (hprov0 : o.provide ≠ 0) (hia : o.ia.length ≤ 65535)
    (hfr : 96 ≤ fr ∧ fr ≤ 96 + o.padA.length)
    (hno : ∀ j, fr ≤ j → j < 96 + o.padA.length → ¬ MatchAt (c.req1 S) (c.pub o.x ++ o.padA ++ c.req1 S) j)
    (hkey : i.getSKey (c.hashSKey o.sKey) = some o.sKey) :
    inFinish c i S fr ((c.pub o.x ++ o.padA ++ c.req1 S ++
        (xorBytes (c.req3 S) (c.hashSKey o.sKey) ++
          (((Ciph.init (c.ks true S o.sKey)).apply (body3 o)).1 ++ tail))).drop fr)
      = match selectedCheck (i.select o.provide) o.provide with
        | .error e => .error e
        | .ok () => .ok (((Ciph.init (c.ks false S o.sKey)).apply (body4 (i.select o.provide) i.padDLen)).1,
                        doneB c o i S tail) := by
  unfold inFinish
  have hs := sync_generic (c.req1 S) (c.pub o.x) o.padA
    (xorBytes (c.req3 S) (c.hashSKey o.sKey) ++ (((Ciph.init (c.ks true S o.sKey)).apply (body3 o)).1 ++ tail))
    fr 628 hpub hfr.1 hfr.2 (by omega) hno
  have e628 : ((628 : Nat) : Int) = 628 := rfl
  rw [e628] at hs
  rw [hs]
  simp only [bind, Except.bind]
  rw [readN_append _ _ 20 (by simp [h3, h2])]
  simp only []
  rw [xorBytes_comm (c.req3 S), xorBytes_cancel _ _ (by omega), hkey]
  simp only []
  unfold body3
  rw [read_apply _ vc _ tail 8 (by simp)]
  simp only [ne_eq, not_true_eq_false, if_false]
  rw [read_apply _ (be32 o.provide) _ tail 4 (by simp)]
  simp only [fromBE_be32 _ hprov, hprov0, if_false]
  cases hsel : selectedCheck (i.select o.provide) o.provide with
  | error e => simp
  | ok u =>
    simp only []
    rw [readBlock16_apply _ o.padCLen (zeros o.padCLen) _ tail (by simp) hpadC]
    simp only []
    rw [readBlock16_apply_last _ o.ia.length o.ia tail rfl (by omega)]
    simp only [pure, Except.pure, doneB, body4, body3, apply_append, List.append_assoc]

/-- What the initiator ends with. -/
def doneA (c : Crypto) (o : OutCfg) (S : Bytes) (sel padD : Nat) (tail : Bytes) : Done :=
  { selected := sel, provided := o.provide,
    r := updateCipher sel ((Ciph.init (c.ks false S o.sKey)).apply (body4 sel padD)).2,
    w := updateCipher sel ((Ciph.init (c.ks true S o.sKey)).apply (body3 o)).2,
    buffered := [], rest := tail }

theorem outFinish_honest (c : Crypto) (o : OutCfg) (S : Bytes) (pubB padB : Bytes) (sel padD : Nat)
    (fr : Nat) (tail : Bytes)
    (hpub : pubB.length = 96) (hpadB : padB.length ≤ 512) (hpadD : padD < 65536)
    (hsel : sel < 4294967296)
    (hfr : 96 ≤ fr ∧ fr ≤ 96 + padB.length)
    (hno : ∀ j, fr ≤ j → j < 96 + padB.length →
      ¬ MatchAt (xorAt (c.ks false S o.sKey) 1024 vc) (pubB ++ padB ++ xorAt (c.ks false S o.sKey) 1024 vc) j) :
    outFinish (Ciph.init (c.ks false S o.sKey)) ((Ciph.init (c.ks true S o.sKey)).apply (body3 o)).2
        o.provide fr
        ((pubB ++ padB ++ (((Ciph.init (c.ks false S o.sKey)).apply (body4 sel padD)).1 ++ tail)).drop fr)
      = match selectedCheck sel o.provide with
        | .error e => .error e
        | .ok () => .ok (doneA c o S sel padD tail) := by
  unfold outFinish
  have hvc : ((Ciph.init (c.ks false S o.sKey)).apply vc).1 = xorAt (c.ks false S o.sKey) 1024 vc := by
    simp [Ciph.init, Ciph.apply]
  have hb4 : ((Ciph.init (c.ks false S o.sKey)).apply (body4 sel padD)).1
      = xorAt (c.ks false S o.sKey) 1024 vc ++
        (((Ciph.init (c.ks false S o.sKey)).apply vc).2.apply (be32 sel ++ (be16 padD ++ zeros padD))).1 := by
    unfold body4; rw [apply_append, hvc]
  rw [hvc, hb4]
  have hs := sync_generic (xorAt (c.ks false S o.sKey) 1024 vc) pubB padB
    ((((Ciph.init (c.ks false S o.sKey)).apply vc).2.apply (be32 sel ++ (be16 padD ++ zeros padD))).1 ++ tail)
    fr 616 hpub hfr.1 hfr.2 (by simp; omega) hno
  have e616 : ((616 : Nat) : Int) = 616 := rfl
  rw [e616] at hs
  simp only [List.append_assoc] at hs ⊢
  rw [hs]
  simp only [bind, Except.bind]
  rw [read_apply _ (be32 sel) _ tail 4 (by simp)]
  simp only [fromBE_be32 _ hsel]
  cases hc : selectedCheck sel o.provide with
  | error e => simp
  | ok u =>
    simp only []
    rw [readBlock16_apply_last _ padD (zeros padD) tail (by simp) hpadD]
    simp only [pure, Except.pure, doneA, body4, apply_append, List.append_assoc]


theorem syncLoop_eof (key : Bytes) : ∀ (n : Nat) (s : Bytes) (m : Int),
    s.length = n + key.length → (∀ j, j ≤ n → ¬ MatchAt key s j) → (n : Int) < m →
    syncLoop key (s.take key.length) m (s.drop key.length) = .eof := by
  intro n
  induction n with
  | zero =>
    intro s m hl hno hm
    have h0 : s.take key.length ≠ key := by
      have := hno 0 (by omega)
      simpa [MatchAt] using this
    have hd : s.drop key.length = [] := by
      apply List.eq_nil_of_length_eq_zero; simp; omega
    have hm' : ¬ m ≤ 0 := by omega
    rw [hd]; simp [syncLoop, h0, hm']
  | succ n ih =>
    intro s m hl hno hm
    have h0 : s.take key.length ≠ key := by
      have := hno 0 (by omega)
      simpa [MatchAt] using this
    have hL : 0 < key.length := by
      rcases Nat.eq_zero_or_pos key.length with h | h
      · exfalso; apply h0
        have : key = [] := List.eq_nil_of_length_eq_zero h
        simp [this]
      · exact h
    have hm' : ¬ m ≤ 0 := by omega
    cases hd : s.drop key.length with
    | nil =>
      have := congrArg List.length hd
      simp at this; omega
    | cons b rest =>
      obtain ⟨hw, hr⟩ := window_slide s key.length b rest hL hd
      simp only [syncLoop, h0, hm', if_false]
      rw [hw, hr]
      exact ih (s.drop 1) (m - 1) (by simp only [List.length_drop]; omega)
        (fun j hj => by rw [matchAt_drop_one]; exact hno (j + 1) (by omega)) (by omega)

/-- The transport ends before the budget does and the marker is not in it: `eof`. -/
theorem readSync_eof (key s : Bytes) (max : Int) (hlen : (s.length : Int) < max)
    (hno : ∀ j, j + key.length ≤ s.length → ¬ MatchAt key s j) : readSync key max s = .eof := by
  unfold readSync
  by_cases hl : s.length < key.length
  · simp [hl]
  · simp only [hl, if_false]
    exact syncLoop_eof key (s.length - key.length) s _ (by omega) (fun j hj => hno j (by omega)) (by omega)

theorem outgoing_eq (c : Crypto) (o : OutCfg) (fr : Nat) (pub pad tail : Bytes)
    (hprov0 : o.provide ≠ 0) (hia : o.ia.length ≤ 65535)
    (hpub : pub.length = 96) (h1 : 96 ≤ fr) (h2 : fr ≤ 96 + pad.length) (h3 : pad.length ≤ 512) :
    outgoing c o fr (pub ++ pad ++ tail) =
      (c.pub o.x ++ o.padA ++ (outMsg3 c o pub).1,
       outFinish (outMsg3 c o pub).2.1 (outMsg3 c o pub).2.2 o.provide fr ((pub ++ pad ++ tail).drop fr)) := by
  unfold outgoing
  have : ¬ o.ia.length > 65535 := by omega
  simp only [hprov0, this, if_false]
  rw [firstRead_ok fr pub pad tail hpub h1 h2 h3]

theorem incoming_eq (c : Crypto) (i : InCfg) (fr : Nat) (pub pad tail : Bytes)
    (hpub : pub.length = 96) (h1 : 96 ≤ fr) (h2 : fr ≤ 96 + pad.length) (h3 : pad.length ≤ 512) :
    incoming c i fr (pub ++ pad ++ tail) =
      match inFinish c i (c.dh pub i.x) fr ((pub ++ pad ++ tail).drop fr) with
      | .error e => (c.pub i.x ++ i.padB, .error e)
      | .ok (msg4, d) => (c.pub i.x ++ i.padB ++ msg4, .ok d) := by
  unfold incoming
  rw [firstRead_ok fr pub pad tail hpub h1 h2 h3]
  simp only []
  split <;> simp_all

/-- Step 3 as the initiator writes it in an honest run. -/
def msg3 (c : Crypto) (o : OutCfg) (S : Bytes) : Bytes :=
  c.req1 S ++ (xorBytes (c.req3 S) (c.hashSKey o.sKey) ++ ((Ciph.init (c.ks true S o.sKey)).apply (body3 o)).1)

/-- Step 4 as the receiver writes it. -/
def msg4 (c : Crypto) (o : OutCfg) (S : Bytes) (sel padD : Nat) : Bytes :=
  ((Ciph.init (c.ks false S o.sKey)).apply (body4 sel padD)).1

theorem outFinish_noStep4 (c : Crypto) (o : OutCfg) (S : Bytes) (pubB padB : Bytes) (w : Ciph) (fr : Nat)
    (hpub : pubB.length = 96) (hpadB : padB.length ≤ 512) (hfr : 96 ≤ fr ∧ fr ≤ 96 + padB.length)
    (hno : ∀ j, fr ≤ j → j < 96 + padB.length →
      ¬ MatchAt (xorAt (c.ks false S o.sKey) 1024 vc) (pubB ++ padB ++ xorAt (c.ks false S o.sKey) 1024 vc) j) :
    outFinish (Ciph.init (c.ks false S o.sKey)) w o.provide fr ((pubB ++ padB).drop fr) = .error .eof := by
  unfold outFinish
  have hvc : ((Ciph.init (c.ks false S o.sKey)).apply vc).1 = xorAt (c.ks false S o.sKey) 1024 vc := by
    simp [Ciph.init, Ciph.apply]
  rw [hvc, readSync_eof]
  · simp only [List.length_drop, List.length_append, hpub]; omega
  · intro j hj
    rw [matchAt_drop]
    simp only [List.length_drop, List.length_append, hpub, xorAt_length, vc_length] at hj
    rw [← matchAt_append_left _ (pubB ++ padB) (xorAt (c.ks false S o.sKey) 1024 vc) (fr + j)
      (by simp only [List.length_append, hpub, xorAt_length, vc_length]; omega)]
    exact hno (fr + j) (by omega) (by omega)



theorem honest_dropA {c : Crypto} {o : OutCfg} {i : InCfg} {frA frB : Nat} (H : Honest c o i frA frB) :
    96 ≤ frA ∧ frA ≤ 96 + i.padB.length := H.frAok

/-- The initiator's side of an honest session up to the point where it waits for step 4. -/
theorem session_wA (c : Crypto) (o : OutCfg) (i : InCfg) (frA frB : Nat) (H : Honest c o i frA frB)
    (hprov0 : o.provide ≠ 0) (hia : o.ia.length ≤ 65535) (tail : Bytes) :
    outgoing c o frA (c.pub i.x ++ i.padB ++ tail) =
      (c.pub o.x ++ o.padA ++ msg3 c o (secret c o i),
       outFinish (Ciph.init (c.ks false (secret c o i) o.sKey))
         ((Ciph.init (c.ks true (secret c o i) o.sKey)).apply (body3 o)).2 o.provide frA
         ((c.pub i.x ++ i.padB ++ tail).drop frA)) := by
  rw [outgoing_eq c o frA _ _ tail hprov0 hia H.pubB H.frAok.1 H.frAok.2 H.padB]
  rw [outMsg3_eq]
  simp only [outMsg3, H.dhAgree, secret, msg3, body3, List.append_assoc]

theorem session_B (c : Crypto) (o : OutCfg) (i : InCfg) (frA frB : Nat) (H : Honest c o i frA frB)
    (hprov0 : o.provide ≠ 0) (hia : o.ia.length ≤ 65535)
    (hkey : i.getSKey (c.hashSKey o.sKey) = some o.sKey) (tail : Bytes) :
    incoming c i frB (c.pub o.x ++ o.padA ++ (msg3 c o (secret c o i) ++ tail)) =
      match selectedCheck (i.select o.provide) o.provide with
      | .error e => (c.pub i.x ++ i.padB, .error e)
      | .ok () => (c.pub i.x ++ i.padB ++ msg4 c o (secret c o i) (i.select o.provide) i.padDLen,
                   .ok (doneB c o i (secret c o i) tail)) := by
  rw [incoming_eq c i frB _ _ _ H.pubA H.frBok.1 H.frBok.2 H.padA]
  have := inFinish_honest c o i (secret c o i) frB tail H.pubA H.req1Len H.req3Len H.hskLen H.padA H.padC
    H.provide hprov0 hia H.frBok H.noEarlyReq1 hkey
  simp only [msg3, List.append_assoc] at this ⊢
  simp only [secret] at this ⊢
  rw [this]
  cases selectedCheck (i.select o.provide) o.provide <;> simp [msg4, secret]



theorem session_ok (c : Crypto) (o : OutCfg) (i : InCfg) (frA frB : Nat) (H : Honest c o i frA frB)
    (hprov0 : o.provide ≠ 0) (hia : o.ia.length ≤ 65535)
    (hkey : i.getSKey (c.hashSKey o.sKey) = some o.sKey)
    (hselR : i.select o.provide < 4294967296)
    (hchk : selectedCheck (i.select o.provide) o.provide = .ok ()) :
    session c o i frA frB =
      ⟨.ok (doneA c o (secret c o i) (i.select o.provide) i.padDLen []),
       .ok (doneB c o i (secret c o i) []),
       c.pub o.x ++ o.padA ++ msg3 c o (secret c o i),
       c.pub i.x ++ i.padB ++ msg4 c o (secret c o i) (i.select o.provide) i.padDLen⟩ := by
  unfold session
  have e1 := session_wA c o i frA frB H hprov0 hia []
  have e2 := session_B c o i frA frB H hprov0 hia hkey []
  have e3 := session_wA c o i frA frB H hprov0 hia (msg4 c o (secret c o i) (i.select o.provide) i.padDLen)
  simp only [List.append_nil] at e1 e2
  rw [hchk] at e2
  simp only [e1, e2, e3]
  have := outFinish_honest c o (secret c o i) (c.pub i.x) i.padB (i.select o.provide) i.padDLen frA []
    H.pubB H.padB H.padD hselR H.frAok H.noEarlyVC
  simp only [List.append_nil, hchk] at this
  simp only [msg4]
  rw [this]

theorem session_reject (c : Crypto) (o : OutCfg) (i : InCfg) (frA frB : Nat) (H : Honest c o i frA frB)
    (hprov0 : o.provide ≠ 0) (hia : o.ia.length ≤ 65535)
    (hkey : i.getSKey (c.hashSKey o.sKey) = some o.sKey) (e : Err)
    (hchk : selectedCheck (i.select o.provide) o.provide = .error e) :
    session c o i frA frB =
      ⟨.error .eof, .error e, c.pub o.x ++ o.padA ++ msg3 c o (secret c o i), c.pub i.x ++ i.padB⟩ := by
  unfold session
  have e1 := session_wA c o i frA frB H hprov0 hia []
  have e2 := session_B c o i frA frB H hprov0 hia hkey []
  simp only [List.append_nil] at e1 e2
  rw [hchk] at e2
  simp only [e1, e2]
  rw [outFinish_noStep4 c o (secret c o i) (c.pub i.x) i.padB _ frA H.pubB H.padB H.frAok H.noEarlyVC]



theorem inFinish_nokey (c : Crypto) (o : OutCfg) (i : InCfg) (S : Bytes) (fr : Nat) (tail : Bytes)
    (hpub : (c.pub o.x).length = 96) (h1 : (c.req1 S).length = 20) (h3 : (c.req3 S).length = 20)
    (h2 : (c.hashSKey o.sKey).length = 20) (hpadA : o.padA.length ≤ 512)
    (hfr : 96 ≤ fr ∧ fr ≤ 96 + o.padA.length)
    (hno : ∀ j, fr ≤ j → j < 96 + o.padA.length → ¬ MatchAt (c.req1 S) (c.pub o.x ++ o.padA ++ c.req1 S) j)
    (hkey : i.getSKey (c.hashSKey o.sKey) = none) :
    inFinish c i S fr ((c.pub o.x ++ o.padA ++ c.req1 S ++
        (xorBytes (c.req3 S) (c.hashSKey o.sKey) ++ tail)).drop fr) = .error .invalidSKey := by
  unfold inFinish
  have hs := sync_generic (c.req1 S) (c.pub o.x) o.padA
    (xorBytes (c.req3 S) (c.hashSKey o.sKey) ++ tail) fr 628 hpub hfr.1 hfr.2 (by omega) hno
  have e628 : ((628 : Nat) : Int) = 628 := rfl
  rw [e628] at hs
  rw [hs]
  simp only [bind, Except.bind]
  rw [readN_append _ _ 20 (by simp [h3, h2])]
  simp only []
  rw [xorBytes_comm (c.req3 S), xorBytes_cancel _ _ (by omega), hkey]

theorem session_unknown_key (c : Crypto) (o : OutCfg) (i : InCfg) (frA frB : Nat) (H : Honest c o i frA frB)
    (hprov0 : o.provide ≠ 0) (hia : o.ia.length ≤ 65535)
    (hkey : i.getSKey (c.hashSKey o.sKey) = none) :
    session c o i frA frB =
      ⟨.error .eof, .error .invalidSKey, c.pub o.x ++ o.padA ++ msg3 c o (secret c o i), c.pub i.x ++ i.padB⟩ := by
  unfold session
  have e1 := session_wA c o i frA frB H hprov0 hia []
  simp only [List.append_nil] at e1
  have e2 : incoming c i frB (c.pub o.x ++ o.padA ++ msg3 c o (secret c o i)) =
      (c.pub i.x ++ i.padB, .error .invalidSKey) := by
    have := incoming_eq c i frB (c.pub o.x) o.padA (msg3 c o (secret c o i)) H.pubA H.frBok.1 H.frBok.2 H.padA
    rw [this]
    have h := inFinish_nokey c o i (secret c o i) frB
      ((Ciph.init (c.ks true (secret c o i) o.sKey)).apply (body3 o)).1
      H.pubA H.req1Len H.req3Len H.hskLen H.padA H.frBok H.noEarlyReq1 hkey
    simp only [msg3, List.append_assoc, secret] at h ⊢
    rw [h]
  simp only [e1, e2]
  rw [outFinish_noStep4 c o (secret c o i) (c.pub i.x) i.padB _ frA H.pubB H.padB H.frAok H.noEarlyVC]

theorem session_precheck (c : Crypto) (o : OutCfg) (i : InCfg) (frA frB : Nat)
    (h : o.provide = 0 ∨ o.ia.length > 65535) :
    session c o i frA frB =
      ⟨.error (if o.provide = 0 then .noProvide else .payloadTooBig), .error .eof, [], []⟩ := by
  unfold session
  have e : ∀ inp, outgoing c o frA inp =
      ([], .error (if o.provide = 0 then .noProvide else .payloadTooBig)) := by
    intro inp
    unfold outgoing
    by_cases h0 : o.provide = 0
    · simp [h0]
    · have : o.ia.length > 65535 := by cases h with | inl h => exact absurd h h0 | inr h => exact h
      simp [h0, this]
  simp only [e]
  simp [incoming, firstRead]



/-! ### `isPowerOfTwo` -/

theorem pow2_of_and_pred : ∀ (x : Nat), x ≠ 0 → x &&& (x - 1) = 0 → ∃ k, x = 2 ^ k := by
  intro x
  induction x using Nat.strongRecOn with
  | _ x ih =>
    intro hx h
    have hd : x / 2 &&& (x - 1) / 2 = 0 := by
      rw [← Nat.and_div_two, h]
    rcases Nat.mod_two_eq_zero_or_one x with he | ho
    · -- even
      have hq : x / 2 ≠ 0 := by omega
      have e : (x - 1) / 2 = x / 2 - 1 := by omega
      rw [e] at hd
      obtain ⟨k, hk⟩ := ih (x / 2) (by omega) hq hd
      exact ⟨k + 1, by rw [Nat.pow_succ]; omega⟩
    · -- odd
      have e : (x - 1) / 2 = x / 2 := by omega
      rw [e, Nat.and_self] at hd
      exact ⟨0, by simp; omega⟩

theorem isPowerOfTwo_spec (x : Nat) (h : isPowerOfTwo x = true) : ∃ k, x = 2 ^ k := by
  unfold isPowerOfTwo at h
  simp only [Bool.and_eq_true, bne_iff_ne, ne_eq, beq_iff_eq] at h
  exact pow2_of_and_pred x h.1 h.2

theorem testBit_of_two_pow_and (k p : Nat) (h : 2 ^ k &&& p ≠ 0) : p.testBit k = true := by
  cases hb : p.testBit k with
  | true => rfl
  | false =>
    exfalso; apply h
    apply Nat.eq_of_testBit_eq
    intro i
    rw [Nat.testBit_and, Nat.testBit_two_pow, Nat.zero_testBit]
    by_cases e : k = i
    · subst e; simp [hb]
    · simp [e]

/-- What passing `selectedCheck` means: one bit, and that bit is set in the offer. -/
theorem selectedCheck_ok (sel provide : Nat) (h : selectedCheck sel provide = .ok ()) :
    ∃ k, sel = 2 ^ k ∧ provide.testBit k = true := by
  unfold selectedCheck at h
  split at h; · simp at h
  split at h; · simp at h
  split at h; · simp at h
  rename_i h0 hp hand
  simp only [Bool.not_eq_true', Bool.not_eq_false] at hp
  obtain ⟨k, hk⟩ := isPowerOfTwo_spec sel hp
  exact ⟨k, hk, testBit_of_two_pow_and k provide (by rw [← hk]; exact hand)⟩

theorem selectedCheck_two (sel : Nat) (h : selectedCheck sel 2 = .ok ()) : sel = 2 := by
  obtain ⟨k, hk, hb⟩ := selectedCheck_ok sel 2 h
  have : (2 ^ 1).testBit k = true := by simpa using hb
  rw [Nat.testBit_two_pow] at this
  have : 1 = k := by simpa using this
  subst this; simpa using hk



/-! ### what a completed handshake guarantees, whatever the remote sent -/

theorem read_plain {r r' : Ciph} {n : Nat} {inp pl rest : Bytes} (h : r.read n inp = .ok (pl, r', rest)) :
    r'.plain = r.plain ∧ r'.ks = r.ks := by
  unfold Ciph.read at h
  split at h
  · simp at h
  · simp only [Except.ok.injEq, Prod.mk.injEq] at h
    obtain ⟨_, rfl, _⟩ := h
    simp

theorem readBlock16_plain {r r' : Ciph} {inp pl rest : Bytes} (h : readBlock16 r inp = .ok (pl, r', rest)) :
    r'.plain = r.plain ∧ r'.ks = r.ks := by
  unfold readBlock16 at h
  split at h
  · simp at h
  · rename_i l r1 rest1 h1
    have a := read_plain h1
    have b := read_plain h
    exact ⟨b.1.trans a.1, b.2.trans a.2⟩

@[simp] theorem updateCipher_plain (sel : Nat) (c : Ciph) :
    (updateCipher sel c).plain = (decide (sel = 1) || c.plain) := by
  unfold updateCipher; split <;> simp [*]

/-- Facts about a successful `HandshakeOutgoing`, for every input. -/
structure OutOk (o : OutCfg) (d : Done) : Prop where
  provided : d.provided = o.provide
  check : selectedCheck d.selected o.provide = .ok ()
  rplain : d.r.plain = decide (d.selected = 1)
  wplain : d.w.plain = decide (d.selected = 1)
  buffered : d.buffered = []

theorem outFinish_ok {r w : Ciph} {provide fr : Nat} {inp : Bytes} {d : Done}
    (hr : r.plain = false) (hw : w.plain = false)
    (h : outFinish r w provide fr inp = .ok d) :
    d.provided = provide ∧ selectedCheck d.selected provide = .ok () ∧
    d.r.plain = decide (d.selected = 1) ∧ d.w.plain = decide (d.selected = 1) ∧ d.buffered = [] := by
  unfold outFinish at h
  split at h
  · simp at h
  · simp at h
  · simp only [bind, Except.bind] at h
    split at h
    · simp at h
    · rename_i v hv
      obtain ⟨selB, r2, rest2⟩ := v
      simp only [] at h
      split at h
      · simp at h
      · rename_i u hu
        split at h
        · simp at h
        · rename_i v2 hv2
          obtain ⟨blk, r4, rest4⟩ := v2
          simp only [pure, Except.pure, Except.ok.injEq] at h
          subst h
          have p1 := read_plain hv
          have p2 := readBlock16_plain hv2
          cases u
          refine ⟨rfl, hu, ?_, ?_, rfl⟩
          · simp [p2.1, p1.1, hr]
          · simp [hw]

theorem outgoing_ok {c : Crypto} {o : OutCfg} {fr : Nat} {inp : Bytes} {d : Done}
    (h : (outgoing c o fr inp).2 = .ok d) : OutOk o d := by
  unfold outgoing at h
  split at h; · simp at h
  split at h; · simp at h
  simp only [] at h
  split at h
  · simp at h
  · simp only [] at h
    have := outFinish_ok (by simp [outMsg3, Ciph.init]) (by simp [outMsg3, Ciph.init]) h
    exact ⟨this.1, this.2.1, this.2.2.1, this.2.2.2.1, this.2.2.2.2⟩

/-- Facts about a successful `HandshakeIncoming`, for every input. -/
structure InOk (i : InCfg) (d : Done) : Prop where
  selected : d.selected = i.select d.provided
  check : selectedCheck d.selected d.provided = .ok ()
  rplain : d.r.plain = decide (d.selected = 1)
  wplain : d.w.plain = decide (d.selected = 1)

theorem inFinish_ok {c : Crypto} {i : InCfg} {S : Bytes} {fr : Nat} {inp : Bytes} {m4 : Bytes} {d : Done}
    (h : inFinish c i S fr inp = .ok (m4, d)) : InOk i d := by
  unfold inFinish at h
  split at h
  · simp at h
  · simp at h
  · simp only [bind, Except.bind] at h
    split at h; · simp at h
    rename_i v hv
    obtain ⟨hh, rest1⟩ := v
    simp only [] at h
    split at h; · simp at h
    rename_i sKey hk
    split at h; · simp at h
    rename_i v1 hv1
    obtain ⟨vcRead, r1, rest2⟩ := v1
    simp only [] at h
    split at h; · simp at h
    split at h; · simp at h
    rename_i v2 hv2
    obtain ⟨pB, r2, rest3⟩ := v2
    simp only [] at h
    split at h; · simp at h
    split at h; · simp at h
    rename_i u hu
    split at h; · simp at h
    rename_i v3 hv3
    obtain ⟨blk, r4, rest4⟩ := v3
    simp only [] at h
    split at h; · simp at h
    rename_i v4 hv4
    obtain ⟨ia, r6, rest5⟩ := v4
    simp only [pure, Except.pure, Except.ok.injEq, Prod.mk.injEq] at h
    obtain ⟨_, rfl⟩ := h
    have p1 := read_plain hv1
    have p2 := read_plain hv2
    have p3 := readBlock16_plain hv3
    have p4 := readBlock16_plain hv4
    cases u
    refine ⟨rfl, hu, ?_, ?_⟩
    · simp [p4.1, p3.1, p2.1, p1.1, Ciph.init]
    · simp [Ciph.init]

theorem incoming_ok {c : Crypto} {i : InCfg} {fr : Nat} {inp : Bytes} {d : Done}
    (h : (incoming c i fr inp).2 = .ok d) : InOk i d := by
  unfold incoming at h
  split at h
  · simp at h
  · simp only [] at h
    split at h
    · simp at h
    · rename_i m4 d' hf
      simp only [Except.ok.injEq] at h
      subst h
      exact inFinish_ok hf



/-! ### the stream after the handshake, under any chunking -/

/-- Successive `Write`s: wire bytes and final state. -/
def sendAll (d : Done) : List Bytes → Bytes × Done
  | [] => ([], d)
  | p :: ps => ((d.send p).1 ++ (sendAll (d.send p).2 ps).1, (sendAll (d.send p).2 ps).2)

/-- The wire arriving in the given fragments, each drained by `Read`s: plaintext and final state. -/
def recvAll (d : Done) : List Bytes → Bytes × Done
  | [] => d.recv []
  | f :: fs => ((d.recv f).1 ++ (recvAll (d.recv f).2 fs).1, (recvAll (d.recv f).2 fs).2)

theorem sendAll_wire (d : Done) (ps : List Bytes) :
    (sendAll d ps).1 = (d.w.apply ps.flatten).1 ∧ (sendAll d ps).2.w = (d.w.apply ps.flatten).2 := by
  induction ps generalizing d with
  | nil => simp [sendAll]
  | cons p ps ih =>
    obtain ⟨h1, h2⟩ := ih (d.send p).2
    constructor
    · show (d.send p).1 ++ (sendAll (d.send p).2 ps).1 = _
      rw [h1]; simp [Done.send, apply_append]
    · show (sendAll (d.send p).2 ps).2.w = _
      rw [h2]; simp [Done.send, apply_append]

theorem recvAll_plain (d : Done) (fs : List Bytes) :
    (recvAll d fs).1 = d.buffered ++ (d.r.apply (d.rest ++ fs.flatten)).1 := by
  induction fs generalizing d with
  | nil => simp [recvAll, Done.recv]
  | cons f fs ih =>
    show (d.recv f).1 ++ (recvAll (d.recv f).2 fs).1 = _
    rw [ih]
    simp only [Done.recv, List.flatten_cons, List.nil_append]
    rw [← List.append_assoc d.rest f, apply_append (d.r) (d.rest ++ f), List.append_assoc]

/-! ### btconn -/

/-- The returned connection is an `mse.Conn` with RC4 selected and both directions still RC4. -/
def Conn.encrypted : Conn → Bool
  | .plain _ => false
  | .mse d => d.selected == 2 && !d.r.plain && !d.w.plain

theorem Done.readN_inv {d d' : Done} {n : Nat} {b : Bytes} (h : d.readN n = .ok (b, d')) :
    d'.selected = d.selected ∧ d'.r.plain = d.r.plain ∧ d'.w = d.w := by
  unfold Done.readN at h
  split at h
  · simp only [Except.ok.injEq, Prod.mk.injEq] at h
    obtain ⟨_, rfl⟩ := h
    simp
  · split at h
    · simp at h
    · rename_i pl r' rest hr
      simp only [Except.ok.injEq, Prod.mk.injEq] at h
      obtain ⟨_, rfl⟩ := h
      exact ⟨rfl, (read_plain hr).1, rfl⟩

theorem Conn.readN_encrypted {conn conn' : Conn} {n : Nat} {b : Bytes} (h : conn.readN n = .ok (b, conn')) :
    conn'.encrypted = conn.encrypted := by
  cases conn with
  | plain rest =>
    simp only [Conn.readN] at h
    split at h
    · simp at h
    · simp only [Except.ok.injEq, Prod.mk.injEq] at h
      obtain ⟨_, rfl⟩ := h; rfl
  | mse d =>
    simp only [Conn.readN] at h
    split at h
    · simp at h
    · rename_i b' d' hd
      simp only [Except.ok.injEq, Prod.mk.injEq] at h
      obtain ⟨_, rfl⟩ := h
      have := Done.readN_inv hd
      simp [Conn.encrypted, this.1, this.2.1, this.2.2]

theorem Conn.write_encrypted (conn : Conn) (p : Bytes) : (conn.write p).2.encrypted = conn.encrypted := by
  cases conn with
  | plain rest => rfl
  | mse d => simp [Conn.write, Conn.encrypted, Done.send]

theorem readHandshake1_encrypted {conn conn' : Conn} {ext ih : Bytes}
    (h : readHandshake1 conn = .ok (ext, ih, conn')) : conn'.encrypted = conn.encrypted := by
  unfold readHandshake1 at h
  simp only [bind, Except.bind] at h
  split at h; · simp at h
  rename_i v1 h1; obtain ⟨p, c1⟩ := v1
  simp only [] at h
  split at h; · simp at h
  split at h; · simp at h
  rename_i v2 h2; obtain ⟨e, c2⟩ := v2
  simp only [] at h
  split at h; · simp at h
  rename_i v3 h3; obtain ⟨i, c3⟩ := v3
  simp only [pure, Except.pure, Except.ok.injEq, Prod.mk.injEq] at h
  obtain ⟨_, _, rfl⟩ := h
  rw [Conn.readN_encrypted h3, Conn.readN_encrypted h2, Conn.readN_encrypted h1]

theorem acceptTail_ok {a : AcceptCfg} {isEnc : Bool} {cipher : Nat} {ext ih : Bytes} {conn : Conn}
    {w : Bytes} {r : ConnOk} (h : acceptTail a isEnc cipher ext ih conn = (w, .ok r)) :
    (a.force = true → isEnc = true) ∧ r.conn.encrypted = conn.encrypted ∧ r.cipher = cipher ∧ r.retried = false := by
  unfold acceptTail at h
  by_cases hf : (a.force = true ∧ isEnc = false)
  · simp [hf] at h
  simp only [hf, if_false] at h
  split at h; · simp at h
  split at h; · simp at h
  rename_i id conn' hr
  split at h; · simp at h
  simp only [Prod.mk.injEq, Outcome.ok.injEq] at h
  obtain ⟨_, rfl⟩ := h
  refine ⟨?_, ?_, rfl, rfl⟩
  · intro hforce
    cases isEnc with
    | true => rfl
    | false => exact absurd ⟨hforce, rfl⟩ hf
  · simp only []
    rw [Conn.readN_encrypted hr, Conn.write_encrypted]

theorem acceptSelect_force (p : Nat) : acceptSelect true p = 2 ∨ acceptSelect true p = 0 := by
  unfold acceptSelect; split <;> simp

theorem dialTail_ok {g : DialCfg} {cipher : Nat} {retried : Bool} {conn : Conn} {r : ConnOk}
    (h : dialTail g cipher retried conn = .ok r) :
    r.conn.encrypted = conn.encrypted ∧ r.cipher = cipher ∧ r.retried = retried := by
  unfold dialTail at h
  split at h; · simp at h
  rename_i ext ihRead conn1 h1
  split at h; · simp at h
  split at h; · simp at h
  rename_i id conn2 h2
  split at h; · simp at h
  simp only [Outcome.ok.injEq] at h
  subst h
  refine ⟨?_, rfl, rfl⟩
  simp only []
  rw [Conn.readN_encrypted h2, readHandshake1_encrypted h1]


/-! ### definitions used in the statements of `Props/C12` -/

/-- The receiver's getSKey looks keys up by their hash (as `torrent.getSKey` does). -/
def LooksUpByHash (c : Crypto) (i : InCfg) : Prop := ∀ h k, i.getSKey h = some k → c.hashSKey k = h

/-- Under the lookup contract and an injective `HashSKey`, the receiver either does not find the
initiator's key or finds exactly it. -/
theorem getSKey_cases (c : Crypto) (o : OutCfg) (i : InCfg) (hl : LooksUpByHash c i)
    (hinj : ∀ a b, c.hashSKey a = c.hashSKey b → a = b) :
    i.getSKey (c.hashSKey o.sKey) = none ∨ i.getSKey (c.hashSKey o.sKey) = some o.sKey := by
  cases h : i.getSKey (c.hashSKey o.sKey) with
  | none => exact Or.inl rfl
  | some k => exact Or.inr (by rw [hinj k o.sKey (hl _ _ h)])


/-- A toy instance of the cryptographic parameters for the non-vacuity examples. -/
def toyC : Crypto where
  pub x := List.replicate 96 (x.headD 0)
  dh y x := [y.headD 0 + x.headD 0]
  req1 _ := List.replicate 20 9
  req3 _ := List.replicate 20 5
  hashSKey k := List.replicate 20 (k.headD 0)
  ks a _ _ i := if a then i % 7 + 1 else i % 5 + 2

def toyO : OutCfg := { x := [3], sKey := [42], provide := 3, ia := [1, 2, 3], padA := [8, 8], padCLen := 1 }
def toyI : InCfg := { x := [4], padB := [6], padDLen := 2,
                      getSKey := fun h => if h = List.replicate 20 42 then some [42] else none,
                      select := acceptSelect false }


end Rain.MSE
