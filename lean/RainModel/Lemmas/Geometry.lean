import RainModel.Model.Geometry
/-! Helper lemmas for `newPieces_tiles`, `newPieces_steps_le` (C02). -/
namespace Rain.Geometry

/-! ### streams -/

theorem bytesOf_zero (i off : Nat) : bytesOf i off 0 = [] := by simp [bytesOf]

theorem bytesOf_add (i off a b : Nat) : bytesOf i off (a + b) = bytesOf i off a ++ bytesOf i (off + a) b := by
  unfold bytesOf
  rw [List.range_add, List.map_append, List.map_map]
  congr 1
  apply List.map_congr_left
  intro k _
  simp [Nat.add_assoc]

theorem length_bytesOf (i off n : Nat) : (bytesOf i off n).length = n := by simp [bytesOf]

theorem fileStreamFrom_nil_of_zero : ∀ (i : Nat) (fs : List FileEnt), totalLen fs = 0 → fileStreamFrom i fs = []
  | _, [], _ => rfl
  | i, f :: fs, h => by
    simp only [totalLen, List.map_cons, List.sum_cons] at h
    have h1 : f.len = 0 := by omega
    have h2 : totalLen fs = 0 := by unfold totalLen; omega
    simp [fileStreamFrom, h1, bytesOf_zero, fileStreamFrom_nil_of_zero (i + 1) fs h2]

/-! ### the cursor invariant -/

/-- Bytes still to be assigned at cursor `c`. -/
def remLen (c : Cur) : Nat := (c.cur.len - c.foff) + totalLen c.rest

/-- The `(file, offset)` stream still to be assigned at cursor `c`. -/
def rem (c : Cur) : List (Nat × Nat) :=
  bytesOf c.fi c.foff (c.cur.len - c.foff) ++ fileStreamFrom (c.fi + 1) c.rest

structure Inv (files : List FileEnt) (L : Nat) (c : Cur) : Prop where
  drop : files.drop c.fi = c.cur :: c.rest
  foff_le : c.foff ≤ c.cur.len
  total : c.total + remLen c = L

theorem rem_nil_of_remLen_zero (c : Cur) (h : remLen c = 0) : rem c = [] := by
  unfold remLen at h
  have h1 : c.cur.len - c.foff = 0 := by omega
  have h2 : totalLen c.rest = 0 := by omega
  simp [rem, h1, bytesOf_zero, fileStreamFrom_nil_of_zero _ _ h2]

/-- `q` is where a cursor at `p` can be after moving on without emitting a byte: the same place,
or the start of a later file. -/
def Reach (p q : Nat × Nat) : Prop := q = p ∨ (p.1 < q.1 ∧ q.2 = 0)

theorem Reach.refl (p : Nat × Nat) : Reach p p := Or.inl rfl

theorem Reach.trans {p q r : Nat × Nat} (h1 : Reach p q) (h2 : Reach q r) : Reach p r := by
  rcases h1 with rfl | ⟨h1, h1'⟩
  · exact h2
  · rcases h2 with rfl | ⟨h2, h2'⟩
    · exact Or.inr ⟨h1, h1'⟩
    · exact Or.inr ⟨by omega, h2'⟩

/-- The sections walk the files: each starts where the previous one ended or at offset 0 of a
later file; `q` is reachable from the end of the last. -/
def walkTo : Nat × Nat → List Sec → Nat × Nat → Prop
  | p, [], q => Reach p q
  | p, s :: r, q => Reach p (s.file, s.off) ∧ walkTo (s.file, s.off + s.len) r q

theorem walkTo_append : ∀ (a : List Sec) (p q r : Nat × Nat) (b : List Sec),
    walkTo p a q → walkTo q b r → walkTo p (a ++ b) r
  | [], p, q, r, b, h1, h2 => by
    cases b with
    | nil => exact Reach.trans h1 h2
    | cons s t => exact ⟨Reach.trans h1 h2.1, h2.2⟩
  | s :: a, p, q, r, b, h1, h2 => ⟨h1.1, walkTo_append a _ q r b h1.2 h2⟩

theorem getElem?_of_drop {α} (l : List α) (i : Nat) (x : α) (r : List α) (h : l.drop i = x :: r) :
    l[i]? = some x := by
  have : (l.drop i)[0]? = some x := by rw [h]; rfl
  simpa using this

theorem drop_succ_of_drop {α} (l : List α) (i : Nat) (x : α) (r : List α) (h : l.drop i = x :: r) :
    l.drop (i + 1) = r := by
  have : (l.drop i).drop 1 = r := by rw [h]; rfl
  simpa [List.drop_drop, Nat.add_comm] using this

theorem Outcome.map_eq_ok {α β} (f : α → β) (o : Outcome α) (a : α) (h : o = .ok a) : o.map f = .ok (f a) := by
  subst h; rfl

@[simp] theorem totalLen_cons (f : FileEnt) (r : List FileEnt) : totalLen (f :: r) = f.len + totalLen r := by
  simp [totalLen]

@[simp] theorem totalLen_nil : totalLen [] = 0 := rfl

/-- What one run of the inner loop does, under the invariant. -/
theorem fillPiece_spec {files : List FileEnt} {L : Nat} : ∀ (fuel left : Nat) (c : Cur), Inv files L c →
    (left = 0 → 1 ≤ fuel) → (left ≠ 0 → c.rest.length + 2 ≤ fuel) →
    ∃ ss c' st, fillPiece L fuel left c = .ok (ss, c', st) ∧ Inv files L c' ∧
      secStream ss ++ rem c' = rem c ∧
      (ss.map (·.len)).sum = min left (remLen c) ∧
      remLen c' + (ss.map (·.len)).sum = remLen c ∧
      (∀ s ∈ ss, secMetaOK files s = true) ∧
      walkTo (c.fi, c.foff) ss (c'.fi, c'.foff) := by
  intro fuel
  induction fuel with
  | zero =>
    intro left c _ h0 h1
    by_cases h : left = 0
    · exact absurd (h0 h) (by omega)
    · exact absurd (h1 h) (by omega)
  | succ fuel ih =>
    intro left c hinv h0 h1
    unfold fillPiece
    by_cases hl : left = 0
    · rw [if_pos hl]
      refine ⟨[], c, 0, rfl, hinv, by simp [secStream], by simp [hl], by simp, by simp, Reach.refl _⟩
    · rw [if_neg hl]
      have hfuel := h1 hl
      obtain ⟨hdrop, hfoff, htot⟩ := hinv
      obtain ⟨fi, cur, rest, foff, total⟩ := c
      simp only [remLen] at htot
      simp only [] at hdrop hfoff hfuel ⊢
      generalize hn : min left (cur.len - foff) = n
      have hnle : n ≤ cur.len - foff := by omega
      have hnl : n ≤ left := by omega
      have hmeta : secMetaOK files { file := fi, off := foff, len := n, pad := cur.pad, name := cur.name } = true := by
        unfold secMetaOK
        simp only [getElem?_of_drop files fi cur rest hdrop]
        simp; omega
      have hsplit : rem ⟨fi, cur, rest, foff, total⟩ = bytesOf fi foff n ++
          (bytesOf fi (foff + n) (cur.len - (foff + n)) ++ fileStreamFrom (fi + 1) rest) := by
        simp only [rem]
        have : cur.len - foff = n + (cur.len - (foff + n)) := by omega
        rw [this, bytesOf_add, List.append_assoc]
      by_cases hbrk : total + n = L
      · -- break
        rw [if_pos hbrk]
        have h1 : cur.len - (foff + n) = 0 := by omega
        have h2 : totalLen rest = 0 := by omega
        refine ⟨_, _, 1, rfl, ⟨hdrop, by simp only; omega, ?_⟩, ?_, ?_, ?_, ?_, ?_⟩
        · simp only [remLen]; omega
        · rw [hsplit]
          simp [secStream, rem, h1, bytesOf_zero, fileStreamFrom_nil_of_zero _ _ h2]
        · simp [remLen]; omega
        · simp [remLen]; omega
        · intro s hs; simp at hs; subst hs; exact hmeta
        · exact ⟨Reach.refl _, Or.inl rfl⟩
      · rw [if_neg hbrk]
        by_cases hfl : cur.len - (foff + n) = 0
        · rw [if_pos hfl]
          -- nextFile(): the rest cannot be empty
          cases rest with
          | nil => exfalso; simp at htot; omega
          | cons f r =>
            simp only []
            simp only [totalLen_cons, List.length_cons] at htot hfuel
            have hinv2 : Inv files L { fi := fi + 1, cur := f, rest := r, foff := 0, total := total + n } := by
              refine ⟨drop_succ_of_drop files fi cur _ hdrop, by simp, ?_⟩
              simp only [remLen]; omega
            obtain ⟨ss, c', st, hrun, hinv', hstream, hsum, hrem, hmetas, hwalk⟩ :=
              ih (left - n) _ hinv2 (by intro _; omega) (by intro _; simp only; omega)
            simp only [remLen] at hsum hrem
            refine ⟨_, c', st + 1, Outcome.map_eq_ok _ _ _ hrun, hinv', ?_, ?_, ?_, ?_, ?_⟩
            · rw [hsplit, hfl, bytesOf_zero]
              simp only [secStream, List.flatMap_cons, List.nil_append, List.append_assoc]
              congr 1
            · simp only [List.map_cons, List.sum_cons, hsum, remLen, totalLen_cons]; omega
            · simp only [List.map_cons, List.sum_cons, remLen, totalLen_cons]; omega
            · intro s hs
              simp only [List.mem_cons] at hs
              rcases hs with rfl | hs
              · exact hmeta
              · exact hmetas s hs
            · refine ⟨Reach.refl _, ?_⟩
              -- the cursor jumped from (fi, foff+n) to (fi+1, 0)
              have hr : Reach (fi, foff + n) (fi + 1, 0) := Or.inr ⟨by simp, rfl⟩
              cases ss with
              | nil => exact Reach.trans hr hwalk
              | cons s t => exact ⟨Reach.trans hr hwalk.1, hwalk.2⟩
        · rw [if_neg hfl]
          -- the file is not finished, so the piece is: n = left
          have hnleft : left - n = 0 := by omega
          have hinv1 : Inv files L { fi := fi, cur := cur, rest := rest, foff := foff + n, total := total + n } := by
            refine ⟨hdrop, by simp only; omega, ?_⟩
            simp only [remLen]; omega
          obtain ⟨ss, c', st, hrun, hinv', hstream, hsum, hrem, hmetas, hwalk⟩ :=
            ih (left - n) _ hinv1 (by intro _; omega) (by intro h; exact absurd hnleft h)
          simp only [remLen] at hsum hrem
          refine ⟨_, c', st + 1, Outcome.map_eq_ok _ _ _ hrun, hinv', ?_, ?_, ?_, ?_, ?_⟩
          · rw [hsplit]
            simp only [secStream, List.flatMap_cons, List.append_assoc]
            congr 1
          · simp only [List.map_cons, List.sum_cons, hsum, remLen]; omega
          · simp only [List.map_cons, List.sum_cons, remLen]; omega
          · intro s hs
            simp only [List.mem_cons] at hs
            rcases hs with rfl | hs
            · exact hmeta
            · exact hmetas s hs
          · exact ⟨Reach.refl _, hwalk⟩

theorem allSecs_cons (p : Piece) (ps : List Piece) : allSecs (p :: ps) = p.secs ++ allSecs ps := by
  simp [allSecs]

theorem secStream_append (a b : List Sec) : secStream (a ++ b) = secStream a ++ secStream b := by
  simp [secStream]

/-- The outer loop under the invariant: `k` pieces consume exactly what is left. -/
theorem pieces_spec {files : List FileEnt} {L pl : Nat} (hpl : 0 < pl) : ∀ (k : Nat) (c : Cur), Inv files L c →
    (k = 0 → remLen c = 0) → (0 < k → (k - 1) * pl < remLen c ∧ remLen c ≤ k * pl) →
    ∃ ps st, pieces pl L k c = .ok (ps, st) ∧ ps.length = k ∧
      secStream (allSecs ps) = rem c ∧
      (ps.all fun p => p.len == (p.secs.map (·.len)).sum) = true ∧
      (0 < k → lensOK pl ps = true) ∧
      (ps.map (·.len)).sum = remLen c ∧
      (∀ s ∈ allSecs ps, secMetaOK files s = true) ∧
      ∃ q, walkTo (c.fi, c.foff) (allSecs ps) q := by
  intro k
  induction k with
  | zero =>
    intro c _ h0 _
    refine ⟨[], 0, rfl, rfl, ?_, rfl, by simp, by simp [h0 rfl], by simp [allSecs], ⟨_, Reach.refl _⟩⟩
    simp [allSecs, secStream, rem_nil_of_remLen_zero c (h0 rfl)]
  | succ k ih =>
    intro c hinv _ hk
    obtain ⟨hlo, hhi⟩ := hk (by omega)
    simp only [Nat.add_sub_cancel] at hlo
    rw [Nat.succ_mul] at hhi
    obtain ⟨ss, c', st, hrun, hinv', hstream, hsum, hrem, hmetas, hwalk⟩ :=
      fillPiece_spec (files := files) (L := L) (c.rest.length + 2) pl c hinv (by intro; omega) (by intro; omega)
    have hk' : (k = 0 → remLen c' = 0) ∧ (0 < k → (k - 1) * pl < remLen c' ∧ remLen c' ≤ k * pl) := by
      constructor
      · intro hk0; subst hk0; simp at hhi; omega
      · intro hkpos
        obtain ⟨j, rfl⟩ : ∃ j, k = j + 1 := ⟨k - 1, by omega⟩
        simp only [Nat.add_sub_cancel]
        rw [Nat.succ_mul] at hlo hhi ⊢
        omega
    obtain ⟨ps, st', hrun', hlen, hstream', hall, hlens, hsum', hmetas', q, hwalk'⟩ := ih c' hinv' hk'.1 hk'.2
    refine ⟨{ len := (ss.map (·.len)).sum, secs := ss } :: ps, st + st', ?_, by simp [hlen], ?_, ?_, ?_, ?_, ?_, ?_⟩
    · simp only [pieces, hrun, hrun']
    · rw [allSecs_cons, secStream_append, hstream', hstream]
    · simp [hall]
    · intro _
      cases ps with
      | nil =>
        have : k = 0 := by simpa using hlen.symm
        subst this
        simp at hhi
        simp only [lensOK, Bool.and_eq_true, decide_eq_true_eq]
        omega
      | cons p r =>
        have hkpos : 0 < k := by rw [← hlen]; simp
        have := hlens hkpos
        simp only [lensOK, Bool.and_eq_true, beq_iff_eq]
        refine ⟨?_, this⟩
        obtain ⟨j, rfl⟩ : ∃ j, k = j + 1 := ⟨k - 1, by omega⟩
        rw [Nat.succ_mul] at hlo
        omega
    · simp only [List.map_cons, List.sum_cons, hsum']; omega
    · intro s hs
      rw [allSecs_cons, List.mem_append] at hs
      rcases hs with hs | hs
      · exact hmetas s hs
      · exact hmetas' s hs
    · exact ⟨q, by rw [allSecs_cons]; exact walkTo_append _ _ _ _ _ hwalk hwalk'⟩

/-! ### termination and work bound, for every input (no well-formedness needed) -/

theorem Outcome.map_cases {α β} (f : α → β) (o : Outcome α) :
    (o = .panic ∧ o.map f = .panic) ∨ (o = .fuel ∧ o.map f = .fuel) ∨ ∃ a, o = .ok a ∧ o.map f = .ok (f a) := by
  cases o with
  | ok a => exact Or.inr (Or.inr ⟨a, rfl, rfl⟩)
  | panic => exact Or.inl ⟨rfl, rfl⟩
  | fuel => exact Or.inr (Or.inl ⟨rfl, rfl⟩)

/-- With fuel `rest.length + 2` the inner loop never runs out of fuel, and every iteration but
the last of a piece consumes a file: `steps + |rest'| ≤ |rest| + 1`. -/
theorem fillPiece_steps (L : Nat) : ∀ (fuel left : Nat) (c : Cur),
    (left = 0 → 1 ≤ fuel) → (left ≠ 0 → c.rest.length + 2 ≤ fuel) →
    fillPiece L fuel left c = .panic ∨
    ∃ ss c' st, fillPiece L fuel left c = .ok (ss, c', st) ∧ st + c'.rest.length ≤ c.rest.length + 1 ∧
      (left = 0 → st = 0 ∧ c' = c) := by
  intro fuel
  induction fuel with
  | zero =>
    intro left c h0 h1
    by_cases h : left = 0
    · exact absurd (h0 h) (by omega)
    · exact absurd (h1 h) (by omega)
  | succ fuel ih =>
    intro left c h0 h1
    unfold fillPiece
    by_cases hl : left = 0
    · rw [if_pos hl]
      exact Or.inr ⟨[], c, 0, rfl, by omega, fun _ => ⟨rfl, rfl⟩⟩
    · rw [if_neg hl]
      have hfuel := h1 hl
      obtain ⟨fi, cur, rest, foff, total⟩ := c
      simp only [] at hfuel ⊢
      generalize hn : min left (cur.len - foff) = n
      by_cases hbrk : total + n = L
      · rw [if_pos hbrk]
        exact Or.inr ⟨_, _, 1, rfl, by simp only; omega, fun h => absurd h hl⟩
      · rw [if_neg hbrk]
        by_cases hfl : cur.len - (foff + n) = 0
        · rw [if_pos hfl]
          cases rest with
          | nil => exact Or.inl rfl
          | cons f r =>
            simp only [List.length_cons] at hfuel ⊢
            rcases ih (left - n) { fi := fi + 1, cur := f, rest := r, foff := 0, total := total + n }
                (by intro _; omega) (by intro _; simp only; omega) with hp | ⟨ss, c', st, hrun, hst, _⟩
            · left; rw [hp]; rfl
            · right
              refine ⟨_, c', st + 1, Outcome.map_eq_ok _ _ _ hrun, ?_, fun h => absurd h hl⟩
              simp only [] at hst; omega
        · rw [if_neg hfl]
          have hnleft : left - n = 0 := by omega
          rcases ih (left - n) { fi := fi, cur := cur, rest := rest, foff := foff + n, total := total + n }
              (by intro _; omega) (by intro h; exact absurd hnleft h) with hp | ⟨ss, c', st, hrun, _, hz⟩
          · left; rw [hp]; rfl
          · right
            obtain ⟨hst0, hc'⟩ := hz hnleft
            refine ⟨_, c', st + 1, Outcome.map_eq_ok _ _ _ hrun, ?_, fun h => absurd h hl⟩
            subst hc' hst0; simp only; omega

theorem pieces_steps (pl L : Nat) : ∀ (k : Nat) (c : Cur),
    pieces pl L k c = .panic ∨ ∃ ps st, pieces pl L k c = .ok (ps, st) ∧ st ≤ c.rest.length + k := by
  intro k
  induction k with
  | zero => intro c; exact Or.inr ⟨[], 0, rfl, by omega⟩
  | succ k ih =>
    intro c
    rcases fillPiece_steps L (c.rest.length + 2) pl c (by intro; omega) (by intro; omega) with
      hp | ⟨ss, c', st, hrun, hst, _⟩
    · left; simp only [pieces, hp]
    · rcases ih c' with hp' | ⟨ps, st', hrun', hst'⟩
      · left; simp only [pieces, hrun, hp']
      · right
        exact ⟨{ len := (ss.map (·.len)).sum, secs := ss } :: ps, st + st', by simp only [pieces, hrun, hrun'], by omega⟩

/-- Everything the later lemmas need about `newPieces` on a well-formed input. -/
theorem newPieces_spec (files : List FileEnt) (pl n L : Nat) (h : WF files pl n L) :
    ∃ ps st, newPieces files pl n L = .ok (ps, st) ∧ TilesFiles files pl n L ps = true ∧
      (∀ s ∈ allSecs ps, secMetaOK files s = true) ∧ ∃ q, walkTo (0, 0) (allSecs ps) q := by
  obtain ⟨hne, hsum, hpl, _, hn, hlo, hhi⟩ := h
  cases files with
  | nil => exact absurd rfl hne
  | cons f r =>
    have hinv : Inv (f :: r) L { fi := 0, cur := f, rest := r, foff := 0, total := 0 } :=
      ⟨rfl, by simp, by simpa [remLen] using hsum⟩
    have hrl : remLen { fi := 0, cur := f, rest := r, foff := 0, total := 0 } = L := by
      simpa [remLen] using hsum
    obtain ⟨ps, st, hrun, hlen, hstream, hall, hlens, hsum', hmetas, q, hwalk⟩ :=
      pieces_spec (files := f :: r) (L := L) hpl n _ hinv (by intro h0; omega) (by intro _; rw [hrl]; exact ⟨hlo, hhi⟩)
    refine ⟨ps, st, hrun, ?_, hmetas, q, hwalk⟩
    have hs : secStream (allSecs ps) = fileStreamFrom 0 (f :: r) := by
      rw [hstream]; simp [rem, fileStreamFrom]
    have hm : (allSecs ps).all (secMetaOK (f :: r)) = true := by
      rw [List.all_eq_true]; exact hmetas
    simp only [TilesFiles, Bool.and_eq_true, beq_iff_eq]
    exact ⟨⟨⟨⟨⟨hlen, hs⟩, hall⟩, hlens hn⟩, by rw [hsum', hrl]⟩, hm⟩

end Rain.Geometry
