import RainModel.Model.Geometry
import RainModel.Lemmas.Geometry
/-! Helper lemmas for `read_write_roundtrip` (C02): `filesection.Piece.ReadAt` / `Write`. -/
namespace Rain.Geometry

theorem mem_bytesOf (i off len f o : Nat) : (f, o) ∈ bytesOf i off len ↔ f = i ∧ off ≤ o ∧ o < off + len := by
  unfold bytesOf
  simp only [List.mem_map, List.mem_range, Prod.mk.injEq]
  constructor
  · rintro ⟨k, hk, rfl, rfl⟩; omega
  · rintro ⟨rfl, h1, h2⟩; exact ⟨o - off, by omega, rfl, by omega⟩

/-! ### one file -/

theorem getByte_fileWrite {st st' : Store} {f off : Nat} {d : List Nat} (h : fileWrite st f off d = .ok st')
    (f' o : Nat) :
    getByte st' f' o = if f' = f ∧ off ≤ o ∧ o < off + d.length then d[o - off]? else getByte st f' o := by
  unfold fileWrite at h
  split at h
  · rename_i bs hbs
    split at h
    · rename_i hle
      cases h
      unfold getByte
      by_cases hf : f' = f
      · subst hf
        have hlt : f' < st.length := by
          rcases Nat.lt_or_ge f' st.length with h | h
          · exact h
          · rw [List.getElem?_eq_none h] at hbs; cases hbs
        rw [List.getElem?_set_self hlt, hbs]
        simp only [true_and]
        by_cases h1 : o < off
        · have : ¬ (off ≤ o ∧ o < off + d.length) := by omega
          rw [if_neg this, List.append_assoc, List.getElem?_append_left (by simp; omega), List.getElem?_take_of_lt h1]
        · by_cases h2 : o < off + d.length
          · rw [if_pos ⟨by omega, h2⟩, List.append_assoc, List.getElem?_append_right (by simp; omega)]
            have : (List.take off bs).length = off := by simp; omega
            rw [this, List.getElem?_append_left (by omega)]
          · have : ¬ (off ≤ o ∧ o < off + d.length) := by omega
            rw [if_neg this, List.getElem?_append_right (by simp; omega)]
            have : (List.take off bs ++ d).length = off + d.length := by simp; omega
            rw [this, List.getElem?_drop]
            congr 1; omega
      · have : ¬ (f' = f ∧ off ≤ o ∧ o < off + d.length) := fun h => hf h.1
        rw [if_neg this, List.getElem?_set_ne (Ne.symm hf)]
    · cases h
  · cases h
  · cases h

/-- Same number of files, padding files stay padding files, data files keep their size. -/
structure SameShape (st st' : Store) : Prop where
  len : st'.length = st.length
  pad : ∀ f : Nat, st[f]? = some FileStore.padding → st'[f]? = some FileStore.padding
  data : ∀ (f : Nat) (bs : List Nat), st[f]? = some (FileStore.data bs) → ∃ bs', st'[f]? = some (FileStore.data bs') ∧ bs'.length = bs.length

theorem SameShape.refl (st : Store) : SameShape st st := ⟨rfl, fun _ h => h, fun _ bs h => ⟨bs, h, rfl⟩⟩

theorem SameShape.trans {a b c : Store} (h1 : SameShape a b) (h2 : SameShape b c) : SameShape a c :=
  ⟨by rw [h2.len, h1.len], fun f h => h2.pad f (h1.pad f h), fun f bs h => by
    obtain ⟨bs', hb, hl⟩ := h1.data f bs h
    obtain ⟨bs'', hc, hl'⟩ := h2.data f bs' hb
    exact ⟨bs'', hc, by omega⟩⟩

theorem sameShape_fileWrite {st st' : Store} {f off : Nat} {d : List Nat} (h : fileWrite st f off d = .ok st') :
    SameShape st st' := by
  unfold fileWrite at h
  split at h
  · rename_i bs hbs
    split at h
    · rename_i hle
      cases h
      have hlt : f < st.length := by
        rcases Nat.lt_or_ge f st.length with h | h
        · exact h
        · rw [List.getElem?_eq_none h] at hbs; cases hbs
      refine ⟨by simp, ?_, ?_⟩
      · intro g hg
        by_cases hgf : g = f
        · subst hgf; rw [hbs] at hg; cases hg
        · rw [List.getElem?_set_ne (Ne.symm hgf)]; exact hg
      · intro g bs0 hg
        by_cases hgf : g = f
        · subst hgf
          rw [hbs] at hg; cases hg
          refine ⟨_, List.getElem?_set_self hlt, ?_⟩
          simp; omega
        · exact ⟨bs0, by rw [List.getElem?_set_ne (Ne.symm hgf)]; exact hg, rfl⟩
    · cases h
  · cases h
  · cases h

theorem fileWrite_ok {st : Store} {f off : Nat} {d bs : List Nat} (hbs : st[f]? = some (FileStore.data bs))
    (hle : off + d.length ≤ bs.length) : ∃ st', fileWrite st f off d = .ok st' := by
  unfold fileWrite
  simp only [hbs, if_pos hle]
  exact ⟨_, rfl⟩

theorem fits_of_sameShape {st st' : Store} (h : SameShape st st') (p : List Sec) (hf : fits st p = true) :
    fits st' p = true := by
  unfold fits at *
  rw [List.all_eq_true] at *
  intro s hs
  have := hf s hs
  split at this
  · rename_i bs hbs
    obtain ⟨bs', hb', hl⟩ := h.data _ _ hbs
    simp only [hb']
    rw [hl]; exact this
  · rename_i hp
    simp only [h.pad _ hp]; exact this
  · cases this

/-- A section fits: padding on a padding file, data inside a data file. -/
theorem fits_cons {st : Store} {s : Sec} {r : List Sec} (h : fits st (s :: r) = true) :
    ((s.pad = true ∧ st[s.file]? = some FileStore.padding) ∨
     (s.pad = false ∧ ∃ bs, st[s.file]? = some (FileStore.data bs) ∧ s.off + s.len ≤ bs.length)) ∧ fits st r = true := by
  unfold fits at h
  rw [List.all_cons, Bool.and_eq_true] at h
  refine ⟨?_, h.2⟩
  have h1 := h.1
  split at h1
  · rename_i bs hbs
    right
    simp only [Bool.and_eq_true, Bool.not_eq_true', decide_eq_true_eq] at h1
    exact ⟨h1.1, bs, hbs, h1.2⟩
  · rename_i hp
    left; exact ⟨h1, hp⟩
  · cases h1

/-! ### slices -/

theorem fileSlice_data {st : Store} {f off len : Nat} {bs : List Nat} (hbs : st[f]? = some (FileStore.data bs))
    (hle : off + len ≤ bs.length) : fileSlice st f off len = (bs.drop off).take len := by
  unfold fileSlice
  simp only [hbs]
  have : ((bs.drop off).take len).length = len := by simp; omega
  simp [this]

theorem length_fileSlice (st : Store) (f off len : Nat) : (fileSlice st f off len).length = len := by
  unfold fileSlice
  split
  · simp; omega
  · simp

theorem getElem?_fileSlice {st : Store} {f off len : Nat} {bs : List Nat} (hbs : st[f]? = some (FileStore.data bs))
    (hle : off + len ≤ bs.length) (k : Nat) (hk : k < len) :
    (fileSlice st f off len)[k]? = getByte st f (off + k) := by
  rw [fileSlice_data hbs hle]
  unfold getByte
  simp only [hbs]
  rw [List.getElem?_take_of_lt hk, List.getElem?_drop]

/-- Two slices agree when the underlying bytes agree. -/
theorem fileSlice_congr {st st' : Store} {f off len : Nat} {bs bs' : List Nat}
    (hbs : st[f]? = some (FileStore.data bs)) (hle : off + len ≤ bs.length)
    (hbs' : st'[f]? = some (FileStore.data bs')) (hle' : off + len ≤ bs'.length)
    (h : ∀ k, k < len → getByte st' f (off + k) = getByte st f (off + k)) :
    fileSlice st' f off len = fileSlice st f off len := by
  apply List.ext_getElem?
  intro k
  by_cases hk : k < len
  · rw [getElem?_fileSlice hbs' hle' k hk, getElem?_fileSlice hbs hle k hk, h k hk]
  · rw [List.getElem?_eq_none (by rw [length_fileSlice]; omega), List.getElem?_eq_none (by rw [length_fileSlice]; omega)]

/-! ### `Write` -/

theorem dataStream_cons_pad {s : Sec} (r : List Sec) (h : s.pad = true) : dataStream (s :: r) = dataStream r := by
  simp [dataStream, h]

theorem dataStream_cons_data {s : Sec} (r : List Sec) (h : s.pad = false) :
    dataStream (s :: r) = bytesOf s.file s.off s.len ++ dataStream r := by
  simp [dataStream, h, secStream]

theorem secsLen_cons (s : Sec) (r : List Sec) : secsLen (s :: r) = s.len + secsLen r := by simp [secsLen]

/-- `Write` on a piece whose sections fit and whose data sections are pairwise disjoint, with a
buffer at least as long as the piece. -/
theorem write_spec : ∀ (p : List Sec) (st : Store) (b : List Nat) (n : Nat),
    fits st p = true → (dataStream p).Nodup → secsLen p ≤ b.length →
    ∃ st', write st p b n = .ok st' (n + secsLen (p.filter fun s => !s.pad)) ∧ SameShape st st' ∧
      (∀ f o, (f, o) ∉ dataStream p → getByte st' f o = getByte st f o) ∧
      pieceContent st' p = zeroPadding p b := by
  intro p
  induction p with
  | nil =>
    intro st b n _ _ _
    exact ⟨st, by simp [write, secsLen], SameShape.refl st, fun _ _ _ => rfl, by simp [pieceContent, zeroPadding]⟩
  | cons s r ih =>
    intro st b n hfit hnd hlen
    rw [secsLen_cons] at hlen
    obtain ⟨hs, hfitr⟩ := fits_cons hfit
    rcases hs with ⟨hpad, _⟩ | ⟨hpad, bs, hbs, hin⟩
    · -- padding section: skipped
      rw [dataStream_cons_pad r hpad] at hnd
      obtain ⟨st', hw, hsh, hfr, hc⟩ := ih st (b.drop s.len) n hfitr hnd (by simp; omega)
      refine ⟨st', ?_, hsh, ?_, ?_⟩
      · have : s.len ≤ b.length := by omega
        simp only [write, hpad, if_true, this]
        rw [hw]; simp [hpad]
      · intro f o hno
        rw [dataStream_cons_pad r hpad] at hno
        exact hfr f o hno
      · simp only [pieceContent, List.flatMap_cons, hpad, if_true, zeroPadding]
        congr 1
    · -- data section
      rw [dataStream_cons_data r hpad] at hnd
      have hnd' := List.nodup_append.mp hnd
      have htake : (b.take s.len).length = s.len := by simp; omega
      obtain ⟨st1, hw1⟩ := fileWrite_ok (d := b.take s.len) hbs (by rw [htake]; exact hin)
      have hsh1 := sameShape_fileWrite hw1
      obtain ⟨st', hw, hsh, hfr, hc⟩ := ih st1 (b.drop s.len) (n + s.len) (fits_of_sameShape hsh1 r hfitr)
        hnd'.2.1 (by simp; omega)
      have hsh' := SameShape.trans hsh1 hsh
      refine ⟨st', ?_, hsh', ?_, ?_⟩
      · have : s.len ≤ b.length := by omega
        simp only [write, hpad, Bool.false_eq_true, if_false, this, if_true, hw1]
        rw [hw]; simp [hpad, secsLen_cons]; omega
      · intro f o hno
        rw [dataStream_cons_data r hpad, List.mem_append, not_or] at hno
        rw [hfr f o hno.2, getByte_fileWrite hw1]
        have : ¬ (f = s.file ∧ s.off ≤ o ∧ o < s.off + (b.take s.len).length) := by
          rw [htake]; intro h; exact hno.1 ((mem_bytesOf _ _ _ _ _).mpr h)
        rw [if_neg this]
      · simp only [pieceContent, List.flatMap_cons, hpad, Bool.false_eq_true, if_false, zeroPadding]
        congr 1
        obtain ⟨bs', hbs', hl'⟩ := hsh'.data _ _ hbs
        apply List.ext_getElem?
        intro k
        by_cases hk : k < s.len
        · rw [getElem?_fileSlice hbs' (by omega) k hk]
          have hnotin : (s.file, s.off + k) ∉ dataStream r := by
            intro hm
            exact hnd'.2.2 _ ((mem_bytesOf _ _ _ _ _).mpr ⟨rfl, by omega, by omega⟩) _ hm rfl
          rw [hfr _ _ hnotin, getByte_fileWrite hw1]
          have : s.file = s.file ∧ s.off ≤ s.off + k ∧ s.off + k < s.off + (b.take s.len).length := by
            rw [htake]; omega
          rw [if_pos this]
          congr 1; omega
        · rw [List.getElem?_eq_none (by rw [length_fileSlice]; omega), List.getElem?_eq_none (by omega)]

/-! ### `ReadAt` -/

/-- The bytes of one section. -/
def secBytes (st : Store) (s : Sec) : List Nat :=
  if s.pad then List.replicate s.len 0 else fileSlice st s.file s.off s.len

theorem pieceContent_eq (st : Store) (p : List Sec) : pieceContent st p = p.flatMap (secBytes st) := rfl

theorem length_secBytes (st : Store) (s : Sec) : (secBytes st s).length = s.len := by
  unfold secBytes; split <;> simp [length_fileSlice]

theorem length_flatMap_secBytes (st : Store) (p : List Sec) : (p.flatMap (secBytes st)).length = secsLen p := by
  induction p with
  | nil => rfl
  | cons s r ih => simp [List.flatMap_cons, length_secBytes, secsLen_cons, ih]

theorem fits_of_mem {st : Store} {p : List Sec} (h : fits st p = true) {s : Sec} (hs : s ∈ p) : fits st [s] = true := by
  unfold fits at *
  rw [List.all_eq_true] at h
  simp only [List.all_cons, List.all_nil, Bool.and_true]
  exact h s hs

/-- What the section reader over the tail `[off+a, off+len)` of a section yields. -/
theorem fileRead_eq {st : Store} {s : Sec} (h : fits st [s] = true) (a : Nat) (_ha : a ≤ s.len) :
    fileRead st s.file (s.off + a) (s.len - a) = (secBytes st s).drop a := by
  obtain ⟨hs, _⟩ := fits_cons h
  rcases hs with ⟨hpad, hp⟩ | ⟨hpad, bs, hbs, hin⟩
  · simp [fileRead, secBytes, hp, hpad]
  · unfold secBytes
    simp only [hpad, Bool.false_eq_true, if_false]
    rw [fileSlice_data hbs hin]
    simp only [fileRead, hbs]
    rw [List.drop_take, List.drop_drop]

theorem fileRead_eq0 {st : Store} {s : Sec} (h : fits st [s] = true) :
    fileRead st s.file s.off s.len = secBytes st s := by
  simpa using fileRead_eq h 0 (Nat.zero_le _)

theorem skipTo_spec : ∀ (p : List Sec) (pos off : Nat) (s : Sec) (r : List Sec) (pos' : Nat), pos ≤ off →
    skipTo p pos off = some (s, r, pos') →
    ∃ pre, p = pre ++ s :: r ∧ pos' = pos + secsLen pre + s.len ∧ pos + secsLen pre ≤ off ∧ off ≤ pos'
  | [], _, _, _, _, _, _, h => by simp [skipTo] at h
  | t :: q, pos, off, s, r, pos', hpos, h => by
    unfold skipTo at h
    split at h
    · rename_i hge
      cases h
      exact ⟨[], rfl, by simp [secsLen], by simp [secsLen]; exact hpos, hge⟩
    · rename_i hlt
      obtain ⟨pre, hp, hpos', hle, hge⟩ := skipTo_spec q (pos + t.len) off s r pos' (by omega) h
      refine ⟨t :: pre, by rw [hp]; rfl, ?_, ?_, hge⟩
      · rw [secsLen_cons]; omega
      · rw [secsLen_cons]; omega

theorem skipTo_isSome : ∀ (p : List Sec) (pos off : Nat), p ≠ [] → off ≤ pos + secsLen p →
    ∃ x, skipTo p pos off = some x
  | [], _, _, h, _ => absurd rfl h
  | t :: q, pos, off, _, hle => by
    unfold skipTo
    split
    · exact ⟨_, rfl⟩
    · rename_i hlt
      rw [secsLen_cons] at hle
      have hq : q ≠ [] := by
        intro hq; subst hq; simp [secsLen] at hle; omega
      exact skipTo_isSome q (pos + t.len) off hq (by omega)

theorem moreSecs_spec : ∀ (r : List Sec) (pos lim : Nat),
    ∃ r2, r = moreSecs r pos lim ++ r2 ∧ (r2 = [] ∨ lim ≤ pos + secsLen (moreSecs r pos lim))
  | [], _, _ => ⟨[], rfl, Or.inl rfl⟩
  | t :: q, pos, lim => by
    unfold moreSecs
    split
    · rename_i hge
      exact ⟨q, rfl, Or.inr (by simp [secsLen]; omega)⟩
    · obtain ⟨r2, hq, h⟩ := moreSecs_spec q (pos + t.len) lim
      refine ⟨r2, by rw [List.cons_append, ← hq], ?_⟩
      rcases h with h | h
      · exact Or.inl h
      · exact Or.inr (by rw [secsLen_cons]; omega)

theorem flatMap_congr_mem {α β} (l : List α) (f g : α → List β) (h : ∀ x ∈ l, f x = g x) : l.flatMap f = l.flatMap g := by
  induction l with
  | nil => rfl
  | cons a t ih =>
    simp only [List.flatMap_cons]
    rw [h a (by simp), ih (fun x hx => h x (by simp [hx]))]

/-- `ReadAt` of any range inside a piece whose sections fit returns exactly that range of the
piece's content. -/
theorem readAt_spec (st : Store) (p : List Sec) (off n : Nat) (hfit : fits st p = true) (hn : 0 < n)
    (hle : off + n ≤ secsLen p) : readAt st p off n = .ok (((pieceContent st p).drop off).take n) := by
  have hne : p ≠ [] := by
    intro h; subst h; simp [secsLen] at hle; omega
  obtain ⟨⟨s, r, pos'⟩, hskip⟩ := skipTo_isSome p 0 off hne (by omega)
  obtain ⟨pre, hp, hpos', hPle, hge⟩ := skipTo_spec p 0 off s r pos' (Nat.zero_le _) hskip
  simp only [Nat.zero_add] at hpos' hPle
  obtain ⟨r2, hr, hr2⟩ := moreSecs_spec r pos' (off + n)
  have hs_fit : fits st [s] = true := fits_of_mem hfit (by rw [hp]; simp)
  have hr1_fit : ∀ t ∈ moreSecs r pos' (off + n), fits st [t] = true := by
    intro t ht
    apply fits_of_mem hfit
    rw [hp, hr]; simp [ht]
  have hadv : s.len - (pos' - off) = off - secsLen pre := by omega
  -- the stream handed to ReadFull
  have hstream : fileRead st s.file (s.off + (s.len - (pos' - off))) (s.len - (s.len - (pos' - off))) ++
      (moreSecs r pos' (off + n)).flatMap (fun t => fileRead st t.file t.off t.len) =
      (secBytes st s).drop (off - secsLen pre) ++ (moreSecs r pos' (off + n)).flatMap (secBytes st) := by
    rw [fileRead_eq hs_fit _ (by omega), hadv]
    congr 1
    exact flatMap_congr_mem _ _ _ (fun t ht => fileRead_eq0 (hr1_fit t ht))
  -- the content from `off` on
  have hcontent : (pieceContent st p).drop off =
      ((secBytes st s).drop (off - secsLen pre) ++ (moreSecs r pos' (off + n)).flatMap (secBytes st)) ++
        r2.flatMap (secBytes st) := by
    rw [pieceContent_eq, hp]
    conv => lhs; rw [hr]
    simp only [List.flatMap_append, List.flatMap_cons]
    rw [List.drop_append, length_flatMap_secBytes,
      List.drop_eq_nil_of_le (by rw [length_flatMap_secBytes]; exact hPle), List.nil_append,
      List.drop_append, length_secBytes]
    have : off - secsLen pre - s.len = 0 := by omega
    rw [this, List.drop_zero, List.append_assoc]
  have hlen_content : (pieceContent st p).length = secsLen p := length_flatMap_secBytes st p
  unfold readAt
  simp only [hskip]
  rw [hstream, hcontent]
  -- taking n bytes never reaches into r2
  have htake : (((secBytes st s).drop (off - secsLen pre) ++ (moreSecs r pos' (off + n)).flatMap (secBytes st)) ++
      r2.flatMap (secBytes st)).take n =
      ((secBytes st s).drop (off - secsLen pre) ++ (moreSecs r pos' (off + n)).flatMap (secBytes st)).take n := by
    rcases hr2 with h | h
    · subst h; simp
    · apply List.take_append_of_le_length
      simp only [List.length_append, List.length_drop, length_secBytes, length_flatMap_secBytes]
      omega
  rw [htake]
  have hfull : (((secBytes st s).drop (off - secsLen pre) ++ (moreSecs r pos' (off + n)).flatMap (secBytes st)).take n).length = n := by
    rw [← htake, ← hcontent]
    simp only [List.length_take, List.length_drop, hlen_content]
    omega
  rw [if_pos hfull]

/-! ### the executable oracle `writeOK` follows from the propositional facts -/

theorem writeOK_of {st st' : Store} {p : List Sec} {b : List Nat} {n : Nat}
    (hn : n = secsLen (p.filter fun s => !s.pad)) (hc : pieceContent st' p = zeroPadding p b)
    (hsh : SameShape st st') (hfr : ∀ f o, (f, o) ∉ dataStream p → getByte st' f o = getByte st f o) :
    writeOK st p b (.ok st' n) = true := by
  unfold writeOK
  simp only [Bool.and_eq_true, beq_iff_eq, List.all_eq_true, List.mem_range]
  refine ⟨⟨⟨hn, hc⟩, hsh.len⟩, ?_⟩
  intro f hf
  cases hst : st[f]? with
  | none => rw [List.getElem?_eq_none_iff] at hst; omega
  | some e =>
    cases e with
    | padding => simp only [hsh.pad f hst]
    | data bs =>
      obtain ⟨bs', hbs', hl⟩ := hsh.data f bs hst
      simp only [hbs', Bool.and_eq_true, beq_iff_eq, List.all_eq_true, Bool.or_eq_true]
      refine ⟨hl, ?_⟩
      rintro ⟨⟨x, y⟩, o⟩ hmem
      rw [List.mem_zipIdx_iff_getElem?] at hmem
      simp only at hmem
      rw [List.getElem?_zip_eq_some] at hmem
      simp only at hmem
      by_cases hin : (f, o) ∈ dataStream p
      · right; exact List.contains_iff_mem.mpr hin
      · left
        have := hfr f o hin
        simp only [getByte, hst, hbs', hmem.1, hmem.2] at this
        cases this; rfl

/-! ### the pieces built by `newPieces` meet the hypotheses of `read_write_roundtrip` -/

theorem nodup_bytesOf (i off : Nat) : ∀ len, (bytesOf i off len).Nodup
  | 0 => by simp [bytesOf]
  | len + 1 => by
    rw [bytesOf_add, List.nodup_append]
    refine ⟨nodup_bytesOf i off len, by simp [bytesOf], ?_⟩
    intro a ha b hb hab
    subst hab
    obtain ⟨f, o⟩ := a
    have h1 := (mem_bytesOf _ _ _ _ _).mp ha
    have h2 := (mem_bytesOf _ _ _ _ _).mp hb
    omega

theorem le_of_mem_fileStreamFrom : ∀ (fs : List FileEnt) (i : Nat) (x : Nat × Nat), x ∈ fileStreamFrom i fs → i ≤ x.1
  | [], _, _, h => by simp [fileStreamFrom] at h
  | f :: r, i, (a, b), h => by
    simp only [fileStreamFrom, List.mem_append] at h
    rcases h with h | h
    · have := (mem_bytesOf _ _ _ _ _).mp h; simp only; omega
    · have := le_of_mem_fileStreamFrom r (i + 1) _ h; simp only at this ⊢; omega

theorem nodup_fileStreamFrom : ∀ (fs : List FileEnt) (i : Nat), (fileStreamFrom i fs).Nodup
  | [], _ => by simp [fileStreamFrom]
  | f :: r, i => by
    simp only [fileStreamFrom]
    rw [List.nodup_append]
    refine ⟨nodup_bytesOf _ _ _, nodup_fileStreamFrom r (i + 1), ?_⟩
    intro a ha b hb hab
    subst hab
    obtain ⟨x, y⟩ := a
    have h1 := (mem_bytesOf _ _ _ _ _).mp ha
    have h2 := le_of_mem_fileStreamFrom r (i + 1) _ hb
    simp only at h2
    omega

theorem secStream_filter_sublist (q : Sec → Bool) : ∀ (p : List Sec), (secStream (p.filter q)).Sublist (secStream p)
  | [] => List.Sublist.refl _
  | s :: r => by
    have ih := secStream_filter_sublist q r
    simp only [List.filter_cons]
    split
    · simp only [secStream, List.flatMap_cons]
      exact List.Sublist.append (List.Sublist.refl _) ih
    · simp only [secStream, List.flatMap_cons]
      exact List.Sublist.trans ih (List.sublist_append_right _ _)

theorem secStream_piece_sublist {ps : List Piece} {p : Piece} (hp : p ∈ ps) :
    (secStream p.secs).Sublist (secStream (allSecs ps)) := by
  have : ∀ qs : List Piece, secStream (allSecs qs) = (qs.map fun p => secStream p.secs).flatten := by
    intro qs
    induction qs with
    | nil => rfl
    | cons a r ih =>
      rw [allSecs_cons, secStream_append, ih]; rfl
  rw [this]
  exact List.sublist_flatten_of_mem (List.mem_map.mpr ⟨p, hp, rfl⟩)

/-- In a tiling every byte position occurs once, so the data sections of each piece are pairwise
disjoint (and so are different pieces). -/
theorem nodup_of_tiles {files : List FileEnt} {pl n L : Nat} {ps : List Piece} (h : TilesFiles files pl n L ps = true) :
    (secStream (allSecs ps)).Nodup ∧ ∀ p ∈ ps, (dataStream p.secs).Nodup := by
  simp only [TilesFiles, Bool.and_eq_true, beq_iff_eq] at h
  have hs : secStream (allSecs ps) = fileStreamFrom 0 files := h.1.1.1.1.2
  have hnd : (secStream (allSecs ps)).Nodup := by rw [hs]; exact nodup_fileStreamFrom files 0
  refine ⟨hnd, fun p hp => ?_⟩
  exact List.Nodup.sublist (List.Sublist.trans (secStream_filter_sublist _ p.secs) (secStream_piece_sublist hp)) hnd

theorem fits_of_storeMatches {files : List FileEnt} {st : Store} (hm : storeMatches files st = true)
    (secs : List Sec) (hs : ∀ s ∈ secs, secMetaOK files s = true) : fits st secs = true := by
  unfold storeMatches at hm
  rw [Bool.and_eq_true, beq_iff_eq, List.all_eq_true] at hm
  unfold fits
  rw [List.all_eq_true]
  intro s hsm
  have h1 := hs s hsm
  unfold secMetaOK at h1
  cases hf : files[s.file]? with
  | none => simp [hf] at h1
  | some f =>
    simp only [hf, Bool.and_eq_true, beq_iff_eq, decide_eq_true_eq] at h1
    have hlt : s.file < st.length := by
      rw [← hm.1]
      rcases Nat.lt_or_ge s.file files.length with h | h
      · exact h
      · rw [List.getElem?_eq_none h] at hf; cases hf
    have he : st[s.file]? = some st[s.file] := List.getElem?_eq_getElem hlt
    have hz : (files.zip st)[s.file]? = some (f, st[s.file]) := List.getElem?_zip_eq_some.mpr ⟨hf, he⟩
    have := hm.2 _ (List.mem_of_getElem? hz)
    simp only at this
    rw [he]
    cases hst : st[s.file] with
    | padding => simp only [hst] at this ⊢; rw [h1.1.1]; exact this
    | data bs =>
      simp only [hst, Bool.and_eq_true, Bool.not_eq_true', beq_iff_eq] at this ⊢
      refine ⟨by rw [h1.1.1]; exact this.1, ?_⟩
      simp only [decide_eq_true_eq]; omega

end Rain.Geometry
