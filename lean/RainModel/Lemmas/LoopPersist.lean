import RainModel.Lemmas.LoopWeak
import RainModel.Lemmas.LoopStopped
/-!
C05 across external deletions/restorations of files, for histories without a verify command: the resume
bitfield never claims a piece the in-memory bitfield does not claim (`PBehind`), hence (with the weak
soundness invariant `WS` of the in-memory bitfield) a stale resume bit is bad only inside files that are
currently missing, and a restart — which trusts the record only when no file is missing — never trusts a
piece that is not verified on disk.
-/
namespace Rain.Loop

/-- No verify is pending and the resume bitfield is bitwise below the in-memory bitfield. -/
structure PBehind (s : St) : Prop where
  dv : s.doVerify = false
  sub : ∀ i, bitOf s.persisted i = true → bitOf s.bf i = true

theorem PBehind.of_eq {s s' : St} (h : PBehind s) (hd : s'.doVerify = s.doVerify) (hb : s'.bf = s.bf)
    (hp : s'.persisted = s.persisted) : PBehind s' :=
  ⟨hd.trans h.dv, fun i hi => by rw [hb]; rw [hp] at hi; exact h.sub i hi⟩

theorem PBehind.grow {s s' : St} (h : PBehind s) (hd : s'.doVerify = s.doVerify)
    (hb : ∀ i, bitOf s.bf i = true → bitOf s'.bf i = true) (hp : s'.persisted = s.persisted) : PBehind s' :=
  ⟨hd.trans h.dv, fun i hi => by rw [hp] at hi; exact hb i (h.sub i hi)⟩

theorem PBehind.written {s s' : St} (h : PBehind s) (hd : s'.doVerify = s.doVerify) (hp : s'.persisted = s'.bf) :
    PBehind s' :=
  ⟨hd.trans h.dv, fun i hi => by rw [hp] at hi; exact hi⟩

theorem PBehind.forgot {s s' : St} (h : PBehind s) (hd : s'.doVerify = s.doVerify) (hp : s'.persisted = none) :
    PBehind s' :=
  ⟨hd.trans h.dv, fun i hi => by rw [hp] at hi; cases hi⟩

theorem writeBitfield_pb (s : St) (h : PBehind s) : PBehind s.writeBitfield := by
  unfold St.writeBitfield
  split
  · next b hb => exact h.written rfl (by simp [hb])
  · exact h.of_eq (by simp) (by simp) (by simp)

theorem stopAlloc_pb (s : St) (h : PBehind s) : PBehind (stopAlloc s) := by
  unfold stopAlloc
  split
  · generalize (allocOpened s).any (fun i => !(s.fileExists.getD i false)) = c
    refine ⟨h.dv, fun i hi => ?_⟩
    have hs := h.sub i
    cases c <;> cases hb : s.bf <;> simp_all
  · exact h

theorem stop_pb (s : St) (e : Bool) (h : PBehind s) : PBehind (s.stop e) := by
  rw [stop_eq]
  split
  · exact h
  · unfold stopRun
    have h1 : PBehind (stopClear (stopPeers (stopA s e))) :=
      ⟨by simp [stopA, h.dv], fun i hi => by
        have := h.sub i (by simpa using hi)
        simpa using this⟩
    have h2 : PBehind (stopWB (stopClear (stopPeers (stopA s e)))) := by
      unfold stopWB; split
      · exact writeBitfield_pb _ h1
      · exact h1
    have h3 : PBehind (stopWB (stopClear (stopPeers (stopA s e)))).closeData := h2.of_eq (by simp) (by simp) (by simp)
    exact (stopAlloc_pb _ h3).of_eq (by simp) (by simp) (by simp)

theorem bitOf_foldl_setAt (idx : List Nat) (b : List Bool) (i : Nat) (h : b.getD i false = true) :
    (idx.foldl (fun d i => setAt d i true) b).getD i false = true := by
  induction idx generalizing b with
  | nil => exact h
  | cons a idx ih =>
    apply ih
    rw [getD_setAt]
    split
    · rfl
    · exact h

theorem markPaddingPieces_pb (s : St) (h : PBehind s) : PBehind s.markPaddingPieces := by
  unfold St.markPaddingPieces
  split
  · exact h
  · next b hb =>
    refine h.grow rfl (fun i hi => ?_) rfl
    rw [hb] at hi
    simp only [bitOf_some] at hi ⊢
    exact bitOf_foldl_setAt _ b i hi

theorem checkCompletion_pb (s : St) (h : PBehind s) : PBehind s.checkCompletion.1 :=
  h.of_eq (by simp) (by simp) (by simp)

theorem hadReady_pb (m : M) (h : PBehind m.1) : PBehind (hadReady m).1 := h.of_eq (by simp) (by simp) (by simp)

theorem hadCheck_pb (m : M) (h : PBehind m.1) : PBehind (hadCheck m).1 := by
  unfold hadCheck
  dsimp only
  split
  · simp only [onSt_fst]; exact stop_pb _ _ (checkCompletion_pb _ h)
  · exact hadReady_pb _ (checkCompletion_pb _ h)

theorem resetCompletion_pb (s : St) (h : PBehind s) : PBehind s.resetCompletion :=
  h.of_eq (by simp) (by simp) (by simp)

/-- A fresh (all-false) bitfield is installed only when there was none: the record then has no bit. -/
theorem hadFreshInstall_pb (m : M) (h : PBehind m.1) (hb : m.1.bf = none) : PBehind (hadFreshInstall m).1 := by
  unfold hadFreshInstall
  simp only [onSt_fst]
  apply markPaddingPieces_pb
  apply resetCompletion_pb
  refine ⟨h.dv, fun i hi => ?_⟩
  have := h.sub i hi
  rw [hb] at this; cases this

theorem hadFresh_pb (m : M) (h : PBehind m.1) (hb : m.1.bf = none) : PBehind (hadFresh m).1 := by
  unfold hadFresh
  dsimp only
  have h0 := hadFreshInstall_pb m h hb
  split
  · simp only [onSt_fst]; exact stop_pb _ _ ⟨rfl, fun i hi => h0.sub i hi⟩
  · exact hadCheck_pb _ h0

theorem hadTrust_pb (m : M) (b : List Bool) (h : PBehind m.1) : PBehind (hadTrust m b).1 := by
  unfold hadTrust
  apply hadCheck_pb
  simp only [onSt_fst]
  apply markPaddingPieces_pb
  exact h.of_eq rfl rfl rfl

theorem hadForget_pb (m : M) (mi : Bool) (h : PBehind m.1) : PBehind (hadForget m mi).1 := by
  unfold hadForget
  simp only [onSt_fst]
  split
  · exact h.forgot rfl rfl
  · exact h

theorem handleAllocationDone_pb (m : M) (ex mi : Bool) (h : PBehind m.1) :
    PBehind (handleAllocationDone m ex mi).1 := by
  rw [handleAllocationDone_eq]
  dsimp only
  have h0 : PBehind (hadForget (hadInstall m) mi).1 := hadForget_pb _ _ (h.of_eq (by simp) (by simp) (by simp))
  split
  · next b hb =>
    split
    · exact hadTrust_pb _ _ h0
    · split
      · -- not reachable (`hadForget` has dropped the bitfield when files are missing); harmless anyway
        rename_i hmi _
        have : mi = true := by simpa using hmi
        subst this
        unfold hadForget at hb
        simp only [onSt_fst, Bool.true_and] at hb
        split at hb
        · simp at hb
        · rename_i hn; rw [hb] at hn; simp at hn
      · exact h0.of_eq rfl rfl rfl
  · next hb =>
    split
    · exact hadFresh_pb _ h0 hb
    · exact h0.of_eq rfl rfl rfl

theorem allocatorRun_pb (m : M) (h : PBehind m.1) : PBehind (allocatorRun m).1 := by
  rw [allocatorRun_eq]
  split
  · unfold allocFail
    simp only [onSt_fst]
    exact stop_pb _ _ (hadForget_pb _ _ (h.of_eq (by simp) (by simp) (by simp)))
  · exact handleAllocationDone_pb _ _ _ (h.of_eq (by simp) (by simp) (by simp))

theorem hvdInstall_pb (m : M) (h : PBehind m.1) : PBehind (hvdInstall m).1 := by
  rw [hvdInstall_eq]
  have h1 : PBehind (hvdPre m).1 :=
    h.written (by simp [hvdPre, St.writeBitfield]) (by simp [hvdPre, St.writeBitfield])
  simp only [onSt_fst]
  split
  · exact resetCompletion_pb _ h1
  · exact h1

theorem handleVerificationDone_pb (m : M) (h : PBehind m.1) : PBehind (handleVerificationDone m).1 := by
  rw [handleVerificationDone_eq]
  dsimp only
  have h0 := hvdInstall_pb m h
  split
  · simp only [onSt_fst]; exact stop_pb _ _ ⟨rfl, fun i hi => h0.sub i hi⟩
  · exact hadCheck_pb _ (h0.of_eq (by simp) (by simp) (by simp))

theorem pwdFinish_pb (m : M) (h : PBehind m.1) : PBehind (pwdFinish m).1 := by
  unfold pwdFinish
  dsimp only
  have h1 := checkCompletion_pb _ h
  split
  · have h2 : PBehind (onSt (m.1.checkCompletion.1, m.2) (·.writeBitfield)).1 := by
      simp only [onSt_fst]; exact writeBitfield_pb _ h1
    split
    · simp only [onSt_fst] at h2 ⊢; exact stop_pb _ _ h2
    · exact h2
  · exact h1

theorem handlePieceWriteDone_pb (m : M) (w : WriteJob) (e : Bool) (h : PBehind m.1) :
    PBehind (handlePieceWriteDone m w e).1 := by
  rw [handlePieceWriteDone_eq]
  dsimp only
  have h0 : PBehind (pwdReset m w).1 := h.of_eq (by simp) (by simp) (by simp)
  split
  · exact h0.of_eq (by simp) (by simp) (by simp)
  split
  · exact h0
  · split
    · simp only [onSt_fst]; exact stop_pb _ _ h0
    · have h1 : PBehind (pwdDone (pwdReset m w) w).1 := h0.of_eq (by simp) (by simp) (by simp)
      split
      · exact h1.of_eq (by simp) (by simp) (by simp)
      · next b hb =>
        unfold pwdOk
        apply pwdFinish_pb
        refine PBehind.of_eq (s := (pwdSet (pwdDone (pwdReset m w) w) w b).1) ?_ (by simp) (by simp) (by simp)
        unfold pwdSet
        dsimp only
        refine h1.grow (by split <;> simp) (fun i hi => ?_) (by split <;> simp)
        rw [hb] at hi
        have hi' : b.getD i false = true := hi
        have : ((pwdSet (pwdDone (pwdReset m w) w) w b).1).bf = some (setAt b w.piece true) := by
          unfold pwdSet; dsimp only; split <;> simp
        unfold pwdSet at this; dsimp only at this
        rw [this]
        simp only [bitOf_some]
        rw [getD_setAt]
        split
        · rfl
        · exact hi'

theorem writerRun_pb (m : M) (w : WriteJob) (h : PBehind m.1) : PBehind (writerRun m w).1 := by
  unfold writerRun
  dsimp only
  repeat' split
  all_goals first
    | exact handlePieceWriteDone_pb _ _ _ h
    | exact handlePieceWriteDone_pb _ _ _ (h.of_eq rfl rfl rfl)
    | exact h.of_eq rfl rfl rfl

/-- With no verify pending `handleStopped` does not touch the bitfield. -/
theorem handleStopped_pb (m : M) (h : PBehind m.1) : PBehind (handleStopped m).1 := by
  unfold handleStopped
  dsimp only
  rw [if_neg (by simp [h.dv])]
  exact h.of_eq rfl rfl rfl

theorem startCore_pb (m : M) (h : PBehind m.1) : PBehind (startCore m).1 := h.of_eq (by simp) (by simp) (by simp)

theorem start_pb (m : M) (h : PBehind m.1) : PBehind (start m).1 := by
  rw [start_eq]
  have h1 : PBehind (startPre m).1 := by
    unfold startPre
    split
    · exact handleStopped_pb _ (h.of_eq rfl rfl rfl)
    · exact h
  unfold startGo
  split
  · exact h1
  · exact startCore_pb _ h1

theorem runWorkers_pb (fuel : Nat) (m : M) (h : PBehind m.1) : PBehind (runWorkers fuel m).1 := by
  induction fuel generalizing m with
  | zero => exact h
  | succ n ih =>
    unfold runWorkers
    dsimp only
    repeat' split
    all_goals first
      | exact h
      | exact ih _ (handleStopped_pb _ h)
      | exact ih _ (allocatorRun_pb _ h)
      | exact ih _ (handleVerificationDone_pb _ h)
      | exact ih _ (handlePieceWriteDone_pb _ _ _ h)
      | exact ih _ (writerRun_pb _ _ h)

theorem handlePieceMessage_pb (m : M) (k i b l : Nat) (g : Bool) (h : PBehind m.1) :
    PBehind (handlePieceMessage m k i b l g).1 := h.of_eq (by simp) (by simp) (by simp)

theorem deliverParked_pb (m : M) (p : Parked) (h : PBehind m.1) : PBehind (deliverParked m p).1.1 := by
  unfold deliverParked
  repeat' split
  all_goals first
    | exact h
    | exact runWorkers_pb _ _ (handlePieceMessage_pb _ _ _ _ _ _ h)

theorem hmdStart_pb (m : M) (h : PBehind m.1) : PBehind (hmdStart m).1 := by
  unfold hmdStart
  split
  · simp only [onSt_fst]; exact stop_pb _ _ h
  · refine h.of_eq ?_ ?_ ?_ <;> simp <;> done

theorem hmdAdopt_pb (m : M) (h : PBehind m.1) : PBehind (hmdAdopt m).1 := by
  unfold hmdAdopt
  dsimp only
  repeat' split
  all_goals first
    | (simp only [onSt_fst]; exact stop_pb _ _ (h.of_eq rfl rfl rfl))
    | exact hmdStart_pb _ (h.of_eq rfl rfl rfl)

theorem handleMetadataData_pb (m : M) (k i len : Nat) (g : Bool) (h : PBehind m.1) :
    PBehind (handleMetadataData m k i len g).1 := by
  rw [handleMetadataData_eq]
  split
  · exact h
  unfold hmdBlock
  dsimp only
  repeat' split
  all_goals first
    | exact hmdAdopt_pb _ (h.of_eq rfl rfl rfl)
    | (refine h.of_eq ?_ ?_ ?_ <;> simp <;> done)

/-- The two forms of the verify command (`verifyHeld`: the harness leaves the storage gates alone). -/
def Op.isVerify : Op → Bool
  | .verify => true
  | .verifyHeld => true
  | _ => false

theorem mutate_pb (s : St) (f : Option Nat) (how : Mut) (h : PBehind s) : PBehind (mutate s f how) :=
  h.of_eq (by simp) (by simp) (by simp)

/-- The stop command (fix C04-F6): the pending verification request is withdrawn, then `stop`. -/
theorem stopCmd_pb (s : St) (h : PBehind s) : PBehind (({ s with doVerify := false }).stop false) :=
  stop_pb _ false (h.of_eq h.dv.symm rfl rfl)

theorem handle_pb (s : St) (p : Parked) (kn : Nat → Bool) (op : Op) (hop : op.isVerify = false) (h : PBehind s) :
    PBehind (handle s p kn op).1.1 := by
  unfold handle
  repeat' split
  all_goals first
    | exact h
    | (simp [Op.isVerify] at hop; done)
    | exact start_pb (s, []) h
    | exact handlePieceMessage_pb (s, []) _ _ _ _ _ h
    | exact handleMetadataData_pb (s, []) _ _ _ _ h
    | exact mutate_pb s _ _ h
    | (simp only [onSt_fst]; exact (stopCmd_pb s h).of_eq rfl rfl rfl)
    | (simp only [onSt_fst]; exact stopCmd_pb s h)
    | (next hb => exact h.written rfl hb.symm)
    | (next heq => have hm := congrArg Prod.fst heq; simp only at hm; rw [← hm]; refine h.of_eq ?_ ?_ ?_ <;> simp <;> done)
    | (refine h.of_eq ?_ ?_ ?_ <;> simp <;> done)

theorem step_pb (s : St) (p : Parked) (kn : Nat → Bool) (op : Op) (hop : op.isVerify = false) (h : PBehind s) :
    PBehind (step s p kn op).1.st := by
  rw [step_st]
  have h0 : PBehind { s with sto := [], mayStart := [], closedDl := [], mayStartI := false } := h.of_eq rfl rfl rfl
  have h1 := handle_pb _ p kn op hop h0
  have h2 := runWorkers_pb 12 _ h1
  split
  · exact deliverParked_pb _ _ h2
  · exact h2

theorem dstep_pb (sp : St × Parked) (e : Ev) (hop : e.op.isVerify = false) (h : PBehind sp.1) :
    PBehind (dstep sp e).1 := by
  unfold dstep
  exact (step_pb sp.1 sp.2 e.known e.op hop h).of_eq (by simp) (by simp) (by simp)

theorem drun_pb (evs : List Ev) (sp : St × Parked) (hop : ∀ e ∈ evs, e.op.isVerify = false) (h : PBehind sp.1) :
    PBehind (drun sp evs).1 := by
  induction evs generalizing sp with
  | nil => exact h
  | cons e evs ih =>
    exact ih _ (fun e' he' => hop e' (List.mem_cons_of_mem _ he')) (dstep_pb sp e (hop e (List.mem_cons_self ..)) h)

/-- The resume bitfield is stale only where a file is missing (`WS` for the record). -/
def WSP (s : St) : Prop :=
  ∀ i, bitOf s.persisted i = true → ∀ x ∈ s.bad, x.1 = i → s.fileExists.getD x.2 false = false

theorem WSP.of_pb {s : St} (h : WS s) (hp : PBehind s) : WSP s :=
  fun i hi => h i (hp.sub i hi)

/-- With every file present a weakly sound record is sound. -/
theorem WSP.sound_of_files {s : St} (h : WSP s) (hb : BadWF s) (hfe : FilesExist s)
    (hpad : ∀ i, bitOf s.persisted i = true → s.cfg.padOK i = true) :
    ∀ i, bitOf s.persisted i = true → s.diskOKi i = true := by
  intro i hi
  rw [diskOKi_eq_true]
  refine ⟨?_, hpad i hi⟩
  intro x hx hxi
  have hmiss := h i hi x hx hxi
  obtain ⟨sc, hsc, hfile, hdata⟩ := hb x hx
  simp only [Cfg.isData, Bool.and_eq_true, Bool.not_eq_true', decide_eq_true_eq] at hdata
  have hlt := sections_file_lt s.cfg x.1 sc hsc hdata.2
  have := hfe sc.file hlt hdata.1
  rw [hfile] at this
  rw [hmiss] at this
  cases this

end Rain.Loop
