import RainModel.Lemmas.PickerPick
/-!
Completeness of the pick ladder of M-PICK (`findPiece false`, `pickFor false`): when a piece is free
for an idle peer, every admissible outcome of the picker is a request.  Helper lemmas for
`Props/C10Picker.lean`; no model definition is changed.
-/
namespace Rain.Picker

/-- Piece `i` is *free for* peer `p`: in range, needed (not `Done`, not `Writing`), held by `p` and
requested from nobody (`PickableBy` of a valid index). -/
def FreeFor (s : State) (p i : Nat) : Prop :=
  i < s.n ∧ (s.pieces i).done = false ∧ (s.pieces i).writing = false ∧ p ∈ (s.pieces i).having ∧
    (s.pieces i).requested = []

instance (s : State) (p i : Nat) : Decidable (FreeFor s p i) := by unfold FreeFor; exact inferInstance

/-- Outcome `r` of `pickFor _ s p` is a request: a proper state in which the loop's downloader of `p`
is on the returned piece and `p` is recorded in its `Requested` set. -/
def Served (p : Nat) (r : R (State × Option (Nat × Bool))) : Prop :=
  ∃ s' j af, r = .ok (s', some (j, af)) ∧ (s'.peers p).dl = some (j, af) ∧ p ∈ (s'.pieces j).requested

theorem FreeFor.pickable {s : State} {p i : Nat} (h : FreeFor s p i) : (s.pieces i).pickable p = true :=
  (pickable_iff _ _).mpr ⟨h.2.1, h.2.2.1, h.2.2.2.2, h.2.2.2.1⟩

/-- `PickFor` + `startSinglePieceDownloader` turn a found piece into a request. -/
theorem pickFor_served (legacy : Bool) (s : State) (p : Nat)
    (hfp : ∀ r ∈ findPiece legacy s p, ∃ s1 j af, r = .ok (s1, some (j, af))) :
    ∀ r ∈ pickFor legacy s p, Served p r := by
  intro r hr
  unfold pickFor at hr
  simp only [List.mem_map] at hr
  obtain ⟨r0, hr0, rfl⟩ := hr
  obtain ⟨s1, j, af, rfl⟩ := hfp r0 hr0
  refine ⟨_, j, af, rfl, ?_, ?_⟩
  · simp
  · simp [mem_sadd]

/-! ### the rungs answer when they can -/

theorem exists_min_measure {α : Type} (f : α → Nat) : ∀ (c : List α), c ≠ [] → ∃ x ∈ c, ∀ y ∈ c, f x ≤ f y
  | [], h => absurd rfl h
  | [x], _ => ⟨x, by simp, by intro j hj; simp at hj; subst hj; exact Nat.le_refl _⟩
  | x :: y :: rest, _ => by
    obtain ⟨m, hm, hmin⟩ := exists_min_measure f (y :: rest) (by simp)
    by_cases hx : f x ≤ f m
    · refine ⟨x, by simp, ?_⟩
      intro j hj
      simp only [List.mem_cons] at hj
      rcases hj with rfl | hj
      · exact Nat.le_refl _
      · exact Nat.le_trans hx (hmin j (by simpa using hj))
    · refine ⟨m, by simp only [List.mem_cons] at hm ⊢; exact Or.inr hm, ?_⟩
      intro j hj
      simp only [List.mem_cons] at hj
      rcases hj with rfl | hj
      · omega
      · exact hmin j (by simpa using hj)

/-- `pickAllowedFast` finds a piece as soon as the allowed-fast set contains a pickable one. -/
theorem pickAllowedFastLoop_isSome (s : State) (p : Nat) : ∀ (l : List Nat) (acc : Option Nat),
    (acc.isSome = true ∨ ∃ x ∈ l, x < s.n ∧ (s.pieces x).pickable p = true) →
    (pickAllowedFastLoop s p l acc).isSome = true
  | [], acc, h => by
    rcases h with h | ⟨x, hx, _⟩
    · simpa [pickAllowedFastLoop] using h
    · cases hx
  | x :: rest, acc, h => by
    simp only [pickAllowedFastLoop]
    split
    · split
      · rfl
      · apply pickAllowedFastLoop_isSome s p rest _ (Or.inl ?_)
        cases acc with
        | none => rfl
        | some k => simp only []; split <;> rfl
    · rename_i hc
      apply pickAllowedFastLoop_isSome s p rest acc
      rcases h with h | ⟨y, hy, hyn, hyp⟩
      · exact Or.inl h
      · simp only [List.mem_cons] at hy
        rcases hy with rfl | hy
        · exfalso; apply hc; simp [hyn, hyp]
        · exact Or.inr ⟨y, hy, hyn, hyp⟩

theorem pickAllowedFast_isSome {s : State} {p i : Nat} (hfree : FreeFor s p i) (haf : i ∈ (s.peers p).af) :
    (pickAllowedFast s p).isSome = true :=
  pickAllowedFastLoop_isSome s p _ none (Or.inr ⟨i, haf, hfree.1, hfree.pickable⟩)

theorem find_pickable_isSome {s : State} {p i : Nat} (hfree : FreeFor s p i) :
    ∃ j, (List.range s.n).find? (fun i => (s.pieces i).pickable p) = some j := by
  have : ((List.range s.n).find? (fun i => (s.pieces i).pickable p)).isSome = true := by
    rw [List.find?_isSome]
    exact ⟨i, List.mem_range.mpr hfree.1, hfree.pickable⟩
  exact Option.isSome_iff_exists.mp this

theorem pickSequential_some {s : State} {p i : Nat} (hfree : FreeFor s p i) :
    ∃ j, pickSequential s p = (s, some j) := by
  obtain ⟨j, hj⟩ := find_pickable_isSome hfree
  exact ⟨j, by simp only [pickSequential, hj]⟩

theorem pickRarest_some {s : State} {p i : Nat} (hfree : FreeFor s p i) :
    ∀ x ∈ pickRarest s p, ∃ j, x = (s, some j) := by
  intro x hx
  unfold pickRarest at hx
  simp only [] at hx
  split at hx
  · rename_i he
    have hm : i ∈ (List.range s.n).filter fun i => (s.pieces i).pickable p :=
      List.mem_filter.mpr ⟨List.mem_range.mpr hfree.1, hfree.pickable⟩
    rw [List.isEmpty_iff.mp he] at hm; cases hm
  · simp only [List.mem_map] at hx
    obtain ⟨j, _, rfl⟩ := hx
    exact ⟨j, rfl⟩

/-- With a limit of at least one duplicate (the free piece has zero requests), `pickEndgame` answers. -/
theorem pickEndgame_some {s : State} {p i : Nat} (hfree : FreeFor s p i) (hlim : 1 ≤ s.maxDup) :
    ∀ x ∈ pickEndgame s p, ∃ j, x = some j := by
  intro x hx
  unfold pickEndgame at hx
  simp only [] at hx
  split at hx
  · rename_i he
    have hm : i ∈ (List.range s.n).filter fun i =>
        !((s.pieces i).done || (s.pieces i).writing) && decide ((s.pieces i).requested.length < s.maxDup) &&
          (s.pieces i).having.contains p := by
      rw [List.mem_filter]
      refine ⟨List.mem_range.mpr hfree.1, ?_⟩
      simp [hfree.2.1, hfree.2.2.1, hfree.2.2.2.2, hfree.2.2.2.1]
      omega
    rw [List.isEmpty_iff.mp he] at hm; cases hm
  · simp only [List.mem_map] at hx
    obtain ⟨j, _, rfl⟩ := hx
    exact ⟨j, rfl⟩

/-! ### no web seed downloading -/

/-- **Completeness of the ladder, no web seed downloading, unchoking peer.**  The only configuration
in which a free piece is not requested is rarest-first mode with the end-game flag set and a
duplicate limit of 0 (`hlim` excludes exactly that). -/
theorem findPiece_complete (s : State) (p i : Nat) (hdl : (s.peers p).dl = none)
    (hch : (s.peers p).choking = false) (hweb : downloadingWebseed s = false) (hfree : FreeFor s p i)
    (hlim : s.sequential = false → s.endgame = true → 1 ≤ s.maxDup) :
    ∀ r ∈ findPiece false s p, ∃ s1 j af, r = .ok (s1, some (j, af)) := by
  intro r hr
  unfold findPiece at hr
  simp only [hdl, hweb, hch, Option.isSome_none, Bool.false_eq_true, if_false, Bool.not_false,
    Bool.and_true, Bool.or_false, Bool.false_or] at hr
  cases hseq : s.sequential with
  | true =>
    simp only [hseq, if_true, Bool.not_true, Bool.and_false, Bool.false_eq_true, if_false] at hr
    split at hr
    · simp only [List.mem_singleton] at hr; exact ⟨_, _, _, hr⟩
    · obtain ⟨j, hj⟩ := pickSequential_some hfree
      simp only [hj, List.flatMap_cons, List.flatMap_nil, List.append_nil, List.mem_singleton] at hr
      exact ⟨_, _, _, hr⟩
  | false =>
    simp only [hseq, Bool.false_eq_true, if_false, Bool.not_false, if_true, Bool.and_true] at hr
    split at hr
    · simp only [List.mem_singleton] at hr; exact ⟨_, _, _, hr⟩
    · split at hr
      · rename_i heg
        simp only [List.mem_map] at hr
        obtain ⟨x, hx, rfl⟩ := hr
        obtain ⟨j, rfl⟩ := pickEndgame_some hfree (hlim hseq heg) x hx
        exact ⟨_, _, _, rfl⟩
      · simp only [List.mem_flatMap] at hr
        obtain ⟨x, hx, hr⟩ := hr
        obtain ⟨j, rfl⟩ := pickRarest_some hfree x hx
        simp only [List.mem_singleton] at hr
        exact ⟨_, _, _, hr⟩

/-- **Allowed fast.**  A choking, idle peer whose allowed-fast set contains a free piece is asked for
an allowed-fast piece (no web seed downloading; either mode, any flag, any limit). -/
theorem findPiece_complete_af (s : State) (p i : Nat) (hdl : (s.peers p).dl = none)
    (hch : (s.peers p).choking = true) (hweb : downloadingWebseed s = false) (hfree : FreeFor s p i)
    (haf : i ∈ (s.peers p).af) :
    ∀ r ∈ findPiece false s p, ∃ s1 j af, r = .ok (s1, some (j, af)) := by
  intro r hr
  unfold findPiece at hr
  obtain ⟨j, hj⟩ := Option.isSome_iff_exists.mp (pickAllowedFast_isSome hfree haf)
  simp only [hdl, hweb, hch, hj, Option.isSome_none, Bool.false_eq_true, if_false, Bool.not_true,
    Bool.and_false, Bool.or_true, if_true, List.mem_singleton] at hr
  exact ⟨_, _, _, hr⟩

/-! ### a web seed is downloading -/

/-- Coverage invariant of the `findGaps` cursor machine at piece `i`. -/
def GapCov (s : State) (i : Nat) (inGap : Bool) (b : Nat) (acc : List (Nat × Nat)) : Prop :=
  (inGap = true → b ≤ i) ∧
  ∀ j, j < i → (s.pieces j).availWeb = true → (∃ g ∈ acc, g.1 ≤ j ∧ j < g.2) ∨ (inGap = true ∧ b ≤ j)

theorem gapsGo_cover (s : State) : ∀ (fuel i : Nat) (inGap : Bool) (b : Nat) (acc : List (Nat × Nat)),
    GapCov s i inGap b acc →
    GapCov s (i + fuel) (gapsGo s fuel i inGap b acc).1 (gapsGo s fuel i inGap b acc).2.1
      (gapsGo s fuel i inGap b acc).2.2
  | 0, i, inGap, b, acc, h => by simpa [gapsGo] using h
  | fuel + 1, i, inGap, b, acc, h => by
    simp only [gapsGo]
    have e : i + (fuel + 1) = i + 1 + fuel := by omega
    rw [e]
    obtain ⟨hb, hcov⟩ := h
    cases inGap with
    | false =>
      simp only [Bool.not_false, if_true]
      cases ha : (s.pieces i).availWeb with
      | true =>
        simp only [if_true]
        apply gapsGo_cover s fuel (i + 1) true i acc
        refine ⟨fun _ => by omega, ?_⟩
        intro j hj hav
        by_cases hji : j = i
        · exact Or.inr ⟨rfl, by omega⟩
        · rcases hcov j (by omega) hav with hg | ⟨hf, _⟩
          · exact Or.inl hg
          · cases hf
      | false =>
        simp only [Bool.false_eq_true, if_false]
        apply gapsGo_cover s fuel (i + 1) false b acc
        refine ⟨fun hf => (by cases hf), ?_⟩
        intro j hj hav
        have hji : j ≠ i := by intro e'; subst e'; rw [ha] at hav; cases hav
        exact hcov j (by omega) hav
    | true =>
      have hbi := hb rfl
      simp only [Bool.not_true, Bool.false_eq_true, if_false]
      cases ha : (s.pieces i).availWeb with
      | false =>
        simp only [Bool.not_false, if_true]
        apply gapsGo_cover s fuel (i + 1) false b (acc ++ [(b, i)])
        refine ⟨fun hf => (by cases hf), ?_⟩
        intro j hj hav
        have hji : j ≠ i := by intro e'; subst e'; rw [ha] at hav; cases hav
        rcases hcov j (by omega) hav with ⟨g, hg, hgj⟩ | ⟨_, hbj⟩
        · exact Or.inl ⟨g, by simp [hg], hgj⟩
        · exact Or.inl ⟨(b, i), by simp, hbj, by simp; omega⟩
      | true =>
        simp only [Bool.not_true, Bool.false_eq_true, if_false]
        split
        · apply gapsGo_cover s fuel (i + 1) true i (acc ++ [(b, i)])
          refine ⟨fun _ => by omega, ?_⟩
          intro j hj hav
          by_cases hji : j = i
          · exact Or.inr ⟨rfl, by omega⟩
          · rcases hcov j (by omega) hav with ⟨g, hg, hgj⟩ | ⟨_, hbj⟩
            · exact Or.inl ⟨g, by simp [hg], hgj⟩
            · exact Or.inl ⟨(b, i), by simp, hbj, by simp; omega⟩
        · apply gapsGo_cover s fuel (i + 1) true b acc
          refine ⟨fun _ => by omega, ?_⟩
          intro j hj hav
          by_cases hji : j = i
          · exact Or.inr ⟨rfl, by omega⟩
          · exact hcov j (by omega) hav

/-- **`findGaps` is complete**: every piece available for web seeds lies in one of the gaps. -/
theorem findGaps_cover (s : State) (j : Nat) (hj : j < s.n) (hav : (s.pieces j).availWeb = true) :
    ∃ g ∈ findGaps s, g.1 ≤ j ∧ j < g.2 := by
  have h := gapsGo_cover s s.n 0 false 0 [] ⟨fun hf => (by cases hf), fun j hj => by omega⟩
  unfold findGaps
  generalize gapsGo s s.n 0 false 0 [] = r at h
  obtain ⟨ig, b, acc⟩ := r
  simp only [Nat.zero_add] at h
  rcases h.2 j hj hav with ⟨g, hg, hgj⟩ | ⟨hig, hbj⟩
  · cases ig with
    | true => exact ⟨g, by simp only [List.mem_append]; exact Or.inl hg, hgj⟩
    | false => exact ⟨g, hg, hgj⟩
  · subst hig
    exact ⟨(b, s.n), by simp, hbj, hj⟩

theorem gapScan_isSome (s : State) (p b : Nat) : ∀ (f : Nat),
    (∃ j, b ≤ j ∧ j < b + f ∧ (s.pieces j).requested = [] ∧ p ∈ (s.pieces j).having ∧
      ((s.peers p).choking = false ∨ j ∈ (s.peers p).af)) →
    (gapScan s p b f).isSome = true
  | 0, ⟨j, h1, h2, _⟩ => by omega
  | f + 1, ⟨j, h1, h2, h3, h4, h5⟩ => by
    simp only [gapScan]
    split
    · rfl
    · rename_i hc
      apply gapScan_isSome s p b f
      by_cases hj : j = b + f
      · exfalso; apply hc; subst hj
        simp only [Bool.and_eq_true, Bool.or_eq_true, Bool.not_eq_true', List.isEmpty_iff, List.contains_iff_mem]
        exact ⟨⟨h3, h4⟩, h5⟩
      · exact ⟨j, h1, by omega, h3, h4, h5⟩

/-- A free piece outside the web-seed ranges makes `pickLastPieceOfSmallestGap` answer. -/
theorem pickLastPiece_ne_nil {s : State} {p i : Nat} (hch : (s.peers p).choking = false)
    (hfree : FreeFor s p i) (hw : (s.pieces i).webseed = none) : pickLastPieceOfSmallestGap s p ≠ [] := by
  obtain ⟨g, hg, hgi⟩ := findGaps_cover s i hfree.1 ((availWeb_iff _).mpr ⟨hfree.2.1, hfree.2.2.1, hw⟩)
  have hscan := gapScan_isSome s p g.1 (g.2 - g.1)
    ⟨i, hgi.1, by omega, hfree.2.2.2.2, hfree.2.2.2.1, Or.inl hch⟩
  obtain ⟨i0, hi0⟩ := Option.isSome_iff_exists.mp hscan
  unfold pickLastPieceOfSmallestGap
  simp only []
  generalize hq : (findGaps s).filterMap (fun g => (gapScan s p g.1 (g.2 - g.1)).map fun i => (g.2 - g.1, i)) = q
  have hqm : (g.2 - g.1, i0) ∈ q := by
    rw [← hq, List.mem_filterMap]
    exact ⟨g, hg, by simp [hi0]⟩
  have hne : q ≠ [] := by intro e; rw [e] at hqm; cases hqm
  obtain ⟨x, hx, hmin⟩ := exists_min_measure (fun x : Nat × Nat => x.1) q hne
  intro e
  have : x ∈ q.filter fun x => q.all fun y => decide (x.1 ≤ y.1) := by
    rw [List.mem_filter]
    exact ⟨hx, by simpa [List.all_eq_true] using hmin⟩
  rw [List.map_eq_nil_iff.mp e] at this; cases this

/-- **Web seed downloading, free piece outside every web-seed range**: the unchoking idle peer is
asked for the last piece of a smallest gap (the picker state does not change). -/
theorem findPiece_complete_webseed (s : State) (p i : Nat) (hdl : (s.peers p).dl = none)
    (hch : (s.peers p).choking = false) (hweb : downloadingWebseed s = true) (hfree : FreeFor s p i)
    (hw : (s.pieces i).webseed = none) :
    ∀ r ∈ findPiece false s p, ∃ s1 j af, r = .ok (s1, some (j, af)) := by
  intro r hr
  unfold findPiece at hr
  have hne := pickLastPiece_ne_nil hch hfree hw
  have hemp : (pickLastPieceOfSmallestGap s p).isEmpty = false := by
    cases hl : pickLastPieceOfSmallestGap s p with
    | nil => exact absurd hl hne
    | cons _ _ => rfl
  simp only [hdl, hweb, hch, hemp, Option.isSome_none, Bool.false_eq_true, if_false, if_true, Bool.not_false,
    List.mem_map] at hr
  obtain ⟨j, _, rfl⟩ := hr
  exact ⟨_, _, _, rfl⟩

theorem stealScan_isSome (s : State) (p c : Nat) : ∀ (f : Nat),
    (∃ j, c < j ∧ j ≤ c + f ∧ (s.pieces j).pickable p = true) → (stealScan s p c f).isSome = true
  | 0, ⟨j, h1, h2, _⟩ => by omega
  | f + 1, ⟨j, h1, h2, h3⟩ => by
    simp only [stealScan]
    split
    · rfl
    · rename_i hc
      apply stealScan_isSome s p c f
      by_cases hj : j = c + f + 1
      · subst hj; exact absurd h3 hc
      · exact ⟨j, h1, by omega, h3⟩

/-- `peerStealsFromWebseed` answers as soon as one downloading source has a pickable piece strictly
after its current one (only `SrcOk` is needed for `WebseedStopAt` not to panic). -/
theorem peerSteals_some (s : State) (p : Nat) (hs : SrcOk s) : ∀ (l : List (Nat × Dl)),
    (∀ x ∈ l, x ∈ downloadingSources s) →
    (∃ x ∈ l, x.2.remaining ≠ 0 ∧ (stealScan s p x.2.c (x.2.e - 1 - x.2.c)).isSome = true) →
    ∃ s1 j, peerSteals s p l = .ok (s1, some j)
  | [], _, ⟨x, hx, _⟩ => by cases hx
  | (k, d) :: rest, hl, ⟨x, hx, hrem, hscan⟩ => by
    simp only [peerSteals]
    have ih := peerSteals_some s p hs rest (fun y hy => hl y (by simp [hy]))
    split
    · rename_i h0
      apply ih
      simp only [List.mem_cons] at hx
      rcases hx with rfl | hx
      · exact absurd h0 hrem
      · exact ⟨x, hx, hrem, hscan⟩
    · split
      · rename_i i hi
        have hkd := (mem_downloadingSources s k d).mp (hl (k, d) (by simp))
        obtain ⟨hbc, hce, hen, hown⟩ := srcOk_own hs hkd.1 hkd.2
        have hsp := stealScan_spec s p d.c _ i hi
        rw [webseedStopAt_eq s k d i hs hkd.1 hkd.2 (by omega) (by omega)]
        exact ⟨_, _, rfl⟩
      · rename_i hnone
        apply ih
        simp only [List.mem_cons] at hx
        rcases hx with rfl | hx
        · simp only [hnone] at hscan; cases hscan
        · exact ⟨x, hx, hrem, hscan⟩

theorem downloadingWebseed_of_src {s : State} {k : Nat} {d : Dl} (hk : k < s.ns) (hd : s.srcs k = some d) :
    downloadingWebseed s = true := by
  unfold downloadingWebseed
  rw [List.any_eq_true]
  exact ⟨k, List.mem_range.mpr hk, by simp [hd]⟩

/-- **Web seed downloading, free piece inside a web-seed range, strictly after the piece the web
seed is working on**: the unchoking idle peer gets a request (from a gap if it also holds a free piece
outside the ranges, otherwise by stealing from the end of a range, which truncates that range). -/
theorem findPiece_complete_steal (s : State) (p i k : Nat) (d : Dl) (hs : SrcOk s)
    (hdl : (s.peers p).dl = none) (hch : (s.peers p).choking = false)
    (hk : k < s.ns) (hd : s.srcs k = some d) (hci : d.c < i) (hie : i < d.e) (hfree : FreeFor s p i) :
    ∀ r ∈ findPiece false s p, ∃ s1 j af, r = .ok (s1, some (j, af)) := by
  intro r hr
  unfold findPiece at hr
  simp only [hdl, downloadingWebseed_of_src hk hd, hch, Option.isSome_none, Bool.false_eq_true, if_false,
    if_true] at hr
  split at hr
  · simp only [List.mem_map] at hr
    obtain ⟨j, _, rfl⟩ := hr
    exact ⟨_, _, _, rfl⟩
  · simp only [List.mem_singleton] at hr
    have hscan := stealScan_isSome s p d.c (d.e - 1 - d.c) ⟨i, hci, by omega, hfree.pickable⟩
    obtain ⟨s1, j, hj⟩ := peerSteals_some s p hs (downloadingSources s) (fun x hx => hx)
      ⟨(k, d), (mem_downloadingSources s k d).mpr ⟨hk, hd⟩, by simp only [Dl.remaining]; omega, hscan⟩
    rw [hj] at hr
    exact ⟨_, _, _, hr⟩

end Rain.Picker
