import RainModel.Lemmas.PickerWeb
/-! `findGaps`, `findPieceRangeForWebseed`, `PickWebseed` of M-PICK. -/
namespace Rain.Picker

/-- A gap: non-empty, inside the torrent, every piece available for web seeds. -/
def GoodGap (s : State) (g : Nat × Nat) : Prop :=
  g.1 < g.2 ∧ g.2 ≤ s.n ∧ ∀ j, g.1 ≤ j → j < g.2 → (s.pieces j).availWeb = true

theorem gapsGo_spec (s : State) : ∀ (fuel i : Nat) (inGap : Bool) (b : Nat) (acc : List (Nat × Nat)),
    i + fuel ≤ s.n → (∀ g ∈ acc, GoodGap s g) →
    (inGap = true → b < i ∧ ∀ j, b ≤ j → j < i → (s.pieces j).availWeb = true) →
    (∀ g ∈ (gapsGo s fuel i inGap b acc).2.2, GoodGap s g) ∧
    ((gapsGo s fuel i inGap b acc).1 = true → (gapsGo s fuel i inGap b acc).2.1 < i + fuel ∧
      ∀ j, (gapsGo s fuel i inGap b acc).2.1 ≤ j → j < i + fuel → (s.pieces j).availWeb = true)
  | 0, i, inGap, b, acc, _, hacc, hin => by
    simp only [gapsGo]; exact ⟨hacc, by simpa using hin⟩
  | fuel + 1, i, inGap, b, acc, hle, hacc, hin => by
    simp only [gapsGo]
    have e : i + (fuel + 1) = i + 1 + fuel := by omega
    rw [e]
    cases inGap with
    | false =>
      simp only [Bool.not_false, if_true]
      cases ha : (s.pieces i).availWeb with
      | true =>
        simp only [if_true]
        apply gapsGo_spec s fuel (i + 1) true i acc (by omega) hacc
        intro _; refine ⟨by omega, ?_⟩
        intro j h1 h2; have : j = i := by omega
        subst this; exact ha
      | false =>
        simp only [Bool.false_eq_true, if_false]
        apply gapsGo_spec s fuel (i + 1) false b acc (by omega) hacc
        intro h; cases h
    | true =>
      obtain ⟨hbi, hav⟩ := hin rfl
      simp only [Bool.not_true, Bool.false_eq_true, if_false]
      cases ha : (s.pieces i).availWeb with
      | false =>
        simp only [Bool.not_false, if_true]
        apply gapsGo_spec s fuel (i + 1) false b (acc ++ [(b, i)]) (by omega)
        · intro g hg
          simp only [List.mem_append, List.mem_singleton] at hg
          rcases hg with hg | hg
          · exact hacc g hg
          · subst hg; exact ⟨hbi, by simp; omega, hav⟩
        · intro h; cases h
      | true =>
        simp only [Bool.not_true, Bool.false_eq_true, if_false]
        split
        · apply gapsGo_spec s fuel (i + 1) true i (acc ++ [(b, i)]) (by omega)
          · intro g hg
            simp only [List.mem_append, List.mem_singleton] at hg
            rcases hg with hg | hg
            · exact hacc g hg
            · subst hg; exact ⟨hbi, by simp; omega, hav⟩
          · intro _; refine ⟨by omega, ?_⟩
            intro j h1 h2; have : j = i := by omega
            subst this; exact ha
        · apply gapsGo_spec s fuel (i + 1) true b acc (by omega) hacc
          intro _; refine ⟨by omega, ?_⟩
          intro j h1 h2
          by_cases hji : j = i
          · subst hji; exact ha
          · exact hav j h1 (by omega)

theorem findGaps_good (s : State) : ∀ g ∈ findGaps s, GoodGap s g := by
  have h := gapsGo_spec s s.n 0 false 0 [] (by omega) (by simp) (by intro h; cases h)
  unfold findGaps
  generalize gapsGo s s.n 0 false 0 [] = r at h
  obtain ⟨ig, b, acc⟩ := r
  cases ig with
  | true =>
    simp only at h ⊢
    intro g hg
    simp only [List.mem_append, List.mem_singleton] at hg
    rcases hg with hg | hg
    · exact h.1 g hg
    · subst hg
      have := h.2 (by simp)
      exact ⟨by simpa using this.1, Nat.le_refl _, by simpa using this.2⟩
  | false => exact h.1

theorem availWeb_iff (pc : Piece) : pc.availWeb = true ↔ pc.done = false ∧ pc.writing = false ∧ pc.webseed = none := by
  unfold Piece.availWeb
  cases pc.done <;> cases pc.writing <;> cases pc.webseed <;> simp

/-- Marking a free range for a source that is not downloading, and starting its downloader. -/
theorem markSt_inv (s : State) (k b e : Nat) (h : PickInv s) (hk : k < s.ns) (hnone : s.srcs k = none)
    (hbe : b < e) (hen : e ≤ s.n) (hfree : ∀ j, b ≤ j → j < e → (s.pieces j).webseed = none) :
    PickInv (setSrc (webSt s (some k) b e) k (some ⟨b, e, b⟩)) := by
  obtain ⟨h1, h2, h3, h4, h5, h6, h7, h8, h9, h10, h11, h12, h13, h14, h15⟩ := h
  constructor
  case avail => avail_same' h14
  case webOwner =>
    intro i hi k' hk'
    simp only [setSrc_pieces, webSt_pieces, setSrc_ns, webSt_ns, setSrc_srcs, webSt_srcs, Option.mem_def] at hk' ⊢
    split at hk'
    · rename_i hin
      simp at hk'; subst hk'
      exact ⟨hk, ⟨b, e, b⟩, by simp, hin.1, hin.2⟩
    · obtain ⟨hk1, d, hd, hd2⟩ := h9 i hi k' (by simpa using hk')
      have hkk : k' ≠ k := by intro e'; subst e'; simp only [Option.mem_def] at hd; rw [hnone] at hd; cases hd
      exact ⟨hk1, d, by simpa [hkk] using hd, hd2⟩
  case srcOk =>
    intro k' hk' d hd
    simp only [setSrc_pieces, webSt_pieces, setSrc_ns, webSt_ns, setSrc_srcs, webSt_srcs, setSrc_n, webSt_n, Option.mem_def] at hk' hd ⊢
    split at hd
    · rename_i hkk; subst hkk
      simp at hd; subst hd
      refine ⟨Nat.le_refl _, hbe, hen, ?_⟩
      intro i h1 h2; simp [h1, h2]
    · rename_i hkk
      have := h13 k' hk' d (by simpa using hd)
      refine ⟨this.1, this.2.1, this.2.2.1, ?_⟩
      intro i h1 h2
      have hw := this.2.2.2 i h1 h2
      split
      · rename_i hin
        have := hfree i hin.1 hin.2
        rw [this] at hw; cases hw
      · exact hw
  all_goals clause_auto'

/-- Every outcome of `findPieceRangeForWebseed`. -/
theorem findRange_spec (s : State) (h : PickInv s) :
    ∀ r ∈ findRange s, ∃ s1 res, r = .ok (s1, res) ∧ PickInv s1 ∧ s1.ns = s.ns ∧
      (∀ k, s.srcs k = none → s1.srcs k = none) ∧
      ∀ b e, res = some (b, e) → b < e ∧ e ≤ s1.n ∧ ∀ j, b ≤ j → j < e → (s1.pieces j).webseed = none := by
  intro r hr
  unfold findRange at hr
  simp only [] at hr
  split at hr
  · -- no gap: steal from another web seed
    unfold webseedSteals at hr
    simp only [] at hr
    split at hr
    · simp at hr; subst hr
      exact ⟨s, none, rfl, h, rfl, fun _ hk => hk, by intro b e hbe; cases hbe⟩
    · simp only [List.mem_map, List.mem_filter] at hr
      obtain ⟨⟨k, d⟩, ⟨hmem, _⟩, hr⟩ := hr
      unfold downloadingSources at hmem
      simp only [List.mem_filterMap, List.mem_range] at hmem
      obtain ⟨k', hk', hkd⟩ := hmem
      cases hd : s.srcs k' with
      | none => simp [hd] at hkd
      | some d' =>
        simp [hd] at hkd
        obtain ⟨rfl, rfl⟩ := hkd
        obtain ⟨hbc, hce, hen, hown⟩ := srcOk_own h.srcOk hk' hd
        simp only [] at hr
        split at hr
        · subst hr
          exact ⟨s, none, rfl, h, rfl, fun _ hk => hk, by intro b e hbe; cases hbe⟩
        · rename_i hlt
          have hrb : d'.b ≤ (d'.c + d'.e + 1) / 2 := by omega
          have hre : (d'.c + d'.e + 1) / 2 ≤ d'.e := by omega
          rw [webseedStopAt_eq s k' d' _ h.srcOk hk' hd hrb hre] at hr
          simp [Except.map] at hr; subst hr
          have hf := stopSt_frame s k' d' ((d'.c + d'.e + 1) / 2)
          refine ⟨_, _, rfl, (stopSt_core s k' d' _ h.core hk' hd hrb hre).inv (stopSt_doneIdle s k' d' _ h.doneIdle),
            hf.2.2.1, ?_, ?_⟩
          · intro k hk
            have hkk : k ≠ k' := by intro e; subst e; rw [hd] at hk; cases hk
            unfold stopSt closeSt
            simp only []
            split <;> simp [hkk, hk]
          · intro b e hbe
            simp only [Option.some.injEq, Prod.mk.injEq] at hbe
            obtain ⟨rfl, rfl⟩ := hbe
            refine ⟨by omega, by rw [hf.1]; exact hen, ?_⟩
            intro j h1 h2
            unfold stopSt closeSt
            simp only []
            split
            · simp only [setSrc_pieces, webSt_pieces]
              (repeat' split) <;> simp_all
            · simp only [setSrc_pieces, webSt_pieces]
              (repeat' split) <;> simp_all
  · rename_i hne
    have hgood := findGaps_good s
    split at hr
    · split at hr
      · rename_i i hfind
        simp at hr; subst hr
        have hp := List.find?_some hfind
        have hm := List.mem_of_find?_eq_some hfind
        simp only [List.mem_range] at hm
        simp only [Bool.and_eq_true] at hp
        refine ⟨s, _, rfl, h, rfl, fun _ hk => hk, ?_⟩
        intro b e hbe
        simp only [Option.some.injEq, Prod.mk.injEq] at hbe
        obtain ⟨rfl, rfl⟩ := hbe
        refine ⟨by omega, by omega, ?_⟩
        intro j h1 h2
        have : j = i := by omega
        subst this
        exact ((availWeb_iff _).mp hp.2).2.2
      · simp at hr; subst hr
        refine ⟨s, _, rfl, h, rfl, fun _ hk => hk, ?_⟩
        intro b e hbe
        have hmem : (b, e) ∈ findGaps s := List.mem_of_mem_head? hbe
        have hg := hgood (b, e) hmem
        exact ⟨hg.1, hg.2.1, fun j h1 h2 => ((availWeb_iff _).mp (hg.2.2 j h1 h2)).2.2⟩
    · simp only [List.mem_map, List.mem_filter] at hr
      obtain ⟨g, ⟨hmem, _⟩, hr⟩ := hr
      subst hr
      refine ⟨s, _, rfl, h, rfl, fun _ hk => hk, ?_⟩
      intro b e hbe
      simp only [Option.some.injEq] at hbe
      subst hbe
      have hg := hgood (b, e) hmem
      exact ⟨hg.1, hg.2.1, fun j h1 h2 => ((availWeb_iff _).mp (hg.2.2 j h1 h2)).2.2⟩

theorem step_pickweb_inv (legacy : Bool) (s : State) (k : Nat) (h : PickInv s) :
    ∀ r ∈ step legacy s (.pickweb k), ∃ s' o, r = .ok (s', o) ∧ PickInv s' := by
  intro r hr
  simp only [step] at hr
  split at hr
  · rename_i hpre
    obtain ⟨hk, hnone⟩ := hpre
    have hnone' : s.srcs k = none := by simpa using hnone
    unfold pickWebseed at hr
    simp only [List.mem_map] at hr
    obtain ⟨r1, ⟨r0, hr0, hr1⟩, hr⟩ := hr
    obtain ⟨s1, res, he, hI, hns, hsrc, hres⟩ := findRange_spec s h r0 hr0
    subst he
    cases res with
    | none =>
      simp [Except.bind] at hr1; subst hr1
      simp [Except.map] at hr; subst hr
      exact ⟨_, _, rfl, hI⟩
    | some be =>
      obtain ⟨b, e⟩ := be
      obtain ⟨hbe, hen, hfree⟩ := hres b e rfl
      simp only [Except.bind] at hr1
      rw [markRange_eq k (e - b) b s1 (by intro j h1 h2; exact ⟨by omega, hfree j h1 (by omega)⟩)] at hr1
      simp only [bind, Except.bind, pure, Except.pure, show b + (e - b) = e by omega] at hr1
      subst hr1
      simp [Except.map] at hr; subst hr
      exact ⟨_, _, rfl, markSt_inv s1 k b e hI (by omega) (hsrc k hnone') hbe hen hfree⟩
  · simp at hr; subst hr; exact ⟨_, _, rfl, h⟩

end Rain.Picker
