import RainModel.Lemmas.LoopQuiesce
import RainModel.Lemmas.LoopPersist
/-!
Quiescence at the level of `step`, `dstep`, `drun`: after every event the chain of worker completions has
ended (`workersQuiet`), i.e. the fuel `12` of `step` never cuts a chain short — unless a verification is pending
while `Open` fails (`Lemmas/LoopQuiesce.lean`, `Flap`), which is the one case in which the chain does not end.
-/
namespace Rain.Loop

/-- The state the handler of `op` leaves, before the workers run. -/
abbrev handled (s : St) (p : Parked) (kn : Nat → Bool) (op : Op) : St :=
  (handle { s with sto := [], mayStart := [], closedDl := [], mayStartI := false } p kn op).1.1

theorem QInv.afterHandle (s : St) (p : Parked) (kn : Nat → Bool) (op : Op) (h : Full s) (hdv : DV s)
    (hfl : (handled s p kn op).failOpen = true → (handled s p kn op).doVerify = false) :
    QInv (handled s p kn op) := by
  have h0 : Full { s with sto := [], mayStart := [], closedDl := [], mayStartI := false } :=
    ⟨h.life.congr (by lframe), h.comp.of_frame rfl rfl rfl rfl rfl rfl rfl rfl, h.w.frame (by wframe_eq)⟩
  have d0 : DV { s with sto := [], mayStart := [], closedDl := [], mayStartI := false } := by dv_frame hdv
  exact ⟨handle_full _ p kn op h0, handle_dv _ p kn op d0, hfl⟩

theorem deliverParked_workersQuiet (m : M) (p : Parked) (h : QInv m.1) (hq : workersQuiet m.1 = true) :
    workersQuiet (deliverParked m p).1.1 = true ∧ QInv (deliverParked m p).1.1 := by
  unfold deliverParked
  split
  · split
    · next hc =>
      simp only [Bool.and_eq_true, Option.isNone_iff_eq_none] at hc
      split
      · next hk =>
        have hr := h.full.life.running_of_peer hk
        apply runWorkers_quiet 12 _ _ (Nat.le_trans (wrank_le _) (by decide))
        exact ⟨⟨handlePieceMessage_life _ _ _ _ _ _ h.full.life hr, handlePieceMessage_comp _ _ _ _ _ _ h.full.comp,
            handlePieceMessage_winv _ _ _ _ _ _ h.full.w hc.1⟩, by dv_frame h.dv, by simpa using h.nofl⟩
      · exact ⟨hq, h⟩
    · exact ⟨hq, h⟩
  · exact ⟨hq, h⟩

/-- **After every event the workers are quiescent** — any op, any parameters, any parked block — from a
state of the invariants, unless the handler leaves a verification pending while `Open` fails. -/
theorem step_quiet (s : St) (p : Parked) (kn : Nat → Bool) (op : Op) (h : Full s) (hdv : DV s)
    (hfl : (handled s p kn op).failOpen = true → (handled s p kn op).doVerify = false) :
    workersQuiet (step s p kn op).1.st = true := by
  have h1 := QInv.afterHandle s p kn op h hdv hfl
  obtain ⟨q2, h2⟩ := runWorkers_quiet 12 (handle { s with sto := [], mayStart := [], closedDl := [], mayStartI := false } p kn op).1
    h1 (Nat.le_trans (wrank_le _) (by decide))
  rw [step_st]
  split
  · exact (deliverParked_workersQuiet _ _ h2 q2).1
  · exact q2

/-! ### two sufficient conditions on the event -/

/-- The event does not switch the `failOpen` gate on. -/
def Op.setsFailOpen : Op → Bool
  | .gate .failOpen true => true
  | _ => false

theorem handled_failOpen (s : St) (p : Parked) (kn : Nat → Bool) (op : Op) (hop : op.setsFailOpen = false)
    (hf : s.failOpen = false) : (handled s p kn op).failOpen = false := by
  unfold handled handle
  repeat' split
  all_goals first
    | (simp [Op.setsFailOpen] at hop; done)
    | (simpa using hf)
    | (next heq => have hm := congrArg Prod.fst heq; simp only at hm; rw [← hm]; simpa using hf)
    | (rename_i _ on _; cases on <;> simp_all [Op.setsFailOpen])

theorem step_failOpen_false (s : St) (p : Parked) (kn : Nat → Bool) (op : Op) (hop : op.setsFailOpen = false)
    (hf : s.failOpen = false) : (step s p kn op).1.st.failOpen = false := by
  rw [step_st]
  split
  · simpa using handled_failOpen s p kn op hop hf
  · simpa using handled_failOpen s p kn op hop hf

theorem handled_doVerify_false (s : St) (p : Parked) (kn : Nat → Bool) (op : Op) (hop : op.isVerify = false)
    (hd : s.doVerify = false) : (handled s p kn op).doVerify = false := by
  unfold handled handle
  repeat' split
  all_goals first
    | (simp [Op.isVerify] at hop; done)
    | (simpa using hd)
    | (next heq => have hm := congrArg Prod.fst heq; simp only at hm; rw [← hm]; simpa using hd)

theorem step_doVerify_false (s : St) (p : Parked) (kn : Nat → Bool) (op : Op) (hop : op.isVerify = false)
    (hd : s.doVerify = false) : (step s p kn op).1.st.doVerify = false := by
  rw [step_st]
  have h1 := runWorkers_doVerify_false 12 _ (handled_doVerify_false s p kn op hop hd)
  split
  · exact deliverParked_doVerify_false _ _ h1
  · exact h1

theorem step_quiet_of_failOpen_off (s : St) (p : Parked) (kn : Nat → Bool) (op : Op) (h : Full s) (hdv : DV s)
    (hop : op.setsFailOpen = false) (hf : s.failOpen = false) : workersQuiet (step s p kn op).1.st = true :=
  step_quiet s p kn op h hdv (fun hh => by rw [handled_failOpen s p kn op hop hf] at hh; cases hh)

theorem step_quiet_of_no_verify (s : St) (p : Parked) (kn : Nat → Bool) (op : Op) (h : Full s)
    (hop : op.isVerify = false) (hd : s.doVerify = false) : workersQuiet (step s p kn op).1.st = true :=
  step_quiet s p kn op h (DV.of_false hd) (fun _ => handled_doVerify_false s p kn op hop hd)

/-! ### the implementation's choices do not touch the workers -/

theorem reconcile_workersQuiet (s : St) (impl : List ImplDl) : workersQuiet (reconcile s impl).1 = workersQuiet s := by
  unfold workersQuiet workersPending
  simp

theorem reconcileIdl_workersQuiet (s : St) (impl : List Nat) : workersQuiet (reconcileIdl s impl).1 = workersQuiet s := by
  unfold workersQuiet workersPending
  simp

theorem dstep_workersQuiet (sp : St × Parked) (e : Ev) :
    workersQuiet (dstep sp e).1 = workersQuiet (step sp.1 sp.2 e.known e.op).1.st := by
  unfold dstep
  simp only [reconcileIdl_workersQuiet, reconcile_workersQuiet]

/-! ### whole histories -/

/-- What the run-level quiescence theorems carry. -/
structure QRun (s : St) : Prop where
  np : NP s
  dv : DV s
  quiet : workersQuiet s = true

theorem dstep_qrun_failOpen_off (sp : St × Parked) (e : Ev) (h : QRun sp.1) (hf : sp.1.failOpen = false)
    (hop : e.op.setsFailOpen = false) (hs : e.sane sp) : QRun (dstep sp e).1 ∧ (dstep sp e).1.failOpen = false := by
  refine ⟨⟨dstep_np sp e h.np hs, dstep_dv sp e h.dv, ?_⟩, ?_⟩
  · rw [dstep_workersQuiet]
    exact step_quiet_of_failOpen_off sp.1 sp.2 e.known e.op h.np.full h.dv hop hf
  · unfold dstep
    simpa using step_failOpen_false sp.1 sp.2 e.known e.op hop hf

theorem drun_qrun_failOpen_off (evs : List Ev) (sp : St × Parked) (h : QRun sp.1) (hf : sp.1.failOpen = false)
    (hop : ∀ e ∈ evs, e.op.setsFailOpen = false) (hs : drunSane sp evs) : QRun (drun sp evs).1 := by
  induction evs generalizing sp with
  | nil => exact h
  | cons e evs ih =>
    obtain ⟨h1, f1⟩ := dstep_qrun_failOpen_off sp e h hf (hop e (List.mem_cons_self ..)) hs.1
    exact ih _ h1 f1 (fun x hx => hop x (List.mem_cons_of_mem _ hx)) hs.2

theorem dstep_qrun_no_verify (sp : St × Parked) (e : Ev) (h : QRun sp.1) (hd : sp.1.doVerify = false)
    (hop : e.op.isVerify = false) (hs : e.sane sp) : QRun (dstep sp e).1 ∧ (dstep sp e).1.doVerify = false := by
  refine ⟨⟨dstep_np sp e h.np hs, dstep_dv sp e h.dv, ?_⟩, ?_⟩
  · rw [dstep_workersQuiet]
    exact step_quiet_of_no_verify sp.1 sp.2 e.known e.op h.np.full hop hd
  · unfold dstep
    simpa using step_doVerify_false sp.1 sp.2 e.known e.op hop hd

theorem drun_qrun_no_verify (evs : List Ev) (sp : St × Parked) (h : QRun sp.1) (hd : sp.1.doVerify = false)
    (hop : ∀ e ∈ evs, e.op.isVerify = false) (hs : drunSane sp evs) : QRun (drun sp evs).1 := by
  induction evs generalizing sp with
  | nil => exact h
  | cons e evs ih =>
    obtain ⟨h1, f1⟩ := dstep_qrun_no_verify sp e h hd (hop e (List.mem_cons_self ..)) hs.1
    exact ih _ h1 f1 (fun x hx => hop x (List.mem_cons_of_mem _ hx)) hs.2

theorem step_qrun_no_verify (s : St) (p : Parked) (kn : Nat → Bool) (op : Op) (h : QRun s) (hd : s.doVerify = false)
    (hop : op.isVerify = false) : QRun (step s p kn op).1.st ∧ (step s p kn op).1.st.doVerify = false :=
  ⟨⟨step_np s p kn op h.np, step_dv s p kn op h.dv, step_quiet_of_no_verify s p kn op h.np.full hop hd⟩,
    step_doVerify_false s p kn op hop hd⟩

theorem srun_qrun_no_verify (ops : List (Op × (Nat → Bool))) (sp : St × Parked) (h : QRun sp.1)
    (hd : sp.1.doVerify = false) (hop : ∀ o ∈ ops, o.1.isVerify = false) : QRun (srun sp ops).1 := by
  induction ops generalizing sp with
  | nil => exact h
  | cons o ops ih =>
    obtain ⟨h1, d1⟩ := step_qrun_no_verify sp.1 sp.2 o.2 o.1 h hd (hop o (List.mem_cons_self ..))
    exact ih _ h1 d1 (fun x hx => hop x (List.mem_cons_of_mem _ hx))

theorem InitLike.qrun {s : St} (h : InitLike s) (hp : s.panicked = none) (hw : s.writing = none)
    (hc : s.cfg.blocksHaveData = true) (hd : s.doVerify = false) : QRun s := by
  refine ⟨h.np hp hw hc, DV.of_false hd, ?_⟩
  unfold workersQuiet workersPending
  simp [h.stopAnn, h.allocator, h.verifier, hw]

/-! ### the livelock, at the level of `step` -/

theorem deliverParked_of_no_peers (m : M) (p : Parked) (h : m.1.peers = []) : (deliverParked m p).1 = m := by
  unfold deliverParked
  split
  · split
    · simp [St.findPeer, h]
    · rfl
  · rfl

/-- Once in the restart loop, waiting (`nop` events, each running 12 more links of the chain) does not end it. -/
theorem flap_step_nop (s : St) (p : Parked) (kn : Nat → Bool) (h : Flap s) : Flap (step s p kn .nop).1.st := by
  have h0 : Flap (handled s p kn .nop) := by
    obtain ⟨a1, a2, a3, a4, a5, a6, a7, a8, a9, a10, a11⟩ := h
    exact ⟨a1, a2, a3, a4, a5, a6, a7, a8, a9, a10, a11⟩
  have h1 := flap_forever 12 (handle { s with sto := [], mayStart := [], closedDl := [], mayStartI := false } p kn .nop).1 h0
  rw [step_st]
  split
  · rw [deliverParked_of_no_peers _ _ h1.peers]; exact h1
  · exact h1

/-- The verify command on a stopped torrent whose metadata is known, with `Open` failing and the trackers
answering: the restart loop is entered (and the fuel of the step runs out in it). -/
theorem verify_failOpen_flaps (s : St) (p : Parked) (kn : Nat → Bool) (h : Life s) (he : s.errC = false)
    (hi : s.info = true) (hp : s.panicked = none) (hf : s.failOpen = true) (hh : s.stopHang = false) :
    Flap (step s p kn .verify).1.st := by
  obtain ⟨i1, i2, i3, i4, i5, i6, i7, i8⟩ := h.idle (Or.inl he)
  have hst : ∀ x : St, x.errC = false → x.status = .stopped := fun x hx => (status_stopped_iff x).2 hx
  have h0 : Flap (handled s p kn .verify) := by
    simp only [handled, handle, onSt_fst]
    unfold handleVerifyCommand
    simp only [onSt_fst]
    rw [if_pos (hst _ (by simpa using he))]
    unfold startCore
    constructor <;> simp [he, hi, i1, i2, i3, i6, hp, hf, hh]
  have h1 := flap_forever 12 (handle { s with sto := [], mayStart := [], closedDl := [], mayStartI := false } p kn .verify).1 h0
  rw [step_st]
  split
  · rw [deliverParked_of_no_peers _ _ h1.peers]; exact h1
  · exact h1

end Rain.Loop
