import RainModel.Lemmas.LoopQuiesce
import RainModel.Lemmas.LoopPersist
/-!
Quiescence at the level of `step`, `dstep`, `drun`: after every event the chain of worker completions has
ended (`workersQuiet`), i.e. the fuel `12` of `step` never cuts a chain short — for **every** op, gate and
parameter (since rain's fix of finding C04-F8 there is no exception: `Lemmas/LoopQuiesce.lean`).
-/
namespace Rain.Loop

/-- The state the handler of `op` leaves, before the workers run. -/
abbrev handled (s : St) (p : Parked) (kn : Nat → Bool) (op : Op) : St :=
  (handle { s with sto := [], mayStart := [], closedDl := [], mayStartI := false } p kn op).1.1

theorem QInv.afterHandle (s : St) (p : Parked) (kn : Nat → Bool) (op : Op) (h : QInv s) : QInv (handled s p kn op) := by
  have h0 : Full { s with sto := [], mayStart := [], closedDl := [], mayStartI := false } :=
    ⟨h.full.life.congr (by lframe), h.full.comp.of_frame rfl rfl rfl rfl rfl rfl rfl rfl, h.full.w.frame (by wframe_eq)⟩
  have d0 : DV { s with sto := [], mayStart := [], closedDl := [], mayStartI := false } := by dv_frame h.dv
  exact ⟨handle_full _ p kn op h0, handle_dv _ p kn op d0⟩

theorem deliverParked_workersQuiet (m : M) (p : Parked) (h : QInv m.1) (hq : workersQuiet m.1 = true) :
    workersQuiet (deliverParked m p).1.1 = true ∧ QInv (deliverParked m p).1.1 := by
  unfold deliverParked
  split
  · split
    · next hc =>
      simp only [Bool.and_eq_true, Option.isNone_iff_eq_none] at hc
      split
      · next hk =>
        have hr := h.full.life.running_of_peer hk
        apply runWorkers_quiet 12 _ _ (Nat.le_trans (wrank_le _) (by decide))
        exact ⟨⟨handlePieceMessage_life _ _ _ _ _ _ h.full.life hr, handlePieceMessage_comp _ _ _ _ _ _ h.full.comp,
            handlePieceMessage_winv _ _ _ _ _ _ h.full.w hc.1⟩, by dv_frame h.dv⟩
      · exact ⟨hq, h⟩
    · exact ⟨hq, h⟩
  · exact ⟨hq, h⟩

/-- **After every event the workers are quiescent** — any op, any parameters, any gates, any parked block —
and the invariants hold again. -/
theorem step_quiet (s : St) (p : Parked) (kn : Nat → Bool) (op : Op) (h : QInv s) :
    workersQuiet (step s p kn op).1.st = true ∧ QInv (step s p kn op).1.st := by
  have h1 := QInv.afterHandle s p kn op h
  obtain ⟨q2, h2⟩ := runWorkers_quiet 12 (handle { s with sto := [], mayStart := [], closedDl := [], mayStartI := false } p kn op).1
    h1 (Nat.le_trans (wrank_le _) (by decide))
  rw [step_st]
  split
  · exact deliverParked_workersQuiet _ _ h2 q2
  · exact ⟨q2, h2⟩

/-! ### the implementation's choices do not touch the workers -/

theorem reconcile_workersQuiet (s : St) (impl : List ImplDl) : workersQuiet (reconcile s impl).1 = workersQuiet s := by
  unfold workersQuiet workersPending
  simp

theorem reconcileIdl_workersQuiet (s : St) (impl : List Nat) : workersQuiet (reconcileIdl s impl).1 = workersQuiet s := by
  unfold workersQuiet workersPending
  simp

theorem dstep_workersQuiet (sp : St × Parked) (e : Ev) :
    workersQuiet (dstep sp e).1 = workersQuiet (step sp.1 sp.2 e.known e.op).1.st := by
  unfold dstep
  simp only [reconcileIdl_workersQuiet, reconcile_workersQuiet]

/-! ### whole histories -/

/-- What the run-level quiescence theorems carry. -/
structure QRun (s : St) : Prop where
  np : NP s
  dv : DV s
  quiet : workersQuiet s = true

theorem QRun.qinv {s : St} (h : QRun s) : QInv s := ⟨h.np.full, h.dv⟩

theorem step_qrun (s : St) (p : Parked) (kn : Nat → Bool) (op : Op) (h : QRun s) : QRun (step s p kn op).1.st :=
  ⟨step_np s p kn op h.np, step_dv s p kn op h.dv, (step_quiet s p kn op h.qinv).1⟩

theorem dstep_qrun (sp : St × Parked) (e : Ev) (h : QRun sp.1) (hs : e.sane sp) : QRun (dstep sp e).1 :=
  ⟨dstep_np sp e h.np hs, dstep_dv sp e h.dv, by
    rw [dstep_workersQuiet]; exact (step_quiet sp.1 sp.2 e.known e.op h.qinv).1⟩

theorem drun_qrun (evs : List Ev) (sp : St × Parked) (h : QRun sp.1) (hs : drunSane sp evs) : QRun (drun sp evs).1 := by
  induction evs generalizing sp with
  | nil => exact h
  | cons e evs ih => exact ih _ (dstep_qrun sp e h hs.1) hs.2

theorem srun_qrun (ops : List (Op × (Nat → Bool))) (sp : St × Parked) (h : QRun sp.1) : QRun (srun sp ops).1 := by
  induction ops generalizing sp with
  | nil => exact h
  | cons o ops ih => exact ih _ (step_qrun sp.1 sp.2 o.2 o.1 h)

theorem InitLike.qrun {s : St} (h : InitLike s) (hp : s.panicked = none) (hw : s.writing = none)
    (hd : s.doVerify = false) : QRun s := by
  refine ⟨h.np hp (noFuture_of_none hw), DV.of_false hd, ?_⟩
  unfold workersQuiet workersPending
  simp [h.stopAnn, h.allocator, h.verifier, hw]

end Rain.Loop
