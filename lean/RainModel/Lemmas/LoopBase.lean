import RainModel.Model.LoopStep
/-!
Basic tools for proofs about M-LOOP: fold invariants, the frame tactic, `stop` split into named
pieces (`stop_eq` is `rfl`: nothing about the model changes).
-/
namespace Rain.Loop

theorem foldl_keep {α σ β} (g : σ → β) (f : σ → α → σ) (h : ∀ s a, g (f s a) = g s)
    (l : List α) (s : σ) : g (l.foldl f s) = g s := by
  induction l generalizing s with
  | nil => rfl
  | cons a l ih => simp [List.foldl_cons, ih, h]

theorem foldl_inv {α σ} (P : σ → Prop) (f : σ → α → σ) (h : ∀ s a, P s → P (f s a))
    (l : List α) (s : σ) (hs : P s) : P (l.foldl f s) := by
  induction l generalizing s with
  | nil => exact hs
  | cons a l ih => exact ih _ (h _ _ hs)

theorem foldl_inv_mem {α σ} (P : σ → Prop) (l : List α) (f : σ → α → σ)
    (h : ∀ s a, a ∈ l → P s → P (f s a)) (s : σ) (hs : P s) : P (l.foldl f s) := by
  induction l generalizing s with
  | nil => exact hs
  | cons a l ih =>
    exact ih (fun s b hb => h s b (List.mem_cons_of_mem _ hb)) _ (h _ _ (List.mem_cons_self ..) hs)

/-- Split every `if`/`match` of the goal and close the leaves. -/
macro "frame_split" : tactic => `(tactic| ((repeat' split) <;> first | rfl | simp_all))

@[simp] theorem onSt_fst (m : M) (f : St → St) : (onSt m f).1 = f m.1 := rfl
@[simp] theorem onSt_snd (m : M) (f : St → St) : (onSt m f).2 = m.2 := rfl
@[simp] theorem send_fst (m : M) (k : Nat) (x : String) : (send m k x).1 = m.1 := rfl
@[simp] theorem send_snd (m : M) (k : Nat) (x : String) : (send m k x).2 = m.2 ++ [⟨k, x⟩] := rfl
@[simp] theorem closePeerM_fst (m : M) (k : Nat) : (closePeerM m k).1 = m.1.closePeer k := rfl
@[simp] theorem closePeerM_snd (m : M) (k : Nat) : (closePeerM m k).2 = m.2 := rfl

/-! ### `stop` in named pieces -/

def stopA (s : St) (err : Bool) : St := { s with lastErr := err, acceptor := false }
def stopPeers (s : St) : St := s.peers.foldl (fun s p => s.closePeer p.k) s
def stopClear (s : St) : St := { s with dls := [], mayStart := [], idls := [], mayStartI := false }
def stopWB (s : St) : St := if s.bf.isSome then s.writeBitfield else s
def stopAlloc (s : St) : St :=
  if s.allocator then
    let opened := (List.range s.cfg.flens.length).filter (fun i => !(s.cfg.fpads.getD i false))
    if s.failOpen then
      { s with allocator := false, gateOpen := false, sto := s.sto ++ ["openfail:" ++ fileName s.cfg (opened.headD 0)] }
    else
    { s with allocator := false, gateOpen := false,
             sto := s.sto ++ opened.map (fun i =>
               s!"open:{fileName s.cfg i}:{s.cfg.flens.getD i 0}:" ++
                 (if s.fileExists.getD i false then "existed" else "new")) ++
               opened.map (fun i => "close:" ++ fileName s.cfg i),
             fileExists := (List.range s.cfg.flens.length).map (fun i => s.fileExists.getD i false || opened.contains i),
             known := (List.range s.cfg.flens.length).map (fun i => s.known.getD i false || opened.contains i),
             leaked := s.leaked }
  else s
def stopVer (s : St) : St := if s.verifier then { s with verifier := false, gateRead := false } else s
def stopFin (s : St) : St := { s with stopAnn := true }

/-- What `stop` does when the torrent is running. -/
def stopRun (s : St) (err : Bool) : St :=
  stopFin (stopVer (stopAlloc (stopWB (stopClear (stopPeers (stopA s err)))).closeData))

theorem stop_eq (s : St) (err : Bool) :
    s.stop err = if s.status = .stopping ∨ s.status = .stopped then s else stopRun s err := rfl

end Rain.Loop
