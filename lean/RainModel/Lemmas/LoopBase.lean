import RainModel.Model.LoopStep
/-!
Basic tools for proofs about M-LOOP: fold invariants, the frame tactic, `stop` split into named
pieces (`stop_eq` is `rfl`: nothing about the model changes).
-/
namespace Rain.Loop

theorem foldl_keep {α σ β} (g : σ → β) (f : σ → α → σ) (h : ∀ s a, g (f s a) = g s)
    (l : List α) (s : σ) : g (l.foldl f s) = g s := by
  induction l generalizing s with
  | nil => rfl
  | cons a l ih => simp [List.foldl_cons, ih, h]

theorem foldl_inv {α σ} (P : σ → Prop) (f : σ → α → σ) (h : ∀ s a, P s → P (f s a))
    (l : List α) (s : σ) (hs : P s) : P (l.foldl f s) := by
  induction l generalizing s with
  | nil => exact hs
  | cons a l ih => exact ih _ (h _ _ hs)

theorem foldl_inv_mem {α σ} (P : σ → Prop) (l : List α) (f : σ → α → σ)
    (h : ∀ s a, a ∈ l → P s → P (f s a)) (s : σ) (hs : P s) : P (l.foldl f s) := by
  induction l generalizing s with
  | nil => exact hs
  | cons a l ih =>
    exact ih (fun s b hb => h s b (List.mem_cons_of_mem _ hb)) _ (h _ _ (List.mem_cons_self ..) hs)

/-- Split every `if`/`match` of the goal and close the leaves. -/
macro "frame_split" : tactic => `(tactic| ((repeat' split) <;> first | rfl | simp_all))

-- (proved by `cases`, not `rfl`, on purpose: as `rfl`-lemmas they make simp's discharger fail to
-- assign proofs of the side conditions of the `foldl_*` frame lemmas)
@[simp] theorem onSt_fst (m : M) (f : St → St) : (onSt m f).1 = f m.1 := by cases m; rfl
@[simp] theorem onSt_snd (m : M) (f : St → St) : (onSt m f).2 = m.2 := by cases m; rfl
@[simp] theorem send_fst (m : M) (k : Nat) (x : String) : (send m k x).1 = m.1 := by cases m; rfl
@[simp] theorem send_snd (m : M) (k : Nat) (x : String) : (send m k x).2 = m.2 ++ [⟨k, x⟩] := by cases m; rfl
@[simp] theorem closePeerM_fst (m : M) (k : Nat) : (closePeerM m k).1 = m.1.closePeer k := by cases m; rfl
@[simp] theorem closePeerM_snd (m : M) (k : Nat) : (closePeerM m k).2 = m.2 := by cases m; rfl

/-! ### `stop` in named pieces -/

def stopA (s : St) (err : Bool) : St := { s with lastErr := err, acceptor := false, doVerify := s.doVerify && !err }
def stopPeers (s : St) : St := s.peers.foldl (fun s p => s.closePeer p.k) s
def stopClear (s : St) : St := { s with dls := [], mayStart := [], idls := [], mayStartI := false }
def stopWB (s : St) : St := if s.bf.isSome then s.writeBitfield else s
/-- The data (non-padding) files, in order: what the allocator opens. -/
def allocData (s : St) : List Nat := (List.range s.cfg.flens.length).filter (fun i => !(s.cfg.fpads.getD i false))
/-- The allocator's `Open` of data file number `failAt` fails. -/
def allocFailing (s : St) : Bool := s.failOpen && s.failAt < (allocData s).length
/-- The files the allocator opens (and creates, if missing) before it fails or finishes. -/
def allocOpened (s : St) : List Nat := if allocFailing s then (allocData s).take s.failAt else allocData s

def stopAlloc (s : St) : St :=
  if s.allocator then
    { s with allocator := false, gateOpen := false,
             sto := s.sto ++ (allocOpened s).map (fun i =>
               s!"open:{fileName s.cfg i}:{s.cfg.flens.getD i 0}:" ++
                 (if s.fileExists.getD i false then "existed" else "new")) ++
               (if allocFailing s then ["openfail:" ++ fileName s.cfg ((allocData s).getD s.failAt 0)] else []) ++
               (allocOpened s).map (fun i => "close:" ++ fileName s.cfg i),
             fileExists := (List.range s.cfg.flens.length).map (fun i => s.fileExists.getD i false || (allocOpened s).contains i),
             known := (List.range s.cfg.flens.length).map (fun i => s.known.getD i false || (allocOpened s).contains i),
             leaked := s.leaked,
             bf := if (allocOpened s).any (fun i => !(s.fileExists.getD i false)) then none else s.bf,
             persisted := if (allocOpened s).any (fun i => !(s.fileExists.getD i false)) && s.bf.isSome then none else s.persisted }
  else s
def stopVer (s : St) : St := if s.verifier then { s with verifier := false, gateRead := false } else s
def stopFin (s : St) : St := { s with stopAnn := true }

/-- What `stop` does when the torrent is running. -/
def stopRun (s : St) (err : Bool) : St :=
  stopFin (stopVer (stopAlloc (stopWB (stopClear (stopPeers (stopA s err)))).closeData))

theorem stop_eq (s : St) (err : Bool) :
    s.stop err = if s.status = .stopping ∨ s.status = .stopped then s else stopRun s err := rfl

/-! ### `start` in named pieces -/

/-- A start while the torrent is stopping closes the stop announcer and finishes the stop (fix C04-F3). -/
def startPre (m : M) : M :=
  if m.1.stopAnn then handleStopped (onSt m fun s => { s with stopHang := false }) else m

/-- `start` once no stop announcer is left: nothing if the torrent runs, `startCore` otherwise. -/
def startGo (m : M) : M := if m.1.errC then m else startCore m

theorem start_eq (m : M) : start m = startGo (startPre m) := rfl

/-! ### `handlePieceWriteDone` in named pieces -/

def pwdReset (m : M) (w : WriteJob) : M :=
  onSt m fun s =>
    { s with writing := none,
             wflag := if w.gen = s.gen then setAt s.wflag w.piece false else s.wflag }

/-- failed hash: close and ban the source -/
def pwdBan (m : M) (w : WriteJob) : M :=
  let ip := ((m.1.findPeer w.src).map (·.ip)).getD s!"10.0.{w.src / 250}.{w.src % 250 + 1}"
  let m := closePeerM m w.src
  let m := onSt m fun s => { s with banned := if s.banned.contains ip then s.banned else s.banned ++ [ip] }
  onSt m (·.startDls)

def pwdDone (m : M) (w : WriteJob) : M :=
  onSt m fun s => { s with done := setAt s.done w.piece true }

def pwdSet (m : M) (w : WriteJob) (b : List Bool) : M :=
  let m := if b.getD w.piece false then onSt m (·.crash "already have the piece") else m
  onSt m fun s => { s with bf := some (setAt b w.piece true) }

def pwdOthers (m : M) (w : WriteJob) : M :=
  let others := if m.1.loaded && !m.1.completed then (m.1.dls.filter (·.piece = w.piece)).map (·.k) else []
  others.foldl (fun m k => onSt m fun s => (s.closeDl k).startDlFor k) m

def pwdHaves (m : M) (w : WriteJob) : M :=
  m.1.peers.foldl (fun m p =>
    let m := updateInterested m p.k
    if p.has.getD w.piece false then m else send m p.k s!"have:{w.piece}") m

def pwdFinish (m : M) : M :=
  let (s, completed) := m.1.checkCompletion
  let m : M := (s, m.2)
  if completed then
    let m := onSt m (·.writeBitfield)
    if m.1.cfg.stopAfter then onSt m (·.stop false) else m
  else m

def pwdOk (m : M) (w : WriteJob) (b : List Bool) : M :=
  pwdFinish (pwdHaves (pwdOthers (pwdSet m w b) w) w)

theorem handlePieceWriteDone_eq (m : M) (w : WriteJob) (writeErr : Bool) :
    handlePieceWriteDone m w writeErr =
      let m := pwdReset m w
      if !w.good then pwdBan m w
      else if w.gen ≠ m.1.gen || !m.1.loaded then m
      else if writeErr then onSt m (·.stop true)
      else
        let m := pwdDone m w
        match m.1.bf with
        | none => onSt m (·.crash "handlePieceWriteDone: nil bitfield")
        | some b => pwdOk m w b := rfl

/-! ### `handleAllocationDone` / `handleVerificationDone` in named pieces -/

def hadInstall (m : M) : M :=
  onSt m fun s =>
    let data := (List.range s.cfg.flens.length).filter (fun i => !(s.cfg.fpads.getD i false))
    { s with allocator := false, openFiles := data, loaded := true, gen := s.gen + 1,
             done := List.replicate s.n false, wflag := List.replicate s.n false,
             peers := s.peers.map fun p => { p with has := List.replicate s.n false } }

/-- the torrent is ready to run: replay queued messages, accept, pick -/
def hadReady (m : M) : M := onSt (processQueued m) fun s => ({ s with acceptor := true }).startDls

/-- `checkCompletion`, then stop (stop-after-download) or get going -/
def hadCheck (m : M) : M :=
  let (s, c) := m.1.checkCompletion
  let m : M := (s, m.2)
  if c && m.1.cfg.stopAfter then onSt m (·.stop false) else hadReady m

/-- the files did not exist: a new empty bitfield -/
def hadFreshInstall (m : M) : M :=
  onSt m fun s => (({ s with bf := some (List.replicate s.n false) }).resetCompletion).markPaddingPieces

/-- a manual verification of files that did not exist ends stopped (fix for finding C04-F4) -/
def hadFresh (m : M) : M :=
  let m := hadFreshInstall m
  if m.1.doVerify then onSt m fun s => ({ s with doVerify := false }).stop false else hadCheck m

def hadTrust (m : M) (b : List Bool) : M :=
  hadCheck (onSt m fun s => ({ s with done := b }).markPaddingPieces)

/-- files were missing: the bitfield is forgotten, also in the resume db (fix for finding C05-F1) -/
def hadForget (m : M) (hasMissing : Bool) : M :=
  onSt m fun s => if hasMissing && s.bf.isSome then { s with bf := none, persisted := none } else s

theorem handleAllocationDone_eq (m : M) (hasExisting hasMissing : Bool) :
    handleAllocationDone m hasExisting hasMissing =
      let m := hadForget (hadInstall m) hasMissing
      match m.1.bf with
      | some b =>
        if !hasMissing then hadTrust m b
        else if !hasExisting then hadFresh m
        else onSt m fun s => { s with verifier := true }
      | none =>
        if !hasExisting then hadFresh m
        else onSt m fun s => { s with verifier := true } := rfl

def hvdInstall (m : M) : M :=
  let m := onSt m fun s => { s with verifier := false, bf := some s.diskOK, tainted := false }
  let m := onSt m (·.writeBitfield)
  let m := onSt m fun s => { s with done := (List.range s.n).map fun i => s.done.getD i false || s.diskOK.getD i false }
  onSt m fun s => if !allTrue s.diskOK then s.resetCompletion else s

/-- `hvdInstall` before the completion flags are looked at. -/
def hvdPre (m : M) : M :=
  let m := onSt m fun s => { s with verifier := false, bf := some s.diskOK, tainted := false }
  let m := onSt m (·.writeBitfield)
  onSt m fun s => { s with done := (List.range s.n).map fun i => s.done.getD i false || s.diskOK.getD i false }

theorem hvdInstall_eq (m : M) :
    hvdInstall m = onSt (hvdPre m) fun s => if !allTrue s.diskOK then s.resetCompletion else s := rfl

def hvdHaves (m : M) : M :=
  let haves := (List.range m.1.n).filter fun i => m.1.diskOK.getD i false
  m.1.peers.foldl (fun m p =>
    updateInterested (haves.foldl (fun m i => send m p.k s!"have:{i}") m) p.k) m

theorem handleVerificationDone_eq (m : M) :
    handleVerificationDone m =
      let m := hvdInstall m
      if m.1.doVerify then onSt m fun s => ({ s with doVerify := false }).stop false
      else hadCheck (hvdHaves m) := rfl

/-! ### `allocatorRun` in named pieces -/

/-- The storage calls of an allocation whose `Open` of data file `failAt` fails: the files before it are opened
(created, if missing) and closed again. -/
def allocFailOpen (m : M) : M :=
  onSt m fun s =>
    { s with sto := s.sto ++ ((allocData m.1).take m.1.failAt).map (fun i =>
               s!"open:{fileName s.cfg i}:{s.cfg.flens.getD i 0}:" ++ (if s.fileExists.getD i false then "existed" else "new")) ++
               ["openfail:" ++ fileName s.cfg ((allocData m.1).getD m.1.failAt 0)] ++
               ((allocData m.1).take m.1.failAt).map (fun i => "close:" ++ fileName s.cfg i),
             fileExists := (List.range s.cfg.flens.length).map (fun i => s.fileExists.getD i false || ((allocData m.1).take m.1.failAt).contains i),
             known := (List.range s.cfg.flens.length).map (fun i => s.known.getD i false || ((allocData m.1).take m.1.failAt).contains i),
             allocator := false }

/-- One of the files the failing allocation opened did not exist (it has been re-created). -/
def allocFailMissing (s : St) : Bool := ((allocData s).take s.failAt).any fun i => !(s.fileExists.getD i false)

/-- The failing allocation: storage calls, the bitfield forgotten if a file was re-created (fix C05-F2), `stop(err)`. -/
def allocFail (m : M) : M := onSt (hadForget (allocFailOpen m) (allocFailMissing m.1)) (·.stop true)

/-- The storage calls of a successful allocation. -/
def allocOkOpen (m : M) : M :=
  onSt m fun s =>
    { s with sto := s.sto ++ (allocData m.1).map (fun i =>
               s!"open:{fileName s.cfg i}:{s.cfg.flens.getD i 0}:" ++ (if s.fileExists.getD i false then "existed" else "new")),
             fileExists := (List.range s.cfg.flens.length).map (fun i => s.fileExists.getD i false || (allocData m.1).contains i),
             known := (List.range s.cfg.flens.length).map (fun i => s.known.getD i false || (allocData m.1).contains i) }

theorem allocatorRun_eq (m : M) :
    allocatorRun m =
      if allocFailing m.1 then allocFail m
      else handleAllocationDone (allocOkOpen m) ((allocData m.1).any fun i => m.1.fileExists.getD i false)
        ((allocData m.1).any fun i => !(m.1.fileExists.getD i false)) := rfl

/-! ### `handleMetadataData`: the tail after the last block arrived with the right hash -/

/-- The metadata is adopted (`info = true`): `StopAfterMetadata` stops the torrent
(`stopAndSetStoppedOnMetadata`), otherwise the allocator is started. -/
def hmdStart (m : M) : M :=
  if m.1.cfg.stopAfterMeta then onSt m (·.stop false)
  else onSt m fun s => if s.allocator then s.crash "allocator exists" else { s with allocator := true }

/-- Every block arrived and the hash is right: the metadata downloads are dropped, then `parseInfo`'s
piece-count limit (`Config.MaxPieces`) and the private flag refuse the info dictionary, else it is adopted. -/
def hmdAdopt (m : M) : M :=
  let m := onSt m fun s => { s with idls := [] }
  if m.1.cfg.n > m.1.cfg.maxPieces then onSt m (·.stop true)
  else if m.1.cfg.isPrivate then onSt m (·.stop true)
  else hmdStart (onSt m fun s => { s with info := true, metaDone := true })

/-- `handleMetadataData` for a running download `d` of peer `k` (the `some d` arm). -/
def hmdBlock (m : M) (d : IDl) (k i len : Nat) (good : Bool) : M :=
  if i ≥ d.nb then onSt (closePeerM m k) fun s => { s with mayStartI := !s.info }
  else if len ≠ blockSizeOf d.size i then onSt (closePeerM m k) fun s => { s with mayStartI := !s.info }
  else if (d.blocks.getD i none).isSome then onSt (closePeerM m k) fun s => { s with mayStartI := !s.info }
  else
    let d' : IDl := { d with pending := d.pending - 1, blocks := d.blocks.set i (some good) }
    let m' := onSt m fun s => { s with idls := s.idls.map fun x => if x.k = k then d' else x }
    if d'.pending ≠ 0 then
      onSt m' (·.updPeer k fun p => { p with snubbed := false })
    else
      if !(d'.size = m.1.isize && d'.blocks.all (· = some true)) then
        onSt (closePeerM m' k) fun s => { s with mayStartI := !s.info }
      else hmdAdopt m'

theorem handleMetadataData_eq (m : M) (k i len : Nat) (good : Bool) :
    handleMetadataData m k i len good =
      match m.1.idls.find? (·.k = k) with
      | none => m
      | some d => hmdBlock m d k i len good := rfl

end Rain.Loop
