import RainModel.Lemmas.LoopInv
/-!
Basic facts about `closePeer` / `stop` (moved here from LoopPeers / LoopComp / LoopLife so that the soundness
development can use them), and the invariant `WrOK` of the piece writer's held results (`WriteJob.written`,
`gate writeDone`): a written job of the current generation on loaded pieces has its bytes on disk.
-/
namespace Rain.Loop

theorem find?_none_filter {α} (l : List α) (p : α → Bool) (h : l.find? p = none) :
    l.filter (fun x => !p x) = l := by
  rw [List.find?_eq_none] at h
  rw [List.filter_eq_self]
  intro a ha
  simpa using h a ha

theorem closePeer_peers_subset (s : St) (k : Nat) : ∀ q ∈ (s.closePeer k).peers, q ∈ s.peers := by
  unfold St.closePeer
  split
  · exact fun q hq => hq
  · dsimp only
    intro q hq
    split at hq <;> simp at hq <;> exact hq.1

theorem status_stopped_iff (s : St) : s.status = .stopped ↔ s.errC = false := by
  unfold St.status
  cases s.errC <;> simp
  repeat' split
  all_goals simp

theorem status_stopping_iff (s : St) : s.status = .stopping ↔ s.errC = true ∧ s.stopAnn = true := by
  unfold St.status
  cases s.errC <;> cases s.stopAnn <;> simp
  repeat' split
  all_goals simp

theorem closePeer_peers_eq (s : St) (k : Nat) : (s.closePeer k).peers = s.peers.filter (fun q => !decide (q.k = k)) := by
  unfold St.closePeer
  split
  · next h =>
    unfold St.findPeer at h
    exact (find?_none_filter _ _ h).symm
  · dsimp only
    split <;> simp

theorem foldl_closePeer_peers (l : List Peer) (t : St) :
    (l.foldl (fun s p => s.closePeer p.k) t).peers = t.peers.filter (fun q => l.all fun p => !decide (q.k = p.k)) := by
  induction l generalizing t with
  | nil =>
    simp only [List.foldl_nil, List.all_nil]
    exact (List.filter_eq_self.2 (fun _ _ => rfl)).symm
  | cons a l ih =>
    simp only [List.foldl_cons, ih, closePeer_peers_eq, List.filter_filter, List.all_cons]
    congr 1
    funext q
    rw [Bool.and_comm]

theorem stopPeers_peers (s : St) : (stopPeers s).peers = [] := by
  unfold stopPeers
  rw [foldl_closePeer_peers, List.filter_eq_nil_iff]
  intro q hq
  simp only [List.all_eq_true, Bool.not_eq_eq_eq_not, Bool.not_true, decide_eq_false_iff_not]
  intro hall
  exact hall q hq rfl

theorem stopAlloc_allocator (s : St) : (stopAlloc s).allocator = false := by
  unfold stopAlloc
  split
  · rfl
  · next h => simpa using h

theorem stopVer_verifier (s : St) : (stopVer s).verifier = false := by
  unfold stopVer
  split
  · rfl
  · next h => simpa using h

/-- The lifecycle fields after the running branch of `stop`. -/
theorem stopRun_fields (s : St) (e : Bool) :
    (stopRun s e).stopAnn = true ∧ (stopRun s e).allocator = false ∧ (stopRun s e).verifier = false ∧
    (stopRun s e).loaded = false ∧ (stopRun s e).acceptor = false ∧ (stopRun s e).openFiles = [] ∧
    (stopRun s e).peers = [] ∧ (stopRun s e).dls = [] ∧ (stopRun s e).idls = [] := by
  refine ⟨rfl, ?_, ?_, ?_, ?_, ?_, ?_, ?_, ?_⟩
  · simp [stopRun, stopAlloc_allocator]
  · simp [stopRun, stopVer_verifier]
  · simp [stopRun, St.closeData]
  · simp [stopRun, stopA]
  · simp [stopRun, St.closeData]
  · simp [stopRun, stopPeers_peers]
  · simp [stopRun, stopClear]
  · simp [stopRun, stopClear]


/-! ### `doVerify`: a stop caused by an error withdraws the request (fix C04-F8), nothing but the verify command sets it -/

theorem stop_doVerify_eq (s : St) (e : Bool) :
    (s.stop e).doVerify = s.doVerify ∨ (e = true ∧ (s.stop e).doVerify = false) := by
  rw [stop_eq]
  split
  · exact Or.inl rfl
  · cases e
    · left; simp [stopRun, stopA]
    · right; simp [stopRun, stopA]

theorem stop_false_doVerify (s : St) : (s.stop false).doVerify = s.doVerify := by
  rcases stop_doVerify_eq s false with h | h
  · exact h
  · cases h.1

theorem stop_doVerify_false (s : St) (e : Bool) (h : s.doVerify = false) : (s.stop e).doVerify = false := by
  rcases stop_doVerify_eq s e with h' | h'
  · rw [h', h]
  · exact h'.2

theorem pwdFinish_doVerify_false (m : M) (h : m.1.doVerify = false) : (pwdFinish m).1.doVerify = false := by
  unfold pwdFinish
  dsimp only
  repeat' split
  all_goals first
    | (simp only [onSt_fst]; apply stop_doVerify_false; simpa using h)
    | (simpa using h)

theorem handlePieceWriteDone_doVerify_false (m : M) (w : WriteJob) (e : Bool) (h : m.1.doVerify = false) :
    (handlePieceWriteDone m w e).1.doVerify = false := by
  rw [handlePieceWriteDone_eq]
  dsimp only
  repeat' split
  all_goals first
    | (simp only [onSt_fst]; apply stop_doVerify_false; simpa using h)
    | (unfold pwdOk; apply pwdFinish_doVerify_false; simpa using h)
    | (simpa using h)

theorem writerRun_doVerify_false (m : M) (w : WriteJob) (h : m.1.doVerify = false) :
    (writerRun m w).1.doVerify = false := by
  unfold writerRun
  dsimp only
  repeat' split
  all_goals first
    | (apply handlePieceWriteDone_doVerify_false; simpa using h)
    | (simpa using h)

theorem hadCheck_doVerify_false (m : M) (h : m.1.doVerify = false) : (hadCheck m).1.doVerify = false := by
  unfold hadCheck
  dsimp only
  split
  · simp only [onSt_fst]; apply stop_doVerify_false; simpa using h
  · simpa using h

theorem hmdStart_doVerify_false (m : M) (h : m.1.doVerify = false) : (hmdStart m).1.doVerify = false := by
  unfold hmdStart
  repeat' split
  all_goals first
    | (simp only [onSt_fst]; apply stop_doVerify_false; simpa using h)
    | (simpa using h)

theorem hmdAdopt_doVerify_false (m : M) (h : m.1.doVerify = false) : (hmdAdopt m).1.doVerify = false := by
  unfold hmdAdopt
  dsimp only
  repeat' split
  all_goals first
    | (simp only [onSt_fst]; apply stop_doVerify_false; simpa using h)
    | (apply hmdStart_doVerify_false; simpa using h)

theorem handleMetadataData_doVerify_false (m : M) (k i len : Nat) (g : Bool) (h : m.1.doVerify = false) :
    (handleMetadataData m k i len g).1.doVerify = false := by
  rw [handleMetadataData_eq]
  split
  · exact h
  unfold hmdBlock
  dsimp only
  repeat' split
  all_goals first
    | (apply hmdAdopt_doVerify_false; simpa using h)
    | (simpa using h)

/-! ### `WrOK` -/

/-- `s` is neither stopped nor stopping. -/
def Running (s : St) : Prop := s.errC = true ∧ s.stopAnn = false

theorem Running.congr {s s' : St} (hr : Running s) (h1 : s'.errC = s.errC) (h2 : s'.stopAnn = s.stopAnn) :
    Running s' := ⟨h1 ▸ hr.1, h2 ▸ hr.2⟩

theorem not_running {s : St} (h : ¬ Running s) : s.errC = false ∨ s.stopAnn = true := by
  unfold Running at h
  cases he : s.errC <;> cases hs : s.stopAnn <;> simp_all

/-- The held results of the piece writer are truthful, and the lifecycle facts that keep them so: a job whose
storage calls have returned (`written`) and which is still current (same generation, pieces loaded) has its
piece's bytes on disk; no job comes from the future; a stopped or stopping torrent has nothing loaded, no
allocator, no verifier, no acceptor and no peers (so files are only ever changed behind the back of a torrent
whose held jobs are stale). -/
structure WrOK (s : St) : Prop where
  ok : ∀ w, s.writing = some w → w.written = true → w.gen = s.gen → s.loaded = true → s.diskOKi w.piece = true
  wg : ∀ w, s.writing = some w → w.gen ≤ s.gen
  idle : (s.errC = false ∨ s.stopAnn = true) →
    s.loaded = false ∧ s.allocator = false ∧ s.verifier = false ∧ s.acceptor = false ∧ s.peers = []

theorem WrOK.running_of_loaded {s : St} (h : WrOK s) (hl : s.loaded = true) : Running s := by
  refine Classical.byContradiction fun hn => ?_
  have := (h.idle (not_running hn)).1
  rw [hl] at this; cases this

theorem WrOK.running_of_alloc {s : St} (h : WrOK s) (hl : s.allocator = true) : Running s := by
  refine Classical.byContradiction fun hn => ?_
  have := (h.idle (not_running hn)).2.1
  rw [hl] at this; cases this

theorem WrOK.running_of_ver {s : St} (h : WrOK s) (hl : s.verifier = true) : Running s := by
  refine Classical.byContradiction fun hn => ?_
  have := (h.idle (not_running hn)).2.2.1
  rw [hl] at this; cases this

theorem WrOK.running_of_acceptor {s : St} (h : WrOK s) (hl : s.acceptor = true) : Running s := by
  refine Classical.byContradiction fun hn => ?_
  have := (h.idle (not_running hn)).2.2.2.1
  rw [hl] at this; cases this

theorem WrOK.running_of_peer {s : St} (h : WrOK s) {k : Nat} (hk : ¬(s.findPeer k).isNone = true) : Running s := by
  refine Classical.byContradiction fun hn => ?_
  have := (h.idle (not_running hn)).2.2.2.2
  simp [St.findPeer, this] at hk

theorem diskOKi_of_bad_sub {s s' : St} (hc : s'.cfg = s.cfg) (hb : ∀ x ∈ s'.bad, x ∈ s.bad) (i : Nat)
    (hi : s.diskOKi i = true) : s'.diskOKi i = true := by
  unfold St.diskOKi at *
  rw [hc]
  simp only [Bool.and_eq_true, Bool.not_eq_true', List.any_eq_false, decide_eq_true_eq] at hi ⊢
  exact ⟨fun x hx => hi.1 x (hb x hx), hi.2⟩

/-- The write clauses under a frame: same job or none, same generation, nothing newly loaded, the disk not worse. -/
theorem WrOK.jobs_frame {s s' : St} (h : WrOK s) (hc : s'.cfg = s.cfg) (hb : ∀ x ∈ s'.bad, x ∈ s.bad)
    (hw : s'.writing = s.writing ∨ s'.writing = none) (hg : s'.gen = s.gen) (hl : s'.loaded = true → s.loaded = true) :
    (∀ w, s'.writing = some w → w.written = true → w.gen = s'.gen → s'.loaded = true → s'.diskOKi w.piece = true) ∧
    (∀ w, s'.writing = some w → w.gen ≤ s'.gen) := by
  rcases hw with hw | hw
  · rw [hw, hg]
    exact ⟨fun w a b c d => diskOKi_of_bad_sub hc hb _ (h.ok w a b c (hl d)), h.wg⟩
  · rw [hw]
    exact ⟨fun w a => (by cases a), fun w a => (by cases a)⟩

/-- The result is running: the lifecycle clause is vacuous. -/
theorem WrOK.to_running {s s' : St} (h : WrOK s) (hr : Running s') (hc : s'.cfg = s.cfg) (hb : s'.bad = s.bad)
    (hw : s'.writing = s.writing) (hg : s'.gen = s.gen) (hl : s'.loaded = s.loaded) : WrOK s' := by
  obtain ⟨a, b⟩ := h.jobs_frame hc (fun x hx => hb ▸ hx) (Or.inl hw) hg (fun h => hl ▸ h)
  refine ⟨a, b, fun hh => ?_⟩
  rcases hh with hh | hh
  · rw [hr.1] at hh; cases hh
  · rw [hr.2] at hh; cases hh

/-- A handler on a running torrent that keeps `errC`, `stopAnn` and the write machinery. -/
theorem WrOK.congrR {s s' : St} (h : WrOK s) (hr : Running s) (he : s'.errC = s.errC) (hs : s'.stopAnn = s.stopAnn)
    (hc : s'.cfg = s.cfg) (hb : s'.bad = s.bad) (hw : s'.writing = s.writing) (hg : s'.gen = s.gen)
    (hl : s'.loaded = s.loaded) : WrOK s' :=
  h.to_running (hr.congr he hs) hc hb hw hg hl

/-- Any state: everything `WrOK` reads is the same (the job may be dropped, peers may be closed). -/
theorem WrOK.of_frame {s s' : St} (h : WrOK s) (he : s'.errC = s.errC) (hs : s'.stopAnn = s.stopAnn)
    (hc : s'.cfg = s.cfg) (hb : s'.bad = s.bad) (hw : s'.writing = s.writing ∨ s'.writing = none) (hg : s'.gen = s.gen)
    (hl : s'.loaded = s.loaded) (ha : s'.allocator = s.allocator) (hv : s'.verifier = s.verifier)
    (hac : s'.acceptor = s.acceptor) (hp : s.peers = [] → s'.peers = []) : WrOK s' := by
  obtain ⟨a, b⟩ := h.jobs_frame hc (fun x hx => hb ▸ hx) hw hg (fun h => hl ▸ h)
  refine ⟨a, b, ?_⟩
  rw [he, hs, hl, ha, hv, hac]
  intro hh
  obtain ⟨i1, i2, i3, i4, i5⟩ := h.idle hh
  exact ⟨i1, i2, i3, i4, hp i5⟩

macro "wr_frameR" h:term "," hr:term : tactic =>
  `(tactic| (apply WrOK.congrR $h $hr <;> (simp; done)))

macro "wr_frame" h:term : tactic =>
  `(tactic| (apply WrOK.of_frame $h <;> first | (simp; done) | (left; simp; done) | (intro hp; simp [hp]; done)))

/-- `stop`: nothing is loaded afterwards (or nothing happened). -/
theorem stop_wrOK (s : St) (e : Bool) (h : WrOK s) : WrOK (s.stop e) := by
  rw [stop_eq]
  split
  · exact h
  · obtain ⟨f1, f2, f3, f4, f5, _, f7, _, _⟩ := stopRun_fields s e
    obtain ⟨a, b⟩ := h.jobs_frame (s' := stopRun s e) (by simp) (fun x hx => by simpa using hx) (Or.inl (by simp)) (by simp)
      (fun hl => by rw [f4] at hl; cases hl)
    exact ⟨a, b, fun _ => ⟨f4, f2, f3, f5, f7⟩⟩

theorem closePeer_of_no_peers (s : St) (k : Nat) (h : s.peers = []) : s.closePeer k = s := by
  unfold St.closePeer
  simp [St.findPeer, h]

theorem closePeer_wrOK (s : St) (k : Nat) (h : WrOK s) : WrOK (s.closePeer k) := by
  apply WrOK.of_frame h <;> first | (simp; done) | (left; simp; done) | skip
  intro hp
  rw [closePeer_of_no_peers s k hp]; exact hp

/-! ### handlers -/

/-- A new, unwritten job of the current generation on a running torrent. -/
theorem WrOK.new_job {s' : St} (w : WriteJob) (hw : s'.writing = some w) (hwr : w.written = false)
    (hg : w.gen = s'.gen) (hr : Running s') : WrOK s' := by
  refine ⟨fun w' a b => ?_, fun w' a => ?_, fun hh => ?_⟩
  · rw [hw] at a; cases a; rw [hwr] at b; cases b
  · rw [hw] at a; cases a; exact Nat.le_of_eq hg
  · rcases hh with hh | hh
    · rw [hr.1] at hh; cases hh
    · rw [hr.2] at hh; cases hh

theorem handlePieceMessage_wrOK (m : M) (k i b l : Nat) (g : Bool) (h : WrOK m.1) (hr : Running m.1) :
    WrOK (handlePieceMessage m k i b l g).1 := by
  unfold handlePieceMessage
  dsimp only
  repeat' split
  all_goals first
    | exact h
    | (simp only [closePeerM_fst]; exact closePeer_wrOK _ _ h)
    | (wr_frameR h, hr)
    | (simp only [onSt_fst]
       exact WrOK.new_job _ rfl rfl rfl ⟨by simpa using hr.1, by simpa using hr.2⟩)

theorem handlePeerMessage_wrOK (m : M) (k : Nat) (msg : Msg) (h : WrOK m.1) (hr : Running m.1) :
    WrOK (handlePeerMessage m k msg).1 := by
  cases msg
  case piece i b l g =>
    unfold handlePeerMessage
    exact handlePieceMessage_wrOK m k i b l g h hr
  all_goals
    unfold handlePeerMessage
    dsimp only
    repeat' split
    all_goals first
      | exact h
      | (simp only [closePeerM_fst]; exact closePeer_wrOK _ _ h)
      | (wr_frameR h, hr)

theorem processQueued_wrOK (m : M) (h : WrOK m.1) (hr : Running m.1) : WrOK (processQueued m).1 := by
  have key : WrOK (processQueued m).1 ∧ Running (processQueued m).1 := by
    unfold processQueued
    apply foldl_inv (fun x : M => WrOK x.1 ∧ Running x.1)
    · intro x k ⟨hx, hrx⟩
      split
      · exact ⟨hx, hrx⟩
      · next p hp =>
        dsimp only
        have h0 : WrOK (onSt x (·.updPeer k fun p => { p with queued := [] })).1 ∧
            Running (onSt x (·.updPeer k fun p => { p with queued := [] })).1 :=
          ⟨by wr_frameR hx, hrx, hrx.congr (by simp) (by simp)⟩
        apply foldl_inv (fun y : M => WrOK y.1 ∧ Running y.1) _ _ _ _ h0
        intro y msg ⟨hy, hry⟩
        split
        · exact ⟨handlePeerMessage_wrOK y k msg hy hry, hry.congr (by simp) (by simp)⟩
        · exact ⟨hy, hry⟩
    · exact ⟨h, hr⟩
  exact key.1

theorem startCore_running (m : M) : Running (startCore m).1 := by
  unfold startCore
  dsimp only
  repeat' split
  all_goals (constructor <;> simp)

theorem startCore_wrOK (m : M) (h : WrOK m.1) : WrOK (startCore m).1 :=
  h.to_running (startCore_running m) (by simp) (by simp) (by simp) (by simp) (by simp)

theorem handleStopped_wrOK (m : M) (h : WrOK m.1) (hs : m.1.stopAnn = true) : WrOK (handleStopped m).1 := by
  obtain ⟨i1, i2, i3, i4, i5⟩ := h.idle (Or.inr hs)
  have h0 : WrOK ({ m.1 with stopAnn := false, errC := false } : St) := by
    obtain ⟨a, b⟩ := h.jobs_frame (s' := { m.1 with stopAnn := false, errC := false }) rfl (fun x hx => hx) (Or.inl rfl) rfl id
    exact ⟨a, b, fun _ => ⟨i1, i2, i3, i4, i5⟩⟩
  unfold handleStopped
  dsimp only
  split
  · apply startCore_wrOK
    simp only [onSt_fst]
    wr_frame h0
  · simpa using h0

theorem start_wrOK (m : M) (h : WrOK m.1) : WrOK (start m).1 := by
  rw [start_eq]
  have h1 : WrOK (startPre m).1 := by
    unfold startPre
    split
    · next hs =>
      apply handleStopped_wrOK _ _ (by simpa using hs)
      simp only [onSt_fst]
      wr_frame h
    · exact h
  unfold startGo
  split
  · exact h1
  · exact startCore_wrOK _ h1

theorem handleVerifyCommand_wrOK (m : M) (h : WrOK m.1) : WrOK (handleVerifyCommand m).1 := by
  unfold handleVerifyCommand
  dsimp only
  split
  · apply startCore_wrOK
    simp only [onSt_fst]
    wr_frame h
  · simp only [onSt_fst]
    apply stop_wrOK
    wr_frame h

theorem hmdStart_wrOK (m : M) (h : WrOK m.1) (hr : Running m.1) : WrOK (hmdStart m).1 := by
  unfold hmdStart
  repeat' split
  all_goals first
    | (simp only [onSt_fst]; exact stop_wrOK _ _ h)
    | (wr_frameR h, hr)

theorem hmdAdopt_wrOK (m : M) (h : WrOK m.1) (hr : Running m.1) : WrOK (hmdAdopt m).1 := by
  have h0 : WrOK ({ m.1 with idls := [] } : St) := by wr_frameR h, hr
  unfold hmdAdopt
  dsimp only
  repeat' split
  all_goals first
    | (simp only [onSt_fst]; exact stop_wrOK _ _ h0)
    | (apply hmdStart_wrOK
       · simp only [onSt_fst]; wr_frameR h, hr
       · exact hr.congr (by simp) (by simp))

theorem handleMetadataData_wrOK (m : M) (k i len : Nat) (g : Bool) (h : WrOK m.1) (hr : Running m.1) :
    WrOK (handleMetadataData m k i len g).1 := by
  rw [handleMetadataData_eq]
  split
  · exact h
  unfold hmdBlock
  dsimp only
  repeat' split
  all_goals first
    | (wr_frameR h, hr)
    | (apply hmdAdopt_wrOK
       · simp only [onSt_fst]; wr_frameR h, hr
       · exact hr.congr (by simp) (by simp))

theorem mutate_wrOK (s : St) (f : Option Nat) (how : Mut) (h : WrOK s) (he : s.errC = false) : WrOK (mutate s f how) := by
  obtain ⟨i1, i2, i3, i4, i5⟩ := h.idle (Or.inl he)
  refine ⟨fun w _ _ _ hl => ?_, by simpa using h.wg, by simpa using h.idle⟩
  rw [mutate_loaded, i1] at hl; cases hl

theorem checkCompletion_wrOK (s : St) (h : WrOK s) (hr : Running s) : WrOK s.checkCompletion.1 := by
  wr_frameR h, hr

theorem hadCheck_wrOK (m : M) (h : WrOK m.1) (hr : Running m.1) : WrOK (hadCheck m).1 := by
  have h1 := checkCompletion_wrOK m.1 h hr
  have hr1 : Running m.1.checkCompletion.1 := hr.congr (by simp) (by simp)
  unfold hadCheck
  dsimp only
  split
  · simp only [onSt_fst]; exact stop_wrOK _ _ h1
  · unfold hadReady
    simp only [onSt_fst]
    have h2 := processQueued_wrOK (m.1.checkCompletion.1, m.2) h1 hr1
    have hr2 : Running (processQueued (m.1.checkCompletion.1, m.2)).1 := hr1.congr (by simp) (by simp)
    wr_frameR h2, hr2

theorem hadFresh_wrOK (m : M) (h : WrOK m.1) (hr : Running m.1) : WrOK (hadFresh m).1 := by
  have h1 : WrOK (hadFreshInstall m).1 := by wr_frameR h, hr
  have hr1 : Running (hadFreshInstall m).1 := hr.congr (by simp) (by simp)
  unfold hadFresh
  dsimp only
  split
  · simp only [onSt_fst]
    apply stop_wrOK
    wr_frameR h1, hr1
  · exact hadCheck_wrOK _ h1 hr1

theorem handleAllocationDone_wrOK (m : M) (ex mi : Bool) (h : WrOK m.1) (hr : Running m.1) :
    WrOK (handleAllocationDone m ex mi).1 := by
  have hr0 : Running (hadForget (hadInstall m) mi).1 := hr.congr (by simp) (by simp)
  have h0 : WrOK (hadForget (hadInstall m) mi).1 := by
    refine ⟨fun w a b c _ => ?_, fun w a => ?_, fun hh => ?_⟩
    · have a' : m.1.writing = some w := by simpa using a
      have c' : w.gen = m.1.gen + 1 := by simpa [hadInstall] using c
      have := h.wg w a'
      omega
    · have a' : m.1.writing = some w := by simpa using a
      have := h.wg w a'
      have hg : (hadForget (hadInstall m) mi).1.gen = m.1.gen + 1 := by simp [hadInstall]
      omega
    · rcases hh with hh | hh
      · rw [hr0.1] at hh; cases hh
      · rw [hr0.2] at hh; cases hh
  rw [handleAllocationDone_eq]
  generalize hadForget (hadInstall m) mi = X at *
  dsimp only
  repeat' split
  all_goals first
    | exact hadFresh_wrOK _ h0 hr0
    | (unfold hadTrust
       apply hadCheck_wrOK
       · simp only [onSt_fst]; wr_frameR h0, hr0
       · exact hr0.congr (by simp) (by simp))
    | (wr_frameR h0, hr0)

theorem allocatorRun_wrOK (m : M) (h : WrOK m.1) (ha : m.1.allocator = true) : WrOK (allocatorRun m).1 := by
  have hr := h.running_of_alloc ha
  rw [allocatorRun_eq]
  split
  · unfold allocFail
    simp only [onSt_fst]
    apply stop_wrOK
    wr_frameR h, hr
  · apply handleAllocationDone_wrOK
    · wr_frameR h, hr
    · exact hr.congr (by simp) (by simp)

theorem handleVerificationDone_wrOK (m : M) (h : WrOK m.1) (hv : m.1.verifier = true) :
    WrOK (handleVerificationDone m).1 := by
  have hr := h.running_of_ver hv
  have h1 : WrOK (hvdInstall m).1 := by wr_frameR h, hr
  have hr1 : Running (hvdInstall m).1 := hr.congr (by simp) (by simp)
  rw [handleVerificationDone_eq]
  dsimp only
  split
  · simp only [onSt_fst]
    apply stop_wrOK
    wr_frameR h1, hr1
  · apply hadCheck_wrOK
    · wr_frameR h1, hr1
    · exact hr1.congr (by simp) (by simp)

theorem pwdFinish_wrOK (m : M) (h : WrOK m.1) (hr : Running m.1) : WrOK (pwdFinish m).1 := by
  have h1 := checkCompletion_wrOK m.1 h hr
  have hr1 : Running m.1.checkCompletion.1 := hr.congr (by simp) (by simp)
  unfold pwdFinish
  dsimp only
  repeat' split
  all_goals first
    | exact h1
    | (simp only [onSt_fst]; apply stop_wrOK; wr_frameR h1, hr1)
    | (simp only [onSt_fst]; wr_frameR h1, hr1)

theorem pwdBan_peers_nil (m : M) (w : WriteJob) (hp : m.1.peers = []) : (pwdBan m w).1.peers = [] := by
  unfold pwdBan
  simp [closePeer_of_no_peers _ _ hp, hp]

theorem handlePieceWriteDone_wrOK (m : M) (w : WriteJob) (e : Bool) (h : WrOK m.1) :
    WrOK (handlePieceWriteDone m w e).1 := by
  have h0 : WrOK (pwdReset m w).1 := by
    apply WrOK.of_frame h <;> first | (simp; done) | (right; simp [pwdReset]; done) | (intro hp; simpa using hp)
  rw [handlePieceWriteDone_eq]
  dsimp only
  split
  · apply WrOK.of_frame h0 <;> first | (simp; done) | (left; simp; done) | skip
    intro hp
    exact pwdBan_peers_nil _ _ hp
  split
  · exact h0
  · next hst =>
    simp only [Bool.or_eq_true, ne_eq, decide_eq_true_eq, Bool.not_eq_true', not_or, Decidable.not_not,
      Bool.not_eq_false] at hst
    have hr0 : Running (pwdReset m w).1 := h0.running_of_loaded hst.2
    split
    · simp only [onSt_fst]; exact stop_wrOK _ _ h0
    · have h1 : WrOK (pwdDone (pwdReset m w) w).1 := by wr_frameR h0, hr0
      have hr1 : Running (pwdDone (pwdReset m w) w).1 := hr0.congr (by simp) (by simp)
      split
      · wr_frameR h1, hr1
      · next b hb =>
        unfold pwdOk
        apply pwdFinish_wrOK
        · wr_frameR h1, hr1
        · exact hr1.congr (by simp) (by simp)

/-- The piece writer's storage calls for a current job: the bytes of the piece are on disk afterwards. -/
theorem written_diskOKi (s : St) (piece : Nat) (sc : Sect) (l : List Sect)
    (hs : ((s.cfg.sections piece).filter fun sc => !(s.cfg.fpads.getD sc.file false)) = sc :: l)
    (x : St) (hc : x.cfg = s.cfg) (hb : x.bad = s.bad.filter (fun b => b.1 ≠ piece)) :
    x.diskOKi piece = true := by
  have hpad : s.cfg.padOK piece = true := padOK_of_stored (by rw [hs]; simp)
  simp [St.diskOKi, hpad, hb, hc]

theorem writerRun_wrOK (m : M) (w : WriteJob) (h : WrOK m.1) (hw : m.1.writing = some w) : WrOK (writerRun m w).1 := by
  unfold writerRun
  split
  · exact handlePieceWriteDone_wrOK _ _ _ h
  · dsimp only
    split
    · exact handlePieceWriteDone_wrOK _ _ _ h
    · next sc l hsecs =>
      have hsto : ∀ x : List String, WrOK ({ m.1 with sto := m.1.sto ++ x } : St) := by
        intro x; wr_frame h
      split
      · exact handlePieceWriteDone_wrOK _ _ _ (by simpa using hsto _)
      · next hst =>
        simp only [Bool.or_eq_true, ne_eq, decide_eq_true_eq, Bool.not_eq_true', not_or, Decidable.not_not,
          Bool.not_eq_false] at hst
        have hr : Running m.1 := h.running_of_loaded hst.2
        split
        · exact handlePieceWriteDone_wrOK _ _ _ (by simpa using hsto _)
        · -- the bytes are written
          have hx : ∀ x : List String, WrOK ({ m.1 with sto := m.1.sto ++ x, bad := m.1.bad.filter (fun b => b.1 ≠ w.piece) } : St) := by
            intro x
            obtain ⟨a, b⟩ := h.jobs_frame (s' := { m.1 with sto := m.1.sto ++ x, bad := m.1.bad.filter (fun b => b.1 ≠ w.piece) })
              rfl (fun y hy => (List.mem_filter.1 hy).1) (Or.inl rfl) rfl id
            exact ⟨a, b, h.idle⟩
          split
          · -- held after the storage calls
            simp only [onSt_fst]
            refine ⟨fun w' a _ _ _ => ?_, fun w' a => ?_, fun hh => ?_⟩
            · cases a
              exact written_diskOKi m.1 w.piece sc l hsecs _ rfl rfl
            · cases a
              exact h.wg w hw
            · rcases hh with hh | hh
              · rw [hr.1] at hh; cases hh
              · rw [hr.2] at hh; cases hh
          · exact handlePieceWriteDone_wrOK _ _ _ (by simpa using hx _)

theorem runWorkers_wrOK (fuel : Nat) (m : M) (h : WrOK m.1) : WrOK (runWorkers fuel m).1 := by
  induction fuel generalizing m with
  | zero => exact h
  | succ n ih =>
    unfold runWorkers
    dsimp only
    split
    · exact h
    split
    · next hs =>
      simp only [Bool.and_eq_true] at hs
      exact ih _ (handleStopped_wrOK m h hs.1)
    split
    · next ha =>
      simp only [Bool.and_eq_true] at ha
      exact ih _ (allocatorRun_wrOK m h ha.1)
    split
    · next hv =>
      simp only [Bool.and_eq_true] at hv
      exact ih _ (handleVerificationDone_wrOK m h hv.1)
    split
    · next w hw =>
      repeat' split
      all_goals first
        | exact h
        | exact ih _ (handlePieceWriteDone_wrOK m w false h)
        | exact ih _ (writerRun_wrOK m w h hw)
    · exact h

theorem stopCmd_wrOK (s : St) (h : WrOK s) : WrOK (({ s with doVerify := false }).stop false) := by
  apply stop_wrOK
  wr_frame h

theorem handle_wrOK (s : St) (p : Parked) (kn : Nat → Bool) (op : Op) (h : WrOK s) : WrOK (handle s p kn op).1.1 := by
  unfold handle
  split
  · exact start_wrOK (s, []) h
  · simp only [onSt_fst]; have := stopCmd_wrOK s h; wr_frame this
  · simp only [onSt_fst]; exact stopCmd_wrOK s h
  · simp only [onSt_fst]
    have := handleVerifyCommand_wrOK ({ s with persisted := none }, []) (by wr_frame h)
    wr_frame this
  · exact handleVerifyCommand_wrOK ({ s with persisted := none }, []) (by wr_frame h)
  · exact h
  · exact h
  · wr_frame h
  · wr_frame h
  · split <;> wr_frame h
  · split
    · exact h
    · next hg =>
      simp only [Bool.or_eq_true, not_or, Bool.not_eq_true] at hg
      exact mutate_wrOK s _ _ h hg.2
  · split
    · exact h
    · split
      · exact h
      · next ha =>
        have hr := h.running_of_acceptor (by simpa using ha)
        split
        next heq =>
        have hm := congrArg Prod.fst heq
        simp only at hm
        rw [← hm]
        wr_frameR h, hr
  · split
    · exact h
    · next hk =>
      have hr := h.running_of_peer hk
      repeat' split
      all_goals first
        | exact h
        | exact handlePieceMessage_wrOK (s, []) _ _ _ _ _ h hr
  · split
    · exact h
    · next hk => exact handlePeerMessage_wrOK (s, []) _ _ h (h.running_of_peer hk)
  · split
    · exact h
    · next hk => have hr := h.running_of_peer hk; wr_frameR h, hr
  · split
    · exact h
    · next hk => exact handleMetadataData_wrOK (s, []) _ _ _ _ h (h.running_of_peer hk)
  · split
    · exact h
    · next hk => have hr := h.running_of_peer hk; wr_frameR h, hr
  · repeat' split
    all_goals first | exact h | (simpa using h)
  · split
    · exact h
    · wr_frame h
  · wr_frame h
  · split
    · exact h
    · exact closePeer_wrOK s _ h
  · split
    · exact h
    · next hk => have hr := h.running_of_peer hk; wr_frameR h, hr

theorem deliverParked_wrOK (m : M) (p : Parked) (h : WrOK m.1) : WrOK (deliverParked m p).1.1 := by
  unfold deliverParked
  split
  · split
    · split
      · next hk =>
        have hr : Running m.1 := h.running_of_peer (by
          intro hn; rw [Option.isNone_iff_eq_none] at hn; rw [hn] at hk; cases hk)
        exact runWorkers_wrOK _ _ (handlePieceMessage_wrOK _ _ _ _ _ _ h hr)
      · exact h
    · exact h
  · exact h

/-- **`WrOK` is preserved by every event** (any op, mutations of the files included). -/
theorem step_wrOK (s : St) (p : Parked) (kn : Nat → Bool) (op : Op) (h : WrOK s) : WrOK (step s p kn op).1.st := by
  unfold step
  have h0 : WrOK { s with sto := [], mayStart := [], closedDl := [], mayStartI := false } := by wr_frame h
  have h1 := runWorkers_wrOK 12 _ (handle_wrOK _ p kn op h0)
  dsimp only
  split
  · exact deliverParked_wrOK _ _ h1
  · exact h1

theorem reconcile_peers_nil (s : St) (impl : List ImplDl) (h : s.peers = []) : (reconcile s impl).1.peers = [] := by
  simp [reconcile, h]

theorem reconcile_wrOK (s : St) (impl : List ImplDl) (h : WrOK s) : WrOK (reconcile s impl).1 := by
  apply WrOK.of_frame h <;> first | (simp; done) | (left; simp; done) | skip
  exact reconcile_peers_nil s impl

theorem reconcileIdl_wrOK (s : St) (impl : List Nat) (h : WrOK s) : WrOK (reconcileIdl s impl).1 := by
  wr_frame h

theorem dstep_wrOK (sp : St × Parked) (e : Ev) (h : WrOK sp.1) : WrOK (dstep sp e).1 := by
  unfold dstep
  exact reconcileIdl_wrOK _ _ (reconcile_wrOK _ _ (step_wrOK sp.1 sp.2 e.known e.op h))

theorem drun_wrOK (evs : List Ev) (sp : St × Parked) (h : WrOK sp.1) : WrOK (drun sp evs).1 := by
  induction evs generalizing sp with
  | nil => exact h
  | cons e evs ih => exact ih _ (dstep_wrOK sp e h)

/-- No held write result in the state, no job from the future: what a freshly added torrent satisfies. -/
def NoWritten (s : St) : Prop := ∀ w, s.writing = some w → w.written = false ∧ w.gen ≤ s.gen

theorem noWritten_of_none {s : St} (h : s.writing = none) : NoWritten s := fun w hw => by rw [h] at hw; cases hw

end Rain.Loop
