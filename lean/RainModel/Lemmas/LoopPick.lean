import RainModel.Lemmas.LoopPeers
/-!
C10, model-level half: the picker is re-run (`mayStart`) for every idle peer after the events that free
a piece or a peer.
-/
namespace Rain.Loop

/-- The picker has been run, in this op, for every connected peer that has no download. -/
def Repicked (s : St) : Prop :=
  s.status = .downloading → s.loaded = true → ∀ p ∈ s.peers, s.findDl p.k = none → p.k ∈ s.mayStart

theorem startDlFor_mayStart_mono (s : St) (k k' : Nat) (h : k' ∈ s.mayStart) : k' ∈ (s.startDlFor k).mayStart := by
  unfold St.startDlFor
  split <;> simp [h]

theorem startDls_spec (s : St) :
    (∀ k' ∈ s.mayStart, k' ∈ s.startDls.mayStart) ∧ Repicked s.startDls := by
  unfold Repicked
  unfold St.startDls
  split
  · next hst0 =>
    have hst : s.status = .downloading := by
      simp only [Bool.and_eq_true, decide_eq_true_eq] at hst0; exact hst0.1
    -- invariant of the fold over a suffix `l` of the peer list
    have key : ∀ (l : List Peer) (t : St), t.status = .downloading → t.peers = s.peers → t.dls = s.dls →
        (∀ p ∈ l, p ∈ s.peers) →
        let r := l.foldl (fun s p => if (s.findDl p.k).isNone then s.startDlFor p.k else s) t
        r.status = .downloading ∧ r.peers = s.peers ∧ r.dls = s.dls ∧
        (∀ k' ∈ t.mayStart, k' ∈ r.mayStart) ∧
        (∀ p ∈ l, s.findDl p.k = none → p.k ∈ r.mayStart) := by
      intro l
      induction l with
      | nil => intro t h1 h2 h3 _; exact ⟨h1, h2, h3, fun _ h => h, fun _ h => by cases h⟩
      | cons p l ih =>
        intro t h1 h2 h3 hl
        simp only [List.foldl_cons]
        have hp : p ∈ s.peers := hl p (List.mem_cons_self ..)
        have hfd : t.findDl p.k = s.findDl p.k := by simp [St.findDl, h3]
        have hfp : (t.findPeer p.k).isSome = true := by
          simp only [St.findPeer, h2, List.find?_isSome]
          exact ⟨p, hp, by simp⟩
        by_cases hnone : (s.findDl p.k).isNone
        · have hstep : (if (t.findDl p.k).isNone then t.startDlFor p.k else t) = t.startDlFor p.k := by
            simp [hfd, hnone]
          rw [hstep]
          have := ih (t.startDlFor p.k) (by simpa using h1) (by simpa using h2) (by simpa using h3)
            (fun q hq => hl q (List.mem_cons_of_mem _ hq))
          obtain ⟨a, b, c, d, e⟩ := this
          refine ⟨a, b, c, fun k' hk' => d k' (startDlFor_mayStart_mono t p.k k' hk'), ?_⟩
          intro q hq hqn
          simp only [List.mem_cons] at hq
          rcases hq with rfl | hq
          · apply d
            unfold St.startDlFor
            simp [h1, hfp]
          · exact e q hq hqn
        · have hstep : (if (t.findDl p.k).isNone then t.startDlFor p.k else t) = t := by
            simp [hfd, hnone]
          rw [hstep]
          have := ih t h1 h2 h3 (fun q hq => hl q (List.mem_cons_of_mem _ hq))
          obtain ⟨a, b, c, d, e⟩ := this
          refine ⟨a, b, c, d, ?_⟩
          intro q hq hqn
          simp only [List.mem_cons] at hq
          rcases hq with rfl | hq
          · simp [hqn] at hnone
          · exact e q hq hqn
    have := key s.peers s hst rfl rfl (fun _ h => h)
    obtain ⟨_, b, c, d, e⟩ := this
    refine ⟨d, fun _ _ p hp hn => ?_⟩
    rw [b] at hp
    apply e p hp
    simpa [St.findDl, c] using hn
  · next hst => exact ⟨fun _ h => h, fun h hl => absurd (by simp [h, hl]) hst⟩

theorem Repicked.congr {s s' : St} (h : Repicked s) (h1 : s'.status = s.status) (h2 : s'.peers = s.peers)
    (h3 : s'.dls = s.dls) (h4 : s'.mayStart = s.mayStart) (h5 : s'.loaded = s.loaded) : Repicked s' := by
  unfold Repicked at *
  rw [h1, h2, h4, h5]
  intro hs hl p hp hn
  exact h hs hl p hp (by simpa [St.findDl, h3] using hn)

/-- **closePeer re-picks** (fix of finding C10-F1). -/
theorem closePeer_repicks (s : St) (k : Nat) (hk : (s.findPeer k).isSome) : Repicked (s.closePeer k) := by
  unfold St.closePeer
  split
  · next h => simp [h] at hk
  · dsimp only
    split
    · exact (startDls_spec _).2.congr (by simp [St.status]) rfl rfl rfl rfl
    · exact (startDls_spec _).2

/-- **A choke re-picks**: the choked download's piece may be taken by someone else. -/
theorem choke_repicks (m : M) (k : Nat) (d : Dl) (hd : m.1.findDl k = some d) (haf : d.af = false) :
    Repicked (handlePeerMessage m k .choke).1 := by
  unfold handlePeerMessage
  simp only [hd, haf, Bool.false_eq_true, ↓reduceIte, onSt_fst]
  exact (startDls_spec _).2

/-- **A snub re-picks.** -/
theorem snub_repicks (m : M) (k : Nat) (d : Dl) (p : Peer) (hd : m.1.findDl k = some d)
    (hp : m.1.findPeer k = some p) (hc : p.peerChoking = false) :
    Repicked (handlePeerSnubbed m k).1 := by
  unfold handlePeerSnubbed
  simp only [hd, hp, hc, Bool.false_eq_true, ↓reduceIte, onSt_fst]
  exact (startDls_spec _).2

/-- **A failed hash re-picks** (after the source has been closed and banned). -/
theorem failed_hash_repicks (m : M) (w : WriteJob) (hg : w.good = false) :
    Repicked (writerRun m w).1 := by
  unfold writerRun
  simp only [hg, Bool.not_false, ↓reduceIte]
  rw [handlePieceWriteDone_eq]
  simp only [hg, Bool.not_false, ↓reduceIte]
  unfold pwdBan
  simp only [onSt_fst]
  exact (startDls_spec _).2

/-- **A completed write re-picks** for every peer whose (duplicate, endgame) download of the same piece
it closes. -/
theorem write_done_repicks_closed (m : M) (w : WriteJob) (hl : m.1.loaded = true) (hc : m.1.completed = false)
    (hs : m.1.status = .downloading) :
    ∀ d ∈ m.1.dls, d.piece = w.piece → (m.1.findPeer d.k).isSome →
      d.k ∈ (pwdOthers m w).1.mayStart ∧ (pwdOthers m w).1.findDl d.k = none := by
  unfold pwdOthers
  simp only [hl, hc, Bool.not_false, Bool.and_self, ↓reduceIte]
  -- fold invariant over the list of peers to close
  have key : ∀ (l : List Nat) (t : M), t.1.status = .downloading → t.1.peers = m.1.peers →
      let r := l.foldl (fun m k => onSt m fun s => (s.closeDl k).startDlFor k) t
      r.1.status = .downloading ∧ r.1.peers = m.1.peers ∧
      (∀ k' ∈ t.1.mayStart, k' ∈ r.1.mayStart) ∧
      (∀ k', t.1.findDl k' = none → r.1.findDl k' = none) ∧
      (∀ k ∈ l, (m.1.findPeer k).isSome → k ∈ r.1.mayStart ∧ r.1.findDl k = none) := by
    intro l
    induction l with
    | nil => intro t h1 h2; exact ⟨h1, h2, fun _ h => h, fun _ h => h, fun _ h => by cases h⟩
    | cons k l ih =>
      intro t h1 h2
      simp only [List.foldl_cons]
      have := ih (onSt t fun s => (s.closeDl k).startDlFor k) (by simpa using h1) (by simpa using h2)
      obtain ⟨a, b, c, d, e⟩ := this
      have hnone : ((t.1.closeDl k).startDlFor k).findDl k = none := by
        simp only [startDlFor_findDl]
        unfold St.closeDl
        split
        · simp [St.findDl]
        · next h => simpa using h
      have hmono : ∀ k', t.1.findDl k' = none → ((t.1.closeDl k).startDlFor k).findDl k' = none := by
        intro k' hk'
        simp only [startDlFor_findDl]
        unfold St.closeDl
        split
        · simp only [St.findDl, List.find?_eq_none] at hk' ⊢
          intro x hx
          exact hk' x (List.mem_filter.1 hx).1
        · exact hk'
      refine ⟨a, b, ?_, ?_, ?_⟩
      · intro k' hk'
        apply c
        simp only [onSt_fst]
        exact startDlFor_mayStart_mono _ _ _ (by simpa using hk')
      · intro k' hk'
        apply d
        simpa using hmono k' hk'
      · intro k0 hk0 hp0
        simp only [List.mem_cons] at hk0
        rcases hk0 with rfl | hk0
        · refine ⟨c _ ?_, d _ (by simpa using hnone)⟩
          simp only [onSt_fst]
          unfold St.startDlFor
          have hfp : (t.1.findPeer k0).isSome = true := by
            simpa [St.findPeer, h2] using hp0
          simp [h1, hfp]
        · exact e k0 hk0 hp0
  intro d hd hpiece hp
  have := key ((m.1.dls.filter (·.piece = w.piece)).map (·.k)) m hs rfl
  exact this.2.2.2.2 d.k (List.mem_map.2 ⟨d, List.mem_filter.2 ⟨hd, by simpa using hpiece⟩, rfl⟩) hp

end Rain.Loop
