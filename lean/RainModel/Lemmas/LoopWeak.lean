import RainModel.Lemmas.LoopMutate
import RainModel.Lemmas.LoopGeo
import RainModel.Lemmas.LoopLife2
/-!
Soundness across external deletion/restoration of files: the weak invariant `WSound` is preserved by
every event except a corruption of bytes, and together with the lifecycle invariant it gives full
soundness of the bitfield whenever the torrent is downloading or seeding.
-/
namespace Rain.Loop

/-- The part of a step after the handler: workers and the parked piece message. -/
theorem step_after_handle (s : St) (p : Parked) (kn : Nat → Bool) (op : Op)
    (h : Sound0 (handle { s with sto := [], mayStart := [], closedDl := [], mayStartI := false } p kn op).1.1)
    (hw : WrOK (handle { s with sto := [], mayStart := [], closedDl := [], mayStartI := false } p kn op).1.1) :
    Adv (handle { s with sto := [], mayStart := [], closedDl := [], mayStartI := false } p kn op).1.1
      (step s p kn op).1.st := by
  unfold step
  have a2 := runWorkers_adv 12 _ h hw
  dsimp only
  split
  · exact a2.trans (deliverParked_adv _ _ (h.adv a2) (runWorkers_wrOK 12 _ hw))
  · exact a2

/-- `WrOK` of the state the handler leaves. -/
theorem handle_wrOK0 (s : St) (p : Parked) (kn : Nat → Bool) (op : Op) (hw : WrOK s) :
    WrOK (handle { s with sto := [], mayStart := [], closedDl := [], mayStartI := false } p kn op).1.1 :=
  handle_wrOK _ p kn op (by wr_frame hw)

def Op.isCorrupt : Op → Bool
  | .mutate _ (.corrupt _) => true
  | _ => false

theorem handle_mutate_wsound (s : St) (p : Parked) (kn : Nat → Bool) (f : Option Nat) (how : Mut)
    (hhow : ∀ off, how ≠ .corrupt off) (h : WSound s) : WSound (handle s p kn (.mutate f how)).1.1 := by
  unfold handle
  dsimp only
  split
  · exact h
  · exact mutate_wsound s f how hhow h

/-- **The weak soundness invariant is preserved by every event except a corruption of bytes.** -/
theorem step_wsound (s : St) (p : Parked) (kn : Nat → Bool) (op : Op) (hop : op.isCorrupt = false)
    (h : WSound s) (hw : WrOK s) : WSound (step s p kn op).1.st := by
  cases hm : op.isMutate
  · exact h.adv (step_adv s p kn op hm h.zero hw)
  · -- a deletion or restoration of files
    have h0 : WSound { s with sto := [], mayStart := [], closedDl := [], mayStartI := false } :=
      ⟨h.cfg, h.bad, h.ws, h.pad⟩
    cases op with
    | mutate f how =>
      have hhow : ∀ off, how ≠ .corrupt off := by
        intro off he; subst he; simp [Op.isCorrupt] at hop
      have h1 := handle_mutate_wsound _ p kn f how hhow h0
      exact h1.adv (step_after_handle s p kn _ h1.zero (handle_wrOK0 s p kn _ hw))
    | _ => simp [Op.isMutate] at hm

theorem dstep_wsound (sp : St × Parked) (e : Ev) (hop : e.op.isCorrupt = false) (h : WSound sp.1) (hw : WrOK sp.1) :
    WSound (dstep sp e).1 := by
  unfold dstep
  exact ((step_wsound sp.1 sp.2 e.known e.op hop h hw).adv (reconcile_adv _ _)).adv (reconcileIdl_adv _ _)

theorem drun_wsound (evs : List Ev) (sp : St × Parked) (hop : ∀ e ∈ evs, e.op.isCorrupt = false)
    (h : WSound sp.1) (hw : WrOK sp.1) : WSound (drun sp evs).1 := by
  induction evs generalizing sp with
  | nil => exact h
  | cons e evs ih =>
    exact ih _ (fun e' he' => hop e' (List.mem_cons_of_mem _ he'))
      (dstep_wsound sp e (hop e (List.mem_cons_self ..)) h hw) (dstep_wrOK sp e hw)

/-- With every file present the weak invariant is the strong one. -/
theorem WSound.bits_of_files {s : St} (h : WSound s) (hfe : FilesExist s) :
    ∀ i, bitOf s.bf i = true → s.diskOKi i = true := by
  intro i hi
  rw [diskOKi_eq_true]
  refine ⟨?_, h.pad i hi⟩
  intro x hx hxi
  have hmiss := h.ws i hi x hx hxi
  obtain ⟨sc, hsc, hfile, hdata⟩ := h.bad x hx
  simp only [Cfg.isData, Bool.and_eq_true, Bool.not_eq_true', decide_eq_true_eq] at hdata
  have hlt := sections_file_lt s.cfg x.1 sc hsc hdata.2
  have := hfe sc.file hlt hdata.1
  rw [hfile] at this
  rw [hmiss] at this
  cases this

/-- **Downloading or seeding ⇒ every set bit is backed by verified bytes on disk**, also after files were
deleted or restored behind the client's back: missing files are noticed by the allocation that precedes
these statuses. -/
theorem bits_sound_of_running {s : St} (h : WSound s) (l : Life s)
    (hs : s.status = .downloading ∨ s.status = .seeding) : BitsSound s := by
  rw [bitsSound_iff]
  exact h.bits_of_files (l.files_of_running hs).2.1

/-! ### initial states -/

/-- What the driver's `initSt` establishes (Driver/Suites/Loop.lean): a freshly added, stopped torrent
without bitfield; `bad` is whatever the disk looks like, as long as it only names real data sections. -/
structure InitLike (s : St) : Prop where
  cfg : CfgWF s.cfg
  bad : BadWF s
  bf : s.bf = none
  persisted : s.persisted = none
  errC : s.errC = false
  stopAnn : s.stopAnn = false
  allocator : s.allocator = false
  verifier : s.verifier = false
  loaded : s.loaded = false
  acceptor : s.acceptor = false
  openFiles : s.openFiles = []
  peers : s.peers = []
  dls : s.dls = []
  idls : s.idls = []
  leaked : s.leaked = 0
  completed : s.completed = false
  completeCClosed : s.completeCClosed = false

theorem InitLike.sound {s : St} (h : InitLike s) : Sound s :=
  ⟨h.cfg, h.bad, fun i hi => (by rw [h.bf] at hi; cases hi), fun i hi => (by rw [h.persisted] at hi; cases hi)⟩

theorem InitLike.wsound {s : St} (h : InitLike s) : WSound s :=
  ⟨h.cfg, h.bad, fun i hi => (by rw [h.bf] at hi; cases hi), fun i hi => (by rw [h.bf] at hi; cases hi)⟩

theorem InitLike.life {s : St} (h : InitLike s) : Life s := by
  refine ⟨?_, ?_, h.leaked, ?_, ?_, ?_, ?_⟩
  · rw [h.stopAnn]; intro hh; cases hh
  · intro _; exact ⟨h.allocator, h.verifier, h.loaded, h.acceptor, h.openFiles, h.peers, h.dls, h.idls⟩
  · rw [h.loaded]; intro hh; cases hh
  · rw [h.errC]; intro hh; cases hh
  · intro _; exact ⟨h.allocator, h.verifier, h.loaded, h.completed, h.bf⟩
  · rw [h.verifier]; intro hh; cases hh

theorem InitLike.comp {s : St} (h : InitLike s) : CompInv s := by
  refine ⟨by rw [h.completeCClosed, h.completed], ?_, ?_⟩
  · rw [h.completed]; intro hh; cases hh
  · rw [h.errC]; intro hh; cases hh

/-! ### A piece that can never be verified

`Unver c i`: piece `i` is padding-only and the SHA-1 recorded for it is not the hash of zeroes.  The
invariant below goes through **every** event, mutations of the files of any kind included: such a
piece never gets a bit, in memory or in the resume record, and the torrent is never complete. -/

structure PadInv (s : St) : Prop where
  zero : Sound0 s
  len : BfLen s
  nobit : NoBit s
  nobitP : ∀ i, Unver s.cfg i → bitOf s.persisted i = false
  nc : (∃ i, Unver s.cfg i) → s.completed = false

theorem PadInv.adv {s s' : St} (h : PadInv s) (a : Adv s s') : PadInv s' where
  zero := h.zero.adv a
  len := a.len h.len
  nobit := a.noBit h.nobit
  nobitP := fun i hi => by
    have hi' : Unver s.cfg i := a.cfg ▸ hi
    cases hb : bitOf s'.persisted i with
    | false => rfl
    | true =>
      rcases a.per i hb with h' | h' | h'
      · rw [h.nobitP i hi'] at h'; cases h'
      · rw [h.nobit i hi'] at h'; cases h'
      · have := padOK_of_diskOKi h'
        rw [hi.2] at this; cases this
  nc := fun hu => a.nc h.len h.nobit (by obtain ⟨i, hi⟩ := hu; exact ⟨i, a.cfg ▸ hi⟩)
    (h.nc (by obtain ⟨i, hi⟩ := hu; exact ⟨i, a.cfg ▸ hi⟩))

/-- What does not touch configuration, bitfield, record and completion keeps the invariant, given `Sound0`. -/
theorem PadInv.of_eq {s s' : St} (h : PadInv s) (h0 : Sound0 s') (hc : s'.cfg = s.cfg) (hb : s'.bf = s.bf)
    (hp : s'.persisted = s.persisted) (hcm : s'.completed = s.completed) : PadInv s' where
  zero := h0
  len := h.len.of_eq hc (Or.inl hb)
  nobit := fun i hi => by rw [hb]; exact h.nobit i (hc ▸ hi)
  nobitP := fun i hi => by rw [hp]; exact h.nobitP i (hc ▸ hi)
  nc := fun hu => by rw [hcm]; exact h.nc (by obtain ⟨i, hi⟩ := hu; exact ⟨i, hc ▸ hi⟩)

theorem handle_mutate_padInv (s : St) (p : Parked) (kn : Nat → Bool) (f : Option Nat) (how : Mut)
    (h : PadInv s) : PadInv (handle s p kn (.mutate f how)).1.1 := by
  unfold handle
  dsimp only
  split
  · exact h
  · exact h.of_eq (mutate_sound0 s f how h.zero) (by simp) (by simp) (by simp) (by simp)

/-- **Every event keeps the invariant** — any op (mutations and corruptions of files included), any
parameters, any parked message. -/
theorem step_padInv (s : St) (p : Parked) (kn : Nat → Bool) (op : Op) (h : PadInv s) (hw : WrOK s) :
    PadInv (step s p kn op).1.st := by
  cases hm : op.isMutate
  · exact h.adv (step_adv s p kn op hm h.zero hw)
  · have h0 : PadInv { s with sto := [], mayStart := [], closedDl := [], mayStartI := false } :=
      h.of_eq ⟨h.zero.cfg, h.zero.bad⟩ rfl rfl rfl rfl
    cases op with
    | mutate f how =>
      have h1 := handle_mutate_padInv _ p kn f how h0
      exact h1.adv (step_after_handle s p kn _ h1.zero (handle_wrOK0 s p kn _ hw))
    | _ => simp [Op.isMutate] at hm

theorem dstep_padInv (sp : St × Parked) (e : Ev) (h : PadInv sp.1) (hw : WrOK sp.1) : PadInv (dstep sp e).1 := by
  unfold dstep
  exact ((step_padInv sp.1 sp.2 e.known e.op h hw).adv (reconcile_adv _ _)).adv (reconcileIdl_adv _ _)

theorem drun_padInv (evs : List Ev) (sp : St × Parked) (h : PadInv sp.1) (hw : WrOK sp.1) : PadInv (drun sp evs).1 := by
  induction evs generalizing sp with
  | nil => exact h
  | cons e evs ih => exact ih _ (dstep_padInv sp e h hw) (dstep_wrOK sp e hw)

theorem dstep_cfg (sp : St × Parked) (e : Ev) : (dstep sp e).1.cfg = sp.1.cfg := by
  unfold dstep; simp

theorem drun_cfg (evs : List Ev) (sp : St × Parked) : (drun sp evs).1.cfg = sp.1.cfg := by
  induction evs generalizing sp with
  | nil => rfl
  | cons e evs ih => exact (ih _).trans (dstep_cfg sp e)

/-- A freshly added torrent without a held write result satisfies `WrOK`. -/
theorem InitLike.wrOK {s : St} (h : InitLike s) (hw : NoWritten s) : WrOK s :=
  ⟨fun w a b => (by rw [(hw w a).1] at b; cases b), fun w a => (hw w a).2,
    fun _ => ⟨h.loaded, h.allocator, h.verifier, h.acceptor, h.peers⟩⟩

theorem InitLike.padInv {s : St} (h : InitLike s) : PadInv s where
  zero := ⟨h.cfg, h.bad⟩
  len := fun b hb => by rw [h.bf] at hb; cases hb
  nobit := fun i _ => by rw [h.bf]; rfl
  nobitP := fun i _ => by rw [h.persisted]; rfl
  nc := fun _ => h.completed

/-- `bad := c.dataSects` (nothing on disk yet), as `initSt` sets it, is well-formed. -/
theorem badWF_dataSects (s : St) (h : s.bad = s.cfg.dataSects) : BadWF s := by
  intro x hx
  rw [h] at hx
  exact mem_dataSects _ _ hx

end Rain.Loop
