import RainModel.Lemmas.LoopFrameRec
/-!
Invariants of M-LOOP (definitions) and the driver-level step.
-/
namespace Rain.Loop

/-- Bit `i` of an optional bitfield. -/
def bitOf (b : Option (List Bool)) (i : Nat) : Bool :=
  match b with
  | some l => l.getD i false
  | none => false

@[simp] theorem bitOf_none (i : Nat) : bitOf none i = false := rfl
@[simp] theorem bitOf_some (l : List Bool) (i : Nat) : bitOf (some l) i = l.getD i false := rfl

/-- **The** soundness statement of C01/C05: a set bit means verified bytes on disk. -/
def BitsSound (s : St) : Prop :=
  ∀ i, (∃ b, s.bf = some b ∧ b.getD i false = true) → s.diskOKi i = true

theorem bitsSound_iff (s : St) : BitsSound s ↔ ∀ i, bitOf s.bf i = true → s.diskOKi i = true := by
  unfold BitsSound
  constructor
  · intro h i hb
    cases hbf : s.bf with
    | none => simp [hbf] at hb
    | some b => exact h i ⟨b, hbf, by simpa [hbf] using hb⟩
  · rintro h i ⟨b, hb, hi⟩
    exact h i (by simpa [hb] using hi)

/-- The resume bitfield names only pieces whose bytes are on disk. -/
def PersistedSound (s : St) : Prop := ∀ i, bitOf s.persisted i = true → s.diskOKi i = true

/-- A section that holds torrent data on disk (not padding, not empty). -/
def Cfg.isData (c : Cfg) (sc : Sect) : Bool := !(c.fpads.getD sc.file false) && decide (sc.len > 0)

/-- `bad` only ever names (piece, file) pairs of real data sections. -/
def BadWF (s : St) : Prop :=
  ∀ x ∈ s.bad, ∃ sc ∈ s.cfg.sections x.1, sc.file = x.2 ∧ s.cfg.isData sc = true

/-- Well-formedness of the configuration: a piece without blocks has no data section (what `calcBlocks`
guarantees for the block lists the driver computes: blocks cover exactly the non-padding bytes). -/
def CfgWF (c : Cfg) : Prop :=
  ∀ i, (c.blocks.getD i []).isEmpty = true → ∀ sc ∈ c.sections i, c.isData sc = false

theorem diskOKi_eq_true (s : St) (i : Nat) :
    s.diskOKi i = true ↔ (∀ x ∈ s.bad, x.1 ≠ i) ∧ s.cfg.padOK i = true := by
  simp [St.diskOKi]

/-- A piece whose recorded hash is wrong is never "verified on disk". -/
theorem padOK_of_diskOKi {s : St} {i : Nat} (h : s.diskOKi i = true) : s.cfg.padOK i = true :=
  ((diskOKi_eq_true s i).1 h).2

/-- A piece that has a section in a stored file has the right recorded hash (`padHashOK` only speaks
about padding-only pieces). -/
theorem padOK_of_stored {c : Cfg} {i : Nat}
    (h : ((c.sections i).filter fun sc => !(c.fpads.getD sc.file false)) ≠ []) : c.padOK i = true := by
  unfold Cfg.padOK Cfg.padOnly
  have : ((c.sections i).filter fun sc => !(c.fpads.getD sc.file false)).isEmpty = false := by
    cases hl : (c.sections i).filter fun sc => !(c.fpads.getD sc.file false) with
    | nil => exact absurd hl h
    | cons _ _ => rfl
  rw [this]
  simp

/-- A piece without any non-padding section is fine on disk as soon as its recorded hash is the hash of zeroes. -/
theorem diskOKi_of_no_data (s : St) (h : BadWF s) (i : Nat)
    (hno : ∀ sc ∈ s.cfg.sections i, s.cfg.isData sc = false) (hp : s.cfg.padOK i = true) : s.diskOKi i = true := by
  rw [diskOKi_eq_true]
  refine ⟨?_, hp⟩
  intro x hx hxi
  obtain ⟨sc, hsc, _, hd⟩ := h x hx
  rw [hxi] at hsc
  rw [hno sc hsc] at hd
  cases hd

theorem diskOK_getD (s : St) (i : Nat) : s.diskOK.getD i false = true ↔ i < s.n ∧ s.diskOKi i = true := by
  unfold St.diskOK
  by_cases h : i < s.n
  · simp [List.getD, h]
  · simp [List.getD, h]

/-! ### Bits of `setAt` folds -/

@[simp] theorem getElem?_getD_replicate_false (n i : Nat) : (List.replicate n false)[i]?.getD false = false := by
  simp only [List.getElem?_replicate]
  split <;> rfl

theorem getD_replicate_false (n i : Nat) : (List.replicate n false).getD i false = false := by
  simp


theorem getD_setAt (l : List Bool) (i j : Nat) (v : Bool) :
    (setAt l i v).getD j false = if j = i ∧ j < l.length then v else l.getD j false := by
  unfold setAt
  simp only [List.getD_eq_getElem?_getD, List.getElem?_set]
  by_cases hji : i = j
  · subst hji
    by_cases hl : i < l.length
    · simp [hl]
    · simp [hl]
  · have : ¬ j = i := fun h => hji h.symm
    simp [hji, this]

theorem getD_foldl_setAt_true (idx : List Nat) (l : List Bool) (j : Nat) :
    (idx.foldl (fun d i => setAt d i true) l).getD j false = true →
      l.getD j false = true ∨ j ∈ idx := by
  induction idx generalizing l with
  | nil => intro h; exact Or.inl h
  | cons a idx ih =>
    intro h
    rcases ih _ h with h | h
    · rw [getD_setAt] at h
      by_cases hja : j = a ∧ j < l.length
      · exact Or.inr (by simp [hja.1])
      · rw [if_neg hja] at h; exact Or.inl h
    · exact Or.inr (List.mem_cons_of_mem _ h)

/-! ### The driver-level step: the model's step, then the implementation's choices are adopted -/

/-- One event as the driver sees it: the op, which scripted peers exist, and the implementation's
choice of piece downloads and metadata downloads after the op. -/
structure Ev where
  op : Op
  known : Nat → Bool
  impl : List ImplDl
  implI : List Nat

/-- `stepDriver` (Driver/Suites/Loop.lean) without the parsing: step, reconcile, reconcileIdl. -/
def dstep (sp : St × Parked) (e : Ev) : St × Parked :=
  let (r, parked) := step sp.1 sp.2 e.known e.op
  ((reconcileIdl (reconcile r.st e.impl).1 e.implI).1, parked)

def drun (sp : St × Parked) (evs : List Ev) : St × Parked := evs.foldl dstep sp

def Op.isMutate : Op → Bool
  | .mutate _ _ => true
  | _ => false

end Rain.Loop
