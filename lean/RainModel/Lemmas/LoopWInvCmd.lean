import RainModel.Lemmas.LoopWInvMsg
import RainModel.Lemmas.LoopStart
/-!
`WInv` (continued): commands (`stop`, `start`, `verify`), the end of the metadata download, and the
completion check.
-/
namespace Rain.Loop

/-- A state whose pieces are not loaded and that runs no piece download: only the clauses about the write
in flight (kept), the queues and the metadata downloads are left. -/
theorem WInv.unloaded {s s' : St} (h : WInv s) (h1 : s'.cfg = s.cfg) (h3 : s'.writing = s.writing)
    (h4 : s'.gen = s.gen) (hl : s'.loaded = false) (hd : s'.dls = []) (hi : s'.info = true → s'.idls = [])
    (hq : QueueOK s') : WInv s' := by
  refine ⟨hq, ?_, ?_, ?_, ?_, ?_, ?_, ?_, ?_, ?_, hi⟩
  · rw [hl]; intro hh; cases hh
  · rw [h3, h4]; exact h.wg
  · rw [hl]; intro _ _ _ hh; cases hh
  · rw [hl]; intro hh; cases hh
  · rw [hl]; intro _ _ _ hh; cases hh
  · rw [hl]; intro hh; cases hh
  · rw [hd]; intro d hd'; cases hd'
  · rw [hd]; intro hh; exact absurd rfl hh
  · intro _; exact hl

theorem queueOK_of_nil {s : St} (h : s.peers = []) : QueueOK s := by
  intro p hp; rw [h] at hp; cases hp

theorem stop_winv (s : St) (e : Bool) (h : WInv s) : WInv (s.stop e) := by
  rw [stop_eq]
  split
  · exact h
  · obtain ⟨_, _, _, f4, _, _, f7, f8, f9⟩ := stopRun_fields s e
    exact h.unloaded (by simp) (by simp) (by simp) f4 f8 (fun _ => f9) (queueOK_of_nil f7)

theorem startCore_winv (m : M) (h : WInv m.1) (hl : m.1.loaded = false) (hd : m.1.dls = []) :
    WInv (startCore m).1 :=
  h.unloaded (by simp) (by simp) (by simp) (by simpa using hl) (by simpa using hd) (by simpa using h.id)
    (h.q.of_peers (by simp))

theorem handleStopped_winv (m : M) (h : WInv m.1) (l : Life m.1) (hs : m.1.stopAnn = true) :
    WInv (handleStopped m).1 := by
  obtain ⟨_, _, i3, _, _, _, i7, _⟩ := l.idle (Or.inr hs)
  exact h.unloaded (by simp) (by simp) (by simp) (by simpa using i3) (by simpa using i7) (by simpa using h.id)
    (h.q.of_peers (by simp))

theorem start_winv (m : M) (h : WInv m.1) (l : Life m.1) : WInv (start m).1 := by
  by_cases hr : m.1.errC = true ∧ m.1.stopAnn = false
  · rw [start_of_running m hr.1 hr.2]; exact h
  · have hnr : m.1.errC = false ∨ m.1.stopAnn = true := by
      cases he : m.1.errC <;> cases hs : m.1.stopAnn <;> simp_all
    obtain ⟨_, _, i3, _, _, _, i7, _⟩ := l.idle hnr
    exact h.unloaded (by simp) (by simp) (by simp) (by simpa using i3) (by simpa using i7) (by simpa using h.id)
      (h.q.of_peers (by simp))

theorem handleVerifyCommand_winv (m : M) (h : WInv m.1) (l : Life m.1) : WInv (handleVerifyCommand m).1 := by
  unfold handleVerifyCommand
  dsimp only
  split
  · next hst =>
    have he : m.1.errC = false := by
      have := (status_stopped_iff (onSt m fun s => { s with doVerify := true }).1).1 hst
      simpa using this
    obtain ⟨_, _, i3, _, _, _, i7, _⟩ := l.idle (Or.inl he)
    apply startCore_winv
    · simp only [onSt_fst]
      exact h.unloaded rfl rfl rfl i3 i7 h.id h.q
    · simpa using i3
    · simpa using i7
  · simp only [onSt_fst]
    apply stop_winv
    exact h.frame (by wframe_eq)

theorem hmdStart_winv (m : M) (h : WInv m.1) (hl : m.1.loaded = false) (hd : m.1.dls = []) (hid : m.1.idls = []) :
    WInv (hmdStart m).1 := by
  unfold hmdStart
  split
  · simp only [onSt_fst]; exact stop_winv _ _ h
  · simp only [onSt_fst]
    split
    · exact h.unloaded (by simp) (by simp) (by simp) (by simpa using hl) (by simpa using hd) (fun _ => by simpa using hid)
        (h.q.of_peers (by simp))
    · exact h.unloaded rfl rfl rfl hl hd (fun _ => hid) h.q

theorem hmdAdopt_winv (m : M) (h : WInv m.1) (hl : m.1.loaded = false) (hd : m.1.dls = []) :
    WInv (hmdAdopt m).1 := by
  unfold hmdAdopt
  dsimp only
  repeat' split
  all_goals first
    | (simp only [onSt_fst]
       apply stop_winv
       exact h.unloaded rfl rfl rfl hl hd (fun _ => rfl) h.q)
    | exact hmdStart_winv _ (h.unloaded rfl rfl rfl hl hd (fun _ => rfl) h.q) hl hd rfl

theorem handleMetadataData_winv (m : M) (k i len : Nat) (g : Bool) (h : WInv m.1) (l : Life m.1) :
    WInv (handleMetadataData m k i len g).1 := by
  have hclose : WInv (onSt (closePeerM m k) fun s => { s with mayStartI := !s.info }).1 := by
    simp only [onSt_fst, closePeerM_fst]
    exact h.frame ((closePeer_wframe _ _).trans (by wframe_eq))
  rw [handleMetadataData_eq]
  split
  · exact h
  · next d hd =>
    unfold hmdBlock
    dsimp only
    have hne : m.1.idls ≠ [] := List.ne_nil_of_mem (List.mem_of_find?_eq_some hd)
    have hinfo : m.1.info = false := by
      cases hi : m.1.info
      · rfl
      · exact absurd (h.id hi) hne
    obtain ⟨_, _, n3, _, _⟩ := l.ni hinfo
    have hdl : m.1.dls = [] := by
      cases hdl : m.1.dls with
      | nil => rfl
      | cons a t =>
        have := (h.dl (by rw [hdl]; exact List.cons_ne_nil _ _)).1
        rw [n3] at this; cases this
    split
    · exact hclose
    split
    · exact hclose
    split
    · exact hclose
    have hmap : ∀ g : IDl → IDl, WFrame m.1 { m.1 with idls := m.1.idls.map g } := by
      intro g
      refine WFrame.of_lists rfl rfl rfl rfl rfl rfl rfl rfl rfl rfl rfl (fun d hd => ⟨d, hd, rfl⟩) ?_
        (fun p hp msg hm => Or.inr ⟨p, hp, hm⟩)
      intro h0
      have : m.1.idls = [] := h0
      simp [this]
    split
    · simp only [onSt_fst]
      exact h.frame ((hmap _).trans (updPeer_wframe _ _ _ (fun p msg hm => Or.inr hm)))
    split
    · simp only [onSt_fst, closePeerM_fst]
      exact h.frame ((hmap _).trans ((closePeer_wframe _ _).trans (by wframe_eq)))
    exact hmdAdopt_winv _ (h.frame (hmap _)) n3 hdl

/-! ### the completion check -/

theorem foldl_closeDl_dls (l : List Dl) (t : St) :
    ∀ x ∈ (l.foldl (fun s d => s.closeDl d.k) t).dls, x ∈ t.dls ∧ ∀ d ∈ l, x.k ≠ d.k := by
  induction l generalizing t with
  | nil => intro x hx; exact ⟨hx, fun d hd => by cases hd⟩
  | cons a l ih =>
    intro x hx
    obtain ⟨h1, h2⟩ := ih (t.closeDl a.k) x hx
    rw [closeDl_dls, List.mem_filter] at h1
    refine ⟨h1.1, fun d hd => ?_⟩
    rcases List.mem_cons.1 hd with rfl | hd
    · simpa using h1.2
    · exact h2 d hd

theorem foldl_closeDl_self (t : St) : (t.dls.foldl (fun s d => s.closeDl d.k) t).dls = [] := by
  rw [List.eq_nil_iff_forall_not_mem]
  intro x hx
  obtain ⟨h1, h2⟩ := foldl_closeDl_dls t.dls t x hx
  exact h2 x h1 rfl

theorem foldl_closePeer_wframe {α} (l : List α) (c : St → α → Bool) (f : α → Nat) (t : St) :
    WFrame t (l.foldl (fun s a => if c s a then s.closePeer (f a) else s) t) := by
  apply foldl_inv (fun x : St => WFrame t x) _ _ _ _ (WFrame.refl _)
  intro x a hx
  split
  · exact hx.trans (closePeer_wframe _ _)
  · exact hx

theorem checkCompletion_wframe (s : St) : WFrame s s.checkCompletion.1 := by
  unfold St.checkCompletion
  split
  · exact WFrame.refl _
  split
  · wframe_eq
  split
  · exact WFrame.refl _
  · dsimp only
    generalize hc : (if s.completeCClosed = true then s.crash "close of closed channel completeC" else s) = c
    have hc0 : WFrame s c := by
      subst hc
      split
      · wframe_eq
      · exact WFrame.refl _
    -- peers that are not interested are closed …
    have h1 : WFrame { c with completed := true, completeCClosed := true }
        (List.foldl (fun s p => if (!p.peerInterested) = true then s.closePeer p.k else s)
          { c with completed := true, completeCClosed := true } c.peers) :=
      foldl_closePeer_wframe c.peers (fun _ p => !p.peerInterested) (·.k) _
    generalize List.foldl (fun s p => if (!p.peerInterested) = true then s.closePeer p.k else s)
          { c with completed := true, completeCClosed := true } c.peers = t at h1
    -- … then every download
    have h2 := foldl_closeDl_self t
    have h3 : ∀ x ∈ (t.dls.foldl (fun s d => s.closeDl d.k) t).dls, x ∈ t.dls := by
      rw [h2]; intro x hx; cases hx
    have hf : ∀ (l : List Dl) (u : St), (l.foldl (fun s d => s.closeDl d.k) u).peers = u.peers ∧
        (l.foldl (fun s d => s.closeDl d.k) u).idls = u.idls := by
      intro l u
      exact ⟨by simp, by simp⟩
    refine ⟨by simp [h1.cfg, hc0.cfg], by simp [h1.wflag, hc0.wflag], by simp [h1.writing, hc0.writing],
      by simp [h1.gen, hc0.gen], by simp [h1.loaded, hc0.loaded], by simp [h1.verifier, hc0.verifier],
      by simp [h1.allocator, hc0.allocator], by simp [h1.bf, hc0.bf], by simp [h1.done, hc0.done],
      by simp [h1.info, hc0.info], fun _ => Or.inr h2, ?_, ?_, ?_⟩
    · rw [h2]; intro d hd; cases hd
    · intro h0
      rw [(hf _ _).2]
      exact h1.idls (hc0.idls h0)
    · intro p hp msg hm
      rw [(hf _ _).1] at hp
      rcases h1.q p hp msg hm with hn | ⟨p1, hp1, hm1⟩
      · exact Or.inl hn
      · exact hc0.q p1 hp1 msg hm1

theorem hadReady_wframe (m : M) (h : QueueOK m.1) : WFrame m.1 (hadReady m).1 := by
  unfold hadReady
  simp only [onSt_fst]
  exact (processQueued_wframe m h).trans (by wframe_eq)

theorem hadCheck_winv (m : M) (h : WInv m.1) : WInv (hadCheck m).1 := by
  have h1 : WInv m.1.checkCompletion.1 := h.frame (checkCompletion_wframe _)
  unfold hadCheck
  dsimp only
  split
  · simp only [onSt_fst]; exact stop_winv _ _ h1
  · exact h1.frame (hadReady_wframe (m.1.checkCompletion.1, m.2) h1.q)

theorem pwdFinish_winv (m : M) (h : WInv m.1) : WInv (pwdFinish m).1 := by
  have h1 : WInv m.1.checkCompletion.1 := h.frame (checkCompletion_wframe _)
  unfold pwdFinish
  dsimp only
  repeat' split
  · simp only [onSt_fst]; exact stop_winv _ _ (h1.frame (by wframe_eq))
  · simp only [onSt_fst]; exact h1.frame (by wframe_eq)
  · exact h1

end Rain.Loop
