import RainModel.Lemmas.LoopStopped
import RainModel.Lemmas.LoopMeta
import RainModel.Lemmas.LoopAdmI
/-!
C13, step form: the sizes of the running metadata downloads (`idls`).  No handler ever creates a metadata
download or changes the size of one (they are closed, cleared, or updated in place); only `reconcileIdl`
adds downloads, and an error-free `reconcileIdl` adds admissible ones.  Hence "every running metadata
download is for a size `0 < size ≤ maxMeta`" is an invariant of every history whose metadata choices the
model accepted.
-/
namespace Rain.Loop

/-- Every running metadata download has a size satisfying `P`. -/
def IdlAll (P : Nat → Prop) (s : St) : Prop := ∀ d ∈ s.idls, P d.size

variable {P : Nat → Prop}

theorem IdlAll.of_eq {s s' : St} (h : IdlAll P s) (he : s'.idls = s.idls) : IdlAll P s' := by
  intro d hd; rw [he] at hd; exact h d hd

theorem IdlAll.of_nil {s' : St} (he : s'.idls = []) : IdlAll P s' := by
  intro d hd; rw [he] at hd; cases hd

theorem IdlAll.of_sub {s s' : St} (h : IdlAll P s) (he : ∀ d ∈ s'.idls, d ∈ s.idls) : IdlAll P s' :=
  fun d hd => h d (he d hd)

theorem closePeer_idlAll (s : St) (k : Nat) (h : IdlAll P s) : IdlAll P (s.closePeer k) := by
  apply h.of_sub
  unfold St.closePeer
  split
  · exact fun _ hd => hd
  · intro d hd
    have : d ∈ s.idls.filter (·.k ≠ k) := by
      dsimp only at hd
      split at hd <;> simpa using hd
    exact (List.mem_filter.1 this).1

theorem stop_idls (s : St) (e : Bool) : (s.stop e).idls = s.idls ∨ (s.stop e).idls = [] := by
  rw [stop_eq]
  split
  · exact Or.inl rfl
  · right
    simp [stopRun, stopClear]

theorem stop_idlAll (s : St) (e : Bool) (h : IdlAll P s) : IdlAll P (s.stop e) := by
  rcases stop_idls s e with h' | h'
  · exact h.of_eq h'
  · exact IdlAll.of_nil h'

theorem checkCompletion_idlAll (s : St) (h : IdlAll P s) : IdlAll P s.checkCompletion.1 := by
  unfold St.checkCompletion
  repeat' split
  all_goals first
    | exact h
    | (refine h.of_eq ?_; simp; done)
    | skip
  all_goals
    dsimp only
    apply foldl_inv (IdlAll P)
    · intro t a ht
      exact ht.of_eq (by simp)
    · apply foldl_inv (IdlAll P)
      · intro t a ht
        split
        · exact closePeer_idlAll _ _ ht
        · exact ht
      · exact h.of_eq (by simp)

theorem closePeerM_idlAll (m : M) (k : Nat) (h : IdlAll P m.1) : IdlAll P (closePeerM m k).1 := by
  rw [closePeerM_fst]; exact closePeer_idlAll _ _ h

theorem handlePieceMessage_idlAll (m : M) (k i b l : Nat) (g : Bool) (h : IdlAll P m.1) :
    IdlAll P (handlePieceMessage m k i b l g).1 := by
  unfold handlePieceMessage
  dsimp only
  repeat' split
  all_goals first
    | exact h
    | exact closePeerM_idlAll _ _ h
    | (refine h.of_eq ?_; simp; done)

theorem handlePeerMessage_idlAll (m : M) (k : Nat) (msg : Msg) (h : IdlAll P m.1) :
    IdlAll P (handlePeerMessage m k msg).1 := by
  cases msg
  case piece i b l g => exact handlePieceMessage_idlAll m k i b l g h
  all_goals
    unfold handlePeerMessage
    dsimp only
    repeat' split
    all_goals first
      | exact h
      | exact closePeerM_idlAll _ _ h
      | (refine h.of_eq ?_; simp; done)

theorem processQueued_idlAll (m : M) (h : IdlAll P m.1) : IdlAll P (processQueued m).1 := by
  unfold processQueued
  dsimp only
  apply foldl_inv (fun x : M => IdlAll P x.1)
  · intro x k hx
    split
    · exact hx
    · apply foldl_inv (fun y : M => IdlAll P y.1)
      · intro y msg hy
        split
        · exact handlePeerMessage_idlAll y k msg hy
        · exact hy
      · exact hx.of_eq (by simp)
  · exact h

theorem hadReady_idlAll (m : M) (h : IdlAll P m.1) : IdlAll P (hadReady m).1 := by
  unfold hadReady
  exact (processQueued_idlAll m h).of_eq (by simp)

theorem hadCheck_idlAll (m : M) (h : IdlAll P m.1) : IdlAll P (hadCheck m).1 := by
  unfold hadCheck
  dsimp only
  split
  · simp only [onSt_fst]; exact stop_idlAll _ _ (checkCompletion_idlAll _ h)
  · exact hadReady_idlAll _ (checkCompletion_idlAll _ h)

theorem hadFresh_idlAll (m : M) (h : IdlAll P m.1) : IdlAll P (hadFresh m).1 := by
  unfold hadFresh
  dsimp only
  have h0 : IdlAll P (hadFreshInstall m).1 := h.of_eq (by simp)
  split
  · simp only [onSt_fst]; exact stop_idlAll _ _ (h0.of_eq (by simp))
  · exact hadCheck_idlAll _ h0

theorem handleAllocationDone_idlAll (m : M) (ex mi : Bool) (h : IdlAll P m.1) :
    IdlAll P (handleAllocationDone m ex mi).1 := by
  rw [handleAllocationDone_eq]
  dsimp only
  have h0 : IdlAll P (hadForget (hadInstall m) mi).1 := h.of_eq (by simp)
  repeat' split
  all_goals first
    | exact hadCheck_idlAll _ (h0.of_eq (by simp))
    | exact hadFresh_idlAll _ h0
    | exact h0.of_eq (by simp)

theorem allocatorRun_idlAll (m : M) (h : IdlAll P m.1) : IdlAll P (allocatorRun m).1 := by
  unfold allocatorRun
  dsimp only
  split
  · simp only [onSt_fst]; exact stop_idlAll _ _ (h.of_eq (by simp))
  · exact handleAllocationDone_idlAll _ _ _ (h.of_eq (by simp))

theorem handleVerificationDone_idlAll (m : M) (h : IdlAll P m.1) : IdlAll P (handleVerificationDone m).1 := by
  rw [handleVerificationDone_eq]
  dsimp only
  have h0 : IdlAll P (hvdInstall m).1 := h.of_eq (by simp)
  split
  · simp only [onSt_fst]; exact stop_idlAll _ _ (h0.of_eq (by simp))
  · exact hadCheck_idlAll _ (h0.of_eq (by simp))

theorem pwdFinish_idlAll (m : M) (h : IdlAll P m.1) : IdlAll P (pwdFinish m).1 := by
  unfold pwdFinish
  dsimp only
  have h1 := checkCompletion_idlAll _ h
  repeat' split
  all_goals first
    | exact h1
    | (simp only [onSt_fst]; exact stop_idlAll _ _ (h1.of_eq (by simp)))
    | (refine h1.of_eq ?_; simp; done)

theorem handlePieceWriteDone_idlAll (m : M) (w : WriteJob) (e : Bool) (h : IdlAll P m.1) :
    IdlAll P (handlePieceWriteDone m w e).1 := by
  rw [handlePieceWriteDone_eq]
  dsimp only
  have h0 : IdlAll P (pwdReset m w).1 := h.of_eq (by simp)
  split
  · unfold pwdBan
    dsimp only
    exact (closePeerM_idlAll _ w.src h0).of_eq (by simp)
  split
  · exact h0
  · split
    · simp only [onSt_fst]; exact stop_idlAll _ _ h0
    · have h1 : IdlAll P (pwdDone (pwdReset m w) w).1 := h0.of_eq (by simp)
      split
      · exact h1.of_eq (by simp)
      · unfold pwdOk
        exact pwdFinish_idlAll _ (h1.of_eq (by simp))

theorem writerRun_idlAll (m : M) (w : WriteJob) (h : IdlAll P m.1) : IdlAll P (writerRun m w).1 := by
  unfold writerRun
  dsimp only
  repeat' split
  all_goals first
    | exact handlePieceWriteDone_idlAll _ _ _ h
    | exact handlePieceWriteDone_idlAll _ _ _ (h.of_eq (by simp))
    | exact h.of_eq (by simp)

theorem handleStopped_idlAll (m : M) (h : IdlAll P m.1) : IdlAll P (handleStopped m).1 := h.of_eq (by simp)

theorem runWorkers_idlAll (fuel : Nat) (m : M) (h : IdlAll P m.1) : IdlAll P (runWorkers fuel m).1 := by
  induction fuel generalizing m with
  | zero => exact h
  | succ n ih =>
    unfold runWorkers
    dsimp only
    repeat' split
    all_goals first
      | exact h
      | exact ih _ (handleStopped_idlAll _ h)
      | exact ih _ (allocatorRun_idlAll _ h)
      | exact ih _ (handleVerificationDone_idlAll _ h)
      | exact ih _ (handlePieceWriteDone_idlAll _ _ _ h)
      | exact ih _ (writerRun_idlAll _ _ h)

theorem deliverParked_idlAll (m : M) (p : Parked) (h : IdlAll P m.1) : IdlAll P (deliverParked m p).1.1 := by
  unfold deliverParked
  repeat' split
  all_goals first
    | exact h
    | exact runWorkers_idlAll _ _ (handlePieceMessage_idlAll _ _ _ _ _ _ h)

theorem hmdStart_idls (m : M) : (hmdStart m).1.idls = m.1.idls ∨ (hmdStart m).1.idls = [] := by
  unfold hmdStart
  split
  · simp only [onSt_fst]; exact stop_idls _ _
  · left; simp only [onSt_fst]; split <;> simp

/-- Whatever `parseInfo` says about the downloaded info dictionary, no metadata download is left. -/
theorem hmdAdopt_idls (m : M) : (hmdAdopt m).1.idls = [] := by
  unfold hmdAdopt
  dsimp only
  repeat' split
  all_goals first
    | (simp only [onSt_fst]; rcases stop_idls ({ m.1 with idls := [] } : St) true with h | h <;> rw [h])
    | (rcases hmdStart_idls (onSt (onSt m fun s => { s with idls := [] }) fun s => { s with info := true, metaDone := true })
         with h | h <;> rw [h] <;> rfl)

theorem hmdAdopt_idlAll (m : M) : IdlAll P (hmdAdopt m).1 := IdlAll.of_nil (hmdAdopt_idls m)

theorem handleMetadataData_idlAll (m : M) (k i len : Nat) (g : Bool) (h : IdlAll P m.1) :
    IdlAll P (handleMetadataData m k i len g).1 := by
  rw [handleMetadataData_eq]
  split
  · exact h
  · next d hd =>
    unfold hmdBlock
    dsimp only
    have hmap : ∀ d' : IDl, d'.size = d.size →
        IdlAll P ({ m.1 with idls := m.1.idls.map fun x => if x.k = k then d' else x } : St) := by
      intro d' hs x hx
      simp only [List.mem_map] at hx
      obtain ⟨y, hy, rfl⟩ := hx
      split
      · rw [hs]; exact h d (List.mem_of_find?_eq_some hd)
      · exact h y hy
    have hcl : ∀ x : M, IdlAll P x.1 → IdlAll P (onSt (closePeerM x k) fun s => { s with mayStartI := !s.info }).1 := by
      intro x hx
      simp only [onSt_fst]
      exact (closePeerM_idlAll x k hx).of_eq rfl
    split
    · exact hcl _ h
    split
    · exact hcl _ h
    split
    · exact hcl _ h
    split
    · refine (hmap { d with pending := d.pending - 1, blocks := d.blocks.set i (some g) } rfl).of_eq ?_
      simp
    split
    · refine hcl _ ((hmap { d with pending := d.pending - 1, blocks := d.blocks.set i (some g) } rfl).of_eq ?_)
      simp
    exact hmdAdopt_idlAll _

theorem handleMetadataReject_idlAll (m : M) (k : Nat) (h : IdlAll P m.1) :
    IdlAll P (handleMetadataReject m k).1 := by
  unfold handleMetadataReject
  split
  · simp only [onSt_fst]; exact (closePeerM_idlAll _ k h).of_eq (by simp)
  · exact h

theorem handlePeerSnubbed_idlAll (m : M) (k : Nat) (h : IdlAll P m.1) : IdlAll P (handlePeerSnubbed m k).1 := by
  unfold handlePeerSnubbed
  dsimp only
  repeat' split
  all_goals first
    | exact h
    | (refine h.of_eq ?_; simp; done)
    | skip
  all_goals
    intro x hx
    simp only [onSt_fst, updPeer_idls, List.mem_map] at hx
    obtain ⟨y, hy, rfl⟩ := hx
    split
    · exact h y hy
    · exact h y hy

theorem handleVerifyCommand_idlAll (m : M) (h : IdlAll P m.1) : IdlAll P (handleVerifyCommand m).1 := by
  unfold handleVerifyCommand
  dsimp only
  split
  · exact h.of_eq (by simp)
  · simp only [onSt_fst]; exact stop_idlAll _ _ (h.of_eq rfl)

theorem handle_idlAll (s : St) (p : Parked) (kn : Nat → Bool) (op : Op) (h : IdlAll P s) :
    IdlAll P (handle s p kn op).1.1 := by
  unfold handle
  repeat' split
  all_goals first
    | exact h
    | exact handlePieceMessage_idlAll (s, []) _ _ _ _ _ h
    | exact handlePeerMessage_idlAll (s, []) _ _ h
    | exact handleMetadataData_idlAll (s, []) _ _ _ _ h
    | exact handleMetadataReject_idlAll (s, []) _ h
    | exact handlePeerSnubbed_idlAll (s, []) _ h
    | exact closePeerM_idlAll (s, []) _ h
    | (simp only [onSt_fst]; exact (stop_idlAll { s with doVerify := false } false (h.of_eq rfl)).of_eq rfl)
    | (simp only [onSt_fst]; exact stop_idlAll { s with doVerify := false } false (h.of_eq rfl))
    | exact handleVerifyCommand_idlAll ({ s with persisted := none }, []) (h.of_eq rfl)
    | (simp only [onSt_fst]; exact (handleVerifyCommand_idlAll ({ s with persisted := none }, []) (h.of_eq rfl)).of_eq rfl)
    | (next heq => have hm := congrArg Prod.fst heq; simp only at hm; rw [← hm]; refine h.of_eq ?_; simp; done)
    | (refine h.of_eq ?_; simp; done)

/-- **No step creates a metadata download or changes the size of one.** -/
theorem step_idlAll (s : St) (p : Parked) (kn : Nat → Bool) (op : Op) (h : IdlAll P s) :
    IdlAll P (step s p kn op).1.st := by
  rw [step_st]
  have h0 : IdlAll P { s with sto := [], mayStart := [], closedDl := [], mayStartI := false } := h.of_eq rfl
  have h1 := handle_idlAll _ p kn op h0
  have h2 := runWorkers_idlAll 12 _ h1
  split
  · exact deliverParked_idlAll _ _ h2
  · exact h2

/-- The size bound of C13 as a state invariant: every running metadata download is for a metadata size
`0 < size ≤ maxMeta` (`maxMeta` = the configured `MaxMetadataSize`). -/
def IdlInv (s : St) : Prop := ∀ d ∈ s.idls, d.size ≠ 0 ∧ d.size ≤ s.maxMeta

theorem idlInv_iff (s : St) : IdlInv s ↔ IdlAll (fun n => n ≠ 0 ∧ n ≤ s.maxMeta) s := Iff.rfl

theorem step_idlInv (s : St) (p : Parked) (kn : Nat → Bool) (op : Op) (h : IdlInv s) :
    IdlInv (step s p kn op).1.st := by
  have := step_idlAll (P := fun n => n ≠ 0 ∧ n ≤ s.maxMeta) s p kn op h
  intro d hd
  rw [step_maxMeta]
  exact this d hd

theorem reconcile_idlInv (s : St) (impl : List ImplDl) (h : IdlInv s) : IdlInv (reconcile s impl).1 := by
  intro d hd
  rw [reconcile_maxMeta]
  rw [reconcile_idls] at hd
  exact h d hd

/-- The implementation's choice of metadata downloads, when `reconcileIdl` accepts it, keeps the bound. -/
theorem reconcileIdl_idlInv (s : St) (impl : List Nat) (h : IdlInv s) (ha : (reconcileIdl s impl).2 = []) :
    IdlInv (reconcileIdl s impl).1 := by
  intro d hd
  rw [reconcileIdl_maxMeta]
  rcases reconcileIdl_idls s impl ha d hd with h1 | ⟨_, _, p, _, _, _, _, h0, hmax⟩
  · exact h d h1
  · exact ⟨h0, hmax⟩

-- `Ev.admissibleI sp e` (the implementation's choice of metadata downloads after event `e` was accepted by
-- `reconcileIdl`) and `drunAdmissibleI` (… after every event of the run): `Lemmas/LoopAdmI.lean`.

theorem dstep_idlInv (sp : St × Parked) (e : Ev) (h : IdlInv sp.1) (ha : e.admissibleI sp) :
    IdlInv (dstep sp e).1 := by
  unfold dstep
  exact reconcileIdl_idlInv _ _ (reconcile_idlInv _ _ (step_idlInv sp.1 sp.2 e.known e.op h)) ha

theorem drun_idlInv (evs : List Ev) (sp : St × Parked) (h : IdlInv sp.1) (ha : drunAdmissibleI sp evs) :
    IdlInv (drun sp evs).1 := by
  induction evs generalizing sp with
  | nil => exact h
  | cons e evs ih => exact ih _ (dstep_idlInv sp e h ha.1) ha.2

end Rain.Loop
