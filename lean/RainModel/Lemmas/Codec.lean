import RainModel.Model.Codec
import RainModel.Lemmas.Bencode
/-! Helper lemmas for the wire codec (C11, C08 reader half). -/
namespace Rain.Codec
open Rain.Bencode (Bytes ExtPayload take?)

theorem get32_be32 (n : Nat) (h : n < 4294967296) (r : Bytes) : get32 (be32 n ++ r) = some (n, r) := by
  simp only [be32, get32, rd32, List.cons_append, List.nil_append]
  congr 2
  omega

theorem get16_be16 (n : Nat) (h : n < 65536) (r : Bytes) : get16 (be16 n ++ r) = some (n, r) := by
  simp only [be16, get16, List.cons_append, List.nil_append]
  congr 2
  omega

theorem take?_append (a r : Bytes) : take? a.length (a ++ r) = some (a, r) := by
  simp [take?]

theorem take?_length {n : Nat} {bs a r : Bytes} (h : take? n bs = some (a, r)) :
    bs = a ++ r ∧ a.length = n := by
  unfold take? at h
  split at h
  · cases h
    refine ⟨(List.take_append_drop n bs).symm, ?_⟩
    simp [List.length_take]; omega
  · cases h

theorem get32x3_be32 (i b l : Nat) (hi : i < 4294967296) (hb : b < 4294967296) (hl : l < 4294967296) (r : Bytes) :
    get32x3 (be32 i ++ (be32 b ++ (be32 l ++ r))) = some (i, b, l, r) := by
  simp only [get32x3, get32_be32 _ hi, get32_be32 _ hb, get32_be32 _ hl]

theorem be32_length (n : Nat) : (be32 n).length = 4 := rfl
theorem be16_length (n : Nat) : (be16 n).length = 2 := rfl

/-- Header of a frame whose length prefix is `len + 1`. -/
theorem step_frame (max len id : Nat) (hl : len + 1 < 4294967296) (r : Bytes) :
    step max (be32 (1 + len) ++ id :: r) =
      if len > max then .stop .oversize [] else dispatch id len r := by
  have h1 : 1 + len < 4294967296 := by omega
  rw [step, get32_be32 _ h1]
  have h0 : ¬ (1 + len = 0) := by omega
  have h2 : 1 + len - 1 = len := by omega
  simp only [h0, if_false, h2]

/-- Well-formed message relative to the reader's limit `max`: fields fit their wire width, the
body fits `max`, request length and block length are within 16 KiB, an extension message carries
the extended id its payload type is dispatched on and a well-formed payload record
(`Bencode.WFPayload`: distinct handshake map keys with `uint8` values, non-negative sizes, integers
within `int` / `uint32`). -/
def WFMsg (max : Nat) : Msg → Prop
  | .choke | .unchoke | .interested | .notInterested | .haveAll | .haveNone => True
  | .have i | .allowedFast i => i < 4294967296 ∧ 4 ≤ max
  | .bitfield d => d.length ≤ max ∧ d.length + 1 < 4294967296
  | .request i b l => i < 4294967296 ∧ b < 4294967296 ∧ l ≤ 16384 ∧ 12 ≤ max
  | .cancel i b l | .reject i b l => i < 4294967296 ∧ b < 4294967296 ∧ l < 4294967296 ∧ 12 ≤ max
  | .piece i b d => i < 4294967296 ∧ b < 4294967296 ∧ d.length ≤ 16384 ∧ 8 + d.length ≤ max
  | .port p => p < 65536 ∧ 2 ≤ max
  | .ext eid p => eid = Bencode.kindId p ∧ 1 + (Bencode.encPayload p).length ≤ max
      ∧ (Bencode.encPayload p).length + 2 < 4294967296
      ∧ Bencode.WFPayload p

/-- Allocation effects of decoding the frame of `m`. -/
def effsOf : Msg → List Eff
  | .bitfield d => [.make d.length]
  | .piece _ _ d => [.poolGet d.length]
  | .ext _ p => .make (1 + (Bencode.encPayload p).length) ::
      (Bencode.parseExt (Bencode.kindId p) (Bencode.encPayload p)).2.map .make
  | _ => []

theorem step_encode (max : Nat) (m : Msg) (h : WFMsg max m) (rest : Bytes) :
    step max (encode m ++ rest) = .msg m (effsOf m) rest := by
  cases m with
  | choke | unchoke | interested | notInterested | haveAll | haveNone =>
    simp only [encode, body, msgId, List.length_nil, List.append_assoc, List.cons_append, List.nil_append]
    rw [step_frame _ _ _ (by omega)]
    simp [dispatch, effsOf]
  | «have» i =>
    obtain ⟨hi, hm⟩ := h
    have hb : (body (.have i)).length = 4 := rfl
    rw [encode, hb, List.append_assoc, List.cons_append, step_frame _ _ _ (by omega)]
    have : ¬ (4 > max) := by omega
    simp [this, msgId, body, dispatch, get32_be32 _ hi, effsOf]
  | allowedFast i =>
    obtain ⟨hi, hm⟩ := h
    have hb : (body (.allowedFast i)).length = 4 := rfl
    rw [encode, hb, List.append_assoc, List.cons_append, step_frame _ _ _ (by omega)]
    have : ¬ (4 > max) := by omega
    simp [this, msgId, body, dispatch, get32_be32 _ hi, effsOf]
  | bitfield d =>
    obtain ⟨hm, hl⟩ := h
    rw [encode, List.append_assoc, List.cons_append, step_frame _ _ _ (by simpa [body] using hl)]
    have : ¬ ((body (.bitfield d)).length > max) := by simpa [body] using hm
    simp [msgId, body, dispatch, take?_append, effsOf, hm]
  | request i b l =>
    obtain ⟨hi, hb, hl, hm⟩ := h
    have hbl : (body (.request i b l)).length = 12 := rfl
    rw [encode, hbl, List.append_assoc, List.cons_append, step_frame _ _ _ (by omega)]
    have h1 : ¬ (12 > max) := by omega
    have h2 : ¬ (l > maxBlock) := by simp [maxBlock]; omega
    simp [h1, h2, msgId, body, dispatch, get32x3_be32 _ _ _ hi hb (by omega : l < 4294967296), effsOf]
  | cancel i b l =>
    obtain ⟨hi, hb, hl, hm⟩ := h
    have hbl : (body (.cancel i b l)).length = 12 := rfl
    rw [encode, hbl, List.append_assoc, List.cons_append, step_frame _ _ _ (by omega)]
    have h1 : ¬ (12 > max) := by omega
    simp [h1, msgId, body, dispatch, get32x3_be32 _ _ _ hi hb hl, effsOf]
  | reject i b l =>
    obtain ⟨hi, hb, hl, hm⟩ := h
    have hbl : (body (.reject i b l)).length = 12 := rfl
    rw [encode, hbl, List.append_assoc, List.cons_append, step_frame _ _ _ (by omega)]
    have h1 : ¬ (12 > max) := by omega
    simp [h1, msgId, body, dispatch, get32x3_be32 _ _ _ hi hb hl, effsOf]
  | port p =>
    obtain ⟨hp, hm⟩ := h
    have hbl : (body (.port p)).length = 2 := rfl
    rw [encode, hbl, List.append_assoc, List.cons_append, step_frame _ _ _ (by omega)]
    have h1 : ¬ (2 > max) := by omega
    simp [h1, msgId, body, dispatch, get16_be16 _ hp, effsOf]
  | piece i b d =>
    obtain ⟨hi, hb, hd, hm⟩ := h
    have hbl : (body (.piece i b d)).length = 8 + d.length := by simp [body, be32_length]; omega
    rw [encode, hbl, List.append_assoc, List.cons_append, step_frame _ _ _ (by omega)]
    have h1 : ¬ (8 + d.length > max) := by omega
    have h3 : (8 + d.length + 4294967288) % 4294967296 = d.length := by omega
    have h2 : ¬ (maxBlock < d.length) := by simp [maxBlock]; omega
    simp only [h1, if_false, msgId, body, dispatch, List.append_assoc]
    have h5 : ¬ (poolBufLen < d.length) := by simp [poolBufLen]; omega
    simp [get32_be32 _ hi, get32_be32 _ hb, pieceLen, h3, h2, h5, take?_append, effsOf]
  | ext eid p =>
    obtain ⟨he, hm, hl, hwp⟩ := h
    have hrt := Bencode.parseExt_encPayload p hwp
    subst he
    have hbl : (body (.ext (Bencode.kindId p) p)).length = 1 + (Bencode.encPayload p).length := by
      simp [body]; omega
    rw [encode, hbl, List.append_assoc, List.cons_append, step_frame _ _ _ (by omega)]
    have h1 : ¬ (1 + (Bencode.encPayload p).length > max) := by omega
    have h4 : take? (1 + (Bencode.encPayload p).length)
        (body (.ext (Bencode.kindId p) p) ++ rest) = some (body (.ext (Bencode.kindId p) p), rest) := by
      rw [← hbl]; exact take?_append _ _
    simp only [h1, if_false, msgId, dispatch, h4]
    simp only [body]
    generalize hq : Bencode.parseExt (Bencode.kindId p) (Bencode.encPayload p) = q at hrt
    obtain ⟨q1, q2⟩ := q
    simp at hrt
    subst hrt
    simp [effsOf, hq]
theorem get32_len {r r' : Bytes} {x : Nat} (h : get32 r = some (x, r')) : r'.length + 4 = r.length := by
  unfold get32 at h
  split at h
  · cases h; simp
  · cases h

theorem get16_len {r r' : Bytes} {x : Nat} (h : get16 r = some (x, r')) : r'.length + 2 = r.length := by
  unfold get16 at h
  split at h
  · cases h; simp
  · cases h

theorem get32x3_len {r r' : Bytes} {i b l : Nat} (h : get32x3 r = some (i, b, l, r')) : r'.length + 12 = r.length := by
  unfold get32x3 at h
  split at h
  · cases h
  · rename_i i1 r1 h1
    split at h
    · cases h
    · rename_i b1 r2 h2
      split at h
      · cases h
      · rename_i l1 r3 h3
        cases h
        have := get32_len h1; have := get32_len h2; have := get32_len h3
        omega

/-- Per-step invariant: the stream shrinks, allocations and delivered messages are within the
limits, the step does not end in a panic or by running out of model fuel. -/
def StepOk (max : Nat) (r : Bytes) : Step → Prop
  | .msg m e rest => rest.length ≤ r.length ∧ (∀ x ∈ e, EffOk max x) ∧ MsgOk max m
  | .skip rest => rest.length ≤ r.length
  | .stop err e => (∀ x ∈ e, EffOk max x) ∧ err ≠ .panic ∧ err ≠ .fuel

theorem ext_ls_le {eid : Nat} {payload : Bytes} {res : Option ExtPayload} {ls : List Nat}
    (h : Bencode.parseExt eid payload = (res, ls)) : ∀ a ∈ ls, a ≤ payload.length := by
  have := Bencode.parseExt_strLens eid payload
  rw [h] at this
  exact this

attribute [local irreducible] get32 get16 get32x3 Bencode.take? Bencode.parseExt pieceLen in
theorem dispatch_ok (max id len : Nat) (r : Bytes) (hlen : len ≤ max) : StepOk max r (dispatch id len r) := by
  fun_cases dispatch id len r
  all_goals simp_all [StepOk, EffOk, MsgOk]
  all_goals first
    | (have h1 := get32_len (r := r) (by assumption)
       have h2 := get32_len (r' := _) (by assumption)
       have h3 := Bencode.take?_len' (n := pieceLen len) (by assumption)
       omega)
    | (have h1 := get32_len (r := r) (by assumption); omega)
    | (have h1 := get16_len (r := r) (by assumption); omega)
    | (have h1 := get32x3_len (r := r) (by assumption); omega)
    | (have h1 := Bencode.take?_len' (n := len) (bs := r) (by assumption)
       have h2 := ext_ls_le (by assumption)
       simp at h1
       intro a ha
       have := h2 a ha
       omega)
    | (have h1 := Bencode.take?_len' (n := len) (bs := r) (by assumption)
       have h2 := ext_ls_le (by assumption)
       simp at h1
       refine ⟨by omega, fun a ha => ?_⟩
       have := h2 a ha
       omega)
    | (have h1 := Bencode.take?_len' (n := len) (bs := r) (by assumption); omega)
    | (simp [maxBlock, poolBufLen] at *; omega)
    | skip

def StepOkS (max : Nat) (bs : Bytes) : Step → Prop
  | .msg m e rest => rest.length < bs.length ∧ (∀ x ∈ e, EffOk max x) ∧ MsgOk max m
  | .skip rest => rest.length < bs.length
  | .stop err e => (∀ x ∈ e, EffOk max x) ∧ err ≠ .panic ∧ err ≠ .fuel

theorem step_ok (max : Nat) (bs : Bytes) : StepOkS max bs (step max bs) := by
  unfold step
  split
  · simp [StepOkS]
  · rename_i len0 r0 h0
    have hl := get32_len h0
    split
    · simp [StepOkS]; omega
    · split
      · simp [StepOkS]
      · rename_i id r
        split
        · simp [StepOkS]
        · rename_i hmax
          have := dispatch_ok max id (len0 - 1) r (by omega)
          revert this
          cases dispatch id (len0 - 1) r <;> simp [StepOk, StepOkS] <;> intros <;> simp_all <;> omega

theorem runAux_ok (max : Nat) : ∀ (f : Nat) (bs : Bytes), bs.length < f →
    (runAux max f bs).err ≠ .panic ∧ (runAux max f bs).err ≠ .fuel ∧
    (∀ x ∈ (runAux max f bs).effs, EffOk max x) ∧ (∀ m ∈ (runAux max f bs).msgs, MsgOk max m) := by
  intro f
  induction f with
  | zero => intro bs h; omega
  | succ f ih =>
    intro bs h
    have hs := step_ok max bs
    unfold runAux
    cases hstep : step max bs with
    | stop e effs =>
      rw [hstep] at hs
      simp [StepOkS] at hs
      simp [hs]
      exact hs.1
    | skip rest =>
      rw [hstep] at hs
      simp [StepOkS] at hs
      exact ih rest (by omega)
    | msg m e rest =>
      rw [hstep] at hs
      simp [StepOkS] at hs
      have := ih rest (by omega)
      simp
      refine ⟨this.1, this.2.1, ?_, ?_⟩
      · intro x hx
        rcases hx with hx | hx
        · exact hs.2.1 x hx
        · exact this.2.2.1 x hx
      · exact ⟨hs.2.2, this.2.2.2⟩

theorem runAux_fuel (max : Nat) : ∀ (f1 f2 : Nat) (bs : Bytes), bs.length < f1 → bs.length < f2 →
    runAux max f1 bs = runAux max f2 bs := by
  intro f1
  induction f1 with
  | zero => intro f2 bs h; omega
  | succ f1 ih =>
    intro f2 bs h1 h2
    cases f2 with
    | zero => omega
    | succ f2 =>
      have hs := step_ok max bs
      unfold runAux
      cases hstep : step max bs with
      | stop e effs => rfl
      | skip rest =>
        rw [hstep] at hs; simp [StepOkS] at hs
        exact ih f2 rest (by omega) (by omega)
      | msg m e rest =>
        rw [hstep] at hs; simp [StepOkS] at hs
        simp only
        rw [ih f2 rest (by omega) (by omega)]

/-- The reader loop as an equation on streams (fuel eliminated). -/
theorem run_eq (max : Nat) (bs : Bytes) :
    run max bs = match step max bs with
      | .stop e effs => ⟨[], effs, e⟩
      | .skip rest => run max rest
      | .msg m effs rest => ⟨m :: (run max rest).msgs, effs ++ (run max rest).effs, (run max rest).err⟩ := by
  have hs := step_ok max bs
  unfold run
  rw [runAux]
  cases hstep : step max bs with
  | stop e effs => rfl
  | skip rest =>
    rw [hstep] at hs; simp [StepOkS] at hs
    exact runAux_fuel max _ _ rest (by omega) (by omega)
  | msg m e rest =>
    rw [hstep] at hs; simp [StepOkS] at hs
    simp only
    rw [runAux_fuel max _ (rest.length + 1) rest (by omega) (by omega)]

theorem run_nil (max : Nat) : run max [] = ⟨[], [], .eof⟩ := by
  rw [run_eq]; rfl

theorem run_encode_cons (max : Nat) (m : Msg) (h : WFMsg max m) (rest : Bytes) :
    run max (encode m ++ rest) =
      ⟨m :: (run max rest).msgs, effsOf m ++ (run max rest).effs, (run max rest).err⟩ := by
  rw [run_eq, step_encode max m h rest]

theorem run_keepAlive (max : Nat) (rest : Bytes) : run max (keepAlive ++ rest) = run max rest := by
  rw [run_eq]; rfl

theorem run_encodeAll (max : Nat) (ms : List Msg) (h : ∀ m ∈ ms, WFMsg max m) (tail : Bytes) :
    run max (encodeAll ms ++ tail) =
      ⟨ms ++ (run max tail).msgs, ms.flatMap effsOf ++ (run max tail).effs, (run max tail).err⟩ := by
  induction ms with
  | nil => simp [encodeAll]
  | cons m r ih =>
    have hm := h m (by simp)
    have hr : ∀ x ∈ r, WFMsg max x := fun x hx => h x (by simp [hx])
    simp only [encodeAll, List.flatMap_cons, List.append_assoc]
    rw [run_encode_cons max m hm]
    have := ih hr
    simp only [encodeAll] at this
    rw [this]
    simp

end Rain.Codec
