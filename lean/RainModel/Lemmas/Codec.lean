import RainModel.Model.Codec
/-! Helper lemmas for the wire codec (C11, C08 reader half). -/
namespace Rain.Codec
open Rain.Bencode (Bytes ExtPayload take?)

theorem get32_be32 (n : Nat) (h : n < 4294967296) (r : Bytes) : get32 (be32 n ++ r) = some (n, r) := by
  simp only [be32, get32, rd32, List.cons_append, List.nil_append]
  congr 2
  omega

theorem get16_be16 (n : Nat) (h : n < 65536) (r : Bytes) : get16 (be16 n ++ r) = some (n, r) := by
  simp only [be16, get16, List.cons_append, List.nil_append]
  congr 2
  omega

theorem take?_append (a r : Bytes) : take? a.length (a ++ r) = some (a, r) := by
  simp [take?]

theorem take?_length {n : Nat} {bs a r : Bytes} (h : take? n bs = some (a, r)) :
    bs = a ++ r ∧ a.length = n := by
  unfold take? at h
  split at h
  · cases h
    refine ⟨(List.take_append_drop n bs).symm, ?_⟩
    simp [List.length_take]; omega
  · cases h

theorem get32x3_be32 (i b l : Nat) (hi : i < 4294967296) (hb : b < 4294967296) (hl : l < 4294967296) (r : Bytes) :
    get32x3 (be32 i ++ (be32 b ++ (be32 l ++ r))) = some (i, b, l, r) := by
  simp only [get32x3, get32_be32 _ hi, get32_be32 _ hb, get32_be32 _ hl]

theorem be32_length (n : Nat) : (be32 n).length = 4 := rfl
theorem be16_length (n : Nat) : (be16 n).length = 2 := rfl

/-- Header of a frame whose length prefix is `len + 1`. -/
theorem step_frame (max len id : Nat) (hl : len + 1 < 4294967296) (r : Bytes) :
    step max (be32 (1 + len) ++ id :: r) =
      if len > max then .stop .oversize [] else dispatch id len r := by
  have h1 : 1 + len < 4294967296 := by omega
  rw [step, get32_be32 _ h1]
  have h0 : ¬ (1 + len = 0) := by omega
  have h2 : 1 + len - 1 = len := by omega
  simp only [h0, if_false, h2]

/-- Well-formed message relative to the reader's limit `max`: fields fit their wire width, the
body fits `max`, request length and block length are within 16 KiB, an extension message carries
the extended id its payload type is dispatched on and its payload survives the bencode layer
(`Bencode.RoundTrips`, discharged for well-formed payloads by `bencode_roundtrip`). -/
def WFMsg (max : Nat) : Msg → Prop
  | .choke | .unchoke | .interested | .notInterested | .haveAll | .haveNone => True
  | .have i | .allowedFast i => i < 4294967296 ∧ 4 ≤ max
  | .bitfield d => d.length ≤ max ∧ d.length + 1 < 4294967296
  | .request i b l => i < 4294967296 ∧ b < 4294967296 ∧ l ≤ 16384 ∧ 12 ≤ max
  | .cancel i b l | .reject i b l => i < 4294967296 ∧ b < 4294967296 ∧ l < 4294967296 ∧ 12 ≤ max
  | .piece i b d => i < 4294967296 ∧ b < 4294967296 ∧ d.length ≤ 16384 ∧ 8 + d.length ≤ max
  | .port p => p < 65536 ∧ 2 ≤ max
  | .ext eid p => eid = Bencode.kindId p ∧ 1 + (Bencode.encPayload p).length ≤ max
      ∧ (Bencode.encPayload p).length + 2 < 4294967296
      ∧ (Bencode.parseExt (Bencode.kindId p) (Bencode.encPayload p)).1 = some p

/-- Allocation effects of decoding the frame of `m`. -/
def effsOf : Msg → List Eff
  | .bitfield d => [.make d.length]
  | .piece _ _ d => [.poolGet d.length]
  | .ext _ p => .make (1 + (Bencode.encPayload p).length) ::
      (Bencode.parseExt (Bencode.kindId p) (Bencode.encPayload p)).2.map .make
  | _ => []

theorem step_encode (max : Nat) (m : Msg) (h : WFMsg max m) (rest : Bytes) :
    step max (encode m ++ rest) = .msg m (effsOf m) rest := by
  cases m with
  | choke | unchoke | interested | notInterested | haveAll | haveNone =>
    simp only [encode, body, msgId, List.length_nil, List.append_assoc, List.cons_append, List.nil_append]
    rw [step_frame _ _ _ (by omega)]
    simp [dispatch, effsOf]
  | «have» i =>
    obtain ⟨hi, hm⟩ := h
    have hb : (body (.have i)).length = 4 := rfl
    rw [encode, hb, List.append_assoc, List.cons_append, step_frame _ _ _ (by omega)]
    have : ¬ (4 > max) := by omega
    simp [this, msgId, body, dispatch, get32_be32 _ hi, effsOf]
  | allowedFast i =>
    obtain ⟨hi, hm⟩ := h
    have hb : (body (.allowedFast i)).length = 4 := rfl
    rw [encode, hb, List.append_assoc, List.cons_append, step_frame _ _ _ (by omega)]
    have : ¬ (4 > max) := by omega
    simp [this, msgId, body, dispatch, get32_be32 _ hi, effsOf]
  | bitfield d =>
    obtain ⟨hm, hl⟩ := h
    rw [encode, List.append_assoc, List.cons_append, step_frame _ _ _ (by simpa [body] using hl)]
    have : ¬ ((body (.bitfield d)).length > max) := by simpa [body] using hm
    simp [msgId, body, dispatch, take?_append, effsOf, hm]
  | request i b l =>
    obtain ⟨hi, hb, hl, hm⟩ := h
    have hbl : (body (.request i b l)).length = 12 := rfl
    rw [encode, hbl, List.append_assoc, List.cons_append, step_frame _ _ _ (by omega)]
    have h1 : ¬ (12 > max) := by omega
    have h2 : ¬ (l > maxBlock) := by simp [maxBlock]; omega
    simp [h1, h2, msgId, body, dispatch, get32x3_be32 _ _ _ hi hb (by omega : l < 4294967296), effsOf]
  | cancel i b l =>
    obtain ⟨hi, hb, hl, hm⟩ := h
    have hbl : (body (.cancel i b l)).length = 12 := rfl
    rw [encode, hbl, List.append_assoc, List.cons_append, step_frame _ _ _ (by omega)]
    have h1 : ¬ (12 > max) := by omega
    simp [h1, msgId, body, dispatch, get32x3_be32 _ _ _ hi hb hl, effsOf]
  | reject i b l =>
    obtain ⟨hi, hb, hl, hm⟩ := h
    have hbl : (body (.reject i b l)).length = 12 := rfl
    rw [encode, hbl, List.append_assoc, List.cons_append, step_frame _ _ _ (by omega)]
    have h1 : ¬ (12 > max) := by omega
    simp [h1, msgId, body, dispatch, get32x3_be32 _ _ _ hi hb hl, effsOf]
  | port p =>
    obtain ⟨hp, hm⟩ := h
    have hbl : (body (.port p)).length = 2 := rfl
    rw [encode, hbl, List.append_assoc, List.cons_append, step_frame _ _ _ (by omega)]
    have h1 : ¬ (2 > max) := by omega
    simp [h1, msgId, body, dispatch, get16_be16 _ hp, effsOf]
  | piece i b d =>
    obtain ⟨hi, hb, hd, hm⟩ := h
    have hbl : (body (.piece i b d)).length = 8 + d.length := by simp [body, be32_length]; omega
    rw [encode, hbl, List.append_assoc, List.cons_append, step_frame _ _ _ (by omega)]
    have h1 : ¬ (8 + d.length > max) := by omega
    have h3 : (8 + d.length + 4294967288) % 4294967296 = d.length := by omega
    have h2 : ¬ (maxBlock < d.length) := by simp [maxBlock]; omega
    simp only [h1, if_false, msgId, body, dispatch, List.append_assoc]
    simp [get32_be32 _ hi, get32_be32 _ hb, h3, h2, take?_append, effsOf]
  | ext eid p =>
    obtain ⟨he, hm, hl, hrt⟩ := h
    subst he
    have hbl : (body (.ext (Bencode.kindId p) p)).length = 1 + (Bencode.encPayload p).length := by
      simp [body]; omega
    rw [encode, hbl, List.append_assoc, List.cons_append, step_frame _ _ _ (by omega)]
    have h1 : ¬ (1 + (Bencode.encPayload p).length > max) := by omega
    have h4 : take? (1 + (Bencode.encPayload p).length)
        (body (.ext (Bencode.kindId p) p) ++ rest) = some (body (.ext (Bencode.kindId p) p), rest) := by
      rw [← hbl]; exact take?_append _ _
    simp only [h1, if_false, msgId, dispatch, h4]
    simp only [body]
    generalize hq : Bencode.parseExt (Bencode.kindId p) (Bencode.encPayload p) = q at hrt
    obtain ⟨q1, q2⟩ := q
    simp at hrt
    subst hrt
    simp [effsOf, hq]

end Rain.Codec
