import RainModel.Lemmas.LoopNoPanicRun
import RainModel.Lemmas.LoopVerify2
import RainModel.Lemmas.LoopMetaStop
import RainModel.Lemmas.LoopVerifyFlag
/-!
The "does not hang" half of C08 / C04 at the level of the worker completions: `runWorkers` models the chain
allocator → verifier → stop announcer → (restart for a pending verify) → … that follows an event.  A chain
that never ends is a livelock of the real loop (each link is a goroutine reporting back to the loop).

* `workersQuiet s`: no worker completion is pending that no gate holds (the fixed points of `runWorkers`).
* **Finding** (`Flap`, `flap_forever`): with a verification request pending (`doVerify`) and a storage whose
  `Open` fails (`failOpen`), the chain never ends: `handleStopped` restarts the torrent because `doVerify` is
  set, the allocator fails, `stop(err)` leaves `doVerify` set, the stop announcer reports, `handleStopped`
  restarts the torrent … (`handleAllocationDone`: `if al.Error != nil { t.stop(err); return }` does not clear
  `t.doVerify`; `handleStopped`: `if t.doVerify { t.bitfield = nil; t.start() }`).
-/
namespace Rain.Loop

/-- A worker completion is pending and no gate holds it (the guards of `runWorkers`). -/
def workersPending (s : St) : Bool :=
  (s.stopAnn && !s.stopHang) || (s.allocator && !s.gateOpen) || (s.verifier && !s.gateRead) ||
  (match s.writing with
   | some w => !s.gateWrite || !w.good
   | none => false)

/-- Nothing left to do for `runWorkers` (or the loop has panicked). -/
def workersQuiet (s : St) : Bool := s.panicked.isSome || !workersPending s

/-- The quiet states are exactly the fixed points of `runWorkers`' iteration: nothing happens in them. -/
theorem runWorkers_of_quiet (n : Nat) (m : M) (h : workersQuiet m.1 = true) : runWorkers n m = m := by
  cases n with
  | zero => rfl
  | succ n =>
    unfold workersQuiet workersPending at h
    unfold runWorkers
    dsimp only
    cases hp : m.1.panicked with
    | some x => simp
    | none =>
      simp only [hp, Option.isSome_none, Bool.false_or, Bool.not_eq_true', Bool.or_eq_false_iff] at h
      obtain ⟨⟨⟨h1, h2⟩, h3⟩, h4⟩ := h
      simp only [Option.isSome_none, Bool.false_eq_true, ↓reduceIte, h1, h2, h3]
      split
      · next w hw =>
        rw [hw] at h4
        simp only at h4
        rw [h4]
        simp
      · rfl

/-- Fuel composes: running `a + b` links is running `a`, then `b`. -/
theorem runWorkers_add (a b : Nat) (m : M) : runWorkers (a + b) m = runWorkers b (runWorkers a m) := by
  induction a generalizing m with
  | zero => rw [Nat.zero_add]; rfl
  | succ a ih =>
    rw [Nat.add_right_comm]
    by_cases hq : workersQuiet m.1 = true
    · rw [runWorkers_of_quiet _ m hq, runWorkers_of_quiet _ m hq, runWorkers_of_quiet _ m hq]
    · have hnq : ∀ x : M, x = m → workersQuiet x.1 = true → False := fun x hx h => hq (hx ▸ h)
      simp only [runWorkers]
      split
      · next h1 => exact absurd (by unfold workersQuiet; simp [h1]) hq
      split
      · exact ih _
      split
      · exact ih _
      split
      · exact ih _
      split
      · next w hw =>
        split
        · exact ih _
        · next h1 h2 h3 h4 h5 =>
          exfalso; apply hq
          unfold workersQuiet workersPending
          rw [hw]
          simp only [Bool.or_eq_true, Bool.not_eq_true', not_or, Bool.not_eq_false] at h5
          simp_all
          refine ⟨⟨?_, ?_⟩, ?_⟩
          · cases h1 : m.1.stopAnn <;> simp_all
          · cases h1 : m.1.allocator <;> simp_all
          · cases h1 : m.1.verifier <;> simp_all
      · next h1 h2 h3 h4 hw =>
        exfalso; apply hq
        unfold workersQuiet workersPending
        rw [hw]
        simp_all
        refine ⟨⟨?_, ?_⟩, ?_⟩
        · cases h1 : m.1.stopAnn <;> simp_all
        · cases h1 : m.1.allocator <;> simp_all
        · cases h1 : m.1.verifier <;> simp_all

/-! ### The livelock: a pending verify and a storage that cannot open the files -/

/-- The two phases of the endless restart: stopping (the stop announcer about to report) and allocating (the
allocator about to fail), with a verification pending and `Open` failing. -/
structure Flap (s : St) : Prop where
  np : s.panicked = none
  errC : s.errC = true
  dv : s.doVerify = true
  info : s.info = true
  fo : s.failOpen = true
  sh : s.stopHang = false
  go : s.gateOpen = false
  ver : s.verifier = false
  loaded : s.loaded = false
  peers : s.peers = []
  phase : (s.stopAnn = true ∧ s.allocator = false) ∨ (s.stopAnn = false ∧ s.allocator = true ∧ s.errC = true)

theorem Flap.pending {s : St} (h : Flap s) : workersQuiet s = false := by
  unfold workersQuiet workersPending
  rcases h.phase with ⟨a, _⟩ | ⟨_, a, _⟩
  · simp [h.np, a, h.sh]
  · simp [h.np, a, h.go]

theorem stop_gates_off_open (s : St) (e : Bool) (ho : s.gateOpen = false) : (s.stop e).gateOpen = false := by
  rw [stop_eq]
  split
  · exact ho
  · simp only [stopRun, stopFin_gateOpen, stopVer_gateOpen]
    unfold stopAlloc
    repeat' split
    all_goals simp [ho]

/-- stopping → allocating: the stop announcer reports, `doVerify` restarts the torrent. -/
theorem Flap.afterStopped {m : M} (h : Flap m.1) (hs : m.1.stopAnn = true) (ha : m.1.allocator = false) :
    Flap (handleStopped m).1 := by
  obtain ⟨np, _, dv, info, fo, sh, go, ver, loaded, peers, _⟩ := h
  unfold handleStopped
  simp only [onSt_fst, dv, ↓reduceIte]
  unfold startCore
  simp only [onSt_fst, info, loaded, ↓reduceIte, Bool.false_eq_true, ha]
  constructor <;> simp_all

/-- `stop(err)` of a running torrent with a verification pending: the request survives. -/
theorem flap_stop (x : St) (e : Bool) (hr : Running x) (np : x.panicked = none) (dv : x.doVerify = true)
    (info : x.info = true) (fo : x.failOpen = true) (sh : x.stopHang = false) (go : x.gateOpen = false) :
    Flap (x.stop e) := by
  obtain ⟨_, f2, f3, f4, f5, f6, _, _, f9, _⟩ := stop_running_fields x e hr
  exact ⟨by rw [stop_panicked]; exact np, f2, by simpa using dv, by simpa using info, by simpa using fo,
    by simpa using sh, stop_gates_off_open x e go, f5, f6, f9, Or.inl ⟨f3, f4⟩⟩

/-- allocating → stopping: `Open` fails, `stop(err)`; the verification request survives. -/
theorem Flap.afterAlloc {m : M} (h : Flap m.1) (hs : m.1.stopAnn = false) (ha : m.1.allocator = true)
    (he : m.1.errC = true) : Flap (allocatorRun m).1 := by
  obtain ⟨np, _, dv, info, fo, sh, go, ver, loaded, peers, _⟩ := h
  unfold allocatorRun
  dsimp only
  rw [if_pos fo]
  simp only [onSt_fst]
  exact flap_stop _ true ⟨he, hs⟩ np dv info fo sh go

/-- **The chain never ends**: whatever the fuel, a worker completion is still pending. -/
theorem flap_forever (n : Nat) (m : M) (h : Flap m.1) : Flap (runWorkers n m).1 := by
  induction n generalizing m with
  | zero => exact h
  | succ n ih =>
    rcases h.phase with ⟨a, b⟩ | ⟨a, b, c⟩
    · rw [runWorkers_stopped n m h.np a h.sh]
      exact ih _ (h.afterStopped a b)
    · rw [runWorkers_alloc n m h.np a b h.go]
      exact ih _ (h.afterAlloc a b c)

/-! ### Everywhere else the chain ends: a rank that every worker completion decreases -/

/-- The lifecycle part of the rank: how many of "stop announcer reports / allocator / verifier" can still
follow. -/
def phase (s : St) : Nat :=
  if s.stopAnn && !s.stopHang then (if s.doVerify && s.info then 4 else 1)
  else if s.allocator then 3
  else if s.verifier then 2
  else 0

/-- An upper bound on the number of worker completions that can still follow (6 for a write in flight: its
completion may stop the torrent and so start a whole stop → verify chain). -/
def wrank (s : St) : Nat := (if s.writing.isSome then 6 else 0) + phase s

theorem phase_le (s : St) : phase s ≤ 4 := by
  unfold phase
  repeat' split
  all_goals omega

theorem wrank_le (s : St) : wrank s ≤ 10 := by
  have := phase_le s
  unfold wrank
  split <;> omega

theorem stop_allocator_false (s : St) (e : Bool) (h : s.allocator = false) : (s.stop e).allocator = false := by
  rw [stop_eq]
  split
  · exact h
  · exact (stopRun_fields s e).2.1

theorem stop_verifier_false (s : St) (e : Bool) (h : s.verifier = false) : (s.stop e).verifier = false := by
  rw [stop_eq]
  split
  · exact h
  · exact (stopRun_fields s e).2.2.1

/-- The stop announcer reports: what is left is at most the restart for a pending verify. -/
theorem phase_handleStopped (m : M) (hs : m.1.stopAnn = true) (hh : m.1.stopHang = false)
    (ha : m.1.allocator = false) (hv : m.1.verifier = false) (hl : m.1.loaded = false) :
    phase (handleStopped m).1 < phase m.1 := by
  cases hd : m.1.doVerify <;> cases hi : m.1.info <;>
    simp [phase, handleStopped, startCore, hs, hh, ha, hv, hl, hd, hi]

theorem hadCheck_allocator_false (m : M) (h : m.1.allocator = false) : (hadCheck m).1.allocator = false := by
  unfold hadCheck
  dsimp only
  split
  · simp only [onSt_fst]; exact stop_allocator_false _ _ (by simpa using h)
  · simpa using h

theorem hadCheck_verifier_false (m : M) (h : m.1.verifier = false) : (hadCheck m).1.verifier = false := by
  unfold hadCheck
  dsimp only
  split
  · simp only [onSt_fst]; exact stop_verifier_false _ _ (by simpa using h)
  · simpa using h

theorem hadCheck_writing (m : M) (hq : QueueOK m.1) : (hadCheck m).1.writing = m.1.writing := by
  unfold hadCheck
  dsimp only
  split
  · simp
  · unfold hadReady
    simp only [onSt_fst, startDls_writing]
    have := (processQueued_wframe (m.1.checkCompletion.1, m.2) hq.checkCompletion).writing
    simpa using this

theorem hadFresh_doVerify_false' (m : M) : (hadFresh m).1.doVerify = false := by
  unfold hadFresh
  dsimp only
  split
  · simp
  · next h => simpa using h

theorem hadFresh_allocator_false (m : M) (h : m.1.allocator = false) : (hadFresh m).1.allocator = false := by
  unfold hadFresh
  dsimp only
  split
  · simp only [onSt_fst]; exact stop_allocator_false _ _ (by simpa using h)
  · exact hadCheck_allocator_false _ (by simpa using h)

theorem hadFresh_writing (m : M) (hq : QueueOK m.1) : (hadFresh m).1.writing = m.1.writing := by
  unfold hadFresh
  dsimp only
  split
  · simp
  · rw [hadCheck_writing _ (hq.of_peers (by simp))]; simp

theorem hadInstall_queueOK (m : M) (mi : Bool) (hq : QueueOK m.1) : QueueOK (hadForget (hadInstall m) mi).1 := by
  intro p hp msg hmsg
  have hp' : p ∈ (hadInstall m).1.peers := by simpa using hp
  simp only [hadInstall, onSt_fst, List.mem_map] at hp'
  obtain ⟨q, hq', rfl⟩ := hp'
  exact hq q hq' msg hmsg

/-- The allocation result: the allocator is gone; whatever follows, a stop it causes has withdrawn or never
had a verification request — provided `Open` does not fail while one is pending. -/
theorem handleAllocationDone_post (m : M) (ex mi : Bool) (hq : QueueOK m.1) (hs : m.1.stopAnn = false)
    (hbf : m.1.doVerify = true → m.1.bf = none) :
    (handleAllocationDone m ex mi).1.allocator = false ∧
    ((handleAllocationDone m ex mi).1.stopAnn = true → (handleAllocationDone m ex mi).1.doVerify = false) ∧
    (handleAllocationDone m ex mi).1.writing = m.1.writing := by
  rw [handleAllocationDone_eq]
  have hq0 := hadInstall_queueOK m mi hq
  have ha0 : (hadForget (hadInstall m) mi).1.allocator = false := by simp [hadInstall]
  have hs0 : (hadForget (hadInstall m) mi).1.stopAnn = false := by simpa using hs
  have hw0 : (hadForget (hadInstall m) mi).1.writing = m.1.writing := by simp
  have hd0 : (hadForget (hadInstall m) mi).1.doVerify = m.1.doVerify := by simp
  have hbf0 : ∀ b, (hadForget (hadInstall m) mi).1.bf = some b → m.1.doVerify = false := by
    intro b hb
    cases hd : m.1.doVerify
    · rfl
    · have := hbf hd
      unfold hadForget at hb
      simp [this] at hb
  generalize hadForget (hadInstall m) mi = X at *
  dsimp only
  split
  · next b hb =>
    have hdv := hbf0 b hb
    repeat' split
    · unfold hadTrust
      refine ⟨hadCheck_allocator_false _ (by simpa using ha0), fun _ => ?_, ?_⟩
      · simp only [hadCheck_doVerify, onSt_fst, markPaddingPieces_doVerify]; rw [hd0]; exact hdv
      · rw [hadCheck_writing _ (hq0.of_peers (by simp))]; simpa using hw0
    · exact ⟨hadFresh_allocator_false _ ha0, fun _ => hadFresh_doVerify_false' _, (hadFresh_writing _ hq0).trans hw0⟩
    · exact ⟨by simpa using ha0, fun h => by simp [hs0] at h, by simpa using hw0⟩
  · split
    · exact ⟨hadFresh_allocator_false _ ha0, fun _ => hadFresh_doVerify_false' _, (hadFresh_writing _ hq0).trans hw0⟩
    · exact ⟨by simpa using ha0, fun h => by simp [hs0] at h, by simpa using hw0⟩

theorem allocatorRun_post (m : M) (hq : QueueOK m.1) (hs : m.1.stopAnn = false)
    (hbf : m.1.doVerify = true → m.1.bf = none) (hfl : m.1.failOpen = true → m.1.doVerify = false) :
    (allocatorRun m).1.allocator = false ∧
    ((allocatorRun m).1.stopAnn = true → (allocatorRun m).1.doVerify = false) ∧
    (allocatorRun m).1.writing = m.1.writing := by
  unfold allocatorRun
  dsimp only
  split
  · next hf =>
    simp only [onSt_fst]
    exact ⟨stop_allocator_false _ _ rfl, fun _ => by simpa using hfl hf, by simp⟩
  · obtain ⟨a, b, c⟩ := handleAllocationDone_post
      (onSt m fun s => { s with
        sto := s.sto ++ ((List.range s.cfg.flens.length).filter (fun i => !(s.cfg.fpads.getD i false))).map (fun i =>
          s!"open:{fileName s.cfg i}:{s.cfg.flens.getD i 0}:" ++ (if s.fileExists.getD i false then "existed" else "new")),
        fileExists := (List.range s.cfg.flens.length).map (fun i => s.fileExists.getD i false ||
          ((List.range s.cfg.flens.length).filter (fun i => !(s.cfg.fpads.getD i false))).contains i),
        known := (List.range s.cfg.flens.length).map (fun i => s.known.getD i false ||
          ((List.range s.cfg.flens.length).filter (fun i => !(s.cfg.fpads.getD i false))).contains i) })
      (((List.range m.1.cfg.flens.length).filter (fun i => !(m.1.cfg.fpads.getD i false))).any fun i => m.1.fileExists.getD i false)
      (((List.range m.1.cfg.flens.length).filter (fun i => !(m.1.cfg.fpads.getD i false))).any fun i => !(m.1.fileExists.getD i false))
      (hq.of_peers (by simp)) (by simpa using hs) (by simpa using hbf)
    exact ⟨a, b, c⟩

theorem handleVerificationDone_post (m : M) (hq : QueueOK m.1) (ha : m.1.allocator = false) :
    (handleVerificationDone m).1.allocator = false ∧ (handleVerificationDone m).1.verifier = false ∧
    (handleVerificationDone m).1.doVerify = false ∧ (handleVerificationDone m).1.writing = m.1.writing := by
  have hv0 : (hvdInstall m).1.verifier = false := by
    rw [hvdInstall_eq]; simp only [onSt_fst]; split <;> simp [hvdPre]
  have hq1 : QueueOK (hvdHaves (hvdInstall m)).1 := by
    have hq1 : QueueOK (hvdInstall m).1 := hq.of_peers (by simp)
    unfold hvdHaves
    dsimp only
    apply foldl_inv (fun x : M => QueueOK x.1)
    · intro x p hx
      apply updateInterested_queueOK
      exact hx.of_peers (by simp)
    · exact hq1
  rw [handleVerificationDone_eq]
  dsimp only
  split
  · simp only [onSt_fst]
    exact ⟨stop_allocator_false _ _ (by simpa using ha), stop_verifier_false _ _ (by simpa using hv0), by simp, by simp⟩
  · next hd =>
    refine ⟨hadCheck_allocator_false _ (by simpa using ha), hadCheck_verifier_false _ (by simpa using hv0), ?_, ?_⟩
    · simpa using hd
    · rw [hadCheck_writing _ hq1]; simp

theorem handlePieceWriteDone_writing_none (m : M) (w : WriteJob) (e : Bool) :
    (handlePieceWriteDone m w e).1.writing = none := by
  rw [handlePieceWriteDone_eq]
  dsimp only
  repeat' split
  all_goals simp [pwdReset]

theorem writerRun_writing_none (m : M) (w : WriteJob) : (writerRun m w).1.writing = none := by
  unfold writerRun
  dsimp only
  repeat' split
  all_goals exact handlePieceWriteDone_writing_none _ _ _

/-! ### the chain ends within the fuel -/

/-- What the quiescence proof carries: the `never_panics` invariant, the verify-flag invariant, and: no
verification is pending while `Open` fails (the livelock above). -/
structure QInv (s : St) : Prop where
  full : Full s
  dv : DV s
  nofl : s.failOpen = true → s.doVerify = false

theorem quiet_of_wrank_zero (s : St) (h : wrank s = 0) : workersQuiet s = true := by
  unfold wrank at h
  have hw : s.writing = none := by
    cases hw : s.writing with
    | none => rfl
    | some w => simp [hw] at h
  have hp : phase s = 0 := by omega
  unfold phase at hp
  unfold workersQuiet workersPending
  rw [hw]
  cases h2 : (s.stopAnn && !s.stopHang) <;> cases h4 : s.allocator <;> cases h5 : s.verifier <;>
    simp only [h2, h4, h5, Bool.false_eq_true, ↓reduceIte] at hp ⊢
  all_goals first
    | (simp; done)
    | (exfalso; split at hp <;> omega)
    | omega

theorem phase_le_two_of (s : St) (ha : s.allocator = false) (hsd : s.stopAnn = true → s.doVerify = false) :
    phase s ≤ 2 := by
  unfold phase
  cases hs : s.stopAnn
  · simp only [Bool.false_and, Bool.false_eq_true, ↓reduceIte, ha]; split <;> omega
  · simp only [hsd hs, Bool.false_and, Bool.false_eq_true, ↓reduceIte, ha]
    repeat' split
    all_goals omega

theorem phase_le_one_of (s : St) (ha : s.allocator = false) (hv : s.verifier = false) (hd : s.doVerify = false) :
    phase s ≤ 1 := by
  unfold phase
  simp only [ha, hv, hd, Bool.false_and, Bool.false_eq_true, ↓reduceIte]
  repeat' split
  all_goals omega

theorem QInv.afterStopped {m : M} (h : QInv m.1) (hs : m.1.stopAnn = true) : QInv (handleStopped m).1 :=
  ⟨⟨handleStopped_life m h.full.life hs, handleStopped_comp m h.full.comp, handleStopped_winv m h.full.w h.full.life hs⟩,
    handleStopped_dv m, by simpa using h.nofl⟩

theorem QInv.afterAlloc {m : M} (h : QInv m.1) (ha : m.1.allocator = true) : QInv (allocatorRun m).1 :=
  ⟨⟨allocatorRun_life m h.full.life ha, allocatorRun_comp m h.full.comp, allocatorRun_winv m h.full.w h.full.life ha⟩,
    allocatorRun_dv m h.dv, fun hf => allocatorRun_doVerify_false m (h.nofl (by simpa using hf))⟩

theorem QInv.afterVerify {m : M} (h : QInv m.1) (hv : m.1.verifier = true) (ha : m.1.allocator = false) :
    QInv (handleVerificationDone m).1 :=
  ⟨⟨handleVerificationDone_life m h.full.life hv, handleVerificationDone_comp m h.full.comp,
      handleVerificationDone_winv m h.full.w h.full.life hv⟩,
    handleVerificationDone_dv m, fun _ => (handleVerificationDone_post m h.full.w.q ha).2.2.1⟩

theorem QInv.afterWrite {m : M} (h : QInv m.1) (w : WriteJob) (hw : m.1.writing = some w) : QInv (writerRun m w).1 :=
  ⟨⟨writerRun_life m w h.full.life, writerRun_comp m w h.full.comp, writerRun_winv m w h.full.w h.full.life h.full.comp hw⟩,
    writerRun_dv m w h.dv, by simpa using h.nofl⟩

/-- **The chain of worker completions ends**: with fuel ≥ `wrank` (≤ 10) `runWorkers` reaches a state in
which no un-gated completion is pending. -/
theorem runWorkers_quiet (n : Nat) (m : M) (h : QInv m.1) (hr : wrank m.1 ≤ n) :
    workersQuiet (runWorkers n m).1 = true ∧ QInv (runWorkers n m).1 := by
  induction n generalizing m with
  | zero =>
    show workersQuiet m.1 = true ∧ QInv m.1
    exact ⟨quiet_of_wrank_zero _ (by omega), h⟩
  | succ n ih =>
    unfold runWorkers
    dsimp only
    split
    · next hp => exact ⟨by unfold workersQuiet; simp [hp], h⟩
    split
    · next hp hs =>
      simp only [Bool.and_eq_true, Bool.not_eq_true'] at hs
      obtain ⟨i1, i2, i3, _⟩ := h.full.life.idle (Or.inr hs.1)
      have := phase_handleStopped m hs.1 hs.2 i1 i2 i3
      exact ih _ (h.afterStopped hs.1) (by unfold wrank at hr ⊢; rw [handleStopped_writing]; omega)
    split
    · next hp hs ha =>
      simp only [Bool.and_eq_true, Bool.not_eq_true'] at ha
      have hrun := h.full.life.running_of_alloc ha.1
      have hbf : m.1.doVerify = true → m.1.bf = none := by
        intro hd
        rcases (h.dv hd).2 with h1 | h1
        · rw [hrun.2] at h1; cases h1
        · exact h1.1
      obtain ⟨a, b, c⟩ := allocatorRun_post m h.full.w.q hrun.2 hbf h.nofl
      have h2 := phase_le_two_of _ a b
      have h3 : phase m.1 = 3 := by unfold phase; simp [hrun.2, ha.1]
      exact ih _ (h.afterAlloc ha.1) (by unfold wrank at hr ⊢; rw [c]; omega)
    split
    · next hp hs ha hv =>
      simp only [Bool.and_eq_true, Bool.not_eq_true'] at hv
      have hrun := h.full.life.running_of_ver hv.1
      have hal : m.1.allocator = false := by
        cases hal : m.1.allocator
        · rfl
        · have h1 := h.full.w.al hal
          rw [h.full.life.ver hv.1] at h1; cases h1
      obtain ⟨a, b, c, d⟩ := handleVerificationDone_post m h.full.w.q hal
      have h2 := phase_le_one_of _ a b c
      have h3 : phase m.1 = 2 := by unfold phase; simp [hrun.2, hal, hv.1]
      exact ih _ (h.afterVerify hv.1 hal) (by unfold wrank at hr ⊢; rw [d]; omega)
    split
    · next hp hs ha hv w hw =>
      split
      · have h1 := writerRun_writing_none m w
        have h2 := phase_le (writerRun m w).1
        exact ih _ (h.afterWrite w hw) (by unfold wrank at hr ⊢; rw [h1]; rw [hw] at hr; simp at hr ⊢; omega)
      · next hg =>
        refine ⟨?_, h⟩
        unfold workersQuiet workersPending
        rw [hw]
        simp only [Bool.or_eq_true, Bool.not_eq_true', not_or, Bool.not_eq_false] at hg
        simp_all
        refine ⟨⟨?_, ?_⟩, ?_⟩
        · cases h1 : m.1.stopAnn <;> simp_all
        · cases h1 : m.1.allocator <;> simp_all
        · cases h1 : m.1.verifier <;> simp_all
    · next hp hs ha hv hw =>
      refine ⟨?_, h⟩
      unfold workersQuiet workersPending
      rw [hw]
      simp_all
      refine ⟨⟨?_, ?_⟩, ?_⟩
      · cases h1 : m.1.stopAnn <;> simp_all
      · cases h1 : m.1.allocator <;> simp_all
      · cases h1 : m.1.verifier <;> simp_all

end Rain.Loop
