import RainModel.Lemmas.LoopNoPanicRun
import RainModel.Lemmas.LoopVerify2
import RainModel.Lemmas.LoopMetaStop
import RainModel.Lemmas.LoopVerifyFlag
/-!
The "does not hang" half of C08 / C04 at the level of the worker completions: `runWorkers` models the chain
allocator → verifier → stop announcer → (restart for a pending verify) → … that follows an event.  A chain
that never ends is a livelock of the real loop (each link is a goroutine reporting back to the loop).

* `workersQuiet s`: no worker completion is pending that no gate holds (the fixed points of `runWorkers`).
* `runWorkers_quiet`: from every state of the invariants the chain ends, within `wrank ≤ 11` links.

History (finding C04-F8): before rain's fix "a stop caused by an error withdraws a pending verification request"
(`St.stop`: `doVerify := s.doVerify && !err`) the chain did not end when a verification was pending and the
storage's `Open` failed: `handleStopped` restarted the torrent because `doVerify` was set, the allocator failed,
`stop(err)` left `doVerify` set, the stop announcer reported, `handleStopped` restarted the torrent … — proved
here at the time as `flap_forever` / `verify_failOpen_livelock` about the model of the unrepaired code (commit
0208222 of this repository); with the fix those statements are false and the exception
"unless a verification is pending while `Open` fails" is gone from every theorem below.  (A copy of the pre-fix
`stop`, `allocatorRun` and `runWorkers` would be needed to keep the livelock as a theorem; it is not kept.)
-/
namespace Rain.Loop
/-- A worker completion is pending and no gate holds it (the guards of `runWorkers`). -/
def workersPending (s : St) : Bool :=
  (s.stopAnn && !s.stopHang) || (s.allocator && !s.gateOpen) || (s.verifier && !s.gateRead) ||
  (match s.writing with
   | some w => if w.written then !s.gateWriteDone else (!s.gateWrite || !w.good)
   | none => false)

/-- Nothing left to do for `runWorkers` (or the loop has panicked). -/
def workersQuiet (s : St) : Bool := s.panicked.isSome || !workersPending s

/-- The quiet states are exactly the fixed points of `runWorkers`' iteration: nothing happens in them. -/
theorem runWorkers_of_quiet (n : Nat) (m : M) (h : workersQuiet m.1 = true) : runWorkers n m = m := by
  cases n with
  | zero => rfl
  | succ n =>
    unfold workersQuiet workersPending at h
    unfold runWorkers
    dsimp only
    cases hp : m.1.panicked with
    | some x => simp
    | none =>
      simp only [hp, Option.isSome_none, Bool.false_or, Bool.not_eq_true', Bool.or_eq_false_iff] at h
      obtain ⟨⟨⟨h1, h2⟩, h3⟩, h4⟩ := h
      simp only [Option.isSome_none, Bool.false_eq_true, ↓reduceIte, h1, h2, h3]
      split
      · next w hw =>
        rw [hw] at h4
        simp only at h4
        cases hwr : w.written
        · simp only [hwr, Bool.false_eq_true, ↓reduceIte] at h4 ⊢
          rw [h4]; simp
        · simp only [hwr, ↓reduceIte] at h4 ⊢
          rw [h4]; simp
      · rfl

/-- Not quiet and not panicked: what `workersQuiet = false` says, guard by guard. -/
theorem quiet_of_guards (s : St) (hp : s.panicked = none) (h1 : ¬(s.stopAnn && !s.stopHang) = true)
    (h2 : ¬(s.allocator && !s.gateOpen) = true) (h3 : ¬(s.verifier && !s.gateRead) = true)
    (h4 : ∀ w, s.writing = some w →
      (w.written = true → ¬(!s.gateWriteDone) = true) ∧ (w.written = false → ¬(!s.gateWrite || !w.good) = true)) :
    workersQuiet s = true := by
  unfold workersQuiet workersPending
  simp only [hp, Option.isSome_none, Bool.false_or, Bool.not_eq_true', Bool.or_eq_false_iff]
  refine ⟨⟨⟨by simpa using h1, by simpa using h2⟩, by simpa using h3⟩, ?_⟩
  cases hw : s.writing with
  | none => rfl
  | some w =>
    obtain ⟨a, b⟩ := h4 w hw
    cases hwr : w.written
    · simpa [hwr] using b hwr
    · simpa [hwr] using a hwr

/-- Fuel composes: running `a + b` links is running `a`, then `b`. -/
theorem runWorkers_add (a b : Nat) (m : M) : runWorkers (a + b) m = runWorkers b (runWorkers a m) := by
  induction a generalizing m with
  | zero => rw [Nat.zero_add]; rfl
  | succ a ih =>
    rw [Nat.add_right_comm]
    by_cases hq : workersQuiet m.1 = true
    · rw [runWorkers_of_quiet _ m hq, runWorkers_of_quiet _ m hq, runWorkers_of_quiet _ m hq]
    · simp only [runWorkers]
      split
      · next h1 => exact absurd (by unfold workersQuiet; simp [h1]) hq
      split
      · exact ih _
      split
      · exact ih _
      split
      · exact ih _
      split
      · next h0 h1 h2 h3 _ w hw =>
        split
        · split
          · exact ih _
          · next hwr hg =>
            refine absurd (quiet_of_guards m.1 (by simpa using h0) h1 h2 h3 fun w' hw' => ?_) hq
            rw [hw] at hw'; cases hw'
            exact ⟨fun _ => hg, fun h => by rw [hwr] at h; cases h⟩
        · split
          · exact ih _
          · next hwr hg =>
            refine absurd (quiet_of_guards m.1 (by simpa using h0) h1 h2 h3 fun w' hw' => ?_) hq
            rw [hw] at hw'; cases hw'
            exact ⟨fun h => absurd h hwr, fun _ => hg⟩
      · next h0 h1 h2 h3 _ hw =>
        refine absurd (quiet_of_guards m.1 (by simpa using h0) h1 h2 h3 fun w' hw' => ?_) hq
        rw [hw] at hw'; cases hw'

/-! ### a rank that every worker completion decreases -/

/-- The lifecycle part of the rank: how many of "stop announcer reports / allocator / verifier" can still
follow. -/
def phase (s : St) : Nat :=
  if s.stopAnn && !s.stopHang then (if s.doVerify && s.info then 4 else 1)
  else if s.allocator then 3
  else if s.verifier then 2
  else 0

/-- The piece writer's part: storage calls still to be made (7: their completion may be held, and the delivery
of the result may stop the torrent and so start a whole stop → verify chain), or a result held / to be
delivered (6). -/
def jobRank (s : St) : Nat :=
  match s.writing with
  | some w => if w.written then 6 else 7
  | none => 0

/-- An upper bound on the number of worker completions that can still follow. -/
def wrank (s : St) : Nat := jobRank s + phase s

theorem phase_le (s : St) : phase s ≤ 4 := by
  unfold phase
  repeat' split
  all_goals omega

theorem jobRank_le (s : St) : jobRank s ≤ 7 := by
  unfold jobRank
  repeat' split
  all_goals omega

theorem wrank_le (s : St) : wrank s ≤ 11 := by
  have := phase_le s
  have := jobRank_le s
  unfold wrank
  omega

theorem jobRank_congr {s s' : St} (h : s'.writing = s.writing) : jobRank s' = jobRank s := by
  unfold jobRank; rw [h]

theorem stop_allocator_false (s : St) (e : Bool) (h : s.allocator = false) : (s.stop e).allocator = false := by
  rw [stop_eq]
  split
  · exact h
  · exact (stopRun_fields s e).2.1

theorem stop_verifier_false (s : St) (e : Bool) (h : s.verifier = false) : (s.stop e).verifier = false := by
  rw [stop_eq]
  split
  · exact h
  · exact (stopRun_fields s e).2.2.1

/-- A stop caused by an error withdraws the verification request (fix C04-F8). -/
theorem stop_true_doVerify (s : St) (hr : Running s) : (s.stop true).doVerify = false := by
  have hst : ¬(s.status = .stopping ∨ s.status = .stopped) := by
    rintro (h | h)
    · have := ((status_stopping_iff s).1 h).2; rw [hr.2] at this; cases this
    · have := (status_stopped_iff s).1 h; rw [hr.1] at this; cases this
  rw [stop_eq, if_neg hst]
  simp [stopRun, stopA]

/-- The stop announcer reports: what is left is at most the restart for a pending verify. -/
theorem phase_handleStopped (m : M) (hs : m.1.stopAnn = true) (hh : m.1.stopHang = false)
    (ha : m.1.allocator = false) (hv : m.1.verifier = false) (hl : m.1.loaded = false) :
    phase (handleStopped m).1 < phase m.1 := by
  cases hd : m.1.doVerify <;> cases hi : m.1.info <;>
    simp [phase, handleStopped, startCore, hs, hh, ha, hv, hl, hd, hi]

theorem hadCheck_allocator_false (m : M) (h : m.1.allocator = false) : (hadCheck m).1.allocator = false := by
  unfold hadCheck
  dsimp only
  split
  · simp only [onSt_fst]; exact stop_allocator_false _ _ (by simpa using h)
  · simpa using h

theorem hadCheck_verifier_false (m : M) (h : m.1.verifier = false) : (hadCheck m).1.verifier = false := by
  unfold hadCheck
  dsimp only
  split
  · simp only [onSt_fst]; exact stop_verifier_false _ _ (by simpa using h)
  · simpa using h

theorem hadCheck_writing (m : M) (hq : QueueOK m.1) : (hadCheck m).1.writing = m.1.writing := by
  unfold hadCheck
  dsimp only
  split
  · simp
  · unfold hadReady
    simp only [onSt_fst, startDls_writing]
    have := (processQueued_wframe (m.1.checkCompletion.1, m.2) hq.checkCompletion).writing
    simpa using this

theorem hadFresh_doVerify_false' (m : M) : (hadFresh m).1.doVerify = false := by
  unfold hadFresh
  dsimp only
  split
  · simp only [onSt_fst]; exact stop_doVerify_false _ _ rfl
  · next h => exact hadCheck_doVerify_false _ (by simpa using h)

theorem hadFresh_allocator_false (m : M) (h : m.1.allocator = false) : (hadFresh m).1.allocator = false := by
  unfold hadFresh
  dsimp only
  split
  · simp only [onSt_fst]; exact stop_allocator_false _ _ (by simpa using h)
  · exact hadCheck_allocator_false _ (by simpa using h)

theorem hadFresh_writing (m : M) (hq : QueueOK m.1) : (hadFresh m).1.writing = m.1.writing := by
  unfold hadFresh
  dsimp only
  split
  · simp
  · rw [hadCheck_writing _ (hq.of_peers (by simp))]; simp

theorem hadInstall_queueOK (m : M) (mi : Bool) (hq : QueueOK m.1) : QueueOK (hadForget (hadInstall m) mi).1 := by
  intro p hp msg hmsg
  have hp' : p ∈ (hadInstall m).1.peers := by simpa using hp
  simp only [hadInstall, onSt_fst, List.mem_map] at hp'
  obtain ⟨q, hq', rfl⟩ := hp'
  exact hq q hq' msg hmsg

/-- The allocation result: the allocator is gone; whatever follows, a stop it causes has withdrawn or never
had a verification request. -/
theorem handleAllocationDone_post (m : M) (ex mi : Bool) (hq : QueueOK m.1) (hs : m.1.stopAnn = false)
    (hbf : m.1.doVerify = true → m.1.bf = none) :
    (handleAllocationDone m ex mi).1.allocator = false ∧
    ((handleAllocationDone m ex mi).1.stopAnn = true → (handleAllocationDone m ex mi).1.doVerify = false) ∧
    (handleAllocationDone m ex mi).1.writing = m.1.writing := by
  rw [handleAllocationDone_eq]
  have hq0 := hadInstall_queueOK m mi hq
  have ha0 : (hadForget (hadInstall m) mi).1.allocator = false := by simp [hadInstall]
  have hs0 : (hadForget (hadInstall m) mi).1.stopAnn = false := by simpa using hs
  have hw0 : (hadForget (hadInstall m) mi).1.writing = m.1.writing := by simp
  have hd0 : (hadForget (hadInstall m) mi).1.doVerify = m.1.doVerify := by simp
  have hbf0 : ∀ b, (hadForget (hadInstall m) mi).1.bf = some b → m.1.doVerify = false := by
    intro b hb
    cases hd : m.1.doVerify
    · rfl
    · have := hbf hd
      unfold hadForget at hb
      simp [this] at hb
  generalize hadForget (hadInstall m) mi = X at *
  dsimp only
  split
  · next b hb =>
    have hdv := hbf0 b hb
    repeat' split
    · unfold hadTrust
      refine ⟨hadCheck_allocator_false _ (by simpa using ha0), fun _ => ?_, ?_⟩
      · exact hadCheck_doVerify_false _ (by simp only [onSt_fst, markPaddingPieces_doVerify]; rw [hd0]; exact hdv)
      · rw [hadCheck_writing _ (hq0.of_peers (by simp))]; simpa using hw0
    · exact ⟨hadFresh_allocator_false _ ha0, fun _ => hadFresh_doVerify_false' _, (hadFresh_writing _ hq0).trans hw0⟩
    · exact ⟨by simpa using ha0, fun h => by simp [hs0] at h, by simpa using hw0⟩
  · split
    · exact ⟨hadFresh_allocator_false _ ha0, fun _ => hadFresh_doVerify_false' _, (hadFresh_writing _ hq0).trans hw0⟩
    · exact ⟨by simpa using ha0, fun h => by simp [hs0] at h, by simpa using hw0⟩

theorem allocatorRun_post (m : M) (hq : QueueOK m.1) (hr : Running m.1)
    (hbf : m.1.doVerify = true → m.1.bf = none) :
    (allocatorRun m).1.allocator = false ∧
    ((allocatorRun m).1.stopAnn = true → (allocatorRun m).1.doVerify = false) ∧
    (allocatorRun m).1.writing = m.1.writing := by
  rw [allocatorRun_eq]
  split
  · unfold allocFail
    simp only [onSt_fst]
    exact ⟨stop_allocator_false _ _ (by simp [allocFailOpen]),
      fun _ => stop_true_doVerify _ (hr.congr (by simp) (by simp)), by simp⟩
  · obtain ⟨a, b, c⟩ := handleAllocationDone_post (allocOkOpen m)
      ((allocData m.1).any fun i => m.1.fileExists.getD i false)
      ((allocData m.1).any fun i => !(m.1.fileExists.getD i false))
      (hq.of_peers (by simp)) (by simpa using hr.2) (by simpa using hbf)
    exact ⟨a, b, by simpa using c⟩

theorem handleVerificationDone_post (m : M) (hq : QueueOK m.1) (ha : m.1.allocator = false) :
    (handleVerificationDone m).1.allocator = false ∧ (handleVerificationDone m).1.verifier = false ∧
    (handleVerificationDone m).1.doVerify = false ∧ (handleVerificationDone m).1.writing = m.1.writing := by
  have hv0 : (hvdInstall m).1.verifier = false := by
    rw [hvdInstall_eq]; simp only [onSt_fst]; split <;> simp [hvdPre]
  have hq1 : QueueOK (hvdHaves (hvdInstall m)).1 := by
    have hq1 : QueueOK (hvdInstall m).1 := hq.of_peers (by simp)
    unfold hvdHaves
    dsimp only
    apply foldl_inv (fun x : M => QueueOK x.1)
    · intro x p hx
      apply updateInterested_queueOK
      exact hx.of_peers (by simp)
    · exact hq1
  rw [handleVerificationDone_eq]
  dsimp only
  split
  · simp only [onSt_fst]
    exact ⟨stop_allocator_false _ _ (by simpa using ha), stop_verifier_false _ _ (by simpa using hv0),
      stop_doVerify_false _ _ rfl, by simp⟩
  · next hd =>
    refine ⟨hadCheck_allocator_false _ (by simpa using ha), hadCheck_verifier_false _ (by simpa using hv0), ?_, ?_⟩
    · exact hadCheck_doVerify_false _ (by simpa using hd)
    · rw [hadCheck_writing _ hq1]; simp

theorem handlePieceWriteDone_writing_none (m : M) (w : WriteJob) (e : Bool) :
    (handlePieceWriteDone m w e).1.writing = none := by
  rw [handlePieceWriteDone_eq]
  dsimp only
  repeat' split
  all_goals simp [pwdReset]

/-- The writer's storage calls: the result is handled (no job left) or held (the job is marked `written`). -/
theorem writerRun_writing (m : M) (w : WriteJob) :
    (writerRun m w).1.writing = none ∨ (writerRun m w).1.writing = some { w with written := true } := by
  unfold writerRun
  dsimp only
  repeat' split
  all_goals first
    | exact Or.inl (handlePieceWriteDone_writing_none _ _ _)
    | (right; simp)

theorem writerRun_jobRank (m : M) (w : WriteJob) : jobRank (writerRun m w).1 ≤ 6 := by
  unfold jobRank
  rcases writerRun_writing m w with h | h <;> rw [h] <;> simp

/-- When the result is held (`gate writeDone`) nothing but `sto`, `bad` and `writing` has changed. -/
theorem writerRun_phase_of_held (m : M) (w : WriteJob) (h : ¬ (writerRun m w).1.writing = none) :
    phase (writerRun m w).1 = phase m.1 := by
  revert h
  unfold writerRun
  dsimp only
  repeat' split
  all_goals first
    | (intro h; exact absurd (handlePieceWriteDone_writing_none _ _ _) h)
    | (intro _; simp [phase])

/-! ### the chain ends within the fuel -/

/-- What the quiescence proof carries: the `never_panics` invariant and the verify-flag invariant. -/
structure QInv (s : St) : Prop where
  full : Full s
  dv : DV s

theorem quiet_of_wrank_zero (s : St) (h : wrank s = 0) : workersQuiet s = true := by
  unfold wrank at h
  have hw : s.writing = none := by
    cases hw : s.writing with
    | none => rfl
    | some w => unfold jobRank at h; rw [hw] at h; simp only at h; split at h <;> omega
  have hp : phase s = 0 := by omega
  unfold phase at hp
  unfold workersQuiet workersPending
  rw [hw]
  cases h2 : (s.stopAnn && !s.stopHang) <;> cases h4 : s.allocator <;> cases h5 : s.verifier <;>
    simp only [h2, h4, h5, Bool.false_eq_true, ↓reduceIte] at hp ⊢
  all_goals first
    | (simp; done)
    | (exfalso; split at hp <;> omega)
    | omega

theorem phase_le_two_of (s : St) (ha : s.allocator = false) (hsd : s.stopAnn = true → s.doVerify = false) :
    phase s ≤ 2 := by
  unfold phase
  cases hs : s.stopAnn
  · simp only [Bool.false_and, Bool.false_eq_true, ↓reduceIte, ha]; split <;> omega
  · simp only [hsd hs, Bool.false_and, Bool.false_eq_true, ↓reduceIte, ha]
    repeat' split
    all_goals omega

theorem phase_le_one_of (s : St) (ha : s.allocator = false) (hv : s.verifier = false) (hd : s.doVerify = false) :
    phase s ≤ 1 := by
  unfold phase
  simp only [ha, hv, hd, Bool.false_and, Bool.false_eq_true, ↓reduceIte]
  repeat' split
  all_goals omega

theorem QInv.afterStopped {m : M} (h : QInv m.1) (hs : m.1.stopAnn = true) : QInv (handleStopped m).1 :=
  ⟨⟨handleStopped_life m h.full.life hs, handleStopped_comp m h.full.comp, handleStopped_winv m h.full.w h.full.life hs⟩,
    handleStopped_dv m⟩

theorem QInv.afterAlloc {m : M} (h : QInv m.1) (ha : m.1.allocator = true) : QInv (allocatorRun m).1 :=
  ⟨⟨allocatorRun_life m h.full.life ha, allocatorRun_comp m h.full.comp, allocatorRun_winv m h.full.w h.full.life ha⟩,
    allocatorRun_dv m h.dv⟩

theorem QInv.afterVerify {m : M} (h : QInv m.1) (hv : m.1.verifier = true) : QInv (handleVerificationDone m).1 :=
  ⟨⟨handleVerificationDone_life m h.full.life hv, handleVerificationDone_comp m h.full.comp,
      handleVerificationDone_winv m h.full.w h.full.life hv⟩,
    handleVerificationDone_dv m⟩

theorem QInv.afterWrite {m : M} (h : QInv m.1) (w : WriteJob) (hw : m.1.writing = some w) : QInv (writerRun m w).1 :=
  ⟨⟨writerRun_life m w h.full.life, writerRun_comp m w h.full.comp, writerRun_winv m w h.full.w h.full.life h.full.comp hw⟩,
    writerRun_dv m w h.dv⟩

theorem QInv.afterDeliver {m : M} (h : QInv m.1) (w : WriteJob) (e : Bool) (hw : m.1.writing = some w) :
    QInv (handlePieceWriteDone m w e).1 :=
  ⟨⟨handlePieceWriteDone_life m w e h.full.life, handlePieceWriteDone_comp m w e h.full.comp,
      handlePieceWriteDone_winv m w e h.full.w h.full.life h.full.comp hw⟩,
    handlePieceWriteDone_dv m w e h.dv⟩

/-- **The chain of worker completions ends**: with fuel ≥ `wrank` (≤ 11) `runWorkers` reaches a state in
which no un-gated completion is pending — from every state of the invariants, whatever the gates, failing
storage included. -/
theorem runWorkers_quiet (n : Nat) (m : M) (h : QInv m.1) (hr : wrank m.1 ≤ n) :
    workersQuiet (runWorkers n m).1 = true ∧ QInv (runWorkers n m).1 := by
  induction n generalizing m with
  | zero =>
    show workersQuiet m.1 = true ∧ QInv m.1
    exact ⟨quiet_of_wrank_zero _ (by omega), h⟩
  | succ n ih =>
    unfold runWorkers
    dsimp only
    split
    · next hp => exact ⟨by unfold workersQuiet; simp [hp], h⟩
    split
    · next hp hs =>
      simp only [Bool.and_eq_true, Bool.not_eq_true'] at hs
      obtain ⟨i1, i2, i3, _⟩ := h.full.life.idle (Or.inr hs.1)
      have := phase_handleStopped m hs.1 hs.2 i1 i2 i3
      have hj : jobRank (handleStopped m).1 = jobRank m.1 := jobRank_congr (by simp)
      exact ih _ (h.afterStopped hs.1) (by unfold wrank at hr ⊢; omega)
    split
    · next hp hs ha =>
      simp only [Bool.and_eq_true, Bool.not_eq_true'] at ha
      have hrun := h.full.life.running_of_alloc ha.1
      have hbf : m.1.doVerify = true → m.1.bf = none := by
        intro hd
        rcases (h.dv hd).2 with h1 | h1
        · rw [hrun.2] at h1; cases h1
        · exact h1.1
      obtain ⟨a, b, c⟩ := allocatorRun_post m h.full.w.q hrun hbf
      have h2 := phase_le_two_of _ a b
      have h3 : phase m.1 = 3 := by unfold phase; simp [hrun.2, ha.1]
      have hj : jobRank (allocatorRun m).1 = jobRank m.1 := jobRank_congr c
      exact ih _ (h.afterAlloc ha.1) (by unfold wrank at hr ⊢; omega)
    split
    · next hp hs ha hv =>
      simp only [Bool.and_eq_true, Bool.not_eq_true'] at hv
      have hrun := h.full.life.running_of_ver hv.1
      have hal : m.1.allocator = false := by
        cases hal : m.1.allocator
        · rfl
        · have h1 := h.full.w.al hal
          rw [h.full.life.ver hv.1] at h1; cases h1
      obtain ⟨a, b, c, d⟩ := handleVerificationDone_post m h.full.w.q hal
      have h2 := phase_le_one_of _ a b c
      have h3 : phase m.1 = 2 := by unfold phase; simp [hrun.2, hal, hv.1]
      have hj : jobRank (handleVerificationDone m).1 = jobRank m.1 := jobRank_congr d
      exact ih _ (h.afterVerify hv.1) (by unfold wrank at hr ⊢; omega)
    split
    · next hp hs ha hv _ w hw =>
      have hjm : jobRank m.1 = if w.written then 6 else 7 := by unfold jobRank; rw [hw]
      split
      · next hwr =>
        split
        · have h1 : jobRank (handlePieceWriteDone m w false).1 = 0 := by
            unfold jobRank; rw [handlePieceWriteDone_writing_none]
          have h2 := phase_le (handlePieceWriteDone m w false).1
          exact ih _ (h.afterDeliver w false hw) (by unfold wrank at hr ⊢; rw [hjm, hwr] at hr; simp at hr; omega)
        · next hg =>
          refine ⟨quiet_of_guards m.1 (by simpa using hp) hs ha hv (fun w' hw' => ?_), h⟩
          rw [hw] at hw'; cases hw'
          exact ⟨fun _ => hg, fun h' => by rw [hwr] at h'; cases h'⟩
      · next hwr =>
        split
        · have h1 := writerRun_jobRank m w
          have h2 := phase_le (writerRun m w).1
          have h3 := phase_le m.1
          -- the lifecycle part may rise (the result may stop the torrent), never above 4; the job's part drops
          have hw7 : jobRank m.1 = 7 := by rw [hjm]; simp [hwr]
          by_cases hheld : (writerRun m w).1.writing = none
          · have h0 : jobRank (writerRun m w).1 = 0 := by unfold jobRank; rw [hheld]
            exact ih _ (h.afterWrite w hw) (by unfold wrank at hr ⊢; omega)
          · -- held: nothing but `sto`, `bad`, `writing` changed, the phase is the same
            have hph : phase (writerRun m w).1 = phase m.1 := writerRun_phase_of_held m w hheld
            exact ih _ (h.afterWrite w hw) (by unfold wrank at hr ⊢; omega)
        · next hg =>
          refine ⟨quiet_of_guards m.1 (by simpa using hp) hs ha hv (fun w' hw' => ?_), h⟩
          rw [hw] at hw'; cases hw'
          exact ⟨fun h' => absurd h' hwr, fun _ => hg⟩
    · next hp hs ha hv _ hw =>
      exact ⟨quiet_of_guards m.1 (by simpa using hp) hs ha hv (fun w' hw' => by rw [hw] at hw'; cases hw'), h⟩

end Rain.Loop
