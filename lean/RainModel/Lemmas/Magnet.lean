import RainModel.Model.Magnet
/-! Helper lemmas for `magnet_roundtrip` (C13). -/
namespace Rain.Magnet

/-! ### hex, prefix, decimal -/

theorem fromHexChar_lower {n : Nat} (h : n < 16) : fromHexChar (hexDigitLower n) = some n := by
  unfold fromHexChar hexDigitLower
  split
  · have h1 : 48 ≤ 48 + n ∧ 48 + n ≤ 57 := by omega
    simp [h1]
  · have h1 : ¬ (48 ≤ 87 + n ∧ 87 + n ≤ 57) := by omega
    have h2 : 97 ≤ 87 + n ∧ 87 + n ≤ 102 := by omega
    simp [h1, h2]

theorem hexDecode_encode (bs : List Nat) (h : ∀ b ∈ bs, b < 256) : hexDecode (hexEncode bs) = some bs := by
  induction bs with
  | nil => rfl
  | cons b bs ih =>
    have hb : b < 256 := h b (List.mem_cons_self ..)
    have ih' := ih (fun x hx => h x (List.mem_cons_of_mem _ hx))
    simp only [hexEncode, hexDecode, fromHexChar_lower (show b / 16 % 16 < 16 by omega),
      fromHexChar_lower (show b % 16 < 16 by omega), ih']
    congr 2
    omega

theorem hexEncode_length (bs : List Nat) : (hexEncode bs).length = 2 * bs.length := by
  induction bs with
  | nil => rfl
  | cons b bs ih => simp only [hexEncode, List.length_cons, ih]; omega

theorem cutPrefix_append (p s : Str) : cutPrefix (p ++ s) p = some s := by
  induction p with
  | nil => cases s <;> rfl
  | cons c p ih => simp [cutPrefix, ih]

theorem atoiDigits_itoaAux : ∀ (f n : Nat) (acc : Str), n < f →
    atoiDigits (itoaAux f n acc) 0 = atoiDigits acc n := by
  intro f
  induction f with
  | zero => intro n acc h; omega
  | succ f ih =>
    intro n acc h
    simp only [itoaAux]
    split
    · rename_i h0
      have h1 : 48 ≤ 48 + n % 10 ∧ 48 + n % 10 ≤ 57 := by omega
      simp only [atoiDigits, h1, and_self, ↓reduceIte]
      congr 1
      have := Nat.div_add_mod n 10
      omega
    · rename_i h0
      rw [ih (n / 10) _ (by omega)]
      have h1 : 48 ≤ 48 + n % 10 ∧ 48 + n % 10 ≤ 57 := by omega
      simp only [atoiDigits, h1, and_self, ↓reduceIte]
      congr 1
      have := Nat.div_add_mod n 10
      omega

theorem itoaAux_digits : ∀ (f n : Nat) (acc : Str), (∀ c ∈ acc, 48 ≤ c ∧ c ≤ 57) → 0 < f →
    (∀ c ∈ itoaAux f n acc, 48 ≤ c ∧ c ≤ 57) ∧ itoaAux f n acc ≠ [] := by
  intro f
  induction f with
  | zero => intro n acc _ h; omega
  | succ f ih =>
    intro n acc hacc _
    simp only [itoaAux]
    have hacc' : ∀ c ∈ (48 + n % 10) :: acc, 48 ≤ c ∧ c ≤ 57 := by
      intro c hc
      rcases List.mem_cons.1 hc with rfl | hc
      · omega
      · exact hacc c hc
    split
    · exact ⟨hacc', by simp⟩
    · rename_i h0
      by_cases hf : f = 0
      · subst hf
        simp only [itoaAux]
        exact ⟨hacc', by simp⟩
      · exact ih (n / 10) _ hacc' (by omega)

theorem atoi_itoa (n : Nat) (h : n < 2 ^ 63) : atoi (itoa n) = some (n : Int) := by
  have hd := itoaAux_digits (n + 1) n [] (by simp) (by omega)
  have hv := atoiDigits_itoaAux (n + 1) n [] (by omega)
  unfold itoa at *
  generalize itoaAux (n + 1) n [] = s at hd hv
  cases s with
  | nil => exact absurd rfl hd.2
  | cons c cs =>
    have hc := hd.1 c (List.mem_cons_self ..)
    have h43 : c ≠ 43 := by omega
    have h45 : c ≠ 45 := by omega
    have hm : splitSign (c :: cs) = (false, c :: cs) := by
      unfold splitSign
      split
      · rename_i heq; simp only [List.cons.injEq] at heq; exact absurd heq.1 h43
      · rename_i heq; simp only [List.cons.injEq] at heq; exact absurd heq.1 h45
      · rfl
    unfold atoi
    simp only [hm, List.isEmpty_cons, Bool.false_eq_true, ↓reduceIte, hv, atoiDigits]
    simp [h]

theorem itoa_inj {a b : Nat} (ha : a < 2 ^ 63) (hb : b < 2 ^ 63) (h : itoa a = itoa b) : a = b := by
  have h1 := atoi_itoa a ha
  rw [h, atoi_itoa b hb] at h1
  have h2 : (a : Int) = (b : Int) := by simpa using h1.symm
  omega

/-! ### `valuesOf` and the structure of `render` -/

theorem valuesOf_append (k : Str) (a b : List Param) : valuesOf k (a ++ b) = valuesOf k a ++ valuesOf k b := by
  simp [valuesOf]

theorem valuesOf_map_const (k k' : Str) (t : List Str) :
    valuesOf k (t.map fun v => (k', v)) = if k' = k then t else [] := by
  unfold valuesOf
  by_cases h : k' = k
  · subst h; simp [List.filter_map, Function.comp_def]
  · simp [List.filter_map, Function.comp_def, h]

/-- Values written under the key `tr` (tiers of exactly one tracker). -/
def singles : List (List Str) → List Str
  | [] => []
  | t :: rest => (match t with | [x] => [x] | _ => []) ++ singles rest

/-- Tiers written under `tr.<i>` (two or more trackers), with their index. -/
def multiIdx : List (List Str) → Nat → List (Nat × List Str)
  | [], _ => []
  | t :: rest, j => (if 2 ≤ t.length then [(j, t)] else []) ++ multiIdx rest (j + 1)

def multiAt : List (List Str) → Nat → Nat → List Str
  | [], _, _ => []
  | t :: rest, j, i => (if j = i ∧ 2 ≤ t.length then t else []) ++ multiAt rest (j + 1) i

def trKey (i : Nat) : Str := kTrDot ++ itoa i

theorem trKey_ne_tr (i : Nat) : trKey i ≠ kTr := by
  intro h; have := congrArg List.length h; simp [trKey, kTrDot, kTr] at this

theorem dot_ne_xt (x : Str) : kTrDot ++ x ≠ kXt := by simp [kTrDot, kXt]
theorem dot_ne_dn (x : Str) : kTrDot ++ x ≠ kDn := by simp [kTrDot, kDn]
theorem dot_ne_pe (x : Str) : kTrDot ++ x ≠ kPe := by simp [kTrDot, kPe]

theorem trKey_inj {a b : Nat} (ha : a < 2 ^ 63) (hb : b < 2 ^ 63) (h : trKey a = trKey b) : a = b :=
  itoa_inj ha hb (List.append_cancel_left h)

theorem renderTier_cases (j : Nat) (t : List Str) :
    (t = [] ∧ renderTier j t = []) ∨ (∃ x, t = [x] ∧ renderTier j t = [(kTr, x)]) ∨
    (2 ≤ t.length ∧ renderTier j t = t.map fun v => (trKey j, v)) := by
  rcases t with _ | ⟨x, _ | ⟨y, r⟩⟩
  · left; exact ⟨rfl, rfl⟩
  · right; left; exact ⟨x, rfl, rfl⟩
  · right; right; exact ⟨by simp, rfl⟩

theorem valuesOf_renderTiers_other (k : Str) (hk : k ≠ kTr) (hd : ∀ i, k ≠ trKey i) (ts : List (List Str)) :
    ∀ j, valuesOf k (renderTiers ts j) = [] := by
  induction ts with
  | nil => intro j; rfl
  | cons t rest ih =>
    intro j
    simp only [renderTiers, valuesOf_append, ih]
    rcases renderTier_cases j t with ⟨_, h⟩ | ⟨x, _, h⟩ | ⟨_, h⟩
    · simp [h, valuesOf]
    · simp [h, valuesOf, Ne.symm hk]
    · rw [h, valuesOf_map_const]; simp [Ne.symm (hd j)]

theorem valuesOf_renderTiers_tr (ts : List (List Str)) : ∀ j, valuesOf kTr (renderTiers ts j) = singles ts := by
  induction ts with
  | nil => intro j; rfl
  | cons t rest ih =>
    intro j
    simp only [renderTiers, valuesOf_append, ih, singles]
    congr 1
    rcases renderTier_cases j t with ⟨h0, h⟩ | ⟨x, h0, h⟩ | ⟨h0, h⟩
    · subst h0; simp [valuesOf, renderTier]
    · subst h0; simp [valuesOf, renderTier]
    · rw [h, valuesOf_map_const]
      rcases t with _ | ⟨x, _ | ⟨y, r⟩⟩
      · simp at h0
      · simp at h0
      · simp [trKey_ne_tr]

theorem valuesOf_renderTiers_dot (i : Nat) (hi : i < 2 ^ 63) (ts : List (List Str)) :
    ∀ j, j + ts.length ≤ 2 ^ 63 → valuesOf (trKey i) (renderTiers ts j) = multiAt ts j i := by
  induction ts with
  | nil => intro j _; rfl
  | cons t rest ih =>
    intro j hj
    simp only [List.length_cons] at hj
    simp only [renderTiers, valuesOf_append, ih (j + 1) (by omega), multiAt]
    congr 1
    rcases renderTier_cases j t with ⟨h0, h⟩ | ⟨x, h0, h⟩ | ⟨h0, h⟩
    · subst h0; simp [h, valuesOf]
    · subst h0; simp [h, valuesOf, Ne.symm (trKey_ne_tr i)]
    · rw [h, valuesOf_map_const]
      by_cases hji : j = i
      · subst hji; simp [h0]
      · have : trKey j ≠ trKey i := fun e => hji (trKey_inj (by omega) hi e)
        simp [this, hji]

theorem multiIdx_bounds (ts : List (List Str)) : ∀ j, ∀ p ∈ multiIdx ts j, j ≤ p.1 ∧ p.1 < j + ts.length := by
  induction ts with
  | nil => intro j p hp; cases hp
  | cons t rest ih =>
    intro j p hp
    simp only [multiIdx, List.mem_append] at hp
    rcases hp with hp | hp
    · split at hp
      · simp only [List.mem_singleton] at hp; subst hp; simp
      · cases hp
    · have := ih (j + 1) p hp
      simp only [List.length_cons]; omega

theorem multiAt_lt (ts : List (List Str)) : ∀ j i, i < j → multiAt ts j i = [] := by
  induction ts with
  | nil => intro j i _; rfl
  | cons t rest ih =>
    intro j i h
    have : ¬ j = i := by omega
    simp [multiAt, this, ih (j + 1) i (by omega)]

theorem multiAt_of_mem (ts : List (List Str)) : ∀ j, ∀ p ∈ multiIdx ts j, multiAt ts j p.1 = p.2 := by
  induction ts with
  | nil => intro j p hp; cases hp
  | cons t rest ih =>
    intro j p hp
    simp only [multiIdx, List.mem_append] at hp
    rcases hp with hp | hp
    · split at hp
      · rename_i h2
        simp only [List.mem_singleton] at hp; subst hp
        simp [multiAt, h2, multiAt_lt rest (j + 1) j (by omega)]
      · cases hp
    · have hb := multiIdx_bounds rest (j + 1) p hp
      have : ¬ j = p.1 := by omega
      simp [multiAt, this, ih (j + 1) p hp]

theorem mem_keys_renderTier (k : Str) (j : Nat) (t : List Str) :
    k ∈ (renderTier j t).map (·.1) ↔ (k = kTr ∧ ∃ x, t = [x]) ∨ (k = trKey j ∧ 2 ≤ t.length) := by
  rcases t with _ | ⟨x, _ | ⟨y, r⟩⟩
  · simp [renderTier]
  · simp [renderTier]
  · simp [renderTier, trKey]
    intro _ _ h; exact h.symm

theorem singles_cons_ne_nil (t : List Str) (rest : List (List Str)) :
    singles (t :: rest) ≠ [] ↔ (∃ x, t = [x]) ∨ singles rest ≠ [] := by
  rcases t with _ | ⟨x, _ | ⟨y, r⟩⟩ <;> simp [singles]

theorem mem_multiKeys_cons (k : Str) (t : List Str) (rest : List (List Str)) (j : Nat) :
    k ∈ (multiIdx (t :: rest) j).map (fun p => trKey p.1) ↔
      (k = trKey j ∧ 2 ≤ t.length) ∨ k ∈ (multiIdx rest (j + 1)).map (fun p => trKey p.1) := by
  simp only [multiIdx, List.map_append, List.mem_append]
  by_cases h : 2 ≤ t.length <;> simp [h]

/-- Keys written by `renderTiers`. -/
theorem mem_keys_renderTiers (k : Str) (ts : List (List Str)) :
    ∀ j, k ∈ (renderTiers ts j).map (·.1) ↔
      (k = kTr ∧ singles ts ≠ []) ∨ k ∈ (multiIdx ts j).map (fun p => trKey p.1) := by
  induction ts with
  | nil => intro j; simp [renderTiers, singles, multiIdx]
  | cons t rest ih =>
    intro j
    rw [renderTiers, List.map_append, List.mem_append, ih (j + 1), mem_keys_renderTier,
      singles_cons_ne_nil, mem_multiKeys_cons]
    grind

/-! ### Sorting is a permutation -/

theorem insertTier_perm (t : TrackerTier) (l : List TrackerTier) : (insertTier t l).Perm (t :: l) := by
  induction l with
  | nil => exact List.Perm.refl _
  | cons x xs ih =>
    simp only [insertTier]
    split
    · exact List.Perm.refl _
    · exact (List.Perm.cons x ih).trans (List.Perm.swap t x xs)

theorem sortTiers_perm (l : List TrackerTier) : (sortTiers l).Perm l := by
  induction l with
  | nil => exact List.Perm.refl _
  | cons t ts ih => exact (insertTier_perm t _).trans (List.Perm.cons t ih)

theorem singleTiers_trackers (vals : List Str) (n : Nat) : ∀ i, (singleTiers vals n i).map (·.trackers) = vals.map ([·]) := by
  induction vals with
  | nil => intro i; simp [singleTiers]
  | cons v rest ih => intro i; simp [singleTiers, ih]

/-! ### The canonical key list of a rendered link -/

def multiKeys (ts : List (List Str)) (j : Nat) : List Str := (multiIdx ts j).map fun p => trKey p.1

def canonKeys (m : Magnet) : List Str :=
  kXt :: ((if m.name ≠ [] then [kDn] else []) ++ ((if singles m.trackers ≠ [] then [kTr] else []) ++
    (multiKeys m.trackers 0 ++ (if m.peers ≠ [] then [kPe] else []))))

theorem multiKeys_nodup (ts : List (List Str)) : ∀ j, j + ts.length ≤ 2 ^ 63 → (multiKeys ts j).Nodup := by
  induction ts with
  | nil => intro j _; simp [multiKeys, multiIdx]
  | cons t rest ih =>
    intro j hj
    simp only [List.length_cons] at hj
    have ih' := ih (j + 1) (by omega)
    unfold multiKeys at *
    simp only [multiIdx, List.map_append]
    split
    · simp only [List.map_cons, List.map_nil, List.singleton_append, List.nodup_cons]
      refine ⟨?_, ih'⟩
      intro hmem
      obtain ⟨p, hp, hkey⟩ := List.mem_map.1 hmem
      have hb := multiIdx_bounds rest (j + 1) p hp
      have := trKey_inj (by omega) (by omega) hkey
      omega
    · simpa using ih'

theorem mem_multiKeys_dot {k : Str} {ts : List (List Str)} {j : Nat} (h : k ∈ multiKeys ts j) : ∃ i, k = trKey i := by
  obtain ⟨p, _, rfl⟩ := List.mem_map.1 h
  exact ⟨p.1, rfl⟩

theorem canonKeys_nodup (m : Magnet) (hlen : m.trackers.length ≤ 2 ^ 63) : (canonKeys m).Nodup := by
  have hmk := multiKeys_nodup m.trackers 0 (by omega)
  have c1 : kXt ≠ kDn := by decide
  have c2 : kXt ≠ kTr := by decide
  have c3 : kXt ≠ kPe := by decide
  have c4 : kDn ≠ kTr := by decide
  have c5 : kDn ≠ kPe := by decide
  have c6 : kTr ≠ kPe := by decide
  unfold canonKeys
  rw [List.nodup_cons]
  constructor
  · simp only [List.mem_append, not_or]
    refine ⟨?_, ?_, ?_, ?_⟩
    · split <;> simp [c1]
    · split <;> simp [c2]
    · intro h; obtain ⟨i, hi⟩ := mem_multiKeys_dot h; exact dot_ne_xt _ hi.symm
    · split <;> simp [c3]
  · rw [List.nodup_append]
    refine ⟨by split <;> simp, ?_, ?_⟩
    · rw [List.nodup_append]
      refine ⟨by split <;> simp, ?_, ?_⟩
      · rw [List.nodup_append]
        refine ⟨hmk, by split <;> simp, ?_⟩
        intro a ha b hb
        obtain ⟨i, rfl⟩ := mem_multiKeys_dot ha
        split at hb
        · simp only [List.mem_singleton] at hb; subst hb; exact dot_ne_pe _
        · cases hb
      · intro a ha b hb
        split at ha
        · simp only [List.mem_singleton] at ha; subst ha
          rcases List.mem_append.1 hb with hb | hb
          · obtain ⟨i, rfl⟩ := mem_multiKeys_dot hb; exact (trKey_ne_tr i).symm
          · split at hb
            · simp only [List.mem_singleton] at hb; subst hb; exact c6
            · cases hb
        · cases ha
    · intro a ha b hb
      split at ha
      · simp only [List.mem_singleton] at ha; subst ha
        rcases List.mem_append.1 hb with hb | hb
        · split at hb
          · simp only [List.mem_singleton] at hb; subst hb; exact c4
          · cases hb
        · rcases List.mem_append.1 hb with hb | hb
          · obtain ⟨i, rfl⟩ := mem_multiKeys_dot hb; exact (dot_ne_dn _).symm
          · split at hb
            · simp only [List.mem_singleton] at hb; subst hb; exact c5
            · cases hb
      · cases ha

theorem mem_canonKeys (m : Magnet) (k : Str) : k ∈ canonKeys m ↔ k ∈ (render m).map (·.1) := by
  unfold canonKeys render
  simp only [List.map_append, List.mem_append, List.mem_cons, List.map_cons,
    List.cons_append, List.nil_append, mem_keys_renderTiers, multiKeys, List.map_map]
  have hd : k ∈ (if m.name ≠ [] then [kDn] else []) ↔
      k ∈ List.map (fun p : Param => p.1) (if m.name ≠ [] then [(kDn, m.name)] else []) := by
    split <;> simp
  have hp : k ∈ (if m.peers ≠ [] then [kPe] else []) ↔ k ∈ List.map ((fun p : Param => p.1) ∘ fun p => (kPe, p)) m.peers := by
    cases m.peers with
    | nil => simp
    | cons a b => simp [Function.comp_def]; intro _ _ h; exact h.symm
  have ht : k ∈ (if singles m.trackers ≠ [] then [kTr] else []) ↔ (k = kTr ∧ singles m.trackers ≠ []) := by
    split <;> simp [*]
  rw [hd, hp, ht]
  grind

/-! ### Tiers obtained from the canonical order -/

theorem tiersOfKey_multiKeys (ps : List Param) (ts0 : List (List Str))
    (hv : ∀ p ∈ multiIdx ts0 0, valuesOf (trKey p.1) ps = p.2) (hlen : ts0.length ≤ 2 ^ 63) :
    ((multiKeys ts0 0).flatMap (tiersOfKey ps)).map (·.trackers) = (multiIdx ts0 0).map (·.2) := by
  unfold multiKeys
  suffices h : ∀ l : List (Nat × List Str), (∀ p ∈ l, p ∈ multiIdx ts0 0) →
      ((l.map fun p => trKey p.1).flatMap (tiersOfKey ps)).map (·.trackers) = l.map (·.2) from
    h _ (fun p hp => hp)
  intro l
  induction l with
  | nil => intro _; rfl
  | cons p rest ih =>
    intro hl
    have hp := hl p (List.mem_cons_self ..)
    have hb := multiIdx_bounds ts0 0 p hp
    have hlt : p.1 < 2 ^ 63 := by omega
    simp only [List.map_cons, List.flatMap_cons, List.map_append, ih (fun q hq => hl q (List.mem_cons_of_mem _ hq))]
    congr 1
    unfold tiersOfKey
    simp only [trKey_ne_tr, ↓reduceIte]
    have : cutPrefix (trKey p.1) kTrDot = some (itoa p.1) := cutPrefix_append _ _
    simp only [this, atoi_itoa p.1 hlt]
    simp [hv p hp]

/-! ### Values of each key in a rendered link -/

theorem valuesOf_peers_other (k : Str) (hk : k ≠ kPe) (peers : List Str) :
    valuesOf k (peers.map fun p => (kPe, p)) = [] := by
  rw [valuesOf_map_const]; simp [Ne.symm hk]

theorem valuesOf_single_ne (k k' v : Str) (h : k' ≠ k) : valuesOf k [(k', v)] = [] := by
  simp [valuesOf, h]

theorem valuesOf_single_eq (k v : Str) : valuesOf k [(k, v)] = [v] := by
  simp [valuesOf]

theorem valuesOf_dnPart (k : Str) (hk : kDn ≠ k) (name : Str) :
    valuesOf k (if name ≠ [] then [(kDn, name)] else []) = [] := by
  split
  · exact valuesOf_single_ne _ _ _ hk
  · rfl

theorem values_xt (m : Magnet) : valuesOf kXt (render m) = [pBtih ++ hexEncode m.ih] := by
  unfold render
  rw [valuesOf_append, valuesOf_append, valuesOf_append,
    valuesOf_renderTiers_other kXt (by decide) (fun i => (dot_ne_xt _).symm),
    valuesOf_peers_other kXt (by decide), valuesOf_dnPart kXt (by decide), valuesOf_single_eq]
  rfl

theorem values_dn (m : Magnet) : valuesOf kDn (render m) = if m.name ≠ [] then [m.name] else [] := by
  unfold render
  rw [valuesOf_append, valuesOf_append, valuesOf_append,
    valuesOf_renderTiers_other kDn (by decide) (fun i => (dot_ne_dn _).symm),
    valuesOf_peers_other kDn (by decide), valuesOf_single_ne kDn kXt _ (by decide)]
  split
  · rw [valuesOf_single_eq]; rfl
  · rfl

theorem values_pe (m : Magnet) : valuesOf kPe (render m) = m.peers := by
  unfold render
  rw [valuesOf_append, valuesOf_append, valuesOf_append,
    valuesOf_renderTiers_other kPe (by decide) (fun i => (dot_ne_pe _).symm), valuesOf_map_const,
    valuesOf_dnPart kPe (by decide), valuesOf_single_ne kPe kXt _ (by decide)]
  simp

theorem values_tr (m : Magnet) : valuesOf kTr (render m) = singles m.trackers := by
  unfold render
  rw [valuesOf_append, valuesOf_append, valuesOf_append,
    valuesOf_renderTiers_tr, valuesOf_peers_other kTr (by decide),
    valuesOf_dnPart kTr (by decide), valuesOf_single_ne kTr kXt _ (by decide)]
  simp

theorem values_dot (m : Magnet) (i : Nat) (hi : i < 2 ^ 63) (hlen : m.trackers.length ≤ 2 ^ 63) :
    valuesOf (trKey i) (render m) = multiAt m.trackers 0 i := by
  unfold render
  rw [valuesOf_append, valuesOf_append, valuesOf_append,
    valuesOf_renderTiers_dot i hi _ 0 (by omega), valuesOf_peers_other (trKey i) (dot_ne_pe (itoa i)),
    valuesOf_dnPart (trKey i) (dot_ne_dn (itoa i)).symm, valuesOf_single_ne (trKey i) kXt _ (dot_ne_xt (itoa i)).symm]
  simp

theorem tiersOfKey_const (ps : List Param) (k : Str) (h1 : k ≠ kTr) (h2 : cutPrefix k kTrDot = none) :
    tiersOfKey ps k = [] := by
  unfold tiersOfKey; simp [h1, h2]

/-- The tiers produced from the canonical key order. -/
theorem rawTiers_canon (m : Magnet) (hlen : m.trackers.length ≤ 2 ^ 63) :
    (rawTiers (canonKeys m) (render m)).map (·.trackers) =
      (singles m.trackers).map ([·]) ++ (multiIdx m.trackers 0).map (·.2) := by
  unfold rawTiers canonKeys
  simp only [List.flatMap_cons, List.flatMap_append, List.map_append]
  have e1 : tiersOfKey (render m) kXt = [] := tiersOfKey_const _ _ (by decide) (by decide)
  have e2 : (if m.name ≠ [] then [kDn] else []).flatMap (tiersOfKey (render m)) = [] := by
    split
    · simp [tiersOfKey_const (render m) kDn (by decide) (by decide)]
    · rfl
  have e3 : (if m.peers ≠ [] then [kPe] else []).flatMap (tiersOfKey (render m)) = [] := by
    split
    · simp [tiersOfKey_const (render m) kPe (by decide) (by decide)]
    · rfl
  have e4 : ((if singles m.trackers ≠ [] then [kTr] else []).flatMap (tiersOfKey (render m))).map (·.trackers) =
      (singles m.trackers).map ([·]) := by
    split
    · simp only [List.flatMap_cons, List.flatMap_nil, List.append_nil]
      unfold tiersOfKey
      simp only [↓reduceIte, values_tr, singleTiers_trackers]
    · rename_i h
      have : singles m.trackers = [] := by simpa using h
      simp [this]
  have e5 := tiersOfKey_multiKeys (render m) m.trackers (by
    intro p hp
    have hb := multiIdx_bounds m.trackers 0 p hp
    rw [values_dot m p.1 (by omega) hlen]
    exact multiAt_of_mem m.trackers 0 p hp) hlen
  rw [e1, e2, e3, e4, e5]
  simp

theorem tiers_perm (ts : List (List Str)) : ∀ j,
    ((singles ts).map ([·]) ++ (multiIdx ts j).map (·.2)).Perm (ts.filter (· ≠ [])) := by
  induction ts with
  | nil => intro j; simp [singles, multiIdx]
  | cons t rest ih =>
    intro j
    rcases t with _ | ⟨x, _ | ⟨y, r⟩⟩
    · simpa [singles, multiIdx] using ih (j + 1)
    · simpa [singles, multiIdx] using ih (j + 1)
    · have h2 : 2 ≤ (x :: y :: r).length := by simp
      simp only [singles, List.nil_append, multiIdx, h2, ↓reduceIte, List.map_cons,
        List.singleton_append, ne_eq, reduceCtorEq, not_false_eq_true, decide_true,
        List.filter_cons_of_pos]
      exact List.perm_middle.trans (List.Perm.cons _ (ih (j + 1)))

/-- All admissible iteration orders give the same multiset of tiers. -/
theorem rawTiers_order_perm (m : Magnet) (hlen : m.trackers.length ≤ 2 ^ 63) (order : List Str)
    (hnd : order.Nodup) (hmem : ∀ k, k ∈ order ↔ k ∈ (render m).map (·.1)) :
    ((sortTiers (rawTiers order (render m))).map (·.trackers)).Perm (m.trackers.filter (· ≠ [])) := by
  have hperm : order.Perm (canonKeys m) :=
    (List.perm_ext_iff_of_nodup hnd (canonKeys_nodup m hlen)).2 (fun k => by rw [hmem, mem_canonKeys])
  have h1 : (rawTiers order (render m)).Perm (rawTiers (canonKeys m) (render m)) :=
    List.Perm.flatMap_right _ hperm
  have h2 := ((sortTiers_perm _).trans h1).map (·.trackers)
  rw [rawTiers_canon m hlen] at h2
  exact h2.trans (tiers_perm m.trackers 0)

end Rain.Magnet
