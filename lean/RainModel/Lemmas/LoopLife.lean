import RainModel.Lemmas.LoopComp
/-!
C04 lifecycle invariant `Life`: a stopped (or stopping) torrent holds nothing; what is loaded has its
files; nothing exists before the metadata.  Preservation by every handler, `step`, `reconcile`.
-/
namespace Rain.Loop

/-- Every non-padding file of the torrent exists in the storage. -/
def FilesExist (s : St) : Prop :=
  ∀ f, f < s.cfg.flens.length → s.cfg.fpads.getD f false = false → s.fileExists.getD f false = true

structure Life (s : St) : Prop where
  sa : s.stopAnn = true → s.errC = true
  idle : (s.errC = false ∨ s.stopAnn = true) →
    s.allocator = false ∧ s.verifier = false ∧ s.loaded = false ∧ s.acceptor = false ∧
    s.openFiles = [] ∧ s.peers = [] ∧ s.dls = [] ∧ s.idls = []
  leaked : s.leaked = 0
  fe : s.loaded = true → FilesExist s
  run : s.errC = true → s.stopAnn = false → s.allocator = false → s.info = true → s.loaded = true
  ni : s.info = false → s.allocator = false ∧ s.verifier = false ∧ s.loaded = false ∧ s.completed = false ∧ s.bf = none
  ver : s.verifier = true → s.loaded = true

theorem Life.running_of_peer {s : St} (h : Life s) {k : Nat} (hk : (s.findPeer k).isSome = true) : Running s := by
  unfold Running
  cases he : s.errC <;> cases hs : s.stopAnn <;> simp
  all_goals
    have := (h.idle (by simp [he, hs])).2.2.2.2.2.1
    simp [St.findPeer, this] at hk

theorem Life.running_of_alloc {s : St} (h : Life s) (ha : s.allocator = true) : Running s := by
  unfold Running
  cases he : s.errC <;> cases hs : s.stopAnn <;> simp
  all_goals
    have := (h.idle (by simp [he, hs])).1
    simp [ha] at this

theorem Life.running_of_ver {s : St} (h : Life s) (ha : s.verifier = true) : Running s := by
  unfold Running
  cases he : s.errC <;> cases hs : s.stopAnn <;> simp
  all_goals
    have := (h.idle (by simp [he, hs])).2.1
    simp [ha] at this

theorem Life.running_of_acceptor {s : St} (h : Life s) (ha : s.acceptor = true) : Running s := by
  unfold Running
  cases he : s.errC <;> cases hs : s.stopAnn <;> simp
  all_goals
    have := (h.idle (by simp [he, hs])).2.2.2.1
    simp [ha] at this

/-- A handler that runs on a running torrent and touches none of the scalar lifecycle fields. -/
theorem Life.of_running_frame {s s' : St} (h : Life s) (hr : Running s)
    (h1 : s'.errC = s.errC) (h2 : s'.stopAnn = s.stopAnn) (h3 : s'.allocator = s.allocator)
    (h4 : s'.verifier = s.verifier) (h5 : s'.loaded = s.loaded) (h6 : s'.leaked = s.leaked)
    (h7 : s'.info = s.info) (h8 : s'.completed = s.completed) (h9 : s'.bf = s.bf)
    (h10 : s'.fileExists = s.fileExists) (h11 : s'.cfg = s.cfg) : Life s' := by
  obtain ⟨he, hs⟩ := hr
  refine ⟨?_, ?_, ?_, ?_, ?_, ?_, ?_⟩
  · rw [h1, h2]; exact h.sa
  · rw [h1, h2, he, hs]; intro hh; simp at hh
  · rw [h6]; exact h.leaked
  · rw [h5]; intro hl; have := h.fe hl; unfold FilesExist at *; rw [h10, h11]; exact this
  · rw [h1, h2, h3, h5, h7]; exact h.run
  · rw [h3, h4, h5, h7, h8, h9]; exact h.ni
  · rw [h4, h5]; exact h.ver

/-- Closes `Life (H m).1` for handlers covered by `Life.of_running_frame`. -/
macro "life_frame" h:term "," hr:term : tactic =>
  `(tactic| (apply Life.of_running_frame $h $hr <;> (simp; done)))

/-- A handler that touches none of the fields `Life` reads (any state). -/
theorem Life.of_frame {s s' : St} (h : Life s)
    (h1 : s'.errC = s.errC) (h2 : s'.stopAnn = s.stopAnn) (h3 : s'.allocator = s.allocator)
    (h4 : s'.verifier = s.verifier) (h5 : s'.loaded = s.loaded) (h6 : s'.leaked = s.leaked)
    (h7 : s'.info = s.info) (h8 : s'.completed = s.completed) (h9 : s'.bf = s.bf)
    (h10 : s'.fileExists = s.fileExists) (h11 : s'.cfg = s.cfg)
    (h12 : s'.acceptor = s.acceptor) (h13 : s'.openFiles = s.openFiles) (h14 : s'.peers = s.peers)
    (h15 : s'.dls = s.dls) (h16 : s'.idls = s.idls) : Life s' := by
  refine ⟨?_, ?_, ?_, ?_, ?_, ?_, ?_⟩
  · rw [h1, h2]; exact h.sa
  · rw [h1, h2, h3, h4, h5, h12, h13, h14, h15, h16]; exact h.idle
  · rw [h6]; exact h.leaked
  · rw [h5]; intro hl; have := h.fe hl; unfold FilesExist at *; rw [h10, h11]; exact this
  · rw [h1, h2, h3, h5, h7]; exact h.run
  · rw [h3, h4, h5, h7, h8, h9]; exact h.ni
  · rw [h4, h5]; exact h.ver

/-- Only `fileExists` changed, and now every file exists. -/
theorem Life.set_files {s s' : St} (h : Life s)
    (h1 : s'.errC = s.errC) (h2 : s'.stopAnn = s.stopAnn) (h3 : s'.allocator = s.allocator)
    (h4 : s'.verifier = s.verifier) (h5 : s'.loaded = s.loaded) (h6 : s'.leaked = s.leaked)
    (h7 : s'.info = s.info) (h8 : s'.completed = s.completed) (h9 : s'.bf = s.bf)
    (_h11 : s'.cfg = s.cfg)
    (h12 : s'.acceptor = s.acceptor) (h13 : s'.openFiles = s.openFiles) (h14 : s'.peers = s.peers)
    (h15 : s'.dls = s.dls) (h16 : s'.idls = s.idls) (hfe : FilesExist s') : Life s' := by
  refine ⟨?_, ?_, ?_, ?_, ?_, ?_, ?_⟩
  · rw [h1, h2]; exact h.sa
  · rw [h1, h2, h3, h4, h5, h12, h13, h14, h15, h16]; exact h.idle
  · rw [h6]; exact h.leaked
  · intro _; exact hfe
  · rw [h1, h2, h3, h5, h7]; exact h.run
  · rw [h3, h4, h5, h7, h8, h9]; exact h.ni
  · rw [h4, h5]; exact h.ver

/-- `s'` agrees with `s` on every field `Life` reads. -/
structure LFrame (s s' : St) : Prop where
  h1 : s'.errC = s.errC
  h2 : s'.stopAnn = s.stopAnn
  h3 : s'.allocator = s.allocator
  h4 : s'.verifier = s.verifier
  h5 : s'.loaded = s.loaded
  h6 : s'.leaked = s.leaked
  h7 : s'.info = s.info
  h8 : s'.completed = s.completed
  h9 : s'.bf = s.bf
  h10 : s'.fileExists = s.fileExists
  h11 : s'.cfg = s.cfg
  h12 : s'.acceptor = s.acceptor
  h13 : s'.openFiles = s.openFiles
  h14 : s'.peers = s.peers
  h15 : s'.dls = s.dls
  h16 : s'.idls = s.idls

/-- `s'` agrees with `s` on every field `Life` reads of a running torrent. -/
structure RFrame (s s' : St) : Prop where
  h1 : s'.errC = s.errC
  h2 : s'.stopAnn = s.stopAnn
  h3 : s'.allocator = s.allocator
  h4 : s'.verifier = s.verifier
  h5 : s'.loaded = s.loaded
  h6 : s'.leaked = s.leaked
  h7 : s'.info = s.info
  h8 : s'.completed = s.completed
  h9 : s'.bf = s.bf
  h10 : s'.fileExists = s.fileExists
  h11 : s'.cfg = s.cfg

theorem Life.congr {s s' : St} (h : Life s) (f : LFrame s s') : Life s' :=
  h.of_frame f.h1 f.h2 f.h3 f.h4 f.h5 f.h6 f.h7 f.h8 f.h9 f.h10 f.h11 f.h12 f.h13 f.h14 f.h15 f.h16

theorem Life.congrR {s s' : St} (h : Life s) (hr : Running s) (f : RFrame s s') : Life s' :=
  h.of_running_frame hr f.h1 f.h2 f.h3 f.h4 f.h5 f.h6 f.h7 f.h8 f.h9 f.h10 f.h11

/-- Proves an `LFrame`/`RFrame` by the frame simp lemmas. -/
macro "lframe" : tactic => `(tactic| (constructor <;> first | rfl | (simp; done)))

/-! ### what `stop` leaves behind -/

theorem stop_life (s : St) (e : Bool) (h : Life s) : Life (s.stop e) := by
  rw [stop_eq]
  split
  · exact h
  · next hst =>
    have herr : s.errC = true := by
      cases he : s.errC
      · exact absurd (Or.inr ((status_stopped_iff s).2 he)) hst
      · rfl
    obtain ⟨f1, f2, f3, f4, f5, f6, f7, f8, f9⟩ := stopRun_fields s e
    refine ⟨?_, ?_, ?_, ?_, ?_, ?_, ?_⟩
    · intro _; simpa using herr
    · intro _; exact ⟨f2, f3, f4, f5, f6, f7, f8, f9⟩
    · simpa using h.leaked
    · intro hl; rw [f4] at hl; cases hl
    · intro _ h2; rw [f1] at h2; cases h2
    · intro hi
      have := h.ni (by simpa using hi)
      refine ⟨f2, f3, f4, by simpa using this.2.2.2.1, ?_⟩
      have hbf := stop_bf s e
      rw [stop_eq, if_neg hst] at hbf
      rcases hbf with hb | hb
      · rw [hb]; exact this.2.2.2.2
      · exact hb
    · intro hv; rw [f3] at hv; cases hv

/-- `stop` on a running torrent needs very little of its argument. -/
theorem stop_life' (s : St) (e : Bool) (hr : Running s) (hl : s.leaked = 0)
    (hni : s.info = false → s.completed = false ∧ s.bf = none) : Life (s.stop e) := by
  rw [stop_eq]
  have hst : ¬(s.status = .stopping ∨ s.status = .stopped) := by
    rintro (h | h)
    · have := ((status_stopping_iff s).1 h).2; rw [hr.2] at this; cases this
    · have := (status_stopped_iff s).1 h; rw [hr.1] at this; cases this
  rw [if_neg hst]
  obtain ⟨f1, f2, f3, f4, f5, f6, f7, f8, f9⟩ := stopRun_fields s e
  refine ⟨?_, ?_, ?_, ?_, ?_, ?_, ?_⟩
  · intro _; simpa using hr.1
  · intro _; exact ⟨f2, f3, f4, f5, f6, f7, f8, f9⟩
  · simpa using hl
  · intro hl; rw [f4] at hl; cases hl
  · intro _ h2; rw [f1] at h2; cases h2
  · intro hi
    have := hni (by simpa using hi)
    refine ⟨f2, f3, f4, by simpa using this.1, ?_⟩
    have hbf := stop_bf s e
    rw [stop_eq, if_neg hst] at hbf
    rcases hbf with hb | hb
    · rw [hb]; exact this.2
    · exact hb
  · intro hv; rw [f3] at hv; cases hv

/-- A loaded, running torrent whose files exist satisfies `Life` whatever else is going on. -/
theorem Life.of_loaded {s : St} (hr : Running s) (hi : s.info = true) (hl : s.loaded = true)
    (hfe : FilesExist s) (hk : s.leaked = 0) : Life s := by
  obtain ⟨he, hs⟩ := hr
  refine ⟨?_, ?_, hk, fun _ => hfe, fun _ _ _ _ => hl, ?_, fun _ => hl⟩
  · rw [hs]; intro h; cases h
  · rw [he, hs]; intro h; simp at h
  · rw [hi]; intro h; cases h

theorem FilesExist.congr {s s' : St} (h : FilesExist s) (h1 : s'.fileExists = s.fileExists) (h2 : s'.cfg = s.cfg) :
    FilesExist s' := by
  unfold FilesExist at *
  rw [h1, h2]; exact h

/-! ### handlers on a running torrent that keep the lifecycle fields -/

theorem closePeer_life (s : St) (k : Nat) (h : Life s) (hr : Running s) : Life (s.closePeer k) := by life_frame h, hr
theorem handlePieceMessage_life (m : M) (k i b l : Nat) (g : Bool) (h : Life m.1) (hr : Running m.1) :
    Life (handlePieceMessage m k i b l g).1 := by life_frame h, hr
theorem handlePeerMessage_life (m : M) (k : Nat) (msg : Msg) (h : Life m.1) (hr : Running m.1) :
    Life (handlePeerMessage m k msg).1 := by life_frame h, hr
theorem processQueued_life (m : M) (h : Life m.1) (hr : Running m.1) : Life (processQueued m).1 := by
  life_frame h, hr
theorem handleExtHandshake_life (m : M) (k : Nat) (hm : Bool) (sz : Nat) (hp : Bool) (h : Life m.1)
    (hr : Running m.1) : Life (handleExtHandshake m k hm sz hp).1 := by life_frame h, hr
theorem handlePeerSnubbed_life (m : M) (k : Nat) (h : Life m.1) (hr : Running m.1) :
    Life (handlePeerSnubbed m k).1 := by life_frame h, hr
theorem handleMetadataReject_life (m : M) (k : Nat) (h : Life m.1) (hr : Running m.1) :
    Life (handleMetadataReject m k).1 := by life_frame h, hr
theorem acceptPeer_life (m : M) (k : Nat) (ip : String) (fast ext bad dup : Bool) (h : Life m.1)
    (hr : Running m.1) : Life (acceptPeer m k ip fast ext bad dup).1.1 := by life_frame h, hr

theorem handlePex_life (m : M) (a d : Bool) (h : Life m.1) : Life (handlePex m a d).1 := by
  exact h.of_frame (by simp) (by simp) (by simp) (by simp) (by simp) (by simp) (by simp) (by simp) (by simp)
    (by simp) (by simp) (by simp) (by simp) (by simp) (by simp) (by simp)
theorem handleDhtPeers_life (m : M) (ne : Bool) (h : Life m.1) : Life (handleDhtPeers m ne).1 := by
  exact h.of_frame (by simp) (by simp) (by simp) (by simp) (by simp) (by simp) (by simp) (by simp) (by simp)
    (by simp) (by simp) (by simp) (by simp) (by simp) (by simp) (by simp)

/-! ### commands -/

theorem startCore_life (m : M) (h : Life m.1) (he' : m.1.errC = false) : Life (startCore m).1 := by
  obtain ⟨i1, i2, i3, i4, i5, i6, i7, i8⟩ := h.idle (Or.inl he')
  have hk := h.leaked
  have hni := h.ni
  unfold startCore
  dsimp only
  repeat' split
  all_goals (constructor <;> simp_all [St.crash, FilesExist])

theorem handleStopped_life (m : M) (h : Life m.1) (hs : m.1.stopAnn = true) : Life (handleStopped m).1 := by
  obtain ⟨i1, i2, i3, i4, i5, i6, i7, i8⟩ := h.idle (Or.inr hs)
  have hk := h.leaked
  have hni := h.ni
  have h0 : Life { m.1 with stopAnn := false, errC := false } := by
    constructor <;> simp_all [FilesExist]
  unfold handleStopped
  dsimp only
  split
  · apply startCore_life _ _ (by simp)
    simp only [onSt_fst]
    have hni0 := h0.ni
    have hid0 := h0.idle
    have hk0 := h0.leaked
    constructor <;> simp_all [FilesExist]
  · simpa using h0

theorem startPre_life (m : M) (h : Life m.1) : Life (startPre m).1 := by
  unfold startPre
  split
  · next hs =>
    exact handleStopped_life _ (h.of_frame rfl rfl rfl rfl rfl rfl rfl rfl rfl rfl rfl rfl rfl rfl rfl rfl) (by simpa using hs)
  · exact h

theorem startGo_life (m : M) (h : Life m.1) : Life (startGo m).1 := by
  unfold startGo
  split
  · exact h
  · next he => exact startCore_life m h (by simpa using he)

theorem start_life (m : M) (h : Life m.1) : Life (start m).1 := by
  rw [start_eq]
  exact startGo_life _ (startPre_life m h)

theorem handleVerifyCommand_life (m : M) (h : Life m.1) : Life (handleVerifyCommand m).1 := by
  unfold handleVerifyCommand
  dsimp only
  split
  · next hst =>
    have he : m.1.errC = false := by
      have := (status_stopped_iff (onSt m fun s => { s with doVerify := true }).1).1 hst
      simpa using this
    apply startCore_life _ _ (by simpa using he)
    simp only [onSt_fst]
    obtain ⟨i1, i2, i3, i4, i5, i6, i7, i8⟩ := h.idle (Or.inl he)
    have hk := h.leaked
    have hni := h.ni
    have hsa := h.sa
    constructor <;> simp_all [FilesExist]
  · simp only [onSt_fst]
    apply stop_life
    exact h.of_frame rfl rfl rfl rfl rfl rfl rfl rfl rfl rfl rfl rfl rfl rfl rfl rfl

/-- A running state in which the metadata is known and the allocator runs (what adoption of the metadata,
or `start`, produces). -/
theorem Life.of_allocating {s s' : St} (h : Life s) (hr : Running s)
    (h1 : s'.errC = s.errC) (h2 : s'.stopAnn = s.stopAnn) (h4 : s'.verifier = s.verifier)
    (h5 : s'.loaded = s.loaded) (h6 : s'.leaked = s.leaked)
    (h10 : s'.fileExists = s.fileExists) (h11 : s'.cfg = s.cfg)
    (hinfo : s'.info = true) (halloc : s'.allocator = true) : Life s' := by
  obtain ⟨he, hs⟩ := hr
  refine ⟨?_, ?_, ?_, ?_, ?_, ?_, ?_⟩
  · rw [h2, hs]; intro h; cases h
  · rw [h1, h2, he, hs]; intro h; simp at h
  · rw [h6]; exact h.leaked
  · rw [h5]; intro hl; exact (h.fe hl).congr h10 h11
  · intro _ _ ha; rw [halloc] at ha; cases ha
  · rw [hinfo]; intro h; cases h
  · rw [h4, h5]; exact h.ver

/-- The adopted metadata either stops the torrent (`StopAfterMetadata`) or starts the allocator. -/
theorem hmdStart_life (m : M) {s0 : St} (h : Life s0) (hr : Running s0)
    (h1 : m.1.errC = s0.errC) (h2 : m.1.stopAnn = s0.stopAnn) (h4 : m.1.verifier = s0.verifier)
    (h5 : m.1.loaded = s0.loaded) (h6 : m.1.leaked = s0.leaked)
    (h10 : m.1.fileExists = s0.fileExists) (h11 : m.1.cfg = s0.cfg) (hinfo : m.1.info = true) :
    Life (hmdStart m).1 := by
  unfold hmdStart
  split
  · simp only [onSt_fst]
    exact stop_life' _ _ (hr.congr h1 h2) (by rw [h6]; exact h.leaked) (fun hi => by rw [hinfo] at hi; cases hi)
  · simp only [onSt_fst]
    split
    · next ha => apply Life.of_allocating h hr <;> first | (simp; assumption) | (simpa using ha)
    · apply Life.of_allocating h hr <;> first | assumption | rfl

theorem hmdAdopt_life (m : M) (h : Life m.1) (hr : Running m.1) : Life (hmdAdopt m).1 := by
  have hk := h.leaked
  have hni := h.ni
  unfold hmdAdopt
  dsimp only
  repeat' split
  all_goals first
    | (simp only [onSt_fst]
       exact stop_life' _ _ hr hk (fun hi => ⟨(hni hi).2.2.2.1, (hni hi).2.2.2.2⟩))
    | exact hmdStart_life _ h hr rfl rfl rfl rfl rfl rfl rfl rfl

theorem handleMetadataData_life (m : M) (k i len : Nat) (g : Bool) (h : Life m.1) (hr : Running m.1) :
    Life (handleMetadataData m k i len g).1 := by
  -- closing the peer and flagging `mayStartI`
  have hclose : ∀ s : St, RFrame m.1 s → Life (onSt (closePeerM (s, m.2) k) fun s => { s with mayStartI := !s.info }).1 := by
    intro s f
    simp only [onSt_fst, closePeerM_fst]
    have hs := h.congrR hr f
    have hrs : Running s := hr.congr f.h1 f.h2
    exact (closePeer_life s k hs hrs).congr (by lframe)
  rw [handleMetadataData_eq]
  split
  · exact h
  unfold hmdBlock
  dsimp only
  split
  · exact hclose m.1 (by lframe)
  · split
    · exact hclose m.1 (by lframe)
    · split
      · exact hclose m.1 (by lframe)
      · split
        · simp only [onSt_fst]; exact h.congrR hr (by lframe)
        · split
          · exact hclose _ (by lframe)
          · exact hmdAdopt_life _ (h.congrR hr (by lframe)) (hr.congr rfl rfl)

/-! ### loaded and running: everything after a successful allocation -/

/-- Running, metadata known, pieces loaded, files present. -/
structure LoadedRun (s : St) : Prop where
  run : Running s
  info : s.info = true
  loaded : s.loaded = true
  fe : FilesExist s
  leaked : s.leaked = 0

theorem LoadedRun.life {s : St} (h : LoadedRun s) : Life s := Life.of_loaded h.run h.info h.loaded h.fe h.leaked

theorem LoadedRun.congr {s s' : St} (h : LoadedRun s) (h1 : s'.errC = s.errC) (h2 : s'.stopAnn = s.stopAnn)
    (h3 : s'.info = s.info) (h4 : s'.loaded = s.loaded) (h5 : s'.fileExists = s.fileExists) (h6 : s'.cfg = s.cfg)
    (h7 : s'.leaked = s.leaked) : LoadedRun s' :=
  ⟨h.run.congr h1 h2, h3 ▸ h.info, h4 ▸ h.loaded, h.fe.congr h5 h6, h7 ▸ h.leaked⟩

macro "lrun_frame" h:term : tactic => `(tactic| (apply LoadedRun.congr $h <;> first | rfl | (simp; done)))

theorem LoadedRun.stop {s : St} (h : LoadedRun s) (e : Bool) : Life (s.stop e) :=
  stop_life' s e h.run h.leaked (fun hi => by rw [h.info] at hi; cases hi)

theorem hadCheck_life (m : M) (h : LoadedRun m.1) : Life (hadCheck m).1 := by
  have h1 : LoadedRun m.1.checkCompletion.1 := by lrun_frame h
  unfold hadCheck
  dsimp only
  split
  · simp only [onSt_fst]; exact h1.stop _
  · refine LoadedRun.life ?_
    unfold hadReady
    simp only [onSt_fst]
    lrun_frame h1

theorem hadFresh_life (m : M) (h : LoadedRun m.1) : Life (hadFresh m).1 := by
  have h1 : LoadedRun (hadFreshInstall m).1 := by lrun_frame h
  unfold hadFresh
  dsimp only
  split
  · simp only [onSt_fst]
    have h2 : LoadedRun { (hadFreshInstall m).1 with doVerify := false } := by lrun_frame h1
    exact h2.stop _
  · exact hadCheck_life _ h1

theorem hadTrust_life (m : M) (b : List Bool) (h : LoadedRun m.1) : Life (hadTrust m b).1 := by
  unfold hadTrust
  apply hadCheck_life
  simp only [onSt_fst]
  lrun_frame h

theorem handleAllocationDone_life (m : M) (ex mi : Bool) (h : Life m.1) (ha : m.1.allocator = true)
    (hfe : FilesExist m.1) : Life (handleAllocationDone m ex mi).1 := by
  have hr := h.running_of_alloc ha
  have hinfo : m.1.info = true := by
    cases hi : m.1.info
    · have := (h.ni hi).1; rw [ha] at this; cases this
    · rfl
  have h0 : LoadedRun (hadForget (hadInstall m) mi).1 :=
    ⟨hr.congr (by simp) (by simp), by simpa using hinfo, by simp [hadInstall], hfe.congr (by simp) (by simp),
      by simpa using h.leaked⟩
  rw [handleAllocationDone_eq]
  dsimp only
  repeat' split
  all_goals first
    | exact hadTrust_life _ _ h0
    | exact hadFresh_life _ h0
    | (refine LoadedRun.life ?_; simp only [onSt_fst]; lrun_frame h0)

theorem allocatorRun_life (m : M) (h : Life m.1) (ha : m.1.allocator = true) : Life (allocatorRun m).1 := by
  have hr := h.running_of_alloc ha
  rw [allocatorRun_eq]
  split
  · unfold allocFail
    simp only [onSt_fst]
    refine stop_life' _ _ (hr.congr (by simp) (by simp)) (by simpa using h.leaked) (fun hi => ?_)
    have hi' : m.1.info = false := by simpa using hi
    refine ⟨by simpa using (h.ni hi').2.2.2.1, ?_⟩
    unfold hadForget
    simp only [onSt_fst]
    split
    · rfl
    · simpa using (h.ni hi').2.2.2.2
  · apply handleAllocationDone_life
    · simp only [allocOkOpen, allocData, onSt_fst]
      refine h.set_files rfl rfl rfl rfl rfl rfl rfl rfl rfl rfl rfl rfl rfl rfl rfl ?_
      intro f hf hp
      simp only [List.getD_eq_getElem?_getD] at hp
      simp [hf, hp]
    · simpa using ha
    · -- every non-padding file has just been opened
      intro f hf hp
      simp only [allocOkOpen, allocData, onSt_fst, List.getD_eq_getElem?_getD] at hf hp ⊢
      simp [hf, hp]

end Rain.Loop
