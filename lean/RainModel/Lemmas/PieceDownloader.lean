import RainModel.Model.PieceDownloader
import RainModel.Lemmas.Blocks
/-! Helper lemmas for the `PieceDownloader` theorems of C01 / C17. -/
namespace Rain.PD
open Rain.Blocks

/-! ### What `Tiles` says about a block list -/

/-- Blocks are non-empty, lie inside `[0,n)`, and are sorted without overlap. -/
structure WFBlocks (bl : List Block) (n : Nat) : Prop where
  pos : ∀ b ∈ bl, 0 < b.l
  within : ∀ b ∈ bl, b.b + b.l ≤ n
  sorted : bl.Pairwise (fun x y => x.b + x.l ≤ y.b)

theorem foldlM_paint {bl : List Block} : ∀ {m m' : List Bool}, bl.foldlM paint m = some m' →
    m.length ≤ m'.length ∧ (∀ b ∈ bl, m.length ≤ b.b ∧ b.b + b.l ≤ m'.length) ∧
    bl.Pairwise (fun x y => x.b + x.l ≤ y.b) := by
  induction bl with
  | nil =>
    intro m m' h
    simp [List.foldlM] at h
    subst h
    simp
  | cons b rest ih =>
    intro m m' h
    rw [List.foldlM_cons] at h
    by_cases hlt : b.b < m.length
    · simp [paint, hlt] at h
    · have hp : paint m b = some (m ++ List.replicate (b.b - m.length) false ++ List.replicate b.l true) := by
        simp [paint, hlt]
      rw [hp] at h
      have h' : rest.foldlM paint (m ++ List.replicate (b.b - m.length) false ++ List.replicate b.l true) = some m' := h
      obtain ⟨hlen, hall, hpw⟩ := ih h'
      have hl1 : (m ++ List.replicate (b.b - m.length) false ++ List.replicate b.l true).length = b.b + b.l := by
        simp; omega
      rw [hl1] at hlen hall
      refine ⟨by omega, ?_, ?_⟩
      · intro x hx
        simp only [List.mem_cons] at hx
        rcases hx with rfl | hx
        · exact ⟨by omega, hlen⟩
        · have := hall x hx
          exact ⟨by omega, this.2⟩
      · rw [List.pairwise_cons]
        exact ⟨fun y hy => (hall y hy).1, hpw⟩

theorem tiles_wf {bs : Nat} {secs : List Sec} {bl : List Block} (h : Tiles bs secs bl = true) :
    WFBlocks bl (total secs) := by
  unfold Tiles at h
  simp only [Bool.and_eq_true, List.all_eq_true, decide_eq_true_eq] at h
  obtain ⟨hall, hm⟩ := h
  cases hbm : blkMask bl with
  | none => simp [hbm] at hm
  | some m =>
    simp only [hbm, Bool.and_eq_true, decide_eq_true_eq] at hm
    obtain ⟨_, hin, hpw⟩ := foldlM_paint (m := []) hbm
    refine ⟨fun b hb => (hall b hb).1, fun b hb => ?_, hpw⟩
    have := (hin b hb).2
    omega

theorem calcBlocks_wf {bs : Nat} (hbs : 0 < bs) {secs : List Sec} {bl : List Block}
    (h : calcBlocks bs secs = some bl) : WFBlocks bl (total secs) := by
  unfold calcBlocks at h
  by_cases he : secs.isEmpty
  · simp [he] at h
  · simp only [he] at h
    have h' : runWith CB.nextBlock bs secs = bl := by simpa using h
    subst h'
    exact tiles_wf (runWith_tiles bs hbs secs)

def Covers (b : Block) (i : Nat) : Prop := b.b ≤ i ∧ i < b.b + b.l

instance (b : Block) (i : Nat) : Decidable (Covers b i) := by unfold Covers; exact inferInstance

theorem WFBlocks.disjoint {bl n} (h : WFBlocks bl n) {x y : Block} (hx : x ∈ bl) (hy : y ∈ bl) :
    x = y ∨ x.b + x.l ≤ y.b ∨ y.b + y.l ≤ x.b := by
  have h2 : bl.Pairwise (fun x y => x = y ∨ x.b + x.l ≤ y.b ∨ y.b + y.l ≤ x.b) :=
    h.sorted.imp (fun h => Or.inr (Or.inl h))
  have h3 : bl.Pairwise (flip (fun x y : Block => x = y ∨ x.b + x.l ≤ y.b ∨ y.b + y.l ≤ x.b)) :=
    h.sorted.imp (fun h => Or.inr (Or.inr h))
  exact List.Pairwise.forall_of_forall_of_flip (R := fun x y : Block => x = y ∨ x.b + x.l ≤ y.b ∨ y.b + y.l ≤ x.b)
    (fun _ _ => Or.inl rfl) h2 h3 hx hy

/-- Two blocks of the table with the same begin are the same block. -/
theorem WFBlocks.begin_inj {bl n} (h : WFBlocks bl n) {x y : Block} (hx : x ∈ bl) (hy : y ∈ bl)
    (hb : x.b = y.b) : x = y := by
  rcases h.disjoint hx hy with e | e | e
  · exact e
  · have := h.pos x hx; omega
  · have := h.pos y hy; omega

theorem WFBlocks.covers_unique {bl n} (h : WFBlocks bl n) {x y : Block} (hx : x ∈ bl) (hy : y ∈ bl)
    {i : Nat} (cx : Covers x i) (cy : Covers y i) : x = y := by
  unfold Covers at cx cy
  rcases h.disjoint hx hy with e | e | e
  · exact e
  · omega
  · omega

theorem WFBlocks.tail {b : Block} {bl n} (h : WFBlocks (b :: bl) n) : WFBlocks bl n :=
  ⟨fun x hx => h.pos x (List.mem_cons_of_mem _ hx), fun x hx => h.within x (List.mem_cons_of_mem _ hx),
   (List.pairwise_cons.mp h.sorted).2⟩

theorem WFBlocks.nodup_keys {bl n} (h : WFBlocks bl n) : (bl.map (·.b)).Nodup := by
  induction bl with
  | nil => simp
  | cons b rest ih =>
    simp only [List.map_cons, List.nodup_cons]
    refine ⟨?_, ih h.tail⟩
    intro hmem
    obtain ⟨y, hy, hyb⟩ := List.mem_map.mp hmem
    have := (List.pairwise_cons.mp h.sorted).1 y hy
    have hp := h.pos b List.mem_cons_self
    omega

/-! ### Go maps as lists -/

def pairOf (b : Block) : Nat × Nat := (b.b, b.l)

theorem mapInsert_fresh (m : List (Nat × Nat)) (k v : Nat) (h : ∀ e ∈ m, e.1 ≠ k) :
    mapInsert m k v = m ++ [(k, v)] := by
  unfold mapInsert
  have : m.any (fun e => e.1 == k) = false := by
    rw [List.any_eq_false]
    intro e he
    simpa using h e he
  simp [this]

theorem foldl_mapInsert (bl : List Block) : ∀ (acc : List (Nat × Nat)),
    (∀ e ∈ acc, ∀ b ∈ bl, e.1 ≠ b.b) → (bl.map (·.b)).Nodup →
    bl.foldl (fun m b => mapInsert m b.b b.l) acc = acc ++ bl.map pairOf := by
  induction bl with
  | nil => intro acc _ _; simp
  | cons b rest ih =>
    intro acc hacc hnd
    simp only [List.map_cons, List.nodup_cons] at hnd
    simp only [List.foldl_cons]
    rw [mapInsert_fresh acc b.b b.l (fun e he => hacc e he b List.mem_cons_self)]
    rw [ih _ ?_ hnd.2]
    · simp [pairOf]
    · intro e he x hx
      simp only [List.mem_append, List.mem_singleton] at he
      rcases he with he | rfl
      · exact hacc e he x (List.mem_cons_of_mem _ hx)
      · intro heq
        exact hnd.1 (List.mem_map.mpr ⟨x, hx, heq.symm⟩)

theorem makeBlocks_eq {bl : List Block} {n : Nat} (h : WFBlocks bl n) : makeBlocks bl = bl.map pairOf := by
  unfold makeBlocks
  rw [foldl_mapInsert bl [] (by simp) h.nodup_keys]
  simp

theorem lookup_pairs {bl : List Block} (hnd : (bl.map (·.b)).Nodup) (b l : Nat) :
    (bl.map pairOf).lookup b = some l ↔ (⟨b, l⟩ : Block) ∈ bl := by
  induction bl with
  | nil => simp
  | cons x rest ih =>
    simp only [List.map_cons, List.nodup_cons] at hnd
    simp only [List.map_cons, pairOf, List.lookup_cons, List.mem_cons]
    by_cases hx : b = x.b
    · subst hx
      simp only [beq_self_eq_true]
      constructor
      · intro h
        have : x.l = l := by simpa using h
        subst this
        exact Or.inl rfl
      · rintro (h | h)
        · have : x.l = l := by rw [← h]
          simp [this]
        · exact absurd (List.mem_map.mpr ⟨_, h, rfl⟩) hnd.1
    · have hbeq : (b == x.b) = false := by simpa using hx
      simp only [hbeq]
      rw [show (rest.map pairOf) = List.map pairOf rest from rfl] at *
      rw [ih hnd.2]
      constructor
      · exact Or.inr
      · rintro (h | h)
        · exact absurd (by rw [← h]) hx
        · exact h

theorem findBlock_iff {bl : List Block} {n : Nat} (h : WFBlocks bl n) (s : State)
    (hs : s.blocks = makeBlocks bl) (b l : Nat) :
    findBlock s b l = true ↔ (⟨b, l⟩ : Block) ∈ bl := by
  unfold findBlock mapGet
  rw [hs, makeBlocks_eq h, beq_iff_eq, lookup_pairs h.nodup_keys]

/-! ### `writeAt` -/

theorem writeAt_length {buf : Bytes} {b : Nat} {d : Bytes} (h : b + d.length ≤ buf.length) :
    (writeAt buf b d).length = buf.length := by
  unfold writeAt
  simp
  omega

theorem writeAt_in {buf : Bytes} {b : Nat} {d : Bytes} (h : b + d.length ≤ buf.length) {j : Nat}
    (hj : j < d.length) : (writeAt buf b d)[b + j]? = d[j]? := by
  unfold writeAt
  rw [List.append_assoc, List.getElem?_append_right (by simp; omega)]
  have : b + j - (List.take b buf).length = j := by simp; omega
  rw [this, List.getElem?_append_left hj]

theorem writeAt_out {buf : Bytes} {b : Nat} {d : Bytes} (h : b + d.length ≤ buf.length) {i : Nat}
    (hi : i < b ∨ b + d.length ≤ i) : (writeAt buf b d)[i]? = buf[i]? := by
  unfold writeAt
  rcases hi with hi | hi
  · rw [List.append_assoc, List.getElem?_append_left (by simp; omega), List.getElem?_take]
    simp [hi]
  · rw [List.getElem?_append_right (by simp; omega), List.getElem?_drop]
    congr 1
    simp
    omega

/-! ### sets -/

theorem mem_setInsert {s : List Nat} {k x : Nat} : x ∈ setInsert s k ↔ x ∈ s ∨ x = k := by
  unfold setInsert
  by_cases h : k ∈ s
  · simp only [List.contains_iff_mem, h, if_true]
    constructor
    · exact Or.inl
    · rintro (h' | rfl)
      · exact h'
      · exact h
  · simp [h]

theorem nodup_setInsert {s : List Nat} {k : Nat} (h : s.Nodup) : (setInsert s k).Nodup := by
  unfold setInsert
  by_cases hc : k ∈ s
  · simp [hc, h]
  · simp only [List.contains_iff_mem, hc, if_false]
    rw [List.nodup_append]
    refine ⟨h, by simp, ?_⟩
    intro a ha b hb
    simp only [List.mem_singleton] at hb
    subst hb
    intro e
    subst e
    exact hc ha

theorem length_setInsert_le {s : List Nat} {k : Nat} : (setInsert s k).length ≤ s.length + 1 := by
  unfold setInsert
  by_cases hc : k ∈ s <;> simp [hc]

theorem mem_setDelete {s : List Nat} {k x : Nat} : x ∈ setDelete s k ↔ x ∈ s ∧ x ≠ k := by
  unfold setDelete
  simp [List.mem_filter]

theorem nodup_setDelete {s : List Nat} {k : Nat} (h : s.Nodup) : (setDelete s k).Nodup :=
  List.Nodup.sublist List.filter_sublist h

theorem length_setDelete_le {s : List Nat} {k : Nat} : (setDelete s k).length ≤ s.length :=
  List.length_filter_le _ _

/-- Pigeonhole: a duplicate-free subset with the full length is everything. -/
theorem subset_of_nodup_length {l₁ l₂ : List Nat} (h₁ : l₁.Nodup) (hsub : l₁ ⊆ l₂)
    (hlen : l₂.length ≤ l₁.length) : l₂ ⊆ l₁ := by
  intro k hk
  by_cases hm : k ∈ l₁
  · exact hm
  · have hnd : (k :: l₁).Nodup := List.nodup_cons.mpr ⟨hm, h₁⟩
    have hs : (k :: l₁) ⊆ l₂ := by
      intro x hx
      simp only [List.mem_cons] at hx
      rcases hx with rfl | hx
      · exact hk
      · exact hsub hx
    have := List.Nodup.length_le_of_subset hnd hs
    simp at this
    omega

/-! ### `firstData` -/

theorem firstData_length {ops : List Op} {b l : Nat} {d : Bytes} (h : firstData ops b l = some d) :
    d.length = l := by
  unfold firstData at h
  obtain ⟨op, _, hop⟩ := List.exists_of_findSome?_eq_some h
  cases op with
  | gotBlock b' d' =>
    simp only at hop
    split at hop
    · rename_i hc
      cases hop
      exact hc.2
    · cases hop
  | _ => simp at hop

theorem firstData_snoc_got (ops : List Op) (b' : Nat) (d : Bytes) (b l : Nat) :
    firstData (ops ++ [.gotBlock b' d]) b l =
      (firstData ops b l).or (if b' = b ∧ d.length = l then some d else none) := by
  unfold firstData
  rw [List.findSome?_append]
  simp

theorem firstData_snoc_other (ops : List Op) (op : Op) (hop : ∀ b d, op ≠ .gotBlock b d) (b l : Nat) :
    firstData (ops ++ [op]) b l = firstData ops b l := by
  unfold firstData
  rw [List.findSome?_append]
  cases op with
  | gotBlock b' d => exact absurd rfl (hop b' d)
  | _ => simp

/-! ### The assembly invariant -/

/-- Byte-level specification of the buffer after the calls `ops`. -/
def SpecBuf (n : Nat) (bl : List Block) (ops : List Op) (buf : Bytes) : Prop :=
  buf.length = n ∧
  (∀ b ∈ bl, ∀ j, j < b.l → buf[b.b + j]? =
    match firstData ops b.b b.l with
    | some d => d[j]?
    | none => some 0) ∧
  (∀ i, i < n → (∀ b ∈ bl, ¬ Covers b i) → buf[i]? = some 0)

structure Inv (n : Nat) (bl : List Block) (ops : List Op) (s : State) : Prop where
  blocks : s.blocks = makeBlocks bl
  spec : SpecBuf n bl ops s.buf
  doneNodup : s.done.Nodup
  doneIff : ∀ x, x ∈ s.done ↔ ∃ b ∈ bl, b.b = x ∧ (firstData ops b.b b.l).isSome

theorem requestLoop_frame (q : Int) : ∀ (snap : List Nat) (s : State) (acc : List (Nat × Nat))
    (s' : State) (r : List (Nat × Nat)), requestLoop q snap s acc = some (s', r) →
    s'.blocks = s.blocks ∧ s'.buf = s.buf ∧ s'.done = s.done ∧ s'.allowedFast = s.allowedFast := by
  intro snap
  induction snap with
  | nil =>
    intro s acc s' r h
    simp [requestLoop] at h
    rw [← h.1]; simp
  | cons x rest ih =>
    intro s acc s' r h
    unfold requestLoop at h
    split at h
    · simp at h
      rw [← h.1]; simp
    · split at h
      · cases h
      · split at h
        · have := ih _ _ _ _ h
          simpa using this
        · have := ih _ _ _ _ h
          simpa using this

theorem step_frame_other {s s' : State} {op : Op} (hop : ∀ b d, op ≠ .gotBlock b d)
    (h : step s op = some s') : s'.blocks = s.blocks ∧ s'.buf = s.buf ∧ s'.done = s.done := by
  cases op with
  | gotBlock b d => exact absurd rfl (hop b d)
  | choked pf order =>
    simp only [step, Option.some.injEq] at h
    subst h
    unfold choked
    split
    · simp
    · split <;> simp
  | rejected b l =>
    simp only [step, Option.some.injEq] at h
    subst h
    unfold rejected
    split
    · simp
    · split <;> simp
  | requestBlocks q =>
    simp only [step, requestBlocks, Option.map_eq_some_iff] at h
    obtain ⟨⟨s1, r⟩, h1, h2⟩ := h
    simp only at h2
    subst h2
    have := requestLoop_frame q _ _ _ _ _ h1
    exact ⟨this.1, this.2.1, this.2.2.1⟩
  | cancelPending =>
    simp only [step, Option.map_eq_some_iff] at h
    obtain ⟨_, _, h2⟩ := h
    subst h2
    simp
  | done =>
    simp only [step, Option.some.injEq] at h
    subst h
    simp

theorem inv_init {bl : List Block} {n : Nat} (h : WFBlocks bl n) (af : Bool) :
    Inv n bl [] (init bl af (List.replicate n 0)) := by
  refine ⟨rfl, ⟨by simp [init], ?_, ?_⟩, by simp [init], ?_⟩
  · intro b hb j hj
    have := h.within b hb
    simp only [init, firstData, List.findSome?_nil, List.getElem?_replicate]
    have : b.b + j < n := by omega
    simp [this]
  · intro i hi _
    simp [init, hi]
  · intro x
    simp [init, firstData]

theorem inv_step_other {bl : List Block} {n : Nat} {ops : List Op} {s s' : State} {op : Op}
    (hop : ∀ b d, op ≠ .gotBlock b d) (hi : Inv n bl ops s) (h : step s op = some s') :
    Inv n bl (ops ++ [op]) s' := by
  obtain ⟨hb, hbuf, hd⟩ := step_frame_other hop h
  refine ⟨by rw [hb]; exact hi.blocks, ?_, by rw [hd]; exact hi.doneNodup, ?_⟩
  · rw [hbuf]
    refine ⟨hi.spec.1, ?_, hi.spec.2.2⟩
    intro b hbm j hj
    rw [firstData_snoc_other ops op hop]
    exact hi.spec.2.1 b hbm j hj
  · intro x
    rw [hd, hi.doneIff x]
    constructor
    · rintro ⟨b, hbm, hx, hs⟩
      exact ⟨b, hbm, hx, by rw [firstData_snoc_other ops op hop]; exact hs⟩
    · rintro ⟨b, hbm, hx, hs⟩
      exact ⟨b, hbm, hx, by rw [firstData_snoc_other ops op hop] at hs; exact hs⟩

/-- `gotBlock` does not store: the state is unchanged and no block's first data changes. -/
theorem gotBlock_cases {bl : List Block} {n : Nat} (hw : WFBlocks bl n) (s : State)
    (hs : s.blocks = makeBlocks bl) (hlen : s.buf.length = n) (b : Nat) (d : Bytes) :
    ((⟨b, d.length⟩ : Block) ∈ bl ∧ b ∉ s.done ∧ (gotBlock s b d).2.stored = true ∧
      (gotBlock s b d).1.buf = writeAt s.buf b d ∧ (gotBlock s b d).1.done = setInsert s.done b ∧
      (gotBlock s b d).1.blocks = s.blocks) ∨
    (¬ ((⟨b, d.length⟩ : Block) ∈ bl ∧ b ∉ s.done) ∧ (gotBlock s b d).2.stored = false ∧
      (gotBlock s b d).1 = s) := by
  unfold gotBlock
  by_cases hf : findBlock s b d.length = true
  · have hmem := (findBlock_iff hw s hs b d.length).mp hf
    simp only [hf, Bool.not_true, Bool.false_eq_true, if_false]
    by_cases hdn : s.done.contains b = true
    · right
      have hdm : b ∈ s.done := by simpa using hdn
      refine ⟨fun hh => hh.2 hdm, ?_, ?_⟩ <;> simp [hdm, GotResult.stored]
    · have hnd : b ∉ s.done := by simpa using hdn
      have hfit : ¬ s.buf.length < b + d.length := by
        have := hw.within _ hmem
        simp only at this
        omega
      left
      simp only [hdn, hfit, Bool.false_eq_true, if_false]
      refine ⟨hmem, hnd, ?_⟩
      by_cases hp : b ∈ s.pending <;> simp [hp, GotResult.stored]
  · right
    have hnm : ¬ (⟨b, d.length⟩ : Block) ∈ bl := fun hm => hf ((findBlock_iff hw s hs b d.length).mpr hm)
    have hf' : findBlock s b d.length = false := by simpa using hf
    refine ⟨fun hh => hnm hh.1, ?_, ?_⟩ <;> simp [hf', GotResult.stored]

theorem inv_step_got {bl : List Block} {n : Nat} (hw : WFBlocks bl n) {ops : List Op} {s : State}
    (hi : Inv n bl ops s) (b : Nat) (d : Bytes) :
    Inv n bl (ops ++ [.gotBlock b d]) (gotBlock s b d).1 := by
  rcases gotBlock_cases hw s hi.blocks hi.spec.1 b d with
    ⟨hmem, hnd, _, hbuf, hdone, hblocks⟩ | ⟨hno, _, hsame⟩
  · -- stored
    have hfd : firstData ops b d.length = none := by
      cases hfd : firstData ops b d.length with
      | none => rfl
      | some d' =>
        exact absurd ((hi.doneIff b).mpr ⟨_, hmem, rfl, by simp [hfd]⟩) hnd
    have hfit : b + d.length ≤ s.buf.length := by
      have := hw.within _ hmem
      simp only at this
      rw [hi.spec.1]; exact this
    have hfd_new : ∀ x ∈ bl, firstData (ops ++ [.gotBlock b d]) x.b x.l =
        if x = ⟨b, d.length⟩ then some d else firstData ops x.b x.l := by
      intro x hx
      rw [firstData_snoc_got]
      by_cases hx' : x = ⟨b, d.length⟩
      · subst hx'
        simp [hfd]
      · have : ¬ (b = x.b ∧ d.length = x.l) := by
          intro hh
          apply hx'
          cases x
          simp only at hh
          simp [hh.1, hh.2]
        simp [this, hx']
    refine ⟨by rw [hblocks]; exact hi.blocks, ⟨?_, ?_, ?_⟩, by rw [hdone]; exact nodup_setInsert hi.doneNodup, ?_⟩
    · rw [hbuf, writeAt_length hfit]; exact hi.spec.1
    · intro x hx j hj
      rw [hfd_new x hx, hbuf]
      by_cases hx' : x = ⟨b, d.length⟩
      · subst hx'
        simp only [if_true]
        exact writeAt_in hfit hj
      · simp only [hx', if_false]
        rw [writeAt_out hfit]
        · exact hi.spec.2.1 x hx j hj
        · rcases hw.disjoint hx hmem with e | e | e
          · exact absurd e hx'
          · left; simp only at e; omega
          · right; simp only at e; omega
    · intro i hi' hnc
      rw [hbuf, writeAt_out hfit]
      · exact hi.spec.2.2 i hi' hnc
      · have := hnc _ hmem
        unfold Covers at this
        simp only at this
        omega
    · intro x
      rw [hdone, mem_setInsert, hi.doneIff x]
      constructor
      · rintro (⟨y, hy, hyx, hs⟩ | rfl)
        · refine ⟨y, hy, hyx, ?_⟩
          rw [hfd_new y hy]
          split <;> simp [hs]
        · exact ⟨_, hmem, rfl, by rw [hfd_new _ hmem]; simp⟩
      · rintro ⟨y, hy, hyx, hs⟩
        rw [hfd_new y hy] at hs
        by_cases hy' : y = ⟨b, d.length⟩
        · right; rw [← hyx, hy']
        · left
          simp only [hy', if_false] at hs
          exact ⟨y, hy, hyx, hs⟩
  · -- not stored: nothing changes, and no first data changes
    rw [hsame]
    have hfd_same : ∀ x ∈ bl, firstData (ops ++ [.gotBlock b d]) x.b x.l = firstData ops x.b x.l := by
      intro x hx
      rw [firstData_snoc_got]
      by_cases hm : b = x.b ∧ d.length = x.l
      · have hx' : x = ⟨b, d.length⟩ := by cases x; simp only at hm; simp [hm.1, hm.2]
        subst hx'
        have hdn : b ∈ s.done := by
          apply Classical.byContradiction
          intro hnd
          exact hno ⟨hx, hnd⟩
        obtain ⟨y, hy, hyb, hs⟩ := (hi.doneIff b).mp hdn
        have := hw.begin_inj hy hx hyb
        subst this
        cases hfd : firstData ops b d.length with
        | none => simp [hfd] at hs
        | some d' => simp
      · simp [hm]
    refine ⟨hi.blocks, ⟨hi.spec.1, ?_, hi.spec.2.2⟩, hi.doneNodup, ?_⟩
    · intro x hx j hj
      rw [hfd_same x hx]
      exact hi.spec.2.1 x hx j hj
    · intro x
      rw [hi.doneIff x]
      constructor
      · rintro ⟨y, hy, hyx, hs⟩
        exact ⟨y, hy, hyx, by rw [hfd_same y hy]; exact hs⟩
      · rintro ⟨y, hy, hyx, hs⟩
        exact ⟨y, hy, hyx, by rw [hfd_same y hy] at hs; exact hs⟩

theorem inv_step {bl : List Block} {n : Nat} (hw : WFBlocks bl n) {ops : List Op} {s s' : State}
    {op : Op} (hi : Inv n bl ops s) (h : step s op = some s') : Inv n bl (ops ++ [op]) s' := by
  cases op with
  | gotBlock b d =>
    simp only [step, Option.some.injEq] at h
    subst h
    exact inv_step_got hw hi b d
  | choked pf order => exact inv_step_other (by intro _ _ hh; cases hh) hi h
  | rejected b l => exact inv_step_other (by intro _ _ hh; cases hh) hi h
  | requestBlocks q => exact inv_step_other (by intro _ _ hh; cases hh) hi h
  | cancelPending => exact inv_step_other (by intro _ _ hh; cases hh) hi h
  | done => exact inv_step_other (by intro _ _ hh; cases hh) hi h

theorem inv_run {bl : List Block} {n : Nat} (hw : WFBlocks bl n) : ∀ (ops pre : List Op) (s s' : State),
    Inv n bl pre s → run s ops = some s' → Inv n bl (pre ++ ops) s' := by
  intro ops
  induction ops with
  | nil =>
    intro pre s s' hi h
    simp [run, List.foldlM] at h
    subst h
    simpa using hi
  | cons op rest ih =>
    intro pre s s' hi h
    unfold run at h
    rw [List.foldlM_cons] at h
    cases hs : step s op with
    | none => rw [hs] at h; cases h
    | some s1 =>
      rw [hs] at h
      have h1 := inv_step hw hi hs
      have := ih (pre ++ [op]) s1 s' h1 h
      simpa using this

/-- `Done()` answers "every block has been received". -/
theorem isDone_iff {bl : List Block} {n : Nat} (hw : WFBlocks bl n) {ops : List Op} {s : State}
    (hi : Inv n bl ops s) :
    isDone s = true ↔ ∀ b ∈ bl, (firstData ops b.b b.l).isSome := by
  have hlenB : s.blocks.length = bl.length := by rw [hi.blocks, makeBlocks_eq hw]; simp
  have hsub : s.done ⊆ bl.map (·.b) := by
    intro x hx
    obtain ⟨y, hy, hyx, _⟩ := (hi.doneIff x).mp hx
    exact List.mem_map.mpr ⟨y, hy, hyx⟩
  unfold isDone
  rw [beq_iff_eq, hlenB]
  constructor
  · intro hlen b hb
    have hsup : bl.map (·.b) ⊆ s.done :=
      subset_of_nodup_length hi.doneNodup hsub (by simp [hlen])
    have hbd : b.b ∈ s.done := hsup (List.mem_map.mpr ⟨b, hb, rfl⟩)
    obtain ⟨y, hy, hyb, hs⟩ := (hi.doneIff b.b).mp hbd
    have := hw.begin_inj hy hb hyb
    subst this
    exact hs
  · intro hall
    have hsup : bl.map (·.b) ⊆ s.done := by
      intro x hx
      obtain ⟨y, hy, hyx⟩ := List.mem_map.mp hx
      exact (hi.doneIff x).mpr ⟨y, hy, hyx, hall y hy⟩
    have h1 := List.Nodup.length_le_of_subset hi.doneNodup hsub
    have h2 := List.Nodup.length_le_of_subset hw.nodup_keys hsup
    simp at h1 h2
    omega

/-! ### `assembled` meets the byte-level specification, which determines the buffer -/

def asmStep (ops : List Op) (buf : Bytes) (b : Block) : Bytes :=
  match firstData ops b.b b.l with
  | some d => writeAt buf b.b d
  | none => buf

theorem asmStep_facts (ops : List Op) (acc : Bytes) (x : Block) (hfit : x.b + x.l ≤ acc.length) :
    (asmStep ops acc x).length = acc.length ∧
    (∀ j, j < x.l → (asmStep ops acc x)[x.b + j]? =
      match firstData ops x.b x.l with
      | some d => d[j]?
      | none => acc[x.b + j]?) ∧
    (∀ i, (i < x.b ∨ x.b + x.l ≤ i) → (asmStep ops acc x)[i]? = acc[i]?) := by
  unfold asmStep
  cases hfd : firstData ops x.b x.l with
  | none => simp
  | some d =>
    have hl := firstData_length hfd
    have hfit' : x.b + d.length ≤ acc.length := by omega
    refine ⟨writeAt_length hfit', ?_, ?_⟩
    · intro j hj
      exact writeAt_in hfit' (by omega)
    · intro i hi
      exact writeAt_out hfit' (by omega)

theorem foldl_assemble (ops : List Op) : ∀ (bl : List Block) (acc : Bytes), WFBlocks bl acc.length →
    (bl.foldl (asmStep ops) acc).length = acc.length ∧
    (∀ b ∈ bl, ∀ j, j < b.l → (bl.foldl (asmStep ops) acc)[b.b + j]? =
      match firstData ops b.b b.l with
      | some d => d[j]?
      | none => acc[b.b + j]?) ∧
    (∀ i, (∀ b ∈ bl, ¬ Covers b i) → (bl.foldl (asmStep ops) acc)[i]? = acc[i]?) := by
  intro bl
  induction bl with
  | nil => intro acc _; simp
  | cons x rest ih =>
    intro acc hw
    have hfit := hw.within x List.mem_cons_self
    obtain ⟨hl, hin, hout⟩ := asmStep_facts ops acc x hfit
    have hw' : WFBlocks rest (asmStep ops acc x).length := by rw [hl]; exact hw.tail
    obtain ⟨rl, rin, rout⟩ := ih (asmStep ops acc x) hw'
    have hsorted := (List.pairwise_cons.mp hw.sorted).1
    simp only [List.foldl_cons]
    refine ⟨by rw [rl, hl], ?_, ?_⟩
    · intro b hb j hj
      simp only [List.mem_cons] at hb
      rcases hb with rfl | hb
      · rw [rout (b.b + j) ?_]
        · exact hin j hj
        · intro y hy hc
          have := hsorted y hy
          unfold Covers at hc
          omega
      · rw [rin b hb j hj]
        have hx := hsorted b hb
        rw [hout (b.b + j) (by omega)]
    · intro i hnc
      rw [rout i (fun b hb => hnc b (List.mem_cons_of_mem _ hb))]
      have := hnc x List.mem_cons_self
      unfold Covers at this
      exact hout i (by omega)

theorem assembled_eq (n : Nat) (bl : List Block) (ops : List Op) :
    assembled n bl ops = bl.foldl (asmStep ops) (List.replicate n 0) := rfl

theorem assembled_spec {bl : List Block} {n : Nat} (hw : WFBlocks bl n) (ops : List Op) :
    SpecBuf n bl ops (assembled n bl ops) := by
  rw [assembled_eq]
  have hw' : WFBlocks bl (List.replicate n 0).length := by simpa using hw
  obtain ⟨hl, hin, hout⟩ := foldl_assemble ops bl (List.replicate n 0) hw'
  refine ⟨by simpa using hl, ?_, ?_⟩
  · intro b hb j hj
    rw [hin b hb j hj]
    have := hw.within b hb
    have hlt : b.b + j < n := by omega
    cases firstData ops b.b b.l <;> simp [hlt]
  · intro i hi hnc
    rw [hout i hnc]
    simp [hi]

theorem specBuf_unique {bl : List Block} {n : Nat} {ops : List Op} {a b : Bytes}
    (ha : SpecBuf n bl ops a) (hb : SpecBuf n bl ops b) : a = b := by
  apply List.ext_getElem?
  intro i
  by_cases hi : i < n
  · by_cases hc : ∃ x ∈ bl, Covers x i
    · obtain ⟨x, hx, hcx⟩ := hc
      unfold Covers at hcx
      have hij : i = x.b + (i - x.b) := by omega
      rw [hij, ha.2.1 x hx (i - x.b) (by omega), hb.2.1 x hx (i - x.b) (by omega)]
    · have hnc : ∀ x ∈ bl, ¬ Covers x i := fun x hx hcx => hc ⟨x, hx, hcx⟩
      rw [ha.2.2 i hi hnc, hb.2.2 i hi hnc]
  · rw [List.getElem?_eq_none (by rw [ha.1]; omega), List.getElem?_eq_none (by rw [hb.1]; omega)]

/-! ### The pending bound -/

theorem maxQ_snoc (ops : List Op) (op : Op) :
    maxQ (ops ++ [op]) = match op with
      | .requestBlocks q => max (maxQ ops) q
      | _ => maxQ ops := by
  unfold maxQ
  rw [List.foldl_append]
  cases op <;> simp

theorem foldl_maxQ_nonneg (ops : List Op) : ∀ (m : Int), 0 ≤ m →
    0 ≤ ops.foldl (fun m op => match op with | .requestBlocks q => max m q | _ => m) m := by
  induction ops with
  | nil => intro m hm; simpa using hm
  | cons op rest ih =>
    intro m hm
    simp only [List.foldl_cons]
    apply ih
    cases op <;> simp <;> omega

theorem maxQ_nonneg (ops : List Op) : 0 ≤ maxQ ops := foldl_maxQ_nonneg ops 0 (by omega)

theorem requestLoop_pending (q M : Int) (hq : q ≤ M) : ∀ (snap : List Nat) (s : State)
    (acc : List (Nat × Nat)) (s' : State) (r : List (Nat × Nat)),
    requestLoop q snap s acc = some (s', r) → (s.pending.length : Int) ≤ M →
    (s'.pending.length : Int) ≤ M := by
  intro snap
  induction snap with
  | nil =>
    intro s acc s' r h hm
    simp [requestLoop] at h
    rw [← h.1]; exact hm
  | cons x rest ih =>
    intro s acc s' r h hm
    unfold requestLoop at h
    split at h
    · simp at h
      rw [← h.1]; exact hm
    · rename_i hguard
      split at h
      · cases h
      · split at h
        · exact ih _ _ _ _ h hm
        · apply ih _ _ _ _ h
          have := @length_setInsert_le s.pending x
          simp only
          omega

theorem step_pending {ops : List Op} {s s' : State} {op : Op} (h : step s op = some s')
    (hm : (s.pending.length : Int) ≤ maxQ ops) : (s'.pending.length : Int) ≤ maxQ (ops ++ [op]) := by
  rw [maxQ_snoc]
  cases op with
  | gotBlock b d =>
    simp only [step, Option.some.injEq] at h
    subst h
    simp only
    unfold gotBlock
    split
    · exact hm
    · split
      · exact hm
      · split
        · exact hm
        · split
          · exact hm
          · have := @length_setDelete_le s.pending b
            simp only
            omega
  | choked pf order =>
    simp only [step, Option.some.injEq] at h
    subst h
    simp only
    unfold choked
    split
    · exact hm
    · split
      · exact hm
      · have := maxQ_nonneg ops
        simp only [List.length_nil]
        omega
  | rejected b l =>
    simp only [step, Option.some.injEq] at h
    subst h
    simp only
    unfold rejected
    split
    · exact hm
    · split
      · exact hm
      · have := @length_setDelete_le s.pending b
        simp only
        omega
  | requestBlocks q =>
    simp only [step, requestBlocks, Option.map_eq_some_iff] at h
    obtain ⟨⟨s1, r⟩, h1, h2⟩ := h
    simp only at h2
    subst h2
    simp only
    exact requestLoop_pending q (max (maxQ ops) q) (by omega) _ _ _ _ _ h1 (by omega)
  | cancelPending =>
    simp only [step, Option.map_eq_some_iff] at h
    obtain ⟨_, _, h2⟩ := h
    subst h2
    exact hm
  | done =>
    simp only [step, Option.some.injEq] at h
    subst h
    exact hm

theorem run_pending : ∀ (ops pre : List Op) (s s' : State), (s.pending.length : Int) ≤ maxQ pre →
    run s ops = some s' → (s'.pending.length : Int) ≤ maxQ (pre ++ ops) := by
  intro ops
  induction ops with
  | nil =>
    intro pre s s' hm h
    simp [run, List.foldlM] at h
    subst h
    simpa using hm
  | cons op rest ih =>
    intro pre s s' hm h
    unfold run at h
    rw [List.foldlM_cons] at h
    cases hs : step s op with
    | none => rw [hs] at h; cases h
    | some s1 =>
      rw [hs] at h
      have := ih (pre ++ [op]) s1 s' (step_pending hs hm) h
      simpa using this

/-! ### No panic -/

structure Inv2 (bl : List Block) (s : State) : Prop where
  blocks : s.blocks = makeBlocks bl
  pendSub : ∀ x ∈ s.pending, x ∈ bl.map (·.b)
  remSub : ∀ x ∈ s.remaining, x ∈ bl.map (·.b)

theorem mapGet_key {bl : List Block} {n : Nat} (hw : WFBlocks bl n) {x : Nat} (hx : x ∈ bl.map (·.b)) :
    ∃ l, mapGet (makeBlocks bl) x = some l := by
  obtain ⟨y, hy, hyx⟩ := List.mem_map.mp hx
  refine ⟨y.l, ?_⟩
  unfold mapGet
  rw [makeBlocks_eq hw, lookup_pairs hw.nodup_keys, ← hyx]
  exact hy

theorem requestLoop_some {bl : List Block} {n : Nat} (hw : WFBlocks bl n) (q : Int) :
    ∀ (snap : List Nat) (s : State) (acc : List (Nat × Nat)), (∀ x ∈ snap, x ∈ bl.map (·.b)) →
    Inv2 bl s → ∃ s' r, requestLoop q snap s acc = some (s', r) ∧ Inv2 bl s' := by
  intro snap
  induction snap with
  | nil => intro s acc _ hi; exact ⟨s, acc.reverse, by simp [requestLoop], hi⟩
  | cons x rest ih =>
    intro s acc hsnap hi
    unfold requestLoop
    split
    · exact ⟨s, acc.reverse, rfl, hi⟩
    · obtain ⟨l, hl⟩ := mapGet_key hw (hsnap x List.mem_cons_self)
      rw [hi.blocks, hl]
      simp only
      split
      · apply ih
        · intro y hy; exact hsnap y (List.mem_cons_of_mem _ hy)
        · exact ⟨rfl, hi.pendSub, fun y hy => hi.remSub y (List.mem_of_mem_drop hy)⟩
      · apply ih
        · intro y hy; exact hsnap y (List.mem_cons_of_mem _ hy)
        · refine ⟨rfl, ?_, ?_⟩
          · intro y hy
            simp only at hy
            rcases mem_setInsert.mp hy with hy | rfl
            · exact hi.pendSub y hy
            · exact hsnap _ List.mem_cons_self
          · intro y hy
            exact hi.remSub y (List.mem_of_mem_drop hy)

theorem mapM_some {α β : Type} (f : α → Option β) : ∀ (l : List α), (∀ x ∈ l, ∃ y, f x = some y) →
    ∃ r, l.mapM f = some r := by
  intro l
  induction l with
  | nil => intro _; exact ⟨[], by simp⟩
  | cons a rest ih =>
    intro h
    obtain ⟨y, hy⟩ := h a List.mem_cons_self
    obtain ⟨r, hr⟩ := ih (fun x hx => h x (List.mem_cons_of_mem _ hx))
    exact ⟨y :: r, by simp [List.mapM_cons, hy, hr]⟩

theorem step_some {bl : List Block} {n : Nat} (hw : WFBlocks bl n) {s : State} (hi : Inv2 bl s) (op : Op)
    (hadm : ∀ pf order, op = .choked pf order → chokedRequeues s pf = true → chokedAdmissible s order = true) :
    ∃ s', step s op = some s' ∧ Inv2 bl s' := by
  cases op with
  | gotBlock b d =>
    refine ⟨_, rfl, ?_⟩
    unfold gotBlock
    split
    · exact hi
    · split
      · exact hi
      · split
        · exact hi
        · split
          · exact ⟨hi.blocks, hi.pendSub, hi.remSub⟩
          · exact ⟨hi.blocks, fun x hx => hi.pendSub x (mem_setDelete.mp hx).1, hi.remSub⟩
  | choked pf order =>
    refine ⟨_, rfl, ?_⟩
    unfold choked
    by_cases haf : s.allowedFast = true
    · simp only [haf, if_true]; exact hi
    · by_cases hpf : pf = true
      · simp only [haf, hpf, if_true]
        simp; exact hi
      · have hq : chokedRequeues s pf = true := by
          unfold chokedRequeues
          simp at haf hpf
          simp [haf, hpf]
        have hperm := List.isPerm_iff.mp (hadm pf order rfl hq)
        simp only [haf, hpf]
        refine ⟨hi.blocks, by simp, ?_⟩
        intro x hx
        simp only [Bool.false_eq_true, if_false, List.mem_append] at hx
        rcases hx with hx | hx
        · exact hi.remSub x hx
        · exact hi.pendSub x (hperm.subset hx)
  | rejected b l =>
    refine ⟨_, rfl, ?_⟩
    unfold rejected
    by_cases hf : findBlock s b l = true
    · simp only [hf, Bool.not_true, Bool.false_eq_true, if_false]
      split
      · exact hi
      · refine ⟨hi.blocks, fun x hx => hi.pendSub x (mem_setDelete.mp hx).1, ?_⟩
        intro x hx
        simp only [List.mem_append, List.mem_singleton] at hx
        rcases hx with hx | rfl
        · exact hi.remSub x hx
        · have := (findBlock_iff hw s hi.blocks x l).mp hf
          exact List.mem_map.mpr ⟨_, this, rfl⟩
    · have : findBlock s b l = false := by simpa using hf
      simp only [this, Bool.not_false, if_true]
      exact hi
  | requestBlocks q =>
    obtain ⟨s', r, h, hi'⟩ := requestLoop_some hw q s.remaining s [] hi.remSub hi
    exact ⟨s', by simp [step, requestBlocks, h], hi'⟩
  | cancelPending =>
    obtain ⟨r, hr⟩ := mapM_some (fun b => (mapGet s.blocks b).map fun l => (b, l)) s.pending (by
      intro x hx
      obtain ⟨l, hl⟩ := mapGet_key hw (hi.pendSub x hx)
      exact ⟨(x, l), by rw [hi.blocks, hl]; rfl⟩)
    exact ⟨s, by simp [step, cancelPending, hr], hi⟩
  | done => exact ⟨s, rfl, hi⟩

theorem run_some {bl : List Block} {n : Nat} (hw : WFBlocks bl n) : ∀ (ops : List Op) (s : State),
    Inv2 bl s → admissibleRun s ops = true → ∃ s', run s ops = some s' := by
  intro ops
  induction ops with
  | nil => intro s _ _; exact ⟨s, by simp [run, List.foldlM]⟩
  | cons op rest ih =>
    intro s hi hadm
    unfold admissibleRun at hadm
    rw [Bool.and_eq_true] at hadm
    obtain ⟨s1, hs1, hi1⟩ := step_some hw hi op (by
      intro pf order hop hq
      subst hop
      have := hadm.1
      simp only [hq, Bool.not_true, Bool.false_or] at this
      exact this)
    have h2 := hadm.2
    rw [hs1] at h2
    obtain ⟨s', hs'⟩ := ih s1 hi1 h2
    refine ⟨s', ?_⟩
    unfold run
    rw [List.foldlM_cons, hs1]
    exact hs'

theorem inv2_init {bl : List Block} (af : Bool) (buf : Bytes) : Inv2 bl (init bl af buf) :=
  ⟨rfl, by simp [init], by simp [init, makeRemaining]⟩

/-! ### The request window holds only unanswered requests; `RequestBlocks` makes progress (C10) -/

/-- No block is both in the request window and received. -/
def PendFresh (s : State) : Prop := ∀ x ∈ s.pending, x ∉ s.done

theorem pendFresh_init (bl : List Block) (af : Bool) (buf : Bytes) : PendFresh (init bl af buf) := by
  intro x hx
  simp [init] at hx

theorem requestLoop_pendFresh (q : Int) : ∀ (snap : List Nat) (s : State) (acc : List (Nat × Nat))
    (s' : State) (r : List (Nat × Nat)), requestLoop q snap s acc = some (s', r) →
    PendFresh s → PendFresh s' := by
  intro snap
  induction snap with
  | nil =>
    intro s acc s' r h hp
    simp [requestLoop] at h
    rw [← h.1]; exact hp
  | cons x rest ih =>
    intro s acc s' r h hp
    unfold requestLoop at h
    split at h
    · simp at h
      rw [← h.1]; exact hp
    · split at h
      · cases h
      · split at h
        · exact ih _ _ _ _ h hp
        · rename_i hnd
          apply ih _ _ _ _ h
          intro y hy
          rcases mem_setInsert.mp hy with hy | rfl
          · exact hp y hy
          · simpa using hnd

theorem step_pendFresh {s s' : State} {op : Op} (hp : PendFresh s) (h : step s op = some s') :
    PendFresh s' := by
  cases op with
  | gotBlock b d =>
    simp only [step, Option.some.injEq] at h
    subst h
    unfold gotBlock
    split
    · exact hp
    · split
      · exact hp
      · split
        · exact hp
        · split
          · rename_i hnp
            have hnp' : b ∉ s.pending := by simpa using hnp
            intro y hy hyd
            simp only at hy hyd
            rcases mem_setInsert.mp hyd with hyd | rfl
            · exact hp y hy hyd
            · exact hnp' hy
          · intro y hy hyd
            simp only at hy hyd
            obtain ⟨hy1, hy2⟩ := mem_setDelete.mp hy
            rcases mem_setInsert.mp hyd with hyd | rfl
            · exact hp y hy1 hyd
            · exact hy2 rfl
  | choked pf order =>
    simp only [step, Option.some.injEq] at h
    subst h
    unfold choked
    split
    · exact hp
    · split
      · exact hp
      · intro y hy
        simp at hy
  | rejected b l =>
    simp only [step, Option.some.injEq] at h
    subst h
    unfold rejected
    split
    · exact hp
    · split
      · exact hp
      · intro y hy
        exact hp y (mem_setDelete.mp hy).1
  | requestBlocks q =>
    simp only [step, requestBlocks, Option.map_eq_some_iff] at h
    obtain ⟨⟨s1, r⟩, h1, h2⟩ := h
    simp only at h2
    subst h2
    exact requestLoop_pendFresh q _ _ _ _ _ h1 hp
  | cancelPending =>
    simp only [step, Option.map_eq_some_iff] at h
    obtain ⟨_, _, h2⟩ := h
    subst h2
    exact hp
  | done =>
    simp only [step, Option.some.injEq] at h
    subst h
    exact hp

theorem run_pendFresh : ∀ (ops : List Op) (s s' : State), PendFresh s → run s ops = some s' →
    PendFresh s' := by
  intro ops
  induction ops with
  | nil =>
    intro s s' hp h
    simp [run, List.foldlM] at h
    subst h
    exact hp
  | cons op rest ih =>
    intro s s' hp h
    unfold run at h
    rw [List.foldlM_cons] at h
    cases hs : step s op with
    | none => rw [hs] at h; cases h
    | some s1 =>
      rw [hs] at h
      exact ih s1 s' (step_pendFresh hp hs) h

/-- Every block of the piece is accounted for (to be requested, requested, or received), and `done`
is a duplicate-free set of block keys. -/
structure Inv3 (bl : List Block) (s : State) : Prop where
  cover : ∀ x ∈ bl.map (·.b), x ∈ s.remaining ∨ x ∈ s.pending ∨ x ∈ s.done
  doneSub : ∀ x ∈ s.done, x ∈ bl.map (·.b)
  doneNodup : s.done.Nodup

theorem inv3_init (bl : List Block) (af : Bool) (buf : Bytes) : Inv3 bl (init bl af buf) :=
  ⟨fun x hx => Or.inl (by simpa [init, makeRemaining] using hx), by simp [init], by simp [init]⟩

theorem requestLoop_acc_le (q : Int) : ∀ (snap : List Nat) (s : State) (acc : List (Nat × Nat))
    (s' : State) (r : List (Nat × Nat)), requestLoop q snap s acc = some (s', r) →
    acc.length ≤ r.length := by
  intro snap
  induction snap with
  | nil =>
    intro s acc s' r h
    simp [requestLoop] at h
    rw [← h.2]; simp
  | cons x rest ih =>
    intro s acc s' r h
    unfold requestLoop at h
    split at h
    · simp at h
      rw [← h.2]; simp
    · split at h
      · cases h
      · split at h
        · exact ih _ _ _ _ h
        · have := ih _ _ _ _ h
          simp only [List.length_cons] at this
          omega

theorem requestLoop_pending_mono (q : Int) (y : Nat) : ∀ (snap : List Nat) (s : State)
    (acc : List (Nat × Nat)) (s' : State) (r : List (Nat × Nat)),
    requestLoop q snap s acc = some (s', r) → y ∈ s.pending → y ∈ s'.pending := by
  intro snap
  induction snap with
  | nil =>
    intro s acc s' r h hy
    simp [requestLoop] at h
    rw [← h.1]; exact hy
  | cons x rest ih =>
    intro s acc s' r h hy
    unfold requestLoop at h
    split at h
    · simp at h
      rw [← h.1]; exact hy
    · split at h
      · cases h
      · split at h
        · exact ih _ _ _ _ h hy
        · exact ih _ _ _ _ h (mem_setInsert.mpr (Or.inl hy))

/-- The loop loses no block: what was to be requested, requested or received still is. -/
theorem requestLoop_cover (q : Int) (y : Nat) : ∀ (snap : List Nat) (s : State)
    (acc : List (Nat × Nat)) (s' : State) (r : List (Nat × Nat)), s.remaining = snap →
    requestLoop q snap s acc = some (s', r) →
    (y ∈ s.remaining ∨ y ∈ s.pending ∨ y ∈ s.done) →
    (y ∈ s'.remaining ∨ y ∈ s'.pending ∨ y ∈ s'.done) := by
  intro snap
  induction snap with
  | nil =>
    intro s acc s' r _ h hy
    simp [requestLoop] at h
    rw [← h.1]; exact hy
  | cons x rest ih =>
    intro s acc s' r hrem h hy
    unfold requestLoop at h
    split at h
    · simp at h
      rw [← h.1]; exact hy
    · split at h
      · cases h
      · split at h
        · rename_i hd
          have hd' : x ∈ s.done := by simpa using hd
          apply ih _ _ _ _ (by simp [hrem]) h
          simp only [hrem, List.drop_succ_cons, List.drop_zero]
          rw [hrem] at hy
          rcases hy with hy | hy | hy
          · rcases List.mem_cons.mp hy with rfl | hy
            · exact Or.inr (Or.inr hd')
            · exact Or.inl hy
          · exact Or.inr (Or.inl hy)
          · exact Or.inr (Or.inr hy)
        · apply ih _ _ _ _ (by simp [hrem]) h
          simp only [hrem, List.drop_succ_cons, List.drop_zero]
          rw [hrem] at hy
          rcases hy with hy | hy | hy
          · rcases List.mem_cons.mp hy with rfl | hy
            · exact Or.inr (Or.inl (mem_setInsert.mpr (Or.inr rfl)))
            · exact Or.inl hy
          · exact Or.inr (Or.inl (mem_setInsert.mpr (Or.inl hy)))
          · exact Or.inr (Or.inr hy)

/-- With room in the window the loop either issues a request or runs `remaining` empty without
touching the window. -/
theorem requestLoop_progress (q : Int) : ∀ (snap : List Nat) (s : State)
    (acc : List (Nat × Nat)) (s' : State) (r : List (Nat × Nat)), s.remaining = snap →
    requestLoop q snap s acc = some (s', r) → (s.pending.length : Int) < q →
    acc.length < r.length ∨ (s'.remaining = [] ∧ s'.pending = s.pending) := by
  intro snap
  induction snap with
  | nil =>
    intro s acc s' r hrem h _
    simp [requestLoop] at h
    rw [← h.1]
    exact Or.inr ⟨hrem, rfl⟩
  | cons x rest ih =>
    intro s acc s' r hrem h hq
    unfold requestLoop at h
    split at h
    · rename_i hg
      omega
    · split at h
      · cases h
      · split at h
        · have := ih _ _ _ _ (by simp [hrem]) h hq
          exact this
        · have := requestLoop_acc_le q _ _ _ _ _ h
          simp only [List.length_cons] at this
          left; omega

/-- Every request the loop adds is for a block of the table that has not been received, and is in the
window afterwards. -/
theorem requestLoop_issued (q : Int) (e : Nat × Nat) : ∀ (snap : List Nat) (s : State)
    (acc : List (Nat × Nat)) (s' : State) (r : List (Nat × Nat)),
    requestLoop q snap s acc = some (s', r) → e ∈ r →
    e ∈ acc ∨ (mapGet s.blocks e.1 = some e.2 ∧ e.1 ∉ s.done ∧ e.1 ∈ s'.pending) := by
  intro snap
  induction snap with
  | nil =>
    intro s acc s' r h he
    simp [requestLoop] at h
    rw [← h.2] at he
    exact Or.inl (List.mem_reverse.mp he)
  | cons x rest ih =>
    intro s acc s' r h he
    unfold requestLoop at h
    split at h
    · simp at h
      rw [← h.2] at he
      exact Or.inl (List.mem_reverse.mp he)
    · split at h
      · cases h
      · rename_i len hlen
        split at h
        · have := ih _ _ _ _ h he
          exact this
        · rename_i hnd
          rcases ih _ _ _ _ h he with hacc | hnew
          · rcases List.mem_cons.mp hacc with rfl | hacc
            · right
              refine ⟨hlen, by simpa using hnd, ?_⟩
              exact requestLoop_pending_mono q _ _ _ _ _ _ h (mem_setInsert.mpr (Or.inr rfl))
            · exact Or.inl hacc
          · exact Or.inr hnew

theorem step_inv3 {bl : List Block} {n : Nat} (hw : WFBlocks bl n) {s s' : State} {op : Op}
    (hb : s.blocks = makeBlocks bl) (hi : Inv3 bl s)
    (hadm : ∀ pf order, op = .choked pf order → chokedRequeues s pf = true → chokedAdmissible s order = true)
    (h : step s op = some s') : Inv3 bl s' := by
  cases op with
  | gotBlock b d =>
    simp only [step, Option.some.injEq] at h
    subst h
    unfold gotBlock
    split
    · exact hi
    · rename_i hf
      have hf' : findBlock s b d.length = true := by simpa using hf
      have hkey : b ∈ bl.map (·.b) :=
        List.mem_map.mpr ⟨_, (findBlock_iff hw s hb b d.length).mp hf', rfl⟩
      split
      · exact hi
      · split
        · exact hi
        · have hsub : ∀ x ∈ setInsert s.done b, x ∈ bl.map (·.b) := by
            intro x hx
            rcases mem_setInsert.mp hx with hx | rfl
            · exact hi.doneSub x hx
            · exact hkey
          split
          · refine ⟨?_, hsub, nodup_setInsert hi.doneNodup⟩
            intro x hx
            rcases hi.cover x hx with hx | hx | hx
            · exact Or.inl hx
            · exact Or.inr (Or.inl hx)
            · exact Or.inr (Or.inr (mem_setInsert.mpr (Or.inl hx)))
          · refine ⟨?_, hsub, nodup_setInsert hi.doneNodup⟩
            intro x hx
            rcases hi.cover x hx with hx | hx | hx
            · exact Or.inl hx
            · by_cases hxb : x = b
              · exact Or.inr (Or.inr (mem_setInsert.mpr (Or.inr hxb)))
              · exact Or.inr (Or.inl (mem_setDelete.mpr ⟨hx, hxb⟩))
            · exact Or.inr (Or.inr (mem_setInsert.mpr (Or.inl hx)))
  | choked pf order =>
    simp only [step, Option.some.injEq] at h
    subst h
    unfold choked
    by_cases haf : s.allowedFast = true
    · simp only [haf, if_true]; exact hi
    · by_cases hpf : pf = true
      · simp only [haf, hpf, if_true]
        simp; exact hi
      · have hq : chokedRequeues s pf = true := by
          unfold chokedRequeues
          simp at haf hpf
          simp [haf, hpf]
        have hperm := List.isPerm_iff.mp (hadm pf order rfl hq)
        simp only [haf, hpf]
        refine ⟨?_, hi.doneSub, hi.doneNodup⟩
        intro x hx
        simp only [Bool.false_eq_true, if_false, List.mem_append]
        rcases hi.cover x hx with hx | hx | hx
        · exact Or.inl (Or.inl hx)
        · exact Or.inl (Or.inr (hperm.symm.subset hx))
        · exact Or.inr (Or.inr hx)
  | rejected b l =>
    simp only [step, Option.some.injEq] at h
    subst h
    unfold rejected
    split
    · exact hi
    · split
      · exact hi
      · refine ⟨?_, hi.doneSub, hi.doneNodup⟩
        intro x hx
        simp only [List.mem_append, List.mem_singleton]
        rcases hi.cover x hx with hx | hx | hx
        · exact Or.inl (Or.inl hx)
        · by_cases hxb : x = b
          · exact Or.inl (Or.inr hxb)
          · exact Or.inr (Or.inl (mem_setDelete.mpr ⟨hx, hxb⟩))
        · exact Or.inr (Or.inr hx)
  | requestBlocks q =>
    simp only [step, requestBlocks, Option.map_eq_some_iff] at h
    obtain ⟨⟨s1, r⟩, h1, h2⟩ := h
    simp only at h2
    subst h2
    have hfr := requestLoop_frame q _ _ _ _ _ h1
    refine ⟨fun x hx => requestLoop_cover q x _ _ _ _ _ rfl h1 (hi.cover x hx), ?_, ?_⟩
    · rw [hfr.2.2.1]; exact hi.doneSub
    · rw [hfr.2.2.1]; exact hi.doneNodup
  | cancelPending =>
    simp only [step, Option.map_eq_some_iff] at h
    obtain ⟨_, _, h2⟩ := h
    subst h2
    exact hi
  | done =>
    simp only [step, Option.some.injEq] at h
    subst h
    exact hi

/-- Along an admissible history both bookkeeping invariants hold at the end. -/
theorem run_inv23 {bl : List Block} {n : Nat} (hw : WFBlocks bl n) : ∀ (ops : List Op) (s s' : State),
    Inv2 bl s → Inv3 bl s → admissibleRun s ops = true → run s ops = some s' →
    Inv2 bl s' ∧ Inv3 bl s' := by
  intro ops
  induction ops with
  | nil =>
    intro s s' h2 h3 _ h
    simp [run, List.foldlM] at h
    subst h
    exact ⟨h2, h3⟩
  | cons op rest ih =>
    intro s s' h2 h3 hadm h
    unfold admissibleRun at hadm
    rw [Bool.and_eq_true] at hadm
    have hadm1 : ∀ pf order, op = .choked pf order → chokedRequeues s pf = true →
        chokedAdmissible s order = true := by
      intro pf order hop hq
      subst hop
      have := hadm.1
      simp only [hq, Bool.not_true, Bool.false_or] at this
      exact this
    obtain ⟨s1, hs1, h21⟩ := step_some hw h2 op hadm1
    have h31 := step_inv3 hw h2.blocks h3 hadm1 hs1
    have hrest := hadm.2
    rw [hs1] at hrest
    unfold run at h
    rw [List.foldlM_cons, hs1] at h
    exact ih s1 s' h21 h31 hrest h

/-- `Done()` is false: some block of the piece has not been received. -/
theorem not_isDone_missing {bl : List Block} {n : Nat} (hw : WFBlocks bl n) {s : State}
    (hb : s.blocks = makeBlocks bl) (hi : Inv3 bl s) (hnd : isDone s = false) :
    ∃ b ∈ bl, b.b ∉ s.done := by
  apply Classical.byContradiction
  intro hne
  have hall : bl.map (·.b) ⊆ s.done := by
    intro x hx
    obtain ⟨y, hy, hyx⟩ := List.mem_map.mp hx
    apply Classical.byContradiction
    intro hxd
    exact hne ⟨y, hy, by rw [hyx]; exact hxd⟩
  have h1 := List.Nodup.length_le_of_subset hi.doneNodup hi.doneSub
  have h2 := List.Nodup.length_le_of_subset hw.nodup_keys hall
  have hlenB : s.blocks.length = bl.length := by rw [hb, makeBlocks_eq hw]; simp
  unfold isDone at hnd
  rw [hlenB] at hnd
  simp at h1 h2 hnd
  omega

/-! ### No block is queued twice; the window counts the requests at the peer (C17) -/

/-- `remaining` and `pending` are duplicate-free and disjoint. -/
structure Inv4 (s : State) : Prop where
  remNodup : s.remaining.Nodup
  pendNodup : s.pending.Nodup
  disj : ∀ x ∈ s.remaining, x ∉ s.pending

theorem inv4_init {bl : List Block} (hk : (bl.map (·.b)).Nodup) (af : Bool) (buf : Bytes) :
    Inv4 (init bl af buf) :=
  ⟨by simpa [init, makeRemaining] using hk, by simp [init], by simp [init]⟩

theorem length_setInsert_fresh {s : List Nat} {k : Nat} (h : k ∉ s) :
    (setInsert s k).length = s.length + 1 := by
  unfold setInsert
  simp [h]

theorem length_setDelete_mem {s : List Nat} {k : Nat} (hnd : s.Nodup) (h : k ∈ s) :
    (setDelete s k).length + 1 = s.length := by
  induction s with
  | nil => simp at h
  | cons a rest ih =>
    rw [List.nodup_cons] at hnd
    unfold setDelete
    by_cases hak : a = k
    · subst hak
      have hfil : rest.filter (fun x => x != a) = rest := by
        rw [List.filter_eq_self]
        intro y hy
        have : y ≠ a := fun e => hnd.1 (e ▸ hy)
        simpa using this
      simp [hfil]
    · have hk : k ∈ rest := by
        rcases List.mem_cons.mp h with e | e
        · exact absurd e.symm hak
        · exact e
      have := ih hnd.2 hk
      unfold setDelete at this
      simp [hak]
      omega

theorem requestLoop_inv4 (q : Int) : ∀ (snap : List Nat) (s : State) (acc : List (Nat × Nat))
    (s' : State) (r : List (Nat × Nat)), s.remaining = snap →
    requestLoop q snap s acc = some (s', r) → Inv4 s → Inv4 s' := by
  intro snap
  induction snap with
  | nil =>
    intro s acc s' r _ h hi
    simp [requestLoop] at h
    rw [← h.1]; exact hi
  | cons x rest ih =>
    intro s acc s' r hrem h hi
    have hnd := hi.remNodup
    rw [hrem, List.nodup_cons] at hnd
    unfold requestLoop at h
    split at h
    · simp at h
      rw [← h.1]; exact hi
    · split at h
      · cases h
      · split at h
        · apply ih _ _ _ _ (by simp [hrem]) h
          refine ⟨by simpa [hrem] using hnd.2, hi.pendNodup, ?_⟩
          intro y hy
          simp only [hrem, List.drop_succ_cons, List.drop_zero] at hy
          exact hi.disj y (by rw [hrem]; exact List.mem_cons_of_mem _ hy)
        · apply ih _ _ _ _ (by simp [hrem]) h
          refine ⟨by simpa [hrem] using hnd.2, nodup_setInsert hi.pendNodup, ?_⟩
          intro y hy hyp
          simp only [hrem, List.drop_succ_cons, List.drop_zero] at hy
          rcases mem_setInsert.mp hyp with hyp | rfl
          · exact hi.disj y (by rw [hrem]; exact List.mem_cons_of_mem _ hy) hyp
          · exact hnd.1 hy

/-- Each request the loop sends adds one entry to the window. -/
theorem requestLoop_count (q : Int) : ∀ (snap : List Nat) (s : State) (acc : List (Nat × Nat))
    (s' : State) (r : List (Nat × Nat)), snap.Nodup → (∀ x ∈ snap, x ∉ s.pending) →
    requestLoop q snap s acc = some (s', r) →
    s'.pending.length + acc.length = s.pending.length + r.length := by
  intro snap
  induction snap with
  | nil =>
    intro s acc s' r _ _ h
    simp [requestLoop] at h
    rw [← h.1, ← h.2]; simp
  | cons x rest ih =>
    intro s acc s' r hnd hdis h
    rw [List.nodup_cons] at hnd
    unfold requestLoop at h
    split at h
    · simp at h
      rw [← h.1, ← h.2]; simp
    · split at h
      · cases h
      · split at h
        · have := ih { s with remaining := s.remaining.drop 1 } _ _ _ hnd.2
            (fun y hy => hdis y (List.mem_cons_of_mem _ hy)) h
          exact this
        · have hx : x ∉ s.pending := hdis x List.mem_cons_self
          have := ih _ _ _ _ hnd.2 (by
            intro y hy hyp
            rcases mem_setInsert.mp hyp with hyp | rfl
            · exact hdis y (List.mem_cons_of_mem _ hy) hyp
            · exact hnd.1 hy) h
          simp only [List.length_cons, length_setInsert_fresh hx] at this
          omega

theorem requestBlocks_window {s s' : State} {q : Int} {r : List (Nat × Nat)} (hi : Inv4 s)
    (h : requestBlocks s q = some (s', r)) : s'.pending.length = s.pending.length + r.length := by
  have := requestLoop_count q _ _ _ _ _ hi.remNodup hi.disj h
  simpa using this

theorem gotBlock_window (s : State) (hi : Inv4 s) (b : Nat) (d : Bytes) :
    (gotBlock s b d).1.pending.length + (if (gotBlock s b d).2 = .ok then 1 else 0) = s.pending.length := by
  unfold gotBlock
  split
  · simp
  · split
    · simp
    · split
      · simp
      · split
        · simp
        · rename_i hp
          have hp' : b ∈ s.pending := by simpa using hp
          simpa using length_setDelete_mem hi.pendNodup hp'

theorem rejected_window (s : State) (hi : Inv4 s) (b l : Nat) :
    (rejected s b l).1.pending.length + (if findBlock s b l && s.pending.contains b then 1 else 0) =
      s.pending.length := by
  unfold rejected
  by_cases hf : findBlock s b l = true
  · by_cases hp : b ∈ s.pending
    · have := length_setDelete_mem hi.pendNodup hp
      simp [hf, hp]
      omega
    · simp [hf, hp]
  · have hf' : findBlock s b l = false := by simpa using hf
    simp [hf']

theorem choked_window (s : State) (pf : Bool) (order : List Nat) :
    (choked s pf order).pending.length + (if chokedRequeues s pf then s.pending.length else 0) =
      s.pending.length := by
  unfold choked chokedRequeues
  cases s.allowedFast <;> cases pf <;> simp

theorem step_inv4 {s s' : State} {op : Op} (hi : Inv4 s)
    (hadm : ∀ pf order, op = .choked pf order → chokedRequeues s pf = true → chokedAdmissible s order = true)
    (h : step s op = some s') : Inv4 s' := by
  cases op with
  | gotBlock b d =>
    simp only [step, Option.some.injEq] at h
    subst h
    unfold gotBlock
    split
    · exact hi
    · split
      · exact hi
      · split
        · exact hi
        · split
          · exact ⟨hi.remNodup, hi.pendNodup, hi.disj⟩
          · exact ⟨hi.remNodup, nodup_setDelete hi.pendNodup,
              fun x hx hxp => hi.disj x hx (mem_setDelete.mp hxp).1⟩
  | choked pf order =>
    simp only [step, Option.some.injEq] at h
    subst h
    unfold choked
    by_cases haf : s.allowedFast = true
    · simp only [haf, if_true]; exact hi
    · by_cases hpf : pf = true
      · simp only [haf, hpf, if_true]
        simp; exact hi
      · have hq : chokedRequeues s pf = true := by
          unfold chokedRequeues
          simp at haf hpf
          simp [haf, hpf]
        have hperm := List.isPerm_iff.mp (hadm pf order rfl hq)
        simp only [haf, hpf]
        refine ⟨?_, by simp, by simp⟩
        simp only [Bool.false_eq_true, if_false]
        rw [List.nodup_append]
        refine ⟨hi.remNodup, hperm.nodup_iff.mpr hi.pendNodup, ?_⟩
        intro a ha b hb e
        subst e
        exact hi.disj a ha (hperm.subset hb)
  | rejected b l =>
    simp only [step, Option.some.injEq] at h
    subst h
    unfold rejected
    split
    · exact hi
    · split
      · exact hi
      · rename_i hp
        have hp' : b ∈ s.pending := by simpa using hp
        refine ⟨?_, nodup_setDelete hi.pendNodup, ?_⟩
        · simp only
          rw [List.nodup_append]
          refine ⟨hi.remNodup, by simp, ?_⟩
          intro a ha c hc e
          simp only [List.mem_singleton] at hc
          subst hc
          subst e
          exact hi.disj a ha hp'
        · intro x hx hxp
          simp only [List.mem_append, List.mem_singleton] at hx
          obtain ⟨hxp1, hxp2⟩ := mem_setDelete.mp hxp
          rcases hx with hx | rfl
          · exact hi.disj x hx hxp1
          · exact hxp2 rfl
  | requestBlocks q =>
    simp only [step, requestBlocks, Option.map_eq_some_iff] at h
    obtain ⟨⟨s1, r⟩, h1, h2⟩ := h
    simp only at h2
    subst h2
    exact requestLoop_inv4 q _ _ _ _ _ rfl h1 hi
  | cancelPending =>
    simp only [step, Option.map_eq_some_iff] at h
    obtain ⟨_, _, h2⟩ := h
    subst h2
    exact hi
  | done =>
    simp only [step, Option.some.injEq] at h
    subst h
    exact hi

theorem admissible_head {s : State} {op : Op} {rest : List Op} (hadm : admissibleRun s (op :: rest) = true) :
    (∀ pf order, op = .choked pf order → chokedRequeues s pf = true → chokedAdmissible s order = true) ∧
    (∀ s1, step s op = some s1 → admissibleRun s1 rest = true) := by
  unfold admissibleRun at hadm
  rw [Bool.and_eq_true] at hadm
  refine ⟨?_, ?_⟩
  · intro pf order hop hq
    subst hop
    have := hadm.1
    simp only [hq, Bool.not_true, Bool.false_or] at this
    exact this
  · intro s1 hs1
    have := hadm.2
    rw [hs1] at this
    exact this

theorem run_inv4 : ∀ (ops : List Op) (s s' : State), Inv4 s → admissibleRun s ops = true →
    run s ops = some s' → Inv4 s' := by
  intro ops
  induction ops with
  | nil =>
    intro s s' hi _ h
    simp [run, List.foldlM] at h
    subst h
    exact hi
  | cons op rest ih =>
    intro s s' hi hadm h
    obtain ⟨hadm1, hadm2⟩ := admissible_head hadm
    unfold run at h
    rw [List.foldlM_cons] at h
    cases hs : step s op with
    | none => rw [hs] at h; cases h
    | some s1 =>
      rw [hs] at h
      exact ih s1 s' (step_inv4 hi hadm1 hs) (hadm2 s1 hs) h

/-! ### Blocks cover exactly the data bytes -/

theorem paint_getElem {m : List Bool} {b : Block} (h : m.length ≤ b.b) (i : Nat) :
    (m ++ List.replicate (b.b - m.length) false ++ List.replicate b.l true)[i]? = some true ↔
      (m[i]? = some true ∨ Covers b i) := by
  unfold Covers
  by_cases h1 : i < m.length
  · rw [List.append_assoc, List.getElem?_append_left h1]
    constructor
    · exact Or.inl
    · rintro (h' | h')
      · exact h'
      · omega
  · have hm : m[i]? = none := List.getElem?_eq_none (by omega)
    rw [List.append_assoc, List.getElem?_append_right (by omega), hm]
    by_cases h2 : i < b.b
    · rw [List.getElem?_append_left (by simp; omega), List.getElem?_replicate]
      have : i - m.length < b.b - m.length := by omega
      simp [this]
      omega
    · rw [List.getElem?_append_right (by simp; omega), List.getElem?_replicate]
      simp only [List.length_replicate]
      by_cases h3 : i < b.b + b.l
      · have : i - m.length - (b.b - m.length) < b.l := by omega
        simp [this]
        omega
      · have : ¬ i - m.length - (b.b - m.length) < b.l := by omega
        simp [this]
        omega

theorem foldlM_paint_mask {bl : List Block} : ∀ {m m' : List Bool}, bl.foldlM paint m = some m' →
    ∀ i, m'[i]? = some true ↔ (m[i]? = some true ∨ ∃ b ∈ bl, Covers b i) := by
  induction bl with
  | nil =>
    intro m m' h i
    simp [List.foldlM] at h
    subst h
    simp
  | cons b rest ih =>
    intro m m' h i
    rw [List.foldlM_cons] at h
    by_cases hlt : b.b < m.length
    · simp [paint, hlt] at h
    · have hp : paint m b = some (m ++ List.replicate (b.b - m.length) false ++ List.replicate b.l true) := by
        simp [paint, hlt]
      rw [hp] at h
      have h' : rest.foldlM paint (m ++ List.replicate (b.b - m.length) false ++ List.replicate b.l true) = some m' := h
      rw [ih h' i, paint_getElem (by omega) i]
      constructor
      · rintro ((h1 | h1) | ⟨x, hx, hc⟩)
        · exact Or.inl h1
        · exact Or.inr ⟨b, List.mem_cons_self, h1⟩
        · exact Or.inr ⟨x, List.mem_cons_of_mem _ hx, hc⟩
      · rintro (h1 | ⟨x, hx, hc⟩)
        · exact Or.inl (Or.inl h1)
        · simp only [List.mem_cons] at hx
          rcases hx with rfl | hx
          · exact Or.inl (Or.inr hc)
          · exact Or.inr ⟨x, hx, hc⟩

/-- Under `Tiles`, a byte position is a data (non-padding) byte iff some block covers it. -/
theorem tiles_mask_iff {bs : Nat} {secs : List Sec} {bl : List Block} (h : Tiles bs secs bl = true) (i : Nat) :
    (secMask secs)[i]? = some true ↔ ∃ b ∈ bl, Covers b i := by
  unfold Tiles at h
  simp only [Bool.and_eq_true, List.all_eq_true, decide_eq_true_eq] at h
  obtain ⟨_, hm⟩ := h
  cases hbm : blkMask bl with
  | none => simp [hbm] at hm
  | some m =>
    simp only [hbm, Bool.and_eq_true, decide_eq_true_eq, beq_iff_eq] at hm
    have hmask := foldlM_paint_mask (m := []) hbm i
    have hmask' : m[i]? = some true ↔ ∃ b ∈ bl, Covers b i := by
      rw [hmask]; simp
    rw [← hmask', ← hm.2]
    unfold padTo
    by_cases hi : i < m.length
    · rw [List.getElem?_append_left hi]
    · rw [List.getElem?_append_right (by omega), List.getElem?_eq_none (by omega : m.length ≤ i),
        List.getElem?_replicate]
      split <;> simp

theorem calcBlocks_mask_iff {bs : Nat} (hbs : 0 < bs) {secs : List Sec} {bl : List Block}
    (h : calcBlocks bs secs = some bl) (i : Nat) :
    (secMask secs)[i]? = some true ↔ ∃ b ∈ bl, Covers b i := by
  unfold calcBlocks at h
  by_cases he : secs.isEmpty
  · simp [he] at h
  · simp only [he] at h
    have h' : runWith CB.nextBlock bs secs = bl := by simpa using h
    subst h'
    exact tiles_mask_iff (runWith_tiles bs hbs secs) i

end Rain.PD
