import RainModel.Model.Cache
/-!
Helper lemmas for M-CACHE: the invariant is preserved by every operation, `makeRoom` never panics
from an invariant state, and every cached value was returned by a loader for its key.
-/
set_option linter.unusedSectionVars false
namespace Rain.Cache
variable {κ : Type} [DecidableEq κ]

/-! ### lists -/

theorem removeKey_cons_eq (k : κ) (i : Item κ) (r : List (Item κ)) (h : i.key = k) :
    removeKey k (i :: r) = removeKey k r := by
  simp [removeKey, h]

theorem removeKey_cons_ne (k : κ) (i : Item κ) (r : List (Item κ)) (h : i.key ≠ k) :
    removeKey k (i :: r) = i :: removeKey k r := by
  simp [removeKey, h]

theorem removeKey_of_not_mem (k : κ) (h : List (Item κ)) (hk : k ∉ h.map (·.key)) : removeKey k h = h := by
  induction h with
  | nil => rfl
  | cons i r ih =>
    have h1 : i.key ≠ k := fun e => hk (by simp [e])
    have h2 : k ∉ r.map (·.key) := fun e => hk (by simp at e ⊢; exact Or.inr e)
    rw [removeKey_cons_ne _ _ _ h1, ih h2]

theorem map_key_removeKey (k : κ) (h : List (Item κ)) (hn : (h.map (·.key)).Nodup) :
    (removeKey k h).map (·.key) = (h.map (·.key)).erase k := by
  induction h with
  | nil => rfl
  | cons i r ih =>
    have hr : (r.map (·.key)).Nodup := (List.nodup_cons.mp hn).2
    have hi : i.key ∉ r.map (·.key) := (List.nodup_cons.mp hn).1
    by_cases hk : i.key = k
    · rw [removeKey_cons_eq _ _ _ hk, removeKey_of_not_mem _ _ (hk ▸ hi)]
      simp [hk]
    · rw [removeKey_cons_ne _ _ _ hk]
      have : (i.key == k) = false := by simpa using hk
      simp [this, ih hr]

theorem sumLen_removeKey (i : Item κ) (h : List (Item κ)) (hn : (h.map (·.key)).Nodup) (hi : i ∈ h) :
    sumLen (removeKey i.key h) = sumLen h - i.value.length := by
  induction h with
  | nil => cases hi
  | cons j r ih =>
    have hr : (r.map (·.key)).Nodup := (List.nodup_cons.mp hn).2
    have hj : j.key ∉ r.map (·.key) := (List.nodup_cons.mp hn).1
    rcases List.mem_cons.mp hi with e | hir
    · subst e
      rw [removeKey_cons_eq _ _ _ rfl, removeKey_of_not_mem _ _ hj]
      simp [sumLen]; omega
    · have hne : j.key ≠ i.key := fun e => hj (e ▸ List.mem_map_of_mem hir)
      rw [removeKey_cons_ne _ _ _ hne]
      simp [sumLen, ih hr hir]; omega

theorem sumLen_nonneg (h : List (Item κ)) : 0 ≤ sumLen h := by
  induction h with
  | nil => simp [sumLen]
  | cons i r ih => simp [sumLen]; omega

theorem sumLen_append (a b : List (Item κ)) : sumLen (a ++ b) = sumLen a + sumLen b := by
  induction a with
  | nil => simp [sumLen]
  | cons i r ih => simp [sumLen, ih]; omega

theorem minLast_mem {h : List (Item κ)} {v : Item κ} (hv : minLast h = some v) : v ∈ h := by
  induction h generalizing v with
  | nil => simp [minLast] at hv
  | cons i r ih =>
    unfold minLast at hv
    cases hm : minLast r with
    | none => simp [hm] at hv; simp [hv]
    | some j =>
      simp only [hm] at hv
      split at hv
      · cases hv; exact List.mem_cons_of_mem _ (ih hm)
      · cases hv; exact List.mem_cons_self

theorem minLast_none {h : List (Item κ)} (hv : minLast h = none) : h = [] := by
  cases h with
  | nil => rfl
  | cons i r =>
    unfold minLast at hv
    cases hm : minLast r <;> simp [hm] at hv
    split at hv <;> cases hv

/-! ### generalised invariant: `extra` = keys that are in the map but whose item is being loaded -/

structure InvX (extra : List κ) (c : Cache κ) : Prop where
  size_eq : c.size = sumLen c.heap
  keys_perm : c.keys.Perm (extra ++ c.heap.map (·.key))
  nodup : (extra ++ c.heap.map (·.key)).Nodup
  bound : c.heap = [] ∨ c.size ≤ c.maxSize

theorem inv_iff_invX (c : Cache κ) : Inv c ↔ InvX [] c := by
  constructor
  · intro h; exact ⟨h.size_eq, by simpa using h.keys_perm, by simpa using h.nodup, h.bound⟩
  · intro h; exact ⟨h.size_eq, by simpa using h.keys_perm, by simpa using h.nodup, h.bound⟩

theorem InvX.size_nonneg {extra : List κ} {c : Cache κ} (h : InvX extra c) : 0 ≤ c.size := by
  rw [h.size_eq]; exact sumLen_nonneg _

theorem InvX.heap_nodup {extra : List κ} {c : Cache κ} (h : InvX extra c) : (c.heap.map (·.key)).Nodup :=
  (List.nodup_append.mp h.nodup).2.1

theorem removeItem_invX {extra : List κ} {c : Cache κ} (h : InvX extra c) {i : Item κ} (hi : i ∈ c.heap) :
    InvX extra (c.removeItem i) := by
  have hn := h.heap_nodup
  have hik : i.key ∈ c.heap.map (·.key) := List.mem_map_of_mem hi
  have hie : i.key ∉ extra := fun he => (List.nodup_append.mp h.nodup).2.2 _ he _ hik rfl
  have hkeys : (removeKey i.key c.heap).map (·.key) = (c.heap.map (·.key)).erase i.key := by
    rw [map_key_removeKey _ _ hn]
  refine ⟨?_, ?_, ?_, ?_⟩
  · simp only [Cache.removeItem]; rw [sumLen_removeKey i c.heap hn hi, h.size_eq]
  · simp only [Cache.removeItem]; rw [hkeys, ← List.erase_append_right _ hie]
    exact h.keys_perm.erase _
  · simp only [Cache.removeItem]; rw [hkeys, ← List.erase_append_right _ hie]
    exact h.nodup.erase _
  · right
    simp only [Cache.removeItem]
    rcases h.bound with he | hb
    · rw [he] at hi; cases hi
    · omega

theorem removeKey_length_lt {i : Item κ} {h : List (Item κ)} (hi : i ∈ h) :
    (removeKey i.key h).length < h.length := by
  unfold removeKey
  exact List.length_filter_lt_length_iff_exists.mpr ⟨i, hi, by simp⟩

theorem removeKey_subset (k : κ) (h : List (Item κ)) : ∀ j ∈ removeKey k h, j ∈ h := by
  intro j hj; exact (List.mem_filter.mp hj).1

/-- `makeRoom` terminates without panic from an invariant state when the new value fits at all, and
leaves room for it; it only removes items. -/
theorem makeRoom_ok {extra : List κ} (len : Nat) :
    ∀ (fuel : Nat) (c : Cache κ), InvX extra c → (len : Int) ≤ c.maxSize → c.heap.length < fuel →
    ∃ c', makeRoom len fuel c = some c' ∧ InvX extra c' ∧ (len : Int) ≤ c'.maxSize - c'.size ∧
      c'.maxSize = c.maxSize ∧ c'.now = c.now ∧ c'.ttl = c.ttl ∧ (∀ j ∈ c'.heap, j ∈ c.heap) ∧
      c'.heap.length ≤ c.heap.length := by
  intro fuel
  induction fuel with
  | zero => intro c _ _ hf; omega
  | succ f ih =>
    intro c hinv hlen hf
    unfold makeRoom
    by_cases hroom : c.maxSize - c.size < (len : Int)
    · simp only [hroom, if_true]
      cases hm : minLast c.heap with
      | none =>
        have he := minLast_none hm
        have : c.size = 0 := by rw [hinv.size_eq, he]; rfl
        omega
      | some v =>
        have hv := minLast_mem hm
        have hinv' := removeItem_invX hinv hv
        have hlt : (c.removeItem v).heap.length < f := by
          have := removeKey_length_lt hv
          simp only [Cache.removeItem]; omega
        obtain ⟨c', h1, h2, h3, h4, h5, h6, h7, h8⟩ := ih (c.removeItem v) hinv' (by simpa [Cache.removeItem] using hlen) hlt
        refine ⟨c', h1, h2, h3, by simpa [Cache.removeItem] using h4, by simpa [Cache.removeItem] using h5,
          by simpa [Cache.removeItem] using h6, ?_, ?_⟩
        · intro j hj; exact removeKey_subset _ _ _ (by simpa [Cache.removeItem] using h7 j hj)
        · have := removeKey_length_lt hv
          simp only [Cache.removeItem] at h8; omega
    · simp only [hroom, if_false]
      exact ⟨c, rfl, hinv, by omega, rfl, rfl, rfl, fun _ h => h, Nat.le_refl _⟩

/-! ### `touch` -/

theorem touch_map_key (k : κ) (now ttl : Nat) (h : List (Item κ)) :
    (touch k now ttl h).map (·.key) = h.map (·.key) := by
  induction h with
  | nil => rfl
  | cons i r ih =>
    simp only [touch, List.map_cons] at ih ⊢
    rw [ih]
    by_cases hk : i.key = k <;> simp [hk]

theorem touch_sumLen (k : κ) (now ttl : Nat) (h : List (Item κ)) : sumLen (touch k now ttl h) = sumLen h := by
  induction h with
  | nil => rfl
  | cons i r ih =>
    simp only [touch, List.map_cons, sumLen] at ih ⊢
    rw [ih]
    by_cases hk : i.key = k <;> simp [hk]

theorem touch_mem (k : κ) (now ttl : Nat) (h : List (Item κ)) :
    ∀ j ∈ touch k now ttl h, ∃ j0 ∈ h, j0.key = j.key ∧ j0.value = j.value := by
  intro j hj
  simp only [touch, List.mem_map] at hj
  obtain ⟨j0, hj0, e⟩ := hj
  refine ⟨j0, hj0, ?_⟩
  by_cases hk : j0.key = k
  · simp [hk] at e; subst e; simp [hk]
  · simp [hk] at e; subst e; simp

theorem touch_eq_nil (k : κ) (now ttl : Nat) (h : List (Item κ)) : touch k now ttl h = [] ↔ h = [] := by
  simp [touch]

/-! ### `get` -/

/-- Everything the property theorems need to know about one `Get`. -/
structure GetSpec (c : Cache κ) (k : κ) (r : LoadRes) (c' : Cache κ) (g : GetRes) : Prop where
  inv : Inv c'
  maxSize : c'.maxSize = c.maxSize
  ttl : c'.ttl = c.ttl
  no_panic : g ≠ .panic
  hit : ∀ v, g = .value v true → k ∈ c.keys ∧ ∃ j ∈ c.heap, j.key = k ∧ j.value = v
  miss : ∀ v, g = .value v false → k ∉ c.keys ∧ r = .ok v
  error : g = .error → k ∉ c.keys ∧ r = .err
  items : ∀ j ∈ c'.heap, (∃ j0 ∈ c.heap, j0.key = j.key ∧ j0.value = j.value) ∨
            (j.key = k ∧ r = .ok j.value ∧ k ∉ c.keys)

theorem get_spec (c : Cache κ) (hinv : Inv c) (k : κ) (r : LoadRes) :
    GetSpec c k r (get c k r).1 (get c k r).2 := by
  unfold get
  by_cases hk : k ∈ c.keys
  · -- hit
    simp only [hk, if_true]
    have hkh : k ∈ c.heap.map (·.key) := (hinv.keys_perm.mem_iff).mp hk
    cases hf : c.heap.find? (fun i => decide (i.key = k)) with
    | none =>
      exfalso
      obtain ⟨i, hi, e⟩ := List.mem_map.mp hkh
      have := List.find?_eq_none.mp hf i hi
      simp [e] at this
    | some i =>
      have hi : i ∈ c.heap := List.mem_of_find?_eq_some hf
      have hik : i.key = k := by simpa using List.find?_some hf
      refine ⟨⟨?_, ?_, ?_, ?_⟩, rfl, rfl, by simp, ?_, by simp, by simp, ?_⟩
      · simp [touch_sumLen, hinv.size_eq]
      · simp only [touch_map_key]; exact hinv.keys_perm
      · simp only [touch_map_key]; exact hinv.nodup
      · rcases hinv.bound with he | hb
        · left; simp [touch_eq_nil, he]
        · right; exact hb
      · intro v hv
        simp at hv
        exact ⟨hk, i, hi, hik, hv⟩
      · intro j hj
        exact Or.inl (touch_mem _ _ _ _ j hj)
  · -- miss
    simp only [hk, if_false]
    cases r with
    | err =>
      simp only [List.erase_cons_head]
      exact ⟨⟨hinv.size_eq, hinv.keys_perm, hinv.nodup, hinv.bound⟩, rfl, rfl, by simp, by simp, by simp,
        fun _ => ⟨hk, rfl⟩, fun j hj => Or.inl ⟨j, hj, rfl, rfl⟩⟩
    | ok v =>
      by_cases hbig : (v.length : Int) > c.maxSize
      · simp only [hbig, if_true, List.erase_cons_head]
        refine ⟨⟨hinv.size_eq, hinv.keys_perm, hinv.nodup, hinv.bound⟩, rfl, rfl, by simp, by simp, ?_, by simp,
          fun j hj => Or.inl ⟨j, hj, rfl, rfl⟩⟩
        intro v' hv'; simp at hv'; exact ⟨hk, by rw [hv']⟩
      · simp only [hbig, if_false]
        -- the state `makeRoom` runs in: the key is in the map, its item is not yet on the access list
        let c1 : Cache κ := { maxSize := c.maxSize, ttl := c.ttl, now := c.now + 1, keys := k :: c.keys,
                              heap := c.heap, size := c.size }
        have hkh : k ∉ c.heap.map (·.key) := fun h => hk ((hinv.keys_perm.mem_iff).mpr h)
        have hx : InvX [k] c1 := by
          refine ⟨hinv.size_eq, ?_, ?_, hinv.bound⟩
          · exact List.Perm.cons k hinv.keys_perm
          · exact List.nodup_cons.mpr ⟨hkh, hinv.nodup⟩
        obtain ⟨c', h1, h2, h3, h4, h5, h6, h7, _⟩ :=
          makeRoom_ok (extra := [k]) v.length (c.heap.length + 1) c1 hx (by simp [c1]; omega) (by simp [c1])
        simp only [c1] at h1
        rw [h1]
        refine ⟨⟨?_, ?_, ?_, ?_⟩, by simpa [c1] using h4, by simpa [c1] using h6, by simp, by simp, ?_, by simp, ?_⟩
        · simp [sumLen_append, sumLen, h2.size_eq]
        · simp only [List.map_append, List.map_cons, List.map_nil]
          exact h2.keys_perm.trans List.perm_append_comm
        · simp only [List.map_append, List.map_cons, List.map_nil]
          exact (List.perm_append_comm.nodup_iff).mp h2.nodup
        · right; simp; omega
        · intro v' hv'; simp at hv'; exact ⟨hk, by rw [hv']⟩
        · intro j hj
          simp only [List.mem_append, List.mem_singleton] at hj
          rcases hj with hj | hj
          · exact Or.inl ⟨j, by simpa [c1] using h7 j hj, rfl, rfl⟩
          · subst hj; exact Or.inr ⟨rfl, rfl, hk⟩

/-! ### `fire`, `advance`, `clear`, histories -/

/-- Every item of `c'` is (up to access time) an item of `c`. -/
def Sub (c c' : Cache κ) : Prop := ∀ j ∈ c'.heap, ∃ j0 ∈ c.heap, j0.key = j.key ∧ j0.value = j.value

theorem fire_spec (c : Cache κ) (hinv : Inv c) (k : κ) :
    Inv (fire c k) ∧ (fire c k).maxSize = c.maxSize ∧ (fire c k).ttl = c.ttl ∧ Sub c (fire c k) := by
  unfold fire
  cases hf : c.heap.find? (fun i => decide (i.key = k)) with
  | none => exact ⟨hinv, rfl, rfl, fun j hj => ⟨j, hj, rfl, rfl⟩⟩
  | some i =>
    have hi : i ∈ c.heap := List.mem_of_find?_eq_some hf
    refine ⟨(inv_iff_invX _).mpr (removeItem_invX ((inv_iff_invX _).mp hinv) hi), rfl, rfl, ?_⟩
    intro j hj
    exact ⟨j, removeKey_subset _ _ _ hj, rfl, rfl⟩

theorem fireAll_spec (l : List (Item κ)) : ∀ (c : Cache κ), Inv c →
    Inv (l.foldl (fun c i => fire c i.key) c) ∧ (l.foldl (fun c i => fire c i.key) c).maxSize = c.maxSize ∧
    (l.foldl (fun c i => fire c i.key) c).ttl = c.ttl ∧ Sub c (l.foldl (fun c i => fire c i.key) c) := by
  induction l with
  | nil => intro c h; exact ⟨h, rfl, rfl, fun j hj => ⟨j, hj, rfl, rfl⟩⟩
  | cons i r ih =>
    intro c h
    obtain ⟨h1, h2, h3, h4⟩ := fire_spec c h i.key
    obtain ⟨g1, g2, g3, g4⟩ := ih (fire c i.key) h1
    refine ⟨g1, g2.trans h2, g3.trans h3, ?_⟩
    intro j hj
    obtain ⟨j1, hj1, e1, e2⟩ := g4 j hj
    obtain ⟨j0, hj0, f1, f2⟩ := h4 j1 hj1
    exact ⟨j0, hj0, f1.trans e1, f2.trans e2⟩

theorem advance_spec (c : Cache κ) (hinv : Inv c) (d : Nat) :
    Inv (advance c d) ∧ (advance c d).maxSize = c.maxSize ∧ (advance c d).ttl = c.ttl ∧ Sub c (advance c d) := by
  unfold advance
  have h0 : Inv ({ c with now := c.now + d } : Cache κ) := ⟨hinv.size_eq, hinv.keys_perm, hinv.nodup, hinv.bound⟩
  exact fireAll_spec _ _ h0

theorem clear_inv (c : Cache κ) : Inv (clear c) :=
  ⟨rfl, List.Perm.refl _, List.nodup_nil, Or.inl rfl⟩

theorem new_inv (maxSize : Int) (ttl : Nat) : Inv (new maxSize ttl : Cache κ) :=
  ⟨rfl, List.Perm.refl _, List.nodup_nil, Or.inl rfl⟩

/-- Every cached value was returned by a loader for its key. -/
def Prov (c : Cache κ) (log : List (κ × Bytes)) : Prop := ∀ i ∈ c.heap, (i.key, i.value) ∈ log

theorem step_spec (c : Cache κ) (hinv : Inv c) (log : List (κ × Bytes)) (hp : Prov c log) (o : Op κ) :
    Inv (step c o).1 ∧ (step c o).1.maxSize = c.maxSize ∧ Prov (step c o).1 (log ++ loadOf c o) := by
  cases o with
  | get k r =>
    have hs := get_spec c hinv k r
    refine ⟨hs.inv, hs.maxSize, ?_⟩
    intro j hj
    rcases hs.items j hj with ⟨j0, hj0, e1, e2⟩ | ⟨e1, e2, e3⟩
    · exact List.mem_append_left _ (e1 ▸ e2 ▸ hp j0 hj0)
    · apply List.mem_append_right
      simp [loadOf, e2, e3, e1]
  | fire k =>
    obtain ⟨h1, h2, _, h4⟩ := fire_spec c hinv k
    refine ⟨h1, h2, ?_⟩
    intro j hj
    obtain ⟨j0, hj0, e1, e2⟩ := h4 j hj
    exact List.mem_append_left _ (e1 ▸ e2 ▸ hp j0 hj0)
  | advance d =>
    obtain ⟨h1, h2, _, h4⟩ := advance_spec c hinv d
    refine ⟨h1, h2, ?_⟩
    intro j hj
    obtain ⟨j0, hj0, e1, e2⟩ := h4 j hj
    exact List.mem_append_left _ (e1 ▸ e2 ▸ hp j0 hj0)
  | clear =>
    exact ⟨clear_inv c, rfl, fun j hj => by simp [step, clear] at hj⟩

theorem runLog_spec (ops : List (Op κ)) : ∀ (c : Cache κ) (log : List (κ × Bytes)), Inv c → Prov c log →
    Inv (runLog c log ops).1 ∧ (runLog c log ops).1.maxSize = c.maxSize ∧ Prov (runLog c log ops).1 (runLog c log ops).2 := by
  induction ops with
  | nil => intro c log h hp; exact ⟨h, rfl, hp⟩
  | cons o r ih =>
    intro c log h hp
    obtain ⟨h1, h2, h3⟩ := step_spec c h log hp o
    obtain ⟨g1, g2, g3⟩ := ih _ _ h1 h3
    exact ⟨g1, g2.trans h2, g3⟩

end Rain.Cache
