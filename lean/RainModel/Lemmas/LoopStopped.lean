import RainModel.Lemmas.LoopLife2
/-!
`stop` reaches `Stopped`; a stopped torrent stays stopped while the workers drain.
-/
namespace Rain.Loop

/-- `stop` never panics: the resume write is guarded by `bitfield != nil`. -/
theorem stop_panicked (s : St) (e : Bool) : (s.stop e).panicked = s.panicked := by
  rw [stop_eq]
  split
  · rfl
  · simp only [stopRun, stopFin_panicked, stopVer_panicked, stopAlloc_panicked, closeData_panicked]
    unfold stopWB
    split
    · next h =>
      unfold St.writeBitfield
      split
      · simp
      · next hn =>
        have : s.bf = none := by simpa using hn
        simp [this] at h
    · simp

theorem handleVerificationDone_doVerify (m : M) (_h : m.1.doVerify = false) :
    (handleVerificationDone m).1.doVerify = false := by
  rw [handleVerificationDone_eq]
  dsimp only
  split
  · simp
  · next hd => simpa using hd

/-- The state after a step, in terms of its three phases. -/
theorem step_st (s : St) (p : Parked) (kn : Nat → Bool) (op : Op) :
    (step s p kn op).1.st =
      if p.isSome then
        (deliverParked (runWorkers 12 (handle { s with sto := [], mayStart := [], closedDl := [], mayStartI := false } p kn op).1)
          (handle { s with sto := [], mayStart := [], closedDl := [], mayStartI := false } p kn op).2.2).1.1
      else (runWorkers 12 (handle { s with sto := [], mayStart := [], closedDl := [], mayStartI := false } p kn op).1).1 := by
  unfold step
  dsimp only
  split <;> rfl

/-- Once stopped with no verify command pending, draining the workers keeps the torrent stopped. -/
theorem runWorkers_stays_stopped (fuel : Nat) (m : M) (h : Life m.1) (he : m.1.errC = false)
    (hv : m.1.doVerify = false) :
    (runWorkers fuel m).1.errC = false ∧ (runWorkers fuel m).1.doVerify = false := by
  induction fuel generalizing m with
  | zero => exact ⟨he, hv⟩
  | succ n ih =>
    obtain ⟨i1, i2, i3, i4, i5, i6, i7, i8⟩ := h.idle (Or.inl he)
    have hsa : m.1.stopAnn = false := by
      cases hs : m.1.stopAnn
      · rfl
      · have := h.sa hs; rw [he] at this; cases this
    unfold runWorkers
    dsimp only
    split
    · exact ⟨he, hv⟩
    · simp only [hsa, i1, i2, Bool.false_eq_true, ↓reduceIte, Bool.false_and]
      split
      · split
        · exact ih _ (writerRun_life m _ h) (by simpa using he) (by simpa using hv)
        · exact ⟨he, hv⟩
      · exact ⟨he, hv⟩

/-- **stop_reaches_stopped.** Whatever the torrent is doing (downloading, seeding, allocating or verifying
behind a gate, fetching metadata, already stopping or stopped): after the `stop` command and the
completions it releases, the status is `Stopped` — provided the loop has not panicked and no verify command
is pending (`doVerify`; a pending verify turns the stop into a restart, see `verify_ends_stopped`). -/
theorem stop_reaches_stopped (s : St) (p : Parked) (kn : Nat → Bool) (h : Life s)
    (hp : s.panicked = none) (hv : s.doVerify = false) :
    (step s p kn .stop).1.st.status = .stopped := by
  rw [status_stopped_iff, step_st]
  -- the state after the handler
  generalize hm : (handle { s with sto := [], mayStart := [], closedDl := [], mayStartI := false } p kn .stop) = r
  have h0 : Life { s with sto := [], mayStart := [], closedDl := [], mayStartI := false } := h.congr (by lframe)
  have hl : Life r.1.1 := by rw [← hm]; exact handle_life _ p kn .stop h0
  have hpan : r.1.1.panicked = none := by
    rw [← hm]; simp only [handle, onSt_fst]; rw [stop_panicked]; exact hp
  have hdv : r.1.1.doVerify = false := by
    rw [← hm]; simp only [handle, onSt_fst, stop_doVerify]; exact hv
  have hpk : r.2.2 = p := by rw [← hm]; rfl
  -- after the workers: stopped
  have hrw : (runWorkers 12 r.1).1.errC = false ∧ (runWorkers 12 r.1).1.doVerify = false := by
    by_cases hs : r.1.1.stopAnn = true
    · -- the stop announcer reports, `handleStopped` clears `errC`
      have h1 := handleStopped_life r.1 hl hs
      have hstep : runWorkers 12 r.1 = runWorkers 11 (handleStopped r.1) := by
        conv => lhs; unfold runWorkers
        simp [hpan, hs]
      rw [hstep]
      apply runWorkers_stays_stopped 11 _ h1
      · unfold handleStopped; simp [hdv]
      · unfold handleStopped; simp [hdv]
    · -- already stopped
      have he : r.1.1.errC = false := by
        rw [← hm] at hs ⊢
        simp only [handle, onSt_fst] at hs ⊢
        rcases stop_idle { s with sto := [], mayStart := [], closedDl := [], mayStartI := false } false with h' | h'
        · exact h'
        · exact absurd h' hs
      exact runWorkers_stays_stopped 12 _ hl he hdv
  have hl2 := runWorkers_life 12 r.1 hl
  split
  · -- a parked piece message has nobody to be delivered to
    obtain ⟨i1, i2, i3, i4, i5, i6, i7, i8⟩ := hl2.idle (Or.inl hrw.1)
    unfold deliverParked
    repeat' split
    all_goals first
      | exact hrw.1
      | (rename_i hk; rw [St.findPeer, i6] at hk; simp at hk)
  · exact hrw.1

end Rain.Loop
