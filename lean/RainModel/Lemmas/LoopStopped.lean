import RainModel.Lemmas.LoopLife2
/-!
`stop` reaches `Stopped`; a stopped torrent stays stopped while the workers drain.
-/
namespace Rain.Loop

/-- `stop` never panics: the resume write is guarded by `bitfield != nil`. -/
theorem stop_panicked (s : St) (e : Bool) : (s.stop e).panicked = s.panicked := by
  rw [stop_eq]
  split
  · rfl
  · simp only [stopRun, stopFin_panicked, stopVer_panicked, stopAlloc_panicked, closeData_panicked]
    unfold stopWB
    split
    · next h =>
      unfold St.writeBitfield
      split
      · simp
      · next hn =>
        have : s.bf = none := by simpa using hn
        simp [this] at h
    · simp

theorem handleVerificationDone_doVerify (m : M) (_h : m.1.doVerify = false) :
    (handleVerificationDone m).1.doVerify = false := by
  rw [handleVerificationDone_eq]
  dsimp only
  split
  · simp only [onSt_fst]; exact stop_doVerify_false _ _ rfl
  · next hd => exact hadCheck_doVerify_false _ (by simpa using hd)

/-- The state after a step, in terms of its three phases. -/
theorem step_st (s : St) (p : Parked) (kn : Nat → Bool) (op : Op) :
    (step s p kn op).1.st =
      if p.isSome then
        (deliverParked (runWorkers 12 (handle { s with sto := [], mayStart := [], closedDl := [], mayStartI := false } p kn op).1)
          (handle { s with sto := [], mayStart := [], closedDl := [], mayStartI := false } p kn op).2.2).1.1
      else (runWorkers 12 (handle { s with sto := [], mayStart := [], closedDl := [], mayStartI := false } p kn op).1).1 := by
  unfold step
  dsimp only
  split <;> rfl

/-- Once stopped with no verify command pending, draining the workers keeps the torrent stopped. -/
theorem runWorkers_stays_stopped (fuel : Nat) (m : M) (h : Life m.1) (he : m.1.errC = false)
    (hv : m.1.doVerify = false) :
    (runWorkers fuel m).1.errC = false ∧ (runWorkers fuel m).1.doVerify = false := by
  induction fuel generalizing m with
  | zero => exact ⟨he, hv⟩
  | succ n ih =>
    obtain ⟨i1, i2, i3, i4, i5, i6, i7, i8⟩ := h.idle (Or.inl he)
    have hsa : m.1.stopAnn = false := by
      cases hs : m.1.stopAnn
      · rfl
      · have := h.sa hs; rw [he] at this; cases this
    unfold runWorkers
    dsimp only
    split
    · exact ⟨he, hv⟩
    · simp only [hsa, i1, i2, Bool.false_eq_true, ↓reduceIte, Bool.false_and]
      repeat' split
      all_goals first
        | exact ⟨he, hv⟩
        | exact ih _ (writerRun_life m _ h) (by simpa using he) (writerRun_doVerify_false m _ hv)
        | exact ih _ (handlePieceWriteDone_life m _ _ h) (by simpa using he) (handlePieceWriteDone_doVerify_false m _ _ hv)

/-! ### a stop announcer that waits for a hanging tracker -/

theorem stop_stopAnn_mono (s : St) (e : Bool) (h : s.stopAnn = true) : (s.stop e).stopAnn = true := by
  rw [stop_eq]
  split
  · exact h
  · simp [stopRun, stopFin]

theorem pwdFinish_stopAnn_mono (m : M) (h : m.1.stopAnn = true) : (pwdFinish m).1.stopAnn = true := by
  unfold pwdFinish
  dsimp only
  repeat' split
  all_goals first
    | (simp only [onSt_fst]; apply stop_stopAnn_mono; simpa using h)
    | simpa using h

theorem handlePieceWriteDone_stopAnn_mono (m : M) (w : WriteJob) (e : Bool) (h : m.1.stopAnn = true) :
    (handlePieceWriteDone m w e).1.stopAnn = true := by
  rw [handlePieceWriteDone_eq]
  dsimp only
  split
  · simpa using h
  split
  · simpa using h
  · split
    · simp only [onSt_fst]; apply stop_stopAnn_mono; simpa using h
    · split
      · simpa using h
      · unfold pwdOk
        apply pwdFinish_stopAnn_mono
        simpa using h

theorem writerRun_stopAnn_mono (m : M) (w : WriteJob) (h : m.1.stopAnn = true) :
    (writerRun m w).1.stopAnn = true := by
  unfold writerRun
  dsimp only
  repeat' split
  all_goals first
    | (apply handlePieceWriteDone_stopAnn_mono; simpa using h)
    | (simpa using h)

/-- While a tracker does not answer the `stopped` event the torrent stays `Stopping`: the only worker that
can still complete is a write that was in flight, and its completion neither clears the stop announcer nor
restarts anything. -/
theorem runWorkers_hangs (fuel : Nat) (m : M) (h : Life m.1) (hs : m.1.stopAnn = true) (hh : m.1.stopHang = true)
    (hv : m.1.doVerify = false) :
    (runWorkers fuel m).1.errC = true ∧ (runWorkers fuel m).1.stopAnn = true ∧
    (runWorkers fuel m).1.stopHang = true ∧ (runWorkers fuel m).1.doVerify = false := by
  induction fuel generalizing m with
  | zero => exact ⟨h.sa hs, hs, hh, hv⟩
  | succ n ih =>
    obtain ⟨i1, i2, i3, i4, i5, i6, i7, i8⟩ := h.idle (Or.inr hs)
    unfold runWorkers
    dsimp only
    split
    · exact ⟨h.sa hs, hs, hh, hv⟩
    · simp only [hs, hh, i1, i2, Bool.false_eq_true, ↓reduceIte, Bool.false_and, Bool.not_true, Bool.and_false]
      repeat' split
      all_goals first
        | exact ⟨h.sa hs, hs, hh, hv⟩
        | exact ih _ (writerRun_life m _ h) (writerRun_stopAnn_mono m _ hs) (by simpa using hh) (writerRun_doVerify_false m _ hv)
        | exact ih _ (handlePieceWriteDone_life m _ _ h) (handlePieceWriteDone_stopAnn_mono m _ _ hs) (by simpa using hh)
            (handlePieceWriteDone_doVerify_false m _ _ hv)

/-- A torrent that is not running has nobody a parked piece message could be delivered to. -/
theorem deliverParked_quiet (m : M) (p : Parked) (h : Life m.1) (hq : m.1.errC = false ∨ m.1.stopAnn = true) :
    (deliverParked m p).1 = m := by
  obtain ⟨i1, i2, i3, i4, i5, i6, i7, i8⟩ := h.idle hq
  unfold deliverParked
  repeat' split
  all_goals first
    | rfl
    | (rename_i hk; rw [St.findPeer, i6] at hk; simp at hk)

/-- The workers' part of a step whose handler left the torrent stopped or stopping, with no verify pending:
the stop announcer reports (unless a tracker hangs) and the torrent is stopped. -/
theorem settle_not_running (n : Nat) (r : M) (hl : Life r.1) (hpan : r.1.panicked = none) (hdv : r.1.doVerify = false)
    (hnr : r.1.errC = false ∨ r.1.stopAnn = true) :
    (runWorkers (n + 1) r).1.doVerify = false ∧
    ((runWorkers (n + 1) r).1.errC = false ∨
      (r.1.stopHang = true ∧ (runWorkers (n + 1) r).1.errC = true ∧ (runWorkers (n + 1) r).1.stopAnn = true ∧
        (runWorkers (n + 1) r).1.stopHang = true)) := by
  by_cases hs : r.1.stopAnn = true
  · cases hh : r.1.stopHang
    · -- the stop announcer reports, `handleStopped` clears `errC`
      have h1 := handleStopped_life r hl hs
      have hstep : runWorkers (n + 1) r = runWorkers n (handleStopped r) := by
        conv => lhs; unfold runWorkers
        simp [hpan, hs, hh]
      rw [hstep]
      have := runWorkers_stays_stopped n _ h1 (by unfold handleStopped; simp [hdv]) (by unfold handleStopped; simp [hdv])
      exact ⟨this.2, Or.inl this.1⟩
    · have := runWorkers_hangs (n + 1) r hl hs hh hdv
      exact ⟨this.2.2.2, Or.inr ⟨rfl, this.1, this.2.1, this.2.2.1⟩⟩
  · -- already stopped
    have he : r.1.errC = false := by
      rcases hnr with h' | h'
      · exact h'
      · exact absurd h' hs
    have := runWorkers_stays_stopped (n + 1) _ hl he hdv
    exact ⟨this.2, Or.inl this.1⟩

/-- The last phase of a step (delivery of the parked message) when the workers left the torrent not running. -/
theorem settle_step (m : M) (p' : Parked) (c : Bool) (hl : Life m.1) (hnr : m.1.errC = false ∨ m.1.stopAnn = true) :
    (if c = true then (deliverParked m p').1.1 else m.1) = m.1 := by
  split
  · rw [deliverParked_quiet _ _ hl hnr]
  · rfl

theorem settle_nr {a : St} {x : Bool} (h : a.errC = false ∨ (x = true ∧ a.errC = true ∧ a.stopAnn = true ∧ a.stopHang = true)) :
    a.errC = false ∨ a.stopAnn = true := by
  rcases h with h | h
  · exact Or.inl h
  · exact Or.inr h.2.2.1

/-- The handler of the stop command (`Op.stop`, or `Op.stopHeld` which leaves the storage gates alone): the
pending verification request is withdrawn (fix C04-F6), then `stop`. -/
def IsStopOp (op : Op) : Prop := op = .stop ∨ op = .stopHeld

/-- What the handler of a stop command leaves behind, whatever the state before (in particular whatever
`doVerify` was): the invariant, no panic, **no verification request**, the torrent stopped or stopping. -/
theorem handle_stopOp (s : St) (p : Parked) (kn : Nat → Bool) (op : Op) (hop : IsStopOp op) (h : Life s) :
    Life (handle s p kn op).1.1 ∧ (handle s p kn op).1.1.panicked = s.panicked ∧
    (handle s p kn op).1.1.doVerify = false ∧ (handle s p kn op).1.1.stopHang = s.stopHang ∧
    ((handle s p kn op).1.1.errC = false ∨ (handle s p kn op).1.1.stopAnn = true) := by
  refine ⟨handle_life s p kn op h, ?_⟩
  rcases hop with rfl | rfl
  · refine ⟨?_, ?_, ?_, ?_⟩
    · simp only [handle, onSt_fst]; rw [stop_panicked]
    · simp only [handle, onSt_fst]; exact stop_doVerify_false _ _ rfl
    · simp only [handle, onSt_fst, stop_stopHang]
    · simp only [handle, onSt_fst]; exact stop_idle { s with doVerify := false } false
  · refine ⟨?_, ?_, ?_, ?_⟩
    · simp only [handle, onSt_fst]; rw [stop_panicked]
    · simp only [handle, onSt_fst]; exact stop_doVerify_false _ _ rfl
    · simp only [handle, onSt_fst, stop_stopHang]
    · simp only [handle, onSt_fst]; exact stop_idle { s with doVerify := false } false

/-! ### nothing but the verify command sets `doVerify` (no invariant needed) -/

theorem hadFresh_doVerify_false (m : M) (h : m.1.doVerify = false) : (hadFresh m).1.doVerify = false := by
  unfold hadFresh
  dsimp only
  split
  · simp only [onSt_fst]; exact stop_doVerify_false _ _ rfl
  · exact hadCheck_doVerify_false _ (by simpa using h)

theorem handleAllocationDone_doVerify_false (m : M) (he hm : Bool) (h : m.1.doVerify = false) :
    (handleAllocationDone m he hm).1.doVerify = false := by
  rw [handleAllocationDone_eq]
  dsimp only
  repeat' split
  all_goals first
    | (apply hadFresh_doVerify_false; simpa using h)
    | (unfold hadTrust; apply hadCheck_doVerify_false; simpa using h)
    | simpa using h

theorem allocatorRun_doVerify_false (m : M) (h : m.1.doVerify = false) : (allocatorRun m).1.doVerify = false := by
  rw [allocatorRun_eq]
  split
  · unfold allocFail
    simp only [onSt_fst]
    apply stop_doVerify_false
    simpa using h
  · apply handleAllocationDone_doVerify_false; simpa using h

theorem runWorkers_doVerify_false (fuel : Nat) (m : M) (h : m.1.doVerify = false) :
    (runWorkers fuel m).1.doVerify = false := by
  induction fuel generalizing m with
  | zero => exact h
  | succ n ih =>
    unfold runWorkers
    dsimp only
    repeat' split
    all_goals first
      | exact h
      | (apply ih
         first
           | simpa using h
           | exact allocatorRun_doVerify_false m h
           | exact handleVerificationDone_doVerify m h
           | exact writerRun_doVerify_false m _ h
           | exact handlePieceWriteDone_doVerify_false m _ _ h)

theorem deliverParked_doVerify_false (m : M) (p : Parked) (h : m.1.doVerify = false) :
    (deliverParked m p).1.1.doVerify = false := by
  unfold deliverParked
  repeat' split
  all_goals first
    | exact h
    | (apply runWorkers_doVerify_false; simpa using h)

/-- **The stop command withdraws a pending verification request** (fix C04-F6), at the end of the whole step,
from **every** state — no invariant, panicked or not, whatever the gates and the parked message. -/
theorem stopOp_withdraws_verify (s : St) (p : Parked) (kn : Nat → Bool) (op : Op) (hop : IsStopOp op) :
    (handle s p kn op).1.1.doVerify = false ∧ (step s p kn op).1.st.doVerify = false := by
  have hh : ∀ s : St, (handle s p kn op).1.1.doVerify = false := by
    intro s
    rcases hop with rfl | rfl <;> (simp only [handle, onSt_fst]; exact stop_doVerify_false _ _ rfl)
  refine ⟨hh s, ?_⟩
  rw [step_st]
  have h2 := runWorkers_doVerify_false 12 _ (hh { s with sto := [], mayStart := [], closedDl := [], mayStartI := false })
  split
  · exact deliverParked_doVerify_false _ _ h2
  · exact h2

/-- **stop_reaches_stopped (general form, both stop ops).**  Whatever the torrent is doing (downloading,
seeding, allocating or verifying behind a gate, fetching metadata, already stopping or stopped) and whether
or not a verification has been requested (`doVerify`: the stop command withdraws the request, fix C04-F6):
after the stop command and the completions it releases, no verify is pending and the status is `Stopped` —
or, if a tracker does not answer the `stopped` event (`stopHang`), `Stopping` with the announcer still
waiting.  The only hypothesis beyond the invariant: the loop has not panicked. -/
theorem stopOp_reaches_stopped_or_hangs (s : St) (p : Parked) (kn : Nat → Bool) (op : Op) (hop : IsStopOp op)
    (h : Life s) (hp : s.panicked = none) :
    (step s p kn op).1.st.doVerify = false ∧
    ((step s p kn op).1.st.status = .stopped ∨
      (s.stopHang = true ∧ (step s p kn op).1.st.status = .stopping ∧ (step s p kn op).1.st.stopHang = true)) := by
  rw [status_stopped_iff, status_stopping_iff, step_st]
  have h0 : Life { s with sto := [], mayStart := [], closedDl := [], mayStartI := false } := h.congr (by lframe)
  obtain ⟨hl, hpan, hdv, hsh, hnr⟩ := handle_stopOp _ p kn op hop h0
  -- the state after the handler
  generalize (handle { s with sto := [], mayStart := [], closedDl := [], mayStartI := false } p kn op) = r
    at hl hpan hdv hsh hnr
  replace hpan : r.1.1.panicked = none := hpan.trans hp
  replace hsh : r.1.1.stopHang = s.stopHang := hsh
  obtain ⟨h1, h2⟩ := settle_not_running 11 r.1 hl hpan hdv hnr
  rw [settle_step _ r.2.2 p.isSome (runWorkers_life 12 r.1 hl) (settle_nr h2)]
  refine ⟨h1, ?_⟩
  rcases h2 with h2 | ⟨h2, h3⟩
  · exact Or.inl h2
  · exact Or.inr ⟨hsh ▸ h2, ⟨h3.1, h3.2.1⟩, h3.2.2⟩

/-- `Op.stop` form.  **No hypothesis about `doVerify` any more** (until the fix of C04-F6 a pending verify
turned the stop into a restart and the theorem needed `doVerify = false`). -/
theorem stop_reaches_stopped_or_hangs (s : St) (p : Parked) (kn : Nat → Bool) (h : Life s)
    (hp : s.panicked = none) :
    (step s p kn .stop).1.st.doVerify = false ∧
    ((step s p kn .stop).1.st.status = .stopped ∨
      (s.stopHang = true ∧ (step s p kn .stop).1.st.status = .stopping ∧ (step s p kn .stop).1.st.stopHang = true)) :=
  stopOp_reaches_stopped_or_hangs s p kn .stop (Or.inl rfl) h hp

/-- `Op.stopHeld` form: the storage gates stay as they are. -/
theorem stopHeld_reaches_stopped_or_hangs (s : St) (p : Parked) (kn : Nat → Bool) (h : Life s)
    (hp : s.panicked = none) :
    (step s p kn .stopHeld).1.st.doVerify = false ∧
    ((step s p kn .stopHeld).1.st.status = .stopped ∨
      (s.stopHang = true ∧ (step s p kn .stopHeld).1.st.status = .stopping ∧
        (step s p kn .stopHeld).1.st.stopHang = true)) :=
  stopOp_reaches_stopped_or_hangs s p kn .stopHeld (Or.inr rfl) h hp

/-- **stop_reaches_stopped.**  With every tracker answering (`stopHang = false`) the status after the
`stop` command is `Stopped`. -/
theorem stop_reaches_stopped (s : St) (p : Parked) (kn : Nat → Bool) (h : Life s)
    (hp : s.panicked = none) (hh : s.stopHang = false) :
    (step s p kn .stop).1.st.status = .stopped := by
  rcases (stop_reaches_stopped_or_hangs s p kn h hp).2 with h1 | h1
  · exact h1
  · rw [hh] at h1; cases h1.1

theorem stopHeld_reaches_stopped (s : St) (p : Parked) (kn : Nat → Bool) (h : Life s)
    (hp : s.panicked = none) (hh : s.stopHang = false) :
    (step s p kn .stopHeld).1.st.status = .stopped := by
  rcases (stopHeld_reaches_stopped_or_hangs s p kn h hp).2 with h1 | h1
  · exact h1
  · rw [hh] at h1; cases h1.1

/-- **waitstop_reaches_stopped.**  `TrackerStopTimeout` has passed (`Op.waitstop`): the stop announcer
gives up, `handleStopped` runs, and a stopping (or stopped) torrent without a pending verify is `Stopped`,
whatever `stopHang` was. -/
theorem waitstop_reaches_stopped (s : St) (p : Parked) (kn : Nat → Bool) (h : Life s)
    (hp : s.panicked = none) (hv : s.doVerify = false)
    (hs : s.status = .stopping ∨ s.status = .stopped) :
    (step s p kn .waitstop).1.st.status = .stopped ∧ (step s p kn .waitstop).1.st.doVerify = false := by
  rw [status_stopped_iff, step_st]
  generalize hm : (handle { s with sto := [], mayStart := [], closedDl := [], mayStartI := false } p kn .waitstop) = r
  have h0 : Life { s with sto := [], mayStart := [], closedDl := [], mayStartI := false } := h.congr (by lframe)
  have hl : Life r.1.1 := by rw [← hm]; exact handle_life _ p kn .waitstop h0
  have hpan : r.1.1.panicked = none := by rw [← hm]; exact hp
  have hdv : r.1.1.doVerify = false := by rw [← hm]; exact hv
  have hsh : r.1.1.stopHang = false := by rw [← hm]; rfl
  have hnr : r.1.1.errC = false ∨ r.1.1.stopAnn = true := by
    rw [← hm]
    rcases hs with hs | hs
    · exact Or.inr ((status_stopping_iff s).1 hs).2
    · exact Or.inl ((status_stopped_iff s).1 hs)
  obtain ⟨h1, h2⟩ := settle_not_running 11 r.1 hl hpan hdv hnr
  rw [settle_step _ r.2.2 p.isSome (runWorkers_life 12 r.1 hl) (settle_nr h2)]
  refine ⟨?_, h1⟩
  rcases h2 with h2 | ⟨h2, _⟩
  · exact h2
  · rw [hsh] at h2; cases h2

/-- A stop command, then (if a tracker hangs) the stop timeout: `Stopped`.  The only thing the intermediate
state must not have done is panic (a write that was in flight completes during the stop; see `no_panic_partial`). -/
theorem stopOp_waitstop_reaches_stopped (s : St) (p : Parked) (kn kn' : Nat → Bool) (op : Op) (hop : IsStopOp op)
    (h : Life s) (hp : s.panicked = none) (hp' : (step s p kn op).1.st.panicked = none) :
    (step (step s p kn op).1.st (step s p kn op).2 kn' .waitstop).1.st.status = .stopped := by
  obtain ⟨h1, h2⟩ := stopOp_reaches_stopped_or_hangs s p kn op hop h hp
  refine (waitstop_reaches_stopped _ _ kn' (step_life s p kn op h) hp' h1 ?_).1
  rcases h2 with h2 | h2
  · exact Or.inr h2
  · exact Or.inl h2.2.1

theorem stop_waitstop_reaches_stopped (s : St) (p : Parked) (kn kn' : Nat → Bool) (h : Life s)
    (hp : s.panicked = none)
    (hp' : (step s p kn .stop).1.st.panicked = none) :
    (step (step s p kn .stop).1.st (step s p kn .stop).2 kn' .waitstop).1.st.status = .stopped :=
  stopOp_waitstop_reaches_stopped s p kn kn' .stop (Or.inl rfl) h hp hp'

/-- **A stop command during a requested verification** (finding C04-F6), in full: whatever the status, the
gates and `doVerify` were, after `Op.stop` / `Op.stopHeld` the torrent is `Stopped` — or `Stopping` behind a
tracker that does not answer —, in particular neither `Allocating` nor `Verifying`; no allocator and no
verifier is left and the verification request is gone, so nothing will restart the torrent. -/
theorem stopOp_ends_stopped (s : St) (p : Parked) (kn : Nat → Bool) (op : Op) (hop : IsStopOp op)
    (h : Life s) (hp : s.panicked = none) :
    ((step s p kn op).1.st.status = .stopped ∨
      (s.stopHang = true ∧ (step s p kn op).1.st.status = .stopping ∧ (step s p kn op).1.st.stopHang = true)) ∧
    (step s p kn op).1.st.status ≠ .verifying ∧ (step s p kn op).1.st.status ≠ .allocating ∧
    (step s p kn op).1.st.doVerify = false ∧
    (step s p kn op).1.st.allocator = false ∧ (step s p kn op).1.st.verifier = false := by
  obtain ⟨h1, h2⟩ := stopOp_reaches_stopped_or_hangs s p kn op hop h hp
  have hl := step_life s p kn op h
  have hq : (step s p kn op).1.st.errC = false ∨ (step s p kn op).1.st.stopAnn = true := by
    rcases h2 with h2 | h2
    · exact Or.inl ((status_stopped_iff _).1 h2)
    · exact Or.inr ((status_stopping_iff _).1 h2.2.1).2
  obtain ⟨i1, i2, _⟩ := hl.idle hq
  refine ⟨h2, ?_, ?_, h1, i1, i2⟩
  · rcases h2 with h2 | h2
    · rw [h2]; decide
    · rw [h2.2.1]; decide
  · rcases h2 with h2 | h2
    · rw [h2]; decide
    · rw [h2.2.1]; decide

end Rain.Loop
