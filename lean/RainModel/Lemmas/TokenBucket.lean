import RainModel.Model.TokenBucket
/-! Helper lemmas for `bucket_bound` (C17). -/
namespace Rain.TokenBucket

def total : List Grant → Nat
  | [] => 0
  | g :: gs => g.count + total gs

/-- Every grant (with a positive count), together with everything granted before it, fits under
the bound at its own ready time. -/
def Good (C q fi : Nat) : List Grant → Prop
  | [] => True
  | g :: gs => (g.count = 0 ∨ g.count + total gs ≤ C + q * (g.ready / fi)) ∧ Good C q fi gs

theorem grantedBy_le_total (t : Nat) : ∀ gs, grantedBy t gs ≤ total gs := by
  intro gs
  induction gs with
  | nil => simp [grantedBy, total]
  | cons g gs ih =>
    simp only [grantedBy, total]
    split <;> omega

theorem good_bound {C q fi : Nat} (t : Nat) : ∀ gs, Good C q fi gs → grantedBy t gs ≤ C + q * (t / fi) := by
  intro gs
  induction gs with
  | nil => intro _; simp [grantedBy]
  | cons g gs ih =>
    intro h
    obtain ⟨h1, h2⟩ := h
    have ih' := ih h2
    simp only [grantedBy]
    by_cases hr : g.ready ≤ t
    · simp only [hr, if_true]
      rcases h1 with h0 | hb
      · omega
      · have hle := grantedBy_le_total t gs
        have hdiv : g.ready / fi ≤ t / fi := Nat.div_le_div_right hr
        have hmul : q * (g.ready / fi) ≤ q * (t / fi) := Nat.mul_le_mul_left q hdiv
        omega
    · simp only [hr, if_false]; omega

theorem ceil_div_mul (a q : Nat) (hq : 0 < q) : a ≤ q * ((a + q - 1) / q) := by
  have h := Nat.lt_mul_div_succ (a + q - 1) hq
  -- a + q - 1 < q * ((a+q-1)/q + 1) = q * d + q
  rw [Nat.mul_add, Nat.mul_one] at h
  omega

structure Inv (C q fi : Nat) (b : Bucket) (log : List Grant) (t0 : Nat) : Prop where
  hC : b.capacity = C
  hq : b.quantum = q
  hfi : b.fillInterval = fi
  qpos : 0 < q
  fipos : 0 < fi
  tick : b.latestTick ≤ t0 / fi
  cap : b.availableTokens ≤ (C : Int)
  tot : (total log : Int) + b.availableTokens ≤ (C : Int) + ((q * b.latestTick : Nat) : Int)
  good : Good C q fi log

theorem adjust_capacity (b : Bucket) (tick : Nat) : (adjust b tick).capacity = b.capacity := by
  unfold adjust; split <;> rfl
theorem adjust_quantum (b : Bucket) (tick : Nat) : (adjust b tick).quantum = b.quantum := by
  unfold adjust; split <;> rfl
theorem adjust_fillInterval (b : Bucket) (tick : Nat) : (adjust b tick).fillInterval = b.fillInterval := by
  unfold adjust; split <;> rfl
theorem adjust_latestTick (b : Bucket) (tick : Nat) : (adjust b tick).latestTick = tick := by
  unfold adjust; split <;> rfl
theorem adjust_avail (b : Bucket) (tick : Nat) : (adjust b tick).availableTokens =
    if b.availableTokens ≥ b.capacity then b.availableTokens
    else if b.availableTokens + ((tick : Int) - (b.latestTick : Int)) * b.quantum > b.capacity then (b.capacity : Int)
    else b.availableTokens + ((tick : Int) - (b.latestTick : Int)) * b.quantum := by
  unfold adjust; split <;> rfl

theorem adjust_spec {C q fi : Nat} {b : Bucket} {log : List Grant} {t0 : Nat} (h : Inv C q fi b log t0)
    (tick : Nat) (ht : b.latestTick ≤ tick) :
    (adjust b tick).capacity = C ∧ (adjust b tick).quantum = q ∧ (adjust b tick).fillInterval = fi ∧
    (adjust b tick).latestTick = tick ∧ (adjust b tick).availableTokens ≤ (C : Int) ∧
    (total log : Int) + (adjust b tick).availableTokens ≤ (C : Int) + ((q * tick : Nat) : Int) := by
  have hmono : q * b.latestTick ≤ q * tick := Nat.mul_le_mul_left q ht
  have hsplit : q * tick = q * b.latestTick + q * (tick - b.latestTick) := by
    rw [← Nat.mul_add]; congr 1; omega
  have hcap := h.cap
  have htot := h.tot
  have hprod : ((tick : Int) - (b.latestTick : Int)) * (b.quantum : Int) = ((q * (tick - b.latestTick) : Nat) : Int) := by
    rw [h.hq, Nat.mul_comm q]
    push_cast
    rw [Int.ofNat_sub ht]
  refine ⟨(adjust_capacity b tick).trans h.hC, (adjust_quantum b tick).trans h.hq,
    (adjust_fillInterval b tick).trans h.hfi, adjust_latestTick b tick, ?_, ?_⟩
  · rw [adjust_avail, h.hC, hprod]
    split
    · exact hcap
    · split
      · exact Int.le_refl _
      · omega
  · rw [adjust_avail, h.hC, hprod]
    split
    · omega
    · split <;> omega

theorem take_inv {C q fi : Nat} {b : Bucket} {log : List Grant} {t0 : Nat} (h : Inv C q fi b log t0)
    (now count : Nat) (hnow : t0 ≤ now) :
    Inv C q fi (take b now count).1 ({ ready := now + (take b now count).2, count := count } :: log) now := by
  have hdivmono : t0 / fi ≤ now / fi := Nat.div_le_div_right hnow
  unfold take
  by_cases hc : (count : Int) ≤ 0
  · have hc0 : count = 0 := by omega
    simp only [hc, if_true]
    refine ⟨h.hC, h.hq, h.hfi, h.qpos, h.fipos, Nat.le_trans h.tick hdivmono, h.cap, ?_, ?_⟩
    · simp only [total, hc0]; have := h.tot; omega
    · exact ⟨Or.inl hc0, h.good⟩
  · simp only [hc, if_false]
    have htick : b.latestTick ≤ currentTick b now := by
      unfold currentTick; rw [h.hfi]; exact Nat.le_trans h.tick hdivmono
    obtain ⟨aC, aq, afi, aL, acap, atot⟩ := adjust_spec h (currentTick b now) htick
    have hct : currentTick b now = now / fi := by unfold currentTick; rw [h.hfi]
    by_cases ha : (adjust b (currentTick b now)).availableTokens - (count : Int) ≥ 0
    · simp only [ha, if_true]
      refine ⟨aC, aq, afi, h.qpos, h.fipos, ?_, ?_, ?_, ?_⟩
      · show (adjust b (currentTick b now)).latestTick ≤ now / fi
        rw [aL, hct]; exact Nat.le_refl _
      · show (adjust b (currentTick b now)).availableTokens - (count : Int) ≤ (C : Int)
        omega
      · show ((total ({ ready := now + 0, count := count } :: log) : Nat) : Int) + ((adjust b (currentTick b now)).availableTokens - (count : Int)) ≤ (C : Int) + ((q * (adjust b (currentTick b now)).latestTick : Nat) : Int)
        rw [aL]; simp only [total]; push_cast; omega
      · refine ⟨Or.inr ?_, h.good⟩
        simp only [Nat.add_zero]
        rw [← hct]
        have : ((count + total log : Nat) : Int) ≤ ((C + q * currentTick b now : Nat) : Int) := by
          push_cast; omega
        exact Int.ofNat_le.mp this
    · simp only [ha, if_false]
      refine ⟨aC, aq, afi, h.qpos, h.fipos, ?_, ?_, ?_, ?_⟩
      · show (adjust b (currentTick b now)).latestTick ≤ now / fi
        rw [aL, hct]; exact Nat.le_refl _
      · show (adjust b (currentTick b now)).availableTokens - (count : Int) ≤ (C : Int)
        omega
      · show ((total ({ ready := _, count := count } :: log) : Nat) : Int) + ((adjust b (currentTick b now)).availableTokens - (count : Int)) ≤ (C : Int) + ((q * (adjust b (currentTick b now)).latestTick : Nat) : Int)
        rw [aL]; simp only [total]; push_cast; omega
      · refine ⟨Or.inr ?_, h.good⟩
        simp only
        -- the ready time is exactly endTick * fi
        generalize hdef : (-((adjust b (currentTick b now)).availableTokens - (count : Int))).toNat = deficit
        have hdef' : (deficit : Int) = -((adjust b (currentTick b now)).availableTokens - (count : Int)) := by
          rw [← hdef]; omega
        rw [h.hq, h.hfi]
        generalize hk : (deficit + q - 1) / q = k
        have hceil : deficit ≤ q * k := by rw [← hk]; exact ceil_div_mul deficit q h.qpos
        have hnowlt : now < (currentTick b now + 1) * fi := by
          rw [hct, Nat.mul_comm]; exact Nat.lt_mul_div_succ now h.fipos
        have hkpos : 1 ≤ k := by
          cases k with
          | zero => omega
          | succ k' => omega
        have hend : (currentTick b now + 1) * fi ≤ (currentTick b now + k) * fi :=
          Nat.mul_le_mul_right fi (by omega)
        have hready : now + ((currentTick b now + k) * fi - now) = (currentTick b now + k) * fi := by omega
        rw [hready, Nat.mul_div_cancel _ h.fipos, Nat.mul_add]
        have : ((count + total log : Nat) : Int) ≤ ((C + (q * currentTick b now + q * k) : Nat) : Int) := by
          push_cast at atot ⊢; omega
        exact Int.ofNat_le.mp this

theorem run_inv {C q fi : Nat} : ∀ (calls : List Call) {b : Bucket} {log : List Grant} {t0 : Nat},
    Inv C q fi b log t0 → Monotone t0 calls → Good C q fi (run b log calls).2 := by
  intro calls
  induction calls with
  | nil => intro b log t0 h _; exact h.good
  | cons c cs ih =>
    intro b log t0 h hm
    obtain ⟨h1, h2⟩ := hm
    simp only [run]
    exact ih (take_inv h c.now c.count h1) h2

theorem new_inv {fi C q : Nat} {b : Bucket} (h : new fi C q = some b) : Inv C q fi b [] 0 := by
  unfold new at h
  split at h
  · cases h
  · rename_i hne
    cases h
    refine ⟨rfl, rfl, rfl, by omega, by omega, by simp, by simp, ?_, trivial⟩
    simp [total]

theorem passedBy_le_grantedBy (t : Nat) : ∀ (xs : List Transfer) (gs : List Grant), Follows xs gs →
    passedBy t xs ≤ grantedBy t gs := by
  intro xs
  induction xs with
  | nil =>
    intro gs h
    cases gs with
    | nil => simp [passedBy, grantedBy]
    | cons g gs => simp [Follows] at h
  | cons x xs ih =>
    intro gs h
    cases gs with
    | nil => simp [Follows] at h
    | cons g gs =>
      obtain ⟨h1, h2, h3⟩ := h
      have := ih gs h3
      simp only [passedBy, grantedBy]
      by_cases hx : x.time ≤ t
      · have hg : g.ready ≤ t := Nat.le_trans h1 hx
        simp only [hx, hg, if_true]; omega
      · simp only [hx, if_false]; omega

end Rain.TokenBucket
