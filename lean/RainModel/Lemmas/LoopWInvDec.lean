import RainModel.Lemmas.LoopWInvStep
/-!
Decidability of the hypotheses of `no_panic` (so that concrete runs are checked by `decide`), and a decidable
sufficient condition for `CfgWF`.
-/
namespace Rain.Loop

instance (sp : St × Parked) (e : Ev) : Decidable (e.admissible sp) :=
  inferInstanceAs (Decidable ((reconcile (step sp.1 sp.2 e.known e.op).1.st e.impl).2 = []))

instance (sp : St × Parked) (e : Ev) : Decidable (e.admissibleI sp) :=
  inferInstanceAs (Decidable
    ((reconcileIdl (reconcile (step sp.1 sp.2 e.known e.op).1.st e.impl).1 e.implI).2 = []))

instance drunAdmissible.dec : (evs : List Ev) → (sp : St × Parked) → Decidable (drunAdmissible sp evs)
  | [], _ => isTrue True.intro
  | e :: evs, sp =>
    @instDecidableAnd _ _ (inferInstanceAs (Decidable (e.admissible sp))) (drunAdmissible.dec evs (dstep sp e))

instance drunAdmissibleI.dec : (evs : List Ev) → (sp : St × Parked) → Decidable (drunAdmissibleI sp evs)
  | [], _ => isTrue True.intro
  | e :: evs, sp =>
    @instDecidableAnd _ _ (inferInstanceAs (Decidable (e.admissibleI sp))) (drunAdmissibleI.dec evs (dstep sp e))

theorem npAll_length (flens : List Nat) (pl length : Nat) : ∀ (k : Nat) (c : NPCur), (npAll flens pl length k c).length = k := by
  intro k
  induction k with
  | zero => intro c; rfl
  | succ k ih => intro c; unfold npAll; simp [ih]

theorem sections_of_ge (c : Cfg) (i : Nat) (h : c.n ≤ i) : c.sections i = [] := by
  unfold Cfg.sections
  have := npAll_length c.flens c.pl c.flens.sum c.n {}
  simp [List.getD, List.getElem?_eq_none (by rw [this]; exact h)]

/-- `CfgWF`, checked piece by piece. -/
def Cfg.wfCheck (c : Cfg) : Bool :=
  (List.range c.n).all fun i =>
    !(c.blocks.getD i []).isEmpty || (c.sections i).all fun sc => !(c.isData sc)

theorem cfgWF_of_check (c : Cfg) (h : c.wfCheck = true) : CfgWF c := by
  intro i hb sc hsc
  by_cases hi : i < c.n
  · unfold Cfg.wfCheck at h
    rw [List.all_eq_true] at h
    have := h i (List.mem_range.2 hi)
    rw [hb, Bool.not_true, Bool.false_or, List.all_eq_true] at this
    simpa using this sc hsc
  · rw [sections_of_ge c i (Nat.le_of_not_lt hi)] at hsc
    cases hsc

end Rain.Loop
