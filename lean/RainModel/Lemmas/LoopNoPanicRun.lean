import RainModel.Lemmas.LoopNoPanicStep
import RainModel.Lemmas.LoopWInvDec
/-!
C08/C04 `never_panics`, run level: `NP` along whole histories — of `dstep` (events + the implementation's
choices, `drun`) and of bare `step`s (`srun`: the picker never starts anything, no hypothesis at all).
-/
namespace Rain.Loop

/-- Every choice of the implementation along the run was sane (`Ev.sane`). -/
def drunSane : St × Parked → List Ev → Prop
  | _, [] => True
  | sp, e :: evs => e.sane sp ∧ drunSane (dstep sp e) evs

deriving instance DecidableEq for Dl

instance (s : St) (impl : List ImplDl) : Decidable (DlsSane s impl) := by unfold DlsSane; infer_instance
instance (s : St) (implI : List Nat) : Decidable (IdlsSane s implI) := by unfold IdlsSane; infer_instance
instance (sp : St × Parked) (e : Ev) : Decidable (e.sane sp) := by unfold Ev.sane; infer_instance

instance drunSane.dec : (evs : List Ev) → (sp : St × Parked) → Decidable (drunSane sp evs)
  | [], _ => isTrue True.intro
  | e :: evs, sp =>
    @instDecidableAnd _ _ (inferInstanceAs (Decidable (e.sane sp))) (drunSane.dec evs (dstep sp e))

theorem drun_np (evs : List Ev) (sp : St × Parked) (h : NP sp.1) (hs : drunSane sp evs) : NP (drun sp evs).1 := by
  induction evs generalizing sp with
  | nil => exact h
  | cons e evs ih => exact ih _ (dstep_np sp e h hs.1) hs.2

/-- The driver's two checks along a run imply sanity along the run (from a state of the invariant). -/
theorem drunSane_of_admissible (evs : List Ev) (sp : St × Parked) (h : NP sp.1) (ha : drunAdmissible sp evs)
    (hi : drunAdmissibleI sp evs) : drunSane sp evs := by
  induction evs generalizing sp with
  | nil => trivial
  | cons e evs ih =>
    have hs := e.sane_of_admissible sp h ha.1 hi.1
    exact ⟨hs, ih _ (dstep_np sp e h hs) ha.2 hi.2⟩

/-- A history of bare steps: every event is handled, the implementation starts no download (the model's
downloads only ever shrink).  `known` may change from event to event. -/
def srun (sp : St × Parked) (ops : List (Op × (Nat → Bool))) : St × Parked :=
  ops.foldl (fun sp o => ((step sp.1 sp.2 o.2 o.1).1.st, (step sp.1 sp.2 o.2 o.1).2)) sp

theorem srun_np (ops : List (Op × (Nat → Bool))) (sp : St × Parked) (h : NP sp.1) : NP (srun sp ops).1 := by
  induction ops generalizing sp with
  | nil => exact h
  | cons o ops ih => exact ih _ (step_np sp.1 sp.2 o.2 o.1 h)

/-- A freshly added torrent (`InitLike`), not panicked, with no write job from the future in flight (none at all
in every state the driver starts from): the invariant holds. -/
theorem InitLike.np {s : St} (h : InitLike s) (hp : s.panicked = none) (hw : ∀ w, s.writing = some w → w.gen ≤ s.gen) :
    NP s := ⟨hp, h.full hw⟩


end Rain.Loop
