import RainModel.Lemmas.LoopHaves
import RainModel.Lemmas.LoopWeak
/-!
`reported_only_verified` for a whole `step`: every string the loop sends other than the two families of
`have:i` messages (after a completed write, after a verification) is not a `have` message, so every
`have:i` in the outputs of a step names a piece whose verified bytes are on disk at the end of the step.
-/
namespace Rain.Loop

/-! ### strings -/

/-- Not a `have` message. -/
def NotHave (msg : String) : Prop := ∀ i, msg ≠ haveMsg i

theorem notHave_of_prefix (p : String) (rest : List Char) (msg : String) (h : msg.toList = p.toList ++ rest)
    (hp : (5 ≤ p.toList.length ∧ p.toList.take 5 ≠ ['h','a','v','e',':']) := by decide) : NotHave msg := by
  intro i hi
  apply hp.2
  have := congrArg (List.take 5) h
  rw [List.take_append_of_le_length hp.1, hi, haveMsg_toList] at this
  exact this.symm

theorem notHave_lit (msg : String) (hp : msg.toList.take 5 ≠ ['h','a','v','e',':'] := by decide) : NotHave msg := by
  intro i hi
  apply hp
  rw [hi, haveMsg_toList]; rfl

theorem notHave_reject (i b l : Nat) : NotHave s!"reject:{i}:{b}:{l}" :=
  notHave_of_prefix "reject:" _ _ (by
    show (toString "reject:" ++ toString i ++ toString ":" ++ toString b ++ toString ":" ++ toString l).toList = _
    simp only [String.toList_append, List.append_assoc]; rfl)
theorem notHave_piece (i b l : Nat) : NotHave s!"piece:{i}:{b}:{l}:ok" :=
  notHave_of_prefix "piece:" _ _ (by
    show (toString "piece:" ++ toString i ++ toString ":" ++ toString b ++ toString ":" ++ toString l ++ toString ":ok").toList = _
    simp only [String.toList_append, List.append_assoc]; rfl)
theorem notHave_extmeta2 (i : Nat) : NotHave s!"extmeta:type=2:piece={i}" :=
  notHave_of_prefix "extmeta:type=2:piece=" _ _ (by
    show (toString "extmeta:type=2:piece=" ++ toString i).toList = _
    simp only [String.toList_append]; rfl)
theorem notHave_extmeta1 (i : Nat) : NotHave s!"extmeta:type=1:piece={i}:ok" :=
  notHave_of_prefix "extmeta:type=1:piece=" _ _ (by
    show (toString "extmeta:type=1:piece=" ++ toString i ++ toString ":ok").toList = _
    simp only [String.toList_append, List.append_assoc]; rfl)
theorem notHave_bitfield (x : String) : NotHave ("bitfield:" ++ x) :=
  notHave_of_prefix "bitfield:" x.toList _ (by simp only [String.toList_append])
theorem notHave_unchoke : NotHave "unchoke" := notHave_lit _
theorem notHave_haveall : NotHave "haveall" := notHave_lit _
theorem notHave_havenone : NotHave "havenone" := notHave_lit _
theorem notHave_exths : NotHave "exths" := notHave_lit _

theorem IsInterest.notHave {msg : String} (h : IsInterest msg) : NotHave msg := fun i => h.not_have i

/-! ### what each handler sends -/

/-- Every message of `m'` that `m` did not already hold is not a `have`. -/
def NoNewHave (m m' : M) : Prop := ∀ o ∈ m'.2, o ∈ m.2 ∨ NotHave o.msg

theorem NoNewHave.refl (m : M) : NoNewHave m m := fun _ h => Or.inl h

theorem NoNewHave.of_eq {m m' : M} (h : m'.2 = m.2) : NoNewHave m m' := fun _ ho => Or.inl (h ▸ ho)

theorem NoNewHave.trans {a b c : M} (h1 : NoNewHave a b) (h2 : NoNewHave b c) : NoNewHave a c := by
  intro o ho
  rcases h2 o ho with h | h
  · exact h1 o h
  · exact Or.inr h

theorem NoNewHave.send (m : M) (k : Nat) (x : String) (h : NotHave x) : NoNewHave m (send m k x) := by
  intro o ho
  simp only [send_snd, List.mem_append, List.mem_singleton] at ho
  rcases ho with ho | rfl
  · exact Or.inl ho
  · exact Or.inr h

theorem NoNewHave.of_interest {m m' : M} (h : ∀ o ∈ m'.2, o ∈ m.2 ∨ IsInterest o.msg) : NoNewHave m m' := by
  intro o ho
  rcases h o ho with h | h
  · exact Or.inl h
  · exact Or.inr h.notHave

theorem handlePieceMessage_snd (m : M) (k i b l : Nat) (g : Bool) : (handlePieceMessage m k i b l g).2 = m.2 := by
  unfold handlePieceMessage
  dsimp only
  repeat' split
  all_goals simp

theorem handlePeerMessage_noNewHave (m : M) (k : Nat) (msg : Msg) : NoNewHave m (handlePeerMessage m k msg) := by
  cases hm : needsInfo msg
  · cases msg
    case haveNone => exact NoNewHave.of_eq (by unfold handlePeerMessage; rfl)
    case unchoke =>
      apply NoNewHave.of_eq
      unfold handlePeerMessage; dsimp only; repeat' split
      all_goals simp
    case choke =>
      apply NoNewHave.of_eq
      unfold handlePeerMessage; dsimp only; repeat' split
      all_goals simp
    case interested =>
      unfold handlePeerMessage; dsimp only; repeat' split
      all_goals first
        | (refine NoNewHave.of_eq ?_; simp; done)
        | (refine (NoNewHave.of_eq ?_).trans (NoNewHave.send _ _ _ notHave_unchoke); simp; done)
    case notInterested => exact NoNewHave.of_eq (by unfold handlePeerMessage; simp)
    case request i b l =>
      unfold handlePeerMessage; dsimp only; repeat' split
      all_goals first
        | (refine NoNewHave.of_eq ?_; simp; done)
        | (refine (NoNewHave.of_eq ?_).trans (NoNewHave.send _ _ _ (by with_reducible exact notHave_reject _ _ _)); simp; done)
        | (refine (NoNewHave.of_eq ?_).trans (NoNewHave.send _ _ _ (by with_reducible exact notHave_piece _ _ _)); simp; done)
    case reject i b l =>
      apply NoNewHave.of_eq
      unfold handlePeerMessage; dsimp only; repeat' split
      all_goals simp
    case cancel i b l =>
      unfold handlePeerMessage; dsimp only; repeat' split
      all_goals first
        | (refine NoNewHave.of_eq ?_; simp; done)
        | exact NoNewHave.send _ _ _ (notHave_reject _ _ _)
    case piece i b l g => exact NoNewHave.of_eq (by unfold handlePeerMessage; exact handlePieceMessage_snd ..)
    all_goals simp [needsInfo] at hm
  · exact NoNewHave.of_interest (handlePeerMessage_needsInfo_outs m k msg hm)

theorem processQueued_noNewHave (m : M) : NoNewHave m (processQueued m) := by
  unfold processQueued
  dsimp only
  apply foldl_inv (fun x : M => NoNewHave m x)
  · intro x k hx
    split
    · exact hx
    · apply foldl_inv (fun y : M => NoNewHave m y)
      · intro y msg hy
        split
        · exact hy.trans (handlePeerMessage_noNewHave y k msg)
        · exact hy
      · exact hx.trans (NoNewHave.of_eq (by simp))
  · exact NoNewHave.refl m

theorem startCore_snd (m : M) : (startCore m).2 = m.2 := by
  unfold startCore; dsimp only; repeat' split
  all_goals simp

theorem handleStopped_snd (m : M) : (handleStopped m).2 = m.2 := by
  unfold handleStopped; dsimp only; split
  · rw [startCore_snd]; simp
  · simp

theorem start_snd (m : M) : (start m).2 = m.2 := by
  unfold start; dsimp only
  repeat' split
  all_goals simp [startCore_snd, handleStopped_snd]

theorem handleVerifyCommand_snd (m : M) : (handleVerifyCommand m).2 = m.2 := by
  unfold handleVerifyCommand; dsimp only; split
  · rw [startCore_snd]; simp
  · simp

theorem handleExtHandshake_snd (m : M) (k : Nat) (hm : Bool) (sz : Nat) (hp : Bool) :
    (handleExtHandshake m k hm sz hp).2 = m.2 := by
  unfold handleExtHandshake; dsimp only; repeat' split
  all_goals simp

theorem hmdStart_snd (m : M) : (hmdStart m).2 = m.2 := by
  unfold hmdStart; split <;> simp

theorem hmdAdopt_snd (m : M) : (hmdAdopt m).2 = m.2 := by
  unfold hmdAdopt; dsimp only; repeat' split
  all_goals simp [hmdStart_snd]

theorem handleMetadataData_snd (m : M) (k i len : Nat) (g : Bool) : (handleMetadataData m k i len g).2 = m.2 := by
  rw [handleMetadataData_eq]; split
  · rfl
  unfold hmdBlock; dsimp only; repeat' split
  all_goals simp [hmdAdopt_snd]

theorem handleMetadataReject_snd (m : M) (k : Nat) : (handleMetadataReject m k).2 = m.2 := by
  unfold handleMetadataReject; split <;> simp

theorem handleNewPeers_snd (m : M) (ne : Bool) : (handleNewPeers m ne).2 = m.2 := by
  unfold handleNewPeers; dsimp only; repeat' split
  all_goals simp

theorem handlePex_snd (m : M) (a d : Bool) : (handlePex m a d).2 = m.2 := by
  unfold handlePex; dsimp only; repeat' split
  all_goals simp [handleNewPeers_snd]

theorem handleDhtPeers_snd (m : M) (ne : Bool) : (handleDhtPeers m ne).2 = m.2 := by
  unfold handleDhtPeers; split <;> simp [handleNewPeers_snd]

theorem handlePeerSnubbed_snd (m : M) (k : Nat) : (handlePeerSnubbed m k).2 = m.2 := by
  unfold handlePeerSnubbed; dsimp only; repeat' split
  all_goals simp

theorem firstMessages_notHave (s : St) (p : Peer) : ∀ x ∈ firstMessages s p, NotHave x := by
  intro x hx
  unfold firstMessages at hx
  dsimp only at hx
  rw [List.mem_append] at hx
  rcases hx with hx | hx
  · repeat' split at hx
    all_goals first
      | (rw [List.mem_singleton] at hx; subst hx
         first | exact notHave_haveall | exact notHave_havenone | exact notHave_bitfield _)
      | cases hx
  · split at hx
    · rw [List.mem_singleton] at hx; subst hx; exact notHave_exths
    · cases hx

theorem acceptPeer_noNewHave (m : M) (k : Nat) (ip : String) (fast ext bad dup : Bool) :
    NoNewHave m (acceptPeer m k ip fast ext bad dup).1 := by
  unfold acceptPeer
  dsimp only
  iterate 5 (split; exact NoNewHave.refl m)
  have key : ∀ (l : List String) (y : M), (∀ x ∈ l, NotHave x) → NoNewHave m y →
      NoNewHave m (l.foldl (fun m x => send m k x) y) := by
    intro l
    induction l with
    | nil => intro y _ hy; exact hy
    | cons a l ih =>
      intro y hl hy
      exact ih _ (fun x hx => hl x (List.mem_cons_of_mem _ hx))
        (hy.trans (NoNewHave.send _ _ _ (hl a (List.mem_cons_self ..))))
  exact key _ _ (firstMessages_notHave _ _) (NoNewHave.of_eq (by simp))

/-! ### the workers -/

theorem hadCheck_noNewHave (m : M) : NoNewHave m (hadCheck m) := by
  unfold hadCheck
  dsimp only
  split
  · exact NoNewHave.of_eq (by simp)
  · unfold hadReady
    intro o ho
    simp only [onSt_snd] at ho
    exact processQueued_noNewHave (m.1.checkCompletion.1, m.2) o ho

theorem hadFresh_noNewHave (m : M) : NoNewHave m (hadFresh m) := by
  unfold hadFresh
  dsimp only
  split
  · exact NoNewHave.of_eq (by simp [hadFreshInstall])
  · exact (NoNewHave.of_eq (by simp [hadFreshInstall])).trans (hadCheck_noNewHave _)

theorem handleAllocationDone_noNewHave (m : M) (ex mi : Bool) : NoNewHave m (handleAllocationDone m ex mi) := by
  rw [handleAllocationDone_eq]
  dsimp only
  have h0 : (hadForget (hadInstall m) mi).2 = m.2 := by simp [hadForget, hadInstall]
  repeat' split
  all_goals first
    | exact (NoNewHave.of_eq h0).trans ((NoNewHave.of_eq (by simp)).trans (hadCheck_noNewHave _))
    | exact (NoNewHave.of_eq h0).trans (hadFresh_noNewHave _)
    | exact (NoNewHave.of_eq h0).trans (NoNewHave.of_eq (by simp))

theorem allocatorRun_noNewHave (m : M) : NoNewHave m (allocatorRun m) := by
  unfold allocatorRun
  dsimp only
  split
  · exact NoNewHave.of_eq (by simp)
  · exact (NoNewHave.of_eq (by simp)).trans (handleAllocationDone_noNewHave _ _ _)

/-! ### the invariant of a step: every `have` sent so far names a piece that is fine on disk -/

/-- Every `have:i` among the messages sent so far in this op names a piece whose bytes on disk are verified. -/
def HavesOK (m : M) : Prop := ∀ o ∈ m.2, ∀ i, o.msg = haveMsg i → m.1.diskOKi i = true

/-- The messages `m'` adds to `m` are fine. -/
def NewOK (m m' : M) : Prop := ∀ o ∈ m'.2, o ∈ m.2 ∨ ∀ i, o.msg = haveMsg i → m'.1.diskOKi i = true

theorem NoNewHave.newOK {m m' : M} (h : NoNewHave m m') : NewOK m m' := by
  intro o ho
  rcases h o ho with h | h
  · exact Or.inl h
  · exact Or.inr (fun i hi => absurd hi (h i))

theorem HavesOK.next {m m' : M} (h : HavesOK m) (a : Adv m.1 m'.1) (hn : NewOK m m') : HavesOK m' := by
  intro o ho i hi
  rcases hn o ho with h' | h'
  · exact diskOKi_mono a.cfg a.bad i (h o h' i hi)
  · exact h' i hi

theorem HavesOK.nil (s : St) : HavesOK (s, []) := fun _ ho => by cases ho

/-- The `have`s after a verification, without any hypothesis on the queued messages. -/
theorem handleVerificationDone_newOK (m : M) : NewOK m (handleVerificationDone m) := by
  intro o ho
  rw [handleVerificationDone_eq] at ho
  dsimp only at ho
  split at ho
  · left; simpa [hvdInstall_snd] using ho
  · rcases hadCheck_noNewHave _ o ho with h1 | h1
    · rcases hvdHaves_outs _ o h1 with h2 | h2 | ⟨i, hi, hd⟩
      · left; simpa [hvdInstall_snd] using h2
      · exact Or.inr (fun i hi => absurd hi (h2.not_have i))
      · refine Or.inr (fun j hj => ?_)
        have : j = i := haveMsg_inj (hj.symm.trans hi)
        subst this
        have hd' : m.1.diskOK.getD j false = true := by simpa using hd
        have := ((diskOK_getD m.1 j).1 hd').2
        exact diskOKi_mono (handleVerificationDone_adv m).cfg (handleVerificationDone_adv m).bad j this
    · exact Or.inr (fun i hi => absurd hi (h1 i))

theorem runWorkers_havesOK (fuel : Nat) (m : M) (h : Sound0 m.1) (hw : WrOK m.1) (hv : HavesOK m) :
    HavesOK (runWorkers fuel m) := by
  induction fuel generalizing m with
  | zero => exact hv
  | succ n ih =>
    unfold runWorkers
    dsimp only
    split
    · exact hv
    split
    · next hs =>
      simp only [Bool.and_eq_true] at hs
      exact ih _ (h.adv (handleStopped_adv m)) (handleStopped_wrOK m hw hs.1)
        (hv.next (handleStopped_adv m) (NoNewHave.of_eq (handleStopped_snd m)).newOK)
    split
    · next ha =>
      simp only [Bool.and_eq_true] at ha
      exact ih _ (h.adv (allocatorRun_adv m h)) (allocatorRun_wrOK m hw ha.1)
        (hv.next (allocatorRun_adv m h) (allocatorRun_noNewHave m).newOK)
    split
    · next hver =>
      simp only [Bool.and_eq_true] at hver
      exact ih _ (h.adv (handleVerificationDone_adv m)) (handleVerificationDone_wrOK m hw hver.1)
        (hv.next (handleVerificationDone_adv m) (handleVerificationDone_newOK m))
    split
    · next w hwr =>
      split
      · next hwritten =>
        split
        · have hok : w.good = true → false = false → w.gen = m.1.gen → m.1.loaded = true → m.1.diskOKi w.piece = true :=
            fun _ _ hg hl => hw.ok w hwr hwritten hg hl
          have a := handlePieceWriteDone_adv m w false hok
          exact ih _ (h.adv a) (handlePieceWriteDone_wrOK m w false hw) (hv.next a (handlePieceWriteDone_haves m w false hok))
        · exact hv
      · split
        · exact ih _ (h.adv (writerRun_adv m _ h)) (writerRun_wrOK m w hw hwr)
            (hv.next (writerRun_adv m _ h) (writerRun_haves m _ h))
        · exact hv
    · exact hv

theorem deliverParked_havesOK (m : M) (p : Parked) (h : Sound0 m.1) (hw : WrOK m.1) (hv : HavesOK m) :
    HavesOK (deliverParked m p).1 := by
  unfold deliverParked
  split
  · split
    · split
      · next hk =>
        have hr : Running m.1 := hw.running_of_peer (by
          intro hn; rw [Option.isNone_iff_eq_none] at hn; rw [hn] at hk; cases hk)
        exact runWorkers_havesOK _ _ (h.adv (handlePieceMessage_adv ..)) (handlePieceMessage_wrOK _ _ _ _ _ _ hw hr)
          (hv.next (handlePieceMessage_adv ..) (NoNewHave.of_eq (handlePieceMessage_snd ..)).newOK)
      · exact hv
    · exact hv
  · exact hv

/-- No handler of an op sends a `have`: they all come from the workers. -/
theorem handle_noHave (s : St) (p : Parked) (kn : Nat → Bool) (op : Op) :
    ∀ o ∈ (handle s p kn op).1.2, NotHave o.msg := by
  have key : ∀ (s0 : St) (m' : M), NoNewHave (s0, []) m' → ∀ o ∈ m'.2, NotHave o.msg := by
    intro s0 m' h o ho
    rcases h o ho with h | h
    · cases h
    · exact h
  unfold handle
  repeat' split
  all_goals first
    | (intro o ho; cases ho; done)
    | exact key s _ (NoNewHave.of_eq (start_snd _))
    | exact key s _ (NoNewHave.of_eq (handlePieceMessage_snd ..))
    | exact key s _ (handlePeerMessage_noNewHave _ _ _)
    | exact key s _ (NoNewHave.of_eq (handleExtHandshake_snd ..))
    | exact key s _ (NoNewHave.of_eq (handleMetadataData_snd ..))
    | exact key s _ (NoNewHave.of_eq (handleMetadataReject_snd ..))
    | exact key s _ (NoNewHave.of_eq (handlePex_snd ..))
    | exact key s _ (NoNewHave.of_eq (handleDhtPeers_snd ..))
    | exact key s _ (NoNewHave.of_eq (handlePeerSnubbed_snd ..))
    | exact key s _ (NoNewHave.send _ _ _ (by with_reducible exact notHave_extmeta2 _))
    | exact key s _ (NoNewHave.send _ _ _ (by with_reducible exact notHave_extmeta1 _))
    | (next heq => have hm := congrArg Prod.fst heq; simp only at hm; rw [← hm]; exact key s _ (acceptPeer_noNewHave (s, []) _ _ _ _ _ _))
    | (refine key { s with persisted := none } _ (NoNewHave.of_eq ?_); simp [handleVerifyCommand_snd]; done)
    | (refine key s _ (NoNewHave.of_eq ?_); simp; done)

/-- `Sound0` (`CfgWF`, `BadWF`) is kept by the handler of every op, external changes of the files included. -/
theorem handle_sound0 (s : St) (p : Parked) (kn : Nat → Bool) (op : Op) (h : Sound0 s) :
    Sound0 (handle s p kn op).1.1 := by
  cases hm : op.isMutate
  · exact h.adv (handle_adv s p kn op hm)
  · cases op with
    | mutate f how =>
      unfold handle
      dsimp only
      split
      · exact h
      · exact mutate_sound0 s f how h
    | _ => simp [Op.isMutate] at hm

/-- **Every `have:i` the loop sends in a step names a piece whose verified bytes are on disk at the end of
the step** (any op, any parameters, a parked piece message or not). -/
theorem step_havesOK (s : St) (p : Parked) (kn : Nat → Bool) (op : Op) (h : Sound0 s) (hw : WrOK s) :
    ∀ o ∈ (step s p kn op).1.outs, ∀ i, o.msg = haveMsg i → (step s p kn op).1.st.diskOKi i = true := by
  unfold step
  have h0 : Sound0 { s with sto := [], mayStart := [], closedDl := [], mayStartI := false } := ⟨h.cfg, h.bad⟩
  have h1 := handle_sound0 _ p kn op h0
  have w1 := handle_wrOK0 s p kn op hw
  have v1 : HavesOK (handle { s with sto := [], mayStart := [], closedDl := [], mayStartI := false } p kn op).1 :=
    fun o ho i hi => absurd hi (handle_noHave _ p kn op o ho i)
  have v2 := runWorkers_havesOK 12 _ h1 w1 v1
  have h2 := h1.adv (runWorkers_adv 12 _ h1 w1)
  dsimp only
  split
  · exact deliverParked_havesOK _ _ h2 (runWorkers_wrOK 12 _ w1) v2
  · exact v2

/-! `Sound0` needs nothing about held write results: the configuration is constant and `bad` only shrinks. -/

theorem Sound0.of_sub {s s' : St} (h : Sound0 s) (hc : s'.cfg = s.cfg) (hb : ∀ x ∈ s'.bad, x ∈ s.bad) : Sound0 s' where
  cfg := hc ▸ h.cfg
  bad := fun x hx => by
    have := h.bad x (hb x hx)
    rwa [hc]

theorem writerRun_bad_sub (m : M) (w : WriteJob) : ∀ x ∈ (writerRun m w).1.bad, x ∈ m.1.bad := by
  unfold writerRun
  dsimp only
  repeat' split
  all_goals first
    | (intro x hx; simpa using hx)
    | (intro x hx; have : x ∈ m.1.bad.filter (fun b => b.1 ≠ w.piece) := by simpa using hx
       exact (List.mem_filter.1 this).1)

theorem runWorkers_bad_sub (fuel : Nat) (m : M) : ∀ x ∈ (runWorkers fuel m).1.bad, x ∈ m.1.bad := by
  induction fuel generalizing m with
  | zero => exact fun x hx => hx
  | succ n ih =>
    unfold runWorkers
    dsimp only
    repeat' split
    all_goals first
      | exact fun x hx => hx
      | (intro x hx; have := ih _ x hx; first | simpa using this | exact writerRun_bad_sub m _ x this)

theorem deliverParked_bad_sub (m : M) (p : Parked) : ∀ x ∈ (deliverParked m p).1.1.bad, x ∈ m.1.bad := by
  unfold deliverParked
  repeat' split
  all_goals first
    | exact fun x hx => hx
    | (intro x hx; have := runWorkers_bad_sub _ _ x hx; simpa using this)

/-- `Sound0` is an invariant of every step. -/
theorem step_sound0 (s : St) (p : Parked) (kn : Nat → Bool) (op : Op) (h : Sound0 s) :
    Sound0 (step s p kn op).1.st := by
  have h0 : Sound0 { s with sto := [], mayStart := [], closedDl := [], mayStartI := false } := ⟨h.cfg, h.bad⟩
  have h1 := handle_sound0 _ p kn op h0
  rw [step_st]
  split
  · exact h1.of_sub (by simp) (fun x hx => runWorkers_bad_sub 12 _ x (deliverParked_bad_sub _ _ x hx))
  · exact h1.of_sub (by simp) (runWorkers_bad_sub 12 _)

theorem dstep_sound0 (sp : St × Parked) (e : Ev) (h : Sound0 sp.1) : Sound0 (dstep sp e).1 := by
  unfold dstep
  exact ((step_sound0 sp.1 sp.2 e.known e.op h).adv (reconcile_adv _ _)).adv (reconcileIdl_adv _ _)

/-- `CfgWF ∧ BadWF` along every history, whatever the ops (deletions, corruptions, restorations included). -/
theorem drun_sound0 (evs : List Ev) (sp : St × Parked) (h : Sound0 sp.1) : Sound0 (drun sp evs).1 := by
  induction evs generalizing sp with
  | nil => exact h
  | cons e evs ih => exact ih _ (dstep_sound0 sp e h)

end Rain.Loop
