import RainModel.Model.Blocklist
import RainModel.Lemmas.STree
/-!
Helper lemmas for `Model/Blocklist`: mask arithmetic and the `load` loop.
-/
namespace Rain.Blocklist
open Rain.STree

/-! ### the tree behind a list of ranges -/

/-- `ofRanges` never panics and answers like a linear scan. -/
theorem ofRanges_contains (ranges : List (Nat × Nat)) :
    ∃ t, ofRanges ranges = some t ∧
      ∀ v, t.contains v = true ↔ ∃ r ∈ ranges, r.1 ≤ v ∧ v ≤ r.2 := by
  obtain ⟨hb, hr⟩ := addRanges_base ranges ({} : Stree)
  obtain ⟨t', ht', hc⟩ := build_contains (ranges.foldl (fun t r => t.addRange r.1 r.2) ({} : Stree))
    (by rw [hr])
  refine ⟨t', ht', fun v => ?_⟩
  rw [hc v]
  simp only [List.map_nil, List.nil_append] at hb
  constructor
  · rintro ⟨iv, hiv, h1, h2⟩
    refine ⟨(iv.lo, iv.hi), ?_, h1, h2⟩
    rw [← hb]
    exact List.mem_map.2 ⟨iv, hiv, rfl⟩
  · rintro ⟨r, hr', h1, h2⟩
    rw [← hb] at hr'
    obtain ⟨iv, hiv, rfl⟩ := List.mem_map.1 hr'
    exact ⟨iv, hiv, h1, h2⟩

/-! ### masks -/

theorem cidrMask_eq (p : Nat) (hp : p ≤ 32) : cidrMask p = 2 ^ 32 - 2 ^ (32 - p) := by
  unfold cidrMask
  rw [Nat.shiftLeft_eq, Nat.sub_mul, ← Nat.pow_add]
  have : p + (32 - p) = 32 := by omega
  rw [this]; simp

theorem and_cidrMask (x p : Nat) (hx : x < 2 ^ 32) (hp : p ≤ 32) :
    x &&& cidrMask p = (x / 2 ^ (32 - p)) * 2 ^ (32 - p) := by
  apply Nat.eq_of_testBit_eq
  intro i
  unfold cidrMask
  rw [Nat.testBit_and, Nat.testBit_shiftLeft, Nat.testBit_two_pow_sub_one,
    ← Nat.shiftLeft_eq, ← Nat.shiftRight_eq_div_pow, Nat.testBit_shiftLeft, Nat.testBit_shiftRight]
  by_cases hi : 32 - p ≤ i
  · have e : 32 - p + (i - (32 - p)) = i := by omega
    rw [e]
    by_cases hi2 : i - (32 - p) < p
    · simp [hi, hi2]
    · have : x.testBit i = false := by
        apply Nat.testBit_lt_two_pow
        exact Nat.lt_of_lt_of_le hx (Nat.pow_le_pow_right (by decide) (by omega))
      simp [this]
  · simp [hi]

theorem two_pow_le_32 (k : Nat) (hk : k ≤ 32) : 2 ^ k ≤ 2 ^ 32 :=
  Nat.pow_le_pow_right (by decide) hk

/-- `rangeOf` in arithmetic form: `first = ⌊ip / 2^k⌋·2^k`, `last = first + 2^k − 1`, `k = 32 − p`. -/
theorem rangeOf_eq (ip p : Nat) (hip : ip < 2 ^ 32) (hp : p ≤ 32) :
    (rangeOf ip p).first = (ip / 2 ^ (32 - p)) * 2 ^ (32 - p) ∧
    (rangeOf ip p).last = (ip / 2 ^ (32 - p)) * 2 ^ (32 - p) + (2 ^ (32 - p) - 1) := by
  have hM1 : 0 < 2 ^ (32 - p) := Nat.pow_pos (by decide)
  have hM2 := two_pow_le_32 (32 - p) (by omega)
  have hmask := cidrMask_eq p hp
  have hcompl : 0xFFFFFFFF - cidrMask p = 2 ^ (32 - p) - 1 := by
    rw [hmask]
    have : (2:Nat) ^ 32 = 4294967296 := by decide
    omega
  unfold rangeOf
  simp only
  rw [hcompl, and_cidrMask ip p hip hp]
  refine ⟨rfl, ?_⟩
  rw [Nat.mul_comm (ip / 2 ^ (32 - p))]
  exact (Nat.two_pow_add_eq_or_of_lt (by omega) _).symm

/-! ### the `load` loop -/

theorem loadLine_skip (st : LoadSt) (raw : Bytes) (h : isRule (cook raw) = false) :
    loadLine st raw = st := by
  unfold loadLine
  show (if (trimSpace (dropCR raw)).isEmpty = true then st else _) = st
  by_cases he : (trimSpace (dropCR raw)).isEmpty = true
  · rw [if_pos he]
  · rw [if_neg he]
    have hh : (trimSpace (dropCR raw)).head? = some 35 := by
      simp [isRule, cook, he] at h
      exact h
    rw [if_pos hh]

theorem loadLine_rule (st : LoadSt) (raw : Bytes) (h : isRule (cook raw) = true) :
    loadLine st raw =
      match parseCIDR (cook raw) with
      | none => { st with hasError := true }
      | some r => { st with tree := st.tree.addRange r.first r.last, n := st.n + 1 } := by
  unfold loadLine
  simp only [isRule, cook, Bool.and_eq_true, Bool.not_eq_true', beq_eq_false_iff_ne, ne_eq] at h
  show (if (trimSpace (dropCR raw)).isEmpty = true then st else _) = _
  rw [if_neg (by simp [h.1]), if_neg h.2]
  rfl

theorem loadLine_fold (ls : List Bytes) : ∀ st : LoadSt,
    (ls.foldl loadLine st).n = st.n + (((ls.map cook).filter isRule).filterMap parseCIDR).length ∧
    (ls.foldl loadLine st).hasError =
      (st.hasError || ((ls.map cook).filter isRule).any fun l => (parseCIDR l).isNone) ∧
    (ls.foldl loadLine st).tree =
      (((ls.map cook).filter isRule).filterMap parseCIDR).foldl
        (fun t r => t.addRange r.first r.last) st.tree := by
  induction ls with
  | nil => intro st; simp
  | cons raw rest ih =>
    intro st
    simp only [List.foldl_cons, List.map_cons]
    obtain ⟨h1, h2, h3⟩ := ih (loadLine st raw)
    rw [h1, h2, h3]
    cases hr : isRule (cook raw) with
    | false =>
      rw [loadLine_skip st raw hr, List.filter_cons_of_neg (by simp [hr])]
      exact ⟨rfl, rfl, rfl⟩
    | true =>
      rw [loadLine_rule st raw hr, List.filter_cons_of_pos hr]
      cases hp : parseCIDR (cook raw) with
      | none =>
        simp [hp, List.any_cons]
      | some r =>
        simp [hp, List.any_cons]
        omega

end Rain.Blocklist
