import RainModel.Model.WsAcct
/-!
Invariant of M-WSACCT and its preservation by every handler of the repaired step function; the code's own step
function agrees with it on every event except a corrupt-piece verdict for a source without a downloader.
-/
namespace Rain.WsAcct

def dlAt (l : List Src) (i : Nat) : Bool :=
  match l[i]? with
  | some x => x.dl
  | none => false

theorem hasDl_eq (s : St) (i : Nat) : hasDl s i = dlAt s.srcs i := rfl

/-- A retry timer only runs for a source that is disabled and has no downloader. -/
def SrcOk (x : Src) : Prop := x.retryDue = true → x.disabled = true ∧ x.dl = false

/-- The counter equals the number of sources with a downloader. -/
def InvA (s : St) : Prop :=
  s.active = (countDl s.srcs : Int) ∧ ∀ x ∈ s.srcs, SrcOk x

/-- … and that number is within the configured maximum. -/
def InvC (s : St) : Prop := InvA s ∧ (countDl s.srcs : Int) ≤ s.cap

theorem length_upd (f : Src → Src) : ∀ (l : List Src) (i : Nat), (upd f l i).length = l.length
  | [], _ => rfl
  | _ :: _, 0 => rfl
  | _ :: r, i + 1 => by simp [upd, length_upd f r i]

theorem countDl_upd_off_nat (f : Src → Src) (hf : ∀ x, (f x).dl = false) :
    ∀ (l : List Src) (i : Nat), countDl (upd f l i) + (if dlAt l i then 1 else 0) = countDl l
  | [], i => by simp [upd, dlAt, countDl]
  | x :: r, 0 => by
    have hd : dlAt (x :: r) 0 = x.dl := by simp [dlAt]
    rw [hd]
    simp only [upd, countDl, hf]
    cases hx : x.dl <;> simp <;> omega
  | x :: r, i + 1 => by
    have ih := countDl_upd_off_nat f hf r i
    have hd : dlAt (x :: r) (i + 1) = dlAt r i := by simp [dlAt]
    rw [hd]
    simp only [upd, countDl]
    omega

theorem countDl_upd_off (f : Src → Src) (hf : ∀ x, (f x).dl = false) (l : List Src) (i : Nat) :
    (countDl (upd f l i) : Int) = countDl l - (if dlAt l i then 1 else 0) := by
  have h := countDl_upd_off_nat f hf l i
  split <;> rename_i hd <;> simp only [hd] at h <;> simp at h <;> omega

theorem countDl_upd_same (f : Src → Src) (hf : ∀ x, (f x).dl = x.dl) :
    ∀ (l : List Src) (i : Nat), countDl (upd f l i) = countDl l
  | [], _ => rfl
  | x :: r, 0 => by simp [upd, countDl, hf]
  | x :: r, i + 1 => by simp [upd, countDl, countDl_upd_same f hf r i]

theorem countDl_upd_open : ∀ (l : List Src) (i : Nat), i < l.length → dlAt l i = false →
    countDl (upd openDl l i) = countDl l + 1
  | [], i, h, _ => by simp at h
  | x :: r, 0, _, hd => by
    simp only [dlAt, List.getElem?_cons_zero] at hd
    simp [upd, countDl, openDl, hd]; omega
  | x :: r, i + 1, h, hd => by
    simp only [dlAt, List.getElem?_cons_succ] at hd
    have ih := countDl_upd_open r i (by simpa using h) hd
    simp only [upd, countDl, ih]; omega

theorem countDl_map_close : ∀ l : List Src, countDl (l.map closeDl) = 0
  | [] => rfl
  | x :: r => by simp [countDl, closeDl, countDl_map_close r]

theorem all_upd {P : Src → Prop} (f : Src → Src) :
    ∀ (l : List Src) (i : Nat), (∀ x ∈ l, P x) → (∀ x, l[i]? = some x → P (f x)) → ∀ y ∈ upd f l i, P y
  | [], _, _, _ => by simp [upd]
  | x :: r, 0, hl, hf => by
    intro y hy
    simp only [upd, List.mem_cons] at hy
    rcases hy with rfl | hy
    · exact hf x (by simp)
    · exact hl y (by simp [hy])
  | x :: r, i + 1, hl, hf => by
    intro y hy
    simp only [upd, List.mem_cons] at hy
    rcases hy with rfl | hy
    · exact hl _ (by simp)
    · exact all_upd f r i (fun z hz => hl z (by simp [hz])) (fun z hz => hf z (by simpa using hz)) y hy

theorem mem_of_getElem? {l : List Src} {i : Nat} {x : Src} (h : l[i]? = some x) : x ∈ l :=
  List.mem_of_getElem? h

theorem lt_of_getElem? {l : List Src} {i : Nat} {x : Src} (h : l[i]? = some x) : i < l.length := by
  rcases Nat.lt_or_ge i l.length with h' | h'
  · exact h'
  · simp [List.getElem?_eq_none h'] at h

/-- `startFor` on an existing source without downloader and without retry timer keeps the invariant. -/
theorem startFor_inv {s : St} {i : Nat} (pick : Bool) (h : InvC s) (hi : i < s.srcs.length)
    (hd : dlAt s.srcs i = false) (hr : ∀ x, s.srcs[i]? = some x → x.retryDue = false) :
    InvC (startFor s i pick).1 := by
  unfold startFor
  split
  · exact h
  · split
    · exact h
    · split
      · exact h
      · rename_i hcap _ _
        obtain ⟨⟨ha, hs⟩, hc⟩ := h
        have hcnt := countDl_upd_open s.srcs i hi hd
        refine ⟨⟨?_, ?_⟩, ?_⟩
        · simp only [hcnt, ha]; omega
        · apply all_upd openDl s.srcs i hs
          intro x hx
          have hrx := hr x hx
          intro hdue
          unfold openDl at hdue
          split at hdue <;> simp_all
        · simp only [hcnt]; omega

/-- the same without the bound (no assumption on the configured maximum) -/
theorem startFor_invA {s : St} {i : Nat} (pick : Bool) (h : InvA s) (hi : i < s.srcs.length)
    (hd : dlAt s.srcs i = false) (hr : ∀ x, s.srcs[i]? = some x → x.retryDue = false) :
    InvA (startFor s i pick).1 := by
  unfold startFor
  split
  · exact h
  · split
    · exact h
    · split
      · exact h
      · obtain ⟨ha, hs⟩ := h
        have hcnt := countDl_upd_open s.srcs i hi hd
        refine ⟨?_, ?_⟩
        · simp only [hcnt, ha]; omega
        · apply all_upd openDl s.srcs i hs
          intro x hx
          have hrx := hr x hx
          intro hdue
          unfold openDl at hdue
          split at hdue <;> simp_all

theorem startLoop_inv : ∀ (is : List Nat) (s : St) (k : Nat), InvC s → InvC (startLoop s is k)
  | [], _, _, h => h
  | i :: is, s, k, h => by
    unfold startLoop
    split
    · exact startLoop_inv is s k h
    · rename_i x hx
      split
      · rename_i hcond
        have hxd : x.dl = false ∧ x.disabled = false := by
          cases hd : x.dl <;> cases hdis : x.disabled <;> simp_all
        have hd : dlAt s.srcs i = false := by simp [dlAt, hx, hxd.1]
        have hr : ∀ y, s.srcs[i]? = some y → y.retryDue = false := by
          intro y hy
          have : y = x := by rw [hx] at hy; exact (Option.some.inj hy).symm
          subst this
          have hok := h.1.2 y (mem_of_getElem? hx)
          cases hdue : y.retryDue
          · rfl
          · have := (hok hdue).1; simp_all
        have hinv := startFor_inv (decide (0 < k)) h (lt_of_getElem? hx) hd hr
        split
        · rename_i s' heq
          have : s' = (startFor s i (decide (0 < k))).1 := by rw [heq]
          exact startLoop_inv is s' (k - 1) (this ▸ hinv)
        · exact h
      · exact startLoop_inv is s k h

theorem startLoop_invA : ∀ (is : List Nat) (s : St) (k : Nat), InvA s → InvA (startLoop s is k)
  | [], _, _, h => h
  | i :: is, s, k, h => by
    unfold startLoop
    split
    · exact startLoop_invA is s k h
    · rename_i x hx
      split
      · rename_i hcond
        have hxd : x.dl = false ∧ x.disabled = false := by
          cases hd : x.dl <;> cases hdis : x.disabled <;> simp_all
        have hd : dlAt s.srcs i = false := by simp [dlAt, hx, hxd.1]
        have hr : ∀ y, s.srcs[i]? = some y → y.retryDue = false := by
          intro y hy
          have : y = x := by rw [hx] at hy; exact (Option.some.inj hy).symm
          subst this
          have hok := h.2 y (mem_of_getElem? hx)
          cases hdue : y.retryDue
          · rfl
          · have := (hok hdue).1; simp_all
        have hinv := startFor_invA (decide (0 < k)) h (lt_of_getElem? hx) hd hr
        split
        · rename_i s' heq
          have : s' = (startFor s i (decide (0 < k))).1 := by rw [heq]
          exact startLoop_invA is s' (k - 1) (this ▸ hinv)
        · exact h
      · exact startLoop_invA is s k h

theorem startAll_inv (s : St) (k : Nat) (h : InvC s) : InvC (startAll s k) := by
  unfold startAll; split
  · exact h
  · exact startLoop_inv _ s k h

theorem startAll_invA (s : St) (k : Nat) (h : InvA s) : InvA (startAll s k) := by
  unfold startAll; split
  · exact h
  · exact startLoop_invA _ s k h

theorem dlAt_upd (f : Src → Src) : ∀ (l : List Src) (i : Nat),
    dlAt (upd f l i) i = match l[i]? with | some x => (f x).dl | none => false
  | [], _ => by simp [upd, dlAt]
  | x :: r, 0 => by simp [upd, dlAt]
  | x :: r, i + 1 => by
    have := dlAt_upd f r i
    simpa [upd, dlAt] using this

theorem getElem?_upd (f : Src → Src) : ∀ (l : List Src) (i : Nat), (upd f l i)[i]? = (l[i]?).map f
  | [], _ => by simp [upd]
  | x :: r, 0 => by simp [upd]
  | x :: r, i + 1 => by simpa [upd] using getElem?_upd f r i

/-- Closing the downloader of source `i`, giving the slot back and trying a new range. -/
theorem closeAndRestart_invA {s : St} {i : Nat} (pick : Bool) (h : InvA s) (hd : hasDl s i = true) :
    InvA (closeAndRestart s i pick) := by
  unfold closeAndRestart
  rw [hasDl_eq] at hd
  have hlt : i < s.srcs.length := by
    unfold dlAt at hd; split at hd
    · rename_i x hx; exact lt_of_getElem? hx
    · simp at hd
  apply startFor_invA
  · refine ⟨?_, ?_⟩
    · have := countDl_upd_off closeDl (fun _ => rfl) s.srcs i
      simp only [this, hd, h.1]; simp
    · apply all_upd closeDl s.srcs i h.2
      intro x hx hdue
      have hok := h.2 x (mem_of_getElem? hx)
      exact ⟨(hok hdue).1, rfl⟩
  · simpa [length_upd] using hlt
  · simp only [dlAt_upd]; split <;> simp [closeDl]
  · intro y hy
    simp only [getElem?_upd] at hy
    cases hx : s.srcs[i]? with
    | none => simp [hx] at hy
    | some x =>
      simp only [hx, Option.map_some, Option.some.injEq] at hy
      subst hy
      have hok := h.2 x (mem_of_getElem? hx)
      have hxd : x.dl = true := by simpa [dlAt, hx] using hd
      cases hdue : x.retryDue
      · simp [closeDl, hdue]
      · have := (hok hdue).2; simp_all

theorem closeAndRestart_inv {s : St} {i : Nat} (pick : Bool) (h : InvC s) (hd : hasDl s i = true) :
    InvC (closeAndRestart s i pick) := by
  have hA := closeAndRestart_invA pick h.1 hd
  refine ⟨hA, ?_⟩
  -- the bound: closing frees one, `startFor` only starts below the maximum
  unfold closeAndRestart at hA ⊢
  rw [hasDl_eq] at hd
  have hlt : i < s.srcs.length := by
    unfold dlAt at hd; split at hd
    · rename_i x hx; exact lt_of_getElem? hx
    · simp at hd
  have hoff := countDl_upd_off closeDl (fun _ => rfl) s.srcs i
  simp only [hd, if_true] at hoff
  have hc := h.2
  have ha := h.1.1
  unfold startFor
  split
  · simp only; omega
  · split
    · simp only; omega
    · split
      · simp only; omega
      · rename_i hcap _ _
        simp only at hcap ⊢
        have hd' : dlAt (upd closeDl s.srcs i) i = false := by
          simp only [dlAt_upd]; split <;> simp [closeDl]
        have := countDl_upd_open (upd closeDl s.srcs i) i (by simpa [length_upd] using hlt) hd'
        simp only [this]; omega

/-- Disabling source `i` (with or without a retry timer); `dec` says whether the counter is decremented. -/
theorem disable_invA {s : St} {i : Nat} (retry : Bool) (h : InvA s) :
    InvA { s with srcs := upd (disable retry) s.srcs i,
                  active := if hasDl s i then s.active - 1 else s.active } := by
  refine ⟨?_, ?_⟩
  · have := countDl_upd_off (disable retry) (fun _ => rfl) s.srcs i
    simp only [this, hasDl_eq, h.1]
    split <;> simp
  · apply all_upd (disable retry) s.srcs i h.2
    intro x _ _
    exact ⟨rfl, rfl⟩

theorem disable_count_le {s : St} {i : Nat} (retry : Bool) :
    countDl (upd (disable retry) s.srcs i) ≤ countDl s.srcs := by
  have := countDl_upd_off (disable retry) (fun _ => rfl) s.srcs i
  split at this <;> omega

theorem stepFixed_invA (s : St) (e : Ev) (h : InvA s) : InvA (stepFixed s e) := by
  cases e with
  | run b => exact h
  | startAll k => exact startAll_invA s k h
  | wsError i k =>
    simp only [stepFixed, step]
    split
    · rename_i hd
      apply startAll_invA
      have := disable_invA (i := i) true h
      simpa [hd] using this
    · exact h
  | rangeEnd i pick =>
    simp only [stepFixed, step]; split
    · rename_i hd; exact closeAndRestart_invA pick h hd
    · exact h
  | wsCorrupt i k =>
    simp only [stepFixed]; split
    · apply startAll_invA; exact disable_invA false h
    · exact h
  | stopAtClosed i pick =>
    simp only [stepFixed, step]; split
    · rename_i hd; exact closeAndRestart_invA pick h hd
    · exact h
  | retry i pick =>
    simp only [stepFixed, step]; split
    · rename_i hdue
      unfold isDue at hdue
      cases hx : s.srcs[i]? with
      | none => simp [hx] at hdue
      | some x =>
        simp only [hx] at hdue
        have hok := h.2 x (mem_of_getElem? hx) hdue
        apply startFor_invA
        · refine ⟨?_, ?_⟩
          · rw [countDl_upd_same clearDue (fun _ => rfl)]; exact h.1
          · apply all_upd _ s.srcs i h.2
            intro y _ hy; simp [clearDue] at hy
        · simpa [length_upd] using lt_of_getElem? hx
        · simp only [dlAt_upd, hx]; exact hok.2
        · intro y hy
          simp only [getElem?_upd, hx, Option.map_some, Option.some.injEq] at hy
          subst hy; rfl
    · exact h
  | stopAll =>
    simp only [stepFixed, step]
    refine ⟨by simp [countDl_map_close], ?_⟩
    intro y hy
    simp only [List.mem_map] at hy
    obtain ⟨x, hx, rfl⟩ := hy
    intro hdue
    exact ⟨(h.2 x hx hdue).1, rfl⟩

theorem stepFixed_inv (s : St) (e : Ev) (h : InvC s) : InvC (stepFixed s e) := by
  cases e with
  | run b => exact h
  | startAll k => exact startAll_inv s k h
  | wsError i k =>
    simp only [stepFixed, step]
    split
    · rename_i hd
      apply startAll_inv
      refine ⟨?_, ?_⟩
      · have := disable_invA (i := i) true h.1
        simpa [hd] using this
      · have := disable_count_le (s := s) (i := i) true
        have hc := h.2
        simp only; omega
    · exact h
  | rangeEnd i pick =>
    simp only [stepFixed, step]; split
    · rename_i hd; exact closeAndRestart_inv pick h hd
    · exact h
  | wsCorrupt i k =>
    simp only [stepFixed]; split
    · apply startAll_inv
      refine ⟨disable_invA false h.1, ?_⟩
      have := disable_count_le (s := s) (i := i) false
      have hc := h.2
      simp only; omega
    · exact h
  | stopAtClosed i pick =>
    simp only [stepFixed, step]; split
    · rename_i hd; exact closeAndRestart_inv pick h hd
    · exact h
  | retry i pick =>
    have hA := stepFixed_invA s (.retry i pick) h.1
    simp only [stepFixed, step] at hA ⊢; split
    · rename_i hdue
      simp only [hdue, if_true] at hA
      unfold isDue at hdue
      cases hx : s.srcs[i]? with
      | none => simp [hx] at hdue
      | some x =>
        simp only [hx] at hdue
        have hok := h.1.2 x (mem_of_getElem? hx) hdue
        apply startFor_inv
        · refine ⟨⟨?_, ?_⟩, ?_⟩
          · rw [countDl_upd_same clearDue (fun _ => rfl)]; exact h.1.1
          · apply all_upd _ s.srcs i h.1.2
            intro y _ hy; simp [clearDue] at hy
          · rw [countDl_upd_same clearDue (fun _ => rfl)]; exact h.2
        · simpa [length_upd] using lt_of_getElem? hx
        · simp only [dlAt_upd, hx]; exact hok.2
        · intro y hy
          simp only [getElem?_upd, hx, Option.map_some, Option.some.injEq] at hy
          subst hy; rfl
    · exact h
  | stopAll =>
    refine ⟨stepFixed_invA s .stopAll h.1, ?_⟩
    simp only [stepFixed, step, countDl_map_close]
    have hc := h.2
    have : (0 : Int) ≤ (countDl s.srcs : Int) := Int.natCast_nonneg _
    simp only [Int.natCast_zero]; omega

theorem countDl_replicate (n : Nat) : countDl (List.replicate n ({} : Src)) = 0 := by
  induction n with
  | zero => rfl
  | succ n ih => simp [List.replicate_succ, countDl, ih]

theorem init_invA (n : Nat) (cap : Int) : InvA (init n cap) := by
  refine ⟨by simp [init, countDl_replicate], ?_⟩
  intro x hx
  simp only [init, List.mem_replicate] at hx
  intro hdue; rw [hx.2] at hdue; simp at hdue

theorem init_inv (n : Nat) (cap : Int) (hc : 0 ≤ cap) : InvC (init n cap) :=
  ⟨init_invA n cap, by simp [init, countDl_replicate]; exact hc⟩

theorem runFixed_invA : ∀ (es : List Ev) (s : St), InvA s → InvA (runFixed s es)
  | [], _, h => h
  | e :: es, s, h => runFixed_invA es _ (stepFixed_invA s e h)

theorem runFixed_inv : ∀ (es : List Ev) (s : St), InvC s → InvC (runFixed s es)
  | [], _, h => h
  | e :: es, s, h => runFixed_inv es _ (stepFixed_inv s e h)

/-- On a safe event the code and the repaired code do the same. -/
theorem step_eq_stepFixed (s : St) (e : Ev) (h : SafeEv s e) : step s e = stepFixed s e := by
  cases e with
  | wsCorrupt i k =>
    simp only [SafeEv] at h
    simp only [step, stepFixed, h, if_true]
  | _ => rfl

theorem run_eq_runFixed : ∀ (es : List Ev) (s : St), SafeRun s es → run s es = runFixed s es
  | [], _, _ => rfl
  | e :: es, s, h => by
    simp only [run, runFixed]
    rw [← step_eq_stepFixed s e h.1]
    exact run_eq_runFixed es _ h.2

end Rain.WsAcct
