import RainModel.Lemmas.LoopNoPanic
/-!
A pending verification request is never forgotten (after the fix for finding C04-F4).

`DV s`: while `doVerify` is set the torrent is on its way to the verification — it is stopping (the completed
stop restarts it without its bitfield), or it has no bitfield and its allocator or verifier is running, or it
is still fetching its metadata (magnet link; the allocation that follows the metadata finds the flag).  In
particular it is neither `Downloading` nor `Seeding`.  `DV` is preserved by every handler, by the workers, by
`step` (every op, every parameter) and by the adoption of the implementation's choices.
-/
namespace Rain.Loop

/-- A set `doVerify` is being acted upon. -/
def DV (s : St) : Prop :=
  s.doVerify = true → s.errC = true ∧
    (s.stopAnn = true ∨ (s.bf = none ∧ (s.allocator = true ∨ s.verifier = true ∨ s.info = false)))

/-- What is left of `DV` between the end of the allocation and the decision what to do next. -/
def DV0 (s : St) : Prop := s.doVerify = true → s.errC = true ∧ (s.stopAnn = true ∨ s.bf = none)

theorem DV.of_false {s : St} (h : s.doVerify = false) : DV s := fun hd => by rw [h] at hd; cases hd

theorem DV.dv0 {s : St} (h : DV s) : DV0 s := fun hd => ⟨(h hd).1, (h hd).2.imp id (·.1)⟩

theorem DV.of_eq {s s' : St} (h : DV s) (h1 : s'.doVerify = s.doVerify) (h2 : s'.errC = s.errC)
    (h3 : s'.stopAnn = s.stopAnn) (h4 : s'.bf = s.bf) (h5 : s'.allocator = s.allocator)
    (h6 : s'.verifier = s.verifier) (h7 : s'.info = s.info) : DV s' := by
  unfold DV; rw [h1, h2, h3, h4, h5, h6, h7]; exact h

theorem DV0.of_eq {s s' : St} (h : DV0 s) (h1 : s'.doVerify = s.doVerify) (h2 : s'.errC = s.errC)
    (h3 : s'.stopAnn = s.stopAnn) (h4 : s'.bf = s.bf) : DV0 s' := by
  unfold DV0; rw [h1, h2, h3, h4]; exact h

/-- closes `DV s'` from `h : DV s` when the seven fields agree (frame lemmas) -/
macro "dv_frame" h:term : tactic => `(tactic| (apply DV.of_eq $h <;> first | rfl | (simp; done)))

/-- stopping with the flag set is fine -/
theorem DV.of_stopping {s : St} (h : s.doVerify = true → s.errC = true ∧ s.stopAnn = true) : DV s :=
  fun hd => ⟨(h hd).1, Or.inl (h hd).2⟩

/-- with a bitfield in hand a pending verification means the torrent is stopping -/
theorem DV0.stopping_of_bf {s : St} (h : DV0 s) {b : List Bool} (hb : s.bf = some b) :
    s.doVerify = true → s.errC = true ∧ s.stopAnn = true := by
  intro hd
  obtain ⟨he, hs | hn⟩ := h hd
  · exact ⟨he, hs⟩
  · rw [hb] at hn; cases hn

theorem stop_doVerify_imp (s : St) (e : Bool) (h : (s.stop e).doVerify = true) : s.doVerify = true := by
  rcases stop_doVerify_eq s e with h' | h'
  · rw [h'] at h; exact h
  · rw [h'.2] at h; cases h

theorem stop_dv' (s : St) (e : Bool) (h : s.doVerify = true → s.errC = true) : DV (s.stop e) := by
  intro hd
  have he := h (stop_doVerify_imp s e hd)
  exact ⟨by simpa using he, Or.inl (stop_stopAnn_of_errC s e he)⟩

theorem stop_dv (s : St) (e : Bool) (h : DV s) : DV (s.stop e) := stop_dv' s e (fun hd => (h hd).1)

theorem hadCheck_dv (m : M) (h : DV m.1) : DV (hadCheck m).1 := by
  unfold hadCheck
  dsimp only
  split
  · simp only [onSt_fst]; exact stop_dv _ _ (by dv_frame h)
  · unfold hadReady; simp only [onSt_fst]; dv_frame h

/-- the fresh-bitfield branch either ends the verification or had none pending -/
theorem hadFresh_dv (m : M) : DV (hadFresh m).1 := by
  unfold hadFresh
  dsimp only
  split
  · simp only [onSt_fst]; exact DV.of_false (stop_doVerify_false _ _ rfl)
  · next hd => exact DV.of_false (hadCheck_doVerify_false _ (by simpa using hd))

theorem hadTrust_dv (m : M) (b : List Bool) (h : DV0 m.1) (hb : m.1.bf = some b) : DV (hadTrust m b).1 := by
  unfold hadTrust
  apply hadCheck_dv
  simp only [onSt_fst]
  exact DV.of_stopping (by simpa using h.stopping_of_bf hb)

theorem DV0.verifier {s : St} (h : DV0 s) : DV { s with verifier := true } := by
  intro hd
  obtain ⟨he, hs | hn⟩ := h hd
  · exact ⟨he, Or.inl hs⟩
  · exact ⟨he, Or.inr ⟨hn, Or.inr (Or.inl rfl)⟩⟩

theorem handleAllocationDone_dv (m : M) (ex mi : Bool) (h : DV m.1) : DV (handleAllocationDone m ex mi).1 := by
  rw [handleAllocationDone_eq]
  have h0 : DV0 (hadForget (hadInstall m) mi).1 := by
    intro hd
    obtain ⟨he, hs⟩ := h.dv0 (by simpa using hd)
    refine ⟨by simpa using he, hs.imp (by simp) (fun hn => ?_)⟩
    unfold hadForget
    simp only [onSt_fst]
    split
    · rfl
    · simpa using hn
  dsimp only
  split
  · next b hb =>
    repeat' split
    · exact hadTrust_dv _ _ h0 hb
    · exact hadFresh_dv _
    · simp only [onSt_fst]; exact h0.verifier
  · split
    · exact hadFresh_dv _
    · simp only [onSt_fst]; exact h0.verifier

theorem allocatorRun_dv (m : M) (h : DV m.1) : DV (allocatorRun m).1 := by
  rw [allocatorRun_eq]
  split
  · unfold allocFail
    simp only [onSt_fst]; exact stop_dv' _ _ (fun hd => by simpa using (h (by simpa using hd)).1)
  · exact handleAllocationDone_dv _ _ _ (by dv_frame h)

/-- the end of a verification clears the flag, or there was none -/
theorem handleVerificationDone_dv (m : M) : DV (handleVerificationDone m).1 := by
  rw [handleVerificationDone_eq]
  dsimp only
  split
  · simp only [onSt_fst]; exact DV.of_false (stop_doVerify_false _ _ rfl)
  · next hd => exact DV.of_false (hadCheck_doVerify_false _ (by simpa using hd))

theorem pwdFinish_dv (m : M) (h : DV m.1) : DV (pwdFinish m).1 := by
  unfold pwdFinish
  dsimp only
  have h1 : DV m.1.checkCompletion.1 := by dv_frame h
  repeat' split
  all_goals first
    | exact h1
    | (simp only [onSt_fst]; dv_frame h1)
    | (simp only [onSt_fst]; exact stop_dv _ _ (by dv_frame h1))

theorem handlePieceWriteDone_dv (m : M) (w : WriteJob) (e : Bool) (h : DV m.1) :
    DV (handlePieceWriteDone m w e).1 := by
  rw [handlePieceWriteDone_eq]
  dsimp only
  have h0 : DV (pwdReset m w).1 := by dv_frame h
  split
  · dv_frame h0
  split
  · exact h0
  · split
    · simp only [onSt_fst]; exact stop_dv _ _ h0
    · have h1 : DV (pwdDone (pwdReset m w) w).1 := by dv_frame h0
      split
      · simp only [onSt_fst]; dv_frame h1
      · next b hb =>
        unfold pwdOk
        apply pwdFinish_dv
        exact DV.of_stopping (by simpa using h1.dv0.stopping_of_bf hb)

theorem writerRun_dv (m : M) (w : WriteJob) (h : DV m.1) : DV (writerRun m w).1 := by
  unfold writerRun
  dsimp only
  repeat' split
  all_goals first
    | exact handlePieceWriteDone_dv _ _ _ h
    | exact handlePieceWriteDone_dv _ _ _ (by dv_frame h)
    | (dv_frame h)

/-- `startCore` on a torrent without a bitfield starts the allocator, the verifier or the metadata download. -/
theorem startCore_dv (m : M) (h : m.1.doVerify = true → m.1.bf = none) : DV (startCore m).1 := by
  intro hd
  have hb : m.1.bf = none := h (by simpa using hd)
  refine ⟨(startCore_errC m), Or.inr ⟨by simpa using hb, ?_⟩⟩
  unfold startCore
  simp only [onSt_fst]
  repeat' split
  all_goals simp_all

theorem handleStopped_dv (m : M) : DV (handleStopped m).1 := by
  unfold handleStopped
  dsimp only
  split
  · exact startCore_dv _ (fun _ => rfl)
  · next hd => exact DV.of_false (by simpa using hd)

theorem start_dv (m : M) (h : DV m.1) : DV (start m).1 := by
  rw [start_eq]
  have h1 : DV (startPre m).1 := by
    unfold startPre
    split
    · exact handleStopped_dv _
    · exact h
  unfold startGo
  split
  · exact h1
  · next he =>
    refine startCore_dv _ (fun hd => ?_)
    rw [(h1 hd).1] at he
    exact absurd rfl he

theorem handleVerifyCommand_dv (m : M) : DV (handleVerifyCommand m).1 := by
  unfold handleVerifyCommand
  dsimp only
  split
  · exact startCore_dv _ (fun _ => rfl)
  · next hs =>
    simp only [onSt_fst]
    refine stop_dv' _ _ (fun _ => ?_)
    rw [status_stopped_iff] at hs
    simpa using hs

/-- The metadata arrives while a verification is pending (magnet link): the allocator is started, still
without a bitfield — its result will find the flag. -/
theorem DV.adopt {s : St} (h : DV s) : DV (if s.allocator then ({ s with info := true, metaDone := true } : St).crash "allocator exists"
    else { s with info := true, metaDone := true, allocator := true }) := by
  split
  · next ha =>
    intro hd
    obtain ⟨he, hs⟩ := h (by simpa using hd)
    exact ⟨by simpa using he, hs.imp (by simp) (fun hn => ⟨by simpa using hn.1, Or.inl (by simpa using ha)⟩)⟩
  · intro hd
    obtain ⟨he, hs⟩ := h hd
    exact ⟨he, hs.imp id (fun hn => ⟨hn.1, Or.inl rfl⟩)⟩

theorem hmdStart_dv (m : M) (h : DV { m.1 with info := false }) (hi : m.1.info = true) : DV (hmdStart m).1 := by
  have h0 : m.1.doVerify = true → m.1.errC = true := fun hd => (h hd).1
  unfold hmdStart
  split
  · simp only [onSt_fst]; exact stop_dv' _ _ h0
  · simp only [onSt_fst]
    split
    · next ha =>
      intro hd
      obtain ⟨he, hs⟩ := h (by simpa using hd)
      exact ⟨by simpa using he, hs.imp (by simp) (fun hn => ⟨by simpa using hn.1, Or.inl (by simpa using ha)⟩)⟩
    · intro hd
      obtain ⟨he, hs⟩ := h hd
      exact ⟨he, hs.imp id (fun hn => ⟨hn.1, Or.inl rfl⟩)⟩

theorem hmdAdopt_dv (m : M) (h : DV m.1) : DV (hmdAdopt m).1 := by
  unfold hmdAdopt
  dsimp only
  repeat' split
  all_goals first
    | (simp only [onSt_fst]; exact stop_dv _ _ (by dv_frame h))
    | (apply hmdStart_dv _ _ rfl
       intro hd
       obtain ⟨he, hs⟩ := h hd
       exact ⟨he, hs.imp id (fun hn => ⟨hn.1, hn.2.imp id (fun hv => hv.imp id (fun _ => rfl))⟩)⟩)

theorem handleMetadataData_dv (m : M) (k i len : Nat) (g : Bool) (h : DV m.1) :
    DV (handleMetadataData m k i len g).1 := by
  rw [handleMetadataData_eq]
  split
  · exact h
  unfold hmdBlock
  dsimp only
  repeat' split
  all_goals first
    | exact hmdAdopt_dv _ (by dv_frame h)
    | (dv_frame h)

theorem runWorkers_dv (fuel : Nat) (m : M) (h : DV m.1) : DV (runWorkers fuel m).1 := by
  induction fuel generalizing m with
  | zero => exact h
  | succ n ih =>
    unfold runWorkers
    dsimp only
    repeat' split
    all_goals first
      | exact h
      | exact ih _ (handleStopped_dv _)
      | exact ih _ (allocatorRun_dv _ h)
      | exact ih _ (handleVerificationDone_dv _)
      | exact ih _ (handlePieceWriteDone_dv _ _ _ h)
      | exact ih _ (writerRun_dv _ _ h)

theorem deliverParked_dv (m : M) (p : Parked) (h : DV m.1) : DV (deliverParked m p).1.1 := by
  unfold deliverParked
  repeat' split
  all_goals first
    | exact h
    | exact runWorkers_dv _ _ (by dv_frame h)

/-- The stop command withdraws the verification request (fix C04-F6). -/
theorem stopCmd_doVerify (s : St) : (({ s with doVerify := false }).stop false).doVerify = false :=
  stop_doVerify_false _ _ rfl

theorem stopCmd_dv (s : St) : DV (({ s with doVerify := false }).stop false) := DV.of_false (stopCmd_doVerify s)

theorem handle_dv (s : St) (p : Parked) (kn : Nat → Bool) (op : Op) (h : DV s) : DV (handle s p kn op).1.1 := by
  unfold handle
  repeat' split
  all_goals first
    | exact h
    | exact start_dv (s, []) h
    | exact handleMetadataData_dv (s, []) _ _ _ _ h
    | (simp only [onSt_fst]; have := stopCmd_dv s; dv_frame this)
    | (simp only [onSt_fst]; exact stopCmd_dv s)
    | exact handleVerifyCommand_dv ({ s with persisted := none }, [])
    | (simp only [onSt_fst]; have := handleVerifyCommand_dv ({ s with persisted := none }, []); dv_frame this)
    | (next heq => have hm := congrArg Prod.fst heq; simp only at hm; rw [← hm]; dv_frame h)
    | (dv_frame h)

theorem step_dv (s : St) (p : Parked) (kn : Nat → Bool) (op : Op) (h : DV s) : DV (step s p kn op).1.st := by
  rw [step_st]
  have h0 : DV { s with sto := [], mayStart := [], closedDl := [], mayStartI := false } := by dv_frame h
  have h2 := runWorkers_dv 12 _ (handle_dv _ p kn op h0)
  split
  · exact deliverParked_dv _ _ h2
  · exact h2

theorem dstep_dv (sp : St × Parked) (e : Ev) (h : DV sp.1) : DV (dstep sp e).1 := by
  unfold dstep
  have := step_dv sp.1 sp.2 e.known e.op h
  dv_frame this

theorem drun_dv (evs : List Ev) (sp : St × Parked) (h : DV sp.1) : DV (drun sp evs).1 := by
  induction evs generalizing sp with
  | nil => exact h
  | cons e evs ih => exact ih _ (dstep_dv sp e h)

/-- While a verification is pending the torrent is not downloading … -/
theorem DV.not_downloading {s : St} (h : DV s) (hd : s.doVerify = true) : s.status ≠ .downloading := by
  obtain ⟨he, hs⟩ := h hd
  unfold St.status
  rcases hs with hs | ⟨_, ha | hv | hi⟩
  · simp [he, hs]
  all_goals (repeat' split) <;> simp_all

/-- … and, under the lifecycle invariant (no metadata ⇒ not completed), in one of four statuses. -/
theorem DV.status {s : St} (h : DV s) (l : Life s) (hd : s.doVerify = true) :
    s.status = .stopping ∨ s.status = .allocating ∨ s.status = .verifying ∨ s.status = .dlmeta := by
  obtain ⟨he, hs⟩ := h hd
  unfold St.status
  rcases hs with hs | ⟨_, ha | hv | hi⟩
  · simp [he, hs]
  · simp [he, ha]; cases s.stopAnn <;> simp
  · simp [he, hv]; cases s.stopAnn <;> cases s.allocator <;> simp
  · have hc := (l.ni hi).2.2.2.1
    simp [he, hi, hc]; cases s.stopAnn <;> cases s.allocator <;> cases s.verifier <;> simp

end Rain.Loop
