import RainModel.Lemmas.Registry
/-!
Preservation of `Inv` by every step of the registry machine.
-/
namespace Rain.Registry
open List

theorem dbModify_map {β : Type} (db : List (String × Fields)) (id : String) (g : Fields → Fields)
    (pr : String × Fields → β) (h : ∀ k r, pr (k, g r) = pr (k, r)) : (dbModify db id g).map pr = db.map pr := by
  unfold dbModify
  rw [List.map_map]
  apply List.map_congr_left
  intro e _
  by_cases he : e.1 = id
  · simp only [Function.comp_apply, he, if_true]; exact he ▸ h e.1 e.2
  · simp [he]

theorem mem_pendIds {s : State} {q : Pending} (h : q ∈ s.pending) : q.id ∈ s.pendIds :=
  List.mem_map_of_mem (f := (·.id)) h

/-- Updating fields of a registered torrent and of its record in a way that keeps identity, port and
info-hash and keeps the record describing the torrent. -/
theorem inv_modify {s : State} (h : Inv s) (id : String) (gd gr : Fields → Fields)
    (hid : id ∈ s.regIds)
    (hgd : ∀ r, (gd r).port = r.port)
    (hgr : ∀ f, (gr f).port = f.port ∧ (gr f).infoHash = f.infoHash)
    (hdesc : ∀ r f, describes r f = true → describes (gd r) (gr f) = true) :
    Inv { s with db := dbModify s.db id gd, reg := regModify s.reg id gr } := by
  have hports : (regModify s.reg id gr).map (·.f.port) = s.reg.map (·.f.port) :=
    regModify_map _ _ _ _ (fun t => (hgr t.f).1)
  have hids : (regModify s.reg id gr).map (·.id) = s.reg.map (·.id) := regModify_map _ _ _ _ (fun _ => rfl)
  refine ⟨?_, ?_, ?_, ?_, ?_, ?_⟩
  · simpa [State.range, hports] using h.ports
  · simpa [State.regIds, State.pendIds, hids] using h.ids
  · have h1 : (dbModify s.db id gd).map (fun e => (e.1, e.2.port)) = s.db.map (fun e => (e.1, e.2.port)) :=
      dbModify_map _ _ _ _ (fun k r => by simp [hgd])
    have h2 : (regModify s.reg id gr).map (fun t => (t.id, t.f.port)) = s.reg.map (fun t => (t.id, t.f.port)) :=
      regModify_map _ _ _ _ (fun t => by simp [(hgr t.f).1])
    simpa [h1, h2] using h.dbsig
  · have h2 : (regModify s.reg id gr).map (fun t => (t.f.infoHash, t.id)) = s.reg.map (fun t => (t.f.infoHash, t.id)) :=
      regModify_map _ _ _ _ (fun t => by simp [(hgr t.f).2])
    simpa [h2] using h.idx
  · intro t' ht'
    obtain ⟨t0, h0, rfl⟩ := mem_regModify ht'
    obtain ⟨r, hr, hd⟩ := h.synced t0 h0
    have hm := mem_dbModify (id := id) (g := gd) hr
    by_cases hk : t0.id = id
    · simp only [hk, if_true] at hm ⊢
      exact ⟨gd r, hm, hdesc r t0.f hd⟩
    · simp only [hk, if_false] at hm ⊢
      exact ⟨r, hm, hd⟩
  · intro q hq hw
    have hm := mem_dbModify (id := id) (g := gd) (h.pendrec q hq hw)
    have hne : q.id ≠ id := fun e => h.disjoint (e ▸ hid) (mem_pendIds hq)
    simpa [hne] using hm

theorem dbModify_id (db : List (String × Fields)) (id : String) : dbModify db id (fun r => r) = db := by
  unfold dbModify
  conv => rhs; rw [← List.map_id db]
  apply List.map_congr_left
  intro e _
  by_cases he : e.1 = id
  · simp [he.symm]
  · simp [he]

theorem describes_iff {r t : Fields} :
    describes r t = true ↔ ({ r with cnt := t.cnt, started := t.started } = t ∧ (t.started = true → r.started = true)) := by
  unfold describes
  simp only [Bool.and_eq_true, decide_eq_true_eq, Bool.or_eq_true, Bool.not_eq_eq_eq_not, Bool.not_true]
  constructor
  · rintro ⟨h1, h2⟩; refine ⟨h1, fun ht => ?_⟩
    cases h2 with
    | inl h => simp [ht] at h
    | inr h => exact h
  · rintro ⟨h1, h2⟩; refine ⟨h1, ?_⟩
    cases hs : t.started with
    | false => exact Or.inl rfl
    | true => exact Or.inr (h2 hs)

theorem inv_start {s : State} (h : Inv s) (id : String) : Inv (start s id) := by
  unfold start
  split
  · rename_i hid
    refine inv_modify h id (fun r => { r with started := true }) (fun r => { r with started := true }) hid
      (fun _ => rfl) (fun _ => ⟨rfl, rfl⟩) ?_
    intro r f hd
    rw [describes_iff] at hd ⊢
    refine ⟨?_, fun _ => rfl⟩
    have := hd.1
    cases r; cases f; simp_all
  · exact h

theorem inv_stop {s : State} (h : Inv s) (id : String) : Inv (stop s id) := by
  unfold stop
  split
  · rename_i hid
    refine inv_modify h id (fun r => { r with started := false }) (fun r => { r with started := false }) hid
      (fun _ => rfl) (fun _ => ⟨rfl, rfl⟩) ?_
    intro r f hd
    rw [describes_iff] at hd ⊢
    refine ⟨?_, fun hc => by simp at hc⟩
    have := hd.1
    cases r; cases f; simp_all
  · exact h

theorem inv_addTracker {s : State} (h : Inv s) (id uri : String) : Inv (addTracker s id uri) := by
  unfold addTracker
  split
  · rename_i hid
    refine inv_modify h id (fun r => { r with trackers := r.trackers ++ [[uri]] })
      (fun r => { r with trackers := r.trackers ++ [[uri]] }) hid (fun _ => rfl) (fun _ => ⟨rfl, rfl⟩) ?_
    intro r f hd
    rw [describes_iff] at hd ⊢
    refine ⟨?_, hd.2⟩
    have := hd.1
    cases r; cases f; simp_all
  · exact h

theorem regModify_of_notMem (reg : List Torrent) (id : String) (g : Fields → Fields) (h : id ∉ reg.map (·.id)) :
    regModify reg id g = reg := by
  unfold regModify
  conv => rhs; rw [← List.map_id reg]
  apply List.map_congr_left
  intro t ht
  have : t.id ≠ id := fun e => h (e ▸ List.mem_map_of_mem (f := (·.id)) ht)
  simp [this]

theorem inv_bump {s : State} (h : Inv s) (id : String) (d : Counters) : Inv (bump s id d) := by
  unfold bump
  by_cases hid : id ∈ s.regIds
  · have := inv_modify h id (fun r => r) (fun r =>
      { r with cnt := ⟨r.cnt.dl + d.dl, r.cnt.ul + d.ul, r.cnt.wasted + d.wasted, r.cnt.seeded + d.seeded⟩ }) hid
      (fun _ => rfl) (fun _ => ⟨rfl, rfl⟩) (by
        intro r f hd
        rw [describes_iff] at hd ⊢
        refine ⟨?_, hd.2⟩
        have := hd.1
        cases r; cases f; simp_all)
    rw [dbModify_id] at this
    exact this
  · rw [regModify_of_notMem _ _ _ hid]
    exact h

theorem regGet_eq_none {reg : List Torrent} {id : String} (h : id ∉ reg.map (·.id)) : regGet reg id = none := by
  unfold regGet
  rw [List.find?_eq_none]
  intro t ht hc
  have : t.id = id := by simpa using hc
  exact h (this ▸ List.mem_map_of_mem (f := (·.id)) ht)

theorem inv_updateStats {s : State} (h : Inv s) : Inv (updateStats s) := by
  unfold updateStats
  refine ⟨h.ports, h.ids, ?_, h.idx, ?_, ?_⟩
  · have : (s.db.map fun e => match regGet s.reg e.1 with
        | some t => (e.1, { e.2 with cnt := t.f.cnt })
        | none => e).map (fun e => (e.1, e.2.port)) = s.db.map (fun e => (e.1, e.2.port)) := by
      rw [List.map_map]
      apply List.map_congr_left
      intro e _
      simp only [Function.comp_apply]
      split <;> rfl
    show ((s.db.map fun e => match regGet s.reg e.1 with
        | some t => (e.1, { e.2 with cnt := t.f.cnt })
        | none => e).map (fun e => (e.1, e.2.port))).Perm _
    rw [this]
    exact h.dbsig
  · intro t ht
    obtain ⟨r, hr, hd⟩ := h.synced t ht
    refine ⟨{ r with cnt := t.f.cnt }, ?_, ?_⟩
    · refine List.mem_map.2 ⟨(t.id, r), hr, ?_⟩
      simp only [regGet_of_mem h.regIds_nodup ht]
    · rw [describes_iff] at hd ⊢
      exact ⟨by simpa using hd.1, hd.2⟩
  · intro q hq hw
    refine List.mem_map.2 ⟨_, h.pendrec q hq hw, ?_⟩
    have : q.id ∉ s.reg.map (·.id) := fun hc => h.disjoint hc (mem_pendIds hq)
    simp only [regGet_eq_none this]

theorem updateStats_no_panic {s : State} (h : Inv s) : updateStatsPanics s = false := by
  unfold updateStatsPanics
  rw [List.any_eq_false]
  intro t ht
  obtain ⟨r, hr, _⟩ := h.synced t ht
  have : t.id ∈ s.dbIds := List.mem_map.2 ⟨(t.id, r), hr, rfl⟩
  simpa using this

theorem inv_remove {s : State} (h : Inv s) (id : String) : Inv (remove s id) := by
  unfold remove
  split
  · exact h
  · rename_i t hget
    obtain ⟨ht, hid⟩ := regGet_some hget
    subst hid
    have hperm : s.reg.Perm (t :: s.reg.filter (fun x => x.id != t.id)) :=
      perm_cons_filter_ne (fun x : Torrent => x.id) s.reg t h.regIds_nodup ht
    have htreg : t.id ∈ s.regIds := List.mem_map_of_mem (f := (·.id)) ht
    refine ⟨?_, ?_, ?_, ?_, ?_, ?_⟩
    · -- ports
      have hp := (hperm.map (·.f.port))
      simp only [List.map_cons] at hp
      refine List.Perm.trans ?_ h.ports
      have : (t.f.port :: s.free ++ (s.reg.filter (fun x => x.id != t.id)).map (·.f.port)).Perm
          (s.free ++ s.reg.map (·.f.port)) := by
        refine List.Perm.trans ?_ (List.Perm.append_left s.free hp.symm)
        exact (List.perm_middle).symm
      exact this.append_right _
    · -- ids
      have hsub : ((s.reg.filter (fun x => x.id != t.id)).map (·.id) ++ s.pendIds).Sublist (s.regIds ++ s.pendIds) :=
        List.Sublist.append ((List.filter_sublist).map _) (List.Sublist.refl _)
      exact hsub.nodup h.ids
    · -- dbsig
      have h1 : (s.db.filter (fun e => e.1 != t.id)).map (fun e => (e.1, e.2.port)) =
          (s.db.map (fun e => (e.1, e.2.port))).filter (fun p => p.1 != t.id) := by
        rw [List.filter_map]; rfl
      have h2 := h.dbsig.filter (fun p => p.1 != t.id)
      rw [h1]
      refine h2.trans ?_
      rw [List.filter_append]
      have h3 : (s.reg.map (fun t => (t.id, t.f.port))).filter (fun p => p.1 != t.id) =
          (s.reg.filter (fun x => x.id != t.id)).map (fun t => (t.id, t.f.port)) := by
        rw [List.filter_map]; rfl
      have h4 : ((written s.pending).map (fun q => (q.id, q.port))).filter (fun p => p.1 != t.id) =
          (written s.pending).map (fun q => (q.id, q.port)) := by
        apply List.filter_eq_self.2
        intro p hp
        obtain ⟨q, hq, rfl⟩ := List.mem_map.1 hp
        have hq' : q ∈ s.pending := (written_sublist _).subset hq
        have : q.id ≠ t.id := fun e => h.disjoint (e ▸ htreg) (mem_pendIds hq')
        simpa using this
      rw [h3, h4]
    · -- idx
      have := (h.idx.trans (hperm.map _)).erase (t.f.infoHash, t.id)
      simpa using this
    · intro t' ht'
      have ht'' := List.mem_filter.1 ht'
      obtain ⟨r, hr, hd⟩ := h.synced t' ht''.1
      exact ⟨r, List.mem_filter.2 ⟨hr, by simpa using ht''.2⟩, hd⟩
    · intro q hq hw
      have : q.id ≠ t.id := fun e => h.disjoint (e ▸ htreg) (mem_pendIds hq)
      exact List.mem_filter.2 ⟨h.pendrec q hq hw, by simpa using this⟩

/-! ### The steps of an add -/

theorem inv_take_release {s : State} (h : Inv s) {p : Nat} (hp : p ∈ s.free) :
    Inv (State.release { s with free := s.free.erase p } p) := by
  refine ⟨?_, h.ids, h.dbsig, h.idx, h.synced, h.pendrec⟩
  have : (p :: s.free.erase p).Perm s.free := (List.perm_cons_erase hp).symm
  exact ((this.append_right _).append_right _).trans h.ports

theorem written_cons_not {q : Pending} {l : List Pending} (hq : q.stage ≠ .written) : written (q :: l) = written l := by
  unfold written
  rw [List.filter_cons]
  have : (q.stage == Stage.written) = false := by simpa using hq
  simp [this]

theorem written_cons_yes {q : Pending} {l : List Pending} (hq : q.stage = .written) : written (q :: l) = q :: written l := by
  unfold written
  rw [List.filter_cons]
  simp [hq]

theorem inv_reserve {s : State} (h : Inv s) {p : Nat} (hp : p ∈ s.free) (id : String) (m : Meta) (o : Opts)
    (h1 : id ∉ s.regIds) (h2 : id ∉ s.pendIds) :
    Inv { s with free := s.free.erase p, pending := ⟨id, p, m, o, .reserved⟩ :: s.pending } := by
  refine ⟨?_, ?_, ?_, h.idx, h.synced, ?_⟩
  · have h0 : s.free.Perm (p :: s.free.erase p) := List.perm_cons_erase hp
    refine List.Perm.trans ?_ h.ports
    simp only [List.map_cons]
    -- free.erase p ++ R ++ (p :: P)  ~  free ++ R ++ P
    refine List.Perm.trans (List.perm_middle) ?_
    refine List.Perm.trans ?_ ((h0.symm.append_right _).append_right _)
    simp
  · show (s.regIds ++ (id :: s.pendIds)).Nodup
    refine (List.perm_middle.nodup_iff).2 ?_
    rw [List.nodup_cons]
    exact ⟨by simp [h1, h2], h.ids⟩
  · show (s.db.map fun e => (e.1, e.2.port)).Perm (_ ++ (written (_ :: s.pending)).map _)
    rw [written_cons_not (by simp)]
    exact h.dbsig
  · intro q hq hw
    cases hq with
    | head => simp at hw
    | tail _ hq => exact h.pendrec q hq hw

theorem inv_addBegin {s : State} (h : Inv s) (m : Meta) (o : Opts) (p : Nat) (gen : String) (sf : Bool) :
    Inv (addBegin s m o p gen sf).1 := by
  unfold addBegin addBeginWith
  by_cases h0 : s.free = []
  · rw [if_pos h0]; exact h
  rw [if_neg h0]
  by_cases hp : p ∉ s.free
  · rw [if_pos hp]; exact h
  rw [if_neg hp]
  have hp : p ∈ s.free := Classical.not_not.1 hp
  dsimp only
  cases hid : o.id with
  | some gid =>
    dsimp only
    by_cases hdup : gid ∈ State.regIds { s with free := s.free.erase p } ∨
        (true = true ∧ gid ∈ State.pendIds { s with free := s.free.erase p })
    · rw [if_pos hdup]; exact inv_take_release h hp
    rw [if_neg hdup]
    by_cases hsf : sf = true
    · rw [if_pos hsf]; exact inv_take_release h hp
    rw [if_neg hsf]
    simp only [not_or, not_and, State.regIds, State.pendIds] at hdup
    exact inv_reserve h hp gid m o hdup.1 (hdup.2 trivial)
  | none =>
    dsimp only
    by_cases hfresh : gen ∈ State.regIds { s with free := s.free.erase p } ∨
        gen ∈ State.pendIds { s with free := s.free.erase p } ∨ gen ∈ State.dbIds { s with free := s.free.erase p } ∨
        gen ∈ State.deadIds { s with free := s.free.erase p }
    · rw [if_pos hfresh]; exact h
    rw [if_neg hfresh]
    by_cases hsf : sf = true
    · rw [if_pos hsf]; exact inv_take_release h hp
    rw [if_neg hsf]
    simp only [not_or, State.regIds, State.pendIds] at hfresh
    exact inv_reserve h hp gen m o hfresh.1 hfresh.2.1

theorem eq_of_nodup_map {α β : Type} (f : α → β) : ∀ {l : List α} {a b : α}, (l.map f).Nodup → a ∈ l → b ∈ l →
    f a = f b → a = b
  | x :: l, a, b, hn, ha, hb, e => by
    rw [List.map_cons, List.nodup_cons] at hn
    cases ha with
    | head =>
      cases hb with
      | head => rfl
      | tail _ hb => exact absurd (e ▸ List.mem_map_of_mem (f := f) hb) hn.1
    | tail _ ha =>
      cases hb with
      | head => exact absurd (e ▸ List.mem_map_of_mem (f := f) ha) hn.1
      | tail _ hb => exact eq_of_nodup_map f hn.2 ha hb e

theorem written_perm_erase {s : State} {q : Pending} (hq : q ∈ s.pending) :
    (written s.pending).Perm (written (q :: s.pending.erase q)) :=
  (List.perm_cons_erase hq).filter _

/-- An add in flight that is not yet written moves to another not-yet-written stage. -/
theorem inv_restage {s : State} (h : Inv s) {q : Pending} (hq : q ∈ s.pending) (st : Stage)
    (h1 : q.stage ≠ .written) (h2 : st ≠ .written) :
    Inv { s with pending := { q with stage := st } :: s.pending.erase q } := by
  have hpe : s.pending.Perm (q :: s.pending.erase q) := List.perm_cons_erase hq
  refine ⟨?_, ?_, ?_, h.idx, h.synced, ?_⟩
  · refine List.Perm.trans ?_ h.ports
    exact List.Perm.append_left _ (hpe.map (fun x : Pending => x.port)).symm
  · refine List.Perm.nodup ?_ h.ids
    exact List.Perm.append_left _ (hpe.map (fun x : Pending => x.id))
  · refine h.dbsig.trans (List.Perm.append_left _ ?_)
    show ((written s.pending).map _).Perm ((written (_ :: s.pending.erase q)).map _)
    rw [written_cons_not (q := { q with stage := st }) h2]
    have := written_perm_erase hq
    rw [written_cons_not h1] at this
    exact this.map _
  · intro q2 hq2 hw
    cases hq2 with
    | head => exact absurd hw h2
    | tail _ hq2 => exact h.pendrec q2 (List.mem_of_mem_erase hq2) hw

/-- An add in flight that has not written gives up: its port is released. -/
theorem inv_abort {s : State} (h : Inv s) {q : Pending} (hq : q ∈ s.pending) (h1 : q.stage ≠ .written) :
    Inv { s with pending := s.pending.erase q, free := q.port :: s.free } := by
  have hpe : s.pending.Perm (q :: s.pending.erase q) := List.perm_cons_erase hq
  refine ⟨?_, ?_, ?_, h.idx, h.synced, ?_⟩
  · refine List.Perm.trans ?_ h.ports
    have h3 := (hpe.map (fun x : Pending => x.port)).symm
    simp only [List.map_cons] at h3
    -- (p :: free) ++ R ++ P'  ~  free ++ R ++ (p :: P')
    refine List.Perm.trans ?_ (List.Perm.append_left _ h3)
    show (q.port :: (s.free ++ s.reg.map (·.f.port) ++ (s.pending.erase q).map (fun x : Pending => x.port))).Perm _
    exact List.perm_middle.symm
  · have hsub : (s.regIds ++ (s.pending.erase q).map (·.id)).Sublist (s.regIds ++ s.pendIds) :=
      List.Sublist.append (List.Sublist.refl _) (List.erase_sublist.map _)
    exact hsub.nodup h.ids
  · refine h.dbsig.trans (List.Perm.append_left _ ?_)
    have := written_perm_erase hq
    rw [written_cons_not h1] at this
    exact this.map _
  · intro q2 hq2 hw
    exact h.pendrec q2 (List.mem_of_mem_erase hq2) hw

theorem inv_addBuild {s : State} (h : Inv s) (q : Pending) (ok : Bool) : Inv (addBuild s q ok).1 := by
  unfold addBuild
  by_cases hc : q ∉ s.pending ∨ q.stage ≠ .reserved
  · rw [if_pos hc]; exact h
  rw [if_neg hc]
  simp only [not_or, Classical.not_not] at hc
  have hnw : q.stage ≠ .written := by rw [hc.2]; simp
  cases ok with
  | true => simpa using inv_restage h hc.1 .built hnw (by simp)
  | false => simpa using inv_abort h hc.1 hnw

theorem pend_id_not_db {s : State} (h : Inv s) {q : Pending} (hq : q ∈ s.pending) (hnw : q.stage ≠ .written) :
    q.id ∉ s.dbIds := by
  intro hc
  have := (h.dbIds_perm.mem_iff).1 hc
  rcases List.mem_append.1 this with h1 | h2
  · exact h.disjoint h1 (mem_pendIds hq)
  · obtain ⟨q2, hq2, he⟩ := List.mem_map.1 h2
    have hq2p : q2 ∈ s.pending := (written_sublist _).subset hq2
    have : q2 = q := eq_of_nodup_map (fun x : Pending => x.id) h.pendIds_nodup hq2p hq he
    subst this
    have : q2.stage = .written := by
      have := (List.mem_filter.1 hq2).2
      simpa using this
    exact hnw this

theorem inv_addWrite {s : State} (h : Inv s) (q : Pending) (ok : Bool) : Inv (addWrite s q ok).1 := by
  unfold addWrite
  by_cases hc : q ∉ s.pending ∨ q.stage ≠ .built
  · rw [if_pos hc]; exact h
  rw [if_neg hc]
  simp only [not_or, Classical.not_not] at hc
  have hnw : q.stage ≠ .written := by rw [hc.2]; simp
  cases ok with
  | false => simpa using inv_abort h hc.1 hnw
  | true =>
    simp only [if_true]
    have hq := hc.1
    have hpe : s.pending.Perm (q :: s.pending.erase q) := List.perm_cons_erase hq
    have hdb : dbPut s.db q.id (freshFields q.m q.o q.port) = (q.id, freshFields q.m q.o q.port) :: s.db :=
      dbPut_of_notMem _ _ _ (pend_id_not_db h hq hnw)
    rw [hdb]
    refine ⟨?_, ?_, ?_, h.idx, ?_, ?_⟩
    · refine List.Perm.trans ?_ h.ports
      exact List.Perm.append_left _ (hpe.map (fun x : Pending => x.port)).symm
    · refine List.Perm.nodup ?_ h.ids
      exact List.Perm.append_left _ (hpe.map (fun x : Pending => x.id))
    · show (((q.id, freshFields q.m q.o q.port) :: s.db).map fun e => (e.1, e.2.port)).Perm
        (_ ++ (written ({ q with stage := .written } :: s.pending.erase q)).map _)
      rw [written_cons_yes rfl]
      simp only [List.map_cons]
      refine List.Perm.trans ?_ (List.perm_middle).symm
      refine List.Perm.cons _ ?_
      refine h.dbsig.trans (List.Perm.append_left _ ?_)
      have := written_perm_erase hq
      rw [written_cons_not hnw] at this
      exact this.map _
    · intro t ht
      obtain ⟨r, hr, hd⟩ := h.synced t ht
      exact ⟨r, List.mem_cons_of_mem _ hr, hd⟩
    · intro q2 hq2 hw
      cases hq2 with
      | head => exact List.mem_cons_self
      | tail _ hq2 => exact List.mem_cons_of_mem _ (h.pendrec q2 (List.mem_of_mem_erase hq2) hw)

theorem describes_self_fresh (m : Meta) (o : Opts) (p : Nat) :
    describes (freshFields m o p) (freshFields m o p) = true := by
  rw [describes_iff]
  exact ⟨rfl, fun hc => by simp [freshFields] at hc⟩

theorem inv_addInsert {s : State} (h : Inv s) (q : Pending) : Inv (addInsert s q).1 := by
  unfold addInsert
  by_cases hc : q ∉ s.pending ∨ q.stage ≠ .written
  · rw [if_pos hc]; exact h
  rw [if_neg hc]
  simp only [not_or, Classical.not_not] at hc
  have hq := hc.1
  have hw := hc.2
  have hpe : s.pending.Perm (q :: s.pending.erase q) := List.perm_cons_erase hq
  have hnr : q.id ∉ s.reg.map (·.id) := fun hcc => h.disjoint hcc (mem_pendIds hq)
  dsimp only
  rw [regPut_of_notMem _ _ hnr]
  refine ⟨?_, ?_, ?_, ?_, ?_, ?_⟩
  · refine List.Perm.trans ?_ h.ports
    have h3 := (hpe.map (fun x : Pending => x.port)).symm
    simp only [List.map_cons] at h3
    refine List.Perm.trans ?_ (List.Perm.append_left _ h3)
    simp only [List.map_cons, freshFields, List.append_assoc, List.cons_append]
    refine List.Perm.append_left _ ?_
    exact (List.perm_middle).symm
  · refine List.Perm.nodup ?_ h.ids
    have h3 := (hpe.map (fun x : Pending => x.id))
    simp only [List.map_cons] at h3
    refine (List.Perm.append_left _ h3).trans ?_
    show (s.regIds ++ q.id :: (s.pending.erase q).map (·.id)).Perm (q.id :: s.regIds ++ (s.pending.erase q).map (·.id))
    exact List.perm_middle
  · have h4 := written_perm_erase hq
    rw [written_cons_yes hw] at h4
    refine h.dbsig.trans ?_
    refine (List.Perm.append_left _ (h4.map _)).trans ?_
    simp only [List.map_cons, freshFields]
    exact List.perm_middle
  · refine (List.perm_append_singleton _ _).trans ?_
    simp only [List.map_cons, freshFields]
    exact List.Perm.cons _ h.idx
  · intro t ht
    cases ht with
    | head => exact ⟨_, h.pendrec q hq hw, describes_self_fresh _ _ _⟩
    | tail _ ht => exact h.synced t ht
  · intro q2 hq2 hw2
    exact h.pendrec q2 (List.mem_of_mem_erase hq2) hw2

theorem inv_addSeq {s : State} (h : Inv s) (m : Meta) (o : Opts) (p : Nat) (gen : String) (e : Env) :
    Inv (addSeq s m o p gen e).1 := by
  unfold addSeq
  have h1 := inv_addBegin h m o p gen e.stoFail
  generalize addBegin s m o p gen e.stoFail = r1 at h1
  obtain ⟨s1, res1⟩ := r1
  cases res1 with
  | error _ => exact h1
  | ok q1 =>
    dsimp only at h1 ⊢
    have h2 := inv_addBuild h1 q1 (!e.buildFail)
    generalize addBuild s1 q1 (!e.buildFail) = r2 at h2
    obtain ⟨s2, res2⟩ := r2
    cases res2 with
    | error _ => exact h2
    | ok q2 =>
      dsimp only at h2 ⊢
      have h3 := inv_addWrite h2 q2 (!e.writeFail)
      generalize addWrite s2 q2 (!e.writeFail) = r3 at h3
      obtain ⟨s3, res3⟩ := r3
      cases res3 with
      | error _ => exact h3
      | ok q3 =>
        dsimp only at h3 ⊢
        have h4 := inv_addInsert h3 q3
        generalize addInsert s3 q3 = r4 at h4
        obtain ⟨s4, res4⟩ := r4
        cases res4 with
        | error _ => exact h4
        | ok q4 =>
          dsimp only at h4 ⊢
          split
          · exact h4
          · exact inv_start h4 _

/-! ### Opening a session on a database -/

/-- What holds while `loadExistingTorrents` walks over the remaining records `rest`. -/
structure LoadInv (s : State) (rest : List (String × Fields)) : Prop where
  pend : s.pending = []
  ports : (s.free ++ s.reg.map (·.f.port)).Perm s.range
  ids : (s.regIds ++ rest.map (·.1)).Nodup
  pn : (s.reg.map (·.f.port) ++ rest.map (·.2.port)).Nodup
  inr : ∀ e ∈ rest, e.2.port ∈ s.range
  dbsig : (s.db.map fun e => (e.1, e.2.port)).Perm (s.reg.map (fun t => (t.id, t.f.port)) ++ rest.map (fun e => (e.1, e.2.port)))
  idx : s.idx.Perm (s.reg.map fun t => (t.f.infoHash, t.id))
  synced : ∀ t ∈ s.reg, ∃ r, (t.id, r) ∈ s.db ∧ describes r t.f = true
  sub : ∀ e ∈ rest, e ∈ s.db

theorem describes_load (resume : Bool) (r : Fields) :
    describes r { r with started := resume && r.started } = true := by
  rw [describes_iff]
  refine ⟨rfl, ?_⟩
  intro hc
  simp only [Bool.and_eq_true] at hc
  exact hc.2

theorem loadInv_step {s : State} {e : String × Fields} {rest : List (String × Fields)} (resume : Bool)
    (h : LoadInv s (e :: rest)) : LoadInv (loadOne resume s e) rest := by
  have hnr : e.1 ∉ s.reg.map (·.id) := by
    have := h.ids
    rw [List.map_cons] at this
    have h2 := (List.perm_middle.nodup_iff).1 this
    rw [List.nodup_cons] at h2
    exact fun hc => h2.1 (List.mem_append_left _ hc)
  have hpn := h.pn
  rw [List.map_cons] at hpn
  have hpn2 := (List.perm_middle.nodup_iff).1 hpn
  rw [List.nodup_cons] at hpn2
  have hpr : e.2.port ∈ s.range := h.inr e List.mem_cons_self
  have hpf : e.2.port ∈ s.free := by
    have := (h.ports.mem_iff).2 hpr
    rcases List.mem_append.1 this with h1 | h1
    · exact h1
    · exact absurd (List.mem_append_left _ h1) hpn2.1
  unfold loadOne
  dsimp only
  rw [regPut_of_notMem _ _ hnr]
  refine ⟨h.pend, ?_, ?_, ?_, ?_, ?_, ?_, ?_, ?_⟩
  · refine List.Perm.trans ?_ h.ports
    simp only [List.map_cons]
    refine List.perm_middle.trans ?_
    exact ((List.perm_cons_erase hpf).symm.append_right _)
  · have := h.ids
    rw [List.map_cons] at this
    exact (List.perm_middle.nodup_iff).1 this |> fun x => by simpa [State.regIds] using x
  · simpa using hpn2 |> fun x => (List.nodup_cons.2 x)
  · intro e' he'; exact h.inr e' (List.mem_cons_of_mem _ he')
  · refine h.dbsig.trans ?_
    simp only [List.map_cons]
    exact List.perm_middle
  · refine (List.perm_append_singleton _ _).trans ?_
    simp only [List.map_cons]
    exact List.Perm.cons _ h.idx
  · intro t ht
    cases ht with
    | head => exact ⟨e.2, h.sub e List.mem_cons_self, describes_load resume e.2⟩
    | tail _ ht => exact h.synced t ht
  · intro e' he'; exact h.sub e' (List.mem_cons_of_mem _ he')

theorem loadInv_foldl (resume : Bool) : ∀ (rest : List (String × Fields)) (s : State), LoadInv s rest →
    Inv (rest.foldl (loadOne resume) s)
  | [], s, h => by
    refine ⟨?_, ?_, ?_, h.idx, h.synced, ?_⟩
    · simpa [h.pend] using h.ports
    · simpa [State.pendIds, h.pend] using h.ids
    · simpa [written, h.pend] using h.dbsig
    · intro q hq
      have hq : q ∈ s.pending := hq
      rw [h.pend] at hq; cases hq
  | e :: rest, s, h => by
    rw [List.foldl_cons]
    exact loadInv_foldl resume rest _ (loadInv_step resume h)

theorem openOn_inv (lo hi : Nat) (resume : Bool) (db : List (String × Fields))
    (hk : (db.map (·.1)).Nodup) (hp : (db.map (·.2.port)).Nodup)
    (hr : ∀ e ∈ db, e.2.port ∈ List.range' lo (hi - lo)) : Inv (openOn lo hi resume db) := by
  unfold openOn
  apply loadInv_foldl
  refine ⟨rfl, ?_, ?_, ?_, ?_, ?_, ?_, ?_, ?_⟩
  · simp [init, State.range]
  · simpa [init, State.regIds] using hk
  · simpa [init] using hp
  · exact hr
  · simp [init]
  · simp [init]
  · intro t ht; simp [init] at ht
  · intro e he; exact he

/-- The registry a session has after loading `rest` (no record of `rest` is registered yet). -/
theorem foldl_load_state (resume : Bool) : ∀ (rest : List (String × Fields)) (s : State),
    (s.regIds ++ rest.map (·.1)).Nodup →
    (rest.foldl (loadOne resume) s).reg =
        (rest.map fun e => (⟨e.1, { e.2 with started := resume && e.2.started }⟩ : Torrent)).reverse ++ s.reg ∧
      (rest.foldl (loadOne resume) s).db = s.db ∧ (rest.foldl (loadOne resume) s).lo = s.lo ∧
      (rest.foldl (loadOne resume) s).hi = s.hi ∧ (rest.foldl (loadOne resume) s).pending = s.pending
  | [], s, _ => by simp
  | e :: rest, s, h => by
    rw [List.foldl_cons]
    have hnr : e.1 ∉ s.reg.map (·.id) := by
      rw [List.map_cons] at h
      have h2 := (List.perm_middle.nodup_iff).1 h
      rw [List.nodup_cons] at h2
      exact fun hc => h2.1 (List.mem_append_left _ hc)
    have hs : (loadOne resume s e).reg = ⟨e.1, { e.2 with started := resume && e.2.started }⟩ :: s.reg := by
      unfold loadOne; dsimp only; exact regPut_of_notMem _ _ hnr
    have hn' : ((loadOne resume s e).regIds ++ rest.map (·.1)).Nodup := by
      rw [List.map_cons] at h
      have h2 := (List.perm_middle.nodup_iff).1 h
      simpa [State.regIds, hs] using h2
    obtain ⟨h1, h2, h3, h4, h5⟩ := foldl_load_state resume rest (loadOne resume s e) hn'
    refine ⟨?_, ?_, ?_, ?_, ?_⟩
    · rw [h1, hs]; simp
    · rw [h2]; rfl
    · rw [h3]; rfl
    · rw [h4]; rfl
    · rw [h5]; rfl

theorem Inv.regPorts_nodup {s : State} (h : Inv s) : (s.reg.map (·.f.port)).Nodup := by
  have hn : s.range.Nodup := List.nodup_range' (step := 1)
  have := (h.ports.nodup_iff).2 hn
  exact (List.nodup_append.1 (List.nodup_append.1 this).1).2.1

theorem Inv.regPort_mem_range {s : State} (h : Inv s) {t : Torrent} (ht : t ∈ s.reg) : t.f.port ∈ s.range := by
  apply (h.ports.mem_iff).1
  exact List.mem_append_left _ (List.mem_append_right _ (List.mem_map_of_mem (f := (·.f.port)) ht))

/-- `Inv` does not speak about the records that did not load. -/
theorem inv_with_dead {s : State} (h : Inv s) (d : List (String × Fields)) (i : List String) :
    Inv { s with dead := d, invalid := i } :=
  ⟨h.ports, h.ids, h.dbsig, h.idx, h.synced, h.pendrec⟩

theorem filter_eq_nil_of_all {α : Type} {l : List α} {p : α → Bool} (h : ∀ a ∈ l, p a = false) : l.filter p = [] := by
  apply List.filter_eq_nil_iff.2
  intro a ha; simp [h a ha]

/-- The records a restart loads when every record that failed before fails again: the good ones of `db`. -/
theorem reopen_good {s : State} (bad : List String) (hb : ∀ e ∈ s.dead, e.1 ∈ bad) :
    ((updateStats s).db ++ s.dead).filter (fun e => !bad.contains e.1) =
      (updateStats s).db.filter (fun e => !bad.contains e.1) := by
  rw [List.filter_append, filter_eq_nil_of_all (l := s.dead), List.append_nil]
  intro e he
  simp [hb e he]

theorem inv_reopen {s : State} (h : Inv s) (resume : Bool) (bad : List String) (hb : ∀ e ∈ s.dead, e.1 ∈ bad) :
    Inv (reopen s resume bad) := by
  unfold reopen
  by_cases hp : s.pending ≠ []
  · rw [if_pos hp]; exact h
  rw [if_neg hp]
  have hp : s.pending = [] := Classical.not_not.1 hp
  have h2 := inv_updateStats h
  have hp2 : (updateStats s).pending = [] := hp
  have hsig := h2.dbsig
  rw [hp2] at hsig
  simp only [written, List.filter_nil, List.map_nil, List.append_nil] at hsig
  have hports : ((updateStats s).db.map (·.2.port)).Perm ((updateStats s).reg.map (·.f.port)) := by
    have := hsig.map Prod.snd
    simpa [List.map_map, Function.comp_def] using this
  dsimp only
  apply inv_with_dead
  rw [reopen_good bad hb]
  have hsub : ((updateStats s).db.filter (fun e => !bad.contains e.1)).Sublist (updateStats s).db := List.filter_sublist
  apply openOn_inv
  · exact (hsub.map _).nodup h2.dbIds_nodup
  · exact (hsub.map _).nodup ((hports.nodup_iff).2 h2.regPorts_nodup)
  · intro e he
    have he := hsub.subset he
    have : e.2.port ∈ (updateStats s).reg.map (·.f.port) :=
      (hports.mem_iff).1 (List.mem_map_of_mem (f := (·.2.port)) he)
    obtain ⟨t, ht, hte⟩ := List.mem_map.1 this
    have := h2.regPort_mem_range ht
    rw [hte] at this
    exact this

/-- `CleanDatabase` when no invalid id names a record of a registered torrent or of an add in flight:
only records that did not load are deleted. -/
theorem inv_clean {s : State} (h : Inv s) (hf : ∀ id ∈ s.invalid, id ∉ s.dbIds) : Inv (clean s).1 := by
  unfold clean
  split
  · have : s.db.filter (fun e => !s.invalid.contains e.1) = s.db := by
      apply List.filter_eq_self.2
      intro e he
      have : e.1 ∉ s.invalid := fun hc => hf e.1 hc (List.mem_map_of_mem (f := (·.1)) he)
      simpa using this
    dsimp only
    rw [this]
    exact ⟨h.ports, h.ids, h.dbsig, h.idx, h.synced, h.pendrec⟩
  · exact h

theorem inv_tamper {s : State} (h : Inv s) (id ih : String) : Inv (tamper s id ih) :=
  ⟨h.ports, h.ids, h.dbsig, h.idx, h.synced, h.pendrec⟩

theorem compact_some {s : State} {c : List (String × Fields)} (hc : compact s = some c) :
    c = (s.reg.filter (·.f.hasInfo)).map fun t => (t.id, compactRec t ((dbGet s.db t.id).getD t.f)) := by
  unfold compact at hc
  dsimp only at hc
  split at hc
  · exact (Option.some.inj hc).symm
  · cases hc

theorem inv_compactSwap {s : State} (h : Inv s) (resume : Bool) : Inv (compactSwap s resume) := by
  unfold compactSwap
  by_cases hp : s.pending ≠ []
  · rw [if_pos hp]; exact h
  rw [if_neg hp]
  cases hc : compact s with
  | none => exact h
  | some c =>
    dsimp only
    have hcs := compact_some hc
    apply openOn_inv
    · rw [hcs, List.map_map]
      have : (s.reg.filter (·.f.hasInfo)).map ((fun e : String × Fields => e.1) ∘ fun t =>
          (t.id, compactRec t ((dbGet s.db t.id).getD t.f))) = (s.reg.filter (·.f.hasInfo)).map (·.id) := rfl
      rw [this]
      exact ((List.filter_sublist).map _).nodup h.regIds_nodup
    · rw [hcs, List.map_map]
      have : (s.reg.filter (·.f.hasInfo)).map ((fun e : String × Fields => e.2.port) ∘ fun t =>
          (t.id, compactRec t ((dbGet s.db t.id).getD t.f))) = (s.reg.filter (·.f.hasInfo)).map (·.f.port) := rfl
      rw [this]
      exact ((List.filter_sublist).map _).nodup h.regPorts_nodup
    · intro e he
      rw [hcs] at he
      obtain ⟨t, ht, rfl⟩ := List.mem_map.1 he
      exact h.regPort_mem_range (List.mem_filter.1 ht).1

end Rain.Registry
