import RainModel.Model.Adopt
import RainModel.Lemmas.InfoDownloader
/-! Helper lemmas for `adopt_only_if_hash` and `size_cap` (C13). -/
namespace Rain.Adopt
open Rain.InfoDL

set_option linter.unusedSectionVars false
variable {Hash : Type} [DecidableEq Hash]

/-- The announced size passes the cap and the peer supports `ut_metadata`. -/
def GoodHs (env : Env Hash) (h : Handshake) : Prop :=
  0 < h.msize ∧ h.msize ≤ env.maxSize ∧ h.hasMeta = true

/-- A metadata request that is justified against the peer table `peers`. -/
def ReqOk (env : Env Hash) (peers : List Peer) (o : Out) : Prop :=
  ∀ p i, o = Out.request p i →
    ∃ pe ∈ peers, pe.id = p ∧ ∃ h, pe.hs = some h ∧ GoodHs env h ∧ i < numBlocks blockSize (peerMetadataSize h)

structure Inv (env : Env Hash) (s : State) : Prop where
  nodup : (s.peers.map (·.id)).Nodup
  nonneg : ∀ pe ∈ s.peers, ∀ h, pe.hs = some h → 0 ≤ h.msize
  dls : ∀ e ∈ s.dls, ∃ pe ∈ s.peers, pe.id = e.1 ∧ ∃ h, pe.hs = some h ∧ GoodHs env h ∧
          WF blockSize (peerMetadataSize h) e.2
  hash : ∀ b, s.info = some b → env.H b = env.infoHash ∧ env.parseInfo b = some false
  nopanic : s.panicked = false

theorem blockSize_pos : 0 < blockSize := by decide

/-- Whenever the decision sets `t.info` (adoption, or the resume-write error path) the bytes hash
to the info-hash and parsed as a non-private info. -/
theorem decide_info (env : Env Hash) (bytes : Bytes)
    (h : decide_ env bytes = .adopt ∨ ∃ r, decide_ env bytes = .stop r true) :
    env.H bytes = env.infoHash ∧ env.parseInfo bytes = some false := by
  unfold decide_ at h
  by_cases hH : env.H bytes = env.infoHash
  · refine ⟨hH, ?_⟩
    simp only [hH, ne_eq, not_true_eq_false, ↓reduceIte] at h
    cases hp : env.parseInfo bytes with
    | none => simp [hp] at h
    | some pv => cases pv <;> simp_all
  · simp [hH] at h

theorem inv_init (env : Env Hash) : Inv env State.init :=
  ⟨by simp [State.init], by simp [State.init], by simp [State.init], by simp [State.init], rfl⟩

theorem eq_of_id_eq {l : List Peer} (nd : (l.map (·.id)).Nodup) {a b : Peer} (ha : a ∈ l) (hb : b ∈ l)
    (h : a.id = b.id) : a = b := by
  induction l with
  | nil => cases ha
  | cons x xs ih =>
    simp only [List.map_cons, List.nodup_cons, List.mem_map, not_exists, not_and] at nd
    rcases List.mem_cons.1 ha with rfl | ha'
    · rcases List.mem_cons.1 hb with rfl | hb'
      · rfl
      · exact absurd h.symm (nd.1 b hb')
    · rcases List.mem_cons.1 hb with rfl | hb'
      · exact absurd h (nd.1 a ha')
      · exact ih nd.2 ha' hb'

theorem requestBlocks_sent_lt {bs sz : Nat} {d : ID} (h : WF bs sz d) (q : Int) :
    ∀ i ∈ (requestBlocks d q).2, i < numBlocks bs sz := by
  obtain ⟨w, _, hnx, hs, _, _⟩ := requestBlocks_spec h q
  intro i hi
  rw [hs, List.mem_range'_1] at hi
  have := w.next_le
  omega

theorem nextInfoDownload_spec (env : Env Hash) (s : State) (pick : Option PeerId) (pe : Peer)
    (h : nextInfoDownload env s pick = some pe) : pe ∈ s.peers ∧ eligible env s pe = true := by
  unfold nextInfoDownload at h
  have key : ∀ x, x ∈ s.peers.filter (eligible env s) → x ∈ s.peers ∧ eligible env s x = true := by
    intro x hx; exact List.mem_filter.1 hx
  dsimp only at h
  split at h
  · rename_i p hp
    cases h
    cases pick with
    | none => simp at hp
    | some id =>
      simp only [Option.bind_some] at hp
      exact key _ (List.mem_of_find?_eq_some hp)
  · exact key _ (List.mem_of_mem_head? h)

theorem eligible_good (env : Env Hash) (s : State) (pe : Peer) (hne : ∀ h, pe.hs = some h → 0 ≤ h.msize)
    (he : eligible env s pe = true) :
    (s.dls.any (·.1 == pe.id)) = false ∧ ∃ h, pe.hs = some h ∧ GoodHs env h := by
  unfold eligible at he
  cases hh : pe.hs with
  | none => simp [hh] at he
  | some h =>
    simp only [hh, Bool.and_eq_true, Bool.not_eq_eq_eq_not, Bool.not_true, bne_iff_ne, ne_eq,
      decide_eq_false_iff_not, Int.not_lt] at he
    have := hne h hh
    refine ⟨he.1, h, rfl, ?_, he.2.1.2, he.2.2⟩
    have := he.2.1.1
    omega

/-- `startInfoDownloaders`' loop: peers, info and stop flag untouched, invariant kept, every
request justified. -/
theorem startLoop_spec (env : Env Hash) :
    ∀ (fuel : Nat) (s : State) (picks : List PeerId) (outs : List Out),
      Inv env s → (∀ o ∈ outs, ReqOk env s.peers o) →
      let r := startLoop env fuel s picks outs
      Inv env r.1 ∧ r.1.peers = s.peers ∧ r.1.info = s.info ∧ (∀ o ∈ r.2, ReqOk env s.peers o) := by
  intro fuel
  induction fuel with
  | zero => intro s picks outs hI ho; exact ⟨hI, rfl, rfl, ho⟩
  | succ fuel ih =>
    intro s picks outs hI ho
    simp only [startLoop]
    split
    · split
      · exact ⟨hI, rfl, rfl, ho⟩
      · rename_i pe hpe
        obtain ⟨hmem, hel⟩ := nextInfoDownload_spec env s _ pe hpe
        obtain ⟨_, h, hh, hg⟩ := eligible_good env s pe (hI.nonneg pe hmem) hel
        simp only [hh]
        have hwf : WF blockSize (peerMetadataSize h) (new (peerMetadataSize h)) := wf_new blockSize_pos
        obtain ⟨w, _, _, _, _, _⟩ := requestBlocks_spec hwf (env.queue pe.id)
        have hsent := requestBlocks_sent_lt hwf (env.queue pe.id)
        have hI' : Inv env { s with dls := s.dls ++ [(pe.id, (requestBlocks (new (peerMetadataSize h)) (env.queue pe.id)).1)] } := by
          refine ⟨hI.nodup, hI.nonneg, ?_, hI.hash, hI.nopanic⟩
          intro e he
          rcases List.mem_append.1 he with he | he
          · exact hI.dls e he
          · simp only [List.mem_singleton] at he
            subst he
            exact ⟨pe, hmem, rfl, h, hh, hg, w⟩
        have := ih { s with dls := s.dls ++ [(pe.id, (requestBlocks (new (peerMetadataSize h)) (env.queue pe.id)).1)] }
          picks.tail (outs ++ (requestBlocks (new (peerMetadataSize h)) (env.queue pe.id)).2.map (Out.request pe.id)) hI' (by
            intro o hmo
            rcases List.mem_append.1 hmo with h1 | h1
            · exact ho o h1
            · obtain ⟨i, hi, rfl⟩ := List.mem_map.1 h1
              intro p j e
              cases e
              exact ⟨pe, hmem, rfl, h, hh, hg, hsent _ hi⟩)
        exact this
    · exact ⟨hI, rfl, rfl, ho⟩

theorem startInfoDownloaders_spec (env : Env Hash) (s : State) (picks : List PeerId) (hI : Inv env s) :
    let r := startInfoDownloaders env s picks
    Inv env r.1 ∧ r.1.peers = s.peers ∧ r.1.info = s.info ∧ (∀ o ∈ r.2, ReqOk env s.peers o) := by
  unfold startInfoDownloaders
  split
  · exact ⟨hI, rfl, rfl, by simp⟩
  · exact startLoop_spec env _ s picks [] hI (by simp)

theorem inv_closePeer (env : Env Hash) (s : State) (p : PeerId) (hI : Inv env s) : Inv env (closePeer s p) := by
  refine ⟨?_, ?_, ?_, hI.hash, hI.nopanic⟩
  · exact hI.nodup.sublist ((List.filter_sublist).map _)
  · intro pe hpe; exact hI.nonneg pe (List.mem_filter.1 hpe).1
  · intro e he
    have he' := List.mem_filter.1 he
    obtain ⟨pe, hpe, hid, rest⟩ := hI.dls e he'.1
    refine ⟨pe, List.mem_filter.2 ⟨hpe, ?_⟩, hid, rest⟩
    rw [hid]; exact he'.2

theorem start_after (env : Env Hash) (s : State) (picks : List PeerId) (hI : Inv env s) :
    Inv env (startInfoDownloaders env s picks).1 ∧
    ∀ o ∈ (startInfoDownloaders env s picks).2, ReqOk env (startInfoDownloaders env s picks).1.peers o := by
  have r := startInfoDownloaders_spec env s picks hI
  refine ⟨r.1, fun o ho => ?_⟩
  rw [r.2.1]; exact r.2.2.2 o ho

theorem start_after_close (env : Env Hash) (s : State) (p : PeerId) (picks : List PeerId) (hI : Inv env s) :
    Inv env (startInfoDownloaders env s picks).1 ∧
    ∀ o ∈ Out.closePeer p :: (startInfoDownloaders env s picks).2,
      ReqOk env (startInfoDownloaders env s picks).1.peers o := by
  have r := start_after env s picks hI
  refine ⟨r.1, fun o ho => ?_⟩
  rcases List.mem_cons.1 ho with rfl | ho
  · intro p i e; cases e
  · exact r.2 o ho

theorem mem_setDl {dls : List (PeerId × ID)} {p : PeerId} {id : ID} {e : PeerId × ID} (h : e ∈ setDl dls p id) :
    (e = (p, id) ∧ ∃ e' ∈ dls, e'.1 = p) ∨ (e ∈ dls ∧ e.1 ≠ p) := by
  unfold setDl at h
  obtain ⟨e', he', rfl⟩ := List.mem_map.1 h
  by_cases hp : e'.1 = p
  · exact Or.inl ⟨by simp [hp], e', he', hp⟩
  · exact Or.inr ⟨by simpa [hp] using he', by simp [hp]⟩

/-- One event: the invariant is kept and every request sent is justified against the peer table
*after* the event. -/
theorem step_spec (env : Env Hash) (s : State) (e : Event) (hI : Inv env s) :
    Inv env (step env s e).1 ∧ ∀ o ∈ (step env s e).2, ReqOk env (step env s e).1.peers o := by
  cases e with
  | connect p =>
    simp only [step]
    split
    · exact ⟨hI, by simp⟩
    · rename_i hnot
      refine ⟨⟨?_, ?_, ?_, hI.hash, hI.nopanic⟩, by simp⟩
      · simp only [List.map_append, List.map_cons, List.map_nil]
        rw [List.nodup_append]
        refine ⟨hI.nodup, by simp, ?_⟩
        intro a ha b hb
        simp only [List.mem_singleton] at hb
        subst hb
        intro hab
        subst hab
        obtain ⟨pe, hpe, rfl⟩ := List.mem_map.1 ha
        apply hnot
        simp only [List.any_eq_true, beq_iff_eq]
        exact ⟨pe, hpe, rfl⟩
      · intro pe hpe h hh
        rcases List.mem_append.1 hpe with h1 | h1
        · exact hI.nonneg pe h1 h hh
        · simp only [List.mem_singleton] at h1; subst h1; cases hh
      · intro e he
        obtain ⟨pe, hpe, rest⟩ := hI.dls e he
        exact ⟨pe, List.mem_append_left _ hpe, rest⟩
  | handshake p raw hasMeta picks =>
    simp only [step]
    split
    · exact ⟨hI, by simp⟩
    · rename_i pe0 hfind
      have hpe0 := List.mem_of_find?_eq_some hfind
      have hid0 : pe0.id = p := by simpa using List.find?_some hfind
      split
      · exact ⟨hI, by simp⟩
      · rename_i hnone
        have hnone : pe0.hs = none := by simpa using hnone
        have hI1 : Inv env { s with peers := s.peers.map fun x => if x.id == p then ⟨p, some ⟨clampSize raw, hasMeta⟩⟩ else x } := by
          refine ⟨?_, ?_, ?_, hI.hash, hI.nopanic⟩
          · have : (s.peers.map fun x => if x.id == p then (⟨p, some ⟨clampSize raw, hasMeta⟩⟩ : Peer) else x).map (·.id) = s.peers.map (·.id) := by
              rw [List.map_map]
              apply List.map_congr_left
              intro x _
              by_cases hx : x.id = p <;> simp [hx]
            simp only [this]; exact hI.nodup
          · intro pe hpe h hh
            obtain ⟨x, hx, rfl⟩ := List.mem_map.1 hpe
            by_cases hxp : x.id = p
            · simp only [hxp, beq_self_eq_true, ↓reduceIte, Option.some.injEq] at hh
              subst hh
              simp only [clampSize]; split <;> omega
            · simp only [beq_iff_eq, hxp, ↓reduceIte] at hh
              exact hI.nonneg x hx h hh
          · intro e he
            obtain ⟨pe, hpe, hid, h, hh, rest⟩ := hI.dls e he
            have hne : pe.id ≠ p := by
              intro heq
              have := eq_of_id_eq hI.nodup hpe hpe0 (heq.trans hid0.symm)
              subst this
              rw [hnone] at hh; cases hh
            refine ⟨pe, ?_, hid, h, hh, rest⟩
            apply List.mem_map.2
            exact ⟨pe, hpe, by simp [hne]⟩
        split
        · exact start_after env _ picks hI1
        · exact ⟨hI1, by simp⟩
  | data p index data picks =>
    simp only [step]
    split
    · exact ⟨hI, by simp⟩
    · rename_i x id hfind
      have hmem := List.mem_of_find?_eq_some hfind
      have hxp : x = p := by simpa using List.find?_some hfind
      subst hxp
      obtain ⟨pe, hpe, hid, h, hh, hg, hwf⟩ := hI.dls _ hmem
      simp only at hid hwf
      have hI2 := inv_closePeer env s x hI
      split
      · -- panic: unreachable on a well-formed downloader
        rename_i hgot
        exfalso
        have hs := gotBlock_spec blockSize_pos hwf index data
        rw [hgot] at hs
        repeat' split at hs
        all_goals cases hs
      · -- error: close + restart
        exact start_after_close env _ x picks hI2
      · rename_i id1 hgot
        have hwf1 : WF blockSize (peerMetadataSize h) id1 := by
          have := wf_gotBlock blockSize_pos hwf index data
          rw [hgot] at this; exact this
        split
        · -- not done: request more
          obtain ⟨w2, _, _, _, _, _⟩ := requestBlocks_spec hwf1 (env.queue x)
          have hsent := requestBlocks_sent_lt hwf1 (env.queue x)
          refine ⟨⟨hI.nodup, hI.nonneg, ?_, hI.hash, hI.nopanic⟩, ?_⟩
          · intro e he
            rcases mem_setDl he with ⟨rfl, _⟩ | ⟨he', _⟩
            · exact ⟨pe, hpe, hid, h, hh, hg, w2⟩
            · exact hI.dls e he'
          · intro o ho
            obtain ⟨i, hi, rfl⟩ := List.mem_map.1 ho
            intro p' j e
            cases e
            exact ⟨pe, hpe, hid, h, hh, hg, hsent _ hi⟩
        · -- done: the decision
          split
          · -- hash mismatch
            exact start_after_close env _ x picks hI2
          · -- stop
            rename_i r infoSet hdec
            refine ⟨⟨hI.nodup, hI.nonneg, by simp, ?_, hI.nopanic⟩, by simp⟩
            intro b hb
            simp only at hb
            split at hb
            · cases hb
              rename_i hset
              have : infoSet = true := hset
              subst this
              exact decide_info env _ (Or.inr ⟨r, hdec⟩)
            · exact hI.hash b hb
          · -- adopt
            rename_i hdec
            refine ⟨⟨hI.nodup, hI.nonneg, by simp, ?_, hI.nopanic⟩, by simp⟩
            intro b hb
            simp only [Option.some.injEq] at hb
            subst hb
            exact decide_info env _ (Or.inl hdec)
  | reject p picks =>
    simp only [step]
    split
    · exact start_after_close env _ p picks (inv_closePeer env s p hI)
    · exact ⟨hI, by simp⟩
  | snub p picks =>
    simp only [step]
    split
    · have hI1 : Inv env { s with snubbed := if s.snubbed.contains p then s.snubbed else s.snubbed ++ [p] } :=
        ⟨hI.nodup, hI.nonneg, hI.dls, hI.hash, hI.nopanic⟩
      exact start_after env _ picks hI1
    · exact ⟨hI, by simp⟩
  | disconnect p =>
    exact ⟨inv_closePeer env s p hI, by simp [step]⟩

theorem inv_run (env : Env Hash) (es : List Event) : ∀ (s : State), Inv env s → Inv env (run env s es) := by
  induction es with
  | nil => intro s h; exact h
  | cons e es ih => intro s h; exact ih _ (step_spec env s e h).1

end Rain.Adopt
