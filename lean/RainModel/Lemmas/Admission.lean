import RainModel.Model.Admission
import RainModel.Lemmas.AddrList
/-!
Helper lemmas for `Model/Admission`: the loop of `dialAddresses`.
-/
namespace Rain.Admission
open Rain.AddrList

/-- `Good` of `Props/C18` restated here for the queue inside the admission state. -/
structure QGood (max : Nat) (q : St) : Prop where
  inv : Inv q
  counts : Counts q (fun _ => 0)
  bound : q.tree.length ≤ max

theorem pop_qgood {max : Nat} {q : St} (hg : QGood max q) :
    ∃ r q', pop q = .ok (r, q') ∧ QGood max q' ∧
      (r = none → q' = q) ∧
      (∀ p, r = some p → p ∈ q.entries ∧ (∀ x ∈ q'.entries, x ∈ q.entries) ∧ q'.len + 1 = q.len) := by
  obtain ⟨r, q', h, hI, hC, hn, hs⟩ := pop_spec q hg.inv hg.counts
  refine ⟨r, q', h, ?_, fun e => (hn e).2, ?_⟩
  · cases r with
    | none => rw [(hn rfl).2]; exact hg
    | some p =>
      have := (hs p rfl).2.2.2
      exact ⟨hI, hC, by have := hg.bound; omega⟩
  · intro p hp
    obtain ⟨h1, _, h3, h4⟩ := hs p hp
    exact ⟨h1, fun x hx => ((h3 x).1 hx).1, h4⟩

/-- What one run of the dial loop guarantees about the addresses it dials (`new`). -/
theorem dialLoop_spec (cfg : Cfg) (blocked : Nat → Bool) (max : Nat) :
    ∀ (fuel : Nat) (s : State) (d : List Addr), QGood max s.queue → s.queue.len < fuel →
    ∃ s' new, dialLoop cfg blocked fuel s d = .ok (s', d ++ new) ∧ QGood max s'.queue ∧
      s'.banned = s.banned ∧
      (∀ x, x ∈ s'.connected ↔ x ∈ s.connected ∨ x ∈ new.map (·.1)) ∧
      s'.outgoing = s.outgoing ++ new ∧
      (∀ a ∈ new, (∃ q ∈ s.queue.entries, q.ip = a.1 ∧ q.port = a.2) ∧ a.1 ∉ s.connected ∧
        (cfg.checkBan = true → a.1 ∉ s.banned) ∧
        (cfg.recheckBlocklist = true → cfg.blOutgoing = true → blocked a.1 = false)) ∧
      (new.map (·.1)).Nodup ∧
      (∀ q ∈ s'.queue.entries, q ∈ s.queue.entries) ∧
      (s.outgoing.length ≤ cfg.maxPeerDial → s'.outgoing.length ≤ cfg.maxPeerDial) := by
  intro fuel
  induction fuel with
  | zero => intro s d _ h; omega
  | succ f ih =>
    intro s d hg hf
    unfold dialLoop
    by_cases hcap : s.outgoing.length < cfg.maxPeerDial
    · rw [if_pos hcap]
      obtain ⟨r, q', hp, hg', hn, hs⟩ := pop_qgood hg
      rw [hp]
      cases r with
      | none =>
        refine ⟨{ s with queue := q', needMore := true }, [], by simp, hg', rfl, by simp, by simp,
          by simp, by simp, ?_, fun h => h⟩
        intro q hq; rw [hn rfl] at hq; exact hq
      | some a =>
        obtain ⟨ha, hsub, hlen⟩ := hs a rfl
        have hf' : q'.len < f := by omega
        simp only
        -- the three `continue` branches share this continuation
        have skip : ∃ s' new, dialLoop cfg blocked f { s with queue := q' } d = .ok (s', d ++ new) ∧
            QGood max s'.queue ∧ s'.banned = s.banned ∧
            (∀ x, x ∈ s'.connected ↔ x ∈ s.connected ∨ x ∈ new.map (·.1)) ∧
            s'.outgoing = s.outgoing ++ new ∧
            (∀ a ∈ new, (∃ q ∈ s.queue.entries, q.ip = a.1 ∧ q.port = a.2) ∧ a.1 ∉ s.connected ∧
              (cfg.checkBan = true → a.1 ∉ s.banned) ∧
              (cfg.recheckBlocklist = true → cfg.blOutgoing = true → blocked a.1 = false)) ∧
            (new.map (·.1)).Nodup ∧
            (∀ q ∈ s'.queue.entries, q ∈ s.queue.entries) ∧
            (s.outgoing.length ≤ cfg.maxPeerDial → s'.outgoing.length ≤ cfg.maxPeerDial) := by
          obtain ⟨s', new, h1, h2, h3, h4, h5, h6, h7, h8, h9⟩ := ih { s with queue := q' } d hg' hf'
          refine ⟨s', new, h1, h2, h3, h4, h5, ?_, h7, fun q hq => hsub q (h8 q hq), h9⟩
          intro b hb
          obtain ⟨⟨q, hq, e⟩, r2, r3, r4⟩ := h6 b hb
          exact ⟨⟨q, hsub q hq, e⟩, r2, r3, r4⟩
        by_cases hc : s.connected.contains a.ip = true
        · rw [if_pos hc]; exact skip
        · rw [if_neg hc]
          by_cases hb : (cfg.checkBan && s.banned.contains a.ip) = true
          · rw [if_pos hb]; exact skip
          · rw [if_neg hb]
            by_cases hbl : (cfg.recheckBlocklist && cfg.blOutgoing && blocked a.ip) = true
            · rw [if_pos hbl]; exact skip
            · rw [if_neg hbl]
              have hc' : a.ip ∉ s.connected := by simpa using hc
              obtain ⟨s', new, h1, h2, h3, h4, h5, h6, h7, h8, h9⟩ :=
                ih { s with queue := q', outgoing := s.outgoing ++ [(a.ip, a.port)],
                            connected := a.ip :: s.connected } (d ++ [(a.ip, a.port)]) hg' hf'
              refine ⟨s', (a.ip, a.port) :: new, ?_, h2, h3, ?_, ?_, ?_, ?_, fun q hq => hsub q (h8 q hq), ?_⟩
              · rw [h1]; simp
              · intro x
                rw [h4 x]
                simp only [List.mem_cons, List.map_cons]
                constructor
                · rintro ((h | h) | h)
                  · exact Or.inr (Or.inl h)
                  · exact Or.inl h
                  · exact Or.inr (Or.inr h)
                · rintro (h | h | h)
                  · exact Or.inl (Or.inr h)
                  · exact Or.inl (Or.inl h)
                  · exact Or.inr h
              · rw [h5]; simp
              · intro b hb'
                rcases List.mem_cons.1 hb' with rfl | hb'
                · refine ⟨⟨a, ha, rfl, rfl⟩, hc', ?_, ?_⟩
                  · intro hcb hmem
                    apply hb
                    simp [hcb, hmem]
                  · intro h1' h2'
                    cases hbb : blocked a.ip with
                    | false => rfl
                    | true => exfalso; apply hbl; simp [h1', h2', hbb]
                · obtain ⟨⟨q, hq, e⟩, r2, r3, r4⟩ := h6 b hb'
                  refine ⟨⟨q, hsub q hq, e⟩, ?_, r3, r4⟩
                  intro hm; exact r2 (List.mem_cons_of_mem _ hm)
              · simp only [List.map_cons]
                refine List.nodup_cons.2 ⟨?_, h7⟩
                intro hm
                obtain ⟨b, hb', e⟩ := List.mem_map.1 hm
                have := (h6 b hb').2.1
                apply this
                rw [e]; simp
              · intro _
                apply h9
                simp; omega
    · rw [if_neg hcap]
      exact ⟨s, [], by simp, hg, rfl, by simp, by simp, by simp, by simp, fun q hq => hq, fun h => h⟩

end Rain.Admission
