import RainModel.Lemmas.LoopSound
/-!
External changes of the files (`mutate`): what survives them.
-/
namespace Rain.Loop

theorem mem_dataSects (c : Cfg) (x : Nat × Nat) (h : x ∈ c.dataSects) :
    ∃ sc ∈ c.sections x.1, sc.file = x.2 ∧ c.isData sc = true := by
  unfold Cfg.dataSects at h
  simp only [List.mem_flatMap, List.mem_range, List.mem_map, List.mem_filter] at h
  obtain ⟨i, _, sc, ⟨hsc, hd⟩, rfl⟩ := h
  exact ⟨sc, hsc, rfl, by simpa [Cfg.isData] using hd⟩

theorem getD_set (l : List Bool) (f g : Nat) (v : Bool) :
    (l.set f v).getD g false = if g = f ∧ g < l.length then v else l.getD g false :=
  getD_setAt l f g v

/-- One file of `mutate`. -/
def mutateOne (s : St) (how : Mut) (f : Nat) : St :=
  match how with
  | .delete =>
    { s with fileExists := s.fileExists.set f false,
             bad := (s.bad.filter fun b => b.2 ≠ f) ++ (s.cfg.dataSects.filter fun b => b.2 = f) }
  | .corrupt off =>
    if !(s.fileExists.getD f false) || off ≥ s.cfg.flens.getD f 0 then s else
    let hit := (List.range s.n).filter fun i =>
      (s.cfg.sections i).any fun sc => sc.file = f && sc.off ≤ off && off < sc.off + sc.len
    { s with bad := s.bad ++ (hit.map fun i => (i, f)).filter (fun b => !(s.bad.contains b)), tainted := true }
  | .fill =>
    { s with fileExists := s.fileExists.set f true, bad := s.bad.filter fun b => b.2 ≠ f }

theorem mutate_eq (s : St) (file : Option Nat) (how : Mut) :
    mutate s file how =
      ((List.range s.cfg.flens.length).filter fun f =>
        s.known.getD f false && !(s.cfg.fpads.getD f false) && (match file with | some x => x = f | none => true)).foldl
        (fun s f => mutateOne s how f) s := by
  cases how <;> rfl

@[simp] theorem mutateOne_cfg (s : St) (how : Mut) (f : Nat) : (mutateOne s how f).cfg = s.cfg := by
  unfold mutateOne; repeat' split
  all_goals rfl

theorem mutateOne_sound0 (s : St) (how : Mut) (f : Nat) (hf : s.cfg.fpads.getD f false = false) (h : Sound0 s) :
    Sound0 (mutateOne s how f) := by
  refine ⟨by simpa using h.cfg, ?_⟩
  intro x hx
  rw [mutateOne_cfg]
  unfold mutateOne at hx
  split at hx
  · simp only [List.mem_append, List.mem_filter] at hx
    rcases hx with hx | hx
    · exact h.bad x hx.1
    · exact mem_dataSects _ _ hx.1
  · split at hx
    · exact h.bad x hx
    · simp only [List.mem_append, List.mem_filter, List.mem_map, List.mem_range] at hx
      rcases hx with hx | ⟨⟨i, ⟨_, hany⟩, rfl⟩, _⟩
      · exact h.bad x hx
      · simp only [List.any_eq_true, Bool.and_eq_true, decide_eq_true_eq] at hany
        obtain ⟨sc, hsc, ⟨hfile, h1⟩, h2⟩ := hany
        refine ⟨sc, hsc, hfile, ?_⟩
        simp only [Cfg.isData, Bool.and_eq_true, Bool.not_eq_true', decide_eq_true_eq]
        exact ⟨by rw [hfile]; exact hf, by omega⟩
  · simp only [List.mem_filter] at hx
    exact h.bad x hx.1

theorem mutate_sound0 (s : St) (file : Option Nat) (how : Mut) (h : Sound0 s) : Sound0 (mutate s file how) := by
  rw [mutate_eq]
  have key : ∀ (l : List Nat) (t : St), t.cfg = s.cfg → (∀ f ∈ l, s.cfg.fpads.getD f false = false) → Sound0 t →
      Sound0 (l.foldl (fun s f => mutateOne s how f) t) := by
    intro l
    induction l with
    | nil => intro t _ _ ht; exact ht
    | cons f l ih =>
      intro t hc hl ht
      exact ih _ (by simpa using hc) (fun g hg => hl g (List.mem_cons_of_mem _ hg))
        (mutateOne_sound0 t how f (by rw [hc]; exact hl f (List.mem_cons_self ..)) ht)
  apply key _ s rfl _ h
  intro f hf
  simp only [List.mem_filter, Bool.and_eq_true, Bool.not_eq_true'] at hf
  exact hf.2.1.2

/-- Deleting or restoring a file keeps the weak soundness: a stale bit's bad sections lie in missing files. -/
theorem mutateOne_ws (s : St) (how : Mut) (f : Nat) (hhow : ∀ off, how ≠ .corrupt off) (h : WS s) :
    WS (mutateOne s how f) := by
  intro i hi x hx hxi
  unfold mutateOne at hi hx ⊢
  split at hx
  · simp only [List.mem_append, List.mem_filter] at hx
    dsimp only at hi ⊢
    rw [getD_set]
    rcases hx with hx | hx
    · have hne : x.2 ≠ f := by simpa using hx.2
      rw [if_neg (fun hh => hne hh.1)]
      exact h i hi x hx.1 hxi
    · have he : x.2 = f := by simpa using hx.2
      split
      · rfl
      · next hn =>
        simp only [he, true_and, Nat.not_lt] at hn
        rw [he, List.getD_eq_getElem?_getD, List.getElem?_eq_none hn]
        rfl
  · next off => exact absurd rfl (hhow off)
  · simp only [List.mem_filter] at hx
    dsimp only at hi ⊢
    rw [getD_set]
    have hne : x.2 ≠ f := by simpa using hx.2
    rw [if_neg (fun hh => hne hh.1)]
    exact h i hi x hx.1 hxi

theorem mutate_wsound (s : St) (file : Option Nat) (how : Mut) (hhow : ∀ off, how ≠ .corrupt off)
    (h : WSound s) : WSound (mutate s file how) := by
  have h0 := mutate_sound0 s file how h.zero
  refine ⟨h0.cfg, h0.bad, ?_, ?_⟩
  · rw [mutate_eq]
    exact foldl_inv WS _ (fun t f ht => mutateOne_ws t how f hhow ht) _ _ h.ws
  · intro i hi
    rw [mutate_bf] at hi
    rw [mutate_cfg]
    exact h.pad i hi

end Rain.Loop
