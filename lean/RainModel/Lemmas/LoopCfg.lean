import RainModel.Lemmas.LoopInv
import RainModel.Lemmas.Blocks
import RainModel.Lemmas.LoopWInv
/-!
`CfgWF` for configurations whose block lists are computed from the piece layout by `calcBlocks` (M-BLK) —
which is how the driver's `parseNew` builds them: a piece for which `calcBlocks` returns no block has no
data section, because the blocks tile exactly the non-padding bytes (`runWith_tiles`).
-/
namespace Rain.Loop
open Rain.Blocks

/-- The block lists of a layout, as the driver computes them: `calcBlocks` (16 KiB) over the sections of
every piece (`Driver/Suites/Loop.lean`, `parseNew`). -/
def cfgBlocks (c : Cfg) : List (List (Nat × Nat)) :=
  (List.range c.n).map fun i =>
    let secs := (c.sections i).map fun sc => ({ len := sc.len, pad := c.fpads.getD sc.file false } : Rain.Blocks.Sec)
    match Rain.Blocks.calcBlocks 16384 secs with
    | some bl => bl.map fun b => (b.b, b.l)
    | none => []

theorem npAll_length (flens : List Nat) (pl length : Nat) (k : Nat) (c : NPCur) :
    (npAll flens pl length k c).length = k := by
  induction k generalizing c with
  | zero => rfl
  | succ k ih => unfold npAll; simp [ih]

theorem sections_of_ge (c : Cfg) (i : Nat) (h : c.n ≤ i) : c.sections i = [] := by
  unfold Cfg.sections
  rw [List.getD_eq_getElem?_getD, List.getElem?_eq_none (by rw [npAll_length]; exact h)]
  rfl

/-- An all-false section mask: every section is empty or padding. -/
theorem secMask_all_false (secs : List Sec) (n : Nat) (h : secMask secs = List.replicate n false) :
    ∀ s ∈ secs, s.len = 0 ∨ s.pad = true := by
  intro s hs
  by_cases hl : s.len = 0
  · exact Or.inl hl
  · right
    have hmem : (!s.pad) ∈ secMask secs := by
      unfold secMask
      rw [List.mem_flatMap]
      exact ⟨s, hs, by simp [List.mem_replicate, hl]⟩
    rw [h] at hmem
    have := (List.mem_replicate.1 hmem).2
    simpa using this

/-- No block ⇒ no data byte (`calcBlocks` tiles the non-padding bytes). -/
theorem calcBlocks_nil (secs : List Sec) (h : calcBlocks 16384 secs = some []) :
    ∀ s ∈ secs, s.len = 0 ∨ s.pad = true := by
  unfold calcBlocks at h
  split at h
  · cases h
  · have ht := runWith_tiles 16384 (by decide) secs
    have hr : runWith CB.nextBlock 16384 secs = [] := by simpa using h
    rw [hr] at ht
    unfold Tiles at ht
    simp only [List.all_nil, Bool.true_and] at ht
    have hm : blkMask [] = some [] := rfl
    rw [hm] at ht
    simp only [List.length_nil, Nat.zero_le, decide_true, Bool.true_and, beq_iff_eq] at ht
    unfold padTo at ht
    simp only [List.nil_append, List.length_nil, Nat.sub_zero] at ht
    exact secMask_all_false secs _ ht.symm

/-- **`CfgWF` of every configuration whose blocks are `cfgBlocks`.** -/
theorem cfgWF_of_blocks (c : Cfg) (h : c.blocks = cfgBlocks c) : CfgWF c := by
  intro i hi sc hsc
  by_cases hlt : i < c.n
  · rw [h] at hi
    unfold cfgBlocks at hi
    rw [List.getD_eq_getElem?_getD, List.getElem?_map, List.getElem?_range hlt] at hi
    simp only [Option.map_some, Option.getD_some] at hi
    split at hi
    · next bl hbl =>
      have hnil : bl = [] := by simpa using hi
      subst hnil
      have := calcBlocks_nil _ hbl { len := sc.len, pad := c.fpads.getD sc.file false }
        (List.mem_map.2 ⟨sc, hsc, rfl⟩)
      unfold Cfg.isData
      rcases this with h0 | hp
      · have h0' : sc.len = 0 := h0
        simp [h0']
      · have hp' : c.fpads.getD sc.file false = true := hp
        rw [hp']; rfl
    · next hnone =>
      -- `calcBlocks` refuses only an empty section list
      unfold calcBlocks at hnone
      split at hnone
      · next he =>
        have : c.sections i = [] := by simpa using he
        rw [this] at hsc; cases hsc
      · cases hnone
  · rw [sections_of_ge c i (Nat.le_of_not_lt hlt)] at hsc
    cases hsc

/-! ### the converse: a piece with a block has a non-padding section (`Cfg.blocksHaveData`) -/

theorem paint_true (m : List Bool) (b : Block) (m' : List Bool) (h : paint m b = some m') :
    (true ∈ m → true ∈ m') ∧ (0 < b.l → true ∈ m') := by
  unfold paint at h
  split at h
  · cases h
  · cases h
    refine ⟨fun hm => by simp [hm], fun hl => ?_⟩
    have : true ∈ List.replicate b.l true := by simp [List.mem_replicate]; omega
    simp [this]

theorem foldlM_paint_true (blocks : List Block) (m0 m : List Bool) (h : blocks.foldlM paint m0 = some m) :
    (true ∈ m0 → true ∈ m) ∧ (∀ b ∈ blocks, 0 < b.l → true ∈ m) := by
  induction blocks generalizing m0 with
  | nil =>
    have : m0 = m := by simpa using h
    subst this
    exact ⟨id, fun b hb => by cases hb⟩
  | cons a l ih =>
    rw [List.foldlM_cons] at h
    cases hp : paint m0 a with
    | none => rw [hp] at h; cases h
    | some m1 =>
      rw [hp] at h
      have h1 := paint_true m0 a m1 hp
      have h2 := ih m1 h
      refine ⟨fun hm => h2.1 (h1.1 hm), fun b hb hl => ?_⟩
      rcases List.mem_cons.1 hb with rfl | hb
      · exact h2.1 (h1.2 hl)
      · exact h2.2 b hb hl

/-- A block ⇒ a data byte: if `calcBlocks` returns a block, some section is not padding. -/
theorem calcBlocks_cons (secs : List Sec) (bl : List Block) (h : calcBlocks 16384 secs = some bl) (hne : bl ≠ []) :
    ∃ s ∈ secs, s.pad = false := by
  unfold calcBlocks at h
  split at h
  · cases h
  · have ht := runWith_tiles 16384 (by decide) secs
    have hr : runWith CB.nextBlock 16384 secs = bl := by simpa using h
    rw [hr] at ht
    unfold Tiles at ht
    rw [Bool.and_eq_true] at ht
    obtain ⟨hall, hm⟩ := ht
    cases hbm : blkMask bl with
    | none => rw [hbm] at hm; cases hm
    | some m =>
      rw [hbm] at hm
      simp only [Bool.and_eq_true, decide_eq_true_eq, beq_iff_eq] at hm
      obtain ⟨b, hb⟩ := List.exists_mem_of_ne_nil bl hne
      have hbl : 0 < b.l := by
        have := List.all_eq_true.1 hall b hb
        simp only [Bool.and_eq_true, decide_eq_true_eq] at this
        exact this.1
      have htrue : true ∈ m := (foldlM_paint_true bl [] m hbm).2 b hb hbl
      have htrue' : true ∈ secMask secs := by
        rw [← hm.2]; unfold padTo; simp [htrue]
      unfold secMask at htrue'
      rw [List.mem_flatMap] at htrue'
      obtain ⟨s, hs, hmem⟩ := htrue'
      have := (List.mem_replicate.1 hmem).2
      exact ⟨s, hs, by simpa using this.symm⟩

/-- **`Cfg.blocksHaveData` of every configuration whose blocks are `cfgBlocks`.** -/
theorem blocksHaveData_of_blocks (c : Cfg) (h : c.blocks = cfgBlocks c) : c.blocksHaveData = true := by
  unfold Cfg.blocksHaveData
  rw [List.all_eq_true]
  intro i hi
  have hlt : i < c.n := List.mem_range.1 hi
  rw [Bool.or_eq_true]
  by_cases he : (c.blocks.getD i []).isEmpty = true
  · exact Or.inl he
  · right
    rw [h] at he
    unfold cfgBlocks at he
    rw [List.getD_eq_getElem?_getD, List.getElem?_map, List.getElem?_range hlt] at he
    simp only [Option.map_some, Option.getD_some] at he
    split at he
    · next bl hbl =>
      have hne : bl ≠ [] := by
        intro hnil; subst hnil; simp at he
      obtain ⟨s, hs, hp⟩ := calcBlocks_cons _ bl hbl hne
      obtain ⟨sc, hsc, rfl⟩ := List.mem_map.1 hs
      rw [List.any_eq_true]
      exact ⟨sc, hsc, by simpa using hp⟩
    · simp at he

end Rain.Loop
