import RainModel.Lemmas.LoopNoPanic
import RainModel.Lemmas.LoopHmd
/-!
C19, run level: "PEX runs towards no connected peer" (`NoPexL s.peers`) is preserved by every function
of M-LOOP — unconditionally by all of them except the extension handshake, which preserves it for a
private torrent whose metadata is known.  Together with the frame lemmas for `cfg`, `info` and `dials`
this gives the invariants of `step` / `dstep` / `drun` for a private torrent.
-/
namespace Rain.Loop

/-- PEX runs towards none of the peers of the list. -/
def NoPexL (l : List Peer) : Prop := ∀ p ∈ l, p.pexOn = false

theorem NoPexL.nil : NoPexL [] := fun _ h => nomatch h

theorem NoPexL.subset {l l' : List Peer} (h : NoPexL l) (hs : ∀ p ∈ l', p ∈ l) : NoPexL l' :=
  fun p hp => h p (hs p hp)

@[simp] theorem NoPexL.filter {l : List Peer} (h : NoPexL l) (f : Peer → Bool) : NoPexL (l.filter f) :=
  h.subset fun _ hp => (List.mem_filter.1 hp).1

@[simp] theorem NoPexL.map {l : List Peer} (h : NoPexL l) (f : Peer → Peer)
    (hf : ∀ p, p.pexOn = false → (f p).pexOn = false) : NoPexL (l.map f) := by
  intro p hp
  obtain ⟨q, hq, rfl⟩ := List.mem_map.1 hp
  exact hf q (h q hq)

@[simp] theorem NoPexL.append {l : List Peer} (h : NoPexL l) (p : Peer) (hp : p.pexOn = false) :
    NoPexL (l ++ [p]) := by
  intro q hq
  rcases List.mem_append.1 hq with hq | hq
  · exact h q hq
  · rw [List.mem_singleton.1 hq]; exact hp

/-! ### state-level functions -/

@[simp] theorem updPeer_noPex (s : St) (k : Nat) (f : Peer → Peer) (h : NoPexL s.peers)
    (hf : ∀ p, p.pexOn = false → (f p).pexOn = false) : NoPexL (s.updPeer k f).peers := by
  unfold St.updPeer
  refine h.map _ ?_
  intro p hp
  split
  · exact hf p hp
  · exact hp

@[simp] theorem closePeer_noPex (s : St) (k : Nat) (h : NoPexL s.peers) : NoPexL (s.closePeer k).peers :=
  h.subset (closePeer_peers_subset s k)

@[simp] theorem checkCompletion_noPex (s : St) (h : NoPexL s.peers) : NoPexL s.checkCompletion.1.peers :=
  h.subset (checkCompletion_peers_subset s)

@[simp] theorem stopPeers_noPex (s : St) (h : NoPexL s.peers) : NoPexL (stopPeers s).peers := by
  unfold stopPeers
  exact foldl_inv (fun t : St => NoPexL t.peers) _ (fun t p ht => closePeer_noPex t p.k ht) _ _ h

@[simp] theorem stopRun_noPex (s : St) (e : Bool) (h : NoPexL s.peers) : NoPexL (stopRun s e).peers := by
  simp [stopRun, h]

@[simp] theorem stop_noPex (s : St) (e : Bool) (h : NoPexL s.peers) : NoPexL (s.stop e).peers := by
  rw [stop_eq]; split <;> simp [h]

/-! ### peer messages -/

/-- Closes a leaf `NoPexL (…).peers` from the hypothesis `h : NoPexL m.1.peers`. -/
macro "nopex_leaf" h:ident : tactic =>
  `(tactic| first | exact $h | (simp (maxDischargeDepth := 6) [$h:ident]; done))

@[simp] theorem updateInterested_noPex (m : M) (k : Nat) (h : NoPexL m.1.peers) :
    NoPexL (updateInterested m k).1.peers := by
  unfold updateInterested
  dsimp only
  repeat' split
  all_goals nopex_leaf h

@[simp] theorem haveOne_noPex (m : M) (k i : Nat) (h : NoPexL m.1.peers) : NoPexL (haveOne m k i).1.peers := by
  unfold haveOne
  split
  all_goals nopex_leaf h

@[simp] theorem handlePieceMessage_noPex (m : M) (k i b l : Nat) (g : Bool) (h : NoPexL m.1.peers) :
    NoPexL (handlePieceMessage m k i b l g).1.peers := by
  unfold handlePieceMessage
  dsimp only
  repeat' split
  all_goals nopex_leaf h

theorem foldlM_noPex {α} (f : M → α → M) (hf : ∀ m a, NoPexL m.1.peers → NoPexL (f m a).1.peers)
    (l : List α) (m : M) (h : NoPexL m.1.peers) : NoPexL (l.foldl f m).1.peers :=
  foldl_inv (fun m : M => NoPexL m.1.peers) f hf l m h

@[simp] theorem handlePeerMessage_noPex (m : M) (k : Nat) (msg : Msg) (h : NoPexL m.1.peers) :
    NoPexL (handlePeerMessage m k msg).1.peers := by
  cases msg
  case bitfield bits nb =>
    unfold handlePeerMessage
    dsimp only
    repeat' split
    all_goals first
      | nopex_leaf h
      | (simp only [onSt_fst, startDlFor_peers]
         apply updateInterested_noPex
         apply foldlM_noPex _ _ _ _ h
         intro m a hm
         split
         · exact haveOne_noPex _ _ _ hm
         · exact hm)
  case haveAll =>
    unfold handlePeerMessage
    dsimp only
    repeat' split
    all_goals first
      | nopex_leaf h
      | (simp only [onSt_fst, startDlFor_peers]
         apply updateInterested_noPex
         apply foldlM_noPex _ _ _ _ h
         intro m a hm
         exact haveOne_noPex _ _ _ hm)
  all_goals
    unfold handlePeerMessage
    dsimp only
    repeat' split
    all_goals nopex_leaf h

@[simp] theorem processQueued_noPex (m : M) (h : NoPexL m.1.peers) : NoPexL (processQueued m).1.peers := by
  unfold processQueued
  apply foldlM_noPex _ _ _ _ h
  intro m k hm
  split
  · exact hm
  · apply foldlM_noPex
    · intro m msg hm
      split
      · exact handlePeerMessage_noPex _ _ _ hm
      · exact hm
    · nopex_leaf hm

/-! ### write / allocation / verification completions -/

@[simp] theorem pwdBan_noPex (m : M) (w : WriteJob) (h : NoPexL m.1.peers) : NoPexL (pwdBan m w).1.peers := by
  simp [pwdBan, h]

@[simp] theorem pwdHaves_noPex (m : M) (w : WriteJob) (h : NoPexL m.1.peers) : NoPexL (pwdHaves m w).1.peers := by
  unfold pwdHaves
  apply foldlM_noPex _ _ _ _ h
  intro m p hm
  dsimp only
  split
  all_goals nopex_leaf hm

@[simp] theorem pwdFinish_noPex (m : M) (h : NoPexL m.1.peers) : NoPexL (pwdFinish m).1.peers := by
  unfold pwdFinish
  dsimp only
  repeat' split
  all_goals nopex_leaf h

@[simp] theorem pwdOk_noPex (m : M) (w : WriteJob) (b : List Bool) (h : NoPexL m.1.peers) :
    NoPexL (pwdOk m w b).1.peers := by
  simp (maxDischargeDepth := 6) [pwdOk, h]

@[simp] theorem handlePieceWriteDone_noPex (m : M) (w : WriteJob) (e : Bool) (h : NoPexL m.1.peers) :
    NoPexL (handlePieceWriteDone m w e).1.peers := by
  rw [handlePieceWriteDone_eq]
  dsimp only
  repeat' split
  all_goals nopex_leaf h

@[simp] theorem hadInstall_noPex (m : M) (h : NoPexL m.1.peers) : NoPexL (hadInstall m).1.peers := by
  unfold hadInstall
  simp only [onSt_fst]
  exact h.map _ fun p hp => hp

@[simp] theorem hadReady_noPex (m : M) (h : NoPexL m.1.peers) : NoPexL (hadReady m).1.peers := by
  simp [hadReady, h]

@[simp] theorem hadCheck_noPex (m : M) (h : NoPexL m.1.peers) : NoPexL (hadCheck m).1.peers := by
  unfold hadCheck
  dsimp only
  repeat' split
  all_goals nopex_leaf h

@[simp] theorem hadFresh_noPex (m : M) (h : NoPexL m.1.peers) : NoPexL (hadFresh m).1.peers := by
  unfold hadFresh
  dsimp only
  repeat' split
  all_goals nopex_leaf h

@[simp] theorem hadTrust_noPex (m : M) (b : List Bool) (h : NoPexL m.1.peers) : NoPexL (hadTrust m b).1.peers := by
  simp [hadTrust, h]

@[simp] theorem handleAllocationDone_noPex (m : M) (ex mi : Bool) (h : NoPexL m.1.peers) :
    NoPexL (handleAllocationDone m ex mi).1.peers := by
  rw [handleAllocationDone_eq]
  dsimp only
  repeat' split
  all_goals nopex_leaf h

@[simp] theorem hvdHaves_noPex (m : M) (h : NoPexL m.1.peers) : NoPexL (hvdHaves m).1.peers := by
  unfold hvdHaves
  apply foldlM_noPex _ _ _ _ h
  intro m p hm
  apply updateInterested_noPex
  simpa using hm

@[simp] theorem handleVerificationDone_noPex (m : M) (h : NoPexL m.1.peers) :
    NoPexL (handleVerificationDone m).1.peers := by
  rw [handleVerificationDone_eq]
  dsimp only
  repeat' split
  all_goals nopex_leaf h

/-! ### commands and worker runs -/

@[simp] theorem handleVerifyCommand_noPex (m : M) (h : NoPexL m.1.peers) :
    NoPexL (handleVerifyCommand m).1.peers := by
  unfold handleVerifyCommand
  dsimp only
  repeat' split
  all_goals nopex_leaf h

@[simp] theorem allocatorRun_noPex (m : M) (h : NoPexL m.1.peers) : NoPexL (allocatorRun m).1.peers := by
  unfold allocatorRun
  dsimp only
  repeat' split
  all_goals nopex_leaf h

@[simp] theorem writerRun_noPex (m : M) (w : WriteJob) (h : NoPexL m.1.peers) :
    NoPexL (writerRun m w).1.peers := by
  unfold writerRun
  dsimp only
  repeat' split
  all_goals nopex_leaf h

@[simp] theorem runWorkers_noPex (fuel : Nat) (m : M) (h : NoPexL m.1.peers) :
    NoPexL (runWorkers fuel m).1.peers := by
  induction fuel generalizing m with
  | zero => exact h
  | succ n ih =>
    unfold runWorkers
    dsimp only
    repeat' split
    all_goals first
      | exact h
      | (apply ih; nopex_leaf h)

/-! ### the remaining handlers -/

/-- The extension handshake: the only place where PEX is started.  For a private torrent it is not
(whether or not the metadata is known yet), whatever the peer advertises and whatever `Config.PEXEnabled` says. -/
theorem handleExtHandshake_noPex (m : M) (k : Nat) (hasMeta : Bool) (size : Nat) (hasPex : Bool)
    (hp : m.1.cfg.isPrivate = true) (h : NoPexL m.1.peers) :
    NoPexL (handleExtHandshake m k hasMeta size hasPex).1.peers := by
  unfold handleExtHandshake
  dsimp only
  repeat' split
  all_goals first
    | exact h
    | (simp only [onSt_fst, hp, Bool.not_true, Bool.and_false]
       exact updPeer_noPex _ _ _ h fun _ _ => rfl)

@[simp] theorem hmdStart_noPex (m : M) (h : NoPexL m.1.peers) : NoPexL (hmdStart m).1.peers := by
  unfold hmdStart
  repeat' split
  all_goals nopex_leaf h

@[simp] theorem hmdAdopt_noPex (m : M) (h : NoPexL m.1.peers) : NoPexL (hmdAdopt m).1.peers := by
  unfold hmdAdopt
  dsimp only
  repeat' split
  all_goals nopex_leaf h

@[simp] theorem hmdBlock_noPex (m : M) (d : IDl) (k i len : Nat) (g : Bool) (h : NoPexL m.1.peers) :
    NoPexL (hmdBlock m d k i len g).1.peers := by
  unfold hmdBlock
  dsimp only
  repeat' split
  all_goals nopex_leaf h

@[simp] theorem handleMetadataData_noPex (m : M) (k i len : Nat) (g : Bool) (h : NoPexL m.1.peers) :
    NoPexL (handleMetadataData m k i len g).1.peers := by
  rw [handleMetadataData_eq]
  split
  all_goals nopex_leaf h

@[simp] theorem handleMetadataReject_noPex (m : M) (k : Nat) (h : NoPexL m.1.peers) :
    NoPexL (handleMetadataReject m k).1.peers := by
  unfold handleMetadataReject
  split
  all_goals nopex_leaf h

@[simp] theorem handlePeerSnubbed_noPex (m : M) (k : Nat) (h : NoPexL m.1.peers) :
    NoPexL (handlePeerSnubbed m k).1.peers := by
  unfold handlePeerSnubbed
  dsimp only
  repeat' split
  all_goals nopex_leaf h

@[simp] theorem acceptPeer_noPex (m : M) (k : Nat) (ip : String) (fast ext bad dup : Bool)
    (h : NoPexL m.1.peers) : NoPexL (acceptPeer m k ip fast ext bad dup).1.1.peers := by
  unfold acceptPeer
  dsimp only
  repeat' split
  all_goals first
    | exact h
    | (apply foldlM_noPex
       · intro m x hm; simpa using hm
       · simp only [onSt_fst]; exact h.append _ rfl)

/-! ### reconciliation with the implementation's choices -/

@[simp] theorem reconcile_noPex (s : St) (impl : List ImplDl) (h : NoPexL s.peers) :
    NoPexL (reconcile s impl).1.peers := by
  unfold reconcile
  dsimp only
  refine h.map _ ?_
  intro p hp
  split
  · exact hp
  · exact hp

/-! ### handle, step, dstep, drun -/

theorem deliverParked_noPex (m : M) (p : Parked) (h : NoPexL m.1.peers) :
    NoPexL (deliverParked m p).1.1.peers := by
  unfold deliverParked
  repeat' split
  all_goals first
    | exact h
    | exact runWorkers_noPex _ _ (handlePieceMessage_noPex _ _ _ _ _ _ h)

/-- No handler starts PEX for a private torrent. -/
theorem handle_noPex (s : St) (p : Parked) (kn : Nat → Bool) (op : Op) (hp : s.cfg.isPrivate = true)
    (h : NoPexL s.peers) : NoPexL (handle s p kn op).1.1.peers := by
  unfold handle
  repeat' split
  all_goals first
    | exact h
    | exact handleExtHandshake_noPex (s, []) _ _ _ _ hp h
    | (next heq => have hm := congrArg Prod.fst heq; simp only at hm; rw [← hm]; exact acceptPeer_noPex (s, []) _ _ _ _ _ _ h)
    | (simp (maxDischargeDepth := 6) [h]; done)

theorem step_noPex (s : St) (p : Parked) (kn : Nat → Bool) (op : Op) (hp : s.cfg.isPrivate = true)
    (h : NoPexL s.peers) : NoPexL (step s p kn op).1.st.peers := by
  unfold step
  have h1 := runWorkers_noPex 12 _
    (handle_noPex { s with sto := [], mayStart := [], closedDl := [], mayStartI := false } p kn op hp h)
  dsimp only
  split
  · exact deliverParked_noPex _ _ h1
  · exact h1

theorem dstep_noPex (sp : St × Parked) (e : Ev) (hp : sp.1.cfg.isPrivate = true) (h : NoPexL sp.1.peers) :
    NoPexL (dstep sp e).1.peers := by
  unfold dstep
  simp only [reconcileIdl_peers]
  exact reconcile_noPex _ _ (step_noPex sp.1 sp.2 e.known e.op hp h)

/-! ### `info` and `dials` of a private torrent -/

/-- Metadata received from peers is never adopted when it is marked private. -/
theorem handleMetadataData_info_private (m : M) (k i len : Nat) (good : Bool) (hp : m.1.cfg.isPrivate = true) :
    (handleMetadataData m k i len good).1.info = m.1.info := by
  rcases handleMetadataData_info_cases m k i len good with h | ⟨d, hc⟩
  · exact h
  · rw [handleMetadataData_complete m d k i len good hc, hmdAdopt_refused (hmdStored m d k i good) (Or.inr hp)]
    simp [hmdStored]

/-- For a private torrent no event changes whether the metadata is known: what is known stays known
(no op forgets it, private or not) and what is not known is never adopted. -/
theorem handle_info_private (s : St) (p : Parked) (kn : Nat → Bool) (op : Op) (hp : s.cfg.isPrivate = true) :
    (handle s p kn op).1.1.info = s.info := by
  unfold handle
  repeat' split
  all_goals first
    | rfl
    | exact handleMetadataData_info_private (s, []) _ _ _ _ hp
    | (next heq => have hm := congrArg Prod.fst heq; simp only at hm; rw [← hm]; exact acceptPeer_info (s, []) _ _ _ _ _ _)
    | (simp; done)

theorem step_info_private (s : St) (p : Parked) (kn : Nat → Bool) (op : Op) (hp : s.cfg.isPrivate = true) :
    (step s p kn op).1.st.info = s.info := by
  unfold step
  have h1 := handle_info_private { s with sto := [], mayStart := [], closedDl := [], mayStartI := false } p kn op hp
  dsimp only
  split
  · rw [deliverParked_info, runWorkers_info]; exact h1
  · rw [runWorkers_info]; exact h1

theorem dstep_info_private (sp : St × Parked) (e : Ev) (hp : sp.1.cfg.isPrivate = true) :
    (dstep sp e).1.info = sp.1.info := by
  unfold dstep
  simp only [reconcileIdl_info, reconcile_info]
  exact step_info_private sp.1 sp.2 e.known e.op hp

@[simp] theorem dstep_cfg (sp : St × Parked) (e : Ev) : (dstep sp e).1.cfg = sp.1.cfg := by
  unfold dstep
  simp

/-- No handler dials an address learnt from PEX or the DHT for a private torrent whose metadata is known. -/
theorem handle_dials_private (s : St) (p : Parked) (kn : Nat → Bool) (op : Op)
    (hi : s.info = true) (hp : s.cfg.isPrivate = true) : (handle s p kn op).1.1.dials = s.dials := by
  unfold handle
  repeat' split
  all_goals first
    | rfl
    | (next heq => have hm := congrArg Prod.fst heq; simp only at hm; rw [← hm]; exact acceptPeer_dials (s, []) _ _ _ _ _ _)
    | (simp [handlePex, handleDhtPeers, hi, hp]; done)

theorem step_dials_private (s : St) (p : Parked) (kn : Nat → Bool) (op : Op)
    (hi : s.info = true) (hp : s.cfg.isPrivate = true) : (step s p kn op).1.st.dials = s.dials := by
  unfold step
  have h1 := handle_dials_private { s with sto := [], mayStart := [], closedDl := [], mayStartI := false } p kn op hi hp
  dsimp only
  split
  · rw [deliverParked_dials, runWorkers_dials]; exact h1
  · rw [runWorkers_dials]; exact h1

theorem dstep_dials_private (sp : St × Parked) (e : Ev) (hi : sp.1.info = true) (hp : sp.1.cfg.isPrivate = true) :
    (dstep sp e).1.dials = sp.1.dials := by
  unfold dstep
  simp only [reconcileIdl_dials, reconcile_dials]
  exact step_dials_private sp.1 sp.2 e.known e.op hi hp

/-! ### `info` is never forgotten (any torrent) -/

theorem handleMetadataData_info_mono (m : M) (k i len : Nat) (good : Bool) (h : m.1.info = true) :
    (handleMetadataData m k i len good).1.info = true := by
  rcases handleMetadataData_info_cases m k i len good with h' | ⟨d, hc⟩
  · rw [h', h]
  · rw [handleMetadataData_complete m d k i len good hc, hmdAdopt_info_eq]
    simp [hmdStored, h]

theorem handle_info_mono (s : St) (p : Parked) (kn : Nat → Bool) (op : Op) (h : s.info = true) :
    (handle s p kn op).1.1.info = true := by
  unfold handle
  repeat' split
  all_goals first
    | exact h
    | exact handleMetadataData_info_mono (s, []) _ _ _ _ h
    | (next heq => have hm := congrArg Prod.fst heq; simp only at hm; rw [← hm, acceptPeer_info]; exact h)
    | (simp [h]; done)

/-- No event makes the torrent forget its metadata (private or not). -/
theorem step_info_mono (s : St) (p : Parked) (kn : Nat → Bool) (op : Op) (h : s.info = true) :
    (step s p kn op).1.st.info = true := by
  unfold step
  have h1 := handle_info_mono { s with sto := [], mayStart := [], closedDl := [], mayStartI := false } p kn op h
  dsimp only
  split
  · rw [deliverParked_info, runWorkers_info]; exact h1
  · rw [runWorkers_info]; exact h1

theorem dstep_info_mono (sp : St × Parked) (e : Ev) (h : sp.1.info = true) : (dstep sp e).1.info = true := by
  unfold dstep
  simp only [reconcileIdl_info, reconcile_info]
  exact step_info_mono sp.1 sp.2 e.known e.op h

theorem drun_info_mono (evs : List Ev) (sp : St × Parked) (h : sp.1.info = true) : (drun sp evs).1.info = true := by
  induction evs generalizing sp with
  | nil => exact h
  | cons e evs ih => exact ih _ (dstep_info_mono sp e h)

/-! ### runs -/

@[simp] theorem drun_cfg (evs : List Ev) (sp : St × Parked) : (drun sp evs).1.cfg = sp.1.cfg := by
  induction evs generalizing sp with
  | nil => rfl
  | cons e evs ih => exact (ih _).trans (dstep_cfg sp e)

/-- Along every run of a private torrent: whether the metadata is known never changes and PEX is never
started, from any state and any parked message. -/
theorem drun_private (evs : List Ev) (sp : St × Parked) (hp : sp.1.cfg.isPrivate = true)
    (h : NoPexL sp.1.peers) : (drun sp evs).1.info = sp.1.info ∧ NoPexL (drun sp evs).1.peers := by
  induction evs generalizing sp with
  | nil => exact ⟨rfl, h⟩
  | cons e evs ih =>
    have := ih (dstep sp e) (by rw [dstep_cfg]; exact hp) (dstep_noPex sp e hp h)
    exact ⟨this.1.trans (dstep_info_private sp e hp), this.2⟩

/-- Along every run of a private torrent whose metadata is known no address learnt from PEX or the DHT
is dialled. -/
theorem drun_dials_private (evs : List Ev) (sp : St × Parked) (hi : sp.1.info = true)
    (hp : sp.1.cfg.isPrivate = true) : (drun sp evs).1.dials = sp.1.dials := by
  induction evs generalizing sp with
  | nil => rfl
  | cons e evs ih =>
    exact (ih (dstep sp e) ((dstep_info_private sp e hp).trans hi) (by rw [dstep_cfg]; exact hp)).trans
      (dstep_dials_private sp e hi hp)

end Rain.Loop
