import RainModel.Model.Semaphore
/-! Helper lemmas for `semaphore_bound` (C17). -/
namespace Rain.Semaphore

/-- Inductive invariant of the semaphore protocol. -/
def SemInv (s : State) : Prop :=
  s.cur = s.acq + s.w3 + s.holding ∧ s.cur ≤ s.n ∧ s.waiting = s.w1 + s.acq ∧ s.active = s.holding + s.rel

theorem semInv_step (s s' : State) (a : Act) (h : SemInv s) (hs : step s a = some s') : SemInv s' := by
  obtain ⟨h1, h2, h3, h4⟩ := h
  cases a <;> simp only [step] at hs <;> split at hs <;> first | cases hs | skip
  all_goals
    refine ⟨?_, ?_, ?_, ?_⟩ <;> simp only <;> omega

end Rain.Semaphore
