import RainModel.Model.WriteQueue
/-!
Helper lemmas for M-WQ: the queue invariant under every event, and the trace facts behind
"cancelled / choked-away requests are never sent" and "a request is answered with data at most once".
-/
set_option linter.unusedSimpArgs false
namespace Rain.WriteQueue

theorem countPieces_append (q : List Msg) (m : Msg) :
    countPieces (q ++ [m]) = countPieces q + (if m.isPiece then 1 else 0) := by
  unfold countPieces
  rw [List.filter_append, List.length_append]
  cases h : m.isPiece <;> simp [List.filter_cons, h]

theorem countPieces_filter_not (q : List Msg) : countPieces (q.filter (fun m => !m.isPiece)) = 0 := by
  unfold countPieces
  rw [List.filter_filter]
  simp

theorem countPieces_erase (q : List Msg) (r : Req) (h : Msg.piece r ∈ q) :
    countPieces (q.erase (.piece r)) = countPieces q - 1 ∧ 0 < countPieces q := by
  unfold countPieces
  have hm : Msg.piece r ∈ q.filter Msg.isPiece := List.mem_filter.mpr ⟨h, rfl⟩
  rw [← List.erase_filter, List.length_erase_of_mem hm]
  exact ⟨rfl, List.length_pos_of_mem hm⟩

theorem countPieces_cons (m : Msg) (q : List Msg) :
    countPieces (m :: q) = (if m.isPiece then 1 else 0) + countPieces q := by
  unfold countPieces
  cases h : m.isPiece <;> simp [List.filter_cons, h] <;> omega

theorem new_inv (maxQ : Int) (fast : Bool) : Inv (new maxQ fast) :=
  ⟨rfl, by simp [new]; omega⟩

@[simp] theorem isPiece_piece (r : Req) : (Msg.piece r).isPiece = true := rfl
@[simp] theorem isPiece_reject (r : Req) : (Msg.reject r).isPiece = false := rfl
@[simp] theorem isPiece_choke : Msg.choke.isPiece = false := rfl
@[simp] theorem isPiece_other (i : Nat) (p : Rain.Cache.Bytes) : (Msg.other i p).isPiece = false := rfl

theorem enqueue_maxQueued (s : WQ) (m : Msg) : (enqueue s m).maxQueued = s.maxQueued := by
  cases m with
  | choke => rfl
  | piece r =>
    simp only [enqueue]
    split
    · split <;> rfl
    · rfl
  | reject r => rfl
  | other id p => rfl

theorem cancel_maxQueued (s : WQ) (r : Req) : (cancel s r).maxQueued = s.maxQueued := by
  unfold cancel; split <;> rfl

theorem handoff_maxQueued (s : WQ) (d : DataRes) : (handoff s d).1.maxQueued = s.maxQueued := by
  unfold handoff; split
  · rfl
  · split <;> rfl

theorem enqueue_inv' (s : WQ) (h : Inv s) (m : Msg) : Inv (enqueue s m) := by
  have hc := h.count; have hb := h.bound
  cases m with
  | choke =>
    refine ⟨?_, ?_⟩
    · simp only [enqueue, dropPieces, countPieces_append, countPieces_filter_not, isPiece_choke]
      rw [hc]; simp
    · simp only [enqueue, dropPieces]; omega
  | piece r =>
    unfold enqueue
    by_cases hfull : s.queued ≥ s.maxQueued
    · simp only [hfull, if_true]
      cases s.fast
      · exact h
      · refine ⟨?_, hb⟩
        simp only [if_true, countPieces_append, isPiece_reject]; simpa using hc
    · simp only [hfull, if_false]
      refine ⟨?_, ?_⟩
      · simp only [countPieces_append, isPiece_piece, if_true]; rw [hc]; simp
      · simp only; omega
  | reject r =>
    refine ⟨?_, hb⟩
    simp only [enqueue, countPieces_append, isPiece_reject]; simpa using hc
  | other id p =>
    refine ⟨?_, hb⟩
    simp only [enqueue, countPieces_append, isPiece_other]; simpa using hc

theorem enqueue_inv (s : WQ) (h : Inv s) (m : Msg) :
    Inv (enqueue s m) ∧ (enqueue s m).maxQueued = s.maxQueued := ⟨enqueue_inv' s h m, enqueue_maxQueued s m⟩

theorem cancel_inv (s : WQ) (h : Inv s) (r : Req) : Inv (cancel s r) ∧ (cancel s r).maxQueued = s.maxQueued := by
  refine ⟨?_, cancel_maxQueued s r⟩
  unfold cancel
  by_cases hm : Msg.piece r ∈ s.queue
  · simp only [hm, if_true]
    obtain ⟨h1, h2⟩ := countPieces_erase s.queue r hm
    refine ⟨?_, ?_⟩
    · simp only; rw [h1, h.count]; omega
    · have := h.bound; simp only; omega
  · simp only [hm, if_false]; exact h

theorem handoff_inv (s : WQ) (h : Inv s) (d : DataRes) :
    Inv (handoff s d).1 ∧ (handoff s d).1.maxQueued = s.maxQueued := by
  refine ⟨?_, handoff_maxQueued s d⟩
  unfold handoff
  cases hd : s.dead
  · simp only [Bool.false_eq_true, if_false]
    cases hq : s.queue with
    | nil => simp only; exact h
    | cons m rest =>
      simp only
      have hc := h.count; have hb := h.bound
      rw [hq, countPieces_cons] at hc
      refine ⟨?_, ?_⟩
      · simp only; cases hp : m.isPiece <;> simp [hp] at hc ⊢ <;> omega
      · simp only; cases hp : m.isPiece <;> simp [hp] at hc ⊢ <;> omega
  · simp only [if_true]; exact h

theorem step_inv (s : WQ) (h : Inv s) (o : Op) : Inv (step s o).1 ∧ (step s o).1.maxQueued = s.maxQueued := by
  cases o with
  | enqueue m => exact enqueue_inv s h m
  | cancel r => exact cancel_inv s h r
  | handoff d => exact handoff_inv s h d

theorem run_inv (ops : List Op) : ∀ (s : WQ), Inv s → Inv (run s ops) ∧ (run s ops).maxQueued = s.maxQueued := by
  induction ops with
  | nil => intro s h; exact ⟨h, rfl⟩
  | cons o r ih =>
    intro s h
    obtain ⟨h1, h2⟩ := step_inv s h o
    obtain ⟨g1, g2⟩ := ih _ h1
    exact ⟨g1, g2.trans h2⟩

/-! ### messages that can no longer be sent -/

/-- Enqueue does not add `piece r` unless that is the message enqueued. -/
theorem enqueue_mem (s : WQ) (m x : Msg) (hx : x ∈ (enqueue s m).queue) :
    x ∈ s.queue ∨ x = m ∨ (∃ r, m = .piece r ∧ x = .reject r) := by
  cases m with
  | choke =>
    simp only [enqueue, dropPieces, List.mem_append, List.mem_singleton, List.mem_filter] at hx
    rcases hx with h | h
    · exact Or.inl h.1
    · exact Or.inr (Or.inl h)
  | piece r =>
    unfold enqueue at hx
    by_cases hfull : s.queued ≥ s.maxQueued
    · simp only [hfull, if_true] at hx
      cases hf : s.fast
      · simp [hf] at hx; exact Or.inl hx
      · simp [hf] at hx
        rcases hx with h | h
        · exact Or.inl h
        · exact Or.inr (Or.inr ⟨r, rfl, h⟩)
    · simp only [hfull, if_false, List.mem_append, List.mem_singleton] at hx
      rcases hx with h | h
      · exact Or.inl h
      · exact Or.inr (Or.inl h)
  | reject r =>
    simp only [enqueue, List.mem_append, List.mem_singleton] at hx
    rcases hx with h | h
    · exact Or.inl h
    · exact Or.inr (Or.inl h)
  | other id p =>
    simp only [enqueue, List.mem_append, List.mem_singleton] at hx
    rcases hx with h | h
    · exact Or.inl h
    · exact Or.inr (Or.inl h)

theorem cancel_mem (s : WQ) (r : Req) (x : Msg) (hx : x ∈ (cancel s r).queue) : x ∈ s.queue := by
  unfold cancel at hx
  by_cases hm : Msg.piece r ∈ s.queue
  · simp only [hm, if_true] at hx; exact List.mem_of_mem_erase hx
  · simpa [hm] using hx

theorem handoff_mem (s : WQ) (d : DataRes) (x : Msg) (hx : x ∈ (handoff s d).1.queue) : x ∈ s.queue := by
  unfold handoff at hx
  cases hd : s.dead
  · simp only [hd, Bool.false_eq_true, if_false] at hx
    cases hq : s.queue with
    | nil => simp [hq] at hx
    | cons m rest => simp only [hq] at hx; exact List.mem_cons_of_mem _ hx
  · simpa [hd] using hx

theorem handoff_taken (s : WQ) (d : DataRes) (m : Msg) (out : Sent) (h : (handoff s d).2 = some (m, out)) :
    m ∈ s.queue ∧ out = (writeMsg s.served m d).2 := by
  unfold handoff at h
  cases hd : s.dead
  · simp only [hd, Bool.false_eq_true, if_false] at h
    cases hq : s.queue with
    | nil => simp [hq] at h
    | cons m' rest =>
      simp only [hq, Option.some.injEq, Prod.mk.injEq] at h
      obtain ⟨h1, h2⟩ := h
      subst h1
      exact ⟨List.mem_cons_self, h2.symm⟩
  · simp [hd] at h

/-- If `piece r` is not in the queue and is not enqueued again, the writer never gets it. -/
theorem handed_no_piece (r : Req) (ops : List Op) : ∀ (s : WQ), Msg.piece r ∉ s.queue →
    (∀ o ∈ ops, o ≠ .enqueue (.piece r)) → ∀ x ∈ handed s ops, x.1 ≠ .piece r := by
  induction ops with
  | nil => intro s _ _ x hx; simp [handed] at hx
  | cons o rest ih =>
    intro s hs hops x hx
    have hrest : ∀ o' ∈ rest, o' ≠ .enqueue (.piece r) := fun o' ho' => hops o' (List.mem_cons_of_mem _ ho')
    have hkeep : Msg.piece r ∉ (step s o).1.queue := by
      intro hin
      cases o with
      | enqueue m =>
        rcases enqueue_mem s m _ hin with h | h | ⟨r', _, h⟩
        · exact hs h
        · exact hops (.enqueue m) List.mem_cons_self (by rw [h])
        · cases h
      | cancel r' => exact hs (cancel_mem s r' _ hin)
      | handoff d => exact hs (handoff_mem s d _ hin)
    unfold handed at hx
    generalize hg : step s o = g at hx hkeep
    obtain ⟨s', res⟩ := g
    cases res with
    | none => exact ih s' hkeep hrest x hx
    | some y =>
      simp only [List.mem_cons] at hx
      rcases hx with hx | hx
      · subst hx
        cases o with
        | enqueue m => simp [step] at hg
        | cancel r' => simp [step] at hg
        | handoff d =>
          simp only [step] at hg
          have h2 : (handoff s d).2 = some x := by rw [hg]
          obtain ⟨hm, _⟩ := handoff_taken s d x.1 x.2 h2
          intro e; exact hs (e ▸ hm)
      · exact ih s' hkeep hrest x hx

theorem cancel_removes (s : WQ) (r : Req) (h : List.count (Msg.piece r) s.queue ≤ 1) :
    Msg.piece r ∉ (cancel s r).queue := by
  unfold cancel
  by_cases hm : Msg.piece r ∈ s.queue
  · simp only [hm, if_true]
    apply List.count_eq_zero.mp
    rw [List.count_erase_self]; omega
  · simpa [hm] using hm

theorem choke_removes (s : WQ) (r : Req) : Msg.piece r ∉ (enqueue s .choke).queue := by
  simp [enqueue, dropPieces]

/-! ### a request is answered with data at most once -/

theorem be32_length (n : Nat) : (be32 n).length = 4 := rfl

theorem isDataFrame_frame (id : Nat) (p : Rain.Cache.Bytes) : isDataFrame (frame id p) = (id == 7) := by
  simp [isDataFrame, frame, be32]

theorem dataSent_cons (x : Msg × Sent) (h : List (Msg × Sent)) :
    dataSent (x :: h) = match dataOf x with | some r => r :: dataSent h | none => dataSent h := by
  simp only [dataSent, List.filterMap_cons]
  cases dataOf x <;> rfl

/-- What the writer does with a piece message. -/
theorem writeMsg_piece (served : List Req) (r : Req) (d : DataRes) :
    (r ∈ served ∧ writeMsg served (.piece r) d = (served, .frame (frame 16 (reqBytes r)))) ∨
    (r ∉ served ∧ (writeMsg served (.piece r) d).1 = r :: served ∧
      ((maxBlock < r.l ∧ (writeMsg served (.piece r) d).2 = .panic) ∨
       (r.l ≤ maxBlock ∧ ((∃ bytes, (d = .ok bytes ∨ d = .eof bytes) ∧
            (writeMsg served (.piece r) d).2 = .frame (pieceFrame r bytes)) ∨
          (d = .err ∧ (writeMsg served (.piece r) d).2 = .died))))) := by
  unfold writeMsg
  by_cases hin : r ∈ served
  · left; simp [hin]
  · right
    simp only [hin, if_false, true_and, not_false_eq_true]
    by_cases hl : r.l > maxBlock
    · simp [hl]
    · simp only [hl, if_false]
      refine ⟨by cases d <;> rfl, Or.inr ⟨Nat.le_of_not_lt hl, ?_⟩⟩
      cases d with
      | ok bytes =>
        left; refine ⟨bytes, Or.inl rfl, ?_⟩
        simp only [frame, pieceFrame, List.length_append, be32_length, List.append_assoc]
        have e : 1 + (4 + (4 + bytes.length)) = 9 + bytes.length := by omega
        rw [e]
      | eof bytes =>
        left; refine ⟨bytes, Or.inr rfl, ?_⟩
        simp only [frame, pieceFrame, List.length_append, be32_length, List.append_assoc]
        have e : 1 + (4 + (4 + bytes.length)) = 9 + bytes.length := by omega
        rw [e]
      | err => right; exact ⟨rfl, rfl⟩

theorem handoff_served (s : WQ) (d : DataRes) (m : Msg) (out : Sent) (h : (handoff s d).2 = some (m, out)) :
    (handoff s d).1.served = (writeMsg s.served m d).1 := by
  unfold handoff at h ⊢
  cases hd : s.dead
  · simp only [hd, Bool.false_eq_true, if_false] at h ⊢
    cases hq : s.queue with
    | nil => simp [hq] at h
    | cons m' rest =>
      simp only [hq, Option.some.injEq, Prod.mk.injEq] at h ⊢
      rw [h.1]
  · simp [hd] at h

theorem handoff_none_served (s : WQ) (d : DataRes) (h : (handoff s d).2 = none) : (handoff s d).1.served = s.served := by
  unfold handoff at h ⊢
  cases hd : s.dead
  · simp only [hd, Bool.false_eq_true, if_false] at h ⊢
    cases hq : s.queue with
    | nil => rfl
    | cons m' rest => simp [hq] at h
  · simp [hd]

theorem enqueue_served (s : WQ) (m : Msg) : (enqueue s m).served = s.served := by
  cases m with
  | choke => rfl
  | piece r =>
    simp only [enqueue]
    split
    · split <;> rfl
    · rfl
  | reject r => rfl
  | other id p => rfl

theorem cancel_served (s : WQ) (r : Req) : (cancel s r).served = s.served := by
  unfold cancel; split <;> rfl

/-- In any history the requests answered with a data-carrying piece frame are pairwise distinct and
none of them had been served before the history started. -/
theorem dataSent_nodup (ops : List Op) : ∀ (s : WQ),
    (dataSent (handed s ops)).Nodup ∧ ∀ r ∈ dataSent (handed s ops), r ∉ s.served := by
  induction ops with
  | nil => intro s; simp [handed, dataSent]
  | cons o rest ih =>
    intro s
    unfold handed
    cases o with
    | enqueue m =>
      simp only [step]
      have := ih (enqueue s m)
      rw [enqueue_served] at this
      exact this
    | cancel r =>
      simp only [step]
      have := ih (cancel s r)
      rw [cancel_served] at this
      exact this
    | handoff d =>
      simp only [step]
      cases hh : (handoff s d).2 with
      | none =>
        have := ih (handoff s d).1
        rw [handoff_none_served s d hh] at this
        generalize hg : handoff s d = g at hh this
        obtain ⟨s', res⟩ := g
        simp only at hh; subst hh
        exact this
      | some x =>
        obtain ⟨m, out⟩ := x
        have hserved := handoff_served s d m out hh
        obtain ⟨_, hout⟩ := handoff_taken s d m out hh
        have hih := ih (handoff s d).1
        generalize hg : handoff s d = g at hh hih hserved
        obtain ⟨s', res⟩ := g
        simp only at hh hserved hih; subst hh
        simp only
        -- is this hand-off a data frame?
        cases m with
        | piece r =>
          rcases writeMsg_piece s.served r d with ⟨hin, hw⟩ | ⟨hnin, hs1, hrest⟩
          · -- duplicate: a reject frame, nothing new is served
            simp only [hw] at hserved hout
            have : dataSent ((Msg.piece r, out) :: handed s' rest) = dataSent (handed s' rest) := by
              subst hout
              simp [dataSent_cons, dataOf, isDataFrame_frame]
            rw [this, ← hserved]; exact hih
          · rw [hs1] at hserved
            have hsub : ∀ q ∈ dataSent (handed s' rest), q ∉ s.served ∧ q ≠ r := by
              intro q hq
              have := hih.2 q hq
              rw [hserved] at this
              simp only [List.mem_cons, not_or] at this
              exact ⟨this.2, this.1⟩
            cases hdo : dataOf (Msg.piece r, out) with
            | none =>
              rw [dataSent_cons, hdo]
              exact ⟨hih.1, fun q hq => (hsub q hq).1⟩
            | some r' =>
              have hr' : r' = r := by
                cases out with
                | frame bs =>
                  simp only [dataOf] at hdo
                  split at hdo
                  · cases hdo; rfl
                  · cases hdo
                | died => simp [dataOf] at hdo
                | panic => simp [dataOf] at hdo
              subst hr'
              rw [dataSent_cons, hdo]
              refine ⟨List.nodup_cons.mpr ⟨fun hq => (hsub r' hq).2 rfl, hih.1⟩, ?_⟩
              intro q hq
              rcases List.mem_cons.mp hq with e | hq
              · subst e; exact hnin
              · exact (hsub q hq).1
        | reject r =>
          have hs : s'.served = s.served := by rw [hserved]; rfl
          have : dataSent ((Msg.reject r, out) :: handed s' rest) = dataSent (handed s' rest) := by
            simp [dataSent_cons, dataOf]
          rw [this, ← hs]; exact hih
        | choke =>
          have hs : s'.served = s.served := by rw [hserved]; rfl
          have : dataSent ((Msg.choke, out) :: handed s' rest) = dataSent (handed s' rest) := by
            simp [dataSent_cons, dataOf]
          rw [this, ← hs]; exact hih
        | other id p =>
          have hs : s'.served = s.served := by rw [hserved]; rfl
          have : dataSent ((Msg.other id p, out) :: handed s' rest) = dataSent (handed s' rest) := by
            simp [dataSent_cons, dataOf]
          rw [this, ← hs]; exact hih

end Rain.WriteQueue
