import RainModel.Model.PickerInv
/-!
Helper lemmas for M-PICK (C09): sliceset facts, frame lemmas for the state updates, preservation
of every clause of `PickInv` by every picker call the caller protocol allows.
-/
namespace Rain.Picker

/-! ### sliceset -/

theorem mem_sadd {l : List Nat} {x y : Nat} : y ∈ sadd l x ↔ y ∈ l ∨ y = x := by
  unfold sadd; split <;> simp_all

theorem nodup_sadd {l : List Nat} {x : Nat} (h : l.Nodup) : (sadd l x).Nodup := by
  unfold sadd; split
  · exact h
  · rw [List.nodup_append]; simp_all
    intro a ha hax; subst hax; contradiction

theorem length_sadd_le (l : List Nat) (x : Nat) : (sadd l x).length ≤ l.length + 1 := by
  unfold sadd; split <;> simp

theorem mem_erase_nodup {l : List Nat} {x y : Nat} (h : l.Nodup) : y ∈ l.erase x ↔ y ≠ x ∧ y ∈ l :=
  h.mem_erase_iff

/-- The model's `List.erase` is `SliceSet.Remove` up to the order of the remaining elements. -/
theorem removeSwap_perm_erase : ∀ (l : List Nat) (x : Nat), (removeSwap l x).Perm (l.erase x)
  | [], _ => by simp [removeSwap]
  | y :: r, x => by
    simp only [removeSwap]
    by_cases h : y = x
    · subst h
      simp only [if_true, List.erase_cons_head]
      cases hl : r.getLast? with
      | none => simp [List.getLast?_eq_none_iff.mp hl]
      | some z =>
        simp only
        have : r = r.dropLast ++ [z] := by
          have hne : r ≠ [] := by intro e; subst e; simp at hl
          have h1 := List.dropLast_concat_getLast hne
          have h2 : r.getLast hne = z := by
            rw [List.getLast?_eq_some_getLast hne] at hl; exact Option.some.inj hl
          rw [h2] at h1; exact h1.symm
        conv => rhs; rw [this]
        exact (List.perm_append_singleton z r.dropLast).symm
    · simp only [h, if_false]
      rw [List.erase_cons_tail (by simpa using h)]
      exact (removeSwap_perm_erase r x).cons y

/-! ### state updates -/

@[simp] theorem setPiece_pieces (s : State) (i : Nat) (pc : Piece) (j : Nat) :
    (setPiece s i pc).pieces j = if j = i then pc else s.pieces j := rfl
@[simp] theorem setPiece_n (s : State) (i : Nat) (pc : Piece) : (setPiece s i pc).n = s.n := rfl
@[simp] theorem setPiece_np (s : State) (i : Nat) (pc : Piece) : (setPiece s i pc).np = s.np := rfl
@[simp] theorem setPiece_ns (s : State) (i : Nat) (pc : Piece) : (setPiece s i pc).ns = s.ns := rfl
@[simp] theorem setPiece_peers (s : State) (i : Nat) (pc : Piece) : (setPiece s i pc).peers = s.peers := rfl
@[simp] theorem setPiece_srcs (s : State) (i : Nat) (pc : Piece) : (setPiece s i pc).srcs = s.srcs := rfl
@[simp] theorem setPiece_maxDup (s : State) (i : Nat) (pc : Piece) : (setPiece s i pc).maxDup = s.maxDup := rfl
@[simp] theorem setPiece_maxWeb (s : State) (i : Nat) (pc : Piece) : (setPiece s i pc).maxWeb = s.maxWeb := rfl
@[simp] theorem setPiece_available (s : State) (i : Nat) (pc : Piece) : (setPiece s i pc).available = s.available := rfl
@[simp] theorem setPiece_endgame (s : State) (i : Nat) (pc : Piece) : (setPiece s i pc).endgame = s.endgame := rfl
@[simp] theorem setPiece_sequential (s : State) (i : Nat) (pc : Piece) : (setPiece s i pc).sequential = s.sequential := rfl

@[simp] theorem setPeer_peers (s : State) (p : Nat) (ps : PeerSt) (q : Nat) :
    (setPeer s p ps).peers q = if q = p then ps else s.peers q := rfl
@[simp] theorem setPeer_n (s : State) (p : Nat) (ps : PeerSt) : (setPeer s p ps).n = s.n := rfl
@[simp] theorem setPeer_np (s : State) (p : Nat) (ps : PeerSt) : (setPeer s p ps).np = s.np := rfl
@[simp] theorem setPeer_ns (s : State) (p : Nat) (ps : PeerSt) : (setPeer s p ps).ns = s.ns := rfl
@[simp] theorem setPeer_pieces (s : State) (p : Nat) (ps : PeerSt) : (setPeer s p ps).pieces = s.pieces := rfl
@[simp] theorem setPeer_srcs (s : State) (p : Nat) (ps : PeerSt) : (setPeer s p ps).srcs = s.srcs := rfl
@[simp] theorem setPeer_maxDup (s : State) (p : Nat) (ps : PeerSt) : (setPeer s p ps).maxDup = s.maxDup := rfl
@[simp] theorem setPeer_maxWeb (s : State) (p : Nat) (ps : PeerSt) : (setPeer s p ps).maxWeb = s.maxWeb := rfl
@[simp] theorem setPeer_available (s : State) (p : Nat) (ps : PeerSt) : (setPeer s p ps).available = s.available := rfl
@[simp] theorem setPeer_endgame (s : State) (p : Nat) (ps : PeerSt) : (setPeer s p ps).endgame = s.endgame := rfl
@[simp] theorem setPeer_sequential (s : State) (p : Nat) (ps : PeerSt) : (setPeer s p ps).sequential = s.sequential := rfl

@[simp] theorem setSrc_srcs (s : State) (k : Nat) (d : Option Dl) (j : Nat) :
    (setSrc s k d).srcs j = if j = k then d else s.srcs j := rfl
@[simp] theorem setSrc_n (s : State) (k : Nat) (d : Option Dl) : (setSrc s k d).n = s.n := rfl
@[simp] theorem setSrc_np (s : State) (k : Nat) (d : Option Dl) : (setSrc s k d).np = s.np := rfl
@[simp] theorem setSrc_ns (s : State) (k : Nat) (d : Option Dl) : (setSrc s k d).ns = s.ns := rfl
@[simp] theorem setSrc_pieces (s : State) (k : Nat) (d : Option Dl) : (setSrc s k d).pieces = s.pieces := rfl
@[simp] theorem setSrc_peers (s : State) (k : Nat) (d : Option Dl) : (setSrc s k d).peers = s.peers := rfl
@[simp] theorem setSrc_maxDup (s : State) (k : Nat) (d : Option Dl) : (setSrc s k d).maxDup = s.maxDup := rfl
@[simp] theorem setSrc_maxWeb (s : State) (k : Nat) (d : Option Dl) : (setSrc s k d).maxWeb = s.maxWeb := rfl
@[simp] theorem setSrc_available (s : State) (k : Nat) (d : Option Dl) : (setSrc s k d).available = s.available := rfl
@[simp] theorem setSrc_endgame (s : State) (k : Nat) (d : Option Dl) : (setSrc s k d).endgame = s.endgame := rfl
@[simp] theorem setSrc_sequential (s : State) (k : Nat) (d : Option Dl) : (setSrc s k d).sequential = s.sequential := rfl

/-! ### `available` -/

theorem countP_range_update (f g : Nat → Bool) (i : Nat) (hfg : ∀ j, j ≠ i → g j = f j) (n : Nat) :
    (List.range n).countP g + (if i < n ∧ f i then 1 else 0) =
    (List.range n).countP f + (if i < n ∧ g i then 1 else 0) := by
  induction n with
  | zero => simp
  | succ n ih =>
    rw [List.range_succ, List.countP_append, List.countP_append]
    simp only [List.countP_cons, List.countP_nil]
    by_cases hin : i = n
    · subst hin
      simp at ih
      have : (List.range i).countP g = (List.range i).countP f := by
        apply List.countP_congr
        intro x hx; simp at hx; rw [hfg x (by omega)]
      simp [this]; 
      cases f i <;> cases g i <;> simp
    · have := hfg n (Ne.symm hin)
      rw [this]
      by_cases hlt : i < n
      · simp [hlt, show i < n + 1 by omega] at ih ⊢; omega
      · simp [hlt, show ¬ i < n + 1 by omega] at ih ⊢; omega

theorem countAvail_setPiece (s : State) (i : Nat) (pc : Piece) (hi : i < s.n) :
    countAvail (setPiece s i pc) + (if (s.pieces i).having.isEmpty then 0 else 1) =
    countAvail s + (if pc.having.isEmpty then 0 else 1) := by
  have := countP_range_update (fun j => !(s.pieces j).having.isEmpty)
    (fun j => !((setPiece s i pc).pieces j).having.isEmpty) i (by intro j hj; simp [hj]) s.n
  simp [hi] at this
  unfold countAvail
  simp only [setPiece_n]
  cases h1 : (s.pieces i).having.isEmpty <;> cases h2 : pc.having.isEmpty <;> simp_all <;> omega


/-! ### automation -/

macro "upd_simp" : tactic => `(tactic| simp only [setPiece_pieces, setPiece_n, setPiece_np, setPiece_ns, setPiece_peers,
  setPiece_srcs, setPiece_maxDup, setPiece_maxWeb, setPiece_available, setPiece_endgame, setPiece_sequential,
  setPeer_peers, setPeer_n, setPeer_np, setPeer_ns, setPeer_pieces, setPeer_srcs, setPeer_maxDup, setPeer_maxWeb,
  setPeer_available, setPeer_endgame, setPeer_sequential,
  setSrc_srcs, setSrc_n, setSrc_np, setSrc_ns, setSrc_pieces, setSrc_peers, setSrc_maxDup, setSrc_maxWeb,
  setSrc_available, setSrc_endgame, setSrc_sequential] at *)

/-- One clause of `PickInv` for an updated state from the clauses of the old state in context. -/
macro "clause_auto" : tactic => `(tactic| (
  (try simp only [NodupOk, ReqSubHaving, StalledOk, DupLimit, DoneIdle, ReqDl, ChokedOk, HavingOpen, WebOwner, DlReq,
    ClosedIdle, AfRange, SrcOk, MaxWebOk, Option.mem_def] at *)
  (try upd_simp)
  grind [List.nodup_append, mem_sadd, nodup_sadd, length_sadd_le, List.Nodup.mem_erase_iff, List.Nodup.erase, List.length_erase]))

/-- `PickInv` without `DoneIdle` (which is suspended inside `handlePieceWriteDone`: `Done` is set
before the remaining downloaders of the piece are closed). -/
structure PickCore (s : State) : Prop where
  nodup : NodupOk s
  reqSubHaving : ReqSubHaving s
  stalled : StalledOk s
  dupLimit : DupLimit s
  reqDl : ReqDl s
  chokedOk : ChokedOk s
  havingOpen : HavingOpen s
  webOwner : WebOwner s
  dlReq : DlReq s
  closedIdle : ClosedIdle s
  afRange : AfRange s
  srcOk : SrcOk s
  avail : AvailOk s
  maxWeb : MaxWebOk s

theorem PickInv.core {s : State} (h : PickInv s) : PickCore s :=
  ⟨h.nodup, h.reqSubHaving, h.stalled, h.dupLimit, h.reqDl, h.chokedOk, h.havingOpen, h.webOwner, h.dlReq,
   h.closedIdle, h.afRange, h.srcOk, h.avail, h.maxWeb⟩

theorem PickCore.inv {s : State} (h : PickCore s) (hd : DoneIdle s) : PickInv s :=
  ⟨h.nodup, h.reqSubHaving, h.stalled, h.dupLimit, hd, h.reqDl, h.chokedOk, h.havingOpen, h.webOwner, h.dlReq,
   h.closedIdle, h.afRange, h.srcOk, h.avail, h.maxWeb⟩

theorem countAvail_congr {s s' : State} (hn : s'.n = s.n) (hp : ∀ j, (s'.pieces j).having = (s.pieces j).having) :
    countAvail s' = countAvail s := by
  unfold countAvail; rw [hn]; apply List.countP_congr; intro j _; simp [hp j]

/-! ### event handlers -/

theorem handleHave_inv (s : State) (p i : Nat) (h : PickInv s) (hp : p < s.np)
    (hc : (s.peers p).closed = false) (hi : i < s.n) :
    ∃ s', handleHave s p i = .ok s' ∧ PickInv s' := by
  unfold handleHave
  simp only [hi, if_true]
  split
  · exact ⟨s, rfl, h⟩
  · rename_i hmem
    refine ⟨_, rfl, ?_⟩
    obtain ⟨h1, h2, h3, h4, h5, h6, h7, h8, h9, h10, h11, h12, h13, h14, h15⟩ := h
    constructor
    case avail =>
      unfold AvailOk at *
      have key := countAvail_setPiece s i { s.pieces i with having := (s.pieces i).having ++ [p] } hi
      show (if _ then _ else _) = countAvail (setPiece s i _)
      cases hh : (s.pieces i).having with
      | nil => simp [hh] at key ⊢; omega
      | cons a l => simp [hh] at key ⊢; omega
    all_goals clause_auto

theorem handleAllowedFast_inv (s : State) (p i : Nat) (h : PickInv s) (hi : i < s.n) :
    ∃ s', handleAllowedFast s p i = .ok s' ∧ PickInv s' := by
  unfold handleAllowedFast
  simp only [hi, if_true]
  refine ⟨_, rfl, ?_⟩
  obtain ⟨h1, h2, h3, h4, h5, h6, h7, h8, h9, h10, h11, h12, h13, h14, h15⟩ := h
  constructor
  case avail => exact h14
  all_goals clause_auto

theorem availOk_of_same {s s' : State} (h : AvailOk s) (ha : s'.available = s.available) (hn : s'.n = s.n)
    (hp : ∀ j, (s'.pieces j).having = (s.pieces j).having) : AvailOk s' := by
  unfold AvailOk at *; rw [ha, h, countAvail_congr hn hp]

/-- `AvailOk` for a state whose `Having` sets, `n` and `available` are those of the state of `h`. -/
macro "avail_same" h:ident : tactic => `(tactic| (
  refine availOk_of_same $h rfl rfl ?_
  intro j; simp only [setPiece_pieces, setPeer_pieces, setSrc_pieces]
  all_goals ((repeat' split) <;> simp_all)))

/-! ### steps of the protocol that touch one peer and at most its piece -/

theorem step_connect_inv (legacy : Bool) (s : State) (h : PickInv s) :
    ∀ r ∈ step legacy s .connect, ∃ s' o, r = .ok (s', o) ∧ PickInv s' := by
  intro r hr
  simp only [step, List.mem_singleton] at hr; subst hr
  refine ⟨_, _, rfl, ?_⟩
  obtain ⟨h1, h2, h3, h4, h5, h6, h7, h8, h9, h10, h11, h12, h13, h14, h15⟩ := h
  constructor
  case avail => avail_same h14
  all_goals (simp only [freshPeer]; clause_auto)

theorem step_have_inv (legacy : Bool) (s : State) (p i : Nat) (h : PickInv s) :
    ∀ r ∈ step legacy s (.have p i), ∃ s' o, r = .ok (s', o) ∧ PickInv s' := by
  intro r hr
  simp only [step] at hr
  split at hr
  · rename_i hpre
    obtain ⟨s', he, hs'⟩ := handleHave_inv s p i h hpre.1 hpre.2.1 hpre.2.2
    simp [he] at hr; subst hr; exact ⟨_, _, rfl, hs'⟩
  · simp at hr; subst hr; exact ⟨_, _, rfl, h⟩

theorem step_afast_inv (legacy : Bool) (s : State) (p i : Nat) (h : PickInv s) :
    ∀ r ∈ step legacy s (.afast p i), ∃ s' o, r = .ok (s', o) ∧ PickInv s' := by
  intro r hr
  simp only [step] at hr
  split at hr
  · rename_i hpre
    obtain ⟨s', he, hs'⟩ := handleAllowedFast_inv s p i h hpre.2.2
    simp [he] at hr; subst hr; exact ⟨_, _, rfl, hs'⟩
  · simp at hr; subst hr; exact ⟨_, _, rfl, h⟩

theorem step_unchoke_inv (legacy : Bool) (s : State) (p : Nat) (h : PickInv s) :
    ∀ r ∈ step legacy s (.unchoke p), ∃ s' o, r = .ok (s', o) ∧ PickInv s' := by
  intro r hr
  simp only [step] at hr
  split at hr
  · rename_i hpre; obtain ⟨hp, hc⟩ := hpre
    obtain ⟨h1, h2, h3, h4, h5, h6, h7, h8, h9, h10, h11, h12, h13, h14, h15⟩ := h
    split at hr
    · rename_i i hdl
      have hi : i < s.n := (h10 p hp (i, false) (by simp [hdl])).1
      simp [handleUnchoke, hi] at hr; subst hr
      refine ⟨_, _, rfl, ?_⟩
      constructor
      case avail => avail_same h14
      all_goals clause_auto
    · simp at hr; subst hr
      refine ⟨_, _, rfl, ?_⟩
      constructor
      case avail => avail_same h14
      all_goals clause_auto
  · simp at hr; subst hr; exact ⟨_, _, rfl, h⟩

theorem step_choke_inv (legacy : Bool) (s : State) (p : Nat) (h : PickInv s) :
    ∀ r ∈ step legacy s (.choke p), ∃ s' o, r = .ok (s', o) ∧ PickInv s' := by
  intro r hr
  simp only [step] at hr
  split at hr
  · rename_i hpre; obtain ⟨hp, hc⟩ := hpre
    obtain ⟨h1, h2, h3, h4, h5, h6, h7, h8, h9, h10, h11, h12, h13, h14, h15⟩ := h
    split at hr
    · rename_i i hdl
      have hi : i < s.n := (h10 p hp (i, false) (by simp [hdl])).1
      have hreq : p ∈ (s.pieces i).requested := (h10 p hp (i, false) (by simp [hdl])).2
      simp [handleChoke, hi] at hr; subst hr
      refine ⟨_, _, rfl, ?_⟩
      constructor
      case avail => avail_same h14
      all_goals clause_auto
    · simp at hr; subst hr
      refine ⟨_, _, rfl, ?_⟩
      constructor
      case avail => avail_same h14
      all_goals clause_auto
  · simp at hr; subst hr; exact ⟨_, _, rfl, h⟩

theorem step_snub_inv (legacy : Bool) (s : State) (p : Nat) (h : PickInv s) :
    ∀ r ∈ step legacy s (.snub p), ∃ s' o, r = .ok (s', o) ∧ PickInv s' := by
  intro r hr
  simp only [step] at hr
  split at hr
  · rename_i hpre; obtain ⟨hp, hc⟩ := hpre
    split at hr
    · rename_i i af hdl
      split at hr
      · simp at hr; subst hr; exact ⟨_, _, rfl, h⟩
      · rename_i hch
        obtain ⟨h1, h2, h3, h4, h5, h6, h7, h8, h9, h10, h11, h12, h13, h14, h15⟩ := h
        have hi : i < s.n := (h10 p hp (i, af) (by simp [hdl])).1
        have hreq : p ∈ (s.pieces i).requested := (h10 p hp (i, af) (by simp [hdl])).2
        have hnc : p ∉ (s.pieces i).choked := by
          intro hc'; have := (h7 i hi p hc').1; simp_all
        simp [handleSnubbed, hi, hnc] at hr; subst hr
        refine ⟨_, _, rfl, ?_⟩
        constructor
        case avail => avail_same h14
        all_goals clause_auto
    · simp at hr; subst hr; exact ⟨_, _, rfl, h⟩
  · simp at hr; subst hr; exact ⟨_, _, rfl, h⟩


/-- The state after `closePieceDownloader` of the peer's downloader. -/
def cancelState (s : State) (p : Nat) : State :=
  match (s.peers p).dl with
  | none => s
  | some (i, _) =>
    setPeer (setPiece s i ((s.pieces i).cancel p)) p { s.peers p with dl := none }

theorem cancelPeer_eq (s : State) (p : Nat) (hd : DlReq s) (hp : p < s.np) :
    cancelPeer s p = .ok (cancelState s p) := by
  unfold cancelPeer cancelState
  cases hdl : (s.peers p).dl with
  | none => rfl
  | some x =>
    obtain ⟨i, af⟩ := x
    have hi : i < s.n := (hd p hp (i, af) (by simp [hdl])).1
    simp [handleCancelDownload, hi, bind, Except.bind, pure, Except.pure]

theorem cancelState_core (s : State) (p : Nat) (h : PickCore s) (hp : p < s.np) : PickCore (cancelState s p) := by
  unfold cancelState
  split
  · exact h
  · rename_i i af hdl
    obtain ⟨h1, h2, h3, h4, h6, h7, h8, h9, h10, h11, h12, h13, h14, h15⟩ := h
    have hi : i < s.n := (h10 p hp (i, af) (by simp [hdl])).1
    have hreq : p ∈ (s.pieces i).requested := (h10 p hp (i, af) (by simp [hdl])).2
    simp only [Piece.cancel]
    constructor
    case avail => avail_same h14
    all_goals clause_auto

theorem cancelState_doneIdle (s : State) (p : Nat) (h : DoneIdle s) : DoneIdle (cancelState s p) := by
  unfold cancelState
  split
  · exact h
  · unfold DoneIdle at *
    intro j hj hdone
    simp only [setPeer_pieces, setPiece_pieces, Piece.cancel] at hdone ⊢
    split at hdone <;> split <;> simp_all

theorem cancelState_inv (s : State) (p : Nat) (h : PickInv s) (hp : p < s.np) : PickInv (cancelState s p) :=
  (cancelState_core s p h.core hp).inv (cancelState_doneIdle s p h.doneIdle)

@[simp] theorem cancelState_n (s : State) (p : Nat) : (cancelState s p).n = s.n := by
  unfold cancelState; split <;> rfl
@[simp] theorem cancelState_np (s : State) (p : Nat) : (cancelState s p).np = s.np := by
  unfold cancelState; split <;> rfl
@[simp] theorem cancelState_ns (s : State) (p : Nat) : (cancelState s p).ns = s.ns := by
  unfold cancelState; split <;> rfl
@[simp] theorem cancelState_srcs (s : State) (p : Nat) : (cancelState s p).srcs = s.srcs := by
  unfold cancelState; split <;> rfl
@[simp] theorem cancelState_maxDup (s : State) (p : Nat) : (cancelState s p).maxDup = s.maxDup := by
  unfold cancelState; split <;> rfl
theorem cancelState_dl (s : State) (p : Nat) : ((cancelState s p).peers p).dl = none := by
  unfold cancelState; split <;> simp_all
theorem cancelState_closed (s : State) (p q : Nat) : ((cancelState s p).peers q).closed = (s.peers q).closed := by
  unfold cancelState; split <;> simp; split <;> simp_all
theorem cancelState_flags (s : State) (p j : Nat) :
    ((cancelState s p).pieces j).done = (s.pieces j).done ∧ ((cancelState s p).pieces j).writing = (s.pieces j).writing ∧
    ((cancelState s p).pieces j).having = (s.pieces j).having ∧ ((cancelState s p).pieces j).webseed = (s.pieces j).webseed := by
  unfold cancelState; split <;> simp [Piece.cancel]; split <;> simp_all

theorem step_cancel_inv (legacy : Bool) (s : State) (p : Nat) (h : PickInv s) :
    ∀ r ∈ step legacy s (.cancel p), ∃ s' o, r = .ok (s', o) ∧ PickInv s' := by
  intro r hr
  simp only [step] at hr
  split at hr
  · rename_i hpre
    rw [cancelPeer_eq s p h.dlReq hpre.1] at hr
    simp at hr; subst hr
    exact ⟨_, _, rfl, cancelState_inv s p h hpre.1⟩
  · simp at hr; subst hr; exact ⟨_, _, rfl, h⟩

/-- Setting or clearing `Writing`/`Done` of a piece that nobody is downloading. -/
theorem setFlags_inv (s : State) (i : Nat) (w d : Bool) (h : PickInv s)
    (hd : d = true → (s.pieces i).requested = []) :
    PickInv (setPiece s i { s.pieces i with writing := w, done := d }) := by
  obtain ⟨h1, h2, h3, h4, h5, h6, h7, h8, h9, h10, h11, h12, h13, h14, h15⟩ := h
  constructor
  case avail => avail_same h14
  all_goals clause_auto

theorem step_pdone_inv (legacy : Bool) (s : State) (p : Nat) (h : PickInv s) :
    ∀ r ∈ step legacy s (.pdone p), ∃ s' o, r = .ok (s', o) ∧ PickInv s' := by
  intro r hr
  simp only [step] at hr
  split at hr
  · rename_i hpre
    split at hr
    · rename_i i af hdl
      split at hr
      · simp at hr; subst hr; exact ⟨_, _, rfl, h⟩
      · rename_i hfl
        rw [cancelPeer_eq s p h.dlReq hpre.1] at hr
        simp at hr; subst hr
        refine ⟨_, _, rfl, ?_⟩
        have hI := cancelState_inv s p h hpre.1
        have hf := cancelState_flags s p i
        have := setFlags_inv (cancelState s p) i true ((cancelState s p).pieces i).done hI (by
          intro hd; rw [hf.1] at hd; simp_all)
        exact this
    · simp at hr; subst hr; exact ⟨_, _, rfl, h⟩
  · simp at hr; subst hr; exact ⟨_, _, rfl, h⟩

theorem step_wwrite_inv (legacy : Bool) (s : State) (i : Nat) (h : PickInv s) :
    ∀ r ∈ step legacy s (.wwrite i), ∃ s' o, r = .ok (s', o) ∧ PickInv s' := by
  intro r hr
  simp only [step] at hr
  split at hr
  · rename_i hpre
    simp at hr; subst hr
    refine ⟨_, _, rfl, ?_⟩
    have := setFlags_inv s i true (s.pieces i).done h (by intro hd; simp_all)
    exact this
  · simp at hr; subst hr; exact ⟨_, _, rfl, h⟩

theorem step_wfail_inv (legacy : Bool) (s : State) (i : Nat) (h : PickInv s) :
    ∀ r ∈ step legacy s (.wfail i), ∃ s' o, r = .ok (s', o) ∧ PickInv s' := by
  intro r hr
  simp only [step] at hr
  split at hr
  · rename_i hpre
    simp at hr; subst hr
    refine ⟨_, _, rfl, ?_⟩
    have := setFlags_inv s i false (s.pieces i).done h (by intro hd; exact h.doneIdle i hpre.1 hd)
    exact this
  · simp at hr; subst hr; exact ⟨_, _, rfl, h⟩

theorem step_wadv_inv (legacy : Bool) (s : State) (k : Nat) (h : PickInv s) :
    ∀ r ∈ step legacy s (.wadv k), ∃ s' o, r = .ok (s', o) ∧ PickInv s' := by
  intro r hr
  simp only [step] at hr
  split at hr
  · rename_i hk
    split at hr
    · rename_i d hd
      split at hr
      · rename_i hlt
        simp at hr; subst hr
        refine ⟨_, _, rfl, ?_⟩
        obtain ⟨h1, h2, h3, h4, h5, h6, h7, h8, h9, h10, h11, h12, h13, h14, h15⟩ := h
        constructor
        case avail => avail_same h14
        all_goals clause_auto
      · simp at hr; subst hr; exact ⟨_, _, rfl, h⟩
    · simp at hr; subst hr; exact ⟨_, _, rfl, h⟩
  · simp at hr; subst hr; exact ⟨_, _, rfl, h⟩


theorem setPiece_self (s : State) (i : Nat) : setPiece s i (s.pieces i) = s := by
  unfold setPiece
  have : (fun j => if j = i then s.pieces i else s.pieces j) = s.pieces := by
    funext j; split <;> simp_all
  rw [this]

theorem cancel_of_not_requested {s : State} (h : PickInv s) {i p : Nat} (hi : i < s.n)
    (hnr : p ∉ (s.pieces i).requested) : (s.pieces i).cancel p = s.pieces i := by
  have h3 := h.stalled i hi
  have hs : p ∉ (s.pieces i).snubbed := fun hm => hnr (h3.1 p hm).1
  have hc : p ∉ (s.pieces i).choked := fun hm => hnr (h3.2 p hm)
  unfold Piece.cancel
  rw [List.erase_of_not_mem hnr, List.erase_of_not_mem hs, List.erase_of_not_mem hc]

theorem removeHavingPeer_inv (s : State) (i p : Nat) (h : PickInv s) (hi : i < s.n)
    (hnr : p ∉ (s.pieces i).requested) : PickInv (removeHavingPeer s i p) := by
  unfold removeHavingPeer
  simp only []
  split
  · rename_i hmem
    obtain ⟨h1, h2, h3, h4, h5, h6, h7, h8, h9, h10, h11, h12, h13, h14, h15⟩ := h
    constructor
    case avail =>
      unfold AvailOk at *
      have key := countAvail_setPiece s i { s.pieces i with having := (s.pieces i).having.erase p } hi
      show (if _ then _ else _) = countAvail (setPiece s i _)
      have hne : (s.pieces i).having.isEmpty = false := by
        cases hh : (s.pieces i).having with
        | nil => simp [hh] at hmem
        | cons a l => rfl
      simp only [hne] at key
      by_cases he : ((s.pieces i).having.erase p).length = 0
      · have he' : ((s.pieces i).having.erase p).isEmpty = true := by
          simpa [List.isEmpty_iff] using List.eq_nil_of_length_eq_zero he
        simp only [he'] at key
        simp only [he, if_true]
        unfold decU32
        have : s.available ≠ 0 := by simp at key; omega
        simp [this]; simp at key; omega
      · have he' : ((s.pieces i).having.erase p).isEmpty = false := by
          cases hh : (s.pieces i).having.erase p with
          | nil => simp [hh] at he
          | cons a l => rfl
        simp only [he'] at key
        simp only [he, if_false]
        simp at key; omega
    all_goals clause_auto
  · exact h

theorem removeHavingPeer_frame (s : State) (i p : Nat) :
    (removeHavingPeer s i p).n = s.n ∧ (removeHavingPeer s i p).np = s.np ∧ (removeHavingPeer s i p).ns = s.ns ∧
    (removeHavingPeer s i p).peers = s.peers ∧ (removeHavingPeer s i p).srcs = s.srcs ∧
    (∀ j, j ≠ i → (removeHavingPeer s i p).pieces j = s.pieces j) ∧
    ((s.pieces i).having.Nodup → p ∉ ((removeHavingPeer s i p).pieces i).having) ∧
    (∀ j, ((removeHavingPeer s i p).pieces j).requested = (s.pieces j).requested) := by
  unfold removeHavingPeer
  simp only []
  split
  · refine ⟨rfl, rfl, rfl, rfl, rfl, ?_, ?_, ?_⟩
    · intro j hj; simp [hj]
    · intro hnd; simp [hnd.mem_erase_iff]
    · intro j; simp; split <;> simp_all
  · refine ⟨rfl, rfl, rfl, rfl, rfl, fun _ _ => rfl, fun _ => by assumption, fun _ => rfl⟩

theorem disconnectLoop_inv (p : Nat) (k : Nat) (s : State) (h : PickInv s) (hk : k ≤ s.n)
    (hnr : ∀ j, j < s.n → p ∉ (s.pieces j).requested) :
    PickInv (disconnectLoop p k s) ∧ (disconnectLoop p k s).n = s.n ∧ (disconnectLoop p k s).np = s.np ∧
    (disconnectLoop p k s).ns = s.ns ∧ (disconnectLoop p k s).peers = s.peers ∧
    (∀ j, j < k → p ∉ ((disconnectLoop p k s).pieces j).having) ∧
    (∀ j, ((disconnectLoop p k s).pieces j).requested = (s.pieces j).requested) := by
  induction k with
  | zero => exact ⟨h, rfl, rfl, rfl, rfl, fun j hj => absurd hj (Nat.not_lt_zero j), fun _ => rfl⟩
  | succ k ih =>
    obtain ⟨hI, hn, hnp, hns, hpe, hhav, hreq⟩ := ih (by omega)
    simp only [disconnectLoop]
    have hkn : k < (disconnectLoop p k s).n := by omega
    have hnr' : p ∉ ((disconnectLoop p k s).pieces k).requested := by rw [hreq]; exact hnr k (by omega)
    rw [cancel_of_not_requested hI hkn hnr', setPiece_self]
    have hf := removeHavingPeer_frame (disconnectLoop p k s) k p
    refine ⟨removeHavingPeer_inv _ k p hI hkn hnr', by rw [hf.1, hn], by rw [hf.2.1, hnp], by rw [hf.2.2.1, hns],
      by rw [hf.2.2.2.1, hpe], ?_, ?_⟩
    · intro j hj
      by_cases hjk : j = k
      · subst hjk; exact hf.2.2.2.2.2.2.1 (hI.nodup j hkn).1
      · rw [hf.2.2.2.2.2.1 j hjk]; exact hhav j (by omega)
    · intro j; rw [hf.2.2.2.2.2.2.2 j, hreq j]

theorem step_disc_inv (legacy : Bool) (s : State) (p : Nat) (h : PickInv s) :
    ∀ r ∈ step legacy s (.disc p), ∃ s' o, r = .ok (s', o) ∧ PickInv s' := by
  intro r hr
  simp only [step] at hr
  split at hr
  · rename_i hpre
    rw [cancelPeer_eq s p h.dlReq hpre.1] at hr
    simp at hr; subst hr
    refine ⟨_, _, rfl, ?_⟩
    have hI := cancelState_inv s p h hpre.1
    have hdl := cancelState_dl s p
    have hnr : ∀ j, j < (cancelState s p).n → p ∉ ((cancelState s p).pieces j).requested := by
      intro j hj hm
      have := hI.reqDl j hj p hm
      rw [hdl] at this; simp at this
    obtain ⟨hL, hn, hnp, hns, hpe, hhav, hreq⟩ :=
      disconnectLoop_inv p (cancelState s p).n (cancelState s p) hI (Nat.le_refl _) hnr
    unfold handleDisconnect
    generalize disconnectLoop p (cancelState s p).n (cancelState s p) = s2 at *
    have hdl2 : (s2.peers p).dl = none := by rw [hpe]; exact hdl
    obtain ⟨h1, h2, h3, h4, h5, h6, h7, h8, h9, h10, h11, h12, h13, h14, h15⟩ := hL
    have hhav' : ∀ j, j < s2.n → p ∉ (s2.pieces j).having := by
      intro j hj; exact hhav j (by omega)
    clear hI hnr hreq hn hnp hns hpe hhav h hdl
    constructor
    case avail => avail_same h14
    case nodup => clause_auto
    case reqSubHaving => clause_auto
    case stalled => clause_auto
    case dupLimit => clause_auto
    case doneIdle => clause_auto
    case reqDl => clause_auto
    case chokedOk => clause_auto
    case havingOpen => clause_auto
    case webOwner => clause_auto
    case dlReq => clause_auto
    case closedIdle => clause_auto
    case afRange => clause_auto
    case srcOk => clause_auto
    case maxWeb => clause_auto
  · simp at hr; subst hr; exact ⟨_, _, rfl, h⟩

end Rain.Picker
